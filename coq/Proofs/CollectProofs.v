(* C16 -- proofs about the collector transition system of Model/Collect.v:
   invariants of every reachable state (= every schedule), the termination
   measure, the analysis of states in which nothing can happen any more, and
   the in-progress guard. *)
From Coq Require Import ZArith List Bool Lia Arith.
From ST Require Import Model.Collect.
Import ListNotations.
Open Scope Z_scope.

(* ---------- lists ---------- *)

Lemma upd_length : forall A (l : list A) k v, length (upd l k v) = length l.
Proof. induction l as [|x l IH]; intros [|k] v; simpl; auto. Qed.

Lemma nth_upd_same : forall A (l : list A) k v d, (k < length l)%nat -> nth k (upd l k v) d = v.
Proof. induction l as [|x l IH]; intros [|k] v d Hk; simpl in *; try lia; auto. apply IH; lia. Qed.

Lemma nth_upd_other : forall A (l : list A) k k' v d, k <> k' -> nth k' (upd l k v) d = nth k' l d.
Proof.
  induction l as [|x l IH]; intros [|k] [|k'] v d Hne; simpl; auto; try congruence.
Qed.

Lemma nth_not_default_lt : forall A (l : list A) k d, nth k l d <> d -> (k < length l)%nat.
Proof.
  intros A l k d Hn. destruct (Nat.lt_ge_cases k (length l)) as [H|H]; auto.
  rewrite nth_overflow in Hn by lia. congruence.
Qed.

Definition alive_p (l : list pst) : nat := length (filter (fun p => negb (is_done p)) l).

Lemma alive_upd : forall l k v, (k < length l)%nat ->
  (alive_p (upd l k v) + (if is_done (nth k l Done) then 0 else 1) = alive_p l + (if is_done v then 0 else 1))%nat.
Proof.
  unfold alive_p. induction l as [|x l IH]; intros [|k] v Hk; simpl in *; try lia.
  - destruct (is_done x), (is_done v); simpl; lia.
  - specialize (IH k v ltac:(lia)). destruct (is_done x); simpl; lia.
Qed.

Lemma alive_zero_all_done : forall l, alive_p l = 0%nat -> forall k, nth k l Done = Done.
Proof.
  unfold alive_p. induction l as [|x l IH]; intros H [|k]; simpl in *; auto.
  - destruct x; simpl in H; try discriminate; auto.
  - apply IH. destruct (is_done x); simpl in H; try discriminate; auto.
Qed.

Lemma alive_pos_exists : forall l, (0 < alive_p l)%nat -> exists k, (k < length l)%nat /\ nth k l Done <> Done.
Proof.
  unfold alive_p. induction l as [|x l IH]; simpl; intros H; try lia.
  destruct x; simpl in H.
  - exists 0%nat; split; [lia|simpl; congruence].
  - exists 0%nat; split; [lia|simpl; congruence].
  - destruct (IH H) as [k [Hk Hn]]. exists (S k); split; [lia|auto].
Qed.

Lemma existsb_ready_false : forall l, existsb is_ready l = false -> forall k, nth k l Done <> Ready.
Proof.
  induction l as [|x l IH]; intros H [|k]; simpl in *; try congruence.
  - apply orb_false_iff in H. destruct H as [H _]. destruct x; simpl in *; congruence.
  - apply orb_false_iff in H. destruct H as [_ H]. auto.
Qed.

Lemma existsb_ready_true : forall l k, nth k l Done = Ready -> existsb is_ready l = true.
Proof.
  induction l as [|x l IH]; intros [|k] H; simpl in *; try congruence.
  - subst; reflexivity.
  - rewrite (IH k H). apply orb_true_r.
Qed.

Lemma sum_upd : forall l k v, (k < length l)%nat ->
  (list_sum (map pweight (upd l k v)) + pweight (nth k l Done) = list_sum (map pweight l) + pweight v)%nat.
Proof.
  induction l as [|x l IH]; intros [|k] v Hk; simpl in *; try lia.
  specialize (IH k v ltac:(lia)). lia.
Qed.

(* ---------- inversion of step ---------- *)

Lemma pstate_lt : forall s k, pstate s k <> Done -> (k < length (prods s))%nat.
Proof. intros s k H. eapply nth_not_default_lt; eauto. Qed.

Inductive step_spec (sc : scen) (s : st) : label -> st -> Prop :=
| sp_finish : forall k t, pstate s k = Working -> ctime sc k = Some t -> timed_ok sc s t = true ->
    step_spec sc s (Finish k) (mkst (upd (prods s) k Ready) (coll s) (ms s) (drain s) (cancelled s) (Z.max (now s) t) (recvd s))
| sp_cancel : cancelled s = false -> timed_ok sc s (dl sc) = true ->
    step_spec sc s Cancel (mkst (prods s) (coll s) (ms s) (drain s) true (Z.max (now s) (dl sc)) (recvd s))
| sp_recv : forall k i j, coll s = Loop i j -> i <> length (ms s) -> pstate s k = Ready ->
    step_spec sc s (Recv k) (mkst (upd (prods s) k Done) (Loop (S i) (snd (store (ms s) j (cres sc k))))
                                  (fst (store (ms s) j (cres sc k))) (drain s) (cancelled s) (now s) (recvd s ++ [k]))
| sp_quit : forall i j, coll s = Loop i j -> i <> length (ms s) -> cancelled s = true ->
    step_spec sc s Quit (mkst (prods s) (Ret j (now s)) (ms s) (Some (length (ms s) - i)%nat) (cancelled s) (now s) (recvd s))
| sp_exit : forall i j, coll s = Loop i j -> i = length (ms s) ->
    step_spec sc s Exit (mkst (prods s) (Ret j (now s)) (ms s) (Some (length (ms s) - i)%nat) (cancelled s) (now s) (recvd s))
| sp_drain : forall k r, drain s = Some (S r) -> pstate s k = Ready ->
    step_spec sc s (DrainRecv k) (mkst (upd (prods s) k Done) (coll s) (ms s) (Some r) (cancelled s) (now s) (recvd s)).

Lemma is_ready_true : forall p, is_ready p = true -> p = Ready.
Proof. destruct p; simpl; congruence. Qed.

Lemma step_inv : forall sc s l s', step sc s l = Some s' -> step_spec sc s l s'.
Proof.
  intros sc s l s' H. destruct l as [k| |k| | |k]; simpl in H.
  - destruct (pstate s k) eqn:Hp; try discriminate. destruct (ctime sc k) as [t|] eqn:Hc; try discriminate.
    destruct (timed_ok sc s t) eqn:Ht; try discriminate. inversion H; subst. econstructor; eauto.
  - destruct (negb (cancelled s) && timed_ok sc s (dl sc)) eqn:Hb; try discriminate. inversion H; subst.
    apply andb_true_iff in Hb. destruct Hb as [Hc Ht]. apply negb_true_iff in Hc. constructor; auto.
  - destruct (coll s) as [i j|] eqn:Hc; try discriminate.
    destruct (Nat.eqb i (length (ms s))) eqn:Hi; simpl in H; try discriminate.
    destruct (is_ready (pstate s k)) eqn:Hr; try discriminate. inversion H; subst.
    apply Nat.eqb_neq in Hi. apply is_ready_true in Hr. econstructor; eauto.
  - destruct (coll s) as [i j|] eqn:Hc; try discriminate.
    destruct (negb (Nat.eqb i (length (ms s))) && cancelled s) eqn:Hb; try discriminate. inversion H; subst.
    apply andb_true_iff in Hb. destruct Hb as [Hi Hca]. apply negb_true_iff in Hi. apply Nat.eqb_neq in Hi.
    econstructor; eauto.
  - destruct (coll s) as [i j|] eqn:Hc; try discriminate.
    destruct (Nat.eqb i (length (ms s))) eqn:Hi; try discriminate. inversion H; subst.
    apply Nat.eqb_eq in Hi. econstructor; eauto.
  - destruct (drain s) as [[|r]|] eqn:Hd; try discriminate.
    destruct (is_ready (pstate s k)) eqn:Hr; try discriminate. inversion H; subst.
    apply is_ready_true in Hr. econstructor; eauto.
Qed.

(* ---------- reachable states = states of all schedules ---------- *)

Inductive reachable (sc : scen) : st -> Prop :=
| r_init : reachable sc (init sc)
| r_step : forall s l s', reachable sc s -> step sc s l = Some s' -> reachable sc s'.

Lemma exec_reachable : forall sc ls s s', reachable sc s -> exec sc s ls = Some s' -> reachable sc s'.
Proof.
  intros sc ls. induction ls as [|l ls IH]; simpl; intros s s' Hr He.
  - inversion He; subst; auto.
  - destruct (step sc s l) as [s1|] eqn:Hs; try discriminate. apply (IH s1 s'); auto. eapply r_step; eauto.
Qed.

Lemma reachable_exec : forall sc s, reachable sc s -> exists ls, exec sc (init sc) ls = Some s.
Proof.
  intros sc s H. induction H as [|s l s' Hr [ls IH] Hs].
  - exists []; reflexivity.
  - exists (ls ++ [l]). revert IH. generalize (init sc). induction ls as [|x ls IHl]; simpl; intros s0 He.
    + inversion He; subst. rewrite Hs. reflexivity.
    + destruct (step sc s0 x); try discriminate. auto.
Qed.

(* ---------- termination measure ---------- *)

Lemma step_measure : forall sc s l s', step sc s l = Some s' -> (measure s' + 1 = measure s)%nat.
Proof.
  intros sc s l s' H. apply step_inv in H. unfold measure.
  destruct H; simpl.
  - pose proof (sum_upd (prods s) k Ready) as Hs. unfold pstate in H. rewrite H in Hs. simpl in Hs.
    assert (Hk : (k < length (prods s))%nat) by (apply pstate_lt; unfold pstate; congruence).
    specialize (Hs Hk). lia.
  - rewrite H. lia.
  - pose proof (sum_upd (prods s) k Done) as Hs. unfold pstate in H1. rewrite H1 in Hs. simpl in Hs.
    assert (Hk : (k < length (prods s))%nat) by (apply pstate_lt; unfold pstate; congruence).
    specialize (Hs Hk). rewrite H. lia.
  - rewrite H. lia.
  - rewrite H. lia.
  - pose proof (sum_upd (prods s) k Done) as Hs. unfold pstate in H0. rewrite H0 in Hs. simpl in Hs.
    assert (Hk : (k < length (prods s))%nat) by (apply pstate_lt; unfold pstate; congruence).
    specialize (Hs Hk). lia.
Qed.

Lemma exec_length_bound : forall sc ls s s', exec sc s ls = Some s' -> (length ls + measure s' = measure s)%nat.
Proof.
  intros sc ls. induction ls as [|l ls IH]; simpl; intros s s' H.
  - inversion H; subst; lia.
  - destruct (step sc s l) as [s1|] eqn:Hs; try discriminate.
    apply step_measure in Hs. apply IH in H. lia.
Qed.

Lemma measure_init : forall sc, measure (init sc) = (2 * nclk sc + 2)%nat.
Proof.
  intros sc. unfold measure, init; simpl. generalize (nclk sc). intros n.
  assert (list_sum (map pweight (repeat Working n)) = (2 * n)%nat).
  { induction n; simpl; auto. rewrite IHn. lia. }
  lia.
Qed.

(* every schedule has at most 2n+2 transitions *)
Lemma schedules_finite : forall sc ls s, exec sc (init sc) ls = Some s -> (length ls <= 2 * nclk sc + 2)%nat.
Proof. intros sc ls s H. apply exec_length_bound in H. rewrite measure_init in H. lia. Qed.

(* ---------- facts about the scenario ---------- *)

Definition wf (sc : scen) : Prop := length (s_ms0 sc) = nclk sc.

Definition maxfold (sc : scen) (ks : list nat) : Z :=
  fold_right (fun k acc => match ctime sc k with Some t => Z.max t acc | None => Z.max (dl sc) acc end) 0 ks.

Lemma exact_ret_fold : forall sc, exact_ret sc = maxfold sc (seq 0 (nclk sc)).
Proof. reflexivity. Qed.

Lemma maxfold_nonneg : forall sc ks, 0 <= maxfold sc ks.
Proof. intros sc ks. induction ks as [|k ks IH]; simpl; try lia. destruct (ctime sc k); lia. Qed.

Lemma maxfold_some : forall sc ks k t, In k ks -> ctime sc k = Some t -> t <= maxfold sc ks.
Proof.
  intros sc ks k t. induction ks as [|x ks IH]; simpl; intros Hin Hc; [contradiction|].
  destruct Hin as [->|Hin].
  - rewrite Hc. lia.
  - specialize (IH Hin Hc). destruct (ctime sc x); lia.
Qed.

Lemma maxfold_none : forall sc ks k, In k ks -> ctime sc k = None -> dl sc <= maxfold sc ks.
Proof.
  intros sc ks k. induction ks as [|x ks IH]; simpl; intros Hin Hc; [contradiction|].
  destruct Hin as [->|Hin].
  - rewrite Hc. lia.
  - specialize (IH Hin Hc). destruct (ctime sc x); lia.
Qed.

Lemma maxfold_le : forall sc ks X, 0 <= X ->
  (forall k, In k ks -> exists t, ctime sc k = Some t /\ t <= X) -> maxfold sc ks <= X.
Proof.
  intros sc ks X HX. induction ks as [|x ks IH]; simpl; intros H; try lia.
  destruct (H x (or_introl eq_refl)) as [t [Hc Ht]]. rewrite Hc.
  assert (maxfold sc ks <= X) by (apply IH; intros k Hk; apply H; auto). lia.
Qed.

Lemma dl_nonneg : forall sc, 0 <= dl sc.
Proof. intros; unfold dl; lia. Qed.

Lemma ctime_nonneg : forall sc k t, ctime sc k = Some t -> 0 <= t.
Proof.
  unfold ctime. intros sc k t H. destruct (nth_error (s_clocks sc) k) as [c|]; try discriminate.
  destruct (c_done c); inversion H; lia.
Qed.

(* ---------- timed events ---------- *)

Lemma pending_work : forall sc s k t, pstate s k = Working -> ctime sc k = Some t -> In t (pending sc s).
Proof.
  intros sc s k t Hp Hc. unfold pending. apply in_or_app. right.
  unfold work_times. apply in_flat_map. exists k. split.
  - apply in_seq. split; [lia|]. simpl. apply pstate_lt. congruence.
  - rewrite Hp, Hc. left; reflexivity.
Qed.

Lemma pending_dl : forall sc s, cancelled s = false -> In (dl sc) (pending sc s).
Proof. intros sc s H. unfold pending. rewrite H. left; reflexivity. Qed.

Lemma pending_inv : forall sc s t, In t (pending sc s) ->
  (cancelled s = false /\ t = dl sc) \/ (exists k, pstate s k = Working /\ ctime sc k = Some t).
Proof.
  intros sc s t H. unfold pending in H. apply in_app_or in H. destruct H as [H|H].
  - destruct (cancelled s); simpl in H; [contradiction|]. destruct H as [<-|[]]. left; auto.
  - right. unfold work_times in H. apply in_flat_map in H. destruct H as [k [_ Hk]].
    exists k. destruct (pstate s k); try contradiction. destruct (ctime sc k) as [t'|]; try contradiction.
    destruct Hk as [<-|[]]. auto.
Qed.

Lemma timed_ok_spec : forall sc s t, timed_ok sc s t = true ->
  (forall t', In t' (pending sc s) -> t <= t') /\ (t <= now s \/ urgent s = false).
Proof.
  intros sc s t H. unfold timed_ok in H. apply andb_true_iff in H. destruct H as [H1 H2]. split.
  - intros t' Hin. rewrite forallb_forall in H1. specialize (H1 t' Hin). lia.
  - apply orb_true_iff in H2. destruct H2 as [H2|H2]; [left; lia|right; apply negb_true_iff; auto].
Qed.

Lemma timed_ok_intro : forall sc s t,
  (forall t', In t' (pending sc s) -> t <= t') -> (t <= now s \/ urgent s = false) -> timed_ok sc s t = true.
Proof.
  intros sc s t H1 H2. unfold timed_ok. apply andb_true_iff. split.
  - apply forallb_forall. intros t' Hin. specialize (H1 t' Hin). lia.
  - apply orb_true_iff. destruct H2 as [H2|H2]; [left; lia|right; rewrite H2; reflexivity].
Qed.

(* ---------- invariant A: shape ---------- *)

Record invA (sc : scen) (s : st) : Prop := {
  a_lenp : length (prods s) = nclk sc;
  a_lenm : length (ms s) = nclk sc;
  a_coll : match coll s with
           | Loop i j => drain s = None /\ (alive_p (prods s) + i = nclk sc)%nat
           | Ret j t => exists r, drain s = Some r /\ alive_p (prods s) = r
           end }.

Lemma alive_repeat_working : forall n, alive_p (repeat Working n) = n.
Proof. unfold alive_p. induction n; simpl; auto. Qed.

Lemma store_length : forall l j m, length (fst (store l j m)) = length l.
Proof.
  intros l j m. unfold store. destruct (m_err m); simpl; auto.
  destruct (Nat.eqb j (length l)); simpl; auto. apply upd_length.
Qed.

Lemma invA_init : forall sc, wf sc -> invA sc (init sc).
Proof.
  intros sc Hwf. constructor; simpl.
  - apply repeat_length.
  - exact Hwf.
  - split; auto. rewrite alive_repeat_working. lia.
Qed.

Lemma invA_step : forall sc s l s', invA sc s -> step sc s l = Some s' -> invA sc s'.
Proof.
  intros sc s l s' [Hp Hm Hc] H. apply step_inv in H.
  destruct H as [k t Hk Hct Hto | Hcn Hto | k i j Hco Hi Hk | i j Hco Hi Hca | i j Hco Hi | k r Hd Hk].
  - assert (Hlt : (k < length (prods s))%nat) by (apply pstate_lt; congruence).
    pose proof (alive_upd (prods s) k Ready Hlt) as Ha. unfold pstate in Hk. rewrite Hk in Ha. simpl in Ha.
    constructor; simpl; auto.
    + rewrite upd_length; auto.
    + destruct (coll s) as [i j|j t0].
      * destruct Hc as [Hd Hal]. split; auto. lia.
      * destruct Hc as [r [Hd Hal]]. exists r; split; auto. lia.
  - constructor; simpl; auto.
  - assert (Hlt : (k < length (prods s))%nat) by (apply pstate_lt; congruence).
    pose proof (alive_upd (prods s) k Done Hlt) as Ha. unfold pstate in Hk. rewrite Hk in Ha. simpl in Ha.
    rewrite Hco in Hc. destruct Hc as [Hd Hal].
    constructor; simpl.
    + rewrite upd_length; auto.
    + rewrite store_length; auto.
    + split; auto. lia.
  - rewrite Hco in Hc. destruct Hc as [Hd Hal]. constructor; simpl; auto.
    eexists; split; eauto. lia.
  - rewrite Hco in Hc. destruct Hc as [Hd Hal]. constructor; simpl; auto.
    eexists; split; eauto. lia.
  - assert (Hlt : (k < length (prods s))%nat) by (apply pstate_lt; congruence).
    pose proof (alive_upd (prods s) k Done Hlt) as Ha. unfold pstate in Hk. rewrite Hk in Ha. simpl in Ha.
    constructor; simpl; auto.
    + rewrite upd_length; auto.
    + destruct (coll s) as [i j|j t0].
      * destruct Hc as [Hd' _]. congruence.
      * destruct Hc as [r' [Hd' Hal]]. exists r; split; auto. rewrite Hd in Hd'. inversion Hd'; subst. lia.
Qed.

Lemma invA_reachable : forall sc s, wf sc -> reachable sc s -> invA sc s.
Proof.
  intros sc s Hwf H. induction H; [apply invA_init; auto|eapply invA_step; eauto].
Qed.

(* pstate after an update *)
Lemma pstate_upd_same : forall l k v, (k < length l)%nat -> nth k (upd l k v) Done = v.
Proof. intros; apply nth_upd_same; auto. Qed.
Lemma pstate_upd_other : forall l k k' (v : pst), k <> k' -> nth k' (upd l k v) Done = nth k' l Done.
Proof. intros; apply nth_upd_other; auto. Qed.

(* in a loop state in which nothing untimed can happen some producer is still measuring *)
Lemma loop_not_urgent : forall sc s i j, invA sc s -> coll s = Loop i j -> urgent s = false ->
  cancelled s = false /\ (forall k, pstate s k <> Ready) /\ exists k, (k < nclk sc)%nat /\ pstate s k = Working.
Proof.
  intros sc s i j [Hp Hm Hc] Hco Hu. unfold urgent in Hu. rewrite Hco in Hu. rewrite Hco in Hc.
  destruct Hc as [Hd Hal].
  apply orb_false_iff in Hu. destruct Hu as [Hu Hr]. apply orb_false_iff in Hu. destruct Hu as [Hi Hca].
  apply Nat.eqb_neq in Hi. split; auto. split.
  - intros k. apply existsb_ready_false; auto.
  - assert (Hpos : (0 < alive_p (prods s))%nat) by lia.
    destruct (alive_pos_exists _ Hpos) as [k [Hk Hn]]. exists k. split; [lia|].
    pose proof (existsb_ready_false _ Hr k) as Hnr. unfold pstate.
    destruct (nth k (prods s) Done); congruence.
Qed.

(* ---------- invariant B: time ---------- *)

Record invB (sc : scen) (s : st) : Prop := {
  b_now0 : 0 <= now s;
  b_fired : forall k, (k < nclk sc)%nat -> pstate s k <> Working -> exists t, ctime sc k = Some t /\ t <= now s;
  b_pend : forall k t, pstate s k = Working -> ctime sc k = Some t -> now s <= t;
  b_canc : cancelled s = true -> dl sc <= now s /\ forall k t, pstate s k = Working -> ctime sc k = Some t -> dl sc <= t;
  b_ncanc : cancelled s = false -> now s <= dl sc;
  b_loop : forall i j, coll s = Loop i j ->
           now s <= dl sc /\ now s <= exact_ret sc /\
           forall k, pstate s k = Ready -> exists t, ctime sc k = Some t /\ now s <= t;
  b_ret : forall j t, coll s = Ret j t -> t = expected_ret sc }.

Lemma ctime_le_exact : forall sc k t, (k < nclk sc)%nat -> ctime sc k = Some t -> t <= exact_ret sc.
Proof. intros. rewrite exact_ret_fold. eapply maxfold_some; eauto. apply in_seq. lia. Qed.

Lemma ctime_none_exact : forall sc k, (k < nclk sc)%nat -> ctime sc k = None -> dl sc <= exact_ret sc.
Proof. intros. rewrite exact_ret_fold. eapply maxfold_none; eauto. apply in_seq. lia. Qed.

Lemma invB_init : forall sc, invB sc (init sc).
Proof.
  intros sc. constructor; simpl; try lia.
  - intros k Hk Hn. exfalso. apply Hn. unfold pstate, init; simpl.
    rewrite nth_indep with (d' := Working) by (rewrite repeat_length; auto).
    clear. revert k. induction (nclk sc); intros [|k]; simpl; auto.
  - intros k t _ Hc. eapply ctime_nonneg; eauto.
  - intros _. apply dl_nonneg.
  - intros i j _. split; [apply dl_nonneg|]. split.
    + rewrite exact_ret_fold. apply maxfold_nonneg.
    + intros k Hk. exfalso. unfold pstate, init in Hk; simpl in Hk.
      destruct (Nat.lt_ge_cases k (nclk sc)) as [Hlt|Hge].
      * rewrite nth_indep with (d' := Working) in Hk by (rewrite repeat_length; auto).
        assert (nth k (repeat Working (nclk sc)) Working = Working).
        { clear. revert k. induction (nclk sc); intros [|k]; simpl; auto. }
        congruence.
      * rewrite nth_overflow in Hk by (rewrite repeat_length; lia). discriminate.
  - discriminate.
Qed.

Lemma invB_step : forall sc s l s', invA sc s -> invB sc s -> step sc s l = Some s' -> invB sc s'.
Proof.
  intros sc s l s' HA [H0 Hf Hpe Hc Hn Hl Hr] H.
  pose proof HA as [Hp Hm Hcol].
  apply step_inv in H.
  destruct H as [k t Hk Hct Hto | Hcn Hto | k i j Hco Hi Hk | i j Hco Hi Hca | i j Hco Hi | k r Hd Hk].
  - (* Finish *)
    assert (Hlt : (k < length (prods s))%nat) by (apply pstate_lt; congruence).
    apply timed_ok_spec in Hto. destruct Hto as [Hmin Hurg].
    assert (Hnt : now s <= t) by (eapply Hpe; eauto).
    assert (Hmax : Z.max (now s) t = t) by lia.
    constructor; simpl; rewrite ?Hmax.
    + lia.
    + intros k' Hk' Hnw. destruct (Nat.eq_dec k k') as [<-|Hne].
      * exists t; split; auto; lia.
      * unfold pstate in Hnw; simpl in Hnw. rewrite pstate_upd_other in Hnw by auto.
        destruct (Hf k' Hk' Hnw) as [t' [Hc' Ht']]. exists t'; split; auto; lia.
    + intros k' t' Hw Hc'. unfold pstate in Hw; simpl in Hw.
      destruct (Nat.eq_dec k k') as [<-|Hne].
      * rewrite pstate_upd_same in Hw by auto. discriminate.
      * rewrite pstate_upd_other in Hw by auto. apply Hmin. eapply pending_work; eauto.
    + intros Hca. destruct (Hc Hca) as [Hd Hw]. split; [lia|].
      intros k' t' Hw' Hc'. unfold pstate in Hw'; simpl in Hw'.
      destruct (Nat.eq_dec k k') as [<-|Hne].
      * rewrite pstate_upd_same in Hw' by auto. discriminate.
      * rewrite pstate_upd_other in Hw' by auto. eapply Hw; eauto.
    + intros Hca. apply Hmin. apply pending_dl; auto.
    + intros i j Hco. destruct (Hl i j Hco) as [Hdl [Hex Hrd]].
      assert (Hkn : (k < nclk sc)%nat) by lia.
      split; [|split].
      * destruct Hurg as [Hle|Hu]; [lia|].
        destruct (loop_not_urgent sc s i j HA Hco Hu) as [Hca _]. apply Hmin. apply pending_dl; auto.
      * eapply ctime_le_exact; eauto.
      * intros k' Hk'. unfold pstate in Hk'; simpl in Hk'.
        destruct (Nat.eq_dec k k') as [<-|Hne].
        -- exists t; split; auto; lia.
        -- rewrite pstate_upd_other in Hk' by auto.
           destruct (Hrd k' Hk') as [t' [Hc' Ht']]. exists t'; split; auto.
           destruct Hurg as [Hle|Hu]; [lia|].
           destruct (loop_not_urgent sc s i j HA Hco Hu) as [_ [Hnr _]]. exfalso. eapply Hnr; eauto.
    + intros j t0 Hco. eapply Hr; eauto.
  - (* Cancel *)
    apply timed_ok_spec in Hto. destruct Hto as [Hmin Hurg].
    specialize (Hn Hcn).
    assert (Hmax : Z.max (now s) (dl sc) = dl sc) by lia.
    constructor; simpl; rewrite ?Hmax.
    + apply dl_nonneg.
    + intros k Hk Hnw. destruct (Hf k Hk Hnw) as [t [Hc' Ht]]. exists t; split; auto; lia.
    + intros k t Hw Hc'. apply Hmin. eapply pending_work; eauto.
    + intros _. split; [lia|]. intros k t Hw Hc'. apply Hmin. eapply pending_work; eauto.
    + discriminate.
    + intros i j Hco. destruct (Hl i j Hco) as [Hdl [Hex Hrd]]. split; [lia|]. split.
      * destruct Hurg as [Hle|Hu]; [lia|].
        destruct (loop_not_urgent sc s i j HA Hco Hu) as [_ [_ [k [Hkn Hw]]]].
        destruct (ctime sc k) as [t|] eqn:Hc'.
        -- assert (dl sc <= t) by (apply Hmin; eapply pending_work; eauto).
           pose proof (ctime_le_exact sc k t Hkn Hc'). lia.
        -- eapply ctime_none_exact; eauto.
      * intros k Hk. destruct (Hrd k Hk) as [t [Hc' Ht]]. exists t; split; auto.
        destruct Hurg as [Hle|Hu]; [lia|].
        destruct (loop_not_urgent sc s i j HA Hco Hu) as [_ [Hnr _]]. exfalso. eapply Hnr; eauto.
    + intros j t Hco. eapply Hr; eauto.
  - (* Recv *)
    assert (Hlt : (k < length (prods s))%nat) by (apply pstate_lt; congruence).
    constructor; simpl; auto.
    + intros k' Hk' Hnw. apply Hf; auto. unfold pstate in Hnw; simpl in Hnw.
      destruct (Nat.eq_dec k k') as [<-|Hne]; [congruence|]. rewrite pstate_upd_other in Hnw by auto. auto.
    + intros k' t' Hw Hc'. unfold pstate in Hw; simpl in Hw.
      destruct (Nat.eq_dec k k') as [<-|Hne].
      * rewrite pstate_upd_same in Hw by auto. discriminate.
      * rewrite pstate_upd_other in Hw by auto. eapply Hpe; eauto.
    + intros Hca. destruct (Hc Hca) as [Hd Hw]. split; auto.
      intros k' t' Hw' Hc'. unfold pstate in Hw'; simpl in Hw'.
      destruct (Nat.eq_dec k k') as [<-|Hne].
      * rewrite pstate_upd_same in Hw' by auto. discriminate.
      * rewrite pstate_upd_other in Hw' by auto. eapply Hw; eauto.
    + intros i' j' Heq. destruct (Hl i j Hco) as [Hdl [Hex Hrd]]. split; auto. split; auto.
      intros k' Hk'. unfold pstate in Hk'; simpl in Hk'.
      destruct (Nat.eq_dec k k') as [<-|Hne].
      * rewrite pstate_upd_same in Hk' by auto. discriminate.
      * rewrite pstate_upd_other in Hk' by auto. auto.
    + discriminate.
  - (* Quit *)
    constructor; simpl; auto.
    + discriminate.
    + intros j' t Heq. destruct (Hl i j Hco) as [Hdl [Hex _]].
      destruct (Hc Hca) as [Hd _]. inversion Heq; subst. unfold expected_ret. lia.
  - (* Exit *)
    constructor; simpl; auto.
    + discriminate.
    + intros j' t Heq. destruct (Hl i j Hco) as [Hdl [Hex _]]. inversion Heq; subst j' t.
      rewrite Hco in Hcol. destruct Hcol as [_ Hal].
      assert (Hz : alive_p (prods s) = 0%nat) by lia.
      assert (exact_ret sc <= now s).
      { rewrite exact_ret_fold. apply maxfold_le; auto. intros k Hin. apply in_seq in Hin.
        apply Hf; [lia|]. unfold pstate. rewrite (alive_zero_all_done _ Hz k). discriminate. }
      unfold expected_ret. lia.
  - (* DrainRecv *)
    assert (Hlt : (k < length (prods s))%nat) by (apply pstate_lt; congruence).
    constructor; simpl; auto.
    + intros k' Hk' Hnw. apply Hf; auto. unfold pstate in Hnw; simpl in Hnw.
      destruct (Nat.eq_dec k k') as [<-|Hne]; [congruence|]. rewrite pstate_upd_other in Hnw by auto. auto.
    + intros k' t' Hw Hc'. unfold pstate in Hw; simpl in Hw.
      destruct (Nat.eq_dec k k') as [<-|Hne].
      * rewrite pstate_upd_same in Hw by auto. discriminate.
      * rewrite pstate_upd_other in Hw by auto. eapply Hpe; eauto.
    + intros Hca. destruct (Hc Hca) as [Hd' Hw]. split; auto.
      intros k' t' Hw' Hc'. unfold pstate in Hw'; simpl in Hw'.
      destruct (Nat.eq_dec k k') as [<-|Hne].
      * rewrite pstate_upd_same in Hw' by auto. discriminate.
      * rewrite pstate_upd_other in Hw' by auto. eapply Hw; eauto.
    + intros i j Hco. destruct (Hl i j Hco) as [Hdl [Hex Hrd]]. split; auto. split; auto.
      intros k' Hk'. unfold pstate in Hk'; simpl in Hk'.
      destruct (Nat.eq_dec k k') as [<-|Hne].
      * rewrite pstate_upd_same in Hk' by auto. discriminate.
      * rewrite pstate_upd_other in Hk' by auto. auto.
Qed.

Lemma invB_reachable : forall sc s, wf sc -> reachable sc s -> invB sc s.
Proof.
  intros sc s Hwf H. induction H; [apply invB_init|].
  eapply invB_step; eauto. apply invA_reachable; auto.
Qed.

(* ---------- invariant C: what has been received, what is in the slice ---------- *)

Definition coll_j (s : st) : nat := match coll s with Loop _ j => j | Ret j _ => j end.
Definition oks (sc : scen) (l : list nat) : list nat := filter (cok sc) l.

Record invC (sc : scen) (s : st) : Prop := {
  c_nodup : NoDup (recvd s);
  c_lt : forall k, In k (recvd s) -> (k < nclk sc)%nat;
  c_isdone : forall k, In k (recvd s) -> pstate s k = Done;
  c_loop : forall i j, coll s = Loop i j ->
           i = length (recvd s) /\ forall k, (k < nclk sc)%nat -> pstate s k = Done -> In k (recvd s);
  c_j : coll_j s = length (oks sc (recvd s));
  c_ms : ms s = map (cres sc) (oks sc (recvd s)) ++ skipn (length (oks sc (recvd s))) (s_ms0 sc);
  c_intime : forall k, In k (recvd s) -> by_dl sc k = true;
  c_early : forall j t, coll s = Ret j t -> forall k, (k < nclk sc)%nat -> before_dl sc k = true -> In k (recvd s) }.

Lemma upd_app_at : forall A (a : list A) x b m, upd (a ++ x :: b) (length a) m = a ++ m :: b.
Proof. induction a as [|y a IH]; simpl; intros; auto. rewrite IH. reflexivity. Qed.

Lemma skipn_cons_lt : forall A (l : list A) j, (j < length l)%nat -> exists x, skipn j l = x :: skipn (S j) l.
Proof.
  induction l as [|y l IH]; intros [|j] H; simpl in *; try lia.
  - exists y; reflexivity.
  - apply IH. lia.
Qed.

Lemma oks_app : forall sc l k, oks sc (l ++ [k]) = oks sc l ++ (if cok sc k then [k] else []).
Proof. intros. unfold oks. rewrite filter_app. simpl. destruct (cok sc k); reflexivity. Qed.

Lemma oks_length_le : forall sc l, (length (oks sc l) <= length l)%nat.
Proof. intros. unfold oks. induction l; simpl; auto. destruct (cok sc a); simpl; lia. Qed.

Lemma NoDup_app_one : forall (l : list nat) k, NoDup l -> ~ In k l -> NoDup (l ++ [k]).
Proof.
  induction l as [|x l IH]; simpl; intros k Hnd Hn.
  - constructor; [simpl; tauto|constructor].
  - inversion Hnd; subst. constructor.
    + intros Hin. apply in_app_or in Hin. destruct Hin as [Hin|[->|[]]]; auto.
    + apply IH; auto.
Qed.

Lemma invC_init : forall sc, invC sc (init sc).
Proof.
  intros sc. constructor; simpl; try (intros; contradiction); try discriminate.
  - constructor.
  - intros i j Heq. inversion Heq; subst. split; auto. intros k Hk Hd. exfalso.
    unfold pstate, init in Hd; simpl in Hd.
    rewrite nth_indep with (d' := Working) in Hd by (rewrite repeat_length; auto).
    assert (nth k (repeat Working (nclk sc)) Working = Working).
    { clear. revert k. induction (nclk sc); intros [|k]; simpl; auto. }
    congruence.
  - reflexivity.
  - reflexivity.
Qed.

Lemma invC_step : forall sc s l s', wf sc -> invA sc s -> invB sc s -> invC sc s -> step sc s l = Some s' -> invC sc s'.
Proof.
  intros sc s l s' Hwf HA HB [Hnd Hlt Hdn Hlo Hj Hms Hit Hea] H.
  pose proof HA as [Hp Hm Hcol].
  apply step_inv in H.
  destruct H as [k t Hk Hct Hto | Hcn Hto | k i j Hco Hi Hk | i j Hco Hi Hca | i j Hco Hi | k r Hd Hk].
  - (* Finish *)
    assert (Hklt : (k < length (prods s))%nat) by (apply pstate_lt; congruence).
    constructor; simpl; auto.
    + intros k' Hin. unfold pstate; simpl. destruct (Nat.eq_dec k k') as [<-|Hne].
      * specialize (Hdn k Hin). congruence.
      * rewrite pstate_upd_other by auto. apply Hdn; auto.
    + intros i j Hco. destruct (Hlo i j Hco) as [Hi Hall]. split; auto.
      intros k' Hk' Hd. apply Hall; auto. unfold pstate in Hd; simpl in Hd.
      destruct (Nat.eq_dec k k') as [<-|Hne].
      * rewrite pstate_upd_same in Hd by auto. discriminate.
      * rewrite pstate_upd_other in Hd by auto. auto.
  - (* Cancel *)
    constructor; simpl; auto.
  - (* Recv *)
    assert (Hklt : (k < length (prods s))%nat) by (apply pstate_lt; congruence).
    destruct (Hlo i j Hco) as [Hil Hall].
    assert (Hnotin : ~ In k (recvd s)) by (intros Hin; specialize (Hdn k Hin); congruence).
    assert (Hjj : j = length (oks sc (recvd s))) by (unfold coll_j in Hj; rewrite Hco in Hj; auto).
    rewrite Hco in Hcol. destruct Hcol as [_ Hal].
    assert (Hjn : (j < nclk sc)%nat).
    { pose proof (oks_length_le sc (recvd s)). lia. }
    constructor; simpl.
    + apply NoDup_app_one; auto.
    + intros k' Hin. apply in_app_or in Hin. destruct Hin as [Hin|[<-|[]]]; auto. lia.
    + intros k' Hin. unfold pstate; simpl. apply in_app_or in Hin. destruct Hin as [Hin|[<-|[]]].
      * destruct (Nat.eq_dec k k') as [<-|Hne]; [contradiction|]. rewrite pstate_upd_other by auto. apply Hdn; auto.
      * apply pstate_upd_same; auto.
    + intros i' j' Heq. inversion Heq; subst i' j'. split.
      * rewrite app_length. simpl. lia.
      * intros k' Hk' Hd. apply in_or_app. unfold pstate in Hd; simpl in Hd.
        destruct (Nat.eq_dec k k') as [<-|Hne]; [right; left; auto|].
        rewrite pstate_upd_other in Hd by auto. left. apply Hall; auto.
    + unfold coll_j; simpl. rewrite oks_app, app_length. unfold store, cok.
      destruct (m_err (cres sc k)); simpl; [lia|].
      replace (Nat.eqb j (length (ms s))) with false by (symmetry; apply Nat.eqb_neq; lia). simpl. lia.
    + rewrite oks_app. unfold store. unfold cok.
      destruct (m_err (cres sc k)) eqn:He; simpl.
      * rewrite app_nil_r. auto.
      * replace (Nat.eqb j (length (ms s))) with false by (symmetry; apply Nat.eqb_neq; lia). simpl.
        rewrite Hms at 1. rewrite <- Hjj.
        destruct (skipn_cons_lt _ (s_ms0 sc) j ltac:(rewrite Hwf; lia)) as [x Hx]. rewrite Hx.
        replace j with (length (map (cres sc) (oks sc (recvd s)))) at 2 by (rewrite map_length; auto).
        rewrite upd_app_at. rewrite map_app, app_length. simpl. rewrite <- app_assoc. simpl.
        rewrite <- Hjj. replace (j + 1)%nat with (S j) by lia. reflexivity.
    + intros k' Hin. apply in_app_or in Hin. destruct Hin as [Hin|[<-|[]]]; auto.
      destruct HB as [_ Hf _ _ _ Hl _]. destruct (Hl i j Hco) as [Hdl [_ Hrd]].
      destruct (Hrd k Hk) as [t [Hc Ht]].
      destruct (Hf k ltac:(lia) ltac:(congruence)) as [t' [Hc' Ht']].
      unfold by_dl. rewrite Hc. rewrite Hc in Hc'. inversion Hc'; subst. apply Z.leb_le. lia.
    + discriminate.
  - (* Quit *)
    destruct (Hlo i j Hco) as [Hil Hall].
    constructor; simpl; auto.
    + discriminate.
    + unfold coll_j in *; simpl. rewrite Hco in Hj. auto.
    + intros j' t Heq k Hk Hb. unfold before_dl in Hb.
      destruct (ctime sc k) as [tk|] eqn:Hc; try discriminate. apply Z.ltb_lt in Hb.
      destruct HB as [_ _ _ Hcc _ Hl _]. destruct (Hcc Hca) as [Hd Hw]. destruct (Hl i j Hco) as [_ [_ Hrd]].
      destruct (pstate s k) eqn:Hps.
      * specialize (Hw k tk Hps Hc). lia.
      * destruct (Hrd k Hps) as [t' [Hc' Ht']]. rewrite Hc in Hc'. inversion Hc'; subst. lia.
      * apply Hall; auto.
  - (* Exit *)
    destruct (Hlo i j Hco) as [Hil Hall].
    constructor; simpl; auto.
    + discriminate.
    + unfold coll_j in *; simpl. rewrite Hco in Hj. auto.
    + intros j' t Heq k Hk Hb. apply Hall; auto.
      rewrite Hco in Hcol. destruct Hcol as [_ Hal].
      assert (Hz : alive_p (prods s) = 0%nat) by lia.
      unfold pstate. apply alive_zero_all_done; auto.
  - (* DrainRecv *)
    assert (Hklt : (k < length (prods s))%nat) by (apply pstate_lt; congruence).
    constructor; simpl; auto.
    + intros k' Hin. unfold pstate; simpl. destruct (Nat.eq_dec k k') as [<-|Hne].
      * apply pstate_upd_same; auto.
      * rewrite pstate_upd_other by auto. apply Hdn; auto.
    + intros i j Hco. rewrite Hco in Hcol. destruct Hcol as [Hd' _]. congruence.
Qed.

Lemma invC_reachable : forall sc s, wf sc -> reachable sc s -> invC sc s.
Proof.
  intros sc s Hwf H. induction H; [apply invC_init|].
  eapply invC_step; eauto; [apply invA_reachable|apply invB_reachable]; auto.
Qed.

(* ---------- clause 1: the round ends by its deadline ---------- *)

(* in every state of every schedule: while the collector is still in its loop
   the clock has not passed the deadline, and a collector that has returned did
   so at min(deadline, time the last clock completed) *)
Lemma deadline_respected : forall sc s, wf sc -> reachable sc s ->
  match coll s with
  | Loop _ _ => now s <= dl sc
  | Ret _ t => t <= dl sc /\ t = expected_ret sc
  end.
Proof.
  intros sc s Hwf Hr. pose proof (invB_reachable sc s Hwf Hr) as [_ _ _ _ _ Hl Hre].
  destruct (coll s) as [i j|j t] eqn:Hc.
  - destruct (Hl i j eq_refl); auto.
  - rewrite (Hre j t eq_refl). split; auto. unfold expected_ret. lia.
Qed.

(* progress: as long as something is pending or a goroutine can run, some transition is enabled *)
Lemma min_in_list : forall l : list Z, l <> [] -> exists m, In m l /\ forall x, In x l -> m <= x.
Proof.
  induction l as [|a l IH]; intros Hne; [congruence|].
  destruct l as [|b l].
  - exists a. split; [left; auto|]. intros x [<-|[]]. lia.
  - destruct (IH ltac:(discriminate)) as [m [Hin Hmin]].
    destruct (Z_le_gt_dec a m).
    + exists a. split; [left; auto|]. intros x [<-|Hx]; [lia|]. specialize (Hmin x Hx). lia.
    + exists m. split; [right; auto|]. intros x [<-|Hx]; [lia|]. apply Hmin; auto.
Qed.

Lemma finish_in_labels : forall s k, (k < length (prods s))%nat -> In (Finish k) (all_labels s) /\ In (Recv k) (all_labels s) /\ In (DrainRecv k) (all_labels s).
Proof.
  intros s k Hk. unfold all_labels.
  assert (Hin : forall x, In x [Finish k; Recv k; DrainRecv k] ->
                In x (flat_map (fun k => [Finish k; Recv k; DrainRecv k]) (seq 0 (length (prods s))))).
  { intros x Hl. apply in_flat_map. exists k. split; auto. apply in_seq. lia. }
  repeat split; apply in_or_app; right; apply Hin; simpl; auto.
Qed.

Lemma timed_progress : forall sc s, urgent s = false -> pending sc s <> [] ->
  exists l, In l (all_labels s) /\ enabled sc s l = true.
Proof.
  intros sc s Hu Hne. destruct (min_in_list _ Hne) as [m [Hin Hmin]].
  destruct (pending_inv sc s m Hin) as [[Hc Hm]|[k [Hw Hc]]].
  - subst m. exists Cancel. split; [left; auto|]. unfold enabled; simpl. rewrite Hc. simpl.
    rewrite (timed_ok_intro sc s (dl sc)); auto.
  - exists (Finish k). split.
    + apply finish_in_labels. apply pstate_lt. congruence.
    + unfold enabled; simpl. rewrite Hw, Hc. rewrite (timed_ok_intro sc s m); auto.
Qed.

Lemma existsb_ready_witness : forall l, existsb is_ready l = true -> exists k, (k < length l)%nat /\ nth k l Done = Ready.
Proof.
  induction l as [|x l IH]; simpl; intros H; try discriminate.
  apply orb_true_iff in H. destruct H as [H|H].
  - exists 0%nat. split; [lia|]. apply is_ready_true; auto.
  - destruct (IH H) as [k [Hk Hn]]. exists (S k). split; [lia|auto].
Qed.

Lemma urgent_progress : forall sc s, urgent s = true -> exists l, In l (all_labels s) /\ enabled sc s l = true.
Proof.
  intros sc s Hu. unfold urgent in Hu. destruct (coll s) as [i j|j t] eqn:Hc.
  - destruct (Nat.eqb i (length (ms s))) eqn:Hi.
    + exists Exit. split; [right; right; left; auto|]. unfold enabled; simpl. rewrite Hc, Hi. reflexivity.
    + simpl in Hu. destruct (cancelled s) eqn:Hca.
      * exists Quit. split; [right; left; auto|]. unfold enabled; simpl. rewrite Hc, Hi, Hca. reflexivity.
      * simpl in Hu. destruct (existsb_ready_witness _ Hu) as [k [Hk Hn]].
        exists (Recv k). split; [apply finish_in_labels; auto|].
        unfold enabled; simpl. rewrite Hc, Hi. unfold pstate. rewrite Hn. reflexivity.
  - destruct (drain s) as [[|r]|] eqn:Hd; try discriminate.
    destruct (existsb_ready_witness _ Hu) as [k [Hk Hn]].
    exists (DrainRecv k). split; [apply finish_in_labels; auto|].
    unfold enabled; simpl. rewrite Hd. unfold pstate. rewrite Hn. reflexivity.
Qed.

Lemma stuck_spec : forall sc s, stuck sc s = true ->
  urgent s = false /\ pending sc s = [].
Proof.
  intros sc s H. unfold stuck in H. apply negb_true_iff in H.
  assert (Hno : forall l, In l (all_labels s) -> enabled sc s l = false).
  { intros l Hl. destruct (enabled sc s l) eqn:He; auto.
    assert (existsb (enabled sc s) (all_labels s) = true) by (apply existsb_exists; eauto). congruence. }
  assert (Hu : urgent s = false).
  { destruct (urgent s) eqn:Hu; auto. destruct (urgent_progress sc s Hu) as [l [Hl He]].
    rewrite (Hno l Hl) in He. discriminate. }
  split; auto.
  destruct (pending sc s) as [|z0 rest] eqn:Hp; auto.
  destruct (timed_progress sc s Hu) as [lb [Hl He]]; [rewrite Hp; discriminate|].
  rewrite (Hno lb Hl) in He. discriminate.
Qed.

(* a state in which nothing can happen any more is one in which the collector has returned:
   the collector is never blocked for ever, whatever the clocks do *)
Lemma stuck_returned : forall sc s, wf sc -> reachable sc s -> stuck sc s = true ->
  exists j, coll s = Ret j (expected_ret sc) /\ expected_ret sc <= dl sc.
Proof.
  intros sc s Hwf Hr Hs. destruct (stuck_spec sc s Hs) as [Hu Hp].
  pose proof (invA_reachable sc s Hwf Hr) as HA.
  destruct (coll s) as [i j|j t] eqn:Hc.
  - destruct (loop_not_urgent sc s i j HA Hc Hu) as [Hca _].
    pose proof (pending_dl sc s Hca) as Hin. rewrite Hp in Hin. contradiction.
  - pose proof (deadline_respected sc s Hwf Hr) as Hd. rewrite Hc in Hd. destruct Hd as [Hd ->].
    exists j. auto.
Qed.

(* ---------- clause 3: nothing is left behind ---------- *)

Lemma goroutines_alive : forall s, goroutines s =
  (alive_p (prods s) + (match coll s with Loop _ _ => 1 | Ret _ _ => 0 end)
   + (match drain s with Some (S _) => 1 | _ => 0 end))%nat.
Proof. reflexivity. Qed.

(* collector returned, every clock's call has returned, nothing can run: no goroutine is left *)
Lemma no_leak_settled : forall sc s j t, wf sc -> reachable sc s ->
  coll s = Ret j t -> urgent s = false -> (forall k, pstate s k <> Working) -> goroutines s = 0%nat.
Proof.
  intros sc s j t Hwf Hr Hc Hu Hnw. pose proof (invA_reachable sc s Hwf Hr) as [Hp Hm Hcol].
  rewrite Hc in Hcol. destruct Hcol as [r [Hd Hal]].
  rewrite goroutines_alive, Hc, Hd.
  destruct r as [|r]; [lia|]. exfalso.
  unfold urgent in Hu. rewrite Hc, Hd in Hu.
  assert (Hpos : (0 < alive_p (prods s))%nat) by lia.
  destruct (alive_pos_exists _ Hpos) as [k [Hk Hn]].
  pose proof (existsb_ready_false _ Hu k) as Hnr. specialize (Hnw k). unfold pstate in Hnw.
  destruct (nth k (prods s) Done); congruence.
Qed.

Lemma no_leak_final : forall sc s, wf sc -> reachable sc s -> stuck sc s = true ->
  (forall k, (k < nclk sc)%nat -> ctime sc k <> None) -> goroutines s = 0%nat.
Proof.
  intros sc s Hwf Hr Hs Hfin. destruct (stuck_returned sc s Hwf Hr Hs) as [j [Hc _]].
  destruct (stuck_spec sc s Hs) as [Hu Hp].
  eapply no_leak_settled; eauto.
  intros k Hw. pose proof (invA_reachable sc s Hwf Hr) as [Hlp _ _].
  assert (Hk : (k < nclk sc)%nat) by (rewrite <- Hlp; apply pstate_lt; congruence).
  destruct (ctime sc k) as [tk|] eqn:Hct; [|apply (Hfin k Hk); auto].
  pose proof (pending_work sc s k tk Hw Hct) as Hin. rewrite Hp in Hin. contradiction.
Qed.

(* ---------- clause 2: each timely success exactly once at the front ---------- *)

Lemma recvd_length_le : forall sc s, invC sc s -> (length (recvd s) <= nclk sc)%nat.
Proof.
  intros sc s [Hnd Hlt _ _ _ _ _ _].
  rewrite <- (seq_length (nclk sc) 0). apply NoDup_incl_length; auto.
  intros k Hk. apply in_seq. specialize (Hlt k Hk). lia.
Qed.

Lemma prefix_once : forall sc s j t, wf sc -> reachable sc s -> coll s = Ret j t ->
  exists l, NoDup l /\ (forall k, In k l -> (k < nclk sc)%nat /\ by_dl sc k = true) /\
            (forall k, (k < nclk sc)%nat -> before_dl sc k = true -> In k l) /\
            j = length (oks sc l) /\ (j <= nclk sc)%nat /\
            ms s = map (cres sc) (oks sc l) ++ skipn j (s_ms0 sc).
Proof.
  intros sc s j t Hwf Hr Hc. pose proof (invC_reachable sc s Hwf Hr) as HC.
  pose proof (recvd_length_le sc s HC) as Hle.
  destruct HC as [Hnd Hlt _ _ Hj Hms Hit Hea].
  exists (recvd s). unfold coll_j in Hj. rewrite Hc in Hj. subst j.
  repeat split; auto.
  - eapply Hea; eauto.
  - pose proof (oks_length_le sc (recvd s)). lia.
Qed.

(* ---------- the oracle holds for the model ---------- *)

Lemma meas_eqb_refl : forall m, meas_eqb m m = true.
Proof. intros m. unfold meas_eqb. rewrite !Z.eqb_refl, eqb_reflx. reflexivity. Qed.

Lemma meas_list_eqb_refl : forall l, meas_list_eqb l l = true.
Proof. induction l; simpl; auto. rewrite meas_eqb_refl; auto. Qed.

Lemma filter_map_length : forall A B (f : B -> bool) (g : A -> B) l,
  length (filter f (map g l)) = length (filter (fun x => f (g x)) l).
Proof. induction l; simpl; auto. destruct (f (g a)); simpl; auto. Qed.

Lemma filter_filter_and : forall A (f g : A -> bool) l, filter f (filter g l) = filter (fun x => g x && f x) l.
Proof. induction l; simpl; auto. destruct (g a); simpl; auto. destruct (f a); simpl; congruence. Qed.

Lemma front_ok_of : forall sc l,
  NoDup l -> (forall k, In k l -> (k < nclk sc)%nat /\ by_dl sc k = true) ->
  (forall k, (k < nclk sc)%nat -> before_dl sc k = true -> In k l) ->
  front_ok sc (map (cres sc) (oks sc l)) = true.
Proof.
  intros sc l Hnd Hin Hea. unfold front_ok. apply forallb_forall. intros v _.
  set (A := filter (fun k => cok sc k && meas_eqb v (cres sc k)) l).
  assert (Hcnt : count_in v (map (cres sc) (oks sc l)) = length A).
  { unfold count_in, oks, A. rewrite filter_map_length, filter_filter_and. reflexivity. }
  rewrite Hcnt. apply andb_true_iff. split; apply Nat.leb_le.
  - apply NoDup_incl_length.
    + unfold early_idx. apply NoDup_filter. apply seq_NoDup.
    + intros k Hk. unfold early_idx in Hk. apply filter_In in Hk. destruct Hk as [Hs Hb].
      apply in_seq in Hs. apply andb_true_iff in Hb. destruct Hb as [Hb Hbe].
      unfold A. apply filter_In. split; auto. apply Hea; auto; lia.
  - apply NoDup_incl_length.
    + unfold A. apply NoDup_filter; auto.
    + intros k Hk. unfold A in Hk. apply filter_In in Hk. destruct Hk as [Hl Hb].
      destruct (Hin k Hl) as [Hlt Hby]. unfold intime_idx. apply filter_In. split.
      * apply in_seq. lia.
      * rewrite Hb, Hby. reflexivity.
Qed.

Lemma round_ok_model : forall sc s j t, wf sc -> reachable sc s -> coll s = Ret j t ->
  C16_round_ok sc t (ms s) = true.
Proof.
  intros sc s j t Hwf Hr Hc.
  pose proof (deadline_respected sc s Hwf Hr) as Hd. rewrite Hc in Hd. destruct Hd as [Hd _].
  destruct (prefix_once sc s j t Hwf Hr Hc) as [l [Hnd [Hin [Hea [Hj [Hjn Hms]]]]]].
  pose proof (invA_reachable sc s Hwf Hr) as [_ Hlm _].
  unfold C16_round_ok. apply andb_true_iff. split; [apply Z.leb_le; auto|].
  unfold slice_ok. apply andb_true_iff. split.
  - apply Nat.eqb_eq. rewrite Hlm. symmetry. exact Hwf.
  - apply existsb_exists. exists j. split.
    + apply in_seq. rewrite Hlm. lia.
    + assert (Hlen : length (map (cres sc) (oks sc l)) = j) by (rewrite map_length; auto).
      rewrite Hms. apply andb_true_iff. split.
      * rewrite skipn_app. rewrite Hlen, Nat.sub_diag. simpl.
        rewrite skipn_all2 by lia. simpl. apply meas_list_eqb_refl.
      * rewrite firstn_app. rewrite Hlen, Nat.sub_diag. simpl. rewrite app_nil_r.
        rewrite firstn_all2 by lia. apply front_ok_of; auto.
Qed.

Lemma leak_ok_model : forall sc s j t tp, wf sc -> reachable sc s ->
  coll s = Ret j t -> urgent s = false -> (forall k, pstate s k <> Working) ->
  C16_leak_ok sc t tp (Z.of_nat (goroutines s)) = true.
Proof.
  intros sc s j t tp Hwf Hr Hc Hu Hnw. rewrite (no_leak_settled sc s j t Hwf Hr Hc Hu Hnw).
  unfold C16_leak_ok. destruct (all_done_by sc tp && (t <=? tp)); reflexivity.
Qed.

(* the scheduler of the dispatcher only produces schedules of the model *)
Lemma guided_reachable : forall fuel sc lim g s0 s g', reachable sc s0 ->
  guided fuel sc lim g s0 = Some (s, g') -> reachable sc s.
Proof.
  induction fuel as [|f IH]; simpl; intros sc lim g s0 s g' Hr H.
  - inversion H; subst; auto.
  - destruct (choose sc lim g s0) as [[l g1]|].
    + destruct (step sc s0 l) as [s1|] eqn:Hs; try discriminate.
      eapply IH; [|eauto]. eapply r_step; eauto.
    + inversion H; subst; auto.
Qed.

(* ---------- clause 4: the in-progress guard ---------- *)

Definition ginv (g : gst) : Prop :=
  (g_active g = [] /\ g_numops g = 0) \/ (exists id, g_active g = [id] /\ g_numops g = 1).

Lemma ginv_init : ginv ginit.
Proof. left; split; reflexivity. Qed.

Lemma guard_call : forall g id a b, ginv g ->
  snd (gstep g (GCall id a b)) =
    GO_call (if negb (Nat.eqb a b) then PanicLen else match g_active g with [] => Started | _ => PanicBusy end).
Proof.
  intros g id a b H. unfold gstep, begin_call.
  destruct (negb (Nat.eqb a b)); simpl; auto.
  destruct H as [[Ha Hn]|[x [Ha Hn]]]; rewrite Hn, Ha; reflexivity.
Qed.

Lemma ginv_step : forall g o, ginv g -> ginv (fst (gstep g o)) /\ snd (gstep g o) <> GO_inconsistent.
Proof.
  intros g o H. destruct o as [id a b|id]; simpl.
  - unfold begin_call. destruct (negb (Nat.eqb a b)); simpl; [split; [auto|discriminate]|].
    destruct H as [[Ha Hn]|[x [Ha Hn]]]; rewrite Hn; simpl.
    + split; [|discriminate]. right. exists id. rewrite Ha. auto.
    + split; [|discriminate]. right. exists x. auto.
  - destruct H as [[Ha Hn]|[x [Ha Hn]]]; rewrite Ha; simpl.
    + split; [|discriminate]. left; auto.
    + destruct (Nat.eqb id x) eqn:He; simpl.
      * unfold end_call. rewrite Hn. simpl. split; [|discriminate]. left. auto.
      * split; [|discriminate]. right. exists x. auto.
Qed.

Lemma grun_inv : forall os g, ginv g -> ginv (fst (grun g os)) /\ ~ In GO_inconsistent (snd (grun g os)).
Proof.
  induction os as [|o os IH]; simpl; intros g H.
  - split; auto.
  - destruct (gstep g o) as [g1 x] eqn:Hs. pose proof (ginv_step g o H) as [H1 H2]. rewrite Hs in H1, H2. simpl in *.
    destruct (grun g1 os) as [g2 xs] eqn:Hr. pose proof (IH g1 H1) as [H3 H4]. rewrite Hr in H3, H4. simpl in *.
    split; auto. intros [Hx|Hx]; auto.
Qed.

(* a call is in progress from the moment it is let in until it returns *)
Lemma guard_active : forall g id a b, ginv g -> snd (gstep g (GCall id a b)) = GO_call Started ->
  g_active g = [] /\ g_active (fst (gstep g (GCall id a b))) = [id] /\ a = b.
Proof.
  intros g id a b H Hs. rewrite guard_call in Hs by auto.
  destruct (Nat.eqb a b) eqn:He; simpl in Hs; try discriminate.
  destruct (g_active g) eqn:Ha; try discriminate. apply Nat.eqb_eq in He.
  repeat split; auto. simpl. unfold begin_call. rewrite He. simpl. rewrite Nat.eqb_refl. simpl.
  destruct H as [[_ Hn]|[x [Hx _]]]; [rewrite Hn; simpl; rewrite Ha; auto|congruence].
Qed.

Lemma guard_return : forall g id, g_active g = [id] -> ginv g ->
  gstep g (GReturn id) = ({| g_numops := 0; g_active := [] |}, GO_ret).
Proof.
  intros g id Ha H. destruct H as [[Ha' _]|[x [Hx Hn]]]; [congruence|].
  unfold gstep. rewrite Ha. simpl. rewrite Nat.eqb_refl. simpl. unfold end_call. rewrite Hn. simpl.
  rewrite ?Nat.eqb_refl. reflexivity.
Qed.

(* ---------- the guard on timed histories: the oracle accepts what the model does ---------- *)

Fixpoint starts_from (T : Z) (cs : list hcall) : Prop :=
  match cs with
  | [] => True
  | c :: r => T <= hc_start c /\ 0 <= hc_dur c /\ starts_from (hc_start c) r
  end.

Definition hinv (earlier : list gobs) (g : gst) (act : option (nat * Z)) (T : Z) : Prop :=
  ginv g /\
  match act with
  | Some (aid, rt) => g_active g = [aid] /\ exists p, In p earlier /\ go_out p = 0 /\ go_start p <= T /\ go_ret p = rt
  | None => g_active g = []
  end /\
  forall p, In p earlier -> go_out p = 0 ->
    go_start p <= T /\ (go_ret p <= T \/ match act with Some (_, rt) => go_ret p = rt | None => False end).

Lemma gcall_idle : forall g id, g_active g = [] -> ginv g ->
  gstep g (GCall id 0 0) = ({| g_numops := 1; g_active := [id] |}, GO_call Started).
Proof.
  intros g id Ha [[_ Hn]|[x [Hx _]]]; [|congruence].
  unfold gstep, begin_call. simpl. rewrite Hn, Ha. reflexivity.
Qed.

Lemma gcall_busy : forall g id x, g_active g = [x] -> ginv g ->
  gstep g (GCall id 0 0) = ({| g_numops := 1; g_active := [x] |}, GO_call PanicBusy).
Proof.
  intros g id x Ha [[Ha' _]|[y [Hy Hn]]]; [congruence|].
  unfold gstep, begin_call. simpl. rewrite Hn, Ha. reflexivity.
Qed.

Lemma gcall_len : forall g id,
  gstep g (GCall id 1 0) = ({| g_numops := g_numops g; g_active := g_active g |}, GO_call PanicLen).
Proof. intros. reflexivity. Qed.

Lemma ginv_eta : forall g, ginv g -> ginv {| g_numops := g_numops g; g_active := g_active g |}.
Proof. intros g H. exact H. Qed.

Lemma in_progress_false : forall earlier t,
  (forall p, In p earlier -> go_out p = 0 -> go_ret p <= t) -> in_progress_at earlier t = false.
Proof.
  intros earlier t H. unfold in_progress_at. destruct (existsb _ earlier) eqn:He; auto.
  apply existsb_exists in He. destruct He as [p [Hin Hb]].
  apply andb_true_iff in Hb. destruct Hb as [Hb H3]. apply andb_true_iff in Hb. destruct Hb as [H1 H2].
  apply Z.eqb_eq in H1. apply Z.ltb_lt in H3. specialize (H p Hin H1). lia.
Qed.

Lemma hist_ok : forall cs earlier g act id T,
  hinv earlier g act T -> starts_from T cs -> guard_ok_from earlier (hist_model g act id cs) = true.
Proof.
  induction cs as [|c r IH]; intros earlier g act id T Hinv Hs; [reflexivity|].
  destruct Hs as [HT [Hdur Hs]]. destruct Hinv as [Hg [Hact Hall]].
  set (t := hc_start c) in *.
  (* state after retiring the call in progress, if it is over *)
  assert (Hret : exists g1 act1,
      hist_retire g act c = (g1, act1) /\
      ginv g1 /\
      match act1 with
      | Some (aid, rt) => g_active g1 = [aid] /\ t <= rt /\
                          exists p, In p earlier /\ go_out p = 0 /\ go_start p <= t /\ go_ret p = rt
      | None => g_active g1 = []
      end /\
      forall p, In p earlier -> go_out p = 0 ->
        go_start p <= t /\ (go_ret p <= t \/ match act1 with Some (_, rt) => go_ret p = rt | None => False end)).
  { destruct act as [[aid rt]|].
    - destruct Hact as [Ha [p [Hp [Ho [Hst Hrt]]]]]. unfold hist_retire. fold t.
      destruct ((rt <? t) || ((rt =? t) && hc_return_first c)) eqn:Hc.
      + exists (fst (gstep g (GReturn aid))), None. split; [reflexivity|].
        rewrite (guard_return g aid Ha Hg). simpl. split; [left; auto|]. split; auto.
        intros q Hq Hqo. destruct (Hall q Hq Hqo) as [H1 [H2|H2]]; split; try lia; left; lia.
      + exists g, (Some (aid, rt)). split; [reflexivity|]. split; auto.
        apply orb_false_iff in Hc. destruct Hc as [Hc _]. apply Z.ltb_ge in Hc.
        split.
        * split; auto. split; auto. exists p. repeat split; auto; lia.
        * intros q Hq Hqo. destruct (Hall q Hq Hqo) as [H1 [H2|H2]]; (split; [lia|]); [left; lia|right; auto].
    - exists g, None. split; [reflexivity|]. split; auto. split; auto.
      intros q Hq Hqo. destruct (Hall q Hq Hqo) as [H1 [H2|[]]]. split; [lia|left; lia]. }
  destruct Hret as [g1 [act1 [Heq [Hg1 [Hact1 Hall1]]]]].
  cbn [hist_model]. rewrite Heq. cbn [fst snd]. fold t.
  destruct (hc_lens c) eqn:Hl.
  - (* lengths equal *)
    destruct act1 as [[aid rt]|].
    + (* a call is in progress: refused *)
      destruct Hact1 as [Ha [Hrt [p [Hp [Ho [Hst Hpr]]]]]].
      rewrite (gcall_busy g1 id aid Ha Hg1). cbn [fst snd guard_ok_from go_lens go_out go_start].
      apply andb_true_iff. split.
      * destruct (in_progress_at earlier t) eqn:Hip; [reflexivity|].
        destruct (returning_at earlier t) eqn:Hra; [reflexivity|]. exfalso.
        assert (Hne : forall f, existsb f earlier = false -> f p = false).
        { intros f Hf. destruct (f p) eqn:Hfp; auto.
          assert (existsb f earlier = true) by (apply existsb_exists; eauto). congruence. }
        apply Hne in Hip. apply Hne in Hra. rewrite Ho, Hpr in *. simpl in *.
        replace (go_start p <=? t) with true in * by (symmetry; apply Z.leb_le; lia). simpl in *.
        apply Z.ltb_ge in Hip. apply Z.eqb_neq in Hra. lia.
      * apply (IH _ _ (Some (aid, rt)) (S id) t); auto.
        split; [right; exists aid; auto|]. split.
        -- split; auto. exists p. repeat split; auto. apply in_or_app; auto.
        -- intros q Hq Hqo. apply in_app_or in Hq. destruct Hq as [Hq|[<-|[]]]; [|simpl in Hqo; discriminate].
           apply Hall1; auto.
    + (* idle: let in *)
      rewrite (gcall_idle g1 id Hact1 Hg1). cbn [fst snd guard_ok_from go_lens go_out go_start].
      apply andb_true_iff. split.
      * rewrite in_progress_false.
        -- destruct (returning_at earlier t); reflexivity.
        -- intros q Hq Hqo. destruct (Hall1 q Hq Hqo) as [_ [H|[]]]. auto.
      * apply (IH _ _ (Some (id, t + hc_dur c)) (S id) t); auto.
        split; [right; exists id; auto|]. split.
        -- split; auto. eexists. split; [apply in_or_app; right; left; reflexivity|]. simpl. repeat split; lia.
        -- intros q Hq Hqo. apply in_app_or in Hq. destruct Hq as [Hq|[<-|[]]].
           ++ destruct (Hall1 q Hq Hqo) as [H1 [H2|[]]]. split; auto.
           ++ simpl. split; [lia|right; auto].
  - (* lengths differ *)
    rewrite gcall_len. cbn [fst snd guard_ok_from go_lens go_out go_start]. simpl negb. simpl andb.
    apply (IH _ _ act1 (S id) t); auto.
    split; [apply ginv_eta; auto|]. split.
    + destruct act1 as [[aid rt]|]; simpl; auto.
      destruct Hact1 as [Ha [Hrt [p [Hp [Ho [Hst Hpr]]]]]]. split; auto.
      exists p. repeat split; auto. apply in_or_app; auto.
    + intros q Hq Hqo. apply in_app_or in Hq. destruct Hq as [Hq|[<-|[]]]; [|simpl in Hqo; discriminate].
      apply Hall1; auto.
Qed.

Lemma guard_oracle_model : forall cs T, starts_from T cs -> C16_guard_ok (hist_model ginit None 0 cs) = true.
Proof.
  intros cs T Hs. unfold C16_guard_ok. apply (hist_ok cs [] ginit None 0%nat T); auto.
  split; [apply ginv_init|]. split; [reflexivity|]. intros p [].
Qed.

(* ---------- concurrent calls: the order-free guard oracle ---------- *)

From Coq Require Import Sorting.Permutation.

Lemma overlap_sym : forall p q, overlap p q = overlap q p.
Proof.
  intros p q. unfold overlap.
  destruct (go_out p =? 0), (go_out q =? 0), (go_start p <? go_ret q), (go_start q <? go_ret p); reflexivity.
Qed.

Lemma forallb_perm : forall A (f : A -> bool) l l', Permutation l l' -> forallb f l = forallb f l'.
Proof.
  intros A f l l' H. induction H; simpl; auto.
  - rewrite IHPermutation; auto.
  - destruct (f x), (f y); reflexivity.
  - congruence.
Qed.

Lemma existsb_perm : forall A (f : A -> bool) l l', Permutation l l' -> existsb f l = existsb f l'.
Proof.
  intros A f l l' H. induction H; simpl; auto.
  - rewrite IHPermutation; auto.
  - destruct (f x), (f y); reflexivity.
  - congruence.
Qed.

Lemma forallb_ext_all : forall A (f g : A -> bool) l, (forall x, f x = g x) -> forallb f l = forallb g l.
Proof. intros A f g l H. induction l; simpl; auto. rewrite H, IHl. reflexivity. Qed.

Lemma pairwise_apart_perm : forall l l', Permutation l l' -> pairwise_apart l = pairwise_apart l'.
Proof.
  intros l l' H. induction H; simpl; auto.
  - rewrite IHPermutation. rewrite (forallb_perm _ _ _ _ H). reflexivity.
  - rewrite (overlap_sym y x).
    destruct (overlap x y), (forallb (fun q => negb (overlap y q)) l), (forallb (fun q => negb (overlap x q)) l);
      simpl; reflexivity.
  - congruence.
Qed.

(* the oracle does not depend on the order in which the calls are listed *)
Lemma concurrent_ok_perm : forall l l', Permutation l l' -> C16_concurrent_ok l = C16_concurrent_ok l'.
Proof.
  intros l l' H. unfold C16_concurrent_ok.
  rewrite (pairwise_apart_perm _ _ H).
  rewrite (forallb_perm _ class_ok _ _ H).
  rewrite (forallb_perm _ (refused_has_cause l) _ _ H).
  rewrite (forallb_ext_all _ (refused_has_cause l) (refused_has_cause l') l').
  - reflexivity.
  - intros o. unfold refused_has_cause. destruct (go_lens o && (go_out o =? 2)); auto.
    apply existsb_perm; auto.
Qed.

Lemma pairwise_apart_snoc : forall l o,
  pairwise_apart (l ++ [o]) = pairwise_apart l && forallb (fun q => negb (overlap q o)) l.
Proof.
  induction l as [|x l IH]; intros o; simpl; auto.
  rewrite forallb_app, IH. simpl.
  destruct (forallb (fun q => negb (overlap x q)) l), (overlap x o), (pairwise_apart l),
           (forallb (fun q => negb (overlap q o)) l); reflexivity.
Qed.

(* one call of a timed history: what the guard model answers and the state afterwards *)
Lemma hist_model_step : forall c r earlier g act id T,
  hinv earlier g act T -> T <= hc_start c -> 0 <= hc_dur c ->
  exists o g' act',
    hist_model g act id (c :: r) = o :: hist_model g' act' (S id) r /\
    hinv (earlier ++ [o]) g' act' (hc_start c) /\
    go_start o = hc_start c /\ class_ok o = true /\
    (go_out o = 0 -> forall q, In q earlier -> go_out q = 0 -> go_ret q <= go_start o) /\
    (go_out o = 2 -> exists p, In p earlier /\ go_out p = 0 /\ go_start p <= go_start o /\ go_start o <= go_ret p).
Proof.
  intros c r earlier g act id T Hinv HT Hdur. destruct Hinv as [Hg [Hact Hall]].
  set (t := hc_start c) in *.
  assert (Hret : exists g1 act1,
      hist_retire g act c = (g1, act1) /\
      ginv g1 /\
      match act1 with
      | Some (aid, rt) => g_active g1 = [aid] /\ t <= rt /\
                          exists p, In p earlier /\ go_out p = 0 /\ go_start p <= t /\ go_ret p = rt
      | None => g_active g1 = []
      end /\
      forall p, In p earlier -> go_out p = 0 ->
        go_start p <= t /\ (go_ret p <= t \/ match act1 with Some (_, rt) => go_ret p = rt | None => False end)).
  { destruct act as [[aid rt]|].
    - destruct Hact as [Ha [p [Hp [Ho [Hst Hrt]]]]]. unfold hist_retire. fold t.
      destruct ((rt <? t) || ((rt =? t) && hc_return_first c)) eqn:Hc.
      + exists (fst (gstep g (GReturn aid))), None. split; [reflexivity|].
        rewrite (guard_return g aid Ha Hg). simpl. split; [left; auto|]. split; auto.
        intros q Hq Hqo. destruct (Hall q Hq Hqo) as [H1 [H2|H2]]; split; try lia; left; lia.
      + exists g, (Some (aid, rt)). split; [reflexivity|]. split; auto.
        apply orb_false_iff in Hc. destruct Hc as [Hc _]. apply Z.ltb_ge in Hc.
        split.
        * split; auto. split; auto. exists p. repeat split; auto; lia.
        * intros q Hq Hqo. destruct (Hall q Hq Hqo) as [H1 [H2|H2]]; (split; [lia|]); [left; lia|right; auto].
    - exists g, None. split; [reflexivity|]. split; auto. split; auto.
      intros q Hq Hqo. destruct (Hall q Hq Hqo) as [H1 [H2|[]]]. split; [lia|left; lia]. }
  destruct Hret as [g1 [act1 [Heq [Hg1 [Hact1 Hall1]]]]].
  cbn [hist_model]. rewrite Heq. cbn [fst snd]. fold t.
  destruct (hc_lens c) eqn:Hl.
  - destruct act1 as [[aid rt]|].
    + destruct Hact1 as [Ha [Hrt [p [Hp [Ho [Hst Hpr]]]]]].
      rewrite (gcall_busy g1 id aid Ha Hg1). cbn [fst snd].
      eexists; eexists; eexists. split; [reflexivity|].
      split; [|split; [reflexivity|split; [reflexivity|split]]].
      * split; [right; exists aid; auto|]. split.
        -- split; auto. exists p. repeat split; auto. apply in_or_app; auto.
        -- intros q Hq Hqo. apply in_app_or in Hq. destruct Hq as [Hq|[<-|[]]]; [|simpl in Hqo; discriminate].
           apply Hall1; auto.
      * simpl. discriminate.
      * intros _. exists p. simpl. repeat split; auto; lia.
    + rewrite (gcall_idle g1 id Hact1 Hg1). cbn [fst snd].
      eexists; eexists; eexists. split; [reflexivity|].
      split; [|split; [reflexivity|split; [reflexivity|split]]].
      * split; [right; exists id; auto|]. split.
        -- split; auto. eexists. split; [apply in_or_app; right; left; reflexivity|]. simpl. repeat split; lia.
        -- intros q Hq Hqo. apply in_app_or in Hq. destruct Hq as [Hq|[<-|[]]].
           ++ destruct (Hall1 q Hq Hqo) as [H1 [H2|[]]]. split; auto.
           ++ simpl. split; [lia|right; auto].
      * intros _ q Hq Hqo. simpl. destruct (Hall1 q Hq Hqo) as [_ [H|[]]]. auto.
      * simpl. discriminate.
  - rewrite gcall_len. cbn [fst snd].
    eexists; eexists; eexists. split; [reflexivity|].
    split; [|split; [reflexivity|split; [reflexivity|split]]].
    + split; [apply ginv_eta; auto|]. split.
      * destruct act1 as [[aid rt]|]; simpl; auto.
        destruct Hact1 as [Ha [Hrt [p [Hp [Ho [Hst Hpr]]]]]]. split; auto.
        exists p. repeat split; auto. apply in_or_app; auto.
      * intros q Hq Hqo. apply in_app_or in Hq. destruct Hq as [Hq|[<-|[]]]; [|simpl in Hqo; discriminate].
        apply Hall1; auto.
    + simpl. discriminate.
    + simpl. discriminate.
Qed.

Lemma hist_apart : forall cs earlier g act id T,
  hinv earlier g act T -> starts_from T cs -> pairwise_apart earlier = true ->
  pairwise_apart (earlier ++ hist_model g act id cs) = true.
Proof.
  induction cs as [|c r IH]; intros earlier g act id T Hinv Hs Hpa.
  - simpl. rewrite app_nil_r. auto.
  - destruct Hs as [HT [Hdur Hs]].
    destruct (hist_model_step c r earlier g act id T Hinv HT Hdur) as [o [g' [act' [He [Hinv' [Hst [_ [H0 _]]]]]]]].
    rewrite He. replace (earlier ++ o :: hist_model g' act' (S id) r) with ((earlier ++ [o]) ++ hist_model g' act' (S id) r)
      by (rewrite <- app_assoc; reflexivity).
    apply (IH _ _ _ _ (hc_start c)); auto.
    rewrite pairwise_apart_snoc, Hpa. simpl. apply forallb_forall. intros q Hq.
    apply negb_true_iff. unfold overlap.
    destruct (go_out q =? 0) eqn:Hq0; simpl; auto. destruct (go_out o =? 0) eqn:Ho0; simpl; auto.
    apply Z.eqb_eq in Hq0. apply Z.eqb_eq in Ho0. specialize (H0 Ho0 q Hq Hq0).
    replace (go_start o <? go_ret q) with false by (symmetry; apply Z.ltb_ge; lia).
    apply andb_false_r.
Qed.

Lemma hist_classes : forall cs earlier g act id T,
  hinv earlier g act T -> starts_from T cs -> forall o, In o (hist_model g act id cs) -> class_ok o = true.
Proof.
  induction cs as [|c r IH]; intros earlier g act id T Hinv Hs o Hin; [contradiction|].
  destruct Hs as [HT [Hdur Hs]].
  destruct (hist_model_step c r earlier g act id T Hinv HT Hdur) as [o1 [g' [act' [He [Hinv' [_ [Hc _]]]]]]].
  rewrite He in Hin. destruct Hin as [<-|Hin]; auto. eapply IH; eauto.
Qed.

Lemma hist_refused : forall cs earlier g act id T,
  hinv earlier g act T -> starts_from T cs -> forall o, In o (hist_model g act id cs) -> go_out o = 2 ->
  exists q, In q (earlier ++ hist_model g act id cs) /\ go_out q = 0 /\ go_start q <= go_start o /\ go_start o <= go_ret q.
Proof.
  induction cs as [|c r IH]; intros earlier g act id T Hinv Hs o Hin Ho; [contradiction|].
  destruct Hs as [HT [Hdur Hs]].
  destruct (hist_model_step c r earlier g act id T Hinv HT Hdur) as [o1 [g' [act' [He [Hinv' [_ [_ [_ H2]]]]]]]].
  rewrite He in *. destruct Hin as [<-|Hin].
  - destruct (H2 Ho) as [p [Hp Hrest]]. exists p. split; auto. apply in_or_app; auto.
  - destruct (IH _ _ _ _ _ Hinv' Hs o Hin Ho) as [q [Hq Hrest]]. exists q. split; auto.
    rewrite <- app_assoc in Hq. exact Hq.
Qed.

Lemma concurrent_oracle_model : forall cs T, starts_from T cs -> C16_concurrent_ok (hist_model ginit None 0 cs) = true.
Proof.
  intros cs T Hs.
  assert (Hi : hinv [] ginit None T).
  { split; [apply ginv_init|]. split; [reflexivity|]. intros p []. }
  unfold C16_concurrent_ok. apply andb_true_iff. split; [apply andb_true_iff; split|].
  - apply (hist_apart cs [] ginit None 0%nat T); auto.
  - apply forallb_forall. intros o Hin. unfold refused_has_cause.
    destruct (go_lens o && (go_out o =? 2)) eqn:Hc; auto.
    apply andb_true_iff in Hc. destruct Hc as [_ Hc]. apply Z.eqb_eq in Hc.
    destruct (hist_refused cs [] ginit None 0%nat T Hi Hs o Hin Hc) as [q [Hq [H0 [H1 H2]]]].
    apply existsb_exists. exists q. split; auto. rewrite H0. simpl.
    apply andb_true_iff. split; apply Z.leb_le; auto.
  - apply forallb_forall. intros o Hin. eapply hist_classes; eauto.
Qed.

(* ---------- one iteration of sync.Run: two collections side by side ---------- *)

Definition latest_on (sc : scen) (ks : list nat) : Z :=
  fold_right (fun k acc => match ctime sc k with Some t => Z.max t acc | None => acc end) 0 ks.

Lemma all_before_latest : forall sc ks, forallb (before_dl sc) ks = true ->
  maxfold sc ks = latest_on sc ks /\ maxfold sc ks <= dl sc.
Proof.
  intros sc ks. induction ks as [|k ks IH]; simpl; intros H.
  - split; auto. apply dl_nonneg.
  - apply andb_true_iff in H. destruct H as [Hk Hks]. destruct (IH Hks) as [He Hl].
    unfold before_dl in Hk. destruct (ctime sc k) as [t|]; try discriminate.
    apply Z.ltb_lt in Hk. rewrite He. split; auto. rewrite <- He. lia.
Qed.

Lemma sync_round_model : forall sc_r sc_p s_r s_p j_r t_r j_p t_p,
  wf sc_r -> wf sc_p -> reachable sc_r s_r -> reachable sc_p s_p ->
  coll s_r = Ret j_r t_r -> coll s_p = Ret j_p t_p ->
  Z.max t_r t_p <= Z.max (dl sc_r) (dl sc_p) /\
  Z.max t_r t_p = Z.max (expected_ret sc_r) (expected_ret sc_p) /\
  C16_sync_round_ok sc_r sc_p (Z.max t_r t_p) = true.
Proof.
  intros sc_r sc_p s_r s_p j_r t_r j_p t_p Hwr Hwp Hrr Hrp Hcr Hcp.
  pose proof (deadline_respected sc_r s_r Hwr Hrr) as Hr. rewrite Hcr in Hr. destruct Hr as [Hr1 Hr2].
  pose proof (deadline_respected sc_p s_p Hwp Hrp) as Hp. rewrite Hcp in Hp. destruct Hp as [Hp1 Hp2].
  split; [lia|]. split; [congruence|].
  unfold C16_sync_round_ok. apply andb_true_iff. split; [apply Z.leb_le; lia|].
  destruct (all_before sc_r) eqn:Har; simpl; auto. destruct (all_before sc_p) eqn:Hap; simpl; auto.
  apply Z.eqb_eq. unfold all_before in *.
  destruct (all_before_latest sc_r _ Har) as [Her Hlr]. destruct (all_before_latest sc_p _ Hap) as [Hep Hlp].
  rewrite <- exact_ret_fold in *. unfold latest_completion. fold (latest_on sc_r (seq 0 (nclk sc_r))).
  fold (latest_on sc_p (seq 0 (nclk sc_p))). rewrite <- Her, <- Hep.
  subst t_r t_p. unfold expected_ret. lia.
Qed.

(* ---------- goroutine accounting at any settled instant ---------- *)

Lemma alive_le_filter : forall (P : nat -> bool) l off,
  (forall k, (k < length l)%nat -> nth k l Done <> Done -> P (off + k)%nat = true) ->
  (alive_p l <= length (filter P (seq off (length l))))%nat.
Proof.
  intros P. induction l as [|x l IH]; intros off H; simpl; [unfold alive_p; simpl; lia|].
  assert (Hl : (alive_p l <= length (filter P (seq (S off) (length l))))%nat).
  { apply IH. intros k Hk Hn. replace (S off + k)%nat with (off + S k)%nat by lia. apply H; simpl; auto; lia. }
  unfold alive_p in *. simpl. destruct (is_done x) eqn:Hx; simpl.
  - destruct (P off); simpl; lia.
  - assert (Hp : P off = true).
    { replace off with (off + 0)%nat by lia. apply H; simpl; [lia|]. destruct x; simpl in Hx; congruence. }
    rewrite Hp. simpl. lia.
Qed.

(* collector returned, nothing can run, every timed event still pending lies after tp: the
   goroutines left are covered by the clocks still running at tp *)
Lemma alive_ok_model : forall sc s j t tp, wf sc -> reachable sc s ->
  coll s = Ret j t -> urgent s = false -> (forall x, In x (pending sc s) -> tp < x) ->
  C16_alive_ok sc t tp (Z.of_nat (goroutines s)) = true.
Proof.
  intros sc s j t tp Hwf Hr Hc Hu Hpend.
  pose proof (invA_reachable sc s Hwf Hr) as [Hp Hm Hcol]. rewrite Hc in Hcol. destruct Hcol as [r [Hd Hal]].
  rewrite goroutines_alive, Hc, Hd. unfold C16_alive_ok, C16_alive_bound.
  set (W := length (filter (still_running sc tp) (seq 0 (nclk sc)))).
  assert (HrW : (r = 0 \/ r <= W)%nat).
  { destruct r as [|r']; [left; auto|right].
    unfold urgent in Hu. rewrite Hc, Hd in Hu.
    rewrite <- Hal. unfold W. rewrite <- Hp. apply alive_le_filter. intros k Hk Hn. simpl.
    pose proof (existsb_ready_false _ Hu k) as Hnr.
    assert (Hw : pstate s k = Working) by (unfold pstate; destruct (nth k (prods s) Done); congruence).
    unfold still_running. destruct (ctime sc k) as [tk|] eqn:Hct; auto.
    apply Z.ltb_lt. apply Hpend. eapply pending_work; eauto. }
  apply Z.leb_le. rewrite Hal.
  destruct (t <=? tp); destruct (0 <? Z.of_nat W) eqn:HW; try apply Z.ltb_lt in HW; try apply Z.ltb_ge in HW;
    destruct r as [|r']; destruct HrW as [H0|HW']; try discriminate; lia.
Qed.

(* ---------- guard and collector composed: when the guard is released ---------- *)

Inductive gc_reachable (sc : scen) (id : nat) (x0 : gc) : gc -> Prop :=
| gcr_init : gc_reachable sc id x0 x0
| gcr_step : forall x l x', gc_reachable sc id x0 x -> gc_step sc id x l = Some x' -> gc_reachable sc id x0 x'.

Definition gc_inv (sc : scen) (id : nat) (x : gc) : Prop :=
  reachable sc (gc_s x) /\
  match coll (gc_s x) with
  | Loop _ _ => g_active (gc_g x) = [id] /\ g_numops (gc_g x) = 1
  | Ret _ t => gc_g x = {| g_numops := 0; g_active := [] |} /\ t = expected_ret sc
  end.

Lemma gc_init_spec : forall sc id g x0, ginv g -> gc_init sc id g = Some x0 -> wf sc /\ gc_inv sc id x0.
Proof.
  intros sc id g x0 Hg Hi. unfold gc_init in Hi.
  destruct (gstep g (GCall id (length (s_ms0 sc)) (nclk sc))) as [g' out] eqn:Hs.
  destruct out as [[| |]| | |]; try discriminate. inversion Hi; subst x0. clear Hi.
  assert (Hsnd : snd (gstep g (GCall id (length (s_ms0 sc)) (nclk sc))) = GO_call Started) by (rewrite Hs; auto).
  destruct (guard_active g id _ _ Hg Hsnd) as [Ha [Ha' Hab]]. rewrite Hs in Ha'. simpl in Ha'.
  split; [exact Hab|]. split; simpl; [constructor|]. split; auto.
  pose proof (ginv_step g (GCall id (length (s_ms0 sc)) (nclk sc)) Hg) as [Hg' _]. rewrite Hs in Hg'. simpl in Hg'.
  destruct Hg' as [[He _]|[y [_ Hn]]]; [congruence|auto].
Qed.

Lemma gc_inv_step : forall sc id x l x', wf sc -> gc_inv sc id x -> gc_step sc id x l = Some x' -> gc_inv sc id x'.
Proof.
  intros sc id x l x' Hwf [Hr Hc] Hs. unfold gc_step in Hs.
  destruct (step sc (gc_s x) l) as [s'|] eqn:Hst; try discriminate. inversion Hs; subst x'. clear Hs.
  assert (Hr' : reachable sc s') by (eapply r_step; eauto).
  split; simpl; auto.
  pose proof (deadline_respected sc s' Hwf Hr') as Hd.
  pose proof (step_inv _ _ _ _ Hst) as Hsp.
  destruct Hsp as [k t Hk Hct Hto | Hcn Hto | k i j Hco Hi Hk | i j Hco Hi Hca | i j Hco Hi | k r Hdr Hk];
    cbn [gc_g gc_s coll] in *.
  - exact Hc.
  - exact Hc.
  - rewrite Hco in Hc. exact Hc.
  - rewrite Hco in Hc. destruct Hc as [Ha Hn]. destruct Hd as [_ Hd]. split; auto.
    rewrite Ha, Hn. simpl. rewrite ?Nat.eqb_refl. simpl. rewrite ?Nat.eqb_refl. reflexivity.
  - rewrite Hco in Hc. destruct Hc as [Ha Hn]. destruct Hd as [_ Hd]. split; auto.
    rewrite Ha, Hn. simpl. rewrite ?Nat.eqb_refl. simpl. rewrite ?Nat.eqb_refl. reflexivity.
  - exact Hc.
Qed.

(* From the moment a call is let in: the collector object counts one call in progress exactly
   while the collector loops, and the count is back to 0 from the instant the collector returns,
   which is min(deadline, completion of the last clock). *)
Lemma guard_released_at_return : forall sc id g x0 x, ginv g -> gc_init sc id g = Some x0 ->
  gc_reachable sc id x0 x -> wf sc /\ gc_inv sc id x.
Proof.
  intros sc id g x0 x Hg Hi Hr. destruct (gc_init_spec sc id g x0 Hg Hi) as [Hwf H0].
  split; auto. induction Hr; auto. eapply gc_inv_step; eauto.
Qed.

(* the count returned by collectMeasurements is the length of the front *)
Lemma raw_ok_model : forall sc s j t, wf sc -> reachable sc s -> coll s = Ret j t ->
  C16_raw_ok sc t j (ms s) = true.
Proof.
  intros sc s j t Hwf Hr Hc.
  pose proof (deadline_respected sc s Hwf Hr) as Hd. rewrite Hc in Hd. destruct Hd as [Hd _].
  destruct (prefix_once sc s j t Hwf Hr Hc) as [l [Hnd [Hin [Hea [Hj [Hjn Hms]]]]]].
  pose proof (invA_reachable sc s Hwf Hr) as [_ Hlm _].
  assert (Hlen : length (map (cres sc) (oks sc l)) = j) by (rewrite map_length; auto).
  unfold C16_raw_ok. repeat (apply andb_true_iff; split).
  - apply Z.leb_le; auto.
  - apply Nat.eqb_eq. rewrite Hlm. symmetry. exact Hwf.
  - apply Nat.leb_le. rewrite Hlm. auto.
  - rewrite Hms. rewrite skipn_app. rewrite Hlen, Nat.sub_diag. simpl.
    rewrite skipn_all2 by lia. simpl. apply meas_list_eqb_refl.
  - rewrite Hms. rewrite firstn_app. rewrite Hlen, Nat.sub_diag. simpl. rewrite app_nil_r.
    rewrite firstn_all2 by lia. apply front_ok_of; auto.
Qed.
