(* Proofs about Model/FtmMeas.v: Go's time.Time arithmetic (Add exact in range and
   saturating outside, Sub = saturated difference for ALL representable times), the
   timestamp of measurements.midpoint lies between its arguments' timestamps for ALL
   representable times, multiset equality is sound and complete, and the oracles of
   Model/FtmMeas.v hold for the model on all inputs. *)
From ST Require Import Base.Ints Base.Sorting Model.Ftm Model.FtmMeas Proofs.FtmProofs.
From Coq Require Import ZArith List Bool Lia Sorting.Permutation Sorting.Sorted.
Import ListNotations.
Open Scope Z_scope.

Ltac Zify.zify_post_hook ::= Z.to_euclidean_division_equations.

(* ---------- int64 wrap ---------- *)
Lemma i64_range x : in_i64 (i64 x).
Proof. unfold in_i64, i64, min_i64, max_i64, two63, two64. lia. Qed.

Lemma i64_wrap x : exists k, i64 x = x + k * two64.
Proof.
  unfold i64. exists (- ((x + two63) / two64)).
  pose proof (Z.div_mod (x + two63) two64 ltac:(unfold two64; lia)) as H. lia.
Qed.

Lemma i64_id' x : in_i64 x -> i64 x = x.
Proof. unfold in_i64, i64, min_i64, max_i64, two63, two64. lia. Qed.

(* ---------- addSec ---------- *)
Lemma add_sec_spec ext d : in_i64 ext -> - 2^40 <= d <= 2^40 ->
  (in_i64 (ext + d) /\ add_sec ext d = ext + d) \/
  (ext + d > max_i64 /\ add_sec ext d = max_i64) \/
  (ext + d < min_i64 /\ add_sec ext d = - max_i64).
Proof.
  unfold in_i64, add_sec. change (2^40) with 1099511627776. intros He Hd.
  destruct (i64_wrap (ext + d)) as [k Hk]. pose proof (i64_range (ext + d)) as Hr. unfold in_i64 in Hr.
  set (sum := i64 (ext + d)) in *. clearbody sum.
  unfold min_i64, max_i64, two64 in *.
  destruct (ext <? sum) eqn:E1; destruct (0 <? d) eqn:E2; cbn [Bool.eqb];
    [apply Z.ltb_lt in E1, E2 | apply Z.ltb_lt in E1; apply Z.ltb_ge in E2
    | apply Z.ltb_ge in E1; apply Z.ltb_lt in E2 | apply Z.ltb_ge in E1, E2]; lia.
Qed.

(* destruct the boolean comparisons of the goal, one after the other *)
Ltac bcases :=
  repeat match goal with
  | |- context [?a <? ?b] => destruct (Z.ltb_spec a b)
  | |- context [?a <=? ?b] => destruct (Z.leb_spec a b)
  | |- context [?a =? ?b] => destruct (Z.eqb_spec a b)
  end; cbn [andb orb negb Bool.eqb].

Ltac consts := unfold in_i64, min_i64, max_i64, two63, two64, ns_per_s in *.

(* ---------- Time.Add: the exact sum, with the seconds saturated at +-(2^63-1) ---------- *)
Lemma gt_add_spec t d : gt_wf t -> in_i64 d ->
  0 <= gt_nsec (gt_add t d) < ns_per_s /\
  exists S, S * ns_per_s + gt_nsec (gt_add t d) = gt_abs t + d /\
    ((in_i64 S /\ gt_sec (gt_add t d) = S) \/
     (S > max_i64 /\ gt_sec (gt_add t d) = max_i64) \/
     (S < min_i64 /\ gt_sec (gt_add t d) = - max_i64)).
Proof.
  unfold gt_wf, gt_abs, gt_add, go_div, go_rem. destruct t as [s n]; cbn [gt_sec gt_nsec].
  intros [Hs Hn] Hd.
  set (q := Z.quot d ns_per_s). set (r := Z.rem d ns_per_s).
  assert (Hq : d = ns_per_s * q + r /\ - ns_per_s < r < ns_per_s /\ - 2^34 <= q <= 2^34).
  { unfold q, r. change (2^34) with 17179869184. consts. lia. }
  destruct Hq as [Hq1 [Hq2 Hq3]]. clearbody q r. change (2^34) with 17179869184 in Hq3.
  rewrite (i64_id' q) by (consts; lia).
  destruct (Z.leb_spec ns_per_s (n + r)) as [E1|E1]; [|destruct (Z.ltb_spec (n + r) 0) as [E2|E2]]; cbn [gt_sec gt_nsec].
  - split; [consts; lia|]. exists (s + (q + 1)). split; [consts; lia|].
    apply add_sec_spec; [exact Hs|change (2^40) with 1099511627776; lia].
  - split; [consts; lia|]. exists (s + (q - 1)). split; [consts; lia|].
    apply add_sec_spec; [exact Hs|change (2^40) with 1099511627776; lia].
  - split; [consts; lia|]. exists (s + q). split; [consts; lia|].
    apply add_sec_spec; [exact Hs|change (2^40) with 1099511627776; lia].
Qed.

Lemma gt_add_wf t d : gt_wf t -> in_i64 d -> gt_wf (gt_add t d).
Proof.
  intros Ht Hd. destruct (gt_add_spec t d Ht Hd) as [Hn [S [_ Hc]]]. split; [|exact Hn].
  consts. destruct Hc as [[? ->]|[[? ->]|[? ->]]]; lia.
Qed.

(* when the exact sum is a representable time, Add returns it *)
Lemma gt_add_exact t d : gt_wf t -> in_i64 d ->
  min_i64 * ns_per_s <= gt_abs t + d < (max_i64 + 1) * ns_per_s ->
  gt_abs (gt_add t d) = gt_abs t + d.
Proof.
  intros Ht Hd Hr. destruct (gt_add_spec t d Ht Hd) as [Hn [S [HS Hc]]].
  unfold gt_abs in *. consts. destruct Hc as [[? ->]|[[? ->]|[? ->]]]; lia.
Qed.

(* ---------- Time.Sub: the difference of the instants, saturated to int64 — for ALL pairs of times ---------- *)
Theorem gt_sub_spec t u : gt_wf t -> gt_wf u -> gt_sub t u = sat64 (gt_abs t - gt_abs u).
Proof.
  intros Ht Hu. unfold gt_sub.
  set (d := i64 (i64 (i64 (gt_sec t - gt_sec u) * ns_per_s) + (gt_nsec t - gt_nsec u))).
  assert (Hd : in_i64 d) by apply i64_range.
  assert (Hk : exists k, d = gt_abs t - gt_abs u + k * two64).
  { unfold d, gt_abs.
    destruct (i64_wrap (gt_sec t - gt_sec u)) as [k1 ->].
    destruct (i64_wrap ((gt_sec t - gt_sec u + k1 * two64) * ns_per_s)) as [k2 ->].
    destruct (i64_wrap ((gt_sec t - gt_sec u + k1 * two64) * ns_per_s + k2 * two64 + (gt_nsec t - gt_nsec u))) as [k3 ->].
    exists (k1 * ns_per_s + k2 + k3). consts. lia. }
  destruct Hk as [k Hk].
  destruct (gt_add_spec u d Hu Hd) as [Hn [S [HS Hc]]].
  clearbody d. set (r := gt_add u d) in *. clearbody r.
  unfold gt_equal, gt_before, sat64, gt_wf, gt_abs in *.
  destruct t as [ts tn], u as [us un], r as [rs rn]; cbn [gt_sec gt_nsec] in *.
  destruct Ht as [Ht1 Ht2], Hu as [Hu1 Hu2]. consts.
  bcases; destruct Hc as [[? ?]|[[? ?]|[? ?]]]; lia.
Qed.

(* ---------- order of times ---------- *)
Lemma gt_after_abs t u : gt_wf t -> gt_wf u -> gt_after t u = true <-> gt_abs u < gt_abs t.
Proof.
  unfold gt_wf, gt_after, gt_abs. destruct t as [ts tn], u as [us un]; cbn [gt_sec gt_nsec].
  intros [_ Ht] [_ Hu]. rewrite orb_true_iff, andb_true_iff, !Z.ltb_lt, Z.eqb_eq. consts. lia.
Qed.

Lemma gt_leb_abs t u : gt_wf t -> gt_wf u -> gt_leb t u = true <-> gt_abs t <= gt_abs u.
Proof.
  unfold gt_wf, gt_leb, gt_abs. destruct t as [ts tn], u as [us un]; cbn [gt_sec gt_nsec].
  intros [_ Ht] [_ Hu]. rewrite orb_true_iff, andb_true_iff, Z.ltb_lt, Z.eqb_eq, Z.leb_le. consts. lia.
Qed.

Lemma gt_abs_inj t u : gt_wf t -> gt_wf u -> gt_abs t = gt_abs u -> t = u.
Proof.
  unfold gt_wf, gt_abs. destruct t as [ts tn], u as [us un]; cbn [gt_sec gt_nsec].
  intros [_ Ht] [_ Hu] H. consts. assert (ts = us) by lia. subst. f_equal. lia.
Qed.

Lemma gt_wfb_true t : gt_wf t -> gt_wfb t = true.
Proof.
  unfold gt_wf, gt_wfb, in_i64b, in_i64. intros [[H1 H2] [H3 H4]].
  apply andb_true_intro; split; [apply andb_true_intro; split; [apply andb_true_intro; split|]|]; lia.
Qed.

(* ---------- the timestamp of midpoint: a.Add(b.Sub(a)/2) for a not after b ---------- *)
Lemma half_step a b : gt_wf a -> gt_wf b -> gt_abs a <= gt_abs b ->
  gt_wf (gt_add a (go_div (gt_sub b a) 2)) /\
  gt_abs (gt_add a (go_div (gt_sub b a) 2)) = gt_abs a + Z.quot (sat64 (gt_abs b - gt_abs a)) 2.
Proof.
  intros Ha Hb Hab. rewrite (gt_sub_spec b a Hb Ha).
  set (D := gt_abs b - gt_abs a) in *.
  assert (Hh : 0 <= Z.quot (sat64 D) 2 <= D /\ in_i64 (Z.quot (sat64 D) 2)).
  { unfold sat64. consts. bcases; lia. }
  destruct Hh as [Hh1 Hh2]. unfold go_div. rewrite (i64_id' _ Hh2).
  split; [apply gt_add_wf; assumption|].
  apply gt_add_exact; [exact Ha|exact Hh2|].
  unfold gt_wf, gt_abs in *. destruct a as [sa na], b as [sb nb]; cbn [gt_sec gt_nsec] in *. consts. lia.
Qed.

Lemma half_step_between a b : gt_wf a -> gt_wf b -> gt_abs a <= gt_abs b ->
  gt_abs a <= gt_abs (gt_add a (go_div (gt_sub b a) 2)) <= gt_abs b.
Proof.
  intros Ha Hb Hab. destruct (half_step a b Ha Hb Hab) as [_ ->].
  unfold sat64. consts. bcases; lia.
Qed.

Theorem tmid_ts_wf x y : gt_wf (tm_ts x) -> gt_wf (tm_ts y) -> gt_wf (tm_ts (tmidpoint x y)).
Proof.
  intros Hx Hy. unfold tmidpoint; cbn [tm_ts].
  destruct (gt_after (tm_ts x) (tm_ts y)) eqn:E; cbn [negb].
  - apply gt_after_abs in E; [|assumption|assumption]. apply half_step; [assumption|assumption|lia].
  - apply half_step; [assumption|assumption|].
    destruct (Z.le_gt_cases (gt_abs (tm_ts x)) (gt_abs (tm_ts y))) as [H|H]; [exact H|].
    apply (proj2 (gt_after_abs _ _ Hx Hy)) in H. congruence.
Qed.

(* the exact value: earlier + sat64(later - earlier) quot 2 *)
Theorem tmid_ts_value x y : gt_wf (tm_ts x) -> gt_wf (tm_ts y) ->
  let lo := Z.min (gt_abs (tm_ts x)) (gt_abs (tm_ts y)) in
  let hi := Z.max (gt_abs (tm_ts x)) (gt_abs (tm_ts y)) in
  gt_abs (tm_ts (tmidpoint x y)) = lo + Z.quot (sat64 (hi - lo)) 2.
Proof.
  intros Hx Hy. unfold tmidpoint; cbn [tm_ts].
  destruct (gt_after (tm_ts x) (tm_ts y)) eqn:E; cbn [negb].
  - apply gt_after_abs in E; [|assumption|assumption].
    destruct (half_step (tm_ts y) (tm_ts x) Hy Hx ltac:(lia)) as [_ ->].
    rewrite Z.min_r, Z.max_l by lia. reflexivity.
  - assert (H : gt_abs (tm_ts x) <= gt_abs (tm_ts y)).
    { destruct (Z.le_gt_cases (gt_abs (tm_ts x)) (gt_abs (tm_ts y))) as [H|H]; [exact H|].
      apply (proj2 (gt_after_abs _ _ Hx Hy)) in H. congruence. }
    destruct (half_step (tm_ts x) (tm_ts y) Hx Hy H) as [_ ->].
    rewrite Z.min_l, Z.max_r by lia. reflexivity.
Qed.

(* the combined timestamp lies between the two timestamps, for ALL representable times
   (also when Sub saturates: then it is not the midpoint, but still between) *)
Theorem tmid_ts_between x y : gt_wf (tm_ts x) -> gt_wf (tm_ts y) ->
  Z.min (gt_abs (tm_ts x)) (gt_abs (tm_ts y)) <= gt_abs (tm_ts (tmidpoint x y))
    <= Z.max (gt_abs (tm_ts x)) (gt_abs (tm_ts y)).
Proof.
  intros Hx Hy. rewrite (tmid_ts_value x y Hx Hy). cbv zeta.
  set (lo := Z.min _ _). set (hi := Z.max _ _).
  assert (lo <= hi) by (unfold lo, hi; lia). clearbody lo hi.
  unfold sat64. consts. bcases; lia.
Qed.

(* it is the true midpoint (rounded towards the earlier) iff the two are at most 2^63-1 ns apart *)
Theorem tmid_ts_is_midpoint x y : gt_wf (tm_ts x) -> gt_wf (tm_ts y) ->
  Z.abs (gt_abs (tm_ts x) - gt_abs (tm_ts y)) <= max_i64 ->
  let lo := Z.min (gt_abs (tm_ts x)) (gt_abs (tm_ts y)) in
  let hi := Z.max (gt_abs (tm_ts x)) (gt_abs (tm_ts y)) in
  gt_abs (tm_ts (tmidpoint x y)) = lo + (hi - lo) / 2.
Proof.
  intros Hx Hy Hd. rewrite (tmid_ts_value x y Hx Hy). cbv zeta.
  set (lo := Z.min _ _). set (hi := Z.max _ _).
  assert (0 <= hi - lo <= max_i64) by (unfold lo, hi; lia). clearbody lo hi.
  unfold sat64. consts. bcases; lia.
Qed.

Theorem ts_oracle x y : gt_wf (tm_ts x) -> gt_wf (tm_ts y) ->
  C02_ts_ok (tm_ts x) (tm_ts y) (tm_ts (tmidpoint x y)) = true.
Proof.
  intros Hx Hy. pose proof (tmid_ts_wf x y Hx Hy) as Hw. pose proof (tmid_ts_between x y Hx Hy) as Hb.
  unfold C02_ts_ok. rewrite (gt_wfb_true _ Hw). cbn [andb].
  destruct (Z.le_gt_cases (gt_abs (tm_ts x)) (gt_abs (tm_ts y))) as [H|H].
  - rewrite (proj2 (gt_leb_abs _ _ Hx Hw)) by lia. rewrite (proj2 (gt_leb_abs _ _ Hw Hy)) by lia. reflexivity.
  - rewrite (proj2 (gt_leb_abs _ _ Hy Hw)) by lia. rewrite (proj2 (gt_leb_abs _ _ Hw Hx)) by lia.
    apply orb_true_r.
Qed.

(* the oracle is sound: what it accepts does lie between *)
Lemma ts_oracle_sound x y r : gt_wf x -> gt_wf y -> C02_ts_ok x y r = true ->
  gt_wf r /\ Z.min (gt_abs x) (gt_abs y) <= gt_abs r <= Z.max (gt_abs x) (gt_abs y).
Proof.
  intros Hx Hy. unfold C02_ts_ok. intros H. apply andb_prop in H. destruct H as [Hw H].
  assert (Hr : gt_wf r).
  { unfold gt_wfb, in_i64b in Hw. unfold gt_wf, in_i64.
    apply andb_prop in Hw. destruct Hw as [Hw H4]. apply andb_prop in Hw. destruct Hw as [Hw H3].
    apply andb_prop in Hw. destruct Hw as [H1 H2]. lia. }
  split; [exact Hr|].
  apply orb_prop in H. destruct H as [H|H]; apply andb_prop in H; destruct H as [H1 H2].
  - apply (gt_leb_abs _ _ Hx Hr) in H1. apply (gt_leb_abs _ _ Hr Hy) in H2. lia.
  - apply (gt_leb_abs _ _ Hy Hr) in H1. apply (gt_leb_abs _ _ Hr Hx) in H2. lia.
Qed.

(* ---------- executable multiset equality is exactly Permutation ---------- *)
Section MultisetProofs.
  Context {A : Type} (eqb : A -> A -> bool).
  Hypothesis eqb_eq : forall a b, eqb a b = true <-> a = b.

  Lemma remove_one_perm x l l' : remove_one eqb x l = Some l' -> Permutation l (x :: l').
  Proof.
    revert l'. induction l as [|y r IH]; intros l'; cbn [remove_one]; [discriminate|].
    destruct (eqb x y) eqn:E.
    - apply eqb_eq in E. subst y. intros H; inversion H; subst. apply Permutation_refl.
    - destruct (remove_one eqb x r) as [r'|]; [|discriminate]. intros H; inversion H; subst.
      eapply Permutation_trans; [apply perm_skip; apply IH; reflexivity|]. apply perm_swap.
  Qed.

  Lemma remove_one_in x l : In x l -> exists l', remove_one eqb x l = Some l'.
  Proof.
    induction l as [|y r IH]; [intros []|]. cbn [remove_one]. intros H.
    destruct (eqb x y) eqn:E; [eexists; reflexivity|].
    destruct H as [H|H]; [subst y; rewrite (proj2 (eqb_eq x x) eq_refl) in E; discriminate|].
    destruct (IH H) as [l' ->]. eexists; reflexivity.
  Qed.

  Theorem multiset_eqb_sound a b : multiset_eqb eqb a b = true -> Permutation a b.
  Proof.
    revert b. induction a as [|x r IH]; intros b; cbn [multiset_eqb].
    - destruct b; [constructor|discriminate].
    - destruct (remove_one eqb x b) as [b'|] eqn:E; [|discriminate]. intros H.
      apply Permutation_sym. eapply Permutation_trans; [apply remove_one_perm; exact E|].
      apply perm_skip. apply Permutation_sym. apply IH. exact H.
  Qed.

  Theorem multiset_eqb_complete a b : Permutation a b -> multiset_eqb eqb a b = true.
  Proof.
    revert b. induction a as [|x r IH]; intros b Hp; cbn [multiset_eqb].
    - apply Permutation_nil in Hp. subst. reflexivity.
    - destruct (remove_one_in x b) as [b' E]; [apply (Permutation_in _ Hp); left; reflexivity|].
      rewrite E. apply IH. apply (Permutation_cons_inv (a := x)).
      eapply Permutation_trans; [exact Hp|]. apply remove_one_perm. exact E.
  Qed.
End MultisetProofs.

Lemma gt_eqb_eq a b : gt_eqb a b = true <-> a = b.
Proof.
  destruct a as [s n], b as [s' n']. unfold gt_eqb; cbn [gt_sec gt_nsec].
  rewrite andb_true_iff, !Z.eqb_eq. split; [intros [-> ->]; reflexivity|intros H; inversion H; auto].
Qed.

Lemma tm_eqb_eq a b : tm_eqb a b = true <-> a = b.
Proof.
  destruct a as [t o e], b as [t' o' e']. unfold tm_eqb; cbn [tm_ts tm_off tm_err].
  rewrite !andb_true_iff, gt_eqb_eq, Z.eqb_eq, Bool.eqb_true_iff.
  split; [intros [[-> ->] ->]; reflexivity|intros H; inversion H; auto].
Qed.

(* ---------- executable sortedness ---------- *)
Lemma zsortedb_sound l : zsortedb l = true -> zsorted l.
Proof.
  unfold zsorted, sorted_by. induction l as [|x r IH]; [constructor|].
  cbn [zsortedb]. destruct r as [|y r']; [intros _; constructor; constructor|].
  intros H. apply andb_prop in H. destruct H as [H1 H2]. apply Z.leb_le in H1.
  specialize (IH H2). constructor; [exact IH|].
  inversion IH as [|? ? Hs Hall]; subst. constructor; [exact H1|].
  rewrite Forall_forall in *. intros z Hz. specialize (Hall z Hz). lia.
Qed.

Lemma zsortedb_complete l : zsorted l -> zsortedb l = true.
Proof.
  unfold zsorted, sorted_by. induction 1 as [|x r Hs IH Hall]; [reflexivity|].
  cbn [zsortedb]. destruct r as [|y r']; [reflexivity|].
  apply andb_true_intro. split; [|exact IH].
  apply Z.leb_le. rewrite Forall_forall in Hall. apply Hall. left. reflexivity.
Qed.

(* ---------- "only reorders": what the oracle accepts, and that the model passes it ---------- *)
Theorem reorder_ok_iff before after :
  C02_reorder_ok before after = true <-> Permutation before after /\ zsorted after.
Proof.
  unfold C02_reorder_ok. rewrite andb_true_iff. split.
  - intros [H1 H2]. split; [apply (multiset_eqb_sound Z.eqb Z.eqb_eq); exact H1|apply zsortedb_sound; exact H2].
  - intros [H1 H2]. split; [apply (multiset_eqb_complete Z.eqb Z.eqb_eq); exact H1|apply zsortedb_complete; exact H2].
Qed.

(* there is exactly one slice the oracle accepts: the sorted input *)
Theorem reorder_ok_unique before after : C02_reorder_ok before after = true <-> after = zsort before.
Proof.
  rewrite reorder_ok_iff. split.
  - intros [Hp Hs]. symmetry. apply zsorted_perm_unique; [apply isort_sorted|exact Hs|].
    eapply Permutation_trans; [apply Permutation_sym, isort_perm|exact Hp].
  - intros ->. split; [apply isort_perm|apply isort_sorted].
Qed.

Lemma sorted_map_by (l : list tmeas) : zsorted (map tm_off l) -> sorted_by tm_off l.
Proof.
  unfold zsorted, sorted_by. induction l as [|m r IH]; [constructor|]. cbn [map]. intros H2.
  inversion H2 as [|? ? Hs Hall]; subst.
  constructor; [apply IH; exact Hs|]. rewrite Forall_forall in *. intros z Hz. apply Hall. apply in_map. exact Hz.
Qed.

Theorem reorder_m_ok_iff before after :
  C02_reorder_m_ok before after = true <-> tm_sorted_perm before after.
Proof.
  unfold C02_reorder_m_ok, tm_sorted_perm. rewrite andb_true_iff. split.
  - intros [H1 H2]. split; [apply (multiset_eqb_sound tm_eqb tm_eqb_eq); exact H1|].
    apply sorted_map_by. apply zsortedb_sound. exact H2.
  - intros [H1 H2]. split; [apply (multiset_eqb_complete tm_eqb tm_eqb_eq); exact H1|].
    apply zsortedb_complete. apply sorted_by_map. exact H2.
Qed.

(* a slice in which one record was overwritten by a copy of its neighbour is rejected *)
Example reorder_rejects_duplicate : C02_reorder_ok [3; 1; 2] [1; 2; 2] = false /\ C02_reorder_ok [3; 1; 2] [1; 2; 3] = true.
Proof. split; reflexivity. Qed.
Example reorder_m_rejects_swapped_timestamps :
  let a := {| tm_ts := {| gt_sec := 5; gt_nsec := 1 |}; tm_off := 10; tm_err := false |} in
  let b := {| tm_ts := {| gt_sec := 6; gt_nsec := 2 |}; tm_off := 20; tm_err := true |} in
  let a' := {| tm_ts := tm_ts b; tm_off := 10; tm_err := false |} in
  let b' := {| tm_ts := tm_ts a; tm_off := 20; tm_err := true |} in
  C02_reorder_m_ok [b; a] [a'; b'] = false /\ C02_reorder_m_ok [b; a] [a; b] = true.
Proof. split; reflexivity. Qed.

(* ---------- Midpoint ---------- *)
Theorem mid_oracle x y : C02_mid_ok x y (midpoint x y) = true.
Proof.
  unfold C02_mid_ok. destruct ((Z.abs x <? 2^62) && (Z.abs y <? 2^62)) eqn:E; [|reflexivity].
  apply andb_prop in E. destruct E as [E1 E2]. apply Z.ltb_lt in E1, E2.
  unfold midpoint, go_div. change (2^62) with 4611686018427387904 in *.
  rewrite (i64_id' (y - x)) by (consts; lia).
  rewrite (i64_id' (Z.quot (y - x) 2)) by (consts; lia).
  rewrite i64_id' by (consts; lia).
  apply andb_true_intro. split; apply Z.leb_le; lia.
Qed.

Theorem mid_contained x y : Z.abs x < 2^62 -> Z.abs y < 2^62 ->
  Z.min x y <= midpoint x y <= Z.max x y.
Proof.
  intros Hx Hy. pose proof (mid_oracle x y) as H. unfold C02_mid_ok in H.
  rewrite (proj2 (Z.ltb_lt _ _) Hx), (proj2 (Z.ltb_lt _ _) Hy) in H. cbn [andb] in H.
  apply andb_prop in H. destruct H as [H1 H2]. apply Z.leb_le in H1, H2. lia.
Qed.

(* the bound 2^62 of the property is tight: at |x| = |y| = 2^62 the int64 difference wraps and the
   result leaves the interval *)
Theorem mid_bound_tight :
  let x := - 2^62 in let y := 2^62 in
  in_i64 x /\ in_i64 y /\ midpoint x y = min_i64 /\ midpoint x y < Z.min x y.
Proof. vm_compute. repeat split; congruence. Qed.

(* ---------- containment for EVERY choice of the arbitrary positions ---------- *)
Lemma fold_min_in d l : In (fold_right Z.min d l) (d :: l).
Proof.
  induction l as [|y r IH]; cbn [fold_right]; [left; reflexivity|].
  destruct (Z.min_spec y (fold_right Z.min d r)) as [[_ ->]|[_ ->]]; [right; left; reflexivity|].
  destruct IH as [IH|IH]; [left; exact IH|right; right; exact IH].
Qed.
Lemma fold_max_in d l : In (fold_right Z.max d l) (d :: l).
Proof.
  induction l as [|y r IH]; cbn [fold_right]; [left; reflexivity|].
  destruct (Z.max_spec y (fold_right Z.max d r)) as [[_ ->]|[_ ->]]; [|right; left; reflexivity].
  destruct IH as [IH|IH]; [left; exact IH|right; right; exact IH].
Qed.
Lemma lmin_in l : l <> [] -> In (lmin l) l.
Proof.
  destruct l as [|x r]; [congruence|]. intros _. unfold lmin. cbn [hd].
  destruct (fold_min_in x (x :: r)) as [H|H]; [rewrite <- H; left; reflexivity|exact H].
Qed.
Lemma lmax_in l : l <> [] -> In (lmax l) l.
Proof.
  destruct l as [|x r]; [congruence|]. intros _. unfold lmax. cbn [hd].
  destruct (fold_max_in x (x :: r)) as [H|H]; [rewrite <- H; left; reflexivity|exact H].
Qed.

Lemma goods_In l v : In v (goods l) -> In (v, true) l.
Proof.
  unfold goods. intros H. apply in_map_iff in H. destruct H as [[w b] [H1 H2]].
  apply filter_In in H2. destruct H2 as [H2 H3]. cbn in H1, H3. subst. exact H2.
Qed.

Lemma nbad_cons x b r : nbad ((x, b) :: r) = ((if b then 0 else 1) + nbad r)%nat.
Proof. unfold nbad. cbn [filter snd negb]. destruct b; reflexivity. Qed.

Lemma tagi_fst p i s : map fst (tagi p i s) = s.
Proof. revert i. induction s as [|x r IH]; intros i; cbn [tagi map fst]; [reflexivity|]. rewrite IH. reflexivity. Qed.

Lemma tagi_in p i s v b : In (v, b) (tagi p i s) ->
  exists j, (j < length s)%nat /\ nth j s 0 = v /\ b = p (i + j)%nat.
Proof.
  revert i. induction s as [|x r IH]; intros i; cbn [tagi In length]; [intros []|].
  intros [H|H].
  - inversion H; subst. exists 0%nat. cbn [nth]. rewrite Nat.add_0_r. repeat split. lia.
  - destruct (IH _ H) as [j [H1 [H2 H3]]]. exists (S j). cbn [nth]. repeat split; [lia|exact H2|].
    rewrite H3. f_equal. lia.
Qed.

Lemma nbad_tagi_lo f i s : nbad (tagi (fun j => Nat.leb f j) i s) = Nat.min (f - i) (length s).
Proof.
  revert i. induction s as [|x r IH]; intros i; cbn [tagi length]; [unfold nbad; cbn; lia|].
  rewrite nbad_cons, IH. destruct (Nat.leb_spec f i); lia.
Qed.

Lemma nbad_tagi_hi k i s : nbad (tagi (fun j => Nat.ltb j k) i s) = ((i + length s) - Nat.max i k)%nat.
Proof.
  revert i. induction s as [|x r IH]; intros i; cbn [tagi length]; [unfold nbad; cbn; lia|].
  rewrite nbad_cons, IH. destruct (Nat.ltb_spec i k); lia.
Qed.

Lemma div3_two n : (1 <= n)%nat -> (2 * ((n - 1) / 3) < n)%nat.
Proof.
  intros H. pose proof (Nat.div_mod (n - 1) 3 ltac:(discriminate)) as Hdm.
  pose proof (Nat.mod_upper_bound (n - 1) 3 ltac:(discriminate)). lia.
Qed.

(* a result is within the range of the remaining values for EVERY choice of at most f = (n-1)/3 arbitrary
   positions iff it lies between the (f+1)-th smallest and the (f+1)-th largest value *)
Theorem ftm_every_choice_iff (l : list Z) res : l <> [] ->
  let n := length l in let f := ((n - 1) / 3)%nat in
  nth f (zsort l) 0 <= res <= nth (n - 1 - f) (zsort l) 0 <-> contained_for_every_choice l res.
Proof.
  intros Hne n f.
  assert (Hn : (1 <= n)%nat) by (unfold n; destruct l; [congruence|cbn [length]; lia]).
  pose proof (div3_two n Hn) as Hf. fold f in Hf.
  set (s := zsort l).
  assert (Hp : Permutation l s) by apply isort_perm.
  assert (Hs : zsorted s) by apply isort_sorted.
  assert (Hls : length s = n) by apply isort_length.
  split.
  - (* every choice leaves a correct value among the f+1 smallest and among the f+1 largest *)
    intros [Hlo Hhi] tl Htl Hb. fold n f in Hb.
    set (s' := isort fst tl).
    assert (Hp' : Permutation tl s') by apply isort_perm.
    assert (Hs' : sorted_by fst s') by apply isort_sorted.
    assert (Hms : map fst s' = s) by (unfold s', s; rewrite <- Htl; apply isort_map).
    assert (Hls' : length s' = n) by (rewrite <- Hls, <- Hms, map_length; reflexivity).
    destruct (trimmed_bracketed s' (0, true) f Hs') as [[g1 [G1 [G2 G3]]] [g2 [G4 [G5 G6]]]].
    { rewrite <- (nbad_perm _ _ Hp'). exact Hb. }
    { rewrite Hls'. exact Hf. }
    rewrite Hls' in G6.
    rewrite <- !map_nth_fst in G3, G6 by lia. rewrite Hms in G3, G6.
    assert (I1 : In (fst g1) (goods tl)).
    { apply In_goods. apply (Permutation_in _ (Permutation_sym Hp')). destruct g1 as [v b]; cbn in *; subst b; exact G1. }
    assert (I2 : In (fst g2) (goods tl)).
    { apply In_goods. apply (Permutation_in _ (Permutation_sym Hp')). destruct g2 as [v b]; cbn in *; subst b; exact G4. }
    pose proof (lmin_le _ _ I1). pose proof (lmax_ge _ _ I2). lia.
  - (* conversely: declare the f smallest (resp. the f largest) arbitrary *)
    intros H. split.
    + set (ts := tagi (fun j => Nat.leb f j) 0 s).
      assert (Hpm : Permutation l (map fst ts)) by (unfold ts; rewrite tagi_fst; exact Hp).
      destruct (Permutation_map_inv _ _ Hpm) as [tl [Hl Hpt]].
      assert (Hnb : (nbad tl <= f)%nat).
      { rewrite <- (nbad_perm _ _ Hpt). unfold ts. rewrite nbad_tagi_lo. lia. }
      assert (Hlen : length tl = n) by (unfold n; rewrite Hl, map_length; reflexivity).
      specialize (H tl (eq_sym Hl)). fold n f in H. specialize (H Hnb).
      destruct (exists_good tl) as [g [Hg1 Hg2]]; [lia|].
      assert (Hgne : goods tl <> []).
      { intros E. assert (I : In (fst g) (goods tl)) by (apply In_goods; destruct g as [v b]; cbn in *; subst b; exact Hg1).
        rewrite E in I. destruct I. }
      pose proof (goods_In _ _ (lmin_in _ Hgne)) as Hm.
      apply (Permutation_in _ (Permutation_sym Hpt)) in Hm. unfold ts in Hm.
      destruct (tagi_in _ _ _ _ _ Hm) as [j [J1 [J2 J3]]]. cbn [Nat.add] in J3.
      symmetry in J3. apply Nat.leb_le in J3.
      pose proof (sorted_nth_le s 0 f j Hs ltac:(lia)). lia.
    + set (ts := tagi (fun j => Nat.ltb j (n - f)) 0 s).
      assert (Hpm : Permutation l (map fst ts)) by (unfold ts; rewrite tagi_fst; exact Hp).
      destruct (Permutation_map_inv _ _ Hpm) as [tl [Hl Hpt]].
      assert (Hnb : (nbad tl <= f)%nat).
      { rewrite <- (nbad_perm _ _ Hpt). unfold ts. rewrite nbad_tagi_hi. lia. }
      assert (Hlen : length tl = n) by (unfold n; rewrite Hl, map_length; reflexivity).
      specialize (H tl (eq_sym Hl)). fold n f in H. specialize (H Hnb).
      destruct (exists_good tl) as [g [Hg1 Hg2]]; [lia|].
      assert (Hgne : goods tl <> []).
      { intros E. assert (I : In (fst g) (goods tl)) by (apply In_goods; destruct g as [v b]; cbn in *; subst b; exact Hg1).
        rewrite E in I. destruct I. }
      pose proof (goods_In _ _ (lmax_in _ Hgne)) as Hm.
      apply (Permutation_in _ (Permutation_sym Hpt)) in Hm. unfold ts in Hm.
      destruct (tagi_in _ _ _ _ _ Hm) as [j [J1 [J2 J3]]]. cbn [Nat.add] in J3.
      symmetry in J3. apply Nat.ltb_lt in J3.
      pose proof (sorted_nth_le s 0 j (n - 1 - f) Hs ltac:(lia)). lia.
Qed.

(* the oracle accepts exactly that (for inputs within the property's bound) *)
Theorem ftm_strong_ok_iff l res : l <> [] -> (forall x, In x l -> Z.abs x < 2^62) ->
  C02_ftm_strong_ok l res = true <-> contained_for_every_choice l res.
Proof.
  intros Hne Hb. rewrite <- (ftm_every_choice_iff l res Hne). unfold C02_ftm_strong_ok.
  assert (E1 : Nat.leb 1 (length l) = true) by (apply Nat.leb_le; destruct l; [congruence|cbn [length]; lia]).
  assert (E2 : forallb (fun x => Z.abs x <? 2^62) l = true).
  { apply forallb_forall. intros x Hx. apply Z.ltb_lt. apply Hb. exact Hx. }
  rewrite E1, E2. cbn [andb]. rewrite andb_true_iff, !Z.leb_le. reflexivity.
Qed.

(* and the model passes it on all inputs *)
Theorem ftm_strong_oracle l res : ftm l = Some res -> C02_ftm_strong_ok l res = true.
Proof.
  intros Hr. unfold C02_ftm_strong_ok.
  destruct (Nat.leb 1 (length l) && forallb (fun x => Z.abs x <? 2 ^ 62) l) eqn:E; [|reflexivity].
  apply andb_prop in E. destruct E as [E1 E3]. apply Nat.leb_le in E1.
  assert (Hne : l <> []) by (destruct l; [cbn in E1; lia|discriminate]).
  assert (Hbd : forall x, In x l -> bounded x).
  { intros x Hx. rewrite forallb_forall in E3. specialize (E3 x Hx). unfold bounded. lia. }
  assert (Hres : res = ftm_sorted (zsort l)) by (destruct l; [congruence|unfold ftm in Hr; inversion Hr; reflexivity]).
  subst res. clear Hr. set (s := zsort l).
  assert (Hp : Permutation l s) by apply isort_perm.
  assert (Hs : zsorted s) by apply isort_sorted.
  assert (Hls : length s = length l) by apply isort_length.
  pose proof (div3_two (length l) E1) as Hf.
  unfold ftm_sorted. rewrite Hls. set (f := ((length l - 1) / 3)%nat) in *.
  assert (B1 : bounded (nth f s 0)) by (apply Hbd, (Permutation_in _ (Permutation_sym Hp)), nth_In; lia).
  assert (B2 : bounded (nth (length l - 1 - f) s 0)) by (apply Hbd, (Permutation_in _ (Permutation_sym Hp)), nth_In; lia).
  pose proof (sorted_nth_le s 0 f (length l - 1 - f) Hs ltac:(lia)) as Hle.
  pose proof (midpoint_between _ _ B1 B2 Hle).
  apply andb_true_intro. split; apply Z.leb_le; lia.
Qed.

(* it implies the check against any one designated set *)
Theorem ftm_strong_implies_designated tl res :
  C02_ftm_strong_ok (map fst tl) res = true -> C02_ftm_ok tl res = true.
Proof.
  intros H. unfold C02_ftm_ok.
  destruct (Nat.leb 1 (length tl) && Nat.leb (nbad tl) ((length tl - 1) / 3) && forallb (fun x => Z.abs (fst x) <? 2 ^ 62) tl) eqn:E; [|reflexivity].
  apply andb_prop in E. destruct E as [E E3]. apply andb_prop in E. destruct E as [E1 E2].
  apply Nat.leb_le in E1, E2.
  assert (Hne : map fst tl <> []) by (destruct tl; [cbn in E1; lia|discriminate]).
  assert (Hbd : forall x, In x (map fst tl) -> Z.abs x < 2^62).
  { intros x Hx. apply in_map_iff in Hx. destruct Hx as [y [<- Hy]]. rewrite forallb_forall in E3. specialize (E3 y Hy). lia. }
  apply (ftm_strong_ok_iff _ _ Hne Hbd) in H. specialize (H tl eq_refl). rewrite map_length in H. specialize (H E2).
  apply andb_true_intro. split; apply Z.leb_le; lia.
Qed.

(* ---------- measurements: for EVERY sorted permutation the unstable sort may leave behind ---------- *)
Definition all_wf (ms : list tmeas) : Prop := forall m, In m ms -> gt_wf (tm_ts m).

Lemma gt_zero_wf : gt_wf gt_zero.
Proof. unfold gt_wf, gt_zero; cbn [gt_sec gt_nsec]. consts. lia. Qed.

Lemma nth_wf s i : all_wf s -> gt_wf (tm_ts (nth i s tm_zero)).
Proof.
  intros H. destruct (Nat.lt_ge_cases i (length s)) as [Hi|Hi].
  - apply H. apply nth_In. exact Hi.
  - rewrite nth_overflow by exact Hi. exact gt_zero_wf.
Qed.

Lemma all_wf_perm ms s : Permutation ms s -> all_wf ms -> all_wf s.
Proof. intros Hp H m Hm. apply H. apply (Permutation_in _ (Permutation_sym Hp)). exact Hm. Qed.

Lemma tm_map_nth_off (s : list tmeas) i : nth i (map tm_off s) 0 = tm_off (nth i s tm_zero).
Proof. change 0 with (tm_off tm_zero) at 1. apply map_nth. Qed.

Lemma tm_sorted_perm_offsets ms s : tm_sorted_perm ms s -> map tm_off s = zsort (map tm_off ms).
Proof.
  intros [Hp Hs]. symmetry. apply zsorted_perm_unique.
  - apply isort_sorted.
  - apply sorted_by_map. exact Hs.
  - eapply Permutation_trans; [apply Permutation_sym, isort_perm|]. apply Permutation_map. exact Hp.
Qed.

Theorem tmeas_ftm_offset ms s : tm_sorted_perm ms s -> ms <> [] ->
  ftm (map tm_off ms) = Some (tm_off (tftm_sorted s)) /\ tm_err (tftm_sorted s) = false.
Proof.
  intros Hsp Hne. pose proof (tm_sorted_perm_offsets ms s Hsp) as Ho.
  split; [|reflexivity].
  destruct ms as [|m r]; [congruence|]. cbn [map ftm]. cbn [map] in Ho. rewrite <- Ho.
  unfold ftm_sorted, tftm_sorted, sel_ftm. rewrite map_length. cbn [tmidpoint tm_off]. rewrite !tm_map_nth_off. reflexivity.
Qed.

Theorem tmeas_median_offset ms s : tm_sorted_perm ms s -> ms <> [] ->
  median (map tm_off ms) = Some (tm_off (tmedian_sorted s)) /\ tm_err (tmedian_sorted s) = false.
Proof.
  intros Hsp Hne. pose proof (tm_sorted_perm_offsets ms s Hsp) as Ho.
  split.
  - destruct ms as [|m r]; [congruence|]. cbn [map median]. cbn [map] in Ho. rewrite <- Ho.
    unfold median_sorted, tmedian_sorted, sel_median. rewrite map_length.
    destruct (Nat.eqb (length s mod 2) 0); cbn [tmidpoint tm_off]; rewrite !tm_map_nth_off; reflexivity.
  - unfold tmedian_sorted, sel_median. destruct (Nat.eqb (length s mod 2) 0); reflexivity.
Qed.

(* the two selected measurements are measurements of the input *)
Lemma div3_lt n : (1 <= n)%nat -> ((n - 1) / 3 < n)%nat /\ (n - 1 - (n - 1) / 3 < n)%nat.
Proof. intros H. pose proof (Nat.div_le_upper_bound (n - 1) 3 (n - 1) ltac:(discriminate) ltac:(lia)). lia. Qed.

Theorem sel_ftm_in ms s : tm_sorted_perm ms s -> ms <> [] ->
  In (fst (sel_ftm s)) ms /\ In (snd (sel_ftm s)) ms.
Proof.
  intros [Hp _] Hne.
  assert (Hn : (1 <= length s)%nat).
  { rewrite <- (Permutation_length Hp). destruct ms; [congruence|cbn [length]; lia]. }
  destruct (div3_lt _ Hn) as [H1 H2]. unfold sel_ftm; cbn [fst snd].
  split; apply (Permutation_in _ (Permutation_sym Hp)); apply nth_In; assumption.
Qed.

Theorem sel_median_in ms s : tm_sorted_perm ms s -> ms <> [] ->
  In (fst (sel_median s)) ms /\ In (snd (sel_median s)) ms.
Proof.
  intros [Hp _] Hne.
  assert (Hn : (1 <= length s)%nat).
  { rewrite <- (Permutation_length Hp). destruct ms; [congruence|cbn [length]; lia]. }
  assert (H1 : (length s / 2 < length s)%nat) by (apply Nat.div_lt; lia).
  unfold sel_median. destruct (Nat.eqb (length s mod 2) 0); cbn [fst snd];
    split; apply (Permutation_in _ (Permutation_sym Hp)); apply nth_In; lia.
Qed.

(* the combined timestamp lies between the timestamps of the two selected measurements *)
Theorem tmeas_ftm_timestamp ms s : tm_sorted_perm ms s -> all_wf ms ->
  let x := fst (sel_ftm s) in let y := snd (sel_ftm s) in
  Z.min (gt_abs (tm_ts x)) (gt_abs (tm_ts y)) <= gt_abs (tm_ts (tftm_sorted s)) <= Z.max (gt_abs (tm_ts x)) (gt_abs (tm_ts y)).
Proof.
  intros [Hp _] Hw. pose proof (all_wf_perm _ _ Hp Hw) as Hws.
  unfold tftm_sorted, sel_ftm; cbn [fst snd]. apply tmid_ts_between; apply nth_wf; exact Hws.
Qed.

Theorem tmeas_median_timestamp ms s : tm_sorted_perm ms s -> all_wf ms ->
  let x := fst (sel_median s) in let y := snd (sel_median s) in
  Z.min (gt_abs (tm_ts x)) (gt_abs (tm_ts y)) <= gt_abs (tm_ts (tmedian_sorted s)) <= Z.max (gt_abs (tm_ts x)) (gt_abs (tm_ts y)).
Proof.
  intros [Hp _] Hw. pose proof (all_wf_perm _ _ Hp Hw) as Hws.
  unfold tmedian_sorted, sel_median. destruct (Nat.eqb (length s mod 2) 0); cbn [fst snd tm_ts].
  - apply tmid_ts_between; apply nth_wf; exact Hws.
  - lia.
Qed.

Lemma ts_ok_same x : gt_wf x -> C02_ts_ok x x x = true.
Proof.
  intros Hx. unfold C02_ts_ok. rewrite (gt_wfb_true _ Hx).
  rewrite (proj2 (gt_leb_abs x x Hx Hx)) by lia. reflexivity.
Qed.

(* the whole measurement oracle holds for the model, on all inputs and for every tie order *)
Theorem meas_ftm_oracle ms s : ms <> [] -> all_wf ms -> tm_sorted_perm ms s ->
  C02_meas_ftm_ok ms (tftm_sorted s) s = true.
Proof.
  intros Hne Hw Hsp. pose proof (all_wf_perm _ _ (proj1 Hsp) Hw) as Hws.
  unfold C02_meas_ftm_ok.
  rewrite (proj2 (reorder_m_ok_iff ms s) Hsp).
  destruct (tmeas_ftm_offset ms s Hsp Hne) as [Ho He]. rewrite He. cbn [negb andb].
  rewrite (ftm_strong_oracle _ _ Ho). rewrite andb_true_r.
  unfold tftm_sorted, sel_ftm. apply ts_oracle; apply nth_wf; exact Hws.
Qed.

Theorem meas_median_oracle ms s : ms <> [] -> all_wf ms -> tm_sorted_perm ms s ->
  C02_meas_median_ok ms (tmedian_sorted s) s = true.
Proof.
  intros Hne Hw Hsp. pose proof (all_wf_perm _ _ (proj1 Hsp) Hw) as Hws.
  unfold C02_meas_median_ok.
  rewrite (proj2 (reorder_m_ok_iff ms s) Hsp).
  destruct (tmeas_median_offset ms s Hsp Hne) as [Ho He]. rewrite He. cbn [negb andb].
  rewrite (median_oracle _ _ Ho). rewrite andb_true_r.
  unfold tmedian_sorted, sel_median. destruct (Nat.eqb (length s mod 2) 0); cbn [tm_ts].
  - apply ts_oracle; apply nth_wf; exact Hws.
  - apply ts_ok_same. apply nth_wf; exact Hws.
Qed.

(* the hypotheses are satisfiable, with the zero time.Time{}, a modern time (both more than 292 years apart:
   Sub saturates), equal timestamps with different offsets, and an errored input *)
Example meas_example :
  let z := gt_zero in let now := {| gt_sec := 63895000000; gt_nsec := 999999999 |} in
  let ms := [ {| tm_ts := now; tm_off := 30; tm_err := false |}; {| tm_ts := now; tm_off := 10; tm_err := false |};
              {| tm_ts := z; tm_off := 20; tm_err := true |}; {| tm_ts := z; tm_off := 40; tm_err := false |} ] in
  let s := isort tm_off ms in
  all_wf ms /\ tm_sorted_perm ms s /\
  tftm_sorted s = {| tm_ts := {| gt_sec := 4611686018; gt_nsec := 427387903 |}; tm_off := 25; tm_err := false |} /\
  gt_sub now z = max_i64.
Proof.
  cbv zeta. split; [|split; [|split]].
  - intros m [<-|[<-|[<-|[<-|[]]]]]; unfold gt_wf; cbn [tm_ts gt_sec gt_nsec gt_zero]; consts; lia.
  - split; [apply isort_perm|apply isort_sorted].
  - vm_compute. reflexivity.
  - vm_compute. reflexivity.
Qed.

(* ---------- one-integer (Unix nanoseconds) view of a time ---------- *)
Lemma gt_abs_of_abs a : gt_abs (gt_of_abs a) = a.
Proof. unfold gt_abs, gt_of_abs; cbn [gt_sec gt_nsec]. consts. lia. Qed.

Lemma gt_of_abs_wf a : min_i64 * ns_per_s <= a < (max_i64 + 1) * ns_per_s -> gt_wf (gt_of_abs a).
Proof. unfold gt_wf, gt_of_abs; cbn [gt_sec gt_nsec]. consts. lia. Qed.

Lemma gt_of_abs_abs t : gt_wf t -> gt_of_abs (gt_abs t) = t.
Proof.
  intros Ht. apply gt_abs_inj; [apply gt_of_abs_wf| exact Ht | apply gt_abs_of_abs].
  unfold gt_wf, gt_abs in *. destruct t as [s n]; cbn [gt_sec gt_nsec] in *. consts. lia.
Qed.

(* unix_repr is exactly the range of time.Time: every representable time has a Unix-nanosecond value in it,
   every value in it is a representable time, and the two conversions are inverse *)
Theorem unix_range_exact :
  (forall t, gt_wf t -> unix_repr (gt_unix t) /\ gt_of_unix (gt_unix t) = t) /\
  (forall u, unix_repr u -> gt_wf (gt_of_unix u) /\ gt_unix (gt_of_unix u) = u).
Proof.
  split.
  - intros t Ht. unfold gt_of_unix, gt_unix. replace (gt_abs t - unix_off + unix_off) with (gt_abs t) by lia.
    split; [|apply gt_of_abs_abs; exact Ht].
    unfold unix_repr, gt_wf, gt_abs in *. destruct t as [s n]; cbn [gt_sec gt_nsec] in *. consts. lia.
  - intros u Hu. unfold gt_of_unix, gt_unix. rewrite gt_abs_of_abs. split; [apply gt_of_abs_wf; exact Hu|lia].
Qed.

Lemma gt_zero_unix : gt_of_unix (-62135596800 * 1000000000) = gt_zero.
Proof. reflexivity. Qed.

(* ---------- independence of the order of the inputs, measurements ---------- *)
Lemma sorted_by_perm_unique (s s' : list tmeas) :
  sorted_by tm_off s -> sorted_by tm_off s' -> Permutation s s' -> NoDup (map tm_off s) -> s = s'.
Proof.
  unfold sorted_by. intros Hs. revert s'. induction Hs as [|x r Hs IH Hall]; intros s' Hs' Hp Hnd.
  - apply Permutation_nil in Hp. subst. reflexivity.
  - destruct s' as [|y r']; [apply Permutation_sym, Permutation_nil in Hp; discriminate|].
    inversion Hs' as [|? ? Hs'' Hall']; subst.
    rewrite Forall_forall in Hall, Hall'.
    cbn [map] in Hnd. inversion Hnd as [|? ? Hnin Hnd']; subst.
    assert (Hxy : x = y).
    { assert (Hx : In x (y :: r')) by (apply (Permutation_in _ Hp); left; reflexivity).
      assert (Hy : In y (x :: r)) by (apply (Permutation_in _ (Permutation_sym Hp)); left; reflexivity).
      destruct Hx as [->|Hx]; [reflexivity|]. destruct Hy as [->|Hy]; [reflexivity|].
      specialize (Hall y Hy). specialize (Hall' x Hx).
      exfalso. apply Hnin. replace (tm_off x) with (tm_off y) by lia. apply in_map. exact Hy. }
    subst y. f_equal. apply IH; [assumption| |exact Hnd']. eapply Permutation_cons_inv. exact Hp.
Qed.

(* with pairwise distinct offsets the slice after the call, hence the whole result (timestamp included),
   does not depend on the order of the inputs nor on the sort *)
Theorem meas_order_independent ms ms' s s' :
  Permutation ms ms' -> NoDup (map tm_off ms) -> tm_sorted_perm ms s -> tm_sorted_perm ms' s' ->
  s = s' /\ tftm_sorted s = tftm_sorted s' /\ tmedian_sorted s = tmedian_sorted s'.
Proof.
  intros Hp Hnd [Hp1 Hs1] [Hp2 Hs2].
  assert (E : s = s').
  { apply sorted_by_perm_unique; [exact Hs1|exact Hs2| |].
    - eapply Permutation_trans; [apply Permutation_sym; exact Hp1|]. eapply Permutation_trans; [exact Hp|exact Hp2].
    - apply (Permutation_NoDup (l := map tm_off ms)); [apply Permutation_map; exact Hp1|exact Hnd]. }
  subst s'. repeat split; reflexivity.
Qed.

(* with tied offsets it does: the same three measurements (equal offsets, timestamps 1 s, 2 s, 3 s) in two
   orders that are both sorted give different combined timestamps - for the fault-tolerant midpoint and for the
   median - while offset and error agree.  Taken literally ("both are independent of the order of the inputs")
   the property is not satisfiable for the timestamp by any function of the sorted slice. *)
Theorem meas_tie_order_refuted :
  let a := {| tm_ts := {| gt_sec := 1; gt_nsec := 0 |}; tm_off := 0; tm_err := false |} in
  let b := {| tm_ts := {| gt_sec := 2; gt_nsec := 0 |}; tm_off := 0; tm_err := false |} in
  let c := {| tm_ts := {| gt_sec := 3; gt_nsec := 0 |}; tm_off := 0; tm_err := false |} in
  let ms := [a; b; c] in let s := [a; b; c] in let s' := [a; c; b] in
  all_wf ms /\ tm_sorted_perm ms s /\ tm_sorted_perm ms s' /\
  tm_off (tftm_sorted s) = tm_off (tftm_sorted s') /\
  tm_ts (tftm_sorted s) = {| gt_sec := 2; gt_nsec := 0 |} /\ tm_ts (tftm_sorted s') = {| gt_sec := 1; gt_nsec := 500000000 |} /\
  tm_ts (tmedian_sorted s) = {| gt_sec := 2; gt_nsec := 0 |} /\ tm_ts (tmedian_sorted s') = {| gt_sec := 3; gt_nsec := 0 |} /\
  C02_meas_perm_strict_ok (tftm_sorted s) (tftm_sorted s') = false.
Proof.
  cbv zeta. split; [|split; [|split]].
  - intros m [<-|[<-|[<-|[]]]]; unfold gt_wf; cbn [tm_ts gt_sec gt_nsec]; consts; lia.
  - split; [apply Permutation_refl|]. unfold sorted_by. repeat constructor; cbn; lia.
  - split; [apply perm_skip, perm_swap|]. unfold sorted_by. repeat constructor; cbn; lia.
  - vm_compute. repeat split; reflexivity.
Qed.

Lemma nodupb_sound l : nodupb l = true -> NoDup l.
Proof.
  induction l as [|x r IH]; [constructor|]. cbn [nodupb]. intros H. apply andb_prop in H. destruct H as [H1 H2].
  constructor; [|apply IH; exact H2].
  intros Hin. apply negb_true_iff in H1. assert (E : existsb (Z.eqb x) r = true).
  { apply existsb_exists. exists x. split; [exact Hin|apply Z.eqb_refl]. }
  congruence.
Qed.

(* the order-independence oracle holds for the model: every input order, every tie order *)
Theorem meas_perm_oracle ms ms' s s' : ms <> [] ->
  Permutation ms ms' -> tm_sorted_perm ms s -> tm_sorted_perm ms' s' ->
  C02_meas_perm_ok ms (tftm_sorted s) (tftm_sorted s') = true /\
  C02_meas_perm_ok ms (tmedian_sorted s) (tmedian_sorted s') = true.
Proof.
  intros Hne Hp Hs Hs'.
  assert (Hne' : ms' <> []) by (intros E; subst; apply Permutation_sym, Permutation_nil in Hp; congruence).
  destruct (tmeas_ftm_offset ms s Hs Hne) as [F1 G1]. destruct (tmeas_ftm_offset ms' s' Hs' Hne') as [F2 G2].
  destruct (tmeas_median_offset ms s Hs Hne) as [M1 N1]. destruct (tmeas_median_offset ms' s' Hs' Hne') as [M2 N2].
  destruct (perm_invariant _ _ (Permutation_map tm_off Hp)) as [PF PM].
  assert (F : tm_off (tftm_sorted s) = tm_off (tftm_sorted s')) by congruence.
  assert (M : tm_off (tmedian_sorted s) = tm_off (tmedian_sorted s')) by congruence.
  unfold C02_meas_perm_ok. rewrite G1, G2, N1, N2, F, M, !Z.eqb_refl. cbn [negb andb].
  destruct (nodupb (map tm_off ms)) eqn:E; [|split; reflexivity].
  destruct (meas_order_independent ms ms' s s' Hp (nodupb_sound _ E) Hs Hs') as [_ [-> ->]].
  split; apply gt_eqb_eq; reflexivity.
Qed.
