(* C07: the generic mutex theorem (Base/Mutex.v) instantiated with the timestamp store.
   Shared state = the store together with the log of replies and reports (a reply is
   computed inside the critical section of its handleRequest call, so it is part of what
   the section does); one call = one critical section that performs Tss.step_log.  Any
   schedule of any number of listener goroutines yields the store AND the replies of
   Tss.run_log on the calls in lock-acquisition order. *)
From ST Require Base.Mutex.
From ST Require Import Base.Ints Model.NtpTime Model.Tss Proofs.TssProofs Proofs.TssInv Proofs.TssRun.
From Coq Require Import ZArith List Arith Lia.
Import ListNotations.

Definition shared := option (tss * list event).

(* the body of one call, under the lock *)
Definition call_body (c : config) (o : op) (st : shared) : shared :=
  match st with
  | Some (s, log) => match step_log c s o with Some (s', ev) => Some (s', ev :: log) | None => None end
  | None => None
  end.

Definition call_section (c : config) (o : op) : Mutex.section shared := [call_body c o].

Fixpoint run_shared (c : config) (st : shared) (ops : list op) : shared :=
  match ops with
  | [] => st
  | o :: r => run_shared c (call_body c o st) r
  end.

Lemma run_shared_none c ops : run_shared c None ops = None.
Proof. induction ops as [|o r IH]; cbn [run_shared call_body]; auto. Qed.

Lemma run_shared_run_log c ops : forall s log, run_shared c (Some (s, log)) ops = run_log c s log ops.
Proof.
  induction ops as [|o r IH]; intros s log; cbn [run_shared run_log call_body]; [reflexivity|].
  destruct (step_log c s o) as [[s' ev]|]; [apply IH|apply run_shared_none].
Qed.

Lemma sequential_calls c ops : forall st,
  Mutex.sequential shared (map (call_section c) ops) st = run_shared c st ops.
Proof.
  induction ops as [|o r IH]; intros st; [reflexivity|].
  unfold Mutex.sequential in *. cbn [map fold_left run_shared]. rewrite IH. reflexivity.
Qed.

Lemma Forall_preimage {A B} (f : A -> B) l : Forall (fun y => exists x, y = f x) l -> exists xs, l = map f xs.
Proof.
  induction 1 as [|y r [x ->] _ [xs ->]]; [exists []; reflexivity|]. exists (x :: xs). reflexivity.
Qed.

Theorem calls_serialize c (threads : list (list op)) (sched : list nat) :
  let final := Mutex.run shared sched (Mutex.init shared (Some (tss_empty, [])) (map (map (call_section c)) threads)) in
  Mutex.holder shared final = None ->
  exists ops : list op,
    (* ops is the lock-acquisition order of the calls *)
    map (call_section c) ops = map snd (rev (Mutex.order shared final)) /\
    (* store and replies are those of the sequential run in that order *)
    Mutex.st shared final = run_log c tss_empty [] ops /\
    (* and that order respects the program order of every goroutine *)
    (forall u, Mutex.entered shared u final ++ nth u (Mutex.work shared final) [] = map (call_section c) (nth u threads [])).
Proof.
  cbv zeta. set (thr := map (map (call_section c)) threads).
  set (final := Mutex.run shared sched (Mutex.init shared (Some (tss_empty, [])) thr)). intros Hq.
  assert (Hprog : forall u, Mutex.entered shared u final ++ nth u (Mutex.work shared final) [] = map (call_section c) (nth u threads [])).
  { intros u. unfold final. rewrite (Mutex.mutex_program_order shared (Some (tss_empty, [])) thr sched u).
    unfold thr. change (@nil (Mutex.section shared)) with (map (call_section c) []). apply map_nth. }
  assert (Hpre : Forall (fun y => exists o, y = call_section c o) (map snd (rev (Mutex.order shared final)))).
  { apply Forall_forall. intros sec Hsec. apply in_map_iff in Hsec. destruct Hsec as [[u sec'] [Hs Hin]]. cbn [snd] in Hs. subst sec'.
    assert (Hin' : In sec (Mutex.entered shared u final)).
    { unfold Mutex.entered. apply in_map_iff. exists (u, sec). split; [reflexivity|]. apply filter_In. split; [exact Hin|].
      cbn [fst]. apply Nat.eqb_refl. }
    assert (Hin2 : In sec (map (call_section c) (nth u threads []))) by (rewrite <- Hprog; apply in_or_app; left; exact Hin').
    apply in_map_iff in Hin2. destruct Hin2 as [o [Ho _]]. exists o. symmetry. exact Ho. }
  destruct (Forall_preimage _ _ Hpre) as [ops Hops]. exists ops. split; [symmetry; exact Hops|]. split; [|exact Hprog].
  unfold final. rewrite (Mutex.mutex_quiescent shared (Some (tss_empty, [])) thr sched Hq). fold final.
  rewrite Hops, sequential_calls. apply run_shared_run_log.
Qed.
