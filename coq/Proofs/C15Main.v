(* The statements of C15 spelled out over the models, collected from
   SampleProofs, PathAssignProofs, PathOracleProofs and ReservoirProofs. *)
From ST Require Import Base.Ints Base.Sorting Model.NtpTime Model.Ftm Model.Sample Model.PathAssign Model.PathOracle
  Proofs.SampleProofs Proofs.PathAssignProofs Proofs.PathOracleProofs Proofs.ReservoirProofs.
From Coq Require Import Sorting.Permutation.
Open Scope Z_scope.

Section Main.
  Variables (fps : list Z) (cs : list cstate) (c : bool) (d : Z) (tape : list Z).
  Hypothesis Hmax : Z.of_nat (length fps) <= max_i64.
  Hypothesis Hw : words tape.
  Hypothesis Hd : word d.

  Lemma distinct asg resets rest :
    assign fps cs c d tape = AOk asg resets rest ->
    NoDup (somes asg) /\ (forall p, In p (somes asg) -> (p < length fps)%nat) /\ length asg = length cs.
  Proof.
    intros H. destruct (assign_ok_facts _ _ _ _ _ _ _ _ Hmax Hw Hd H) as [[[Hl _] Hdist Hoff _ _ _] _]. auto.
  Qed.

  Lemma count asg resets rest :
    assign fps cs c d tape = AOk asg resets rest ->
    length (somes asg) = Nat.min (length cs) (length fps) /\ (0 < Nat.min (length cs) (length fps))%nat.
  Proof.
    intros H. destruct (assign_ok_facts _ _ _ _ _ _ _ _ Hmax Hw Hd H) as [[_ _ _ Hc Hn _] _]. auto.
  Qed.

  Lemma sticky_clause asg resets rest :
    assign fps cs c d tape = AOk asg resets rest ->
    forall i s, nth_error cs i = Some s ->
      (nth i resets false = false ->
         in_ilv s = true /\ exists p, nth_error asg i = Some (Some p) /\ fp_of fps p = cs_fp s)
      /\ (nth i resets false = true ->
         in_ilv s = false \/
         forall p, (p < length fps)%nat -> fp_of fps p = cs_fp s ->
           exists j, (j < i)%nat /\ nth_error asg j = Some (Some p) /\ nth j resets false = false).
  Proof.
    intros H. destruct (assign_ok_facts _ _ _ _ _ _ _ _ Hmax Hw Hd H) as [[_ _ _ _ _ Hs] _]. exact Hs.
  Qed.
End Main.

(* no offered path: errNoPath, whatever the clients and the tape *)
Lemma sticky_nil fps cs : sticky fps cs [] = (map (fun _ => None) cs, []).
Proof.
  induction cs as [|s r IH]; cbn [sticky map]; [reflexivity|].
  replace (if in_ilv s then find_fp fps (cs_fp s) [] else None) with (@None nat) by (destruct (in_ilv s); reflexivity).
  rewrite IH. reflexivity.
Qed.

Lemma sample_n0 k c d tape : 0 <= k -> sample k 0 c d tape = Ok (0, [], tape).
Proof.
  intros Hk. unfold sample. destruct (Z.ltb_spec k 0); [lia|]. cbn [Z.ltb Z.compare].
  destruct (Z.ltb_spec 0 k); reflexivity || (assert (k = 0) by lia; subst; reflexivity).
Qed.

Lemma no_paths_error cs c d tape : assign [] cs c d tape = ANoPath (map (fun _ => true) cs) tape.
Proof.
  unfold assign. cbn [length seq]. rewrite sticky_nil.
  assert (Hc : count_some (map (fun _ : cstate => @None nat) cs) = O).
  { unfold count_some. induction cs; cbn; auto. }
  rewrite Hc. cbn [length Z.of_nat]. rewrite map_length, Z.sub_0_r.
  rewrite sample_n0 by lia. cbn [Z.add Z.eqb]. f_equal. rewrite map_map. reflexivity.
Qed.
