From ST Require Import Base.Ints Base.F64 Model.NtpTime Model.Units Model.UnitsOracle Proofs.NtpTimeProofs.
From Coq Require Import Bool.
From Coq Require Import ZArith Lia.
Open Scope Z_scope.
Ltac Zify.zify_post_hook ::= Z.to_euclidean_division_equations.

Lemma timeval_normalised n : in_i64 n ->
  let '(sec, usec) := timeval_from_nsec n in
  0 <= usec < 1000000000 /\ sec * 1000000000 + usec = n /\ in_i64 sec.
Proof.
  unfold in_i64, timeval_from_nsec, go_div, go_rem, min_i64, max_i64. intros H.
  rewrite (i64_id (Z.quot n 1000000000)) by (unfold min_i64, max_i64; lia).
  destruct (Z.rem n 1000000000 <? 0) eqn:E.
  - rewrite !i64_id by (unfold min_i64, max_i64; lia). lia.
  - lia.
Qed.

Lemma timeval_oracle n : in_i64 n ->
  C18_timeval_ok n (fst (timeval_from_nsec n)) (snd (timeval_from_nsec n)) = true.
Proof.
  intros H. pose proof (timeval_normalised n H) as T.
  destruct (timeval_from_nsec n) as [s u]. cbn [fst snd]. unfold C18_timeval_ok. lia.
Qed.

Lemma csptp_ts_roundtrip s ns : 0 <= s < 2^48 -> 0 <= ns < 1000000000 ->
  csptp_ts_of_time (mk_time s ns) = Some (s, ns) /\ csptp_time_of_ts s ns = mk_time s ns.
Proof.
  intros Hs Hn. change (2^48) with 281474976710656 in Hs.
  unfold csptp_ts_of_time, csptp_time_of_ts, time_sec, time_nsec, mk_time, nanos_per_sec, u32.
  split; [|reflexivity].
  assert (E1 : (s * 1000000000 + ns) / 1000000000 = s) by lia.
  assert (E2 : (s * 1000000000 + ns) mod 1000000000 = ns) by lia.
  rewrite E1, E2.
  destruct (s <? 0) eqn:A; [lia|]. destruct (281474976710655 <? s) eqn:B; [lia|].
  rewrite Z.mod_small by lia. reflexivity.
Qed.

(* decoding any wire timestamp and re-encoding it gives back the same fields
   when the nanoseconds field is a valid sub-second count *)
Lemma csptp_ts_wire_roundtrip s ns : 0 <= s < 2^48 -> 0 <= ns < 1000000000 ->
  csptp_ts_of_time (csptp_time_of_ts s ns) = Some (s, ns).
Proof. intros Hs Hn. apply (csptp_ts_roundtrip s ns Hs Hn). Qed.

(* the wire allows any 32-bit nanoseconds field; a non-canonical one (>= 10^9) denotes the instant
   s + ns/10^9, and re-encoding that instant gives the canonical fields, not the original ones *)
Lemma csptp_ts_noncanonical s ns : 0 <= s -> 0 <= ns < 2^32 -> s + ns / 1000000000 < 2^48 ->
  csptp_ts_of_time (csptp_time_of_ts s ns) = Some (s + ns / 1000000000, ns mod 1000000000).
Proof.
  intros Hs Hn Hr. change (2^32) with 4294967296 in Hn. change (2^48) with 281474976710656 in Hr.
  unfold csptp_ts_of_time, csptp_time_of_ts, time_sec, time_nsec, mk_time, nanos_per_sec, u32.
  assert (E1 : (s * 1000000000 + ns) / 1000000000 = s + ns / 1000000000) by lia.
  assert (E2 : (s * 1000000000 + ns) mod 1000000000 = ns mod 1000000000) by lia.
  rewrite E1, E2.
  destruct (s + ns / 1000000000 <? 0) eqn:A; [lia|]. destruct (281474976710655 <? s + ns / 1000000000) eqn:B; [lia|].
  rewrite (Z.mod_small (ns mod 1000000000)) by lia. reflexivity.
Qed.

Lemma csptp_ts_noncanonical_differs s ns : 0 <= s -> 1000000000 <= ns < 2^32 ->
  csptp_ts_of_time (csptp_time_of_ts s ns) <> Some (s, ns).
Proof.
  intros Hs Hn. change (2^32) with 4294967296 in Hn.
  destruct (Z_lt_le_dec (s + ns / 1000000000) (2^48)) as [L|G].
  - rewrite csptp_ts_noncanonical by (change (2^32) with 4294967296; lia). intros E. injection E as E1 E2. lia.
  - unfold csptp_ts_of_time, csptp_time_of_ts, time_sec, mk_time, nanos_per_sec.
    change (2^48) with 281474976710656 in G.
    assert (E1 : (s * 1000000000 + ns) / 1000000000 = s + ns / 1000000000) by lia. rewrite E1.
    destruct (s + ns / 1000000000 <? 0) eqn:A; [discriminate|].
    destruct (281474976710655 <? s + ns / 1000000000) eqn:B; [discriminate|lia].
Qed.

(* at the upper edge the carried second leaves the 48-bit range: re-encoding is refused (panic) *)
Lemma csptp_ts_edge_refused s ns : 0 <= s -> 0 <= ns -> 2^48 <= s + ns / 1000000000 ->
  csptp_ts_of_time (csptp_time_of_ts s ns) = None.
Proof.
  intros Hs Hn G. change (2^48) with 281474976710656 in G.
  unfold csptp_ts_of_time, csptp_time_of_ts, time_sec, mk_time, nanos_per_sec.
  assert (E1 : (s * 1000000000 + ns) / 1000000000 = s + ns / 1000000000) by lia. rewrite E1.
  destruct (s + ns / 1000000000 <? 0) eqn:A; [reflexivity|].
  destruct (281474976710655 <? s + ns / 1000000000) eqn:B; [reflexivity|lia].
Qed.

Lemma ts_reencode_oracle s ns : 0 <= s < 2^48 -> 0 <= ns < 2^32 ->
  match csptp_ts_of_time (csptp_time_of_ts s ns) with
  | Some (a, b) => C18_ts_reencode_ok s ns 1 a b = true
  | None => C18_ts_reencode_ok s ns 0 0 0 = true
  end.
Proof.
  intros Hs Hn. unfold C18_ts_reencode_ok.
  change (2^32) with 4294967296 in *. change (2^48) with 281474976710656 in *.
  destruct (Z_lt_le_dec (s + ns / 1000000000) 281474976710656) as [L|G].
  - rewrite csptp_ts_noncanonical by (change (2^32) with 4294967296; change (2^48) with 281474976710656; lia).
    destruct (Z.ltb_spec ns 1000000000) as [C|C].
    + rewrite Z.div_small, Z.mod_small, Z.add_0_r, !Z.eqb_refl by lia. reflexivity.
    + destruct (Z.ltb_spec (s * 1000000000 + ns) (281474976710656 * 1000000000)) as [D|D]; [|lia].
      assert (0 <= ns mod 1000000000 < 1000000000) by (apply Z.mod_pos_bound; lia).
      repeat (apply andb_true_iff; split); try reflexivity; try (apply Z.leb_le; lia); try (apply Z.ltb_lt; lia).
      apply Z.eqb_eq. lia.
  - rewrite csptp_ts_edge_refused by (change (2^48) with 281474976710656; lia).
    destruct (Z.ltb_spec ns 1000000000) as [C|C]; [lia|].
    destruct (Z.ltb_spec (s * 1000000000 + ns) (281474976710656 * 1000000000)) as [D|D]; [lia|reflexivity].
Qed.

Lemma csptp_ts_range_refused t : time_sec t < 0 \/ 2^48 <= time_sec t -> csptp_ts_of_time t = None.
Proof.
  change (2^48) with 281474976710656. unfold csptp_ts_of_time. intros [H|H].
  - destruct (time_sec t <? 0) eqn:A; [reflexivity|lia].
  - destruct (time_sec t <? 0) eqn:A; [reflexivity|]. destruct (281474976710655 <? time_sec t) eqn:B; [reflexivity|lia].
Qed.

Lemma interval_floor i : csptp_dur_of_interval i = i / 65536.
Proof. unfold csptp_dur_of_interval. rewrite Z.shiftr_div_pow2 by lia. reflexivity. Qed.

Lemma interval_drops_subns i : let d := csptp_dur_of_interval i in d * 65536 <= i < (d + 1) * 65536.
Proof. cbv zeta. rewrite interval_floor. lia. Qed.

Lemma sat64_id x : in_i64 x -> sat64 x = x.
Proof. unfold in_i64, sat64, min_i64, max_i64. intros. destruct (x <? _) eqn:A; [lia|]. destruct (_ <? x) eqn:B; lia. Qed.

(* The CSPTP formulas recover a true offset theta and a symmetric one-way delay
   delta exactly: client stamps t0 (send) and t3 (receive), server stamps t1
   and t2 on a clock that is theta ahead, corrections c1 and c3 accumulated on
   the way (residence times).  Hypothesis = the property's "combinations that do
   not overflow int64 nanoseconds": every int64 subtraction/addition the Go code
   performs stays in range.  The absolute times t0 and t2 are arbitrary. *)
Definition csptp_no_overflow (theta delta c1 c3 : Z) : Prop :=
  in_i64 (theta + delta + c1) /\ in_i64 (- theta + delta + c3) /\   (* t1 - t0 and t3 - t2 *)
  in_i64 (theta + delta) /\ in_i64 (- theta + delta) /\             (* ... minus the corrections *)
  in_i64 (2 * theta) /\ in_i64 (2 * delta).                          (* their difference and sum *)

Lemma csptp_formulas t0 t2 theta delta c1 c3 :
  csptp_no_overflow theta delta c1 c3 ->
  let t1 := t0 + theta + delta + c1 in
  let t3 := t2 - theta + delta + c3 in
  csptp_clock_offset t0 t1 t2 t3 c1 c3 = theta /\
  csptp_mean_path_delay t0 t1 t2 t3 c1 c3 = delta.
Proof.
  unfold csptp_no_overflow, in_i64, min_i64, max_i64. intros [H1 [H3 [Ha [Hb [Ht Hd]]]]]. cbv zeta.
  unfold csptp_clock_offset, csptp_mean_path_delay, d_sub, d_add, time_sub, go_div.
  replace (t0 + theta + delta + c1 - t0) with (theta + delta + c1) by ring.
  replace (t2 - theta + delta + c3 - t2) with (- theta + delta + c3) by ring.
  rewrite !sat64_id by (unfold in_i64, min_i64, max_i64; lia).
  replace (theta + delta + c1 - c1) with (theta + delta) by ring.
  replace (- theta + delta + c3 - c3) with (- theta + delta) by ring.
  rewrite (i64_id (theta + delta)) by (unfold min_i64, max_i64; lia).
  rewrite (i64_id (- theta + delta)) by (unfold min_i64, max_i64; lia).
  replace (theta + delta - (- theta + delta)) with (2 * theta) by ring.
  replace (theta + delta + (- theta + delta)) with (2 * delta) by ring.
  rewrite (i64_id (2 * theta)) by (unfold min_i64, max_i64; lia).
  rewrite (i64_id (2 * delta)) by (unfold min_i64, max_i64; lia).
  replace (Z.quot (2 * theta) 2) with theta by (symmetry; rewrite Z.mul_comm; apply Z.quot_mul; lia).
  replace (Z.quot (2 * delta) 2) with delta by (symmetry; rewrite Z.mul_comm; apply Z.quot_mul; lia).
  rewrite !i64_id by (unfold min_i64, max_i64; lia). split; reflexivity.
Qed.

(* corollary in the earlier form: magnitudes of offset, delay and corrections below 2^60 ns *)
Definition small (x : Z) : Prop := - 2^60 <= x <= 2^60.

Lemma small_no_overflow theta delta c1 c3 :
  small theta -> small delta -> small c1 -> small c3 -> csptp_no_overflow theta delta c1 c3.
Proof.
  unfold small, csptp_no_overflow, in_i64, min_i64, max_i64. change (2^60) with 1152921504606846976. lia.
Qed.

Definition csptp_delays_no_overflow (theta d1 d2 c1 c3 utc : Z) : Prop :=
  in_i64 (theta + d1 + c1 + utc) /\ in_i64 (theta + d1 + utc) /\ in_i64 (theta + d1) /\
  in_i64 (- theta + d2 + c3 - utc) /\ in_i64 (- theta + d2 - utc) /\ in_i64 (- theta + d2).

Lemma csptp_delays t0 t2 theta d1 d2 c1 c3 utc :
  csptp_delays_no_overflow theta d1 d2 c1 c3 utc ->
  let t1 := t0 + theta + d1 + c1 + utc in
  let t3 := t2 - theta + d2 + c3 - utc in
  csptp_c2s_delay t0 t1 c1 utc = theta + d1 /\ csptp_s2c_delay t2 t3 c3 utc = - theta + d2.
Proof.
  unfold csptp_delays_no_overflow, in_i64, min_i64, max_i64. intros [A1 [A2 [A3 [B1 [B2 B3]]]]]. cbv zeta.
  unfold csptp_c2s_delay, csptp_s2c_delay, d_sub, d_add, time_sub.
  replace (t0 + theta + d1 + c1 + utc - t0) with (theta + d1 + c1 + utc) by ring.
  replace (t2 - theta + d2 + c3 - utc - t2) with (- theta + d2 + c3 - utc) by ring.
  rewrite !sat64_id by (unfold in_i64, min_i64, max_i64; lia).
  replace (theta + d1 + c1 + utc - c1) with (theta + d1 + utc) by ring.
  replace (- theta + d2 + c3 - utc - c3) with (- theta + d2 - utc) by ring.
  rewrite (i64_id (theta + d1 + utc)) by (unfold min_i64, max_i64; lia).
  rewrite (i64_id (- theta + d2 - utc)) by (unfold min_i64, max_i64; lia).
  rewrite !i64_id by (unfold min_i64, max_i64; lia). split; ring.
Qed.

(* ---- the CSPTP oracles hold for the model on all inputs ---- *)
Ltac split_andb := repeat match goal with H : (_ && _)%bool = true |- _ => apply andb_true_iff in H; destruct H end.
Lemma in_i64b_true x : in_i64b x = true -> in_i64 x.
Proof. unfold in_i64b, in_i64. intros H. apply andb_true_iff in H. destruct H as [A B]. apply Z.leb_le in A. apply Z.leb_le in B. lia. Qed.

Lemma recover_oracle t0 t2 theta delta c1 c3 :
  let t1 := t0 + theta + delta + c1 in
  let t3 := t2 - theta + delta + c3 in
  C18_recover_ok theta delta c1 c3 (csptp_clock_offset t0 t1 t2 t3 c1 c3) (csptp_mean_path_delay t0 t1 t2 t3 c1 c3) = true.
Proof.
  cbv zeta. unfold C18_recover_ok. destruct (C18_recover_range theta delta c1 c3) eqn:Rg; [|reflexivity].
  unfold C18_recover_range in Rg. split_andb.
  destruct (csptp_formulas t0 t2 theta delta c1 c3) as [E1 E2].
  { refine (conj _ (conj _ (conj _ (conj _ (conj _ _))))); apply in_i64b_true; assumption. }
  cbv zeta in E1, E2. rewrite E1, E2, !Z.eqb_refl. reflexivity.
Qed.

Lemma delays_oracle t0 t2 theta d1 d2 c1 c3 utc :
  let t1 := t0 + theta + d1 + c1 + utc in
  let t3 := t2 - theta + d2 + c3 - utc in
  C18_delays_ok theta d1 d2 c1 c3 utc (csptp_c2s_delay t0 t1 c1 utc) (csptp_s2c_delay t2 t3 c3 utc) = true.
Proof.
  cbv zeta. unfold C18_delays_ok. destruct (C18_delays_range theta d1 d2 c1 c3 utc) eqn:Rg; [|reflexivity].
  unfold C18_delays_range in Rg. split_andb.
  destruct (csptp_delays t0 t2 theta d1 d2 c1 c3 utc) as [E1 E2].
  { refine (conj _ (conj _ (conj _ (conj _ (conj _ _))))); apply in_i64b_true; assumption. }
  cbv zeta in E1, E2. rewrite E1, E2, !Z.eqb_refl. reflexivity.
Qed.

Lemma formulas_oracle t0 t1 t2 t3 c1 c3 utc :
  C18_formulas_ok t0 t1 t2 t3 c1 c3 utc
    (csptp_clock_offset t0 t1 t2 t3 c1 c3) (csptp_mean_path_delay t0 t1 t2 t3 c1 c3)
    (csptp_c2s_delay t0 t1 c1 utc) (csptp_s2c_delay t2 t3 c3 utc) = true.
Proof.
  unfold C18_formulas_ok. cbv zeta.
  unfold csptp_clock_offset, csptp_mean_path_delay, csptp_c2s_delay, csptp_s2c_delay, d_sub, d_add, time_sub, go_div.
  assert (Q : forall x, in_i64 x -> in_i64 (Z.quot x 2)).
  { unfold in_i64, min_i64, max_i64. intros x Hx. pose proof (Z.quot_rem' x 2). pose proof (Z.rem_bound_abs x 2). lia. }
  repeat (apply andb_true_iff; split).
  - destruct (in_i64b (t1 - t0) && in_i64b (t1 - t0 - c1) && (in_i64b (t3 - t2) && in_i64b (t3 - t2 - c3)) && in_i64b (t1 - t0 - c1 - (t3 - t2 - c3))) eqn:Rg; [|reflexivity].
    split_andb.
    repeat match goal with H : in_i64b _ = true |- _ => apply in_i64b_true in H end.
    rewrite !sat64_id by assumption. rewrite (i64_id (t1 - t0 - c1)), (i64_id (t3 - t2 - c3)) by assumption.
    rewrite (i64_id (t1 - t0 - c1 - (t3 - t2 - c3))) by assumption.
    rewrite i64_id by (apply Q; assumption). apply Z.eqb_refl.
  - destruct (in_i64b (t1 - t0) && in_i64b (t1 - t0 - c1) && (in_i64b (t3 - t2) && in_i64b (t3 - t2 - c3)) && in_i64b (t1 - t0 - c1 + (t3 - t2 - c3))) eqn:Rg; [|reflexivity].
    split_andb.
    repeat match goal with H : in_i64b _ = true |- _ => apply in_i64b_true in H end.
    rewrite !sat64_id by assumption. rewrite (i64_id (t1 - t0 - c1)), (i64_id (t3 - t2 - c3)) by assumption.
    rewrite (i64_id (t1 - t0 - c1 + (t3 - t2 - c3))) by assumption.
    rewrite i64_id by (apply Q; assumption). apply Z.eqb_refl.
  - destruct (in_i64b (t1 - t0) && in_i64b (t1 - t0 - c1) && in_i64b (t1 - t0 - c1 - utc)) eqn:Rg; [|reflexivity].
    split_andb.
    repeat match goal with H : in_i64b _ = true |- _ => apply in_i64b_true in H end.
    rewrite !sat64_id by assumption. rewrite (i64_id (t1 - t0 - c1)) by assumption.
    rewrite i64_id by assumption. apply Z.eqb_refl.
  - destruct (in_i64b (t3 - t2) && in_i64b (t3 - t2 - c3) && in_i64b (t3 - t2 - c3 + utc)) eqn:Rg; [|reflexivity].
    split_andb.
    repeat match goal with H : in_i64b _ = true |- _ => apply in_i64b_true in H end.
    rewrite !sat64_id by assumption. rewrite (i64_id (t3 - t2 - c3)) by assumption.
    rewrite i64_id by assumption. apply Z.eqb_refl.
Qed.

Example csptp_formulas_inhabited :
  csptp_clock_offset 1000 (1000 + 37 + 500 + 3) 5000 (5000 - 37 + 500 + 4) 3 4 = 37 /\
  csptp_mean_path_delay 1000 (1000 + 37 + 500 + 3) 5000 (5000 - 37 + 500 + 4) 3 4 = 500.
Proof. vm_compute. split; reflexivity. Qed.

(* the oracle of the kind csptp.client follows from the formulas: a responder whose timestamps are theta
   ahead (t1 = t0 + d1 + theta + c1 for a request that took d1, t2 = s2 + theta - c3 for a reply sent at s2
   that took D2), any corrections c1, c3 and announced UTC correction U: the four values the client computes
   satisfy C18_client_ok for every bound d1max >= d1, as long as no int64 operation overflows *)
Lemma client_oracle t0 s2 d1 D2 theta c1 c3 U d1max :
  0 <= d1 <= d1max ->
  in_i64 (theta + d1 + c1) -> in_i64 (theta + d1) -> in_i64 (D2 - theta + c3) -> in_i64 (D2 - theta) ->
  in_i64 (2 * theta + d1 - D2) -> in_i64 (d1 + D2) -> in_i64 (theta + d1 - U) -> in_i64 (D2 - theta + U) ->
  let t1 := t0 + d1 + theta + c1 in let t2 := s2 + theta - c3 in let t3 := s2 + D2 in
  C18_client_ok theta U d1max D2
    (csptp_clock_offset t0 t1 t2 t3 c1 c3) (csptp_mean_path_delay t0 t1 t2 t3 c1 c3)
    (csptp_c2s_delay t0 t1 c1 U) (csptp_s2c_delay t2 t3 c3 U) = true.
Proof.
  intros Hd A1 A2 A3 A4 A5 A6 A7 A8. cbv zeta.
  unfold csptp_clock_offset, csptp_mean_path_delay, csptp_c2s_delay, csptp_s2c_delay, d_sub, d_add, time_sub, go_div.
  replace (t0 + d1 + theta + c1 - t0) with (theta + d1 + c1) by ring.
  replace (s2 + D2 - (s2 + theta - c3)) with (D2 - theta + c3) by ring.
  rewrite !sat64_id by assumption.
  replace (theta + d1 + c1 - c1) with (theta + d1) by ring.
  replace (D2 - theta + c3 - c3) with (D2 - theta) by ring.
  rewrite (i64_id (theta + d1)), (i64_id (D2 - theta)) by assumption.
  replace (theta + d1 - (D2 - theta)) with (2 * theta + d1 - D2) by ring.
  replace (theta + d1 + (D2 - theta)) with (d1 + D2) by ring.
  rewrite (i64_id (2 * theta + d1 - D2)), (i64_id (d1 + D2)), (i64_id (theta + d1 - U)), (i64_id (D2 - theta + U)) by assumption.
  assert (Q : forall x, in_i64 x -> in_i64 (Z.quot x 2)).
  { unfold in_i64, min_i64, max_i64. intros x Hx. pose proof (Z.quot_rem' x 2). pose proof (Z.rem_bound_abs x 2). lia. }
  rewrite !i64_id by (apply Q; assumption).
  pose proof (Z.quot_rem' (2 * theta + d1 - D2) 2) as E1. pose proof (Z.rem_bound_abs (2 * theta + d1 - D2) 2) as B1.
  pose proof (Z.quot_rem' (d1 + D2) 2) as E2. pose proof (Z.rem_bound_abs (d1 + D2) 2) as B2.
  unfold C18_client_ok.
  repeat (apply andb_true_iff; split); try (apply Z.leb_le; lia). apply Z.eqb_eq. ring.
Qed.
