From ST Require Import Base.Ints Base.F64 Model.NtpTime Model.Units Proofs.NtpTimeProofs.
From Coq Require Import ZArith Lia.
Open Scope Z_scope.
Ltac Zify.zify_post_hook ::= Z.to_euclidean_division_equations.

Lemma timeval_normalised n : in_i64 n ->
  let '(sec, usec) := timeval_from_nsec n in
  0 <= usec < 1000000000 /\ sec * 1000000000 + usec = n /\ in_i64 sec.
Proof.
  unfold in_i64, timeval_from_nsec, go_div, go_rem, min_i64, max_i64. intros H.
  rewrite (i64_id (Z.quot n 1000000000)) by (unfold min_i64, max_i64; lia).
  destruct (Z.rem n 1000000000 <? 0) eqn:E.
  - rewrite !i64_id by (unfold min_i64, max_i64; lia). lia.
  - lia.
Qed.

Lemma timeval_oracle n : in_i64 n ->
  C18_timeval_ok n (fst (timeval_from_nsec n)) (snd (timeval_from_nsec n)) = true.
Proof.
  intros H. pose proof (timeval_normalised n H) as T.
  destruct (timeval_from_nsec n) as [s u]. cbn [fst snd]. unfold C18_timeval_ok. lia.
Qed.

Lemma csptp_ts_roundtrip s ns : 0 <= s < 2^48 -> 0 <= ns < 1000000000 ->
  csptp_ts_of_time (mk_time s ns) = Some (s, ns) /\ csptp_time_of_ts s ns = mk_time s ns.
Proof.
  intros Hs Hn. change (2^48) with 281474976710656 in Hs.
  unfold csptp_ts_of_time, csptp_time_of_ts, time_sec, time_nsec, mk_time, nanos_per_sec, u32.
  split; [|reflexivity].
  assert (E1 : (s * 1000000000 + ns) / 1000000000 = s) by lia.
  assert (E2 : (s * 1000000000 + ns) mod 1000000000 = ns) by lia.
  rewrite E1, E2.
  destruct (s <? 0) eqn:A; [lia|]. destruct (281474976710655 <? s) eqn:B; [lia|].
  rewrite Z.mod_small by lia. reflexivity.
Qed.

(* decoding any wire timestamp and re-encoding it gives back the same fields
   when the nanoseconds field is a valid sub-second count *)
Lemma csptp_ts_wire_roundtrip s ns : 0 <= s < 2^48 -> 0 <= ns < 1000000000 ->
  csptp_ts_of_time (csptp_time_of_ts s ns) = Some (s, ns).
Proof. intros Hs Hn. apply (csptp_ts_roundtrip s ns Hs Hn). Qed.

Lemma csptp_ts_range_refused t : time_sec t < 0 \/ 2^48 <= time_sec t -> csptp_ts_of_time t = None.
Proof.
  change (2^48) with 281474976710656. unfold csptp_ts_of_time. intros [H|H].
  - destruct (time_sec t <? 0) eqn:A; [reflexivity|lia].
  - destruct (time_sec t <? 0) eqn:A; [reflexivity|]. destruct (281474976710655 <? time_sec t) eqn:B; [reflexivity|lia].
Qed.

Lemma interval_floor i : csptp_dur_of_interval i = i / 65536.
Proof. unfold csptp_dur_of_interval. rewrite Z.shiftr_div_pow2 by lia. reflexivity. Qed.

Lemma interval_drops_subns i : let d := csptp_dur_of_interval i in d * 65536 <= i < (d + 1) * 65536.
Proof. cbv zeta. rewrite interval_floor. lia. Qed.

Lemma sat64_id x : in_i64 x -> sat64 x = x.
Proof. unfold in_i64, sat64, min_i64, max_i64. intros. destruct (x <? _) eqn:A; [lia|]. destruct (_ <? x) eqn:B; lia. Qed.

(* The CSPTP formulas recover a true offset theta and a symmetric one-way delay
   delta exactly: client stamps t0 (send) and t3 (receive), server stamps t1
   and t2 on a clock that is theta ahead, corrections c1 and c3 accumulated on
   the way (residence times), all magnitudes below 2^60 ns so that no int64
   operation wraps. *)
Definition small (x : Z) : Prop := - 2^60 <= x <= 2^60.

Lemma csptp_formulas t0 t2 theta delta c1 c3 :
  small t0 -> small t2 -> small theta -> small delta -> small c1 -> small c3 ->
  let t1 := t0 + theta + delta + c1 in
  let t3 := t2 - theta + delta + c3 in
  csptp_clock_offset t0 t1 t2 t3 c1 c3 = theta /\
  csptp_mean_path_delay t0 t1 t2 t3 c1 c3 = delta.
Proof.
  unfold small. change (2^60) with 1152921504606846976. intros H0 H2 Ht Hd H1 H3. cbv zeta.
  unfold csptp_clock_offset, csptp_mean_path_delay, d_sub, d_add, time_sub, go_div.
  rewrite !sat64_id by (unfold in_i64, min_i64, max_i64; lia).
  replace (t0 + theta + delta + c1 - t0) with (theta + delta + c1) by ring.
  replace (t2 - theta + delta + c3 - t2) with (- theta + delta + c3) by ring.
  rewrite (i64_id (theta + delta + c1 - c1)) by (unfold min_i64, max_i64; lia).
  rewrite (i64_id (- theta + delta + c3 - c3)) by (unfold min_i64, max_i64; lia).
  replace (theta + delta + c1 - c1 - (- theta + delta + c3 - c3)) with (2 * theta) by ring.
  replace (theta + delta + c1 - c1 + (- theta + delta + c3 - c3)) with (2 * delta) by ring.
  rewrite (i64_id (2 * theta)) by (unfold min_i64, max_i64; lia).
  rewrite (i64_id (2 * delta)) by (unfold min_i64, max_i64; lia).
  replace (Z.quot (2 * theta) 2) with theta by (symmetry; rewrite Z.mul_comm; apply Z.quot_mul; lia).
  replace (Z.quot (2 * delta) 2) with delta by (symmetry; rewrite Z.mul_comm; apply Z.quot_mul; lia).
  rewrite !i64_id by (unfold min_i64, max_i64; lia). split; reflexivity.
Qed.

Lemma csptp_delays t0 t2 theta d1 d2 c1 c3 utc :
  small t0 -> small t2 -> small theta -> small d1 -> small d2 -> small c1 -> small c3 -> small utc ->
  let t1 := t0 + theta + d1 + c1 + utc in
  let t3 := t2 - theta + d2 + c3 - utc in
  csptp_c2s_delay t0 t1 c1 utc = theta + d1 /\ csptp_s2c_delay t2 t3 c3 utc = - theta + d2.
Proof.
  unfold small. change (2^60) with 1152921504606846976. intros H0 H2 Ht Hd1 Hd2 H1 H3 Hu. cbv zeta.
  unfold csptp_c2s_delay, csptp_s2c_delay, d_sub, d_add, time_sub.
  rewrite !sat64_id by (unfold in_i64, min_i64, max_i64; lia).
  replace (t0 + theta + d1 + c1 + utc - t0) with (theta + d1 + c1 + utc) by ring.
  replace (t2 - theta + d2 + c3 - utc - t2) with (- theta + d2 + c3 - utc) by ring.
  rewrite (i64_id (theta + d1 + c1 + utc - c1)) by (unfold min_i64, max_i64; lia).
  rewrite (i64_id (- theta + d2 + c3 - utc - c3)) by (unfold min_i64, max_i64; lia).
  rewrite !i64_id by (unfold min_i64, max_i64; lia). split; ring.
Qed.

Example csptp_formulas_inhabited :
  csptp_clock_offset 1000 (1000 + 37 + 500 + 3) 5000 (5000 - 37 + 500 + 4) 3 4 = 37 /\
  csptp_mean_path_delay 1000 (1000 + 37 + 500 + 3) 5000 (5000 - 37 + 500 + 4) 3 4 = 500.
Proof. vm_compute. split; reflexivity. Qed.
