(* Proofs about the receive loop of the clients (Model/ClientAccept.v):
   acceptance is sound and complete with respect to the Prop-level predicate
   [genuine], by induction over the list of delivered events; at most one
   datagram is skipped; the offsets reported by calls and histories come from
   accepted datagrams; the property oracle holds of the model. *)
From Coq Require Import ZArith List Bool Lia.
From ST Require Import Base.Ints Model.NtpTime Model.ClientAccept.
Import ListNotations.
Open Scope Z_scope.

Arguments time_of_time64 : simpl never.
Arguments time64_of_time : simpl never.
Arguments time_sub : simpl never.
Arguments clock_offset : simpl never.
Arguments Z.to_nat : simpl never.

(* ---- small facts ---- *)
Lemma bytes_eqb_eq : forall a b, bytes_eqb a b = true <-> a = b.
Proof.
  induction a as [|x a IH]; destruct b as [|y b]; simpl; split; intro H; try reflexivity; try discriminate.
  - apply andb_true_iff in H. destruct H as [H1 H2]. apply Z.eqb_eq in H1. apply IH in H2. subst. reflexivity.
  - inversion H; subst. apply andb_true_iff. split. apply Z.eqb_refl. apply IH. reflexivity.
Qed.

Lemma t64_eqb_eq : forall a b, t64_eqb a b = true <-> a = b.
Proof.
  intros [a1 a2] [b1 b2]. unfold t64_eqb. simpl. split; intro H.
  - apply andb_true_iff in H. destruct H as [H1 H2]. apply Z.eqb_eq in H1. apply Z.eqb_eq in H2. subst. reflexivity.
  - inversion H; subst. rewrite !Z.eqb_refl. reflexivity.
Qed.

Lemma time_sub_neg : forall a b, (time_sub a b <? 0) = false <-> b <= a.
Proof.
  intros a b. unfold time_sub, sat64, min_i64, max_i64. rewrite Z.ltb_ge.
  destruct (a - b <? -9223372036854775808) eqn:E1.
  - apply Z.ltb_lt in E1. split; intro; lia.
  - apply Z.ltb_ge in E1. destruct (9223372036854775807 <? a - b) eqn:E2.
    + apply Z.ltb_lt in E2. split; intro; lia.
    + split; intro; lia.
Qed.

(* ------------------------------------------------------------------ *)
(* the Prop-level reading of the property's clauses                    *)
(* ------------------------------------------------------------------ *)

(* the datagram comes from the queried server (over SCION: from the queried
   ISD-AS and host, addressed to the client, a SCION/UDP packet that is not
   shorter than it says, and - when it carries the packet authenticator of the
   server and the client has the key - with a correct MAC) *)
Definition front_ok (q : request) (g : dgram) : Prop :=
  match g_front g with
  | FrontIP src sport => src = q_server q /\ sport = q_port q
  | FrontSCION v =>
      sv_decode_ok v = true /\ 2 <= sv_nlayers v /\ sv_last v = 0 /\ sv_len_ok v = true /\
      sv_src_ia v = q_server_ia q /\ sv_src_host v = Some (q_server q) /\
      sv_dst_ia v = q_local_ia q /\ sv_dst_host v = Some (q_local q) /\
      (sv_e2e v = true -> q_authkey q = true -> sv_auth v <> AuthMac false)
  end.

(* known leap status, version 3 or 4, server mode, stratum 1..15 *)
Definition meta_valid (h : ntp_hdr) : Prop :=
  leap_of (h_lvm h) <> 3 /\ (version_of (h_lvm h) = 3 \/ version_of (h_lvm h) = 4) /\
  mode_of (h_lvm h) = 4 /\ h_stratum h <> 0 /\ h_stratum h <= 15.

(* the origin echoes the request's transmit timestamp or, for an interleaved
   request, its receive timestamp *)
Definition origin_ok (q : request) (h : ntp_hdr) : Prop :=
  h_org h = q_tx q \/ (q_ireq q = true /\ h_org h = q_rx q).

Definition is_interleaved (q : request) (h : ntp_hdr) : bool := q_ireq q && t64_eqb (h_org h) (q_rx q).

(* the four timestamps the client combines *)
Definition stamps (q : request) (g : dgram) (h : ntp_hdr) : Z * Z * Z * Z :=
  if is_interleaved q h then
    (time_of_time64 (q_pctx q) (q_ref q), time_of_time64 (q_psrx q) (q_ref q),
     time_of_time64 (h_tx h) (q_ref q), time_of_time64 (q_pcrx q) (q_ref q))
  else
    (q_ctx1 q, time_of_time64 (h_rx h) (q_ref q), time_of_time64 (h_tx h) (q_ref q), crx_of g).

Definition result_of (q : request) (g : dgram) (h : ntp_hdr) : result :=
  let '(t0, t1, t2, t3) := stamps q g h in
  {| r_ileaved := is_interleaved q h; r_t0 := t0; r_t1 := t1; r_t2 := t2; r_t3 := t3;
     r_off := clock_offset t0 t1 t2 t3; r_crx := crx_of g; r_srx := h_rx h |}.

(* transmit time not before the receive time (of the same exchange: for an
   interleaved response that is the receive time the request quotes) *)
Definition tx_not_before_rx (q : request) (g : dgram) (h : ntp_hdr) : Prop :=
  let '(_, t1, t2, _) := stamps q g h in t1 <= t2.

Definition clock_sane (q : request) (g : dgram) (h : ntp_hdr) : Prop :=
  let '(t0, _, _, t3) := stamps q g h in t0 <= t3.

Section Proofs.
  Variable open : bytes -> bytes -> bytes -> bytes -> option bytes.

  (* the datagram carries the request's unique identifier and its bytes before
     the authenticator verify under the server-to-client key *)
  Definition nts_ok (q : request) (b : bytes) : Prop :=
    exists p pt cs,
      decode_packet b = Ok p /\ p_uid p = q_uid q /\ key_ok (q_s2c q) = true /\
      length (p_nonce p) = 16%nat /\ (p_pos p <= length b)%nat /\
      open (q_s2c q) (p_nonce p) (firstn (p_pos p) b) (p_ct p) = Some pt /\
      plain_loop (length pt) pt 0 (p_cookies p) = Ok cs.

  Definition genuine (q : request) (g : dgram) (h : ntp_hdr) : Prop :=
    g_xflags g = 0 /\ (length (g_payload g) <= q_bufcap q)%nat /\
    front_ok q g /\
    ntp_decode (g_payload g) = Some h /\
    (q_nts q = true -> nts_ok q (g_payload g)) /\
    origin_ok q h /\ meta_valid h /\ tx_not_before_rx q g h.

  (* ---- the checks, one by one ---- *)
  Lemma front_check_ok : forall q g, front_check q g = None <-> front_ok q g.
  Proof.
    intros q g. unfold front_check, front_ok. destruct (g_front g) as [src sport|v].
    - destruct ((src =? q_server q) && (sport =? q_port q)) eqn:E.
      + apply andb_true_iff in E. destruct E as [E1 E2]. apply Z.eqb_eq in E1. apply Z.eqb_eq in E2. split; auto.
      + split; intro H; [discriminate|]. destruct H as [H1 H2]. subst. rewrite !Z.eqb_refl in E. discriminate.
    - destruct (sv_decode_ok v) eqn:E1; simpl.
      2:{ split; intro H; [discriminate | destruct H as [H _]; discriminate]. }
      destruct (2 <=? sv_nlayers v) eqn:E2; simpl.
      2:{ apply Z.leb_gt in E2. split; intro H; [discriminate | destruct H as (_ & H & _); lia]. }
      apply Z.leb_le in E2.
      destruct (sv_last v =? 0) eqn:E3; simpl.
      2:{ apply Z.eqb_neq in E3. destruct (sv_last v =? 1) eqn:E3'; simpl.
          - split; intro H; [discriminate | destruct H as (_ & _ & H & _); contradiction].
          - split; intro H; [discriminate | destruct H as (_ & _ & H & _); contradiction]. }
      apply Z.eqb_eq in E3. rewrite E3. simpl.
      destruct (sv_len_ok v) eqn:E4; simpl.
      2:{ split; intro H; [discriminate | destruct H as (_ & _ & _ & H & _); discriminate]. }
      destruct (sv_src_ia v =? q_server_ia q) eqn:E5; simpl.
      2:{ apply Z.eqb_neq in E5. split; intro H; [discriminate | destruct H as (_ & _ & _ & _ & H & _); contradiction]. }
      apply Z.eqb_eq in E5.
      assert (Hopt : forall a b, opt_eqb a b = true <-> a = Some b).
      { intros a b. destruct a as [x|]; simpl.
        - rewrite Z.eqb_eq. split; intro H; [subst; reflexivity | inversion H; reflexivity].
        - split; intro H; discriminate. }
      destruct (opt_eqb (sv_src_host v) (q_server q)) eqn:E6; simpl.
      2:{ split; intro H; [discriminate | destruct H as (_ & _ & _ & _ & _ & H & _)].
          apply Hopt in H. congruence. }
      apply Hopt in E6.
      destruct (sv_dst_ia v =? q_local_ia q) eqn:E7; simpl.
      2:{ apply Z.eqb_neq in E7. split; intro H; [discriminate | destruct H as (_ & _ & _ & _ & _ & _ & H & _); contradiction]. }
      apply Z.eqb_eq in E7.
      destruct (opt_eqb (sv_dst_host v) (q_local q)) eqn:E8; simpl.
      2:{ split; intro H; [discriminate | destruct H as (_ & _ & _ & _ & _ & _ & _ & H & _)].
          apply Hopt in H. congruence. }
      apply Hopt in E8.
      destruct (sv_e2e v) eqn:E9; simpl.
      + destruct (q_authkey q) eqn:E10; simpl.
        * destruct (sv_auth v) as [|[|]] eqn:E11.
          -- split; intro H; [|reflexivity]. repeat split; auto. intros _ _ Hc. discriminate.
          -- split; intro H; [|reflexivity]. repeat split; auto. intros _ _ Hc. discriminate.
          -- split; intro H; [discriminate|]. destruct H as (_ & _ & _ & _ & _ & _ & _ & _ & H).
             exfalso. apply H; reflexivity.
        * split; intro H; [|reflexivity]. repeat split; auto. intros _ Hc. discriminate.
      + split; intro H; [|reflexivity]. repeat split; auto. intros Hc. discriminate.
  Qed.

  Lemma metadata_ok_valid : forall h, metadata_ok h = true <-> meta_valid h.
  Proof.
    intro h. unfold metadata_ok, meta_valid.
    rewrite !andb_true_iff, orb_true_iff, !negb_true_iff, !Z.eqb_eq, !Z.eqb_neq, Z.leb_le.
    tauto.
  Qed.

  Lemma nts_check_ok : forall q b, (exists cs, nts_check open q b = Ok cs) <-> nts_ok q b.
  Proof.
    intros q b. unfold nts_check, nts_ok, authenticate. split.
    - intros [cs H]. destruct (decode_packet b) as [p|e| |] eqn:ED; try discriminate.
      destruct (bytes_eqb (q_uid q) (p_uid p)) eqn:EU; simpl in H; try discriminate.
      apply bytes_eqb_eq in EU.
      destruct (key_ok (q_s2c q)) eqn:EK; simpl in H; try discriminate.
      destruct (length (p_nonce p) =? 16)%nat eqn:EN; simpl in H; try discriminate.
      apply Nat.eqb_eq in EN.
      destruct (length b <? p_pos p)%nat eqn:EP; try discriminate.
      apply Nat.ltb_ge in EP.
      destruct (open (q_s2c q) (p_nonce p) (firstn (p_pos p) b) (p_ct p)) as [pt|] eqn:EO; try discriminate.
      exists p, pt, cs. repeat split; auto.
    - intros (p & pt & cs & ED & EU & EK & EN & EP & EO & EL). exists cs. rewrite ED.
      assert (EU' : bytes_eqb (q_uid q) (p_uid p) = true) by (apply bytes_eqb_eq; auto).
      rewrite EU', EK. simpl. apply Nat.eqb_eq in EN. rewrite EN. simpl.
      apply Nat.ltb_ge in EP. rewrite EP. rewrite EO. exact EL.
  Qed.

  Lemma retry_not_accept : forall q nr b e r, retry q nr b e <> SAccept r.
  Proof. intros. unfold retry. destruct (negb (nr =? 1)%nat && q_deadline q && b); discriminate. Qed.

  (* a skip needs an unused retry, a deadline and time left *)
  Lemma retry_skip : forall q nr b e e', retry q nr b e = SSkip e' -> nr <> 1%nat /\ q_deadline q = true /\ b = true /\ e' = e.
  Proof.
    intros q nr b e e' H. unfold retry in H.
    destruct (nr =? 1)%nat eqn:E1; simpl in H; try discriminate.
    destruct (q_deadline q); simpl in H; try discriminate.
    destruct b; simpl in H; try discriminate. inversion H. apply Nat.eqb_neq in E1. auto.
  Qed.

  Lemma evaluate_accept : forall q g h nr r,
    evaluate q g h nr = SAccept r ->
    origin_ok q h /\ meta_valid h /\ tx_not_before_rx q g h /\ clock_sane q g h /\ r = result_of q g h.
  Proof.
    intros q g h nr r H. unfold evaluate in H.
    fold (is_interleaved q h) in H.
    destruct (negb (is_interleaved q h) && negb (t64_eqb (h_org h) (q_tx q))) eqn:EO.
    { exfalso. eapply retry_not_accept; eauto. }
    destruct (metadata_ok h) eqn:EM; cbn [negb] in H; cbv iota in H; try discriminate.
    apply metadata_ok_valid in EM. cbv zeta in H.
    unfold tx_not_before_rx, clock_sane, result_of, stamps.
    destruct (is_interleaved q h) eqn:EI.
    - match type of H with (if ?c then _ else _) = _ => destruct c eqn:E1 end; try discriminate.
      match type of H with (if ?c then _ else _) = _ => destruct c eqn:E2 end; try discriminate.
      apply time_sub_neg in E1. apply time_sub_neg in E2. inversion H; subst. clear H.
      split; [|split; [exact EM|split; [exact E2|split; [exact E1|reflexivity]]]].
      right. unfold is_interleaved in EI. apply andb_true_iff in EI. destruct EI as [A B].
      apply t64_eqb_eq in B. auto.
    - match type of H with (if ?c then _ else _) = _ => destruct c eqn:E1 end; try discriminate.
      match type of H with (if ?c then _ else _) = _ => destruct c eqn:E2 end; try discriminate.
      apply time_sub_neg in E1. apply time_sub_neg in E2. inversion H; subst. clear H.
      split; [|split; [exact EM|split; [exact E2|split; [exact E1|reflexivity]]]].
      left. cbn [negb andb] in EO. apply negb_false_iff in EO. apply t64_eqb_eq in EO. auto.
  Qed.

  Lemma evaluate_complete : forall q g h nr,
    origin_ok q h -> meta_valid h -> tx_not_before_rx q g h -> clock_sane q g h ->
    evaluate q g h nr = SAccept (result_of q g h).
  Proof.
    intros q g h nr HO HM HT HC. unfold evaluate. fold (is_interleaved q h).
    apply metadata_ok_valid in HM.
    assert (EO : negb (is_interleaved q h) && negb (t64_eqb (h_org h) (q_tx q)) = false).
    { destruct HO as [HO|[HO1 HO2]].
      - apply t64_eqb_eq in HO. rewrite HO. simpl. apply andb_false_r.
      - unfold is_interleaved. rewrite HO1. apply t64_eqb_eq in HO2. rewrite HO2. reflexivity. }
    rewrite EO, HM. cbn [negb]. cbv iota zeta.
    unfold tx_not_before_rx, clock_sane, result_of, stamps in *.
    destruct (is_interleaved q h).
    - apply time_sub_neg in HC. apply time_sub_neg in HT. rewrite HC, HT. reflexivity.
    - apply time_sub_neg in HC. apply time_sub_neg in HT. rewrite HC, HT. reflexivity.
  Qed.

  (* ---- one iteration ---- *)
  Theorem handle_accept : forall q nr ev r,
    handle open q nr ev = SAccept r ->
    exists g h, ev = EvDgram g /\ genuine q g h /\ clock_sane q g h /\ r = result_of q g h.
  Proof.
    intros q nr ev r H. destruct ev as [b|g]; simpl in H.
    { exfalso. eapply retry_not_accept; eauto. }
    destruct (flags_ok q g) eqn:EF; simpl in H.
    2:{ exfalso. eapply retry_not_accept; eauto. }
    destruct (front_check q g) as [e|] eqn:EFr.
    { exfalso. eapply retry_not_accept; eauto. }
    apply front_check_ok in EFr.
    destruct (ntp_decode (g_payload g)) as [h|] eqn:ED.
    2:{ exfalso. eapply retry_not_accept; eauto. }
    unfold flags_ok in EF. apply andb_true_iff in EF. destruct EF as [EF1 EF2].
    apply Z.eqb_eq in EF1. apply Nat.leb_le in EF2.
    exists g, h.
    destruct (q_nts q) eqn:EN.
    - destruct (nts_check open q (g_payload g)) as [cs|e| |] eqn:EC; try discriminate.
      2:{ exfalso. eapply retry_not_accept; eauto. }
      apply evaluate_accept in H. destruct H as (HO & HM & HT & HC & HR).
      split; [reflexivity|]. split; [|split; assumption].
      unfold genuine. split; [exact EF1|]. split; [exact EF2|]. split; [exact EFr|]. split; [exact ED|].
      split; [|split; [exact HO|split; [exact HM|exact HT]]].
      intros _. apply nts_check_ok. exists cs. exact EC.
    - apply evaluate_accept in H. destruct H as (HO & HM & HT & HC & HR).
      split; [reflexivity|]. split; [|split; assumption].
      unfold genuine. split; [exact EF1|]. split; [exact EF2|]. split; [exact EFr|]. split; [exact ED|].
      split; [|split; [exact HO|split; [exact HM|exact HT]]].
      intro Hc. rewrite EN in Hc. discriminate.
  Qed.

  (* completeness: a genuine datagram that is reached is accepted *)
  Theorem handle_genuine : forall q nr g h,
    genuine q g h -> clock_sane q g h -> handle open q nr (EvDgram g) = SAccept (result_of q g h).
  Proof.
    intros q nr g h (HF1 & HF2 & HFr & HD & HN & HO & HM & HT) HC. simpl.
    unfold flags_ok. rewrite HF1. simpl. apply Nat.leb_le in HF2. rewrite HF2. simpl.
    apply front_check_ok in HFr. rewrite HFr, HD.
    destruct (q_nts q) eqn:EN.
    - destruct (proj2 (nts_check_ok q (g_payload g)) (HN eq_refl)) as [cs EC]. rewrite EC.
      apply evaluate_complete; assumption.
    - apply evaluate_complete; assumption.
  Qed.

  (* a datagram that fails a clause yields no offset: it is skipped, or ends
     the call with an error *)
  Theorem handle_not_genuine : forall q nr g,
    (forall h, ~ genuine q g h) -> forall r, handle open q nr (EvDgram g) <> SAccept r.
  Proof.
    intros q nr g HN r H. apply handle_accept in H.
    destruct H as (g' & h & E & HG & _). inversion E; subst. exact (HN h HG).
  Qed.

  Lemma evaluate_skip : forall q g h nr e, evaluate q g h nr = SSkip e -> nr <> 1%nat.
  Proof.
    intros q g h nr e Hx. unfold evaluate in Hx. cbv zeta in Hx.
    match type of Hx with (if ?c then _ else _) = _ => destruct c end.
    - apply retry_skip in Hx. tauto.
    - repeat match type of Hx with (if ?c then _ else _) = _ => destruct c; try discriminate end.
  Qed.

  (* a datagram is skipped only while the retry is unused *)
  Lemma handle_skip : forall q nr ev e, handle open q nr ev = SSkip e -> nr <> 1%nat.
  Proof.
    intros q nr ev e H. unfold handle in H. destruct ev as [b|g].
    - apply retry_skip in H. tauto.
    - destruct (flags_ok q g); cbn [negb] in H; cbv iota in H; [|apply retry_skip in H; tauto].
      destruct (front_check q g); [apply retry_skip in H; tauto|].
      destruct (ntp_decode (g_payload g)) as [h|]; [|apply retry_skip in H; tauto].
      destruct (q_nts q).
      + destruct (nts_check open q (g_payload g)); try discriminate.
        * eapply evaluate_skip; eauto.
        * apply retry_skip in H; tauto.
      + eapply evaluate_skip; eauto.
  Qed.

  (* ---- the loop ---- *)
  Lemma recv_loop_accept_gen : forall q evs nr idx i r,
    (nr <= 1)%nat ->
    recv_loop open q nr idx evs = LAccept i r ->
    (idx <= i)%nat /\ (i - idx + nr <= 1)%nat /\
    exists g h, nth_error evs (i - idx) = Some (EvDgram g) /\ genuine q g h /\ clock_sane q g h /\
                r = result_of q g h /\
    forall j, (j < i - idx)%nat -> exists ev e, nth_error evs j = Some ev /\ handle open q (nr + j) ev = SSkip e.
  Proof.
    intros q evs. induction evs as [|ev rest IH]; intros nr idx i r Hnr H; simpl in H; try discriminate.
    destruct (handle open q nr ev) as [e|e|r'| |] eqn:EH; try discriminate.
    - (* skipped *)
      assert (Hnr0 : nr = 0%nat) by (apply handle_skip in EH; lia).
      subst nr.
      apply IH in H; [|lia]. destruct H as (H1 & H2 & g & h & H3 & H4 & H5 & H6 & H7).
      split; [lia|]. split; [lia|].
      exists g, h. replace (i - idx)%nat with (S (i - S idx)) by lia. simpl.
      split; [exact H3|]. split; [exact H4|]. split; [exact H5|]. split; [exact H6|].
      intros j Hj. destruct j as [|j].
      + exists ev, e. simpl. split; auto.
      + destruct (H7 j) as (ev' & e' & A & B); [lia|]. exists ev', e'. simpl. split; auto.
    - (* accepted here *)
      inversion H; subst. apply handle_accept in EH. destruct EH as (g & h & E & HG & HC & HR).
      split; [lia|]. split; [lia|]. exists g, h. rewrite Nat.sub_diag. simpl. subst ev.
      split; [reflexivity|]. split; [exact HG|]. split; [exact HC|]. split; [exact HR|]. intros j Hj. lia.
  Qed.

  Theorem recv_loop_accept : forall q evs i r,
    recv_loop open q 0 0 evs = LAccept i r ->
    (i <= 1)%nat /\
    exists g h, nth_error evs i = Some (EvDgram g) /\ genuine q g h /\ clock_sane q g h /\ r = result_of q g h /\
    forall j, (j < i)%nat -> exists ev e, nth_error evs j = Some ev /\ handle open q j ev = SSkip e.
  Proof.
    intros q evs i r H. apply recv_loop_accept_gen in H; [|lia].
    destruct H as (_ & H2 & g & h & H3 & H4 & H5 & H6 & H7). rewrite Nat.sub_0_r in *.
    split; [lia|]. exists g, h. split; [exact H3|]. split; [exact H4|]. split; [exact H5|]. split; [exact H6|]. exact H7.
  Qed.

  (* no genuine datagram among the delivered ones: no offset, whatever the
     order, number and content of the datagrams *)
  Theorem recv_loop_others : forall q evs,
    (forall g h, In (EvDgram g) evs -> ~ genuine q g h) ->
    forall i r, recv_loop open q 0 0 evs <> LAccept i r.
  Proof.
    intros q evs HN i r H. apply recv_loop_accept in H.
    destruct H as (_ & g & h & H3 & H4 & _). apply nth_error_In in H3. exact (HN g h H3 H4).
  Qed.

  (* the outcome is decided by the first two events: one failure is skipped,
     a second one ends the call *)
  Theorem recv_loop_two : forall q evs,
    (2 <= length evs)%nat ->
    recv_loop open q 0 0 evs = recv_loop open q 0 0 (firstn 2 evs) /\ recv_loop open q 0 0 evs <> LBlocked.
  Proof.
    intros q evs HL. destruct evs as [|e1 [|e2 rest]]; simpl in HL; try lia.
    simpl. destruct (handle open q 0 e1) eqn:E1; try (split; [reflexivity|discriminate]).
    destruct (handle open q 1 e2) eqn:E2; try (split; [reflexivity|discriminate]).
    exfalso.
    (* a skip with numRetries = 1 is impossible *)
    apply handle_skip in E2. lia.
  Qed.

  (* nothing of a datagram that is not authentic for the request reaches the
     cookie pool: every stored cookie was handed over by a datagram that
     carries the request's identifier and verifies under the S2C key *)
  Theorem loop_cookies_authentic : forall q evs nr c,
    In c (loop_cookies open q nr evs) ->
    exists g cs, In (EvDgram g) evs /\ nts_ok q (g_payload g) /\
                 nts_check open q (g_payload g) = Ok cs /\ In c cs.
  Proof.
    intros q evs. induction evs as [|ev rest IH]; intros nr c H; simpl in H; [contradiction|].
    apply in_app_or in H. destruct H as [H|H].
    - unfold dgram_cookies in H. destruct ev as [b|g]; [contradiction|].
      destruct (q_nts q && flags_ok q g); [|contradiction].
      destruct (front_check q g); [contradiction|].
      destruct (ntp_decode (g_payload g)); [|contradiction].
      destruct (nts_check open q (g_payload g)) as [cs|e| |] eqn:EC; try contradiction.
      exists g, cs. split; [left; reflexivity|]. split; [|split; [exact EC|exact H]].
      apply nts_check_ok. exists cs. exact EC.
    - destruct (handle open q nr ev); try contradiction.
      apply IH in H. destruct H as (g & cs & A & B). exists g, cs. split; [right; exact A|exact B].
  Qed.

  (* ---- one call: MeasureClockOffsetIP ---- *)

  (* the client state after one exchange, and after a list of exchanges: the
     state in which the request of the next exchange is built *)
  Definition next_state (c : config) (st : cstate) (e : xenv) : cstate :=
    match recv_loop open (make_request c st e) 0 0 (e_evs e) with
    | LAccept _ r => update c st e r
    | _ => st
    end.
  Fixpoint state_after (c : config) (st : cstate) (pre : list xenv) : cstate :=
    match pre with
    | [] => st
    | e :: r => state_after c (next_state c st e) r
    end.

  (* [accepted_at c st envs off ts lrs]: the offset and timestamp are those of an
     exchange e of the call, accepted by the receive loop for THE request the
     client built in the state it had reached after the exchanges before e; the
     pair (request, outcome) is the one the run recorded *)
  Definition accepted_at (c : config) (st : cstate) (envs : list xenv) (off ts : Z)
             (lrs : list (request * loop_result)) : Prop :=
    exists pre e post k r,
      envs = pre ++ e :: post /\
      recv_loop open (make_request c (state_after c st pre) e) 0 0 (e_evs e) = LAccept k r /\
      off = r_off r /\ ts = r_crx r /\
      In (make_request c (state_after c st pre) e, LAccept k r) lrs.

  Lemma accepted_at_cons : forall c st e rest off ts l lr,
    accepted_at c (next_state c st e) rest off ts l ->
    accepted_at c st (e :: rest) off ts ((make_request c st e, lr) :: l).
  Proof.
    intros c st e rest off ts l lr (pre & e' & post & k & r & A & B & C & D & E).
    exists (e :: pre), e', post, k, r. subst rest. cbn [state_after app]. repeat split; auto. right. exact E.
  Qed.

  Lemma call_loop_sound : forall c envs st i nerr acc st' off ts lrs,
    call_loop open c st envs i nerr acc = (st', COffset off ts, lrs) ->
    acc = Some (COffset off ts) \/ (acc = None /\ off = 0 /\ ts = 0) \/ accepted_at c st envs off ts lrs.
  Proof.
    intros c envs. induction envs as [|e rest IH]; intros st i nerr acc st' off ts lrs H; simpl in H.
    - destruct acc as [cr|]; inversion H; subst; auto.
    - assert (Hhead : forall k r l, recv_loop open (make_request c st e) 0 0 (e_evs e) = LAccept k r ->
                      accepted_at c st (e :: rest) (r_off r) (r_crx r) ((make_request c st e, LAccept k r) :: l)).
      { intros k r l EL. exists [], e, rest, k, r. cbn [state_after app]. repeat split; auto. left. reflexivity. }
      destruct (recv_loop open (make_request c st e) 0 0 (e_evs e)) as [k r|k er|k|k|] eqn:EL.
      + destruct (in_interleaved_mode c (update c st e r)).
        * inversion H; subst. right. right. apply Hhead. reflexivity.
        * destruct (call_loop open c (update c st e r) rest (S i) nerr (Some (COffset (r_off r) (r_crx r))))
            as [[s2 cr] l] eqn:EC. inversion H; subst.
          apply IH in EC. destruct EC as [EC|[EC|EC]].
          -- inversion EC; subst. right. right. apply Hhead. reflexivity.
          -- destruct EC as [EC _]. discriminate.
          -- right. right. apply accepted_at_cons. unfold next_state. rewrite EL. exact EC.
      + destruct (call_loop open c st rest (S i) (S nerr) (if (nerr =? i)%nat then Some (CError er) else acc))
          as [[s2 cr] l] eqn:EC. inversion H; subst.
        apply IH in EC. destruct EC as [EC|[EC|EC]].
        * destruct (nerr =? i)%nat; [discriminate|]. auto.
        * destruct EC as [EC1 EC2]. destruct (nerr =? i)%nat; [discriminate|]. auto.
        * right. right. apply accepted_at_cons. unfold next_state. rewrite EL. exact EC.
      + inversion H.
      + inversion H.
      + inversion H.
  Qed.

  Lemma In_firstn : forall (A : Type) n (l : list A) x, In x (firstn n l) -> In x l.
  Proof.
    intros A n. induction n as [|n IH]; intros l x H; simpl in H; [contradiction|].
    destruct l as [|a l]; simpl in *; [contradiction|]. destruct H as [H|H]; auto.
  Qed.

  Theorem call_sound : forall c st envs st' off ts lrs,
    envs <> [] ->
    call open c st envs = (st', COffset off ts, lrs) ->
    accepted_at c st (firstn (num_exchanges c) envs) off ts lrs.
  Proof.
    intros c st envs st' off ts lrs HE H. unfold call in H.
    destruct envs as [|e rest]; [contradiction|].
    assert (Hf : exists rest', firstn (num_exchanges c) (e :: rest) = e :: rest').
    { unfold num_exchanges. destruct (c_imode c); simpl; eauto. }
    destruct Hf as [rest' Hf]. rewrite Hf in *. clear Hf.
    simpl in H.
    assert (Hhead : forall k r l, recv_loop open (make_request c st e) 0 0 (e_evs e) = LAccept k r ->
                    accepted_at c st (e :: rest') (r_off r) (r_crx r) ((make_request c st e, LAccept k r) :: l)).
    { intros k r l EL. exists [], e, rest', k, r. cbn [state_after app]. repeat split; auto. left. reflexivity. }
    destruct (recv_loop open (make_request c st e) 0 0 (e_evs e)) as [k r|k er|k|k|] eqn:EL; try (inversion H; fail).
    - destruct (in_interleaved_mode c (update c st e r)).
      + inversion H; subst. apply Hhead. reflexivity.
      + destruct (call_loop open c (update c st e r) rest' 1 0 (Some (COffset (r_off r) (r_crx r)))) as [[s2 cr] l] eqn:EC.
        inversion H; subst. apply call_loop_sound in EC. destruct EC as [EC|[EC|EC]].
        * inversion EC; subst. apply Hhead. reflexivity.
        * destruct EC as [EC _]. discriminate.
        * apply accepted_at_cons. unfold next_state. rewrite EL. exact EC.
    - simpl in H.
      destruct (call_loop open c st rest' 1 1 (Some (CError er))) as [[s2 cr] l] eqn:EC.
      inversion H; subst. apply call_loop_sound in EC. destruct EC as [EC|[EC|EC]].
      + discriminate.
      + destruct EC as [EC _]. discriminate.
      + apply accepted_at_cons. unfold next_state. rewrite EL. exact EC.
  Qed.

  (* an offset reported by a call is the offset of a datagram that was genuine
     for the request outstanding when it arrived - the request built in the
     state the client had actually reached (state_after) - and the exchange is
     the one the run recorded *)
  Theorem call_offset_genuine : forall c st envs st' off ts lrs,
    envs <> [] ->
    call open c st envs = (st', COffset off ts, lrs) ->
    exists pre e post g h i,
      firstn (num_exchanges c) envs = pre ++ e :: post /\
      let q := make_request c (state_after c st pre) e in
      nth_error (e_evs e) i = Some (EvDgram g) /\ (i <= 1)%nat /\
      genuine q g h /\ clock_sane q g h /\ off = r_off (result_of q g h) /\ ts = r_crx (result_of q g h) /\
      In (q, LAccept i (result_of q g h)) lrs.
  Proof.
    intros c st envs st' off ts lrs HE H. apply call_sound in H; auto.
    destruct H as (pre & e & post & i & r & A & B & C & D & E). pose proof B as B'. apply recv_loop_accept in B.
    destruct B as (Hi & g & h & B1 & B2 & B3 & B4 & _). exists pre, e, post, g, h, i. subst r.
    split; [exact A|]. cbv zeta.
    split; [exact B1|]. split; [exact Hi|]. split; [exact B2|]. split; [exact B3|].
    split; [exact C|]. split; [exact D|exact E].
  Qed.

  (* MeasureClockOffsetSCION reports an offset only if its client did *)
  Lemma scion_return_offset : forall cr off ts, scion_return cr = COffset off ts -> cr = COffset off ts.
  Proof. intros cr off ts H. destruct cr; simpl in H; try discriminate; exact H. Qed.

  Theorem scion_call_offset_genuine : forall c st envs st' cr lrs off ts,
    envs <> [] ->
    call open c st envs = (st', cr, lrs) -> scion_return cr = COffset off ts ->
    exists pre e post g h i,
      firstn (num_exchanges c) envs = pre ++ e :: post /\
      let q := make_request c (state_after c st pre) e in
      nth_error (e_evs e) i = Some (EvDgram g) /\ (i <= 1)%nat /\
      genuine q g h /\ clock_sane q g h /\ off = r_off (result_of q g h) /\ ts = r_crx (result_of q g h) /\
      In (q, LAccept i (result_of q g h)) lrs.
  Proof.
    intros c st envs st' cr lrs off ts HE HC HR. apply scion_return_offset in HR. subst cr.
    eapply call_offset_genuine; eauto.
  Qed.

  (* a call without any accepted exchange ends with an error, also through MeasureClockOffsetSCION *)
  Theorem scion_return_error : forall e, exists e', scion_return (CError e) = CError e'.
  Proof. intro e. exists ENoMeasurement. reflexivity. Qed.

  (* ---- histories of one client ---- *)
  Definition calls_nonempty (ops : list hop) : Prop :=
    forall envs, In (HCall envs) ops -> envs <> [].

  (* the state in which a call starts (MeasureClockOffsetSCION resets a client that is not in interleaved mode) *)
  Definition call_entry (c : config) (st : cstate) : cstate :=
    if c_scion c && negb (in_interleaved_mode c st) then reset_state st else st.
  (* the state after a list of operations *)
  Fixpoint hist_state (c : config) (st : cstate) (ops : list hop) : cstate :=
    match ops with
    | [] => st
    | HCall envs :: r => hist_state c (fst (fst (call open c (call_entry c st) envs))) r
    | HReset :: r => hist_state c (reset_state st) r
    end.

  Theorem history_offsets_genuine : forall c ops st off ts lrs,
    calls_nonempty ops ->
    In (COffset off ts, lrs) (history open c st ops) ->
    exists opre envs opost pre e post g h i,
      ops = opre ++ HCall envs :: opost /\
      firstn (num_exchanges c) envs = pre ++ e :: post /\
      let q := make_request c (state_after c (call_entry c (hist_state c st opre)) pre) e in
      nth_error (e_evs e) i = Some (EvDgram g) /\ (i <= 1)%nat /\
      genuine q g h /\ clock_sane q g h /\ off = r_off (result_of q g h) /\ ts = r_crx (result_of q g h) /\
      In (q, LAccept i (result_of q g h)) lrs.
  Proof.
    intros c ops. induction ops as [|op rest IH]; intros st off ts lrs HN H; simpl in H; [contradiction|].
    assert (HN' : calls_nonempty rest).
    { intros envs Hin. apply HN. right. exact Hin. }
    destruct op as [envs|].
    - fold (call_entry c st) in H.
      destruct (call open c (call_entry c st) envs) as [[st' cr] l] eqn:EC. simpl in H. destruct H as [H|H].
      + inversion H; subst. apply call_offset_genuine in EC.
        * destruct EC as (pre & e & post & g & h & i & A & B).
          exists [], envs, rest, pre, e, post, g, h, i. split; [reflexivity|]. split; [exact A|]. exact B.
        * apply HN. left. reflexivity.
      + apply IH in H; auto. destruct H as (opre & envs' & opost & pre & e & post & g & h & i & A & B & C).
        exists (HCall envs :: opre), envs', opost, pre, e, post, g, h, i.
        split; [subst rest; reflexivity|]. split; [exact B|].
        cbn [hist_state]. rewrite EC. exact C.
    - apply IH in H; auto. destruct H as (opre & envs' & opost & pre & e & post & g & h & i & A & B & C).
      exists (HReset :: opre), envs', opost, pre, e, post, g, h, i.
      split; [subst rest; reflexivity|]. split; [exact B|]. exact C.
  Qed.

  (* ---- where the interleaved-mode state comes from ---- *)
  (* the states a client can be in: the initial one, after a mode reset, after an
     exchange accepted for the request built in such a state *)
  Inductive reachable (c : config) : cstate -> Prop :=
  | reach_init : reachable c cstate0
  | reach_reset : forall st, reachable c st -> reachable c (reset_state st)
  | reach_accept : forall st e k r, reachable c st ->
      recv_loop open (make_request c st e) 0 0 (e_evs e) = LAccept k r -> reachable c (update c st e r).

  Lemma reachable_next : forall c st e, reachable c st -> reachable c (next_state c st e).
  Proof.
    intros c st e H. unfold next_state.
    destruct (recv_loop open (make_request c st e) 0 0 (e_evs e)) eqn:EL; auto. eapply reach_accept; eauto.
  Qed.
  Lemma reachable_after : forall c pre st, reachable c st -> reachable c (state_after c st pre).
  Proof. intros c pre. induction pre as [|e r IH]; intros st H; simpl; auto. apply IH. apply reachable_next. exact H. Qed.
  Lemma reachable_entry : forall c st, reachable c st -> reachable c (call_entry c st).
  Proof. intros c st H. unfold call_entry. destruct (c_scion c && negb (in_interleaved_mode c st)); auto. apply reach_reset; exact H. Qed.

  Lemma call_loop_reachable : forall c envs st i nerr acc, reachable c st ->
    reachable c (fst (fst (call_loop open c st envs i nerr acc))).
  Proof.
    intros c envs. induction envs as [|e rest IH]; intros st i nerr acc H; simpl; [exact H|].
    destruct (recv_loop open (make_request c st e) 0 0 (e_evs e)) as [k r|k er|k|k|] eqn:EL; simpl; auto.
    - assert (HR : reachable c (update c st e r)) by (eapply reach_accept; eauto).
      destruct (in_interleaved_mode c (update c st e r)); simpl; auto.
      specialize (IH (update c st e r) (S i) nerr (Some (COffset (r_off r) (r_crx r))) HR).
      destruct (call_loop open c (update c st e r) rest (S i) nerr (Some (COffset (r_off r) (r_crx r)))) as [[s2 cr] l]. exact IH.
    - specialize (IH st (S i) (S nerr) (if (nerr =? i)%nat then Some (CError er) else acc) H).
      destruct (call_loop open c st rest (S i) (S nerr) (if (nerr =? i)%nat then Some (CError er) else acc)) as [[s2 cr] l]. exact IH.
  Qed.
  Lemma reachable_hist : forall c ops st, reachable c st -> reachable c (hist_state c st ops).
  Proof.
    intros c ops. induction ops as [|op r IH]; intros st H; simpl; auto. destruct op as [envs|].
    - apply IH. unfold call. apply call_loop_reachable. apply reachable_entry. exact H.
    - apply IH. apply reach_reset. exact H.
  Qed.

  (* what an interleaved request quotes - c.prev: the server receive timestamp and
     the client's two stamps - was recorded from a datagram that was genuine for
     the request built in an (again reachable) state, in an exchange the receive
     loop accepted: never from a skipped or rejected datagram *)
  Theorem state_provenance : forall c st, reachable c st -> s_has st = true ->
    exists st0 e g h k, reachable c st0 /\
      let q := make_request c st0 e in
      recv_loop open q 0 0 (e_evs e) = LAccept k (result_of q g h) /\
      nth_error (e_evs e) k = Some (EvDgram g) /\ genuine q g h /\ clock_sane q g h /\
      s_srx st = h_rx h /\ s_ctx st = time64_of_time (e_ctx1 e) /\ s_crx st = time64_of_time (crx_of g) /\
      s_il st = is_interleaved q h.
  Proof.
    intros c st H. induction H as [|st H IH|st e k r H IH EL]; intro HS.
    - discriminate.
    - discriminate.
    - unfold update in *. destruct (c_imode c) eqn:EM; [|exact (IH HS)].
      pose proof EL as EL'. apply recv_loop_accept in EL'. destruct EL' as (_ & g & h & B1 & B2 & B3 & B4 & _).
      exists st, e, g, h, k. split; [exact H|]. cbv zeta. subst r.
      split; [exact EL|]. split; [exact B1|]. split; [exact B2|]. split; [exact B3|].
      unfold result_of. destruct (stamps (make_request c st e) g h) as [[[t0 t1] t2] t3]. cbn. auto.
  Qed.

  (* ---- the interleaved request quotes the accepted response ---- *)
  Theorem update_records_response : forall c st e g h,
    c_imode c = true ->
    let q := make_request c st e in
    let st' := update c st e (result_of q g h) in
    s_has st' = true /\ s_srx st' = h_rx h /\ s_il st' = is_interleaved q h /\
    s_ctx st' = time64_of_time (e_ctx1 e) /\ s_crx st' = time64_of_time (crx_of g).
  Proof.
    intros c st e g h Hm q st'. subst st'. unfold update. rewrite Hm.
    unfold result_of. destruct (stamps q g h) as [[[t0 t1] t2] t3]. simpl. auto.
  Qed.

  Theorem interleaved_request_fields : forall c st e,
    let q := make_request c st e in
    (q_ireq q = true -> c_imode c = true /\ s_has st = true /\
                        s_host st = e_server e /\ s_port st = e_port e /\
                        q_rx q = s_crx st /\ q_tx q = s_ctx st /\ q_psrx q = s_srx st) /\
    (q_ireq q = false -> q_rx q = zero64 /\ q_tx q = time64_of_time (e_ref e)).
  Proof.
    intros c st e q. subst q. unfold make_request, wire_rx, wire_tx. simpl.
    destruct (want_interleaved c st e) eqn:E.
    - split; [|intro H; discriminate]. intros _. unfold want_interleaved in E.
      rewrite !andb_true_iff in E. destruct E as ((((E1 & E2) & E3) & E4) & _).
      apply Z.eqb_eq in E3. apply Z.eqb_eq in E4. auto 10.
    - split; [intro H; discriminate|]. auto.
  Qed.

  (* ---- the property oracle holds of the model ---- *)
  (* the server an exchange queries, as one number *)
  Definition sid_of (host port : Z) : Z := host * 65536 + port.
  Definition oreq_of (prev : list (Z * time64)) (q : request) : oreq :=
    {| oq_nts := q_nts q; oq_ireq := q_ireq q; oq_rx := q_rx q; oq_tx := q_tx q;
       oq_sid := sid_of (q_server q) (q_port q); oq_prev := prev; oq_ref := q_ref q |}.

  (* the oracle's history agrees with the client's: an interleaved request quotes, as origin, the receive
     timestamp of a datagram the last successful measurement was based on *)
  Definition prev_ok (prev : list (Z * time64)) (q : request) : Prop :=
    q_ireq q = true -> In (sid_of (q_server q) (q_port q), q_psrx q) prev.

  Definition payload_bytes (g : dgram) : Prop := Forall (fun x => 0 <= x < 256) (g_payload g).

  (* a view of a delivered datagram whose three flags do not understate the facts *)
  Definition faithful (q : request) (g : dgram) (d : oview) : Prop :=
    o_payload d = g_payload g /\
    (front_ok q g -> o_from_server d = true /\ o_spao_ok d = true) /\
    (nts_ok q (g_payload g) -> o_uid_ok d = true /\ o_auth_ok d = true).

  Fixpoint dgrams_of (evs : list event) : list dgram :=
    match evs with
    | [] => []
    | EvErr _ :: r => dgrams_of r
    | EvDgram g :: r => g :: dgrams_of r
    end.

  Definition obs_of (lr : loop_result) : oobs :=
    match lr with
    | LAccept _ r => ObsOffset (r_t0 r) (r_t1 r) (r_t2 r) (r_t3 r) (r_off r)
    | _ => ObsError
    end.

  Lemma nthz_range : forall b i, Forall (fun x => 0 <= x < 256) b -> 0 <= nthz b i < 256.
  Proof.
    intros b i H. unfold nthz. destruct (nth_in_or_default i b 0) as [Hin|Hd].
    - rewrite Forall_forall in H. apply H. exact Hin.
    - rewrite Hd. lia.
  Qed.

  Lemma o_meta_ok_metadata : forall b h,
    Forall (fun x => 0 <= x < 256) b -> ntp_decode b = Some h -> metadata_ok h = true -> o_meta_ok b = true.
  Proof.
    intros b h HB HD HM. unfold ntp_decode in HD. destruct (length b <? 48)%nat; try discriminate.
    inversion HD; subst. clear HD. unfold metadata_ok in HM. simpl in HM. unfold o_meta_ok.
    unfold leap_of, version_of, mode_of in HM.
    pose proof (nthz_range b 0 HB) as R0. pose proof (nthz_range b 1 HB) as R1.
    rewrite !andb_true_iff in HM. destruct HM as ((((H1 & H2) & H3) & H4) & H5).
    rewrite !andb_true_iff. repeat split; auto.
    - apply negb_true_iff in H1. apply negb_true_iff. apply Z.eqb_neq in H1. apply Z.eqb_neq.
      intro Hc. apply H1. rewrite Hc. reflexivity.
    - apply negb_true_iff in H4. apply Z.eqb_neq in H4. apply Z.leb_le. lia.
  Qed.

  Lemma In_dgrams_of : forall evs g, In (EvDgram g) evs -> In g (dgrams_of evs).
  Proof.
    induction evs as [|ev r IH]; intros g H; simpl in *; [contradiction|].
    destruct H as [H|H].
    - subst. simpl. auto.
    - destruct ev; simpl; auto.
  Qed.

  Lemma Forall2_In_l : forall (A B : Type) (R : A -> B -> Prop) l1 l2 a,
    Forall2 R l1 l2 -> In a l1 -> exists b, In b l2 /\ R a b.
  Proof.
    intros A B R l1 l2 a H. induction H as [|x y l1 l2 HR HF IH]; intro Hin; simpl in *; [contradiction|].
    destruct Hin as [Hin|Hin].
    - subst. exists y. auto.
    - destruct (IH Hin) as (b & A1 & A2). exists b. auto.
  Qed.

  (* the datagram an accepted exchange is based on has a view that meets the oracle's clauses *)
  Lemma accepted_view : forall q evs views prev i r,
    Forall payload_bytes (dgrams_of evs) ->
    Forall2 (faithful q) (dgrams_of evs) views ->
    prev_ok prev q ->
    recv_loop open q 0 0 evs = LAccept i r ->
    exists d, In d views /\ o_clauses (oreq_of prev q) d (r_t1 r) (r_t2 r) = true /\
              o_t64 (o_payload d) 32 = r_srx r /\ r_off r = clock_offset (r_t0 r) (r_t1 r) (r_t2 r) (r_t3 r).
  Proof.
    intros q evs views prev i r HB HF HP EL.
    apply recv_loop_accept in EL. destruct EL as (_ & g & h & H1 & HG & HC & HR & _).
    apply nth_error_In in H1. apply In_dgrams_of in H1.
    destruct (Forall2_In_l _ _ _ _ _ _ HF H1) as (d & Hd & (F1 & F2 & F3)).
    rewrite Forall_forall in HB. specialize (HB g H1).
    destruct HG as (G1 & G2 & G3 & G4 & G5 & G6 & G7 & G8).
    exists d. split; [exact Hd|].
    pose proof G4 as G4'. unfold ntp_decode in G4'.
    destruct (length (g_payload g) <? 48)%nat eqn:EL48; try discriminate.
    apply Nat.ltb_ge in EL48.
    assert (Horg : o_t64 (g_payload g) 24 = h_org h) by (inversion G4'; reflexivity).
    assert (Hrx : o_t64 (g_payload g) 32 = h_rx h) by (inversion G4'; reflexivity).
    assert (Htx : o_t64 (g_payload g) 40 = h_tx h) by (inversion G4'; reflexivity).
    split; [|split].
    2:{ rewrite F1, Hrx. subst r. unfold result_of. destruct (stamps q g h) as [[[t0 t1] t2] t3]. reflexivity. }
    2:{ subst r. unfold result_of. destruct (stamps q g h) as [[[t0 t1] t2] t3]. reflexivity. }
    unfold o_clauses. rewrite F1.
    rewrite Horg, Hrx, Htx. unfold oreq_of. cbn [oq_tx oq_rx oq_ireq oq_nts oq_ref oq_prev oq_sid].
    apply metadata_ok_valid in G7.
    assert (Hnts : (if q_nts q then o_uid_ok d && o_auth_ok d else true) = true).
    { destruct (q_nts q) eqn:EN; [|reflexivity]. destruct (F3 (G5 eq_refl)) as [A B]. rewrite A, B. reflexivity. }
    assert (Hor : t64_eqb (h_org h) (q_tx q) || q_ireq q && t64_eqb (h_org h) (q_rx q) = true).
    { destruct G6 as [G6|[G6a G6b]].
      - apply t64_eqb_eq in G6. rewrite G6. reflexivity.
      - apply t64_eqb_eq in G6b. rewrite G6a, G6b. apply orb_true_r. }
    assert (Hst : r_t2 r = time_of_time64 (h_tx h) (q_ref q) /\ r_t1 r <= r_t2 r /\
                  (r_t1 r = time_of_time64 (h_rx h) (q_ref q) \/
                   (q_ireq q && t64_eqb (h_org h) (q_rx q) = true /\ r_t1 r = time_of_time64 (q_psrx q) (q_ref q)))).
    { subst r. unfold tx_not_before_rx in G8. unfold result_of. unfold stamps in *.
      fold (is_interleaved q h). destruct (is_interleaved q h) eqn:EI; cbn [r_t1 r_t2].
      - split; [reflexivity|]. split; [exact G8|]. right. split; [reflexivity|reflexivity].
      - split; [reflexivity|]. split; [exact G8|]. left. reflexivity. }
    destruct Hst as (S1 & S2 & S3).
    rewrite !andb_true_iff. repeat split.
    - exact (proj1 (F2 G3)).
    - exact (proj2 (F2 G3)).
    - apply Nat.leb_le. exact EL48.
    - exact Hor.
    - exact (o_meta_ok_metadata _ _ HB G4 G7).
    - exact Hnts.
    - apply Z.eqb_eq. exact S1.
    - apply orb_true_iff. destruct S3 as [S3|[S3a S3b]].
      + left. apply Z.eqb_eq. exact S3.
      + right. rewrite S3a. cbn [andb]. apply existsb_exists. exists (sid_of (q_server q) (q_port q), q_psrx q). split.
        * apply HP. apply andb_true_iff in S3a. tauto.
        * cbn [fst snd]. rewrite Z.eqb_refl. cbn [andb]. apply Z.eqb_eq. exact S3b.
    - apply Z.leb_le. exact S2.
  Qed.

  Theorem oracle_holds_of_model : forall q evs views prev,
    Forall payload_bytes (dgrams_of evs) ->
    Forall2 (faithful q) (dgrams_of evs) views ->
    prev_ok prev q ->
    C05_ok (oreq_of prev q) views (obs_of (recv_loop open q 0 0 evs)) = true.
  Proof.
    intros q evs views prev HB HF HP.
    destruct (recv_loop open q 0 0 evs) as [i r|i e|i|i|] eqn:EL; simpl; try reflexivity.
    destruct (accepted_view q evs views prev i r HB HF HP EL) as (d & Hd & HC & _ & HO).
    apply andb_true_iff. split.
    - apply existsb_exists. exists d. auto.
    - apply Z.eqb_eq. exact HO.
  Qed.

  (* after a success the oracle's history holds the receive timestamp the client keeps for interleaved mode *)
  Lemma basis_contains : forall q evs views prev i r,
    Forall payload_bytes (dgrams_of evs) ->
    Forall2 (faithful q) (dgrams_of evs) views ->
    prev_ok prev q ->
    recv_loop open q 0 0 evs = LAccept i r ->
    In (sid_of (q_server q) (q_port q), r_srx r) (C05_basis (oreq_of prev q) views (obs_of (LAccept i r))).
  Proof.
    intros q evs views prev i r HB HF HP EL.
    destruct (accepted_view q evs views prev i r HB HF HP EL) as (d & Hd & HC & HS & _).
    simpl. rewrite <- HS.
    apply (in_map (fun d0 : oview => (sid_of (q_server q) (q_port q), o_t64 (o_payload d0) 32))). apply filter_In. auto.
  Qed.

  (* ---- the oracle with its own history, along the exchanges of a call and along a history of calls ---- *)
  Section OracleHistory.
    (* the views handed to the oracle for the datagrams of an exchange, whichever request is outstanding *)
    Variable views : request -> xenv -> list oview.
    Definition views_faithful (e : xenv) : Prop :=
      Forall payload_bytes (dgrams_of (e_evs e)) /\
      forall q, Forall2 (faithful q) (dgrams_of (e_evs e)) (views q e).

    (* the oracle (verdict, client state, oracle history) along the exchanges of call_loop *)
    Fixpoint oracle_call (c : config) (st : cstate) (envs : list xenv) (prev : list (Z * time64)) : bool * cstate * list (Z * time64) :=
      match envs with
      | [] => (true, st, prev)
      | e :: rest =>
          let q := make_request c st e in
          let lr := recv_loop open q 0 0 (e_evs e) in
          let ok := C05_ok (oreq_of prev q) (views q e) (obs_of lr) in
          let prev' := C05_basis (oreq_of prev q) (views q e) (obs_of lr) in
          match lr with
          | LAccept _ r =>
              let st' := update c st e r in
              if in_interleaved_mode c st' then (ok, st', prev')
              else let '(b, s2, p) := oracle_call c st' rest prev' in (ok && b, s2, p)
          | LFail _ _ => let '(b, s2, p) := oracle_call c st rest prev' in (ok && b, s2, p)
          | _ => (ok, st, prev')
          end
      end.

    (* the client's interleaved-mode state is backed by the oracle's history *)
    Definition hist_inv (c : config) (st : cstate) (prev : list (Z * time64)) : Prop :=
      c_imode c = true -> s_has st = true -> In (sid_of (s_host st) (s_port st), s_srx st) prev.

    Lemma hist_inv_request : forall c st e prev, hist_inv c st prev -> prev_ok prev (make_request c st e).
    Proof.
      intros c st e prev HI HQ. unfold make_request in *. cbn [q_ireq q_psrx q_server q_port] in *.
      unfold want_interleaved in HQ. rewrite !andb_true_iff in HQ. destruct HQ as ((((H1 & H2) & H3) & H4) & _).
      apply Z.eqb_eq in H3. apply Z.eqb_eq in H4. rewrite <- H3, <- H4. exact (HI H1 H2).
    Qed.

    Theorem oracle_call_holds : forall c envs st prev i nerr acc,
      Forall views_faithful envs -> hist_inv c st prev ->
      let '(b, s2, p) := oracle_call c st envs prev in
      b = true /\ hist_inv c s2 p /\ s2 = fst (fst (call_loop open c st envs i nerr acc)).
    Proof.
      intros c envs. induction envs as [|e rest IH]; intros st prev i nerr acc HV HI.
      - simpl. auto.
      - inversion HV as [|e' r' [HB HF] HV']; subst.
        pose proof (hist_inv_request c st e prev HI) as HP.
        pose proof (oracle_holds_of_model (make_request c st e) (e_evs e) (views (make_request c st e) e) prev HB (HF _) HP) as HO.
        cbn [oracle_call call_loop].
        destruct (recv_loop open (make_request c st e) 0 0 (e_evs e)) as [k r|k er|k|k|] eqn:EL.
        + pose proof (basis_contains _ _ _ prev k r HB (HF _) HP EL) as HC.
          assert (HI' : hist_inv c (update c st e r) (C05_basis (oreq_of prev (make_request c st e)) (views (make_request c st e) e) (obs_of (LAccept k r)))).
          { intros HM HS. unfold update in *. rewrite HM in *. cbn [s_srx s_host s_port]. exact HC. }
          destruct (in_interleaved_mode c (update c st e r)).
          * split; [exact HO|]. split; [exact HI'|reflexivity].
          * specialize (IH (update c st e r) _ (S i) nerr (Some (COffset (r_off r) (r_crx r))) HV' HI').
            destruct (oracle_call c (update c st e r) rest _) as [[b s2] p].
            destruct (call_loop open c (update c st e r) rest (S i) nerr (Some (COffset (r_off r) (r_crx r)))) as [[s3 cr] l].
            destruct IH as (A & B & C). cbn [fst] in *. rewrite HO, A. auto.
        + assert (HI' : hist_inv c st (C05_basis (oreq_of prev (make_request c st e)) (views (make_request c st e) e) (obs_of (LFail k er)))).
          { exact HI. }
          specialize (IH st _ (S i) (S nerr) (if (nerr =? i)%nat then Some (CError er) else acc) HV' HI').
          destruct (oracle_call c st rest _) as [[b s2] p].
          destruct (call_loop open c st rest (S i) (S nerr) (if (nerr =? i)%nat then Some (CError er) else acc)) as [[s3 cr] l].
          destruct IH as (A & B & C). cbn [fst] in *. rewrite HO, A. auto.
        + split; [exact HO|]. split; [exact HI|reflexivity].
        + split; [exact HO|]. split; [exact HI|reflexivity].
        + split; [exact HO|]. split; [exact HI|reflexivity].
    Qed.

    (* ... and along a history of calls and mode resets of one client *)
    Fixpoint oracle_history (c : config) (st : cstate) (ops : list hop) (prev : list (Z * time64)) : bool :=
      match ops with
      | [] => true
      | HCall envs :: rest =>
          let st0 := if c_scion c && negb (in_interleaved_mode c st) then reset_state st else st in
          let '(b, s2, p) := oracle_call c st0 (firstn (num_exchanges c) envs) prev in
          b && oracle_history c s2 rest p
      | HReset :: rest => oracle_history c (reset_state st) rest prev
      end.

    Definition ops_faithful (ops : list hop) : Prop :=
      forall envs, In (HCall envs) ops -> Forall views_faithful envs.

    Lemma hist_inv_reset : forall c st prev, hist_inv c (reset_state st) prev.
    Proof. intros c st prev _ H. discriminate. Qed.

    Lemma Forall_firstn : forall (A : Type) (P : A -> Prop) n l, Forall P l -> Forall P (firstn n l).
    Proof.
      intros A P n l H. rewrite Forall_forall in *. intros x Hx. apply H. exact (In_firstn _ _ _ _ Hx).
    Qed.

    Theorem oracle_history_holds : forall c ops st prev,
      ops_faithful ops -> hist_inv c st prev -> oracle_history c st ops prev = true.
    Proof.
      intros c ops. induction ops as [|op rest IH]; intros st prev HF HI; [reflexivity|].
      assert (HFr : ops_faithful rest) by (intros envs Hin; apply HF; right; exact Hin).
      destruct op as [envs|]; cbn [oracle_history].
      - set (st0 := if c_scion c && negb (in_interleaved_mode c st) then reset_state st else st).
        assert (HI0 : hist_inv c st0 prev).
        { unfold st0. destruct (c_scion c && negb (in_interleaved_mode c st)); [apply hist_inv_reset|exact HI]. }
        assert (HV : Forall views_faithful (firstn (num_exchanges c) envs)).
        { apply Forall_firstn. apply HF. left. reflexivity. }
        pose proof (oracle_call_holds c (firstn (num_exchanges c) envs) st0 prev 0%nat 0%nat None HV HI0) as H.
        destruct (oracle_call c st0 (firstn (num_exchanges c) envs) prev) as [[b s2] p].
        destruct H as (A & B & _). rewrite A. cbn [andb]. apply IH; assumption.
      - apply IH; [exact HFr|apply hist_inv_reset].
    Qed.

    (* the state the oracle run carries is the model's: after a call it is the state [call] returns *)
    Theorem oracle_call_state : forall c st envs prev,
      Forall views_faithful (firstn (num_exchanges c) envs) -> hist_inv c st prev ->
      snd (fst (oracle_call c st (firstn (num_exchanges c) envs) prev)) = fst (fst (call open c st envs)).
    Proof.
      intros c st envs prev HV HI. unfold call.
      pose proof (oracle_call_holds c (firstn (num_exchanges c) envs) st prev 0%nat 0%nat None HV HI) as H.
      destruct (oracle_call c st (firstn (num_exchanges c) envs) prev) as [[b s2] p]. destruct H as (_ & _ & H). exact H.
    Qed.
  End OracleHistory.

  (* a datagram from the server's address but another UDP port does not come from the queried server *)
  Theorem other_port_not_accepted : forall q nr g src sport,
    g_front g = FrontIP src sport -> sport <> q_port q -> forall r, handle open q nr (EvDgram g) <> SAccept r.
  Proof.
    intros q nr g src sport E HP. apply handle_not_genuine. intros h (_ & _ & G3 & _).
    unfold front_ok in G3. rewrite E in G3. destruct G3 as [_ G3]. contradiction.
  Qed.

  (* ---- the SCION packet authenticator (SPAO, DRKey host-host key) ---- *)

  (* the checks of the SCION client that precede the authenticator: the parse
     succeeded, a SCION/UDP packet not shorter than it says, from the queried
     ISD-AS and host, addressed to the client *)
  Definition scion_pre_ok (q : request) (v : scion_view) : Prop :=
    sv_decode_ok v = true /\ 2 <= sv_nlayers v /\ sv_last v = 0 /\ sv_len_ok v = true /\
    sv_src_ia v = q_server_ia q /\ sv_src_host v = Some (q_server q) /\
    sv_dst_ia v = q_local_ia q /\ sv_dst_host v = Some (q_local q).

  (* the client holds the host-host key and the datagram carries, in an
     end-to-end extension, an authenticator for the server's SPI and algorithm
     whose MAC does not verify (or cannot be computed) *)
  Definition spao_bad (q : request) (g : dgram) : Prop :=
    exists v, g_front g = FrontSCION v /\ sv_e2e v = true /\ q_authkey q = true /\ sv_auth v = AuthMac false.

  Lemma spao_bad_not_front_ok : forall q g, spao_bad q g -> ~ front_ok q g.
  Proof.
    intros q g (v & E & A & B & C) H. unfold front_ok in H. rewrite E in H.
    destruct H as (_ & _ & _ & _ & _ & _ & _ & _ & H). exact (H A B C).
  Qed.

  (* wrong MAC: never an offset, whatever the rest of the datagram says *)
  Theorem spao_bad_not_accepted : forall q g, spao_bad q g -> forall nr r, handle open q nr (EvDgram g) <> SAccept r.
  Proof.
    intros q g HB nr. apply handle_not_genuine. intros h (_ & _ & G3 & _).
    exact (spao_bad_not_front_ok q g HB G3).
  Qed.

  Lemma front_check_spao_bad : forall q g v,
    g_front g = FrontSCION v -> scion_pre_ok q v ->
    sv_e2e v = true -> q_authkey q = true -> sv_auth v = AuthMac false ->
    front_check q g = Some EScionAuth.
  Proof.
    intros q g v E (P1 & P2 & P3 & P4 & P5 & P6 & P7 & P8) A B C.
    unfold front_check. rewrite E, P1, P3, P4, P5, P6, P7, P8, A, B, C.
    apply Z.leb_le in P2. rewrite P2. rewrite !Z.eqb_refl. simpl. rewrite !Z.eqb_refl. reflexivity.
  Qed.

  (* wrong MAC on a datagram that is otherwise from the server: errInvalidPacketAuthenticator
     under the one-retry rule *)
  Theorem spao_bad_error : forall q nr g v,
    flags_ok q g = true -> g_front g = FrontSCION v -> scion_pre_ok q v ->
    sv_e2e v = true -> q_authkey q = true -> sv_auth v = AuthMac false ->
    handle open q nr (EvDgram g) = retry q nr (g_before g) EScionAuth.
  Proof.
    intros q nr g v HF E HP A B C. unfold handle. rewrite HF. simpl.
    rewrite (front_check_spao_bad q g v E HP A B C). reflexivity.
  Qed.

  (* [bad_mac q g]: everything the client checks before the authenticator is in order and the MAC is wrong *)
  Definition bad_mac (q : request) (g : dgram) : Prop :=
    flags_ok q g = true /\
    exists v, g_front g = FrontSCION v /\ scion_pre_ok q v /\ sv_e2e v = true /\ q_authkey q = true /\ sv_auth v = AuthMac false.

  Lemma bad_mac_handle : forall q nr g, bad_mac q g -> handle open q nr (EvDgram g) = retry q nr (g_before g) EScionAuth.
  Proof. intros q nr g (HF & v & E & HP & A & B & C). exact (spao_bad_error q nr g v HF E HP A B C). Qed.

  (* two wrong MACs in one measurement: the retry is used up, the call ends with the
     authenticator error whatever follows (the genuine response included) *)
  Theorem spao_two_bad : forall q g1 g2 rest,
    bad_mac q g1 -> bad_mac q g2 ->
    recv_loop open q 0 0 (EvDgram g1 :: EvDgram g2 :: rest) =
    if q_deadline q && g_before g1 then LFail 1 EScionAuth else LFail 0 EScionAuth.
  Proof.
    intros q g1 g2 rest H1 H2. cbn [recv_loop].
    rewrite (bad_mac_handle q 0 g1 H1). unfold retry at 1. cbn [Nat.eqb negb andb].
    destruct (q_deadline q && g_before g1) eqn:E.
    - rewrite (bad_mac_handle q 1 g2 H2). unfold retry. cbn [Nat.eqb negb andb]. reflexivity.
    - reflexivity.
  Qed.

  (* wrong MAC, then the genuine response (deadline set and not reached): skipped, accepted *)
  Theorem spao_bad_then_genuine : forall q g1 g2 h rest,
    bad_mac q g1 -> q_deadline q = true -> g_before g1 = true ->
    genuine q g2 h -> clock_sane q g2 h ->
    recv_loop open q 0 0 (EvDgram g1 :: EvDgram g2 :: rest) = LAccept 1 (result_of q g2 h).
  Proof.
    intros q g1 g2 h rest H1 HD HB HG HC. cbn [recv_loop].
    rewrite (bad_mac_handle q 0 g1 H1). unfold retry. cbn [Nat.eqb negb andb]. rewrite HD, HB. cbn [andb].
    rewrite (handle_genuine q 1 g2 h HG HC). reflexivity.
  Qed.

  (* the request of a client without the host-host key *)
  Definition without_authkey (q : request) : request :=
    {| q_scion := q_scion q; q_server := q_server q; q_port := q_port q; q_server_ia := q_server_ia q; q_local_ia := q_local_ia q;
       q_local := q_local q; q_authkey := false; q_bufcap := q_bufcap q; q_deadline := q_deadline q;
       q_nts := q_nts q; q_uid := q_uid q; q_s2c := q_s2c q; q_ireq := q_ireq q; q_rx := q_rx q; q_tx := q_tx q;
       q_ref := q_ref q; q_ctx1 := q_ctx1 q; q_pctx := q_pctx q; q_psrx := q_psrx q; q_pcrx := q_pcrx q |}.

  (* a datagram without an authenticator the client looks at (none, other SPI /
     algorithm / length, no end-to-end extension), or with one whose MAC verifies,
     is handled by the client that holds the key exactly as by a client without
     key: a response is NOT required to be authenticated *)
  Theorem spao_absent_as_without_key : forall q nr g,
    (forall v, g_front g = FrontSCION v -> sv_e2e v = true -> sv_auth v <> AuthMac false) ->
    handle open q nr (EvDgram g) = handle open (without_authkey q) nr (EvDgram g).
  Proof.
    intros q nr g HA.
    assert (HFC : front_check q g = front_check (without_authkey q) g).
    { unfold front_check. destruct (g_front g) as [src sport|v] eqn:E; [reflexivity|].
      cbn [without_authkey q_server_ia q_server q_local_ia q_local q_authkey].
      destruct (sv_e2e v) eqn:E2; [|reflexivity].
      destruct (q_authkey q); [|reflexivity].
      specialize (HA v eq_refl E2).
      destruct (sv_auth v) as [|[|]]; try reflexivity. exfalso. apply HA. reflexivity. }
    unfold handle. rewrite <- HFC. reflexivity.
  Qed.

  (* what an accepted datagram of the SCION client has passed *)
  Theorem scion_accept_clauses : forall q evs i r g v,
    recv_loop open q 0 0 evs = LAccept i r -> nth_error evs i = Some (EvDgram g) -> g_front g = FrontSCION v ->
    scion_pre_ok q v /\
    (sv_e2e v = true -> q_authkey q = true -> sv_auth v <> AuthMac false) /\
    (q_nts q = true -> nts_ok q (g_payload g)).
  Proof.
    intros q evs i r g v HL HN E. apply recv_loop_accept in HL.
    destruct HL as (_ & g' & h & H1 & HG & _). rewrite HN in H1. inversion H1; subst g'. clear H1.
    destruct HG as (_ & _ & G3 & _ & G5 & _). unfold front_ok in G3. rewrite E in G3.
    destruct G3 as (A1 & A2 & A3 & A4 & A5 & A6 & A7 & A8 & A9).
    split; [unfold scion_pre_ok; tauto|]. split; [exact A9|exact G5].
  Qed.

  (* ---- the clauses of [genuine], spelled out per transport ---- *)
  Theorem genuine_clauses : forall q g h,
    genuine q g h ->
    (48 <= length (g_payload g))%nat /\
    h_org h = {| t64_sec := be32 (g_payload g) 24; t64_frac := be32 (g_payload g) 28 |} /\
    h_rx h = {| t64_sec := be32 (g_payload g) 32; t64_frac := be32 (g_payload g) 36 |} /\
    h_tx h = {| t64_sec := be32 (g_payload g) 40; t64_frac := be32 (g_payload g) 44 |} /\
    h_lvm h = nthz (g_payload g) 0 /\ h_stratum h = nthz (g_payload g) 1 /\
    (h_org h = q_tx q \/ (q_ireq q = true /\ h_org h = q_rx q)) /\
    leap_of (h_lvm h) <> 3 /\ (version_of (h_lvm h) = 3 \/ version_of (h_lvm h) = 4) /\ mode_of (h_lvm h) = 4 /\
    h_stratum h <> 0 /\ h_stratum h <= 15 /\
    (is_interleaved q h = false ->
       time_of_time64 (h_rx h) (q_ref q) <= time_of_time64 (h_tx h) (q_ref q)) /\
    (is_interleaved q h = true ->
       time_of_time64 (q_psrx q) (q_ref q) <= time_of_time64 (h_tx h) (q_ref q)) /\
    (forall src sport, g_front g = FrontIP src sport -> src = q_server q /\ sport = q_port q) /\
    (forall v, g_front g = FrontSCION v ->
       sv_last v = 0 /\ sv_src_ia v = q_server_ia q /\ sv_src_host v = Some (q_server q) /\
       sv_dst_ia v = q_local_ia q /\ sv_dst_host v = Some (q_local q)).
  Proof.
    intros q g h (G1 & G2 & G3 & G4 & G5 & G6 & G7 & G8).
    unfold ntp_decode in G4. destruct (length (g_payload g) <? 48)%nat eqn:EL; try discriminate.
    apply Nat.ltb_ge in EL. inversion G4; subst h. clear G4. cbn [h_org h_rx h_tx h_lvm h_stratum] in *.
    destruct G7 as (M1 & M2 & M3 & M4 & M5). cbn [h_lvm h_stratum] in *.
    split; [exact EL|]. split; [reflexivity|]. split; [reflexivity|]. split; [reflexivity|].
    split; [reflexivity|]. split; [reflexivity|]. split; [exact G6|].
    split; [exact M1|]. split; [exact M2|]. split; [exact M3|]. split; [exact M4|]. split; [exact M5|].
    unfold tx_not_before_rx, stamps in G8.
    split; [intro EI; rewrite EI in G8; exact G8|].
    split; [intro EI; rewrite EI in G8; exact G8|].
    unfold front_ok in G3.
    split.
    - intros src sport E. rewrite E in G3. exact G3.
    - intros v E. rewrite E in G3. destruct G3 as (_ & _ & A & _ & B & C & D & F & _). auto.
  Qed.
End Proofs.

(* ---- symbolic AEAD: what "verifies" means for an ideal cipher ---- *)
Section Ideal.
  Variable open : bytes -> bytes -> bytes -> bytes -> option bytes.
  (* sealed k n ad pt ct: the holder of key k produced ciphertext ct for
     plaintext pt with exactly the associated data ad under nonce n *)
  Variable sealed : bytes -> bytes -> bytes -> bytes -> bytes -> Prop.
  Hypothesis open_only_sealed : forall k n ad ct pt, open k n ad ct = Some pt -> sealed k n ad pt ct.

  (* an accepted datagram of an NTS exchange: everything before its
     authenticator field - the NTP header with all its timestamps and the
     unique identifier, which is the request's - is exactly what a holder of
     the server-to-client key sealed *)
  Theorem nts_accept_authentic : forall q evs i r,
    q_nts q = true ->
    recv_loop open q 0 0 evs = LAccept i r ->
    exists g p pt, nth_error evs i = Some (EvDgram g) /\ decode_packet (g_payload g) = Ok p /\
      p_uid p = q_uid q /\ (48 <= p_pos p <= length (g_payload g))%nat /\
      sealed (q_s2c q) (p_nonce p) (firstn (p_pos p) (g_payload g)) pt (p_ct p).
  Proof.
    intros q evs i r HN H. apply recv_loop_accept in H.
    destruct H as (_ & g & h & H1 & HG & _).
    destruct HG as (_ & _ & _ & _ & G5 & _). destruct (G5 HN) as (p & pt & cs & A & B & C & D & E & F & G).
    exists g, p, pt. split; [exact H1|]. split; [exact A|]. split; [exact B|].
    split; [|apply open_only_sealed; exact F]. split; [|exact E].
    (* the authenticator lies behind the NTP header: the decode loop starts at 48 and only moves forward *)
    clear - A.
    unfold decode_packet in A. destruct (MaxPacketLen <? length (g_payload g))%nat; try discriminate.
    remember (g_payload g) as b.
    assert (HL : forall fuel pos s s', decode_loop fuel b pos s = Ok s' ->
                 (d_auth s = true -> (48 <= p_pos (d_pkt s))%nat) -> (48 <= pos)%nat ->
                 d_auth s' = true -> (48 <= p_pos (d_pkt s'))%nat).
    { induction fuel as [|f IH]; intros pos s s' HD Hs Hp Ha; simpl in HD.
      - destruct (decode_continue b pos s); [discriminate|]. inversion HD; subst. auto.
      - destruct (decode_continue b pos s) eqn:EC.
        + destruct (decode_field b pos s) as [[next s1]|e| |] eqn:EF; try discriminate.
          apply IH in HD; auto.
          * unfold decode_field in EF.
            destruct (be16 b (pos + 2) <? 4); try discriminate.
            destruct (be16 b pos =? extUniqueIdentifier).
            { destruct (be16 b (pos + 2) - 4 <? 32); try discriminate. inversion EF; subst. simpl. exact Hs. }
            destruct (be16 b pos =? extAuthenticator).
            { destruct (unpack_auth b (pos + 4)). inversion EF; subst. simpl. intros _. exact Hp. }
            destruct (be16 b pos =? extCookie); inversion EF; subst; simpl; exact Hs.
          * unfold decode_field in EF.
            destruct (be16 b (pos + 2) <? 4); try discriminate.
            destruct (be16 b pos =? extUniqueIdentifier).
            { destruct (be16 b (pos + 2) - 4 <? 32); try discriminate. inversion EF; subst. lia. }
            destruct (be16 b pos =? extAuthenticator).
            { destruct (unpack_auth b (pos + 4)). inversion EF; subst. lia. }
            destruct (be16 b pos =? extCookie); inversion EF; subst; lia.
        + inversion HD; subst. auto. }
    destruct (decode_loop (length b) b ntpPacketLen {| d_pkt := packet0; d_uid := false; d_auth := false |}) as [s| | |] eqn:EL;
      try discriminate.
    destruct (d_uid s); simpl in A; try discriminate.
    destruct (d_auth s) eqn:EA; simpl in A; try discriminate.
    inversion A; subst p. eapply HL; eauto.
    simpl. intro Hc. discriminate.
  Qed.
End Ideal.

(* ---- the cookie pool: Fetcher.StoreCookie keeps at most eight cookies and invents none ---- *)
Lemma store_cookies_bound : forall cs pool, (length pool <= 8)%nat -> (length (store_cookies pool cs) <= 8)%nat.
Proof.
  unfold store_cookies. induction cs as [|c cs IH]; intros pool H; simpl; [exact H|]. apply IH.
  unfold store_cookie. destruct (896 <? length c)%nat; [exact H|].
  destruct (8 <=? length pool)%nat eqn:E; [exact H|]. apply Nat.leb_gt in E. rewrite app_length. simpl. lia.
Qed.

Lemma store_cookies_from : forall cs pool c, In c (store_cookies pool cs) -> In c pool \/ In c cs.
Proof.
  unfold store_cookies. induction cs as [|x cs IH]; intros pool c H; simpl in *; [auto|].
  apply IH in H. destruct H as [H|H]; [|auto]. unfold store_cookie in H.
  destruct (896 <? length x)%nat; [auto|]. destruct (8 <=? length pool)%nat; [auto|].
  apply in_app_or in H. destruct H as [H|[H|[]]]; auto.
Qed.

(* ---- the timestamps that enter a measurement are those of the authenticated header ---- *)
Lemma nth_firstn_lt : forall (l : list Z) n i d, (i < n)%nat -> nth i (firstn n l) d = nth i l d.
Proof.
  induction l as [|x l IH]; intros n i d H.
  - rewrite firstn_nil. reflexivity.
  - destruct n as [|n]; [inversion H|]. destruct i as [|i]; simpl; [reflexivity|]. apply IH. apply Nat.succ_lt_mono. exact H.
Qed.

Lemma be32_firstn : forall b n pos, (pos + 4 <= n)%nat -> be32 (firstn n b) pos = be32 b pos.
Proof.
  intros b n pos H. unfold be32, nthz.
  rewrite !nth_firstn_lt by lia. reflexivity.
Qed.

Section Authenticated.
  Variable open : bytes -> bytes -> bytes -> bytes -> option bytes.

  (* An accepted exchange: the reported server transmit time (and, unless the response is an
     interleaved one, the receive time; always the receive timestamp kept for interleaved mode) are
     the fields of the NTP header at the start of the payload as parsed (g_payload: over SCION
     udpLayer.Payload), and with NTS that header is part of the associated data that opened under the
     server-to-client key: the same bytes, read from the authenticated prefix, give the same times *)
  Theorem accept_timestamps_authenticated : forall q evs i r,
    recv_loop open q 0 0 evs = LAccept i r ->
    exists g h, nth_error evs i = Some (EvDgram g) /\ ntp_decode (g_payload g) = Some h /\
      r_t2 r = time_of_time64 (h_tx h) (q_ref q) /\
      (is_interleaved q h = false -> r_t1 r = time_of_time64 (h_rx h) (q_ref q)) /\
      r_srx r = h_rx h /\
      (q_nts q = true ->
         exists p pt, decode_packet (g_payload g) = Ok p /\ (48 <= p_pos p <= length (g_payload g))%nat /\
           open (q_s2c q) (p_nonce p) (firstn (p_pos p) (g_payload g)) (p_ct p) = Some pt /\
           let ad := firstn (p_pos p) (g_payload g) in
           h_org h = {| t64_sec := be32 ad 24; t64_frac := be32 ad 28 |} /\
           h_rx h = {| t64_sec := be32 ad 32; t64_frac := be32 ad 36 |} /\
           h_tx h = {| t64_sec := be32 ad 40; t64_frac := be32 ad 44 |}).
  Proof.
    intros q evs i r H. pose proof H as H0. apply recv_loop_accept in H.
    destruct H as (_ & g & h & H1 & HG & _ & HR & _). exists g, h.
    pose proof HG as (_ & _ & _ & G4 & _).
    split; [exact H1|]. split; [exact G4|].
    assert (HS : r_t2 r = time_of_time64 (h_tx h) (q_ref q) /\
                 (is_interleaved q h = false -> r_t1 r = time_of_time64 (h_rx h) (q_ref q)) /\ r_srx r = h_rx h).
    { subst r. unfold result_of, stamps. destruct (is_interleaved q h); cbn; repeat split; auto; intro Hc; discriminate. }
    destruct HS as (S1 & S2 & S3). split; [exact S1|]. split; [exact S2|]. split; [exact S3|].
    intro HN.
    destruct (nts_accept_authentic open (fun k n ad pt ct => open k n ad ct = Some pt) (fun k n ad ct pt E => E) q evs i r HN H0)
      as (g' & p & pt & A1 & A2 & _ & A4 & A5).
    rewrite H1 in A1. inversion A1; subst g'. exists p, pt. split; [exact A2|]. split; [exact A4|]. split; [exact A5|].
    cbv zeta. unfold ntp_decode in G4. destruct (length (g_payload g) <? 48)%nat; [discriminate|].
    inversion G4; subst h. cbn [h_org h_rx h_tx]. destruct A4 as [A4 _].
    rewrite !be32_firstn by lia. auto.
  Qed.
End Authenticated.

(* ---- auth_modes -> client flags (Model/AuthModes.v) ---- *)
From ST Require Import Model.AuthModes.
From Coq Require Import Permutation.

Lemma has_mode_In : forall m modes, has_mode m modes = true <-> In m modes.
Proof.
  intros m modes. unfold has_mode. rewrite existsb_exists. split.
  - intros (x & Hx & E). apply Z.eqb_eq in E. subst. exact Hx.
  - intro H. exists m. split; [exact H|apply Z.eqb_refl].
Qed.

(* membership only: the order of auth_modes, repetitions and unknown entries do not matter *)
Theorem has_mode_perm : forall m l1 l2, (forall x, In x l1 <-> In x l2) -> has_mode m l1 = has_mode m l2.
Proof.
  intros m l1 l2 H. destruct (has_mode m l1) eqn:E1; destruct (has_mode m l2) eqn:E2; auto.
  - apply has_mode_In in E1. apply H in E1. apply has_mode_In in E1. congruence.
  - apply has_mode_In in E2. apply H in E2. apply has_mode_In in E2. congruence.
Qed.

Theorem wired_client_perm : forall l1 l2 daemon scion,
  (forall x, In x l1 <-> In x l2) -> wired_client l1 daemon scion = wired_client l2 daemon scion.
Proof.
  intros l1 l2 daemon scion H. unfold wired_client.
  rewrite (has_mode_perm mode_nts l1 l2 H), (has_mode_perm mode_spao l1 l2 H). reflexivity.
Qed.

(* NTS configured <-> NTS on at every client the service builds, with the fetcher of its server *)
Theorem wired_client_nts : forall modes daemon scion,
  a_nts (wired_client modes daemon scion) = true <-> In mode_nts modes.
Proof.
  intros modes daemon scion. rewrite <- has_mode_In. unfold wired_client.
  destruct scion; simpl; tauto.
Qed.

Theorem cfg_oracle_holds_of_model : forall modes daemon scions,
  C05_cfg_ok modes (map (wired_client modes daemon) scions) = true.
Proof.
  intros modes daemon scions. unfold C05_cfg_ok. rewrite forallb_forall. intros c Hc.
  apply in_map_iff in Hc. destruct Hc as (s & Hs & _). subst c.
  unfold C05_cfg_client_ok, wired_client. destruct (has_mode mode_nts modes); [|reflexivity].
  destruct s; reflexivity.
Qed.
