(* Proofs about the NTS key-exchange model (Model/Ntske.v) for C20. *)
From ST Require Import Base.Ints Model.Ntske Model.NtskeOracle Model.NtskeRun.
From Coq Require Import ZArith List Bool Lia.
Import ListNotations.
Open Scope Z_scope.
Ltac Zify.zify_post_hook ::= Z.div_mod_to_equations.

(* ---------- byte-string equality ---------- *)

Lemma bytes_eqb_eq a b : bytes_eqb a b = true <-> a = b.
Proof.
  revert b. induction a as [|x a IH]; intros [|y b]; simpl; split; intro H; try congruence; try reflexivity.
  - apply andb_true_iff in H as [H1 H2]. apply Z.eqb_eq in H1. apply IH in H2. congruence.
  - inversion H; subst. rewrite Z.eqb_refl. simpl. apply IH. reflexivity.
Qed.
Lemma bytes_eqb_refl a : bytes_eqb a a = true.
Proof. apply bytes_eqb_eq. reflexivity. Qed.
Lemma bytes_list_eqb_refl l : bytes_list_eqb l l = true.
Proof. induction l as [|x l IH]; simpl; [reflexivity|]. rewrite bytes_eqb_refl, IH. reflexivity. Qed.

(* ---------- take ---------- *)

Lemma take_app_exact (a s : bytes) : take (length a) (a ++ s) = Some (a, s).
Proof.
  unfold take. rewrite app_length.
  replace (length a <=? length a + length s)%nat with true by (symmetry; apply Nat.leb_le; lia).
  rewrite firstn_app, Nat.sub_diag, firstn_all, skipn_app, Nat.sub_diag, skipn_all. simpl.
  rewrite app_nil_r. reflexivity.
Qed.

Lemma take_short n (s : bytes) : (length s < n)%nat -> take n s = None.
Proof. intro H. unfold take. replace (n <=? length s)%nat with false by (symmetry; apply Nat.leb_gt; lia). reflexivity. Qed.

Lemma take_some n (s b r : bytes) : take n s = Some (b, r) -> s = b ++ r /\ length b = n.
Proof.
  unfold take. destruct (n <=? length s)%nat eqn:E; [|discriminate]. intro H. inversion H; subst.
  apply Nat.leb_le in E. split; [symmetry; apply firstn_skipn|]. rewrite firstn_length. lia.
Qed.

Lemma io_err_nz s : io_err s <> 0.
Proof. destruct s; unfold io_err, e_eof, e_unexp; lia. Qed.

(* ---------- the loop never runs out of fuel; more fuel changes nothing ---------- *)

Lemma rd_step_shorter s d s' d' : rd_step bytes take io_err s d = Next s' d' -> (length s' < length s)%nat.
Proof.
  unfold rd_step. destruct (take 4 s) as [[h s1]|] eqn:T; [|discriminate].
  apply take_some in T as [Hs Hh]. subst s. rewrite app_length, Hh.
  repeat match goal with
  | |- (if ?c then _ else _) = _ -> _ => destruct c
  | |- match take ?n ?x with _ => _ end = _ -> _ =>
      let T2 := fresh "T" in destruct (take n x) as [[? ?]|] eqn:T2; [apply take_some in T2 as [? ?]; subst|]
  end; intro H; inversion H; subst; try rewrite app_length; lia.
Qed.

Lemma rd_loop_fuel f1 : forall f2 s d, (length s < f1)%nat -> (length s < f2)%nat ->
  rd_loop bytes take io_err f1 s d = rd_loop bytes take io_err f2 s d.
Proof.
  induction f1 as [|f1 IH]; intros f2 s d H1 H2; [lia|]. destruct f2 as [|f2]; [lia|]. simpl.
  destruct (rd_step bytes take io_err s d) as [d' e|s' d'] eqn:E; [reflexivity|].
  apply rd_step_shorter in E. apply IH; lia.
Qed.

Lemma rd_loop_no_fuel_error f : forall s d, (length s < f)%nat -> snd (rd_loop bytes take io_err f s d) <> e_fuel \/
  exists d', rd_loop bytes take io_err f s d = (d', e_fuel) /\ False.
Proof. intros. left. revert s d H. induction f as [|f IH]; intros s d H; [lia|]. simpl.
  destruct (rd_step bytes take io_err s d) as [d' e|s' d'] eqn:E.
  - simpl. unfold rd_step in E. destruct (take 4 s) as [[h s1]|]; [|inversion E; subst; unfold io_err, e_fuel, e_eof, e_unexp; destruct s; lia].
    repeat match type of E with
    | (if ?c then _ else _) = _ => destruct c
    | match take ?n ?x with _ => _ end = _ => destruct (take n x) as [[? ?]|]
    end; inversion E; subst; unfold e_fuel, e_unknown_critical, error_of_code, io_err, e_eof, e_unexp,
      e_rec_critical, e_rec_badreq, e_rec_internal, e_rec_unknown;
    repeat match goal with |- context [if ?c then _ else _] => destruct c | |- context [match ?x with _ => _ end] => destruct x end; lia.
  - apply rd_step_shorter in E. apply IH. lia.
Qed.

Theorem read_stream_fuel_sufficient s d : snd (read_stream s d) <> e_fuel.
Proof. unfold read_stream. destruct (rd_loop_no_fuel_error (S (length s)) s d) as [H|[d' [_ []]]]; [lia|exact H]. Qed.

(* unfolding one iteration of read_stream *)
Lemma read_stream_step s d :
  read_stream s d = match rd_step bytes take io_err s d with
                    | Stop d' e => (d', e)
                    | Next s' d' => read_stream s' d'
                    end.
Proof.
  unfold read_stream at 1. cbn [rd_loop].
  destruct (rd_step bytes take io_err s d) as [d' e|s' d'] eqn:E; [reflexivity|].
  apply rd_step_shorter in E. unfold read_stream. apply rd_loop_fuel; lia.
Qed.

(* ---------- one record header ---------- *)

Lemma hdr_type t (c : bool) : 0 <= t < 32768 ->
  let x := ((if c then 128 else 0) + t / 256) * 256 + t mod 256 in x mod 32768 = t /\ (32768 <=? x) = c.
Proof.
  intros H x. subst x. destruct c.
  - split; [lia|]. apply Z.leb_le. lia.
  - split; [lia|]. apply Z.leb_gt. lia.
Qed.

Lemma hdr_len (n : nat) : Z.of_nat n < 65536 -> Z.to_nat (Z.of_nat n / 256 * 256 + Z.of_nat n mod 256) = n.
Proof. intro H. replace (Z.of_nat n / 256 * 256 + Z.of_nat n mod 256) with (Z.of_nat n) by lia. apply Nat2Z.id. Qed.


Lemma take4_cons a b c e (rest : bytes) : take 4 (a :: b :: c :: e :: rest) = Some ([a; b; c; e], rest).
Proof. reflexivity. Qed.

Definition hdr_of (r : krec) : bytes :=
  let n := Z.of_nat (length (r_body r)) in
  [(if r_crit r then 128 else 0) + r_type r / 256; r_type r mod 256; n / 256; n mod 256].

Definition after_hdr (r : krec) (rest : bytes) (d : kdata) : Ntske.iter bytes :=
  let t := r_type r in
  let blen := length (r_body r) in
  if t =? rec_eom then Stop d 0
  else if t =? rec_nextproto then
    match take 2 rest with Some (_, s2) => Next s2 d | None => Stop d (io_err rest) end
  else if t =? rec_aead then
    match take 2 rest with Some (v, s2) => Next s2 (set_algo d (be16 v)) | None => Stop d (io_err rest) end
  else if t =? rec_cookie then
    match take blen rest with Some (c, s2) => Next s2 (set_cookies d (k_cookies d ++ [c])) | None => Stop d (io_err rest) end
  else if t =? rec_server then
    match take blen rest with Some (a, s2) => Next s2 (set_server d a) | None => Stop d (io_err rest) end
  else if t =? rec_port then
    match take 2 rest with Some (v, s2) => Next s2 (set_port d (be16 v)) | None => Stop d (io_err rest) end
  else if t =? rec_error then
    match take 2 rest with Some (v, _) => Stop d (error_of_code (be16 v)) | None => Stop d (io_err rest) end
  else if r_crit r then Stop d e_unknown_critical
  else match take blen rest with Some (_, s2) => Next s2 d | None => Stop d (io_err rest) end.

Lemma canonical_facts r : rec_canonical r = true ->
  0 <= r_type r < 32768 /\ Z.of_nat (length (r_body r)) < 65536 /\
  (r_type r = 0 -> length (r_body r) = 0%nat) /\
  (r_type r = 1 \/ r_type r = 2 \/ r_type r = 4 \/ r_type r = 7 -> length (r_body r) = 2%nat).
Proof.
  unfold rec_canonical. intro H.
  apply andb_true_iff in H as [H H3]. apply andb_true_iff in H as [H H0]. apply andb_true_iff in H as [H Hb].
  apply andb_true_iff in H as [H H2].
  apply Z.leb_le in H. apply Z.ltb_lt in H2. apply Z.ltb_lt in H0.
  split; [lia|]. split; [lia|]. split.
  - intro E. rewrite E in H3. simpl in H3. apply Z.eqb_eq in H3. lia.
  - intro E. destruct (r_type r =? 0) eqn:E0; [apply Z.eqb_eq in E0; lia|].
    replace ((r_type r =? 1) || (r_type r =? 2) || (r_type r =? 4) || (r_type r =? 7)) with true in H3.
    + apply Z.eqb_eq in H3. lia.
    + symmetry. destruct E as [E|[E|[E|E]]]; rewrite E; reflexivity.
Qed.

Lemma rd_step_hdr r rest d : rec_canonical r = true ->
  rd_step bytes take io_err (hdr_of r ++ rest) d = after_hdr r rest d.
Proof.
  intro Hc. destruct (canonical_facts r Hc) as [Ht [Hn _]].
  unfold hdr_of, rd_step, has_critical, clear_critical. cbn [app]. rewrite take4_cons.
  change (be16 [?a; ?b; ?c; ?e]) with (a * 256 + b). change (be16 (skipn 2 [?a; ?b; ?c; ?e])) with (c * 256 + e).
  destruct (hdr_type (r_type r) (r_crit r) Ht) as [E1 E2]. cbv zeta in E1, E2.
  rewrite E1, E2, (hdr_len _ Hn). reflexivity.
Qed.

Lemma wire_rec_split r : wire_rec r = hdr_of r ++ r_body r.
Proof. reflexivity. Qed.

Inductive step_res := SStop (e : Z) | SCont (d : kdata).

(* what one complete canonical record does to the data *)
Definition rec_step (r : krec) (d : kdata) : step_res :=
  let t := r_type r in
  if t =? rec_eom then SStop 0
  else if t =? rec_nextproto then SCont d
  else if t =? rec_aead then SCont (set_algo d (body16 r))
  else if t =? rec_cookie then SCont (set_cookies d (k_cookies d ++ [r_body r]))
  else if t =? rec_server then SCont (set_server d (r_body r))
  else if t =? rec_port then SCont (set_port d (body16 r))
  else if t =? rec_error then SStop (error_of_code (body16 r))
  else if r_crit r then SStop e_unknown_critical
  else SCont d.

Lemma read_rec r s d : rec_canonical r = true ->
  read_stream (wire_rec r ++ s) d =
  match rec_step r d with SStop e => (d, e) | SCont d' => read_stream s d' end.
Proof.
  intro Hc. destruct (canonical_facts r Hc) as [Ht [Hn [H0 H2]]].
  rewrite read_stream_step, wire_rec_split, <- app_assoc, rd_step_hdr by exact Hc.
  unfold after_hdr, rec_step, rec_eom, rec_nextproto, rec_aead, rec_cookie, rec_server, rec_port, rec_error.
  destruct (r_type r =? 0) eqn:E0; [reflexivity|].
  destruct (r_type r =? 1) eqn:E1.
  { apply Z.eqb_eq in E1. rewrite <- (H2 (or_introl E1)), take_app_exact. reflexivity. }
  destruct (r_type r =? 4) eqn:E4.
  { apply Z.eqb_eq in E4. rewrite <- (H2 (or_intror (or_intror (or_introl E4)))), take_app_exact. reflexivity. }
  destruct (r_type r =? 5) eqn:E5; [rewrite take_app_exact; reflexivity|].
  destruct (r_type r =? 6) eqn:E6; [rewrite take_app_exact; reflexivity|].
  destruct (r_type r =? 7) eqn:E7.
  { apply Z.eqb_eq in E7. rewrite <- (H2 (or_intror (or_intror (or_intror E7)))), take_app_exact. reflexivity. }
  destruct (r_type r =? 2) eqn:E2.
  { apply Z.eqb_eq in E2. rewrite <- (H2 (or_intror (or_introl E2))), take_app_exact. reflexivity. }
  destruct (r_crit r); [reflexivity|]. rewrite take_app_exact. reflexivity.
Qed.

(* a whole list of canonical records *)
Fixpoint run_recs (rs : list krec) (d : kdata) : kdata * option Z :=
  match rs with
  | [] => (d, None)
  | r :: rest => match rec_step r d with SStop e => (d, Some e) | SCont d' => run_recs rest d' end
  end.

Lemma read_wire rs : Forall (fun r => rec_canonical r = true) rs -> forall s d,
  read_stream (wire rs ++ s) d =
  match run_recs rs d with (d', Some e) => (d', e) | (d', None) => read_stream s d' end.
Proof.
  induction 1 as [|r rs Hr Hrs IH]; intros s d; [reflexivity|].
  unfold wire. cbn [flat_map]. fold (wire rs). rewrite <- app_assoc, read_rec by exact Hr.
  cbn [run_recs]. destruct (rec_step r d) as [e|d']; [reflexivity|]. apply IH.
Qed.

(* ---------- a record that arrives only in part ---------- *)

Lemma hdr_of_length r : length (hdr_of r) = 4%nat.
Proof. reflexivity. Qed.

Lemma partial_fails r j d : rec_canonical r = true -> (j < length (wire_rec r))%nat ->
  snd (read_stream (firstn j (wire_rec r)) d) <> 0.
Proof.
  intros Hc Hj. destruct (canonical_facts r Hc) as [Ht [Hn [H0 H2]]].
  rewrite wire_rec_split in *. rewrite app_length, hdr_of_length in Hj.
  rewrite read_stream_step.
  destruct (Nat.lt_ge_cases j 4) as [Hlt|Hge].
  - unfold rd_step. rewrite take_short; [simpl; apply io_err_nz|]. rewrite firstn_length. lia.
  - rewrite firstn_app, hdr_of_length, (firstn_all2 (hdr_of r)) by (rewrite hdr_of_length; lia).
    rewrite rd_step_hdr by exact Hc.
    assert (Hshort : forall n, (length (r_body r) <= n)%nat -> take n (firstn (j - 4) (r_body r)) = None).
    { intros n Hle. apply take_short. rewrite firstn_length. lia. }
    unfold after_hdr, rec_eom, rec_nextproto, rec_aead, rec_cookie, rec_server, rec_port, rec_error.
    destruct (r_type r =? 0) eqn:E0; [apply Z.eqb_eq in E0; specialize (H0 E0); lia|].
    destruct (r_type r =? 1) eqn:E1.
    { apply Z.eqb_eq in E1. rewrite Hshort by (rewrite (H2 (or_introl E1)); lia). simpl. apply io_err_nz. }
    destruct (r_type r =? 4) eqn:E4.
    { apply Z.eqb_eq in E4. rewrite Hshort by (rewrite (H2 (or_intror (or_intror (or_introl E4)))); lia). simpl. apply io_err_nz. }
    destruct (r_type r =? 5) eqn:E5; [rewrite Hshort by lia; simpl; apply io_err_nz|].
    destruct (r_type r =? 6) eqn:E6; [rewrite Hshort by lia; simpl; apply io_err_nz|].
    destruct (r_type r =? 7) eqn:E7.
    { apply Z.eqb_eq in E7. rewrite Hshort by (rewrite (H2 (or_intror (or_intror (or_intror E7)))); lia). simpl. apply io_err_nz. }
    destruct (r_type r =? 2) eqn:E2.
    { apply Z.eqb_eq in E2. rewrite Hshort by (rewrite (H2 (or_intror (or_introl E2))); lia). simpl. apply io_err_nz. }
    destruct (r_crit r); [simpl; unfold e_unknown_critical; lia|].
    rewrite Hshort by lia. simpl. apply io_err_nz.
Qed.

(* the first k bytes of a record sequence: the records that fit, then part of the next one *)
Lemma firstn_wire rs : forall k, exists p,
  firstn k (wire rs) = wire (delivered rs k) ++ p /\
  (p = [] \/ exists r j, In r rs /\ (j < length (wire_rec r))%nat /\ p = firstn j (wire_rec r)).
Proof.
  induction rs as [|r rs IH]; intro k.
  - exists []. rewrite firstn_nil. split; [reflexivity|left; reflexivity].
  - cbn [delivered]. unfold wire at 1. cbn [flat_map]. fold (wire rs).
    destruct (length (wire_rec r) <=? k)%nat eqn:E.
    + apply Nat.leb_le in E. destruct (IH (k - length (wire_rec r))%nat) as [p [Hp Hor]].
      exists p. split.
      * rewrite firstn_app, (firstn_all2 (wire_rec r)) by lia. rewrite Hp.
        unfold wire at 2. cbn [flat_map]. fold (wire (delivered rs (k - length (wire_rec r)))).
        rewrite app_assoc. reflexivity.
      * destruct Hor as [Hn|[r' [j [Hin [Hj Hpe]]]]]; [left; exact Hn|].
        right. exists r', j. split; [right; exact Hin|]. split; assumption.
    + apply Nat.leb_gt in E. exists (firstn k (wire_rec r)). split.
      * rewrite firstn_app. replace (k - length (wire_rec r))%nat with 0%nat by lia.
        rewrite firstn_O, app_nil_r. reflexivity.
      * right. exists r, k. split; [left; reflexivity|]. split; [exact E|reflexivity].
Qed.

(* ---------- the model's record loop against the oracle's reading of the records ---------- *)

Definition apply_acc (d0 : kdata) (a : scan_acc) : kdata :=
  {| k_c2s := k_c2s d0; k_s2c := k_s2c d0; k_server := opt_bytes (a_server a) (k_server d0);
     k_port := opt_z (a_port a) (k_port d0); k_cookies := k_cookies d0 ++ a_cookies a;
     k_algo := opt_z (a_algo a) (k_algo d0) |}.

Lemma error_of_code_nz c : error_of_code c <> 0.
Proof.
  unfold error_of_code, e_rec_critical, e_rec_badreq, e_rec_internal, e_rec_unknown.
  destruct (c =? 0); [lia|]. destruct (c =? 1); [lia|]. destruct (c =? 2); lia.
Qed.

Lemma run_scan rs : forall a d0,
  match scan rs a with
  | (Accepted, a') => run_recs rs (apply_acc d0 a) = (apply_acc d0 a', Some 0)
  | (Refused, a') => exists e, e <> 0 /\ run_recs rs (apply_acc d0 a) = (apply_acc d0 a', Some e)
  | (Incomplete, a') => run_recs rs (apply_acc d0 a) = (apply_acc d0 a', None)
  end.
Proof.
  induction rs as [|r rs IH]; intros a d0; [reflexivity|].
  cbn [scan run_recs]. unfold rec_step, rec_eom, rec_nextproto, rec_aead, rec_cookie, rec_server, rec_port, rec_error.
  destruct (r_type r =? 0) eqn:E0; [reflexivity|].
  destruct (r_type r =? 2) eqn:E2.
  { apply Z.eqb_eq in E2. rewrite E2. cbn. exists (error_of_code (body16 r)). split; [apply error_of_code_nz|reflexivity]. }
  destruct (r_type r =? 1) eqn:E1; [apply IH|].
  destruct (r_type r =? 4) eqn:E4.
  { specialize (IH {| a_algo := Some (body16 r); a_server := a_server a; a_port := a_port a; a_cookies := a_cookies a |} d0). exact IH. }
  destruct (r_type r =? 5) eqn:E5.
  { specialize (IH {| a_algo := a_algo a; a_server := a_server a; a_port := a_port a; a_cookies := a_cookies a ++ [r_body r] |} d0).
    replace (set_cookies (apply_acc d0 a) (k_cookies (apply_acc d0 a) ++ [r_body r]))
      with (apply_acc d0 {| a_algo := a_algo a; a_server := a_server a; a_port := a_port a; a_cookies := a_cookies a ++ [r_body r] |}); [exact IH|].
    unfold apply_acc, set_cookies. cbn. rewrite app_assoc. reflexivity. }
  destruct (r_type r =? 6) eqn:E6.
  { specialize (IH {| a_algo := a_algo a; a_server := Some (r_body r); a_port := a_port a; a_cookies := a_cookies a |} d0). exact IH. }
  destruct (r_type r =? 7) eqn:E7.
  { specialize (IH {| a_algo := a_algo a; a_server := a_server a; a_port := Some (body16 r); a_cookies := a_cookies a |} d0). exact IH. }
  destruct (r_crit r).
  - exists e_unknown_critical. split; [unfold e_unknown_critical; lia|reflexivity].
  - apply IH.
Qed.

Lemma delivered_canonical rs : Forall (fun r => rec_canonical r = true) rs ->
  forall k, Forall (fun r => rec_canonical r = true) (delivered rs k).
Proof.
  induction 1 as [|r rs Hr Hrs IH]; intro k; cbn [delivered]; [constructor|].
  destruct (length (wire_rec r) <=? k)%nat; [constructor; [exact Hr|apply IH]|constructor].
Qed.

Lemma apply_acc0 d0 : apply_acc d0 acc0 = d0.
Proof. destruct d0. unfold apply_acc, acc0. cbn. rewrite app_nil_r. reflexivity. Qed.

Lemma strict_facts sc : sc_strict sc = true ->
  Forall (fun r => rec_canonical r = true) (sc_recs sc) /\ sc_tail sc = [].
Proof.
  unfold sc_strict. intro H. apply andb_true_iff in H as [H1 H2]. split.
  - apply Forall_forall. apply forallb_forall. exact H1.
  - destruct (sc_tail sc); [reflexivity|discriminate].
Qed.

(* what the record loop makes of the bytes a conforming script sends *)
Lemma read_script sc d0 : sc_strict sc = true ->
  match scan (delivered (sc_recs sc) (sc_cut sc)) acc0 with
  | (Accepted, a) => read_stream (script_stream sc) d0 = (apply_acc d0 a, 0)
  | (_, _) => snd (read_stream (script_stream sc) d0) <> 0
  end.
Proof.
  intro Hs. destruct (strict_facts sc Hs) as [Hc Ht].
  unfold script_stream. rewrite Ht, app_nil_r.
  destruct (firstn_wire (sc_recs sc) (sc_cut sc)) as [p [Hp Hor]]. rewrite Hp.
  rewrite read_wire by (apply delivered_canonical; exact Hc).
  pose proof (run_scan (delivered (sc_recs sc) (sc_cut sc)) acc0 d0) as Hrun. rewrite apply_acc0 in Hrun.
  destruct (scan (delivered (sc_recs sc) (sc_cut sc)) acc0) as [[| |] a].
  - rewrite Hrun. reflexivity.
  - destruct Hrun as [e [He Hrun]]. rewrite Hrun. exact He.
  - rewrite Hrun. destruct Hor as [Hn|[r [j [Hin [Hj Hpe]]]]].
    + subst p. rewrite read_stream_step. unfold rd_step. simpl. unfold e_eof. lia.
    + subst p. apply partial_fails; [|exact Hj]. rewrite Forall_forall in Hc. apply Hc. exact Hin.
Qed.

(* ---------- exchangeKeys against a conforming script ---------- *)

Lemma existsb_too_long l : existsb cookie_too_long l = negb (forallb cookie_fits l).
Proof.
  induction l as [|c l IH]; [reflexivity|]. cbn [existsb forallb]. rewrite IH, negb_andb. f_equal.
  unfold cookie_too_long, cookie_fits, max_cookie_len. apply Z.ltb_antisym.
Qed.

Definition exporter_ok (ex : exporter) : Prop :=
  exists c2s s2c, ex exporter_label ctx_c2s key_len = Some c2s /\ ex exporter_label ctx_s2c key_len = Some s2c.

Definition alpn_agreed (sc : script) : bool :=
  (sc_mode sc =? 0) &&
  match tls_negotiate [alpn_ntske] (sc_alpn sc) with HsOk p => bytes_eqb p alpn_ntske | HsFail => false end.

Definition expected_data (ex : exporter) (sc : script) : kdata :=
  let a := scanned (sc_recs sc) (sc_cut sc) in
  {| k_c2s := match ex exporter_label ctx_c2s key_len with Some k => k | None => [] end;
     k_s2c := match ex exporter_label ctx_s2c key_len with Some k => k | None => [] end;
     k_server := opt_bytes (a_server a) (sc_host sc);
     k_port := opt_z (a_port a) 123;
     k_cookies := a_cookies a;
     k_algo := 15 |}.

Lemma exchange_strict ex sc : sc_strict sc = true -> exporter_ok ex ->
  if alpn_agreed sc && stream_accepted (sc_recs sc) (sc_cut sc)
  then exchange_keys ex (peer_of_script sc) = (expected_data ex sc, 0)
  else snd (exchange_keys ex (peer_of_script sc)) <> 0.
Proof.
  intros Hs [c2s [s2c [Hc2s Hs2c]]].
  unfold exchange_keys, dial_tls, alpn_agreed, peer_of_script. cbn [p_up p_alpn p_host p_stream].
  destruct (sc_mode sc =? 0); [|cbn; unfold e_dial; lia].
  destruct (tls_negotiate [alpn_ntske] (sc_alpn sc)) as [|proto]; [cbn; unfold e_dial; lia|].
  destruct (bytes_eqb proto alpn_ntske); [|cbn; unfold e_alpn; lia].
  cbn [andb negb Z.eqb].
  set (d0 := set_port (set_server kzero (sc_host sc)) ntp_port_ip).
  pose proof (read_script sc d0 Hs) as Hread.
  unfold stream_accepted, expected_data, scanned.
  destruct (scan (delivered (sc_recs sc) (sc_cut sc)) acc0) as [res a].
  destruct res.
  - rewrite Hread. cbn [Z.eqb negb snd]. unfold export_keys. rewrite Hs2c, Hc2s. cbn [Z.eqb negb].
    unfold algo_is_siv, has_cookie, cookies_fit, set_c2s, set_s2c, apply_acc, d0, set_port, set_server, kzero, ntp_port_ip.
    cbn [k_c2s k_s2c k_server k_port k_cookies k_algo app].
    destruct (a_cookies a) as [|c cs]; [rewrite andb_false_r; cbn; unfold e_nocookies; lia|].
    rewrite andb_true_r, existsb_too_long.
    destruct (forallb cookie_fits (c :: cs)); cbn [negb]; [|rewrite andb_false_r; cbn; unfold e_cookielen; lia].
    rewrite andb_true_r. destruct (a_algo a) as [v|]; cbn [opt_z].
    + unfold aes_siv_cmac_256. destruct (v =? 15) eqn:Ev.
      * apply Z.eqb_eq in Ev. subst v. cbn. reflexivity.
      * cbn. unfold e_algo. lia.
    + cbn. unfold e_algo. lia.
  - destruct (read_stream (script_stream sc) d0) as [d1 e1]. cbn [snd] in Hread.
    destruct (e1 =? 0) eqn:E; [apply Z.eqb_eq in E; contradiction|]. cbn. apply Z.eqb_neq in E. exact E.
  - destruct (read_stream (script_stream sc) d0) as [d1 e1]. cbn [snd] in Hread.
    destruct (e1 =? 0) eqn:E; [apply Z.eqb_eq in E; contradiction|]. cbn. apply Z.eqb_neq in E. exact E.
Qed.

(* ---------- the same over QUIC ---------- *)

Lemma first_common_mem srv cli p : first_common srv cli = Some p -> mem_bytes p cli = true.
Proof.
  induction srv as [|q srv IH]; cbn [first_common]; [discriminate|].
  destruct (mem_bytes q cli) eqn:E; [|exact IH]. intro H. inversion H; subst. exact E.
Qed.

(* a QUIC handshake in which the client offers only ntske/1 completes only with ntske/1 *)
Lemma quic_negotiate_ntske srv p : quic_negotiate [alpn_ntske] srv = HsOk p -> bytes_eqb p alpn_ntske = true.
Proof.
  unfold quic_negotiate. destruct (first_common srv [alpn_ntske]) as [q|] eqn:E; [|discriminate].
  intro H. inversion H; subst. apply first_common_mem in E. cbn [mem_bytes] in E.
  rewrite orb_false_r in E. exact E.
Qed.

Definition alpn_agreed_quic (sc : script) : bool :=
  (sc_mode sc =? 0) &&
  match quic_negotiate [alpn_ntske] (sc_alpn sc) with HsOk p => bytes_eqb p alpn_ntske | HsFail => false end.

Definition expected_data_quic (ex : exporter) (sc : script) : kdata :=
  let a := scanned (sc_recs sc) (sc_cut sc) in
  {| k_c2s := match ex exporter_label ctx_c2s key_len with Some k => k | None => [] end;
     k_s2c := match ex exporter_label ctx_s2c key_len with Some k => k | None => [] end;
     k_server := opt_bytes (a_server a) (sc_host sc);
     k_port := opt_z (a_port a) 10123;
     k_cookies := a_cookies a;
     k_algo := 15 |}.

Lemma exchange_strict_quic ex st sc : sc_strict sc = true -> exporter_ok ex ->
  if alpn_agreed_quic sc && stream_accepted (sc_recs sc) (sc_cut sc)
  then exchange_keys_quic ex st (peer_of_script sc) = (expected_data_quic ex sc, 0)
  else snd (exchange_keys_quic ex st (peer_of_script sc)) <> 0.
Proof.
  intros Hs [c2s [s2c [Hc2s Hs2c]]].
  unfold exchange_keys_quic, dial_quic, alpn_agreed_quic, peer_of_script. cbn [p_up p_alpn p_host p_stream].
  destruct (sc_mode sc =? 0); [|cbn; unfold e_dial; lia].
  destruct (quic_negotiate [alpn_ntske] (sc_alpn sc)) as [|proto] eqn:Hq; [cbn; unfold e_dial; lia|].
  rewrite (quic_negotiate_ntske _ _ Hq).
  cbn [andb negb Z.eqb].
  set (d0 := set_port (set_server kzero (sc_host sc)) ntp_port_scion).
  pose proof (read_script sc d0 Hs) as Hread.
  unfold stream_accepted, expected_data_quic, scanned.
  destruct (scan (delivered (sc_recs sc) (sc_cut sc)) acc0) as [res a].
  destruct res.
  - rewrite Hread. cbn [Z.eqb negb snd]. unfold export_keys. rewrite Hs2c, Hc2s. cbn [Z.eqb negb].
    unfold algo_is_siv, has_cookie, cookies_fit, set_c2s, set_s2c, apply_acc, d0, set_port, set_server, kzero, ntp_port_scion.
    cbn [k_c2s k_s2c k_server k_port k_cookies k_algo app].
    destruct (a_cookies a) as [|c cs]; [rewrite andb_false_r; cbn; unfold e_nocookies; lia|].
    rewrite andb_true_r, existsb_too_long.
    destruct (forallb cookie_fits (c :: cs)); cbn [negb]; [|rewrite andb_false_r; cbn; unfold e_cookielen; lia].
    rewrite andb_true_r. destruct (a_algo a) as [v|]; cbn [opt_z].
    + unfold aes_siv_cmac_256. destruct (v =? 15) eqn:Ev.
      * apply Z.eqb_eq in Ev. subst v. cbn. reflexivity.
      * cbn. unfold e_algo. lia.
    + cbn. unfold e_algo. lia.
  - destruct (read_stream (script_stream sc) d0) as [d1 e1]. cbn [snd] in Hread.
    destruct (e1 =? 0) eqn:E; [apply Z.eqb_eq in E; contradiction|]. cbn. apply Z.eqb_neq in E. exact E.
  - destruct (read_stream (script_stream sc) d0) as [d1 e1]. cbn [snd] in Hread.
    destruct (e1 =? 0) eqn:E; [apply Z.eqb_eq in E; contradiction|]. cbn. apply Z.eqb_neq in E. exact E.
Qed.

(* both transports at once: quic = Fetcher.QUIC.Enabled *)
Definition alpn_agreed_of (quic : bool) (sc : script) : bool :=
  (sc_mode sc =? 0) &&
  match negotiate quic [alpn_ntske] (sc_alpn sc) with HsOk p => bytes_eqb p alpn_ntske | HsFail => false end.

Definition expected_data_of (quic : bool) (ex : exporter) (sc : script) : kdata :=
  if quic then expected_data_quic ex sc else expected_data ex sc.

Lemma exchange_strict_of quic ex st sc : sc_strict sc = true -> exporter_ok ex ->
  if alpn_agreed_of quic sc && stream_accepted (sc_recs sc) (sc_cut sc)
  then exchange_keys_of quic ex st (peer_of_script sc) = (expected_data_of quic ex sc, 0)
  else snd (exchange_keys_of quic ex st (peer_of_script sc)) <> 0.
Proof.
  intros Hs Hex. destruct quic.
  - exact (exchange_strict_quic ex st sc Hs Hex).
  - exact (exchange_strict ex sc Hs Hex).
Qed.

Lemma expected_data_of_fields quic ex sc :
  k_cookies (expected_data_of quic ex sc) = a_cookies (scanned (sc_recs sc) (sc_cut sc)) /\
  k_server (expected_data_of quic ex sc) = opt_bytes (a_server (scanned (sc_recs sc) (sc_cut sc))) (sc_host sc) /\
  k_port (expected_data_of quic ex sc) = opt_z (a_port (scanned (sc_recs sc) (sc_cut sc))) (std_ntp_port quic).
Proof. destruct quic; repeat split; reflexivity. Qed.

(* ---------- what any successful exchange implies (also for non-conforming streams) ---------- *)

Ltac bad_pair := let H := fresh in intro H; apply (f_equal snd) in H; cbv in H; discriminate H.

Lemma exchange_success_facts ex p d : exchange_keys ex p = (d, 0) ->
  p_up p = true /\
  (exists proto, tls_negotiate [alpn_ntske] (p_alpn p) = HsOk proto /\ bytes_eqb proto alpn_ntske = true) /\
  k_cookies d <> [] /\ k_algo d = 15 /\
  ex exporter_label ctx_c2s key_len = Some (k_c2s d) /\ ex exporter_label ctx_s2c key_len = Some (k_s2c d) /\
  forallb cookie_fits (k_cookies d) = true.
Proof.
  unfold exchange_keys, dial_tls. destruct (p_up p); [|bad_pair].
  destruct (tls_negotiate [alpn_ntske] (p_alpn p)) as [|proto]; [bad_pair|].
  destruct (bytes_eqb proto alpn_ntske) eqn:Ep; [|bad_pair].
  cbn [Z.eqb negb].
  destruct (read_stream (p_stream p) _) as [d1 e1]. destruct (e1 =? 0) eqn:Ee1; cbn [negb]; [|intro H; inversion H; subst; discriminate Ee1].
  unfold export_keys.
  destruct (ex exporter_label ctx_s2c key_len) as [s2c|] eqn:Es; [|bad_pair].
  destruct (ex exporter_label ctx_c2s key_len) as [c2s|] eqn:Ec; [|bad_pair].
  cbn [Z.eqb negb].
  destruct (k_cookies (set_c2s (set_s2c d1 s2c) c2s)) as [|c cs] eqn:Ek; [bad_pair|].
  destruct (existsb cookie_too_long (c :: cs)) eqn:Et; [bad_pair|].
  destruct (k_algo (set_c2s (set_s2c d1 s2c) c2s) =? aes_siv_cmac_256) eqn:Ea; cbn [negb]; [|bad_pair].
  intro H. inversion H; subst. split; [reflexivity|]. split; [exists proto; split; [reflexivity|exact Ep]|].
  split; [rewrite Ek; discriminate|]. split; [apply Z.eqb_eq in Ea; exact Ea|]. split; [reflexivity|]. split; [reflexivity|].
  rewrite Ek. rewrite existsb_too_long in Et. apply negb_false_iff in Et. exact Et.
Qed.

Lemma exchange_success_facts_quic ex st p d : exchange_keys_quic ex st p = (d, 0) ->
  p_up p = true /\
  (exists proto, quic_negotiate [alpn_ntske] (p_alpn p) = HsOk proto /\ bytes_eqb proto alpn_ntske = true) /\
  k_cookies d <> [] /\ k_algo d = 15 /\
  ex exporter_label ctx_c2s key_len = Some (k_c2s d) /\ ex exporter_label ctx_s2c key_len = Some (k_s2c d) /\
  forallb cookie_fits (k_cookies d) = true.
Proof.
  unfold exchange_keys_quic, dial_quic. destruct (p_up p); [|bad_pair].
  destruct (quic_negotiate [alpn_ntske] (p_alpn p)) as [|proto] eqn:Hq; [bad_pair|].
  pose proof (quic_negotiate_ntske _ _ Hq) as Ep.
  cbn [Z.eqb negb].
  destruct (read_stream (p_stream p) _) as [d1 e1]. destruct (e1 =? 0) eqn:Ee1; cbn [negb]; [|intro H; inversion H; subst; discriminate Ee1].
  unfold export_keys.
  destruct (ex exporter_label ctx_s2c key_len) as [s2c|] eqn:Es; [|bad_pair].
  destruct (ex exporter_label ctx_c2s key_len) as [c2s|] eqn:Ec; [|bad_pair].
  cbn [Z.eqb negb].
  destruct (k_cookies (set_c2s (set_s2c d1 s2c) c2s)) as [|c cs] eqn:Ek; [bad_pair|].
  destruct (existsb cookie_too_long (c :: cs)) eqn:Et; [bad_pair|].
  destruct (k_algo (set_c2s (set_s2c d1 s2c) c2s) =? aes_siv_cmac_256) eqn:Ea; cbn [negb]; [|bad_pair].
  intro H. inversion H; subst. split; [reflexivity|]. split; [exists proto; split; [reflexivity|exact Ep]|].
  split; [rewrite Ek; discriminate|]. split; [apply Z.eqb_eq in Ea; exact Ea|]. split; [reflexivity|]. split; [reflexivity|].
  rewrite Ek. rewrite existsb_too_long in Et. apply negb_false_iff in Et. exact Et.
Qed.

Lemma exchange_success_facts_of quic ex st p d : exchange_keys_of quic ex st p = (d, 0) ->
  p_up p = true /\
  (exists proto, negotiate quic [alpn_ntske] (p_alpn p) = HsOk proto /\ bytes_eqb proto alpn_ntske = true) /\
  k_cookies d <> [] /\ k_algo d = 15 /\
  ex exporter_label ctx_c2s key_len = Some (k_c2s d) /\ ex exporter_label ctx_s2c key_len = Some (k_s2c d) /\
  forallb cookie_fits (k_cookies d) = true.
Proof.
  destruct quic.
  - exact (exchange_success_facts_quic ex st p d).
  - exact (exchange_success_facts ex p d).
Qed.

(* the QUIC branch starts from the defaults of dialQUIC (fix commit 38f59d0): nothing of what
   the fetcher held before the call reaches the result; when the dial fails f.data is untouched *)
Lemma exchange_quic_ignores_state ex st st' p :
  exchange_keys_quic ex st p = exchange_keys_quic ex st' p \/
  (exchange_keys_quic ex st p = (st, e_dial) /\ exchange_keys_quic ex st' p = (st', e_dial)).
Proof.
  unfold exchange_keys_quic, dial_quic. destruct (p_up p); [|right; split; reflexivity].
  destruct (quic_negotiate [alpn_ntske] (p_alpn p)); [right; split; reflexivity|left; reflexivity].
Qed.

Lemma exchange_of_ignores_state quic ex st st' p :
  snd (exchange_keys_of quic ex st p) = snd (exchange_keys_of quic ex st' p) /\
  (snd (exchange_keys_of quic ex st p) = 0 -> exchange_keys_of quic ex st p = exchange_keys_of quic ex st' p).
Proof.
  destruct quic; cbn [exchange_keys_of]; [|split; reflexivity].
  destruct (exchange_quic_ignores_state ex st st' p) as [H|[H1 H2]].
  - rewrite H. split; reflexivity.
  - rewrite H1, H2. cbn [snd]. split; [reflexivity|]. unfold e_dial. discriminate.
Qed.

(* ---------- whatever the stream: cookies, server and port come from the bytes received ---------- *)

Definition infix (x S : bytes) : Prop := exists pre post, S = pre ++ x ++ post.

Lemma prefix_b_app x post : prefix_b x (x ++ post) = true.
Proof. induction x as [|a x IH]; [reflexivity|]. cbn. rewrite Z.eqb_refl. exact IH. Qed.

Lemma infix_b_complete x S : infix x S -> infix_b x S = true.
Proof.
  intros [pre [post E]]. subst S. induction pre as [|a pre IH].
  - cbn [app]. destruct (x ++ post) eqn:E; cbn [infix_b]; rewrite <- ?E, prefix_b_app; reflexivity.
  - cbn [app infix_b]. rewrite IH. apply orb_true_r.
Qed.

Lemma port_in_complete a b S : infix [a; b] S -> port_in (a * 256 + b) S = true.
Proof.
  intros [pre [post E]]. subst S. induction pre as [|c pre IH].
  - cbn. rewrite Z.eqb_refl. reflexivity.
  - cbn [app] in *. cbn [port_in]. destruct (pre ++ a :: b :: post) eqn:E.
    + destruct pre; discriminate E.
    + rewrite IH. apply orb_true_r.
Qed.

Definition from_stream (S : bytes) (d0 d : kdata) : Prop :=
  (forall c, In c (k_cookies d) -> In c (k_cookies d0) \/ infix c S) /\
  (k_server d = k_server d0 \/ infix (k_server d) S) /\
  (k_port d = k_port d0 \/ exists a b, infix [a; b] S /\ k_port d = a * 256 + b).

Lemma from_stream_refl S d : from_stream S d d.
Proof. split; [intros c H; left; exact H|split; left; reflexivity]. Qed.

Lemma infix_mid pre h x r : infix x (pre ++ h ++ x ++ r).
Proof. exists (pre ++ h), r. rewrite <- app_assoc. reflexivity. Qed.

Lemma be16_two (v : bytes) : length v = 2%nat -> exists a b, v = [a; b] /\ be16 v = a * 256 + b.
Proof.
  destruct v as [|a [|b [|c v]]]; cbn; intro H; try discriminate. exists a, b. split; reflexivity.
Qed.

(* one iteration: the reader advances within S and the data keep coming from S *)
Lemma rd_step_from_stream S d0 pre s d :
  S = pre ++ s -> from_stream S d0 d ->
  match rd_step bytes take io_err s d with
  | Stop d' _ => d' = d
  | Next s' d' => (exists pre', S = pre' ++ s') /\ from_stream S d0 d'
  end.
Proof.
  intros ES [Hc [Hs Hp]]. unfold rd_step.
  destruct (take 4 s) as [[h s1]|] eqn:T; [|reflexivity].
  apply take_some in T as [Es _]. subst s.
  assert (Hsame : forall s2 b, s1 = b ++ s2 -> exists pre', S = pre' ++ s2).
  { intros s2 b E. exists (pre ++ h ++ b). subst s1. rewrite ES, <- !app_assoc. reflexivity. }
  repeat match goal with
  | |- match (if ?c then _ else _) with _ => _ end => destruct c
  | |- match (match take ?n ?x with _ => _ end) with _ => _ end =>
      let T2 := fresh "T" in destruct (take n x) as [[? ?]|] eqn:T2; [apply take_some in T2 as [? ?]|]
  end; try reflexivity.
  - (* next protocol *) split; [eapply Hsame; eassumption|]. split; [exact Hc|split; assumption].
  - (* algorithm *) split; [eapply Hsame; eassumption|]. split; [exact Hc|split; assumption].
  - (* cookie *) split; [eapply Hsame; eassumption|]. subst s1. split; [|split; assumption].
    intros c Hin. cbn [k_cookies set_cookies] in Hin. apply in_app_or in Hin as [Hin|[Hin|[]]].
    + apply Hc. exact Hin.
    + subst c. right. rewrite ES. apply infix_mid.
  - (* server *) split; [eapply Hsame; eassumption|]. subst s1. split; [exact Hc|]. split; [|exact Hp].
    right. cbn [k_server set_server]. rewrite ES. apply infix_mid.
  - (* port *) split; [eapply Hsame; eassumption|]. subst s1. split; [exact Hc|]. split; [exact Hs|].
    right. cbn [k_port set_port].
    match goal with Hl : length ?v = 2%nat |- _ =>
      let x := fresh "x" in let y := fresh "y" in let Ev := fresh "Ev" in let Eb := fresh "Eb" in
      destruct (be16_two v Hl) as [x [y [Ev Eb]]]; subst v; exists x, y; split; [rewrite ES; apply infix_mid|exact Eb] end.
  - (* unrecognised, not critical *) split; [eapply Hsame; eassumption|]. split; [exact Hc|split; assumption].
Qed.

Lemma rd_loop_from_stream S d0 fuel : forall pre s d,
  S = pre ++ s -> from_stream S d0 d -> from_stream S d0 (fst (rd_loop bytes take io_err fuel s d)).
Proof.
  induction fuel as [|fuel IH]; intros pre s d ES Hf; [exact Hf|]. cbn [rd_loop].
  pose proof (rd_step_from_stream S d0 pre s d ES Hf) as H.
  destruct (rd_step bytes take io_err s d) as [d' e|s' d'].
  - subst d'. exact Hf.
  - destruct H as [[pre' ES'] Hf']. exact (IH pre' s' d' ES' Hf').
Qed.

Lemma read_stream_from S d0 : from_stream S d0 (fst (read_stream S d0)).
Proof. unfold read_stream. apply (rd_loop_from_stream S d0 _ [] S d0 eq_refl (from_stream_refl S d0)). Qed.

(* a successful exchange of either transport: every cookie of the pool, a server other than the
   key-exchange host and a port other than the standard one occur in the bytes the peer sent *)
Lemma exchange_from_stream_of quic ex st p d : exchange_keys_of quic ex st p = (d, 0) ->
  (forall c, In c (k_cookies d) -> infix c (p_stream p)) /\
  (k_server d = p_host p \/ infix (k_server d) (p_stream p)) /\
  (k_port d = std_ntp_port quic \/ exists a b, infix [a; b] (p_stream p) /\ k_port d = a * 256 + b).
Proof.
  assert (G : forall d0, k_cookies d0 = [] -> k_server d0 = p_host p -> k_port d0 = std_ntp_port quic ->
    forall d1, from_stream (p_stream p) d0 d1 ->
    forall c2s s2c, let d2 := set_c2s (set_s2c d1 s2c) c2s in
    (forall c, In c (k_cookies d2) -> infix c (p_stream p)) /\
    (k_server d2 = p_host p \/ infix (k_server d2) (p_stream p)) /\
    (k_port d2 = std_ntp_port quic \/ exists a b, infix [a; b] (p_stream p) /\ k_port d2 = a * 256 + b)).
  { intros d0 E1 E2 E3 d1 [Hc [Hs Hp]] c2s s2c d2. subst d2. cbn [k_cookies k_server k_port set_c2s set_s2c].
    rewrite E1 in Hc. rewrite E2 in Hs. rewrite E3 in Hp.
    split; [intros c Hin; destruct (Hc c Hin) as [[]|H]; exact H|split; assumption]. }
  destruct quic; cbn [exchange_keys_of].
  - unfold exchange_keys_quic, dial_quic. destruct (p_up p); [|bad_pair].
    destruct (quic_negotiate [alpn_ntske] (p_alpn p)) as [|proto]; [bad_pair|].
    cbn [Z.eqb negb].
    pose proof (read_stream_from (p_stream p) (set_port (set_server kzero (p_host p)) ntp_port_scion)) as Hf.
    destruct (read_stream (p_stream p) _) as [d1 e1]. cbn [fst] in Hf.
    destruct (e1 =? 0) eqn:Ee1; cbn [negb]; [|intro H; inversion H; subst; discriminate Ee1].
    unfold export_keys.
    destruct (ex exporter_label ctx_s2c key_len) as [s2c|]; [|bad_pair].
    destruct (ex exporter_label ctx_c2s key_len) as [c2s|]; [|bad_pair].
    cbn [Z.eqb negb].
    destruct (k_cookies (set_c2s (set_s2c d1 s2c) c2s)) as [|c cs] eqn:Ek; [bad_pair|].
    destruct (existsb cookie_too_long (c :: cs)); [bad_pair|].
    destruct (k_algo (set_c2s (set_s2c d1 s2c) c2s) =? aes_siv_cmac_256); cbn [negb]; [|bad_pair].
    intro H. inversion H; subst.
    exact (G (set_port (set_server kzero (p_host p)) ntp_port_scion) eq_refl eq_refl eq_refl d1 Hf c2s s2c).
  - unfold exchange_keys, dial_tls. destruct (p_up p); [|bad_pair].
    destruct (tls_negotiate [alpn_ntske] (p_alpn p)) as [|proto]; [bad_pair|].
    destruct (bytes_eqb proto alpn_ntske); [|bad_pair].
    cbn [Z.eqb negb].
    pose proof (read_stream_from (p_stream p) (set_port (set_server kzero (p_host p)) ntp_port_ip)) as Hf.
    destruct (read_stream (p_stream p) _) as [d1 e1]. cbn [fst] in Hf.
    destruct (e1 =? 0) eqn:Ee1; cbn [negb]; [|intro H; inversion H; subst; discriminate Ee1].
    unfold export_keys.
    destruct (ex exporter_label ctx_s2c key_len) as [s2c|]; [|bad_pair].
    destruct (ex exporter_label ctx_c2s key_len) as [c2s|]; [|bad_pair].
    cbn [Z.eqb negb].
    destruct (k_cookies (set_c2s (set_s2c d1 s2c) c2s)) as [|c cs] eqn:Ek; [bad_pair|].
    destruct (existsb cookie_too_long (c :: cs)); [bad_pair|].
    destruct (k_algo (set_c2s (set_s2c d1 s2c) c2s) =? aes_siv_cmac_256); cbn [negb]; [|bad_pair].
    intro H. inversion H; subst.
    exact (G (set_port (set_server kzero (p_host p)) ntp_port_ip) eq_refl eq_refl eq_refl d1 Hf c2s s2c).
Qed.

(* ---------- the oracle accepts every history of the model ---------- *)

Definition Rel (st : kdata) (ost : ostate) : Prop :=
  os_free ost = true \/
  (k_cookies st = os_pool ost /\ (os_pool ost <> [] -> os_last_ok ost = true) /\
   (os_last_ok ost = true ->
      k_c2s st = os_c2s ost /\ k_s2c st = os_s2c ost /\ k_server st = os_server ost /\
      k_port st = os_port ost /\ k_algo st = 15)).

Lemma peer_key_c2s ex k : ex exporter_label ctx_c2s key_len = Some k -> peer_key ex 0 = k.
Proof. intro H. unfold peer_key. change (ex rfc_label [0; 0; 0; 15; 0] 32) with (ex exporter_label ctx_c2s key_len). rewrite H. reflexivity. Qed.
Lemma peer_key_s2c ex k : ex exporter_label ctx_s2c key_len = Some k -> peer_key ex 1 = k.
Proof. intro H. unfold peer_key. change (ex rfc_label [0; 0; 0; 15; 1] 32) with (ex exporter_label ctx_s2c key_len). rewrite H. reflexivity. Qed.

Lemma obs_alpn quic sc :
  (sc_mode sc =? 0) && fst (peer_handshake quic sc) && bytes_eqb (snd (peer_handshake quic sc)) ntske1 = alpn_agreed_of quic sc.
Proof.
  unfold peer_handshake, alpn_agreed_of. destruct (sc_mode sc =? 0); [|reflexivity].
  destruct (negotiate quic [alpn_ntske] (sc_alpn sc)); reflexivity.
Qed.

Lemma Rel_free st ost : os_free ost = true -> Rel st ost.
Proof. intro H. left. exact H. Qed.

Lemma fetch_step quic ex st ost sc : Rel st ost -> exporter_ok ex ->
  exists ost', fetch_ok quic ost sc (snd (model_fetch quic ex st sc)) = Some ost' /\ Rel (fst (model_fetch quic ex st sc)) ost'.
Proof.
  intros HR Hex. unfold fetch_ok. destruct (os_free ost) eqn:Hfree.
  { exists ost. split; [reflexivity|apply Rel_free; exact Hfree]. }
  destruct HR as [HR|[Hpool [Hne Hinfo]]]; [congruence|].
  unfold model_fetch, fetch_data. rewrite <- Hpool.
  destruct (k_cookies st) as [|c rest] eqn:Hck.
  - (* a new exchange *)
    destruct (exchange_keys_of quic ex st (peer_of_script sc)) as [d e] eqn:Hx.
    destruct (e =? 0) eqn:He.
    + apply Z.eqb_eq in He. subst e.
      destruct (exchange_success_facts_of quic ex st _ d Hx) as [Hup [[proto [Hneg Hproto]] [Hcne [Halgo [Hc2s [Hs2c Hfits]]]]]].
      cbn [p_up peer_of_script] in Hup. cbn [p_alpn peer_of_script] in Hneg.
      destruct (exchange_from_stream_of quic ex st _ d Hx) as [Fc [Fs Fp]].
      change (p_stream (peer_of_script sc)) with (sent_bytes sc) in Fc, Fs, Fp.
      change (p_host (peer_of_script sc)) with (sc_host sc) in Fs.
      assert (B1 : forallb (fun c => infix_b c (sent_bytes sc)) (k_cookies d) = true).
      { apply forallb_forall. intros c Hin. apply infix_b_complete. exact (Fc c Hin). }
      assert (B2 : bytes_eqb (k_server d) (sc_host sc) || infix_b (k_server d) (sent_bytes sc) = true).
      { destruct Fs as [E|I]; [rewrite E, bytes_eqb_refl; reflexivity|rewrite (infix_b_complete _ _ I); apply orb_true_r]. }
      assert (B3 : (k_port d =? std_ntp_port quic) || port_in (k_port d) (sent_bytes sc) = true).
      { destruct Fp as [E|[a [b [I E]]]]; [rewrite E, Z.eqb_refl; reflexivity|rewrite E, (port_in_complete _ _ _ I); apply orb_true_r]. }
      clear Fc Fs Fp.
      assert (Hm1 : (sc_mode sc =? 1) = false).
      { apply Z.eqb_eq in Hup. rewrite Hup. reflexivity. }
      cbn [fo_exchanged fo_err fo_data andb snd fst]. rewrite Hm1. cbn [negb].
      unfold peer_handshake. rewrite Hup, Hneg.
      cbn [o_conns o_hs_ok o_negotiated o_peer_c2s o_peer_s2c o_err o_data Z.eqb andb].
      rewrite ?Hm1, ?Hup.
      cbn [snd fst o_conns o_hs_ok o_negotiated o_peer_c2s o_peer_s2c o_err o_data Z.eqb andb].
      change (bytes_eqb proto ntske1) with (bytes_eqb proto alpn_ntske). rewrite Hproto.
      rewrite (peer_key_c2s _ _ Hc2s), (peer_key_s2c _ _ Hs2c), !bytes_eqb_refl, Halgo, Hfits.
      cbn [andb Z.eqb implb].
      destruct (k_cookies d) as [|c0 cs0] eqn:Hcd; [congruence|].
      destruct (sc_strict sc) eqn:Hstrict.
      * pose proof (exchange_strict_of quic ex st sc Hstrict Hex) as Hstr.
        assert (Hag : alpn_agreed_of quic sc = true).
        { unfold alpn_agreed_of. rewrite Hup, Hneg. exact Hproto. }
        rewrite Hag in Hstr. cbn [andb] in Hstr.
        destruct (stream_accepted (sc_recs sc) (sc_cut sc)).
        -- rewrite Hx in Hstr. assert (Hd : d = expected_data_of quic ex sc) by congruence. clear Hstr. cbn [Bool.eqb].
           destruct (expected_data_of_fields quic ex sc) as [E1 [E2 E3]]. rewrite <- Hd in E1, E2, E3.
           rewrite <- E1, <- E2, <- E3, Hcd, bytes_list_eqb_refl, bytes_eqb_refl, Z.eqb_refl. cbn [andb].
           eexists. split; [reflexivity|]. right. cbn. split; [reflexivity|]. split; [reflexivity|].
           intros _. repeat split; try reflexivity. exact Halgo.
        -- rewrite Hx in Hstr. cbn in Hstr. congruence.
      * rewrite B1, B2, B3.
        cbn [andb]. eexists. split; [reflexivity|]. right. cbn. split; [reflexivity|]. split; [reflexivity|].
        intros _. repeat split; try reflexivity. exact Halgo.
    + (* the exchange failed *)
      cbn [fo_exchanged fo_err fo_data andb snd fst].
      destruct (sc_mode sc =? 1) eqn:Hm1; cbn [negb].
      * cbn [snd fst o_conns o_hs_ok o_negotiated o_peer_c2s o_peer_s2c o_err o_data].
        rewrite He. cbn [negb andb]. rewrite !andb_false_r. cbn [andb Bool.eqb implb].
        destruct (sc_strict sc); cbn [andb];
          (exists os0; split; [reflexivity|]; right; cbn; split; [reflexivity|]; split; [congruence|discriminate]).
      * destruct (peer_handshake quic sc) as [hs pr] eqn:Hph.
        cbn [snd fst o_conns o_hs_ok o_negotiated o_peer_c2s o_peer_s2c o_err o_data].
        rewrite He. cbn [Z.eqb Pos.eqb andb].
        pose proof (obs_alpn quic sc) as Hoa. rewrite Hph in Hoa. cbn [fst snd] in Hoa. rewrite Hoa.
        destruct (sc_strict sc) eqn:Hstrict.
        -- pose proof (exchange_strict_of quic ex st sc Hstrict Hex) as Hstr. rewrite Hx in Hstr. cbn [snd] in Hstr.
           destruct (alpn_agreed_of quic sc && stream_accepted (sc_recs sc) (sc_cut sc)).
           ++ inversion Hstr. subst e. discriminate He.
           ++ cbn [Bool.eqb andb]. exists os0. split; [reflexivity|]. right. cbn. split; [reflexivity|]. split; [congruence|discriminate].
        -- cbn [implb andb]. exists os0. split; [reflexivity|]. right. cbn. split; [reflexivity|]. split; [congruence|discriminate].
  - (* cookies are left: answered from the pool *)
    cbn [fo_exchanged fo_err fo_data andb snd fst o_conns o_err o_data Z.eqb].
    assert (Hlast : os_last_ok ost = true) by (apply Hne; rewrite <- Hpool; discriminate).
    destruct (Hinfo Hlast) as [I1 [I2 [I3 [I4 I5]]]].
    unfold info_matches. rewrite I1, I2, I3, I4, I5, !bytes_eqb_refl, Z.eqb_refl, Hck, bytes_list_eqb_refl.
    cbn [andb Z.eqb]. eexists. split; [reflexivity|]. right. cbn. split; [reflexivity|]. split; [reflexivity|].
    intros _. rewrite <- I1, <- I2, <- I3, <- I4. repeat split; try reflexivity. exact I5.
Qed.

Lemma too_long_negfits c : cookie_too_long c = negb (cookie_fits c).
Proof. unfold cookie_too_long, cookie_fits, max_cookie_len. apply Z.ltb_antisym. Qed.

Lemma store_step st ost c : Rel st ost -> Rel (store_cookie st c) (store_ok ost c).
Proof.
  intro HR. unfold store_cookie, store_ok. rewrite too_long_negfits.
  destruct (negb (cookie_fits c)); [exact HR|].
  destruct HR as [Hf|[Hp [Hne Hinfo]]].
  - destruct (os_last_ok ost); [destruct (8 <=? Z.of_nat (length (os_pool ost)))|]; left; try exact Hf; reflexivity.
  - unfold max_stored_cookies. rewrite Hp.
    destruct (os_last_ok ost) eqn:Hl.
    + destruct (8 <=? Z.of_nat (length (os_pool ost))).
      * right. split; [exact Hp|]. split; [intros _; exact Hl|intros _; exact (Hinfo eq_refl)].
      * right. cbn. split; [reflexivity|]. split; [reflexivity|]. intros _. exact (Hinfo eq_refl).
    + destruct (8 <=? Z.of_nat (length (os_pool ost))); left; reflexivity.
Qed.

(* StoreCookie never takes the pool beyond MaxStoredCookies; FetchData installs the cookies of
   the exchange whatever their number and otherwise only shrinks the pool *)
Lemma store_cookie_cap st c : Z.of_nat (length (k_cookies st)) <= 8 ->
  Z.of_nat (length (k_cookies (store_cookie st c))) <= 8.
Proof.
  intro H. unfold store_cookie, max_stored_cookies. destruct (cookie_too_long c); [exact H|].
  destruct (8 <=? Z.of_nat (length (k_cookies st))) eqn:E; [exact H|].
  apply Z.leb_gt in E. cbn [k_cookies set_cookies]. rewrite app_length. cbn [length]. lia.
Qed.

Lemma store_cookie_no_growth_above st c : 8 <= Z.of_nat (length (k_cookies st)) -> store_cookie st c = st.
Proof.
  intro H. unfold store_cookie, max_stored_cookies. destruct (cookie_too_long c); [reflexivity|].
  apply Z.leb_le in H. rewrite H. reflexivity.
Qed.

Fixpoint stores (st : kdata) (cs : list bytes) : kdata :=
  match cs with [] => st | c :: r => stores (store_cookie st c) r end.

Lemma stores_cap cs : forall st, Z.of_nat (length (k_cookies st)) <= 8 ->
  Z.of_nat (length (k_cookies (stores st cs))) <= 8.
Proof. induction cs as [|c cs IH]; intros st H; [exact H|]. cbn [stores]. apply IH. apply store_cookie_cap. exact H. Qed.

Lemma fetch_pool_after quic ex st p :
  k_cookies (fst (fetch_data quic ex st p)) = tl (k_cookies st) \/
  (k_cookies st = [] /\ (k_cookies (fst (fetch_data quic ex st p)) = [] \/
     exists d, exchange_keys_of quic ex st p = (d, 0) /\ k_cookies (fst (fetch_data quic ex st p)) = tl (k_cookies d))).
Proof.
  unfold fetch_data. destruct (k_cookies st) as [|c rest] eqn:E; [|left; reflexivity].
  right. split; [reflexivity|]. destruct (exchange_keys_of quic ex st p) as [d e]. destruct (e =? 0) eqn:He.
  - apply Z.eqb_eq in He. subst e. right. exists d. split; reflexivity.
  - left. reflexivity.
Qed.

Definition mop_ok (m : mop) : Prop := match m with MFetch _ ex => exporter_ok ex | MStore _ => True end.

Lemma oracle_holds_gen quic ms : forall st ost, Rel st ost -> Forall mop_ok ms ->
  hist_ok quic ost (map op_of ms) (model_run quic st ms) = true.
Proof.
  induction ms as [|m ms IH]; intros st ost HR Hok; [reflexivity|].
  inversion Hok as [|m' ms' Hm Hms]; subst. destruct m as [sc ex|c]; cbn [map op_of model_run hist_ok].
  - destruct (fetch_step quic ex st ost sc HR Hm) as [ost' [Hf HR']].
    destruct (model_fetch quic ex st sc) as [st' o]. cbn [fst snd] in *. cbn [hist_ok]. rewrite Hf. apply IH; assumption.
  - apply IH; [apply store_step; exact HR|exact Hms].
Qed.

(* the same walk, keeping the oracle's final state: it is related to the model's final state *)
Lemma oracle_end_gen quic ms : forall st ost, Rel st ost -> Forall mop_ok ms ->
  exists ost', hist_end quic ost (map op_of ms) (model_run quic st ms) = Some ost' /\ Rel (model_final quic st ms) ost'.
Proof.
  induction ms as [|m ms IH]; intros st ost HR Hok; [exists ost; split; [reflexivity|exact HR]|].
  inversion Hok as [|m' ms' Hm Hms]; subst. destruct m as [sc ex|c]; cbn [map op_of model_run model_final hist_end].
  - destruct (fetch_step quic ex st ost sc HR Hm) as [ost' [Hf HR']].
    destruct (model_fetch quic ex st sc) as [st' o]. cbn [fst snd] in *. cbn [hist_end]. rewrite Hf. apply IH; assumption.
  - apply IH; [apply store_step; exact HR|exact Hms].
Qed.

Lemma final_ok_Rel st ost : Rel st ost -> final_ok ost st = true.
Proof.
  intros [Hf|[Hp [_ Hinfo]]]; unfold final_ok; [rewrite Hf; reflexivity|].
  rewrite Hp, bytes_list_eqb_refl. destruct (os_last_ok ost) eqn:Hl; [|apply orb_true_r].
  destruct (Hinfo eq_refl) as [I1 [I2 [I3 [I4 I5]]]].
  unfold info_matches. rewrite I1, I2, I3, I4, I5, !bytes_eqb_refl, Z.eqb_refl. apply orb_true_r.
Qed.

Lemma Rel_init : Rel kzero os0.
Proof. right. cbn. split; [reflexivity|]. split; [congruence|discriminate]. Qed.

Theorem oracle_holds_on_model quic ms : Forall mop_ok ms -> C20_ok quic (map op_of ms) (model_run quic kzero ms) = true.
Proof. intro H. apply oracle_holds_gen; [apply Rel_init|exact H]. Qed.

(* ---------- the way the transport cuts the stream into pieces does not matter ---------- *)

Lemma take_app_long (c s : bytes) n : (length c < n)%nat ->
  take n (c ++ s) = match take (n - length c) s with Some (b, rest) => Some (c ++ b, rest) | None => None end.
Proof.
  intro H. unfold take. rewrite app_length.
  destruct (n - length c <=? length s)%nat eqn:E.
  - apply Nat.leb_le in E. replace (n <=? length c + length s)%nat with true by (symmetry; apply Nat.leb_le; lia).
    rewrite firstn_app, skipn_app, (firstn_all2 c), (skipn_all2 c) by lia. reflexivity.
  - apply Nat.leb_gt in E. replace (n <=? length c + length s)%nat with false by (symmetry; apply Nat.leb_gt; lia).
    reflexivity.
Qed.

Lemma take_chunks_acc_spec cs : forall n acc,
  match take n (concat cs) with
  | Some (b, rest) => exists cs', take_chunks_acc n acc cs = Some (acc ++ b, cs') /\ concat cs' = rest
  | None => take_chunks_acc n acc cs = None
  end.
Proof.
  induction cs as [|c r IH]; intros n acc.
  - destruct n; cbn; [exists []; rewrite app_nil_r; split; reflexivity|reflexivity].
  - destruct n as [|m].
    + cbn [take_chunks_acc]. unfold take. cbn. exists (c :: r). rewrite app_nil_r. split; reflexivity.
    + cbn [take_chunks_acc concat]. destruct (S m <=? length c)%nat eqn:E.
      * apply Nat.leb_le in E. unfold take. rewrite app_length.
        replace (S m <=? length c + length (concat r))%nat with true by (symmetry; apply Nat.leb_le; lia).
        exists (skipn (S m) c :: r). rewrite firstn_app, skipn_app.
        replace (S m - length c)%nat with 0%nat by lia. rewrite firstn_O, skipn_O, app_nil_r. split; reflexivity.
      * apply Nat.leb_gt in E. rewrite take_app_long by exact E.
        specialize (IH (S m - length c)%nat (acc ++ c)).
        destruct (take (S m - length c) (concat r)) as [[b rest]|].
        -- destruct IH as [cs' [H1 H2]]. exists cs'. rewrite H1, app_assoc. split; [reflexivity|exact H2].
        -- exact IH.
Qed.

Lemma take_chunks_spec cs n :
  match take n (concat cs) with
  | Some (b, rest) => exists cs', take_chunks n cs = Some (b, cs') /\ concat cs' = rest
  | None => take_chunks n cs = None
  end.
Proof. exact (take_chunks_acc_spec cs n []). Qed.

Ltac chunk_take n cs1 :=
  let Hs := fresh "Hs" in
  pose proof (take_chunks_spec cs1 n) as Hs;
  destruct (take n (concat cs1)) as [[? ?]|];
  [ let cs2 := fresh "cs" in let H1 := fresh "H" in let H2 := fresh "H" in
    destruct Hs as [cs2 [H1 H2]]; rewrite H1; subst
  | rewrite Hs ].

Lemma rd_step_chunks cs d :
  match rd_step bytes take io_err (concat cs) d with
  | Stop d' e => rd_step (list bytes) take_chunks io_err_chunks cs d = Stop d' e
  | Next s' d' => exists cs', rd_step (list bytes) take_chunks io_err_chunks cs d = Next cs' d' /\ concat cs' = s'
  end.
Proof.
  unfold rd_step. chunk_take 4%nat cs; [|reflexivity].
  repeat match goal with
  | |- context [if ?c then _ else _] => destruct c
  end;
  try reflexivity;
  match goal with
  | |- context [take ?n (concat ?c1)] => chunk_take n c1
  end; try reflexivity; try (eexists; split; reflexivity).
Qed.

Lemma rd_loop_chunks f : forall cs d,
  rd_loop (list bytes) take_chunks io_err_chunks f cs d = rd_loop bytes take io_err f (concat cs) d.
Proof.
  induction f as [|f IH]; intros cs d; [reflexivity|]. cbn [rd_loop].
  pose proof (rd_step_chunks cs d) as H.
  destruct (rd_step bytes take io_err (concat cs) d) as [d' e|s' d'].
  - rewrite H. reflexivity.
  - destruct H as [cs' [H1 H2]]. rewrite H1, IH, H2. reflexivity.
Qed.

Theorem chunking_irrelevant cs d : read_stream_chunks cs d = read_stream (concat cs) d.
Proof. unfold read_stream_chunks, read_stream. apply rd_loop_chunks. Qed.

(* ---------- unrecognised non-critical records are ignored ---------- *)

Definition recognised (t : Z) : bool :=
  (t =? 0) || (t =? 1) || (t =? 2) || (t =? 4) || (t =? 5) || (t =? 6) || (t =? 7).
Definition ignorable (r : krec) : bool := negb (recognised (r_type r)) && negb (r_crit r).

Lemma rec_step_ignorable r d : ignorable r = true -> rec_step r d = SCont d.
Proof.
  unfold ignorable, recognised, rec_step, rec_eom, rec_nextproto, rec_aead, rec_cookie, rec_server, rec_port, rec_error.
  intro H. apply andb_true_iff in H as [H1 H2]. apply negb_true_iff in H1, H2.
  repeat (apply orb_false_iff in H1 as [H1 ?]).
  rewrite H1, H, H0, H3, H4, H5, H6, H2. reflexivity.
Qed.

Lemma run_recs_ignorable rs : forall d,
  run_recs (filter (fun r => negb (ignorable r)) rs) d = run_recs rs d.
Proof.
  induction rs as [|r rs IH]; intro d; [reflexivity|]. cbn [filter].
  destruct (ignorable r) eqn:E; cbn [negb].
  - cbn [run_recs]. rewrite (rec_step_ignorable r d E). apply IH.
  - cbn [run_recs]. destruct (rec_step r d); [reflexivity|apply IH].
Qed.

Theorem noncritical_ignored rs s d : Forall (fun r => rec_canonical r = true) rs ->
  read_stream (wire (filter (fun r => negb (ignorable r)) rs) ++ s) d = read_stream (wire rs ++ s) d.
Proof.
  intro Hc. rewrite !read_wire.
  - rewrite run_recs_ignorable. reflexivity.
  - exact Hc.
  - apply Forall_forall. intros r Hin. apply filter_In in Hin as [Hin _].
    rewrite Forall_forall in Hc. apply Hc. exact Hin.
Qed.

(* ---------- the fetcher ---------- *)

Lemma fetch_fresh_independent quic ex st p : k_cookies st = [] -> fetch_data quic ex st p = fetch_data quic ex kzero p.
Proof.
  intro H. unfold fetch_data. rewrite H. cbn [k_cookies kzero].
  destruct (exchange_of_ignores_state quic ex st kzero p) as [He Hd].
  destruct (exchange_keys_of quic ex st p) as [d e] eqn:E1. destruct (exchange_keys_of quic ex kzero p) as [d' e'] eqn:E2.
  cbn [snd] in He, Hd. subst e'. destruct (e =? 0) eqn:E0; [|reflexivity].
  apply Z.eqb_eq in E0. specialize (Hd E0). inversion Hd; subst. reflexivity.
Qed.

Lemma fetch_cached quic ex st p c rest : k_cookies st = c :: rest ->
  fetch_data quic ex st p = (set_cookies st rest, {| fo_err := 0; fo_data := st; fo_exchanged := false |}).
Proof. intro H. unfold fetch_data. rewrite H. reflexivity. Qed.

Lemma fetch_exchange_result quic ex st p : k_cookies st = [] ->
  fo_exchanged (snd (fetch_data quic ex st p)) = true /\
  fo_err (snd (fetch_data quic ex st p)) = snd (exchange_keys_of quic ex st p) /\
  (snd (exchange_keys_of quic ex st p) = 0 ->
     fo_data (snd (fetch_data quic ex st p)) = fst (exchange_keys_of quic ex st p) /\
     fst (fetch_data quic ex st p) = set_cookies (fst (exchange_keys_of quic ex st p)) (tl (k_cookies (fst (exchange_keys_of quic ex st p))))).
Proof.
  intro H. unfold fetch_data. rewrite H. destruct (exchange_keys_of quic ex st p) as [d e]. cbn [fst snd].
  destruct (e =? 0) eqn:E; cbn [fst snd fo_exchanged fo_err fo_data].
  - apply Z.eqb_eq in E. subst e. repeat split; reflexivity.
  - apply Z.eqb_neq in E. split; [reflexivity|]. split; [reflexivity|]. intro. contradiction.
Qed.

(* client and server run ExportKeys on the same session: same keys, different directions *)
Lemma keys_agree ex p dC dS dS' : exchange_keys ex p = (dC, 0) -> export_keys ex dS = (dS', 0) ->
  k_c2s dC = k_c2s dS' /\ k_s2c dC = k_s2c dS' /\
  ex exporter_label ctx_c2s key_len = Some (k_c2s dC) /\ ex exporter_label ctx_s2c key_len = Some (k_s2c dC) /\
  ctx_c2s <> ctx_s2c.
Proof.
  intros Hx Hs. destruct (exchange_success_facts ex p dC Hx) as [_ [_ [_ [_ [Hc2s [Hs2c _]]]]]].
  unfold export_keys in Hs. rewrite Hs2c, Hc2s in Hs. inversion Hs; subst. cbn.
  repeat split; try assumption. discriminate.
Qed.

(* ---------- readable forms ---------- *)

Lemma success_iff ex sc : sc_strict sc = true -> exporter_ok ex ->
  (snd (exchange_keys ex (peer_of_script sc)) = 0 <->
   alpn_agreed sc = true /\ stream_accepted (sc_recs sc) (sc_cut sc) = true).
Proof.
  intros Hs Hex. pose proof (exchange_strict ex sc Hs Hex) as H.
  destruct (alpn_agreed sc); destruct (stream_accepted (sc_recs sc) (sc_cut sc)); cbn [andb] in H.
  - rewrite H. cbn. split; [intros _; split; reflexivity|reflexivity].
  - split; [intro; contradiction|intros [_ ?]; discriminate].
  - split; [intro; contradiction|intros [? _]; discriminate].
  - split; [intro; contradiction|intros [? _]; discriminate].
Qed.

Lemma success_data ex sc : sc_strict sc = true -> exporter_ok ex ->
  snd (exchange_keys ex (peer_of_script sc)) = 0 -> fst (exchange_keys ex (peer_of_script sc)) = expected_data ex sc.
Proof.
  intros Hs Hex H0. pose proof (exchange_strict ex sc Hs Hex) as H.
  destruct (alpn_agreed sc && stream_accepted (sc_recs sc) (sc_cut sc)); [rewrite H; reflexivity|contradiction].
Qed.

Lemma scan_no_end rs : (forall r, In r rs -> r_type r <> 0) -> forall a, fst (scan rs a) <> Accepted.
Proof.
  induction rs as [|r rs IH]; intros Hn a; [cbn; discriminate|].
  assert (H0 : (r_type r =? 0) = false) by (apply Z.eqb_neq; apply Hn; left; reflexivity).
  assert (Hn' : forall r', In r' rs -> r_type r' <> 0) by (intros r' Hin; apply Hn; right; exact Hin).
  cbn [scan]. rewrite H0.
  repeat match goal with |- context [if ?c then _ else _] => destruct c end;
    try (cbn; discriminate); apply IH; exact Hn'.
Qed.

Lemma no_end_fails ex sc : sc_strict sc = true -> exporter_ok ex ->
  (forall r, In r (delivered (sc_recs sc) (sc_cut sc)) -> r_type r <> 0) ->
  snd (exchange_keys ex (peer_of_script sc)) <> 0.
Proof.
  intros Hs Hex Hn H0. apply (success_iff ex sc Hs Hex) in H0 as [_ Hacc].
  unfold stream_accepted in Hacc. pose proof (scan_no_end _ Hn acc0) as Hne.
  destruct (scan (delivered (sc_recs sc) (sc_cut sc)) acc0) as [[| |] a]; cbn in *; congruence.
Qed.

Lemma fetch_failure_clears : forall quic ex st p st' fo,
  fetch_data quic ex st p = (st', fo) -> fo_err fo <> 0 -> st' = kzero /\ fo_exchanged fo = true.
Proof.
  intros quic ex st p st' fo H Herr. unfold fetch_data in H.
  destruct (k_cookies st) as [|c rest].
  - destruct (exchange_keys_of quic ex st p) as [d e]. destruct (e =? 0) eqn:E.
    + inversion H; subst. simpl in Herr. congruence.
    + inversion H; subst. split; reflexivity.
  - inversion H; subst. simpl in Herr. congruence.
Qed.

(* ---------- readable forms, QUIC ---------- *)

Lemma success_iff_quic ex st sc : sc_strict sc = true -> exporter_ok ex ->
  (snd (exchange_keys_quic ex st (peer_of_script sc)) = 0 <->
   alpn_agreed_quic sc = true /\ stream_accepted (sc_recs sc) (sc_cut sc) = true).
Proof.
  intros Hs Hex. pose proof (exchange_strict_quic ex st sc Hs Hex) as H.
  destruct (alpn_agreed_quic sc); destruct (stream_accepted (sc_recs sc) (sc_cut sc)); cbn [andb] in H.
  - rewrite H. cbn. split; [intros _; split; reflexivity|reflexivity].
  - split; [intro; contradiction|intros [_ ?]; discriminate].
  - split; [intro; contradiction|intros [? _]; discriminate].
  - split; [intro; contradiction|intros [? _]; discriminate].
Qed.

Lemma success_data_quic ex st sc : sc_strict sc = true -> exporter_ok ex ->
  snd (exchange_keys_quic ex st (peer_of_script sc)) = 0 ->
  fst (exchange_keys_quic ex st (peer_of_script sc)) = expected_data_quic ex sc.
Proof.
  intros Hs Hex H0. pose proof (exchange_strict_quic ex st sc Hs Hex) as H.
  destruct (alpn_agreed_quic sc && stream_accepted (sc_recs sc) (sc_cut sc)); [rewrite H; reflexivity|contradiction].
Qed.

Lemma scan_no_target rs : (forall r, In r rs -> r_type r <> 6 /\ r_type r <> 7) -> forall a,
  a_server (snd (scan rs a)) = a_server a /\ a_port (snd (scan rs a)) = a_port a.
Proof.
  induction rs as [|r rs IH]; intros Hn a; [split; reflexivity|].
  destruct (Hn r (or_introl eq_refl)) as [H6 H7].
  assert (Hn' : forall r', In r' rs -> r_type r' <> 6 /\ r_type r' <> 7) by (intros r' Hin; apply Hn; right; exact Hin).
  apply Z.eqb_neq in H6, H7. cbn [scan]. rewrite H6, H7.
  repeat match goal with |- context [if ?c then _ else _] => destruct c end;
    try (split; reflexivity);
    match goal with |- context [scan rs ?a'] =>
      let E1 := fresh "E" in let E2 := fresh "E" in
      destruct (IH Hn' a') as [E1 E2]; rewrite E1, E2; split; reflexivity end.
Qed.

Lemma delivered_incl rs : forall k r, In r (delivered rs k) -> In r rs.
Proof.
  induction rs as [|x rs IH]; intros k r; cbn [delivered]; [intros []|].
  destruct (length (wire_rec x) <=? k)%nat; [|intros []].
  intros [H|H]; [left; exact H|right; apply (IH _ _ H)].
Qed.

Lemma quic_default_target ex st sc : sc_strict sc = true -> exporter_ok ex ->
  snd (exchange_keys_quic ex st (peer_of_script sc)) = 0 ->
  (forall r, In r (sc_recs sc) -> r_type r <> 6 /\ r_type r <> 7) ->
  k_server (fst (exchange_keys_quic ex st (peer_of_script sc))) = sc_host sc /\
  k_port (fst (exchange_keys_quic ex st (peer_of_script sc))) = 10123.
Proof.
  intros Hs Hex H0 Hn. rewrite (success_data_quic ex st sc Hs Hex H0).
  unfold expected_data_quic, scanned. cbn [k_server k_port].
  destruct (scan_no_target (delivered (sc_recs sc) (sc_cut sc))
              (fun r Hin => Hn r (delivered_incl _ _ _ Hin)) acc0) as [E1 E2].
  rewrite E1, E2. split; reflexivity.
Qed.

Lemma no_end_fails_quic ex st sc : sc_strict sc = true -> exporter_ok ex ->
  (forall r, In r (delivered (sc_recs sc) (sc_cut sc)) -> r_type r <> 0) ->
  snd (exchange_keys_quic ex st (peer_of_script sc)) <> 0.
Proof.
  intros Hs Hex Hn H0. apply (success_iff_quic ex st sc Hs Hex) in H0 as [_ Hacc].
  unfold stream_accepted in Hacc. pose proof (scan_no_end _ Hn acc0) as Hne.
  destruct (scan (delivered (sc_recs sc) (sc_cut sc)) acc0) as [[| |] a]; cbn in *; congruence.
Qed.

Lemma keys_agree_quic ex st p dC dS dS' : exchange_keys_quic ex st p = (dC, 0) -> export_keys ex dS = (dS', 0) ->
  k_c2s dC = k_c2s dS' /\ k_s2c dC = k_s2c dS' /\
  ex exporter_label ctx_c2s key_len = Some (k_c2s dC) /\ ex exporter_label ctx_s2c key_len = Some (k_s2c dC) /\
  ctx_c2s <> ctx_s2c.
Proof.
  intros Hx Hs. destruct (exchange_success_facts_quic ex st p dC Hx) as [_ [_ [_ [_ [Hc2s [Hs2c _]]]]]].
  unfold export_keys in Hs. rewrite Hs2c, Hc2s in Hs. inversion Hs; subst. cbn.
  repeat split; try assumption. discriminate.
Qed.

(* ---------- the message of the project's own key-exchange server ---------- *)

Lemma pack_wire t c body : 0 <= t < 32768 -> Z.of_nat (length body) < 65536 ->
  pack t c body = wire_rec {| r_type := t; r_crit := c; r_body := body |}.
Proof.
  intros Ht Hn. unfold pack, hdr, wire_rec, set_critical. cbn [r_type r_crit r_body app]. f_equal; [|f_equal; [|f_equal]].
  - destruct c; lia.
  - destruct c; lia.
  - f_equal. lia.
Qed.

Lemma delivered_all rs : forall k, (length (wire rs) <= k)%nat -> delivered rs k = rs.
Proof.
  induction rs as [|r rs IH]; intros k Hk; [reflexivity|].
  unfold wire in Hk. cbn [flat_map] in Hk. fold (wire rs) in Hk. rewrite app_length in Hk.
  cbn [delivered]. replace (length (wire_rec r) <=? k)%nat with true by (symmetry; apply Nat.leb_le; lia).
  f_equal. apply IH. lia.
Qed.

Lemma enc16_bytes v : forallb byte_b (enc16 v) = true.
Proof.
  unfold enc16, byte_b. cbn [forallb]. rewrite !andb_true_iff. repeat split;
    try (apply Z.leb_le; lia); try (apply Z.ltb_lt; lia).
Qed.

Definition own_recs (mk_cookie : nat -> bytes) (ip : bytes) (port : Z) : list krec :=
  [ {| r_type := 1; r_crit := true; r_body := enc16 0 |};
    {| r_type := 4; r_crit := true; r_body := enc16 15 |};
    {| r_type := 6; r_crit := false; r_body := ip |};
    {| r_type := 7; r_crit := false; r_body := enc16 port |} ]
  ++ map (fun i => {| r_type := 5; r_crit := false; r_body := mk_cookie i |}) (seq 0 8)
  ++ [ {| r_type := 0; r_crit := true; r_body := [] |} ].

Definition body_ok (b : bytes) : Prop := forallb byte_b b = true /\ Z.of_nat (length b) < 65536.

Lemma canonical_var t c body : body_ok body -> (t = 5 \/ t = 6) ->
  rec_canonical {| r_type := t; r_crit := c; r_body := body |} = true.
Proof.
  intros [Hb Hl] Ht. unfold rec_canonical. cbn [r_type r_body]. rewrite Hb.
  replace (Z.of_nat (length body) <? 65536) with true by (symmetry; apply Z.ltb_lt; exact Hl).
  destruct Ht; subst t; reflexivity.
Qed.

Lemma canonical_fix t c v : (t = 1 \/ t = 4 \/ t = 7) ->
  rec_canonical {| r_type := t; r_crit := c; r_body := enc16 v |} = true.
Proof.
  intro Ht. unfold rec_canonical. cbn [r_type r_body]. rewrite enc16_bytes.
  destruct Ht as [H|[H|H]]; subst t; reflexivity.
Qed.

Lemma server_msg_wire mk ip port : body_ok ip -> (forall i, body_ok (mk i)) ->
  server_msg mk ip port = wire (own_recs mk ip port).
Proof.
  intros Hip Hmk. unfold server_msg, own_recs, wire. cbn [seq flat_map map app].
  unfold rec_nextproto, rec_aead, rec_server, rec_port, rec_cookie, rec_eom.
  rewrite !pack_wire; try lia; try (cbn; lia); try (apply Hip); try (apply (Hmk _)).
  rewrite <- !app_assoc. reflexivity.
Qed.

Lemma own_recs_strict mk ip port : body_ok ip -> (forall i, body_ok (mk i)) ->
  forallb rec_canonical (own_recs mk ip port) = true.
Proof.
  intros Hip Hmk. unfold own_recs. cbn [seq map app forallb].
  rewrite !canonical_fix by tauto. rewrite !canonical_var by (try apply Hip; try apply Hmk; tauto).
  reflexivity.
Qed.

Theorem own_server_exchange_of quic ex st mk ip port host : exporter_ok ex ->
  body_ok ip -> (forall i, body_ok (mk i)) -> (forall i, Z.of_nat (length (mk i)) <= 896) -> 0 <= port < 65536 ->
  exists c2s s2c,
    ex exporter_label ctx_c2s key_len = Some c2s /\ ex exporter_label ctx_s2c key_len = Some s2c /\
    exchange_keys_of quic ex st {| p_up := true; p_alpn := [alpn_ntske]; p_host := host; p_stream := server_msg mk ip port |}
    = ({| k_c2s := c2s; k_s2c := s2c; k_server := ip; k_port := port;
          k_cookies := map mk (seq 0 8); k_algo := 15 |}, 0).
Proof.
  intros Hex Hip Hmk Hfit Hport.
  set (rs := own_recs mk ip port).
  set (sc := {| sc_mode := 0; sc_alpn := [alpn_ntske]; sc_recs := rs; sc_tail := [];
                sc_cut := length (wire rs); sc_host := host |}).
  assert (Hstrict : sc_strict sc = true).
  { unfold sc_strict, sc. cbn [sc_recs sc_tail]. unfold rs. rewrite own_recs_strict by assumption. reflexivity. }
  assert (Hpeer : peer_of_script sc = {| p_up := true; p_alpn := [alpn_ntske]; p_host := host; p_stream := server_msg mk ip port |}).
  { unfold peer_of_script, script_stream, sc. cbn [sc_mode sc_alpn sc_host sc_recs sc_tail sc_cut].
    rewrite app_nil_r, firstn_all. unfold rs. rewrite <- server_msg_wire by assumption. reflexivity. }
  pose proof (exchange_strict_of quic ex st sc Hstrict Hex) as H. rewrite Hpeer in H.
  assert (Hdel : delivered rs (length (wire rs)) = rs) by (apply delivered_all; lia).
  assert (Hacc : alpn_agreed_of quic sc && stream_accepted (sc_recs sc) (sc_cut sc) = true).
  { replace (alpn_agreed_of quic sc) with true by (destruct quic; reflexivity).
    unfold stream_accepted, sc. cbn [sc_recs sc_cut]. rewrite Hdel.
    unfold rs, own_recs. cbv [seq map app scan r_type r_crit r_body Z.eqb Pos.eqb acc0 a_algo a_server a_port a_cookies].
    unfold algo_is_siv, has_cookie, cookies_fit. cbn [a_algo a_cookies app forallb]. unfold cookie_fits.
    repeat rewrite (proj2 (Z.leb_le _ _) (Hfit _)). reflexivity. }
  rewrite Hacc in H. destruct Hex as [c2s [s2c [Hc Hs]]]. exists c2s, s2c. split; [exact Hc|]. split; [exact Hs|].
  rewrite H. replace (expected_data_of quic ex sc) with (expected_data ex sc).
  2:{ destruct quic; [|reflexivity]. unfold expected_data_of, expected_data_quic, expected_data, scanned, sc.
      cbn [sc_recs sc_cut sc_host]. rewrite Hdel. unfold rs, own_recs.
      cbv [seq map app scan r_type r_crit r_body Z.eqb Pos.eqb acc0 a_algo a_server a_port a_cookies snd opt_bytes opt_z].
      reflexivity. }
  unfold expected_data, scanned, sc. cbn [sc_recs sc_cut sc_host]. rewrite Hdel, Hc, Hs.
  unfold rs, own_recs. cbv [seq map app scan r_type r_crit r_body Z.eqb Pos.eqb acc0 a_algo a_server a_port a_cookies snd opt_bytes opt_z].
  f_equal. f_equal. unfold body16, enc16. cbn [r_body nth]. lia.
Qed.

Theorem own_server_exchange ex mk ip port host : exporter_ok ex ->
  body_ok ip -> (forall i, body_ok (mk i)) -> (forall i, Z.of_nat (length (mk i)) <= 896) -> 0 <= port < 65536 ->
  exists c2s s2c,
    ex exporter_label ctx_c2s key_len = Some c2s /\ ex exporter_label ctx_s2c key_len = Some s2c /\
    exchange_keys ex {| p_up := true; p_alpn := [alpn_ntske]; p_host := host; p_stream := server_msg mk ip port |}
    = ({| k_c2s := c2s; k_s2c := s2c; k_server := ip; k_port := port;
          k_cookies := map mk (seq 0 8); k_algo := 15 |}, 0).
Proof. exact (own_server_exchange_of false ex kzero mk ip port host). Qed.

Theorem own_server_exchange_quic ex st mk ip port host : exporter_ok ex ->
  body_ok ip -> (forall i, body_ok (mk i)) -> (forall i, Z.of_nat (length (mk i)) <= 896) -> 0 <= port < 65536 ->
  exists c2s s2c,
    ex exporter_label ctx_c2s key_len = Some c2s /\ ex exporter_label ctx_s2c key_len = Some s2c /\
    exchange_keys_quic ex st {| p_up := true; p_alpn := [alpn_ntske]; p_host := host; p_stream := server_msg mk ip port |}
    = ({| k_c2s := c2s; k_s2c := s2c; k_server := ip; k_port := port;
          k_cookies := map mk (seq 0 8); k_algo := 15 |}, 0).
Proof. exact (own_server_exchange_of true ex st mk ip port host). Qed.

(* ---------- overlapping calls: the model serialises them, so the serial order it took is a
   candidate the oracle accepts ---------- *)
Theorem overlap_oracle_holds_on_model quic ms cands : Forall mop_ok ms ->
  In (map op_of ms, model_run quic kzero ms) cands ->
  C20_overlap_ok quic cands (model_final quic kzero ms) = true.
Proof.
  intros Hok Hin. unfold C20_overlap_ok. apply existsb_exists.
  exists (map op_of ms, model_run quic kzero ms). split; [exact Hin|].
  unfold cand_ok. cbn [fst snd].
  destruct (oracle_end_gen quic ms kzero os0 Rel_init Hok) as [ost' [He HR]]. rewrite He.
  apply final_ok_Rel. exact HR.
Qed.

(* ---------- fixed-size records with bodies of another length than 2 (known finding) ----------
   ReadData reads exactly two bytes of a next-protocol, algorithm, port or error record whatever
   its length field says; with another length every later record boundary moves.  Witness: the
   algorithm record lists 15 and 1 (4 bytes); the bytes 00 01 and the header of the critical
   error record that follows are read as a next-protocol record, the error code and the header of
   an empty unrecognised record as another one, and the exchange succeeds. *)
Definition ex_ctx : exporter := fun _ ctx _ => Some ctx.

Definition sc_hidden : script :=
  {| sc_mode := 0; sc_alpn := [ntske1];
     sc_recs := [ {| r_type := 1; r_crit := true; r_body := [0; 0] |};
                  {| r_type := 4; r_crit := true; r_body := [0; 15; 0; 1] |};
                  {| r_type := 2; r_crit := true; r_body := [0; 1] |};
                  {| r_type := 16384; r_crit := false; r_body := [] |};
                  {| r_type := 5; r_crit := false; r_body := [7; 7; 7; 7] |};
                  {| r_type := 0; r_crit := true; r_body := [] |} ];
     sc_tail := []; sc_cut := 100; sc_host := [49] |}.

Lemma ex_ctx_ok : exporter_ok ex_ctx.
Proof. exists ctx_c2s, ctx_s2c. split; reflexivity. Qed.

Lemma hidden_witness :
  sc_framed sc_hidden = true /\
  (exists r, In r (delivered (sc_recs sc_hidden) (sc_cut sc_hidden)) /\ r_type r = 2 /\ r_crit r = true) /\
  stream_accepted (sc_recs sc_hidden) (sc_cut sc_hidden) = false /\
  exchange_keys ex_ctx (peer_of_script sc_hidden)
  = ({| k_c2s := ctx_c2s; k_s2c := ctx_s2c; k_server := [49]; k_port := 123; k_cookies := [[7; 7; 7; 7]]; k_algo := 15 |}, 0) /\
  exchange_keys_quic ex_ctx kzero (peer_of_script sc_hidden)
  = ({| k_c2s := ctx_c2s; k_s2c := ctx_s2c; k_server := [49]; k_port := 10123; k_cookies := [[7; 7; 7; 7]]; k_algo := 15 |}, 0).
Proof.
  split; [vm_compute; reflexivity|]. split.
  - exists {| r_type := 2; r_crit := true; r_body := [0; 1] |}. split; [vm_compute; tauto|split; reflexivity].
  - repeat split; vm_compute; reflexivity.
Qed.

Lemma error_record_hidden_refuted :
  ~ (forall quic ex st sc, sc_framed sc = true -> exporter_ok ex ->
       snd (exchange_keys_of quic ex st (peer_of_script sc)) = 0 ->
       stream_accepted (sc_recs sc) (sc_cut sc) = true).
Proof.
  intro H. destruct hidden_witness as [Hf [_ [Hna [Hx _]]]].
  specialize (H false ex_ctx kzero sc_hidden Hf ex_ctx_ok). cbn [exchange_keys_of] in H. rewrite Hx in H.
  specialize (H eq_refl). rewrite Hna in H. discriminate H.
Qed.

(* what does hold: a strict script (fixed-size records with 2-byte bodies) is framed, and for it
   the code's parse is the framed parse (read_script), so the framed oracle accepts the model *)
Lemma strict_framed sc : sc_strict sc = true -> sc_framed sc = true.
Proof.
  unfold sc_strict, sc_framed. intro H. apply andb_true_iff in H as [H1 H2]. rewrite H2, andb_true_r.
  apply forallb_forall. intros r Hin. rewrite forallb_forall in H1. specialize (H1 r Hin).
  unfold rec_canonical in H1. unfold rec_framed. apply andb_true_iff in H1 as [H1 _]. exact H1.
Qed.

Definition mop_strict (m : mop) : Prop := match m with MFetch sc _ => sc_strict sc = true | MStore _ => True end.

Lemma framed_step_model quic ex st sc : sc_strict sc = true -> exporter_ok ex ->
  framed_step_ok sc (snd (model_fetch quic ex st sc)) = true.
Proof.
  intros Hs Hex. unfold framed_step_ok, model_fetch, fetch_data.
  destruct (k_cookies st) as [|c rest].
  - pose proof (exchange_strict_of quic ex st sc Hs Hex) as Hstr.
    destruct (exchange_keys_of quic ex st (peer_of_script sc)) as [d e].
    destruct (e =? 0) eqn:He.
    + apply Z.eqb_eq in He. subst e. cbn [snd] in Hstr.
      destruct (stream_accepted (sc_recs sc) (sc_cut sc)).
      * destruct (sc_framed sc && _ && _); reflexivity.
      * rewrite andb_false_r in Hstr. contradiction.
    + cbn [fo_exchanged fo_err fo_data andb snd fst].
      destruct (negb (sc_mode sc =? 1)); [destruct (peer_handshake quic sc)|];
        cbn [snd o_conns o_err]; rewrite He, ?andb_false_r; reflexivity.
  - cbn [fo_exchanged fo_err fo_data andb snd fst o_conns]. rewrite andb_false_r. reflexivity.
Qed.

Lemma framed_holds_strict quic ms : Forall mop_ok ms -> Forall mop_strict ms -> forall st,
  framed_hist_ok (map op_of ms) (model_run quic st ms) = true.
Proof.
  induction ms as [|m ms IH]; intros Hok Hst st; [reflexivity|].
  inversion Hok as [|? ? Hm Hms]; subst. inversion Hst as [|? ? Hs Hss]; subst.
  destruct m as [sc ex|c]; cbn [map op_of model_run framed_hist_ok].
  - pose proof (framed_step_model quic ex st sc Hs Hm) as Hf.
    destruct (model_fetch quic ex st sc) as [st' o]. cbn [snd] in Hf. cbn [framed_hist_ok].
    rewrite Hf. apply IH; assumption.
  - apply IH; assumption.
Qed.

Theorem framed_oracle_holds_strict quic ms : Forall mop_ok ms -> Forall mop_strict ms ->
  C20_framed_ok quic (map op_of ms) (model_run quic kzero ms) = true.
Proof.
  intros Hok Hst. unfold C20_framed_ok. rewrite (oracle_holds_on_model quic ms Hok), (framed_holds_strict quic ms Hok Hst kzero). reflexivity.
Qed.
