(* Rounding-error analysis of the model of clocks.SystemClock.Drift (Model/Units.v sysclk_drift):

     Drift(d) = int64( (d.Seconds() * drift.Seconds()) * 1e9 ),
     x.Seconds() = float64(x / 1e9) + float64(x % 1e9) / 1e9

   Six float64 roundings (two per Seconds(), two products) and one truncation.  The int64 ->
   float64 conversions are exact (quotient < 2^34, remainder < 1e9, 1e9 itself); every rounding has
   relative error at most u = 2^-53 (Flocq relative_error_N_FLT_ex; no operand is in the subnormal
   range, no result overflows), so the value that is truncated lies within a factor (1 +- u)^6,
   i.e. within 2^-50 relative, of drift_ns * d / 1e9; the truncation of a non-negative number is
   its floor and loses less than 1 ns.  Range: 0 < drift_ns, 0 < d, both int64, and
   drift_ns * d < 2^62 * 1e9 - the whole range of the drift oracle C01_drift_ok. *)
From Coq Require Import ZArith List Bool Lia Reals Lra Psatz.
From ST Require Import Base.Ints Base.F64 Model.NtpTime Model.Units Model.Sync Proofs.SyncProofs.
From Flocq Require Import Core.Core Relative IEEE754.BinarySingleNaN.
Open Scope Z_scope.

Definition u : R := bpow radix2 (-53).

Lemma u_val : u = (/ 9007199254740992)%R.
Proof. unfold u. simpl. reflexivity. Qed.

Lemma half_ulp : (/2 * bpow radix2 (- prec + 1) = u)%R.
Proof. rewrite u_val. unfold prec. simpl. lra. Qed.

Lemma RN_rel x : (bpow radix2 (-1022) <= Rabs x)%R -> exists e, (Rabs e <= u)%R /\ RN x = (x * (1 + e))%R.
Proof.
  intros H.
  destruct (relative_error_N_FLT_ex radix2 (SpecFloat.emin prec emax) prec Hprec (fun z => negb (Z.even z)) x H) as [e [E1 E2]].
  exists e. split; [rewrite <- half_ulp; exact E1|exact E2].
Qed.

Lemma num6 : ((1 + u)^6 <= 1 + / 1125899906842624 /\ 1 - / 1125899906842624 <= (1 - u)^6)%R.
Proof. rewrite u_val. split; lra. Qed.

Lemma u_range : (0 < u < 1)%R.
Proof. rewrite u_val. lra. Qed.

Definition close (k : nat) (x X : R) : Prop := (X * (1 - u)^k <= x <= X * (1 + u)^k)%R.

Lemma pow_lo_pos k : (0 < (1 - u)^k)%R.
Proof. apply pow_lt. pose proof u_range. lra. Qed.
Lemma pow_hi_pos k : (0 < (1 + u)^k)%R.
Proof. apply pow_lt. pose proof u_range. lra. Qed.

Lemma close_refl X : close 0 X X.
Proof. unfold close. simpl. lra. Qed.

Lemma close_nonneg k x X : (0 <= X)%R -> close k x X -> (0 <= x)%R.
Proof. intros HX [H _]. pose proof (pow_lo_pos k). set (P := ((1 - u)^k)%R) in *. nra. Qed.

Lemma close_weak k x X : (0 <= X)%R -> close k x X -> close (S k) x X.
Proof.
  intros HX [H1 H2]. pose proof u_range. pose proof (pow_lo_pos k). pose proof (pow_hi_pos k).
  unfold close. simpl. set (P := ((1 - u)^k)%R) in *. set (Q := ((1 + u)^k)%R) in *.
  assert (0 <= X * P)%R by nra. assert (0 <= X * Q)%R by nra.
  split; nra.
Qed.

Lemma close_err k x X e : (0 <= X)%R -> close k x X -> (Rabs e <= u)%R -> close (S k) (x * (1 + e)) X.
Proof.
  intros HX [H1 H2] He. pose proof u_range. pose proof (pow_lo_pos k). pose proof (pow_hi_pos k).
  apply Rabs_le_inv in He.
  unfold close. simpl. set (P := ((1 - u)^k)%R) in *. set (Q := ((1 + u)^k)%R) in *.
  assert (0 <= X * P)%R by nra. assert (0 <= x)%R by nra.
  split.
  - apply Rle_trans with (x * (1 - u))%R; nra.
  - apply Rle_trans with (x * (1 + u))%R; nra.
Qed.

Lemma close_mul j k x X y Y : (0 <= X)%R -> (0 <= Y)%R -> close j x X -> close k y Y -> close (j + k) (x * y) (X * Y).
Proof.
  intros HX HY [A1 A2] [B1 B2].
  pose proof (pow_lo_pos j). pose proof (pow_hi_pos j). pose proof (pow_lo_pos k). pose proof (pow_hi_pos k).
  unfold close. rewrite !pow_add.
  assert (0 <= x)%R by nra. assert (0 <= y)%R by nra.
  split.
  - replace (X * Y * ((1 - u) ^ j * (1 - u) ^ k))%R with ((X * (1 - u) ^ j) * (Y * (1 - u) ^ k))%R by ring.
    apply Rmult_le_compat; nra.
  - replace (X * Y * ((1 + u) ^ j * (1 + u) ^ k))%R with ((X * (1 + u) ^ j) * (Y * (1 + u) ^ k))%R by ring.
    apply Rmult_le_compat; nra.
Qed.

Lemma close_add k x X y Y : close k x X -> close k y Y -> close k (x + y) (X + Y).
Proof. intros [A1 A2] [B1 B2]. unfold close. split; lra. Qed.

Lemma close6 x X : (0 <= X)%R -> close 6 x X ->
  (X * (1 - / 1125899906842624) <= x <= X * (1 + / 1125899906842624))%R.
Proof. intros HX [A B]. destruct num6 as [N1 N2]. split; nra. Qed.

Lemma close_half k x X : (k <= 6)%nat -> (0 <= X)%R -> close k x X -> (X / 2 <= x <= 2 * X)%R.
Proof.
  intros Hk HX C. assert (C6 : close 6 x X).
  { clear -Hk HX C. induction Hk; [exact C|]. apply close_weak; assumption. }
  apply close6 in C6; [|exact HX]. lra.
Qed.

(* ---- the operations, when the rounded result stays below 2^1024 ---- *)
Lemma fmul_val x y : is_finite x = true -> is_finite y = true ->
  (Rabs (RN (B2R x * B2R y)) < bpow radix2 emax)%R ->
  B2R (fmul x y) = RN (B2R x * B2R y) /\ is_finite (fmul x y) = true.
Proof.
  intros Hx Hy Hb. unfold fmul. generalize (Bmult_correct prec emax Hprec Hmax mode_NE x y).
  fold (RN (B2R x * B2R y)). rewrite Rlt_bool_true by exact Hb.
  intros [A [B _]]. rewrite Hx, Hy in B. auto.
Qed.

Lemma fdiv_val x y : is_finite x = true -> B2R y <> 0%R ->
  (Rabs (RN (B2R x / B2R y)) < bpow radix2 emax)%R ->
  B2R (fdiv x y) = RN (B2R x / B2R y) /\ is_finite (fdiv x y) = true.
Proof.
  intros Hx Hy Hb. unfold fdiv. generalize (Bdiv_correct prec emax Hprec Hmax mode_NE x y Hy).
  fold (RN (B2R x / B2R y)). rewrite Rlt_bool_true by exact Hb.
  intros [A [B _]]. rewrite Hx in B. auto.
Qed.

Lemma fadd_val x y : is_finite x = true -> is_finite y = true ->
  (Rabs (RN (B2R x + B2R y)) < bpow radix2 emax)%R ->
  B2R (fadd x y) = RN (B2R x + B2R y) /\ is_finite (fadd x y) = true.
Proof.
  intros Hx Hy Hb. unfold fadd. generalize (Bplus_correct prec emax Hprec Hmax mode_NE x y Hx Hy).
  fold (RN (B2R x + B2R y)). rewrite Rlt_bool_true by exact Hb.
  intros [A [B _]]. auto.
Qed.

Lemma no_ovf r : (0 <= r <= bpow radix2 100)%R -> (Rabs (RN r) < bpow radix2 emax)%R.
Proof.
  intros [H0 H1].
  assert (0 <= RN r)%R by (rewrite <- RN_0; apply RN_le; exact H0).
  assert (RN r <= bpow radix2 100)%R.
  { rewrite <- (RN_id_format (bpow radix2 100)) by (apply format_pow2; lia). apply RN_le. exact H1. }
  rewrite Rabs_pos_eq by assumption. eapply Rle_lt_trans; [eassumption|]. apply bpow_lt. reflexivity.
Qed.

Lemma RN_rel_pos r : (bpow radix2 (-1022) <= r)%R -> exists e, (Rabs e <= u)%R /\ RN r = (r * (1 + e))%R.
Proof.
  intros H. apply RN_rel. pose proof (bpow_gt_0 radix2 (-1022)). rewrite Rabs_pos_eq by lra. exact H.
Qed.

Lemma f_of_int_exact z : Z.abs z <= 2^53 -> B2R (f_of_int z) = IZR z /\ is_finite (f_of_int z) = true.
Proof.
  intros Hz. destruct (f_of_int_correct z) as [A B]; [lia|]. split; [|exact B].
  rewrite A. apply RN_id_format. apply format_int. exact Hz.
Qed.

Lemma tiny : (bpow radix2 (-1022) <= / 100000000000000000000)%R.
Proof.
  apply Rle_trans with (bpow radix2 (-70)).
  - apply bpow_le. lia.
  - simpl. lra.
Qed.

Ltac Zify.zify_post_hook ::= Z.to_euclidean_division_equations.

Lemma le_bpow100 r : (r <= IZR (2^63))%R -> (r <= bpow radix2 100)%R.
Proof.
  intros H. eapply Rle_trans; [exact H|]. change (IZR (2^63)) with (bpow radix2 63). apply bpow_le. lia.
Qed.

(* time.Duration.Seconds() of a positive duration: two roundings away from x / 1e9 *)
Lemma dur_seconds_close x : 0 < x <= max_i64 ->
  is_finite (dur_seconds x) = true /\ close 2 (B2R (dur_seconds x)) (IZR x / 1000000000).
Proof.
  intros Hx. unfold max_i64 in Hx. unfold dur_seconds.
  set (q := Z.quot x 1000000000). set (r := Z.rem x 1000000000).
  assert (Hqr : x = 1000000000 * q + r /\ 0 <= r < 1000000000 /\ 0 <= q <= 9223372036) by (unfold q, r; lia).
  destruct Hqr as [Ex [Hr Hq]].
  destruct (f_of_int_exact q) as [Vq Fq]; [lia|].
  destruct (f_of_int_exact r) as [Vr Fr]; [lia|].
  destruct (f_of_int_exact 1000000000) as [V9 F9]; [lia|].
  assert (Rq : (0 <= IZR q <= 9223372036)%R) by (split; apply IZR_le; lia).
  assert (Rr : (0 <= IZR r <= 1000000000)%R) by (split; apply IZR_le; lia).
  assert (EX : (IZR x / 1000000000 = IZR q + IZR r / 1000000000)%R).
  { rewrite Ex, plus_IZR, mult_IZR. field. }
  assert (X1 : (/ 1000000000 <= IZR x / 1000000000)%R).
  { assert (1 <= IZR x)%R by (apply IZR_le; lia). lra. }
  (* the quotient *)
  destruct (fdiv_val (f_of_int r) (f_of_int 1000000000)) as [Vt Ft].
  { exact Fr. } { rewrite V9. lra. }
  { rewrite Vr, V9. apply no_ovf. split; [lra|]. apply le_bpow100. simpl. lra. }
  rewrite Vr, V9 in Vt.
  assert (Ct : close 1 (B2R (fdiv (f_of_int r) (f_of_int 1000000000))) (IZR r / 1000000000)).
  { rewrite Vt. destruct (Z.eq_dec r 0) as [E0|N0].
    - rewrite E0. replace (0 / 1000000000)%R with 0%R by lra. rewrite RN_0. unfold close. lra.
    - assert (1 <= IZR r)%R by (apply IZR_le; lia).
      destruct (RN_rel_pos (IZR r / 1000000000)) as [e1 [B1 E1]].
      { eapply Rle_trans; [apply tiny|]. lra. }
      rewrite E1. apply close_err; [lra|apply close_refl|exact B1]. }
  (* the sum *)
  set (t := fdiv (f_of_int r) (f_of_int 1000000000)) in *.
  assert (Cs : close 1 (IZR q + B2R t) (IZR x / 1000000000)).
  { rewrite EX. apply close_add; [|exact Ct]. apply close_weak; [lra|apply close_refl]. }
  assert (Hs : (IZR x / 1000000000 / 2 <= IZR q + B2R t <= 2 * (IZR x / 1000000000))%R).
  { apply (close_half 1); [lia|lra|exact Cs]. }
  destruct (fadd_val (f_of_int q) t) as [Vs Fs]; [exact Fq|exact Ft| |].
  { rewrite Vq. apply no_ovf. split; [lra|]. apply le_bpow100. simpl. lra. }
  split; [exact Fs|]. rewrite Vs, Vq.
  destruct (RN_rel_pos (IZR q + B2R t)) as [e2 [B2 E2]].
  { eapply Rle_trans; [apply tiny|]. lra. }
  rewrite E2. apply close_err; [lra|exact Cs|exact B2].
Qed.

Lemma close_scale k x X c : (0 <= X)%R -> (0 <= c)%R -> close k x X -> close k (x * c) (X * c).
Proof.
  intros HX Hc C. replace k with (k + 0)%nat by lia. apply close_mul; [exact HX|exact Hc|exact C|apply close_refl].
Qed.

Lemma feq_pos_zero x : is_finite x = true -> (0 < B2R x)%R -> feq x fzero = false.
Proof.
  intros Hf Hp. unfold feq, fcmp. rewrite Bcompare_correct by (exact Hf || reflexivity).
  change (B2R fzero) with 0%R. rewrite Rcompare_Gt by exact Hp. reflexivity.
Qed.

(* SystemClock.Drift in real numbers: the floor of a number within 2^-50 (relative) of drift x interval / 1e9 *)
Lemma sysclk_drift_real a b : 0 < a <= max_i64 -> 0 < b <= max_i64 -> a * b < 2^62 * 1000000000 ->
  exists P : R, sysclk_drift a b = (Zfloor P) /\ (IZR (a * b) / 1000000000 * (1 - / 1125899906842624) <= P <= IZR (a * b) / 1000000000 * (1 + / 1125899906842624))%R.
Proof.
  intros Ha Hb Hab.
  destruct (dur_seconds_close a Ha) as [Fa Ca]. destruct (dur_seconds_close b Hb) as [Fb Cb].
  destruct (f_of_int_exact 1000000000) as [V9 F9]; [lia|].
  unfold max_i64 in Ha, Hb. change (2^62 * 1000000000) with 4611686018427387904000000000 in Hab.
  assert (Ra : (1 <= IZR a)%R) by (apply IZR_le; lia).
  assert (Rb : (1 <= IZR b)%R) by (apply IZR_le; lia).
  assert (Rab : (1 <= IZR (a * b) < 4611686018427387904000000000)%R).
  { split; [apply IZR_le; nia|apply IZR_lt; exact Hab]. }
  set (A := (IZR a / 1000000000)%R) in *. set (B := (IZR b / 1000000000)%R) in *.
  set (Q := (IZR (a * b) / 1000000000)%R).
  assert (EQ : (B * A * 1000000000 = Q)%R) by (unfold A, B, Q; rewrite mult_IZR; field).
  assert (HQ : (/ 1000000000 <= Q < 4611686018427387904)%R) by (unfold Q; lra).
  assert (HA : (0 <= A)%R) by (unfold A; lra). assert (HB : (0 <= B)%R) by (unfold B; lra).
  assert (HBA : (0 <= B * A)%R) by nra.
  assert (EBA : (B * A = Q / 1000000000)%R) by (rewrite <- EQ; field).
  set (sa := dur_seconds a) in *. set (sb := dur_seconds b) in *.
  (* drift is not 0 *)
  assert (Pa : (0 < B2R sa)%R).
  { destruct (close_half 2 _ _ ltac:(lia) HA Ca) as [L _]. unfold A in L. lra. }
  unfold sysclk_drift. fold sa. fold sb. rewrite (feq_pos_zero sa Fa Pa).
  (* Seconds() * drift *)
  assert (C1 : close 4 (B2R sb * B2R sa) (B * A)) by (apply (close_mul 2 2); assumption).
  destruct (close_half 4 _ _ ltac:(lia) HBA C1) as [L1 U1].
  destruct (fmul_val sb sa Fb Fa) as [V1 F1].
  { apply no_ovf. split; [lra|]. apply le_bpow100. simpl. lra. }
  destruct (RN_rel_pos (B2R sb * B2R sa)) as [e3 [B3 E3]].
  { eapply Rle_trans; [apply tiny|]. lra. }
  assert (C2 : close 5 (B2R (fmul sb sa)) (B * A)).
  { rewrite V1, E3. apply close_err; assumption. }
  (* ... * float64(time.Second) *)
  assert (C3 : close 5 (B2R (fmul sb sa) * 1000000000) Q).
  { rewrite <- EQ. apply close_scale; [exact HBA|lra|exact C2]. }
  assert (HQ0 : (0 <= Q)%R) by lra.
  destruct (close_half 5 _ _ ltac:(lia) HQ0 C3) as [L3 U3].
  unfold dur_of_seconds.
  destruct (fmul_val (fmul sb sa) (f_of_int 1000000000) F1 F9) as [V2 F2].
  { rewrite V9. apply no_ovf. split; [lra|]. apply le_bpow100. simpl. lra. }
  rewrite V9 in V2.
  destruct (RN_rel_pos (B2R (fmul sb sa) * 1000000000)) as [e4 [B4 E4]].
  { eapply Rle_trans; [apply tiny|]. lra. }
  set (p := fmul (fmul sb sa) (f_of_int 1000000000)) in *.
  assert (C4 : close 6 (B2R p) Q).
  { rewrite V2, E4. apply close_err; assumption. }
  pose proof (close6 _ _ HQ0 C4) as [L4 U4].
  exists (B2R p). split; [|split; assumption].
  rewrite f_to_i64_val.
  - apply Ztrunc_floor. nra.
  - exact F2.
  - rewrite Rabs_pos_eq by nra. unfold two63. simpl. lra.
Qed.

(* ... in integers: |Drift * 1e9 - drift_ns * interval| <= 1e9 + drift_ns * interval / 2^50 *)
Theorem sysclk_drift_bound a b : 0 < a <= max_i64 -> 0 < b <= max_i64 -> a * b < 2^62 * 1000000000 ->
  let D := sysclk_drift a b in
  0 <= D <= max_i64 /\ Z.abs (D * 1000000000 - a * b) * 2^50 <= 1000000000 * 2^50 + a * b.
Proof.
  intros Ha Hb Hab. cbv zeta.
  destruct (sysclk_drift_real a b Ha Hb Hab) as [P [-> [L U]]].
  change (2^62 * 1000000000) with 4611686018427387904000000000 in Hab. unfold max_i64 in *.
  change (2^50) with 1125899906842624.
  assert (Rab : (1 <= IZR (a * b) < 4611686018427387904000000000)%R).
  { split; [apply IZR_le; nia|apply IZR_lt; exact Hab]. }
  pose proof (Zfloor_lb P) as F1. pose proof (Zfloor_ub P) as F2.
  set (D := Zfloor P) in *. set (q := a * b) in *.
  assert (H0 : 0 <= D) by (apply Zfloor_lub; simpl; nra).
  assert (H1 : D <= 9223372036854775807).
  { apply Z.lt_succ_r. apply lt_IZR. eapply Rle_lt_trans; [exact F1|]. simpl. lra. }
  assert (H2 : (D * 1000000000 - q) * 1125899906842624 <= 1000000000 * 1125899906842624 + q).
  { apply le_IZR. rewrite plus_IZR, !mult_IZR, minus_IZR, mult_IZR. lra. }
  assert (H3 : - (D * 1000000000 - q) * 1125899906842624 <= 1000000000 * 1125899906842624 + q).
  { apply le_IZR. rewrite plus_IZR, !mult_IZR, opp_IZR, minus_IZR, mult_IZR. lra. }
  lia.
Qed.

(* the model of SystemClock.Drift satisfies the drift oracle of C01 for every int64 drift and interval *)
Theorem sysclk_drift_close a b : in_i64 a -> in_i64 b -> C01_drift_ok a b (sysclk_drift a b) = true.
Proof.
  intros Ia Ib. unfold C01_drift_ok.
  destruct (0 <? a) eqn:Ea; [|reflexivity]. destruct (0 <? b) eqn:Eb; [|reflexivity].
  destruct (a * b <? 2^62 * 1000000000) eqn:Eab; [|reflexivity]. cbn [andb].
  unfold in_i64 in Ia, Ib.
  destruct (sysclk_drift_bound a b) as [_ H]; [lia|lia|lia|].
  cbv zeta in H. revert H. change (2^50) with 1125899906842624. change (2^48) with 281474976710656.
  set (z := Z.abs (sysclk_drift a b * 1000000000 - a * b)). intros H.
  assert (0 < a * b) by nia. apply Z.leb_le. lia.
Qed.

Example sysclk_drift_close_inhabited :
  sysclk_drift 50000 1000000000 = 50000 /\ C01_drift_ok 50000 1000000000 50000 = true /\
  C01_drift_ok 50000 1000000000 50002 = false.
Proof. vm_compute. repeat split; reflexivity. Qed.

(* rounding a non-negative integer: zero, or relative error at most u *)
Lemma RN_int_rel n : 0 <= n -> exists e, (Rabs e <= u)%R /\ RN (IZR n) = (IZR n * (1 + e))%R.
Proof.
  intros Hn. destruct (Z.eq_dec n 0) as [->|N0].
  - exists 0%R. rewrite RN_0. pose proof u_range. split; [rewrite Rabs_R0; lra|lra].
  - apply RN_rel_pos. assert (1 <= IZR n)%R by (apply IZR_le; lia).
    eapply Rle_trans; [apply tiny|]. lra.
Qed.

Lemma cap_value f D : is_finite (cap f D) = true -> Z.abs D <= 2^64 ->
  B2R (cap f D) = RN (B2R f * RN (IZR D)).
Proof.
  intros Hc HD. destruct (f_of_int_correct D HD) as [E1 E2].
  generalize (Bmult_correct prec emax Hprec Hmax mode_NE f (f_of_int D)). rewrite E1.
  fold (fmul f (f_of_int D)). fold (cap f D). fold (RN (B2R f * RN (IZR D))).
  case Rlt_bool_spec; [intros _ [A _]; exact A|].
  intros _ R. exfalso. destruct (cap f D); try discriminate.
Qed.

Lemma num_cap : ((1 + / 1125899906842624) * ((1 + u) * (1 + u)) <= (1 + / 562949953421312) * (1 - u))%R.
Proof. rewrite u_val. lra. Qed.

(* With the real SystemClock, a correction that passes the code's comparison against the cap
   impact x Drift(interval) is bounded by the exact product impact x drift x interval (in ns),
   up to 2^-49 relative: the three roundings of the cap and the comparison and the six of Drift. *)
Theorem within_cap_exact_product f a b c :
  is_finite f = true -> (1 <= B2R f)%R ->
  0 < a <= max_i64 -> 0 < b <= max_i64 -> a * b < 2^62 * 1000000000 -> Z.abs c <= 2^64 ->
  is_finite (cap f (sysclk_drift a b)) = true -> within c (cap f (sysclk_drift a b)) = true ->
  (IZR (Z.abs c) <= B2R f * (IZR (a * b) / 1000000000) * (1 + / 562949953421312))%R.
Proof.
  intros Ff Hf Ha Hb Hab Hc Fc W.
  destruct (sysclk_drift_real a b Ha Hb Hab) as [P [ED [L U]]].
  destruct (sysclk_drift_bound a b Ha Hb Hab) as [[D0 D1] _]. cbv zeta in D0, D1.
  assert (Rab : (1 <= IZR (a * b))%R) by (apply IZR_le; nia).
  set (Q := (IZR (a * b) / 1000000000)%R) in *. assert (HQ : (0 < Q)%R) by (unfold Q; lra).
  set (D := sysclk_drift a b) in *.
  assert (HD : (0 <= IZR D <= Q * (1 + / 1125899906842624))%R).
  { split; [apply IZR_le; exact D0|]. eapply Rle_trans; [|exact U]. rewrite ED. apply Zfloor_lb. }
  rewrite within_real in W by assumption.
  rewrite cap_value in W by (assumption || (unfold max_i64 in D1; lia)).
  revert W. case Rle_bool_spec; [|discriminate]. intros W _.
  destruct (RN_int_rel D D0) as [e1 [B1 E1]]. rewrite E1 in W.
  apply Rabs_le_inv in B1. pose proof u_range as Hu. assert (Hu2 : (u <= / 2)%R) by (rewrite u_val; lra).
  destruct (RN_int_rel (Z.abs c) (Z.abs_nonneg c)) as [e3 [B3 E3]]. rewrite E3 in W.
  apply Rabs_le_inv in B3.
  assert (HC : (0 <= IZR (Z.abs c))%R) by (apply IZR_le; lia).
  set (C := IZR (Z.abs c)) in *. set (F := B2R f) in *. set (d := IZR D) in *.
  assert (Hprod : (0 <= F * (d * (1 + e1)))%R) by (apply Rmult_le_pos; [lra|apply Rmult_le_pos; lra]).
  assert (W2 : (C * (1 - u) <= F * (d * (1 + e1)) * (1 + u))%R).
  { destruct (Req_dec (F * (d * (1 + e1))) 0) as [Z0|NZ].
    - rewrite Z0, RN_0 in W. rewrite Z0. nra.
    - destruct (RN_rel_pos (F * (d * (1 + e1)))) as [e2 [B2 E2]].
      { (* d >= 1 here *)
        assert (d <> 0)%R by (intros Z; apply NZ; rewrite Z; ring).
        assert (1 <= d)%R. { unfold d. apply IZR_le. assert (D <> 0) by (intros Z; apply H; unfold d; rewrite Z; reflexivity). lia. }
        eapply Rle_trans; [apply tiny|]. apply Rle_trans with (1 * (1 * (1 - u)))%R; [lra|].
        apply Rmult_le_compat; try lra. apply Rmult_le_compat; lra. }
      rewrite E2 in W. apply Rabs_le_inv in B2. nra. }
  assert (W3 : (C * (1 - u) <= F * Q * ((1 + / 1125899906842624) * ((1 + u) * (1 + u))))%R).
  { eapply Rle_trans; [exact W2|].
    replace (F * Q * ((1 + / 1125899906842624) * ((1 + u) * (1 + u))))%R
      with (F * ((Q * (1 + / 1125899906842624)) * (1 + u)) * (1 + u))%R by ring.
    apply Rmult_le_compat_r; [lra|]. apply Rmult_le_compat_l; [lra|].
    apply Rmult_le_compat; lra. }
  pose proof num_cap as N.
  assert (FQ : (0 <= F * Q)%R) by (apply Rmult_le_pos; lra).
  assert (W4 : (C * (1 - u) <= F * Q * (1 + / 562949953421312) * (1 - u))%R).
  { eapply Rle_trans; [exact W3|].
    replace (F * Q * (1 + / 562949953421312) * (1 - u))%R with (F * Q * ((1 + / 562949953421312) * (1 - u)))%R by ring.
    apply Rmult_le_compat_l; [exact FQ|exact N]. }
  apply Rmult_le_reg_r with (1 - u)%R; [lra|exact W4].
Qed.

(* a drift allowance of more than 1 ns per round (drift_ns * interval > 1e9) is reported as a positive Drift,
   so that Run starts; below 1 ns the truncation gives 0 and Run refuses to start *)
Lemma sysclk_drift_pos a b : 0 < a <= max_i64 -> 0 < b <= max_i64 -> a * b < 2^62 * 1000000000 ->
  (1000000000 < a * b -> 0 < sysclk_drift a b) /\ (a * b < 1000000000 -> sysclk_drift a b = 0).
Proof.
  intros Ha Hb Hab. destruct (sysclk_drift_real a b Ha Hb Hab) as [P [-> [L U]]].
  assert (R1 : (1 <= IZR (a * b))%R) by (apply IZR_le; nia).
  split; intros H.
  - assert (R2 : (1000000001 <= IZR (a * b))%R) by (apply IZR_le; lia).
    apply Z.lt_le_trans with 1; [lia|]. apply Zfloor_lub. simpl. lra.
  - assert (R2 : (IZR (a * b) <= 999999999)%R) by (apply IZR_le; lia).
    apply Zfloor_imp. simpl. lra.
Qed.

Example within_cap_exact_product_inhabited :
  let f := c_peer wit_cfg in
  is_finite f = true /\ flt fone f = true /\ sysclk_drift 50000 1000000000 = 50000 /\
  is_finite (cap f (sysclk_drift 50000 1000000000)) = true /\ within 1000 (cap f (sysclk_drift 50000 1000000000)) = true.
Proof. vm_compute. repeat split; reflexivity. Qed.
