(* Proofs about Model/NtsAuth.v (C10). *)
From Coq Require Import ZArith List Bool Lia.
From ST Require Import Base.Ints Model.NtsAuth.
Import ListNotations.
Open Scope Z_scope.

Lemma bytes_eqb_eq : forall a b, bytes_eqb a b = true <-> a = b.
Proof.
  induction a as [|x a IH]; destruct b as [|y b]; simpl; split; intro H; try congruence; try discriminate.
  - apply andb_true_iff in H. destruct H as [H1 H2]. apply Z.eqb_eq in H1. apply IH in H2. congruence.
  - inversion H; subst. apply andb_true_iff. split. apply Z.eqb_refl. apply IH. reflexivity.
Qed.

Section CryptoProofs.
  Variable seal : bytes -> bytes -> option bytes -> bytes -> bytes.
  Variable open : bytes -> bytes -> option bytes -> bytes -> option bytes.
  Hypothesis open_seal : forall k n ad p, open k n ad (seal k n ad p) = Some p.
  Hypothesis open_only_seal : forall k n ad c p, open k n ad c = Some p -> c = seal k n ad p.
  Hypothesis seal_inj : forall k n ad p k' n' ad' p',
    seal k n ad p = seal k' n' ad' p' -> k = k' /\ n = n' /\ ad = ad' /\ p = p'.

  (* acceptance by authenticate means: the ciphertext of the packet is the seal,
     under the receiver's key and the packet's nonce, over exactly b[:pos] *)
  Lemma authenticate_sound : forall b key p p',
    authenticate open b key p = Ok p' ->
    key_ok key = true /\ length (p_nonce p) = 16%nat /\ (p_pos p <= length b)%nat /\
    exists pt, p_ct p = seal key (p_nonce p) (Some (firstn (p_pos p) b)) pt.
  Proof.
    intros b key p p' H. unfold authenticate in H.
    destruct (key_ok key) eqn:Hk; simpl in H; [|discriminate].
    destruct (length (p_nonce p) =? 16)%nat eqn:Hn; simpl in H; [|discriminate].
    destruct (length b <? p_pos p)%nat eqn:Hp; [discriminate|].
    destruct (open key (p_nonce p) (Some (firstn (p_pos p) b)) (p_ct p)) as [pt|] eqn:Ho; [|discriminate].
    apply Nat.eqb_eq in Hn. apply Nat.ltb_ge in Hp.
    repeat split; auto. exists pt. apply open_only_seal. exact Ho.
  Qed.
End CryptoProofs.
