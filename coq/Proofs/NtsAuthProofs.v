(* Proofs about Model/NtsAuth.v (C10). *)
From Coq Require Import ZArith List Bool Lia.
From ST Require Import Base.Ints Model.NtsAuth.
Import ListNotations.
Open Scope Z_scope.

Lemma bytes_eqb_eq : forall a b, bytes_eqb a b = true <-> a = b.
Proof.
  induction a as [|x a IH]; destruct b as [|y b]; simpl; split; intro H; try congruence; try discriminate.
  - apply andb_true_iff in H. destruct H as [H1 H2]. apply Z.eqb_eq in H1. apply IH in H2. congruence.
  - inversion H; subst. apply andb_true_iff. split. apply Z.eqb_refl. apply IH. reflexivity.
Qed.

Section CryptoProofs.
  Variable seal : bytes -> bytes -> option bytes -> bytes -> bytes.
  Variable open : bytes -> bytes -> option bytes -> bytes -> option bytes.
  Hypothesis open_seal : forall k n ad p, open k n ad (seal k n ad p) = Some p.
  Hypothesis open_only_seal : forall k n ad c p, open k n ad c = Some p -> c = seal k n ad p.
  Hypothesis seal_inj : forall k n ad p k' n' ad' p',
    seal k n ad p = seal k' n' ad' p' -> k = k' /\ n = n' /\ ad = ad' /\ p = p'.

  (* acceptance by authenticate means: the ciphertext of the packet is the seal,
     under the receiver's key and the packet's nonce, over exactly b[:pos] *)
  Lemma authenticate_sound : forall b key p p',
    authenticate open b key p = Ok p' ->
    key_ok key = true /\ length (p_nonce p) = 16%nat /\ (p_pos p <= length b)%nat /\
    exists pt, p_ct p = seal key (p_nonce p) (Some (firstn (p_pos p) b)) pt.
  Proof.
    intros b key p p' H. unfold authenticate in H.
    destruct (key_ok key) eqn:Hk; simpl in H; [|discriminate].
    destruct (length (p_nonce p) =? 16)%nat eqn:Hn; simpl in H; [|discriminate].
    destruct (length b <? p_pos p)%nat eqn:Hp; [discriminate|].
    destruct (open key (p_nonce p) (Some (firstn (p_pos p) b)) (p_ct p)) as [pt|] eqn:Ho; [|discriminate].
    apply Nat.eqb_eq in Hn. apply Nat.ltb_ge in Hp.
    repeat split; auto. exists pt. apply open_only_seal. exact Ho.
  Qed.
End CryptoProofs.

(* ------------- decoder: what DecodePacket = Ok says about the bytes ------------- *)
Lemma nthz_firstn : forall (b : bytes) A i, (i < A)%nat -> nthz (firstn A b) i = nthz b i.
Proof.
  unfold nthz. induction b as [|x b IH]; intros A i H.
  - rewrite firstn_nil. reflexivity.
  - destruct A as [|A]; [lia|]. destruct i as [|i]; simpl; [reflexivity|]. apply IH. lia.
Qed.

Lemma be16_firstn : forall b A pos, (pos + 2 <= A)%nat -> be16 (firstn A b) pos = be16 b pos.
Proof. intros. unfold be16. rewrite !nthz_firstn by lia. reflexivity. Qed.

Lemma skipn_firstn_comm' : forall (b : bytes) A m, (m <= A)%nat -> skipn m (firstn A b) = firstn (A - m) (skipn m b).
Proof. intros. rewrite skipn_firstn_comm. reflexivity. Qed.

Lemma take_pad_prefix : forall (b : bytes) A vpos n, (vpos + n <= A)%nat -> (A <= length b)%nat ->
  take_pad n (skipn vpos (firstn A b)) = take_pad n (skipn vpos b).
Proof.
  intros b A vpos n H1 H2. unfold take_pad.
  rewrite skipn_firstn_comm. rewrite firstn_firstn. replace (Nat.min n (A - vpos)) with n by lia.
  rewrite firstn_length, !skipn_length. f_equal. f_equal. lia.
Qed.

(* the part of the decoder state that the fields before the authenticator determine *)
Definition core (s : dstate) : bytes * list bytes * nat * bool :=
  (p_uid (d_pkt s), p_cookies (d_pkt s), p_nph (d_pkt s), d_uid s).

(* the walk of DecodePacket over the fields that precede the authenticator,
   as a function of those bytes alone *)
Fixpoint scan (fuel : nat) (pre : bytes) (pos : nat) (s : dstate) : option dstate :=
  if (pos =? length pre)%nat then Some s else
  match fuel with
  | O => None
  | S f => match decode_field pre pos s with
           | Ok (next, s') => if d_auth s' then None else scan f pre next s'
           | _ => None
           end
  end.

Lemma scan_S : forall f pre pos s,
  scan (S f) pre pos s =
  if (pos =? length pre)%nat then Some s else
  match decode_field pre pos s with
  | Ok (next, s') => if d_auth s' then None else scan f pre next s'
  | _ => None
  end.
Proof. reflexivity. Qed.

Lemma decode_field_next : forall b pos s next s',
  decode_field b pos s = Ok (next, s') ->
  4 <= be16 b (pos + 2) /\ next = (pos + Z.to_nat (be16 b (pos + 2)))%nat /\
  (d_auth s' = true <-> (be16 b pos = extAuthenticator \/ d_auth s = true)).
Proof.
  intros b pos s next s' H. unfold decode_field in H.
  destruct (be16 b (pos + 2) <? 4) eqn:Hl; [discriminate|]. apply Z.ltb_ge in Hl.
  destruct (be16 b pos =? extUniqueIdentifier) eqn:H1.
  { apply Z.eqb_eq in H1. destruct (be16 b (pos + 2) - 4 <? 32); [discriminate|]. inversion H; subst; simpl.
    repeat split; auto; try lia; try (intros [E|E]; auto; rewrite H1 in E; discriminate). }
  destruct (be16 b pos =? extAuthenticator) eqn:H2.
  { apply Z.eqb_eq in H2. destruct (unpack_auth b (pos + 4)) as [n c]. inversion H; subst; simpl. repeat split; auto; try lia. }
  apply Z.eqb_neq in H2.
  destruct (be16 b pos =? extCookie) eqn:H3.
  { inversion H; subst; simpl. repeat split; auto; try lia; try (intros [E|E]; auto; contradiction). }
  destruct (be16 b pos =? extCookiePlaceholder) eqn:H4.
  { inversion H; subst; simpl. repeat split; auto; try lia; try (intros [E|E]; auto; contradiction). }
  inversion H; subst. repeat split; auto; try lia; try (intros [E|E]; auto; contradiction).
Qed.

Lemma decode_field_prefix : forall b A pos s,
  (A <= length b)%nat -> (pos + Z.to_nat (be16 b (pos + 2)) <= A)%nat -> 4 <= be16 b (pos + 2) ->
  be16 b pos <> extAuthenticator ->
  decode_field (firstn A b) pos s = decode_field b pos s.
Proof.
  intros b A pos s HA Hn Hl Ht. unfold decode_field.
  assert (E1 : be16 (firstn A b) pos = be16 b pos) by (apply be16_firstn; lia).
  assert (E2 : be16 (firstn A b) (pos + 2) = be16 b (pos + 2)) by (apply be16_firstn; lia).
  rewrite E1, E2.
  assert (E3 : take_pad (Z.to_nat (be16 b (pos + 2) - 4)) (skipn (pos + 4) (firstn A b)) =
               take_pad (Z.to_nat (be16 b (pos + 2) - 4)) (skipn (pos + 4) b)) by (apply take_pad_prefix; lia).
  rewrite E3.
  destruct (be16 b pos =? extAuthenticator) eqn:H2; [apply Z.eqb_eq in H2; contradiction|].
  reflexivity.
Qed.

(* main loop lemma: if the loop ends having found an authenticator, then the
   fields before it were walked exactly as scan walks the prefix *)
Lemma decode_loop_scan : forall fuel b pos s r,
  decode_loop fuel b pos s = Ok r -> d_auth s = false -> d_auth r = true ->
  let A := p_pos (d_pkt r) in
  (pos <= A)%nat /\ (A + 28 <= length b)%nat /\ be16 b A = extAuthenticator /\ 4 <= be16 b (A + 2) /\
  (p_nonce (d_pkt r), p_ct (d_pkt r)) = unpack_auth b (A + 4) /\
  exists s1, scan fuel (firstn A b) pos s = Some s1 /\ core s1 = core r.
Proof.
  induction fuel as [|f IH]; intros b pos s r H Hs Hr; simpl in H.
  - destruct (decode_continue b pos s); [discriminate|]. inversion H; subst. congruence.
  - destruct (decode_continue b pos s) eqn:Hc.
    2:{ inversion H; subst. congruence. }
    unfold decode_continue in Hc. apply andb_true_iff in Hc. destruct Hc as [Hc _]. apply Nat.leb_le in Hc.
    destruct (decode_field b pos s) as [[next s']| | |] eqn:Hf; try discriminate.
    pose proof (decode_field_next _ _ _ _ _ Hf) as [Hl [Hn Ha]].
    destruct (Z.eq_dec (be16 b pos) extAuthenticator) as [Ht|Ht].
    + (* the authenticator is here *)
      assert (Hs' : d_auth s' = true) by (apply Ha; auto).
      assert (r = s').
      { destruct f; simpl in H; unfold decode_continue in H; rewrite Hs' in H; rewrite andb_false_r in H; inversion H; auto. }
      subst r. unfold decode_field in Hf.
      destruct (be16 b (pos + 2) <? 4); [discriminate|].
      destruct (be16 b pos =? extUniqueIdentifier) eqn:H1; [apply Z.eqb_eq in H1; rewrite Ht in H1; discriminate|].
      destruct (be16 b pos =? extAuthenticator) eqn:H2; [|apply Z.eqb_neq in H2; contradiction].
      destruct (unpack_auth b (pos + 4)) as [n c] eqn:Hu. inversion Hf; subst; simpl.
      repeat split; auto; try lia.
      exists s. split.
      * rewrite firstn_length. replace (Nat.min pos (length b)) with pos by lia. rewrite Nat.eqb_refl. reflexivity.
      * reflexivity.
    + assert (Hs' : d_auth s' = false).
      { destruct (d_auth s') eqn:E; auto. destruct Ha as [Ha _]. destruct (Ha eq_refl); congruence. }
      specialize (IH b next s' r H Hs' Hr). simpl in IH.
      destruct IH as [I1 [I2 [I3 [I4 [I5 [s1 [I6 I7]]]]]]].
      repeat split; auto; try lia.
      exists s1. split; auto.
      assert (Hlen : length (firstn (p_pos (d_pkt r)) b) = p_pos (d_pkt r)) by (rewrite firstn_length; lia).
      rewrite scan_S, Hlen.
      destruct (pos =? p_pos (d_pkt r))%nat eqn:E; [apply Nat.eqb_eq in E; lia|].
      rewrite decode_field_prefix; try lia; auto. rewrite Hf, Hs'. exact I6.
Qed.

Definition dstate0 : dstate := {| d_pkt := packet0; d_uid := false; d_auth := false |}.

(* "the fields in front of the authenticator, pre = b[:pos], decode to c" *)
Definition prefix_fields (pre : bytes) (c : bytes * list bytes * nat * bool) : Prop :=
  exists fuel s1, scan fuel pre ntpPacketLen dstate0 = Some s1 /\ core s1 = c.

Lemma scan_fuel_irrelevant : forall f1 f2 pre pos s a b,
  scan f1 pre pos s = Some a -> scan f2 pre pos s = Some b -> a = b.
Proof.
  induction f1 as [|f1 IH]; intros f2 pre pos s a b H1 H2.
  - simpl in H1. destruct (pos =? length pre)%nat eqn:E; [|discriminate].
    destruct f2; simpl in H2; rewrite E in H2; congruence.
  - rewrite scan_S in H1. destruct (pos =? length pre)%nat eqn:E.
    + destruct f2; simpl in H2; rewrite E in H2; congruence.
    + destruct f2; [simpl in H2; rewrite E in H2; discriminate|].
      rewrite scan_S, E in H2.
      destruct (decode_field pre pos s) as [[next s']| | |]; try discriminate.
      destruct (d_auth s'); [discriminate|]. eapply IH; eauto.
Qed.

Lemma prefix_fields_fun : forall pre c1 c2, prefix_fields pre c1 -> prefix_fields pre c2 -> c1 = c2.
Proof.
  intros pre c1 c2 [f1 [s1 [H1 E1]]] [f2 [s2 [H2 E2]]].
  rewrite <- E1, <- E2. f_equal. eapply scan_fuel_irrelevant; eauto.
Qed.

Lemma decode_loop_fuel : forall fuel b pos s,
  (length b < fuel + pos + 28)%nat -> decode_loop fuel b pos s <> OutOfFuel.
Proof.
  induction fuel as [|f IH]; intros b pos s H; simpl.
  - destruct (decode_continue b pos s) eqn:Hc; [|discriminate].
    unfold decode_continue in Hc. apply andb_true_iff in Hc. destruct Hc as [Hc _]. apply Nat.leb_le in Hc. lia.
  - destruct (decode_continue b pos s) eqn:Hc; [|discriminate].
    destruct (decode_field b pos s) as [[next s']| | |] eqn:Hf; try discriminate.
    + pose proof (decode_field_next _ _ _ _ _ Hf) as [Hl [Hn _]]. apply IH. lia.
    + unfold decode_field in Hf.
      destruct (be16 b (pos + 2) <? 4); [discriminate|].
      destruct (be16 b pos =? extUniqueIdentifier); [destruct (be16 b (pos + 2) - 4 <? 32); discriminate|].
      destruct (be16 b pos =? extAuthenticator); [destruct (unpack_auth b (pos + 4)); discriminate|].
      destruct (be16 b pos =? extCookie); [discriminate|].
      destruct (be16 b pos =? extCookiePlaceholder); discriminate.
Qed.

Theorem decode_packet_fuel : forall b, decode_packet b <> OutOfFuel.
Proof.
  intros b. unfold decode_packet. destruct (MaxPacketLen <? length b)%nat; [discriminate|].
  pose proof (decode_loop_fuel (length b) b ntpPacketLen dstate0) as H. fold dstate0.
  destruct (decode_loop (length b) b ntpPacketLen dstate0) as [s| | |]; try discriminate.
  - destruct (negb (d_uid s)); [discriminate|]. destruct (negb (d_auth s)); discriminate.
  - exfalso. apply H; auto. unfold ntpPacketLen. lia.
Qed.

Lemma take_pad_length : forall n (l : bytes), length (take_pad n l) = n.
Proof. intros. unfold take_pad. rewrite app_length, firstn_length, repeat_length. lia. Qed.

(* what DecodePacket = Ok says about the bytes *)
Record wire_ok (b : bytes) (p : packet) : Prop := {
  w_len : (length b <= MaxPacketLen)%nat;
  w_pos_lo : (ntpPacketLen <= p_pos p)%nat;
  w_pos_hi : (p_pos p + 28 <= length b)%nat;
  w_type : be16 b (p_pos p) = extAuthenticator;
  w_auth : (p_nonce p, p_ct p) = unpack_auth b (p_pos p + 4);
  w_fields : prefix_fields (firstn (p_pos p) b) (p_uid p, p_cookies p, p_nph p, true)
}.

Theorem decode_packet_spec : forall b p, decode_packet b = Ok p -> wire_ok b p.
Proof.
  intros b p H. unfold decode_packet in H.
  destruct (MaxPacketLen <? length b)%nat eqn:Hl; [discriminate|]. apply Nat.ltb_ge in Hl.
  fold dstate0 in H.
  destruct (decode_loop (length b) b ntpPacketLen dstate0) as [s| | |] eqn:Hd; try discriminate.
  destruct (d_uid s) eqn:Hu; simpl in H; [|discriminate].
  destruct (d_auth s) eqn:Ha; simpl in H; [|discriminate].
  inversion H; subst p.
  pose proof (decode_loop_scan _ _ _ _ _ Hd eq_refl Ha) as [I1 [I2 [I3 [I4 [I5 [s1 [I6 I7]]]]]]].
  constructor; auto.
  exists (length b), s1. split; auto. rewrite I7. unfold core. rewrite Hu. reflexivity.
Qed.

(* with a 16-byte nonce the authenticator's nonce and ciphertext are these bytes of b *)
Lemma wire_auth_16 : forall b p, wire_ok b p -> length (p_nonce p) = 16%nat ->
  Z.to_nat (be16 b (p_pos p + 4)) = 16%nat /\
  p_nonce p = take_pad 16 (skipn (p_pos p + 8) b) /\
  p_ct p = take_pad (Z.to_nat (be16 b (p_pos p + 6))) (skipn (p_pos p + 24) b).
Proof.
  intros b p W Hn. destruct W as [_ _ Hhi _ Ha _]. unfold unpack_auth in Ha.
  inversion Ha as [[E1 E2]]. clear Ha.
  assert (Hl : Z.to_nat (be16 b (p_pos p + 4 + 0)) = 16%nat).
  { rewrite Nat.add_0_r. rewrite E1 in Hn. rewrite take_pad_length in Hn. exact Hn. }
  rewrite Nat.add_0_r in Hl. rewrite Hl in *.
  replace (p_pos p + 4 + 4)%nat with (p_pos p + 8)%nat in * by lia.
  replace (p_pos p + 4 + 2)%nat with (p_pos p + 6)%nat in * by lia.
  replace (p_pos p + 8 + Nat.min 16 (length b - (p_pos p + 8)))%nat with (p_pos p + 24)%nat in E2 by lia.
  auto.
Qed.

Section Soundness.
  Variable seal : bytes -> bytes -> option bytes -> bytes -> bytes.
  Variable open : bytes -> bytes -> option bytes -> bytes -> option bytes.
  Hypothesis open_only_seal : forall k n ad c p, open k n ad c = Some p -> c = seal k n ad p.
  Hypothesis seal_inj : forall k n ad p k' n' ad' p',
    seal k n ad p = seal k' n' ad' p' -> k = k' /\ n = n' /\ ad = ad' /\ p = p'.

  (* "the authenticator of b verifies under key over exactly the bytes that
     precede it": b decodes to p, whose authenticator field starts at p_pos p,
     and its ciphertext is the seal under key and its nonce of b[:p_pos p] *)
  Definition verifies (b key : bytes) (p : packet) : Prop :=
    decode_packet b = Ok p /\ wire_ok b p /\ key_ok key = true /\ length (p_nonce p) = 16%nat /\
    exists pt, p_ct p = seal key (p_nonce p) (Some (firstn (p_pos p) b)) pt.

  Theorem server_sound : forall b key p',
    server_accept open b key = Ok p' -> exists p, verifies b key p.
  Proof.
    intros b key p' H. unfold server_accept in H.
    destruct (decode_packet b) as [p| | |] eqn:Hd; try discriminate.
    unfold process_request in H.
    pose proof (authenticate_sound seal open open_only_seal _ _ _ _ H) as [Hk [Hn [_ Hs]]].
    exists p. unfold verifies. split; [exact Hd|]. split; [apply decode_packet_spec; auto|].
    split; [auto|]. split; auto.
  Qed.

  Theorem client_sound : forall b key reqID p',
    client_accept open b key reqID = Ok p' ->
    exists p, verifies b key p /\ p_uid p = reqID.
  Proof.
    intros b key reqID p' H. unfold client_accept in H.
    destruct (decode_packet b) as [p| | |] eqn:Hd; try discriminate.
    unfold process_response in H.
    destruct (bytes_eqb reqID (p_uid p)) eqn:Hu; simpl in H; [|discriminate].
    apply bytes_eqb_eq in Hu.
    pose proof (authenticate_sound seal open open_only_seal _ _ _ _ H) as [Hk [Hn [_ Hs]]].
    exists p. split; auto. unfold verifies. split; [exact Hd|]. split; [apply decode_packet_spec; auto|].
    split; [auto|]. split; auto.
  Qed.

  (* non-malleability: two packets that verify and carry the same ciphertext
     were verified under the same key, carry the same nonce and the same
     authenticated bytes, hence the same unique identifier, cookies and
     placeholders *)
  Theorem same_ciphertext : forall b1 k1 p1 b2 k2 p2,
    verifies b1 k1 p1 -> verifies b2 k2 p2 -> p_ct p1 = p_ct p2 ->
    k1 = k2 /\ p_nonce p1 = p_nonce p2 /\ p_pos p1 = p_pos p2 /\
    firstn (p_pos p1) b1 = firstn (p_pos p1) b2 /\
    p_uid p1 = p_uid p2 /\ p_cookies p1 = p_cookies p2 /\ p_nph p1 = p_nph p2.
  Proof.
    intros b1 k1 p1 b2 k2 p2 [_ [W1 [_ [_ [pt1 E1]]]]] [_ [W2 [_ [_ [pt2 E2]]]]] Hc.
    rewrite E1, E2 in Hc. apply seal_inj in Hc. destruct Hc as [Hk [Hn [Had _]]].
    inversion Had as [Hpre].
    assert (Hpos : p_pos p1 = p_pos p2).
    { apply (f_equal (@length Z)) in Hpre. rewrite !firstn_length in Hpre.
      destruct W1 as [_ _ H1 _ _ _]. destruct W2 as [_ _ H2 _ _ _]. lia. }
    assert (Hf : (p_uid p1, p_cookies p1, p_nph p1, true) = (p_uid p2, p_cookies p2, p_nph p2, true)).
    { destruct W1 as [_ _ _ _ _ F1]. destruct W2 as [_ _ _ _ _ F2]. rewrite <- Hpre in F2.
      eapply prefix_fields_fun; eauto. }
    inversion Hf. rewrite <- Hpos in Hpre. repeat split; auto.
  Qed.
End Soundness.

(* ------------- cookies: TLV round trip, seal/open ------------- *)
Ltac Zify.zify_post_hook ::= Z.div_mod_to_equations.

Lemma nthz_app_r : forall (pre rest : bytes) i, nthz (pre ++ rest) (length pre + i) = nthz rest i.
Proof. intros. unfold nthz. rewrite app_nth2 by lia. f_equal. lia. Qed.

Lemma be16_app : forall pre x y rest, be16 (pre ++ x :: y :: rest) (length pre) = x * 256 + y.
Proof.
  intros. unfold be16.
  replace (length pre) with (length pre + 0)%nat at 1 by lia. rewrite nthz_app_r.
  replace (S (length pre)) with (length pre + 1)%nat by lia. rewrite nthz_app_r. reflexivity.
Qed.

Lemma be16_app_r : forall (pre rest : bytes) pos, pos = length pre -> be16 (pre ++ rest) pos = be16 rest 0.
Proof.
  intros. subst. unfold be16.
  replace (length pre) with (length pre + 0)%nat at 1 by lia. rewrite nthz_app_r.
  replace (S (length pre)) with (length pre + 1)%nat by lia. rewrite nthz_app_r. reflexivity.
Qed.

Lemma enc16_val : forall v, 0 <= v < 65536 -> (v / 256) mod 256 * 256 + v mod 256 = v.
Proof. intros. lia. Qed.

Lemma be16_enc16 : forall pre v rest, 0 <= v < 65536 -> be16 (pre ++ enc16 v ++ rest) (length pre) = v.
Proof. intros. unfold enc16. simpl app. rewrite be16_app. apply enc16_val. auto. Qed.

Lemma be16_enc16_at : forall pre v rest pos, 0 <= v < 65536 -> pos = length pre -> be16 (pre ++ enc16 v ++ rest) pos = v.
Proof. intros. subst. apply be16_enc16. auto. Qed.

Lemma skipn_app_exact : forall (pre rest : bytes) n, n = length pre -> skipn n (pre ++ rest) = rest.
Proof. intros. subst. rewrite skipn_app, skipn_all, Nat.sub_diag. reflexivity. Qed.

Lemma firstn_app_exact : forall (v rest : bytes) n, n = length v -> firstn n (v ++ rest) = v.
Proof. intros. subst. rewrite firstn_app, firstn_all, Nat.sub_diag. simpl. apply app_nil_r. Qed.

Lemma lenz_range : forall (v : bytes), lenz v < 65536 -> 0 <= lenz v < 65536.
Proof. intros v H. unfold lenz in *. lia. Qed.

Lemma enc16_length : forall v, length (enc16 v) = 2%nat.
Proof. reflexivity. Qed.

(* one TLV of the cookie encodings, in place *)
Lemma tlv_shape : forall pre t v rest b,
  b = pre ++ enc16 t ++ enc16 (lenz v) ++ v ++ rest -> 0 <= t < 65536 -> lenz v < 65536 ->
  be16 b (length pre) = t /\ Z.to_nat (be16 b (length pre + 2)) = length v /\
  firstn (length v) (skipn (length pre + 4) b) = v /\
  (length pre + 4 + length v <= length b)%nat /\
  be16 b (length pre + 4) = be16 (v ++ rest) 0.
Proof.
  intros pre t v rest b Hb Ht Hv. subst b.
  split; [apply be16_enc16; auto|].
  split.
  { replace (pre ++ enc16 t ++ enc16 (lenz v) ++ v ++ rest) with ((pre ++ enc16 t) ++ enc16 (lenz v) ++ v ++ rest)
      by (rewrite <- app_assoc; reflexivity).
    rewrite be16_enc16_at; [unfold lenz; lia|apply lenz_range; auto|rewrite app_length, enc16_length; lia]. }
  assert (E : skipn (length pre + 4) (pre ++ enc16 t ++ enc16 (lenz v) ++ v ++ rest) = v ++ rest).
  { replace (pre ++ enc16 t ++ enc16 (lenz v) ++ v ++ rest) with ((pre ++ enc16 t ++ enc16 (lenz v)) ++ v ++ rest)
      by (rewrite <- !app_assoc; reflexivity).
    apply skipn_app_exact. rewrite !app_length, !enc16_length; lia. }
  split; [rewrite E; apply firstn_app_exact; auto|].
  split; [rewrite !app_length, !enc16_length; lia|].
  replace (pre ++ enc16 t ++ enc16 (lenz v) ++ v ++ rest) with ((pre ++ enc16 t ++ enc16 (lenz v)) ++ v ++ rest)
      by (rewrite <- !app_assoc; reflexivity).
  apply be16_app_r. rewrite !app_length, !enc16_length; lia.
Qed.

Lemma tlv_loop_unfold : forall fuel t1 t2 t3 b pos s,
  tlv_loop fuel t1 t2 t3 b pos s =
  if (pos <? length b)%nat then
    match fuel with
    | O => OutOfFuel
    | S f =>
        if (length b - pos <? 4)%nat then Err ECookieData else
        let t := be16 b pos in
        let l := Z.to_nat (be16 b (pos + 2)) in
        if (length b - pos - 4 <? l)%nat then Err ECookieData else
        let v := firstn l (skipn (pos + 4) b) in
        if t =? t1 then
          if (l <? 2)%nat then Err ECookieData else
          tlv_loop f t1 t2 t3 b (pos + 4 + l)
            {| v1 := be16 b (pos + 4); v2 := v2 s; v3 := v3 s; f1 := true; f2 := f2 s; f3 := f3 s |}
        else if t =? t2 then
          tlv_loop f t1 t2 t3 b (pos + 4 + l)
            {| v1 := v1 s; v2 := v; v3 := v3 s; f1 := f1 s; f2 := true; f3 := f3 s |}
        else if t =? t3 then
          tlv_loop f t1 t2 t3 b (pos + 4 + l)
            {| v1 := v1 s; v2 := v2 s; v3 := v; f1 := f1 s; f2 := f2 s; f3 := true |}
        else tlv_loop f t1 t2 t3 b (pos + 4 + l) s
    end
  else if negb (pos =? length b)%nat then Err ECookieData
  else if negb (f1 s && f2 s && f3 s) then Err ECookieData
  else Ok s.
Proof. destruct fuel; reflexivity. Qed.

Lemma tlv_step : forall f t1 t2 t3 b pos s t v,
  be16 b pos = t -> Z.to_nat (be16 b (pos + 2)) = length v ->
  firstn (length v) (skipn (pos + 4) b) = v -> (pos + 4 + length v <= length b)%nat ->
  tlv_loop (S f) t1 t2 t3 b pos s =
  if t =? t1 then
    if (length v <? 2)%nat then Err ECookieData else
    tlv_loop f t1 t2 t3 b (pos + 4 + length v)
      {| v1 := be16 b (pos + 4); v2 := v2 s; v3 := v3 s; f1 := true; f2 := f2 s; f3 := f3 s |}
  else if t =? t2 then
    tlv_loop f t1 t2 t3 b (pos + 4 + length v)
      {| v1 := v1 s; v2 := v; v3 := v3 s; f1 := f1 s; f2 := true; f3 := f3 s |}
  else if t =? t3 then
    tlv_loop f t1 t2 t3 b (pos + 4 + length v)
      {| v1 := v1 s; v2 := v2 s; v3 := v; f1 := f1 s; f2 := f2 s; f3 := true |}
  else tlv_loop f t1 t2 t3 b (pos + 4 + length v) s.
Proof.
  intros f t1 t2 t3 b pos s t v Ht Hl Hv Hb.
  rewrite tlv_loop_unfold.
  replace (pos <? length b)%nat with true by (symmetry; apply Nat.ltb_lt; lia).
  replace (length b - pos <? 4)%nat with false by (symmetry; apply Nat.ltb_ge; lia).
  cbv zeta. rewrite Ht, Hl, Hv.
  replace (length b - pos - 4 <? length v)%nat with false by (symmetry; apply Nat.ltb_ge; lia).
  reflexivity.
Qed.

Definition wf16 (x : Z) : Prop := 0 <= x < 65536.

Theorem tlv_roundtrip : forall t1 t2 t3 x a c,
  wf16 t1 -> wf16 t2 -> wf16 t3 -> t1 <> t2 -> t1 <> t3 -> t2 <> t3 ->
  wf16 x -> lenz a < 65536 -> lenz c < 65536 ->
  tlv_decode t1 t2 t3 (tlv_encode t1 t2 t3 x a c) =
  Ok {| v1 := x; v2 := a; v3 := c; f1 := true; f2 := true; f3 := true |}.
Proof.
  intros t1 t2 t3 x a c W1 W2 W3 N12 N13 N23 Wx La Lc.
  unfold tlv_decode. set (b := tlv_encode t1 t2 t3 x a c).
  assert (U16a : u16 (lenz a) = lenz a) by (unfold u16, lenz in *; rewrite Z.mod_small; lia).
  assert (U16c : u16 (lenz c) = lenz c) by (unfold u16, lenz in *; rewrite Z.mod_small; lia).
  (* the three TLVs *)
  assert (S1 : b = [] ++ enc16 t1 ++ enc16 (lenz (enc16 x)) ++ enc16 x ++
                   (enc16 t2 ++ enc16 (lenz a) ++ a ++ enc16 t3 ++ enc16 (lenz c) ++ c)).
  { unfold b, tlv_encode. rewrite U16a, U16c. reflexivity. }
  assert (S2 : b = (enc16 t1 ++ enc16 2 ++ enc16 x) ++ enc16 t2 ++ enc16 (lenz a) ++ a ++
                   (enc16 t3 ++ enc16 (lenz c) ++ c)).
  { unfold b, tlv_encode. rewrite U16a, U16c. rewrite <- !app_assoc. reflexivity. }
  assert (S3 : b = (enc16 t1 ++ enc16 2 ++ enc16 x ++ enc16 t2 ++ enc16 (lenz a) ++ a) ++ enc16 t3 ++ enc16 (lenz c) ++ c ++ []).
  { unfold b, tlv_encode. rewrite U16a, U16c. rewrite <- !app_assoc. rewrite app_nil_r. reflexivity. }
  assert (LB : length b = (14 + length a + length c)%nat).
  { unfold b, tlv_encode. rewrite !app_length, !enc16_length; lia. }
  destruct (tlv_shape _ _ _ _ _ S1 W1 ltac:(unfold lenz; simpl; lia)) as [A1 [A2 [A3 [A4 A5]]]].
  destruct (tlv_shape _ _ _ _ _ S2 W2 La) as [B1 [B2 [B3 [B4 _]]]].
  destruct (tlv_shape _ _ _ _ _ S3 W3 Lc) as [C1 [C2 [C3 [C4 _]]]].
  set (P2 := enc16 t1 ++ enc16 2 ++ enc16 x) in *.
  set (P3 := enc16 t1 ++ enc16 2 ++ enc16 x ++ enc16 t2 ++ enc16 (lenz a) ++ a) in *.
  assert (L2 : length P2 = 6%nat) by reflexivity.
  assert (L3 : length P3 = (10 + length a)%nat) by (unfold P3; rewrite !app_length, !enc16_length; lia).
  fold b.
  assert (F : length b = S (S (S (11 + length a + length c)))) by lia.
  rewrite F.
  rewrite (tlv_step _ t1 t2 t3 b (length (@nil Z)) tlv0 t1 (enc16 x) A1 A2 A3 A4).
  rewrite Z.eqb_refl.
  replace (length (enc16 x) <? 2)%nat with false by reflexivity.
  rewrite A5.
  assert (V1 : be16 (enc16 x ++ enc16 t2 ++ enc16 (lenz a) ++ a ++ enc16 t3 ++ enc16 (lenz c) ++ c) 0 = x).
  { apply (be16_enc16 [] x). exact Wx. }
  rewrite V1.
  replace (length (@nil Z) + 4 + length (enc16 x))%nat with (length P2) by reflexivity.
  rewrite (tlv_step _ t1 t2 t3 b (length P2) _ t2 a B1 B2 B3 B4).
  replace (t2 =? t1) with false by (symmetry; apply Z.eqb_neq; auto).
  rewrite Z.eqb_refl. cbv [v1 v2 v3 f1 f2 f3 tlv0].
  replace (length P2 + 4 + length a)%nat with (length P3) by lia.
  rewrite (tlv_step _ t1 t2 t3 b (length P3) _ t3 c C1 C2 C3 C4).
  replace (t3 =? t1) with false by (symmetry; apply Z.eqb_neq; auto).
  replace (t3 =? t2) with false by (symmetry; apply Z.eqb_neq; auto).
  rewrite Z.eqb_refl. cbv [v1 v2 v3 f1 f2 f3].
  rewrite tlv_loop_unfold.
  replace (length P3 + 4 + length c)%nat with (length b) by lia.
  rewrite Nat.ltb_irrefl, Nat.eqb_refl. reflexivity.
Qed.

Definition wf_cookie (c : server_cookie) : Prop :=
  wf16 (sc_algo c) /\ lenz (sc_s2c c) < 65536 /\ lenz (sc_c2s c) < 65536.
Definition wf_ecookie (c : enc_cookie) : Prop :=
  wf16 (ec_id c) /\ lenz (ec_nonce c) < 65536 /\ lenz (ec_ct c) < 65536.

Theorem sc_roundtrip : forall c, wf_cookie c -> sc_decode (sc_encode c) = Ok c.
Proof.
  intros [al s c] [H1 [H2 H3]]. unfold sc_decode, sc_encode. simpl in *.
  rewrite tlv_roundtrip; auto; unfold wf16, cookieTypeAlgorithm, cookieTypeKeyS2C, cookieTypeKeyC2S; try lia.
Qed.

Theorem ec_roundtrip : forall c, wf_ecookie c -> ec_decode (ec_encode c) = Ok c.
Proof.
  intros [al s c] [H1 [H2 H3]]. unfold ec_decode, ec_encode. simpl in *.
  rewrite tlv_roundtrip; auto; unfold wf16, cookieTypeKeyID, cookieTypeNonce, cookieTypeCiphertext; try lia.
Qed.

Lemma tlv_loop_fuel : forall fuel t1 t2 t3 b pos s,
  (length b < fuel + pos + 1)%nat -> tlv_loop fuel t1 t2 t3 b pos s <> OutOfFuel.
Proof.
  induction fuel as [|f IH]; intros t1 t2 t3 b pos s H; rewrite tlv_loop_unfold.
  - replace (pos <? length b)%nat with false by (symmetry; apply Nat.ltb_ge; lia).
    destruct (negb (pos =? length b)%nat); [discriminate|]. destruct (negb (f1 s && f2 s && f3 s)); discriminate.
  - destruct (pos <? length b)%nat.
    + destruct (length b - pos <? 4)%nat; [discriminate|]. cbv zeta.
      destruct (length b - pos - 4 <? Z.to_nat (be16 b (pos + 2)))%nat; [discriminate|].
      destruct (be16 b pos =? t1).
      { destruct (Z.to_nat (be16 b (pos + 2)) <? 2)%nat; [discriminate|]. apply IH. lia. }
      destruct (be16 b pos =? t2); [apply IH; lia|].
      destruct (be16 b pos =? t3); apply IH; lia.
    + destruct (negb (pos =? length b)%nat); [discriminate|]. destruct (negb (f1 s && f2 s && f3 s)); discriminate.
Qed.

Theorem tlv_decode_fuel : forall t1 t2 t3 b, tlv_decode t1 t2 t3 b <> OutOfFuel.
Proof. intros. unfold tlv_decode. apply tlv_loop_fuel. lia. Qed.

Section Cookies.
  Variable seal : bytes -> bytes -> option bytes -> bytes -> bytes.
  Variable open : bytes -> bytes -> option bytes -> bytes -> option bytes.
  Hypothesis open_seal : forall k n ad p, open k n ad (seal k n ad p) = Some p.
  Hypothesis open_only_seal : forall k n ad c p, open k n ad c = Some p -> c = seal k n ad p.
  Hypothesis seal_inj : forall k n ad p k' n' ad' p',
    seal k n ad p = seal k' n' ad' p' -> k = k' /\ n = n' /\ ad = ad' /\ p = p'.
  Hypothesis seal_len : forall k n ad p, length (seal k n ad p) = (16 + length p)%nat.

  (* a cookie issued by the project's own code opens under the key that sealed
     it and yields exactly the sealed algorithm and keys *)
  Theorem cookie_complete : forall c key keyid rnd cb,
    wf_cookie c -> lenz (sc_s2c c) + lenz (sc_c2s c) < 65000 -> length rnd = 16%nat ->
    cookie_seal seal c key keyid rnd = Ok cb ->
    cookie_open open cb key = Ok c.
  Proof.
    intros c key keyid rnd cb Hw Hl Hr H. unfold cookie_seal, sc_encrypt in H.
    destruct (key_ok key) eqn:Hk; simpl in H; [|discriminate]. inversion H; subst cb. clear H.
    unfold cookie_open. rewrite ec_roundtrip.
    - unfold ec_decrypt. simpl. rewrite Hk, Hr. simpl. rewrite open_seal. apply sc_roundtrip. auto.
    - unfold wf_ecookie, wf16. simpl. split; [unfold u16; lia|]. split; [unfold lenz; lia|].
      unfold lenz. rewrite seal_len. unfold sc_encode, tlv_encode. rewrite !app_length, !enc16_length.
      unfold lenz in Hl. lia.
  Qed.

  (* whatever opens was sealed under the presented key with the cookie's nonce *)
  Theorem cookie_sound : forall cb key c,
    cookie_open open cb key = Ok c ->
    exists ec pt, ec_decode cb = Ok ec /\ key_ok key = true /\ length (ec_nonce ec) = 16%nat /\
                  ec_ct ec = seal key (ec_nonce ec) None pt /\ sc_decode pt = Ok c.
  Proof.
    intros cb key c H. unfold cookie_open in H.
    destruct (ec_decode cb) as [ec| | |] eqn:Hd; try discriminate.
    unfold ec_decrypt in H.
    destruct (key_ok key) eqn:Hk; simpl in H; [|discriminate].
    destruct (length (ec_nonce ec) =? 16)%nat eqn:Hn; simpl in H; [|discriminate].
    destruct (open key (ec_nonce ec) None (ec_ct ec)) as [pt|] eqn:Ho; [|discriminate].
    exists ec, pt. apply Nat.eqb_eq in Hn. repeat split; auto.
  Qed.

  (* a cookie opens only under the server key that sealed it and yields exactly
     the sealed algorithm and keys: if the ciphertext inside the presented
     bytes is the one sealed under key0 for contents c0, then a successful
     opening used key0, found the sealing nonce, and returns c0 *)
  Theorem cookie_only_sealing_key : forall cb key c ec key0 n0 c0,
    cookie_open open cb key = Ok c -> ec_decode cb = Ok ec ->
    ec_ct ec = seal key0 n0 None (sc_encode c0) -> wf_cookie c0 ->
    key = key0 /\ ec_nonce ec = n0 /\ c = c0.
  Proof.
    intros cb key c ec key0 n0 c0 H Hd Hc Hw.
    destruct (cookie_sound _ _ _ H) as [ec' [pt [Hd' [_ [_ [Hs Hp]]]]]].
    rewrite Hd in Hd'. inversion Hd'; subst ec'. rewrite Hc in Hs.
    apply seal_inj in Hs. destruct Hs as [Hk [Hn [_ Hpt]]].
    subst pt. rewrite sc_roundtrip in Hp by auto. inversion Hp. auto.
  Qed.
End Cookies.

(* ------------- the property oracle accepts the model ------------- *)
(* what AES-SIV gives for the key: equal seals were made under keys with the same
   first (S2V/CMAC) half, and under the same key when something was encrypted *)
Definition seal_inj_siv (seal : bytes -> bytes -> option bytes -> bytes -> bytes) : Prop :=
  forall k n ad p k' n' ad' p',
    seal k n ad p = seal k' n' ad' p' ->
    mac_half k = mac_half k' /\ (p <> [] -> k = k') /\ n = n' /\ ad = ad' /\ p = p'.

Lemma seal_inj_siv_of : forall seal : bytes -> bytes -> option bytes -> bytes -> bytes,
  (forall k n ad p k' n' ad' p', seal k n ad p = seal k' n' ad' p' -> k = k' /\ n = n' /\ ad = ad' /\ p = p') ->
  seal_inj_siv seal.
Proof.
  intros seal H k n ad p k' n' ad' p' E. destruct (H _ _ _ _ _ _ _ _ E) as [A [B [C D]]].
  subst. repeat split; auto.
Qed.

Section Oracle.
  Variable seal : bytes -> bytes -> option bytes -> bytes -> bytes.
  Variable open : bytes -> bytes -> option bytes -> bytes -> option bytes.
  Hypothesis open_seal : forall k n ad p, open k n ad (seal k n ad p) = Some p.
  Hypothesis open_only_seal : forall k n ad c p, open k n ad c = Some p -> c = seal k n ad p.
  Hypothesis seal_inj : forall k n ad p k' n' ad' p',
    seal k n ad p = seal k' n' ad' p' -> k = k' /\ n = n' /\ ad = ad' /\ p = p'.
  Hypothesis seal_len : forall k n ad p, length (seal k n ad p) = (16 + length p)%nat.

  Definition model_accepts (b key : bytes) (dir : Z) (reqid : bytes) : bool :=
    match (if dir =? 0 then server_accept open b key else client_accept open b key reqid) with
    | Ok _ => true
    | _ => false
    end.

  (* what "honest" means for the description of a sent packet *)
  Record honest_ok (h : honest) : Prop := {
    ho_nonce : length (h_nonce h) = 16%nat;
    ho_pos : (h_pos h <= length (h_bytes h))%nat;
    ho_ct : exists pt, h_ct h = seal (h_key h) (h_nonce h) (Some (firstn (h_pos h) (h_bytes h))) pt;
    ho_uid : exists cs n, prefix_fields (firstn (h_pos h) (h_bytes h)) (h_uid h, cs, n, true)
  }.

  (* the receiver (key, dir) is only ever sent seals that honest senders of
     its direction made: no party without the key can produce a seal under it *)
  Definition unforgeable (hs : list honest) (b key : bytes) (dir : Z) : Prop :=
    forall p n ad pt, decode_packet b = Ok p -> p_ct p = seal key n ad pt ->
      exists h, In h hs /\ h_ct h = p_ct p /\ h_dir h = dir.

  Lemma to_nat_pos : forall x n, Z.to_nat x = n -> (0 < n)%nat -> x = Z.of_nat n.
  Proof. intros. lia. Qed.

  Lemma accepted_justified : forall hs b key dir reqid,
    (forall h, In h hs -> honest_ok h) -> unforgeable hs b key dir ->
    model_accepts b key dir reqid = true ->
    existsb (justifies b key dir reqid) hs = true.
  Proof.
    intros hs b key dir reqid Hh Hu Ha. unfold model_accepts in Ha.
    assert (V : exists p, verifies seal b key p /\ (dir =? 0 = false -> p_uid p = reqid)).
    { destruct (dir =? 0) eqn:Hd.
      - destruct (server_accept open b key) as [p'| | |] eqn:E; try discriminate.
        destruct (server_sound seal open open_only_seal _ _ _ E) as [p Hp]. exists p. split; auto. discriminate.
      - destruct (client_accept open b key reqid) as [p'| | |] eqn:E; try discriminate.
        destruct (client_sound seal open open_only_seal _ _ _ _ E) as [p [Hp Hq]]. exists p. split; auto. }
    destruct V as [p [[Hd [W [Hk [Hn [pt Hc]]]]] Huid]].
    destruct (Hu p _ _ _ Hd Hc) as [h [Hin [Hct Hdir]]].
    destruct (Hh h Hin) as [Gn Gp [hpt Gc] [gcs [gn Gu]]].
    assert (Ect : h_ct h = p_ct p) by exact Hct.
    rewrite Gc, Hc in Hct. apply seal_inj in Hct. destruct Hct as [Ek [En [Ead Ept]]].
    inversion Ead as [Epre].
    assert (Epos : h_pos h = p_pos p).
    { apply (f_equal (@length Z)) in Epre. rewrite !firstn_length in Epre.
      destruct W as [_ _ H1 _ _ _]. lia. }
    destruct (wire_auth_16 _ _ W Hn) as [A1 [A2 A3]].
    apply existsb_exists. exists h. split; auto.
    unfold justifies, untampered. rewrite Epos.
    assert (T1 : key_accepts h key = true).
    { unfold key_accepts. apply bytes_eqb_eq. exact Ek. }
    assert (T2 : (h_dir h =? dir) = true) by (apply Z.eqb_eq; auto).
    assert (T3 : (p_pos p <=? length b)%nat = true) by (apply Nat.leb_le; destruct W as [_ _ H1 _ _ _]; lia).
    assert (T4 : bytes_eqb (firstn (p_pos p) b) (firstn (p_pos p) (h_bytes h)) = true).
    { apply bytes_eqb_eq. rewrite <- Epos at 2. rewrite Epre. reflexivity. }
    assert (T5 : (be16 b (p_pos p + 4) =? lenz (h_nonce h)) = true).
    { apply Z.eqb_eq. unfold lenz. rewrite Gn. apply to_nat_pos in A1; [|lia]. exact A1. }
    assert (T6 : (be16 b (p_pos p + 6) =? lenz (h_ct h)) = true).
    { apply Z.eqb_eq. unfold lenz. rewrite Ect.
      pose proof (f_equal (@length Z) A3) as L. rewrite take_pad_length in L.
      symmetry in L. apply to_nat_pos in L; [exact L|]. rewrite Hc, seal_len. lia. }
    assert (T7 : bytes_eqb (take_pad (length (h_nonce h)) (skipn (p_pos p + 8) b)) (h_nonce h) = true).
    { apply bytes_eqb_eq. rewrite Gn. rewrite <- A2. auto. }
    assert (T8 : bytes_eqb (take_pad (length (h_ct h)) (skipn (p_pos p + 8 + length (h_nonce h)) b)) (h_ct h) = true).
    { apply bytes_eqb_eq. rewrite Gn. replace (p_pos p + 8 + 16)%nat with (p_pos p + 24)%nat by lia.
      pose proof (f_equal (@length Z) A3) as L. rewrite take_pad_length in L.
      rewrite Ect, L. symmetry. exact A3. }
    rewrite T1, T2, T3, T4, T5, T6, T7, T8. simpl.
    destruct (dir =? 1) eqn:D1; auto.
    apply bytes_eqb_eq. apply Z.eqb_eq in D1.
    assert (D0 : dir =? 0 = false) by (apply Z.eqb_neq; lia).
    rewrite <- (Huid D0).
    destruct W as [_ _ _ _ _ F]. rewrite Epre in Gu.
    pose proof (prefix_fields_fun _ _ _ Gu F) as X. inversion X. reflexivity.
  Qed.

  (* the executable property oracle accepts what the model does with any
     datagram, for honest senders and an adversary that cannot forge seals *)
  Theorem model_meets_packet_oracle : forall hs b key dir reqid,
    (forall h, In h hs -> honest_ok h) -> unforgeable hs b key dir ->
    (forall h, In h hs -> model_accepts (h_bytes h) (h_key h) (h_dir h) (h_uid h) = true) ->
    (dir = 0 \/ dir = 1) ->
    C10_packet_ok hs b key dir reqid (model_accepts b key dir reqid) = true.
  Proof.
    intros hs b key dir reqid Hh Hu Hc Hd. unfold C10_packet_ok. apply andb_true_iff. split.
    - destruct (model_accepts b key dir reqid) eqn:E; auto. apply accepted_justified; auto.
    - destruct (existsb (is_honest b key dir reqid) hs) eqn:E; auto.
      apply existsb_exists in E. destruct E as [h [Hin E]]. unfold is_honest in E.
      apply andb_true_iff in E. destruct E as [E E4]. apply andb_true_iff in E. destruct E as [E E3].
      apply andb_true_iff in E. destruct E as [E1 E2].
      apply bytes_eqb_eq in E1. apply bytes_eqb_eq in E2. apply Z.eqb_eq in E3.
      specialize (Hc h Hin). rewrite E1, E2, E3 in Hc.
      destruct Hd as [Hd|Hd]; subst dir.
      + unfold model_accepts in *. simpl in *. exact Hc.
      + simpl in E4. apply bytes_eqb_eq in E4. rewrite E4 in Hc. exact Hc.
  Qed.
End Oracle.

(* ------------- corollaries ------------- *)
Lemma plain_loop_fuel : forall fuel b pos cs,
  (length b < fuel + pos + 28)%nat -> plain_loop fuel b pos cs <> OutOfFuel.
Proof.
  induction fuel as [|f IH]; intros b pos cs H; simpl.
  - destruct (pos + 28 <=? length b)%nat eqn:Hc; [apply Nat.leb_le in Hc; lia|discriminate].
  - destruct (pos + 28 <=? length b)%nat eqn:Hc; [|discriminate].
    destruct (be16 b (pos + 2) <? 4) eqn:Hl; [discriminate|]. apply Z.ltb_ge in Hl.
    apply IH. lia.
Qed.

Theorem authenticate_fuel : forall open b key p, authenticate open b key p <> OutOfFuel.
  Proof.
    intros open b key p. unfold authenticate.
    destruct (negb (key_ok key)); [discriminate|].
    destruct (negb (length (p_nonce p) =? 16)%nat); [discriminate|].
    destruct (length b <? p_pos p)%nat; [discriminate|].
    destruct (open key (p_nonce p) (Some (firstn (p_pos p) b)) (p_ct p)) as [pt|]; [|discriminate].
    pose proof (plain_loop_fuel (length pt) pt 0 (p_cookies p)) as H.
    destruct (plain_loop (length pt) pt 0 (p_cookies p)); try discriminate. exfalso. apply H; auto. lia.
  Qed.

Section More.
  Variable seal : bytes -> bytes -> option bytes -> bytes -> bytes.
  Variable open : bytes -> bytes -> option bytes -> bytes -> option bytes.
  Hypothesis open_seal : forall k n ad p, open k n ad (seal k n ad p) = Some p.
  Hypothesis open_only_seal : forall k n ad c p, open k n ad c = Some p -> c = seal k n ad p.
  Hypothesis seal_inj : forall k n ad p k' n' ad' p',
    seal k n ad p = seal k' n' ad' p' -> k = k' /\ n = n' /\ ad = ad' /\ p = p'.
  Hypothesis seal_len : forall k n ad p, length (seal k n ad p) = (16 + length p)%nat.


  (* completeness of the authentication step: a packet whose authenticator
     carries the seal under the receiver's key of the bytes in front of it is
     accepted, provided the decrypted fields are well formed *)
  Theorem authenticate_complete : forall b key p pt cs,
    key_ok key = true -> length (p_nonce p) = 16%nat -> (p_pos p <= length b)%nat ->
    p_ct p = seal key (p_nonce p) (Some (firstn (p_pos p) b)) pt ->
    plain_loop (length pt) pt 0 (p_cookies p) = Ok cs ->
    authenticate open b key p =
      Ok {| p_uid := p_uid p; p_cookies := cs; p_nph := p_nph p; p_nonce := p_nonce p; p_ct := p_ct p; p_pos := p_pos p |}.
  Proof.
    intros b key p pt cs Hk Hn Hp Hc Hl. unfold authenticate.
    rewrite Hk, Hn. simpl.
    replace (length b <? p_pos p)%nat with false by (symmetry; apply Nat.ltb_ge; lia).
    rewrite Hc, open_seal, Hl. reflexivity.
  Qed.

  (* any change to an authenticated byte, the nonce, or the use of a different
     key is rejected: a datagram b2 carrying the ciphertext of a packet b1 that
     verifies under k1 is rejected by every receiver (server, or client with any
     outstanding identifier) unless key, nonce and authenticated bytes are those of b1 *)
  Theorem tamper_rejected : forall b1 k1 p1 b2 k2 p2,
    verifies seal b1 k1 p1 -> decode_packet b2 = Ok p2 -> p_ct p2 = p_ct p1 ->
    (k2 <> k1 \/ p_nonce p2 <> p_nonce p1 \/ firstn (p_pos p1) b2 <> firstn (p_pos p1) b1) ->
    (forall r, server_accept open b2 k2 <> Ok r) /\ (forall id r, client_accept open b2 k2 id <> Ok r).
  Proof.
    intros b1 k1 p1 b2 k2 p2 V1 D2 Hc Hne.
    assert (X : forall p, verifies seal b2 k2 p -> False).
    { intros p V2. assert (p = p2) by (destruct V2 as [D _]; congruence). subst p.
      destruct (same_ciphertext seal seal_inj _ _ _ _ _ _ V1 V2 (eq_sym Hc)) as [A [B [C [D _]]]].
      destruct Hne as [N|[N|N]]; apply N; auto. }
    split.
    - intros r H. destruct (server_sound seal open open_only_seal _ _ _ H) as [p V]. eauto.
    - intros id r H. destruct (client_sound seal open open_only_seal _ _ _ _ H) as [p [V _]]. eauto.
  Qed.

  (* a client accepts only a response that carries the identifier of its outstanding request *)
  Theorem client_rejects_other_request : forall b key p reqID r,
    decode_packet b = Ok p -> p_uid p <> reqID -> client_accept open b key reqID <> Ok r.
  Proof.
    intros b key p reqID r D N H.
    destruct (client_sound seal open open_only_seal _ _ _ _ H) as [q [[D' _] E]]. congruence.
  Qed.

  (* cookies: the oracle accepts what the model does *)
  Definition cookie_result (cb key : bytes) : option server_cookie :=
    match cookie_open open cb key with Ok c => Some c | _ => None end.

  Theorem model_meets_cookie_oracle : forall c0 key0 keyid rnd cb0 cb key,
    wf_cookie c0 -> lenz (sc_s2c c0) + lenz (sc_c2s c0) < 65000 -> length rnd = 16%nat ->
    cookie_seal seal c0 key0 keyid rnd = Ok cb0 ->
    (* no seal under the presented key other than the one of the issued cookie is in circulation *)
    (forall ec n ad pt, ec_decode cb = Ok ec -> ec_ct ec = seal key n ad pt ->
                        ec_ct ec = seal key0 rnd None (sc_encode c0)) ->
    C10_cookie_ok cb0 key0 c0 cb key (cookie_result cb key) = true.
  Proof.
    intros c0 key0 keyid rnd cb0 cb key Hw Hl Hr Hs Hu. unfold C10_cookie_ok, cookie_result.
    destruct (cookie_open open cb key) as [c| | |] eqn:Ho.
    - destruct (cookie_sound seal open open_only_seal _ _ _ Ho) as [ec [pt [Hd [_ [_ [Hc _]]]]]].
      pose proof (Hu _ _ _ _ Hd Hc) as Hc0.
      destruct (cookie_only_sealing_key seal open open_only_seal seal_inj _ _ _ _ _ _ _ Ho Hd Hc0 Hw) as [A [_ B]].
      subst. unfold sc_eqb. rewrite Z.eqb_refl.
      assert (R : forall x, bytes_eqb x x = true) by (intro x; apply bytes_eqb_eq; reflexivity).
      rewrite !R. reflexivity.
    - destruct (bytes_eqb cb cb0) eqn:E1; simpl; auto. destruct (bytes_eqb key key0) eqn:E2; simpl; auto.
      apply bytes_eqb_eq in E1. apply bytes_eqb_eq in E2. subst.
      assert (Y : cookie_open open cb0 key0 = Ok c0) by (eapply cookie_complete; eauto). rewrite Y in Ho. discriminate.
    - destruct (bytes_eqb cb cb0) eqn:E1; simpl; auto. destruct (bytes_eqb key key0) eqn:E2; simpl; auto.
      apply bytes_eqb_eq in E1. apply bytes_eqb_eq in E2. subst.
      assert (Y : cookie_open open cb0 key0 = Ok c0) by (eapply cookie_complete; eauto). rewrite Y in Ho. discriminate.
    - destruct (bytes_eqb cb cb0) eqn:E1; simpl; auto. destruct (bytes_eqb key key0) eqn:E2; simpl; auto.
      apply bytes_eqb_eq in E1. apply bytes_eqb_eq in E2. subst.
      assert (Y : cookie_open open cb0 key0 = Ok c0) by (eapply cookie_complete; eauto). rewrite Y in Ho. discriminate.
  Qed.
End More.

Section Export.
  Variable export : bytes -> bytes -> bytes.
  (* the exporter separates contexts: the ideal-PRF assumption for the TLS exporter *)
  Hypothesis export_inj : forall l c c', export l c = export l c' -> c = c'.

  Theorem directions_differ : fst (export_keys export) <> snd (export_keys export).
  Proof. unfold export_keys. simpl. intro H. apply export_inj in H. discriminate. Qed.

  Theorem export_oracle : let '(s2c, c2s) := export_keys export in C10_export_ok s2c c2s s2c c2s = true.
  Proof.
    unfold export_keys, C10_export_ok.
    assert (R : forall x, bytes_eqb x x = true) by (intro x; apply bytes_eqb_eq; reflexivity).
    rewrite !R. simpl.
    destruct (bytes_eqb (export export_label c2s_context) (export export_label s2c_context)) eqn:E; auto.
    apply bytes_eqb_eq in E. apply export_inj in E. discriminate.
  Qed.
End Export.

(* ------------- the statements exported to Props/C10.v ------------- *)
(* the symbolic (ideal) AEAD: Open inverts Seal, succeeds only on Seal's output
   for the same key, nonce and associated data, Seal is injective, and the
   ciphertext is 16 bytes longer than the plaintext *)
Definition ideal_aead (seal : bytes -> bytes -> option bytes -> bytes -> bytes)
                      (open : bytes -> bytes -> option bytes -> bytes -> option bytes) : Prop :=
  (forall k n ad p, open k n ad (seal k n ad p) = Some p) /\
  (forall k n ad c p, open k n ad c = Some p -> c = seal k n ad p) /\
  (forall k n ad p k' n' ad' p', seal k n ad p = seal k' n' ad' p' -> k = k' /\ n = n' /\ ad = ad' /\ p = p') /\
  (forall k n ad p, length (seal k n ad p) = (16 + length p)%nat).

Lemma c10_sound_server : forall seal open, ideal_aead seal open ->
  forall b key r, server_accept open b key = Ok r -> exists p, verifies seal b key p.
Proof. intros seal open [A [B [C D]]]. intros. eapply server_sound; eauto. Qed.

Lemma c10_sound_client : forall seal open, ideal_aead seal open ->
  forall b key reqID r, client_accept open b key reqID = Ok r ->
  exists p, verifies seal b key p /\ p_uid p = reqID.
Proof. intros seal open [A [B [C D]]]. intros. eapply client_sound; eauto. Qed.

Lemma c10_same_ciphertext : forall seal open, ideal_aead seal open ->
  forall b1 k1 p1 b2 k2 p2,
  verifies seal b1 k1 p1 -> verifies seal b2 k2 p2 -> p_ct p1 = p_ct p2 ->
  k1 = k2 /\ p_nonce p1 = p_nonce p2 /\ p_pos p1 = p_pos p2 /\
  firstn (p_pos p1) b1 = firstn (p_pos p1) b2 /\
  p_uid p1 = p_uid p2 /\ p_cookies p1 = p_cookies p2 /\ p_nph p1 = p_nph p2.
Proof. intros seal open [A [B [C D]]]. intros. eapply same_ciphertext; eauto. Qed.

Lemma c10_tamper : forall seal open, ideal_aead seal open ->
  forall b1 k1 p1 b2 k2 p2,
  verifies seal b1 k1 p1 -> decode_packet b2 = Ok p2 -> p_ct p2 = p_ct p1 ->
  (k2 <> k1 \/ p_nonce p2 <> p_nonce p1 \/ firstn (p_pos p1) b2 <> firstn (p_pos p1) b1) ->
  (forall r, server_accept open b2 k2 <> Ok r) /\ (forall id r, client_accept open b2 k2 id <> Ok r).
Proof. intros seal open [A [B [C D]]]. intros. eapply tamper_rejected; eauto. Qed.

Lemma c10_wrong_uid : forall seal open, ideal_aead seal open ->
  forall b key p reqID r,
  decode_packet b = Ok p -> p_uid p <> reqID -> client_accept open b key reqID <> Ok r.
Proof. intros seal open [A [B [C D]]]. intros. eapply client_rejects_other_request; eauto. Qed.

Lemma c10_auth_complete : forall seal open, ideal_aead seal open ->
  forall b key p pt cs,
  key_ok key = true -> length (p_nonce p) = 16%nat -> (p_pos p <= length b)%nat ->
  p_ct p = seal key (p_nonce p) (Some (firstn (p_pos p) b)) pt ->
  plain_loop (length pt) pt 0 (p_cookies p) = Ok cs ->
  authenticate open b key p =
    Ok {| p_uid := p_uid p; p_cookies := cs; p_nph := p_nph p; p_nonce := p_nonce p; p_ct := p_ct p; p_pos := p_pos p |}.
Proof. intros seal open [A [B [C D]]]. intros. eapply authenticate_complete; eauto. Qed.

Lemma c10_cookie_complete : forall seal open, ideal_aead seal open ->
  forall c key keyid rnd cb,
  wf_cookie c -> lenz (sc_s2c c) + lenz (sc_c2s c) < 65000 -> length rnd = 16%nat ->
  cookie_seal seal c key keyid rnd = Ok cb -> cookie_open open cb key = Ok c.
Proof. intros seal open [A [B [C D]]]. intros. eapply cookie_complete; eauto. Qed.

Lemma c10_cookie_sound : forall seal open, ideal_aead seal open ->
  forall cb key c ec key0 n0 c0,
  cookie_open open cb key = Ok c -> ec_decode cb = Ok ec ->
  ec_ct ec = seal key0 n0 None (sc_encode c0) -> wf_cookie c0 ->
  key = key0 /\ ec_nonce ec = n0 /\ c = c0.
Proof. intros seal open [A [B [C D]]]. intros. eapply cookie_only_sealing_key; eauto. Qed.

Lemma c10_packet_oracle : forall seal open, ideal_aead seal open ->
  forall hs b key dir reqid,
  (forall h, In h hs -> honest_ok seal h) -> unforgeable seal hs b key dir ->
  (forall h, In h hs -> model_accepts open (h_bytes h) (h_key h) (h_dir h) (h_uid h) = true) ->
  (dir = 0 \/ dir = 1) ->
  C10_packet_ok hs b key dir reqid (model_accepts open b key dir reqid) = true.
Proof.
  intros seal open [A [B [C D]]]. intros.
  eapply model_meets_packet_oracle; eauto.
Qed.

Lemma c10_cookie_oracle : forall seal open, ideal_aead seal open ->
  forall c0 key0 keyid rnd cb0 cb key,
  wf_cookie c0 -> lenz (sc_s2c c0) + lenz (sc_c2s c0) < 65000 -> length rnd = 16%nat ->
  cookie_seal seal c0 key0 keyid rnd = Ok cb0 ->
  (forall ec n ad pt, ec_decode cb = Ok ec -> ec_ct ec = seal key n ad pt ->
                      ec_ct ec = seal key0 rnd None (sc_encode c0)) ->
  C10_cookie_ok cb0 key0 c0 cb key (cookie_result open cb key) = true.
Proof. intros seal open [A [B [C D]]]. intros. eapply model_meets_cookie_oracle; eauto. Qed.

Lemma c10_no_fuel : forall open b key reqID,
  server_accept open b key <> OutOfFuel /\ client_accept open b key reqID <> OutOfFuel.
Proof.
  intros open b key reqID. unfold server_accept, client_accept, process_request, process_response.
  pose proof (decode_packet_fuel b) as F.
  destruct (decode_packet b) as [p| | |]; try (split; discriminate); [|contradiction].
  split; [apply authenticate_fuel|].
  destruct (negb (bytes_eqb reqID (p_uid p))); [discriminate|apply authenticate_fuel].
Qed.

Lemma c10_cookie_no_fuel : forall open cb key, cookie_open open cb key <> OutOfFuel.
Proof.
  intros open cb key. unfold cookie_open, ec_decode.
  pose proof (tlv_decode_fuel cookieTypeKeyID cookieTypeNonce cookieTypeCiphertext cb) as F.
  destruct (tlv_decode cookieTypeKeyID cookieTypeNonce cookieTypeCiphertext cb) as [s| | |]; try discriminate; [|contradiction].
  unfold ec_decrypt. destruct (negb (key_ok key)); [discriminate|]. simpl.
  destruct (negb (length (v2 s) =? 16)%nat); [discriminate|].
  destruct (open key (v2 s) None (v3 s)) as [pt|]; [|discriminate].
  unfold sc_decode.
  pose proof (tlv_decode_fuel cookieTypeAlgorithm cookieTypeKeyS2C cookieTypeKeyC2S pt) as G.
  destruct (tlv_decode cookieTypeAlgorithm cookieTypeKeyS2C cookieTypeKeyC2S pt); try discriminate. contradiction.
Qed.

(* ------------- the client's receive loop ------------- *)
Lemma c10_client_loop_sound : forall seal open, ideal_aead seal open ->
  forall deadline key reqID ds retries i k,
  client_loop open deadline key reqID ds retries i = Some k ->
  (i <= k)%nat /\ exists p, verifies seal (nth (k - i) ds []) key p /\ p_uid p = reqID.
Proof.
  intros seal open HI deadline key reqID ds.
  induction ds as [|b r IH]; intros retries i k H; simpl in H; [discriminate|].
  destruct (client_accept open b key reqID) as [p'| | |] eqn:E.
  - inversion H; subst k. split; [lia|]. rewrite Nat.sub_diag. simpl.
    eapply c10_sound_client; eauto.
  - destruct (deadline && (retries =? 0)%nat); [|discriminate].
    apply IH in H. destruct H as [H1 H2]. split; [lia|].
    replace (k - i)%nat with (S (k - S i)) by lia. exact H2.
  - destruct (deadline && (retries =? 0)%nat); [|discriminate].
    apply IH in H. destruct H as [H1 H2]. split; [lia|].
    replace (k - i)%nat with (S (k - S i)) by lia. exact H2.
  - destruct (deadline && (retries =? 0)%nat); [|discriminate].
    apply IH in H. destruct H as [H1 H2]. split; [lia|].
    replace (k - i)%nat with (S (k - S i)) by lia. exact H2.
Qed.

Lemma c10_client_loop_sound0 : forall seal open, ideal_aead seal open ->
  forall deadline key reqID ds k,
  client_loop open deadline key reqID ds 0 0 = Some k ->
  exists p, verifies seal (nth k ds []) key p /\ p_uid p = reqID.
Proof.
  intros seal open HI deadline key reqID ds k H.
  destruct (c10_client_loop_sound seal open HI _ _ _ _ _ _ _ H) as [_ E].
  rewrite Nat.sub_0_r in E. exact E.
Qed.

(* ------------- listeners ------------- *)
Definition first_cookie_of (b : bytes) : option bytes :=
  match decode_packet b with
  | Ok q => match p_cookies q with c :: _ => Some c | [] => None end
  | _ => None
  end.

Lemma c10_listener_sound : forall seal open, ideal_aead seal open ->
  forall getkey hs b p sc,
  server_nts open getkey b = Ok (p, sc) ->
  (forall h, In h hs -> honest_ok seal h) -> unforgeable seal hs b (sc_c2s sc) 0 ->
  existsb (fun h => (h_dir h =? 0) && untampered b h) hs = true /\
  exists cb ec mk, first_cookie_of b = Some cb /\ ec_decode cb = Ok ec /\ getkey (ec_id ec) = Some mk /\
                   cookie_open open cb mk = Ok sc.
Proof.
  intros seal open [A [B [C D]]] getkey hs b p sc H Hh Hu.
  unfold server_nts in H.
  destruct (decode_packet b) as [q| | |] eqn:Hd; try discriminate.
  destruct (first_cookie q) as [cb| | |] eqn:Hf; try discriminate.
  destruct (ec_decode cb) as [ec| | |] eqn:He; try discriminate.
  destruct (getkey (ec_id ec)) as [mk|] eqn:Hg; [|discriminate].
  destruct (ec_decrypt open ec mk) as [sc'| | |] eqn:Hc; try discriminate.
  destruct (process_request open b (sc_c2s sc') q) as [p'| | |] eqn:Hp; try discriminate.
  inversion H; subst p' sc'. clear H.
  split.
  - assert (M : model_accepts open b (sc_c2s sc) 0 [] = true).
    { unfold model_accepts, server_accept. simpl. rewrite Hd, Hp. reflexivity. }
    assert (J : existsb (justifies b (sc_c2s sc) 0 []) hs = true) by (eapply accepted_justified; eauto).
    apply existsb_exists in J. destruct J as [h [Hin J]].
    apply existsb_exists. exists h. split; auto.
    unfold justifies in J. apply andb_true_iff in J. destruct J as [J _].
    apply andb_true_iff in J. destruct J as [J J3]. apply andb_true_iff in J. destruct J as [_ J2].
    rewrite J2, J3. reflexivity.
  - exists cb, ec, mk. unfold first_cookie_of. rewrite Hd. unfold first_cookie in Hf.
    destruct (p_cookies q) as [|c0 r] eqn:Hq; [discriminate|]. inversion Hf; subst c0.
    repeat split; auto. unfold cookie_open. rewrite He. exact Hc.
Qed.
