(* C18, clause "the drift allowance is proportional to the interval": real-number analysis of
   the binary64 evaluation in clocks.SystemClock.Drift (Model.Units.sysclk_drift).

     Drift(d) = int64( RN( RN(Seconds(d) * Seconds(drift)) * 1e9 ) )
     Seconds(x) = RN( float(x / 1e9) + RN(float(x % 1e9) / 1e9) )

   Six roundings to nearest, each with relative error at most u = 2^-53 (no underflow: every
   non-zero intermediate value is at least 10^-18), and one truncation.  Result: for
   0 < drift, 0 <= d, drift*d < 2^62 * 10^9 the allowance is floor(F) with
   F within (1 -+ u)^6 of drift*d/10^9; the property oracle C18_drift_ok holds for the model on
   the whole range, the allowance is monotone in d, and additive up to 3 ns + 2^-46.

   The generic facts about the binary64 operations (fmul_spec ... f_to_i64_spec) are the usual
   ones over Flocq's BinarySingleNaN (the same statements are used by the C19 development). *)
From Coq Require Import ZArith Reals Lia Lra Bool Psatz.
From Flocq Require Import Core FIX Ulp Round_NE Relative BinarySingleNaN.
From ST Require Import Base.Ints Base.F64 Model.NtpTime Model.Units Model.UnitsOracle.
Open Scope R_scope.

Notation emin := (SpecFloat.emin prec emax).
Notation fexp := (SpecFloat.fexp prec emax).
Notation rnd := (round radix2 fexp ZnearestE).
Notation Rv := (@B2R prec emax).
Notation fin := (@is_finite prec emax).
Notation fmt := (generic_format radix2 fexp).

Lemma fexp_valid : Valid_exp fexp.
Proof. change fexp with (FLT_exp emin prec). apply FLT_exp_valid. reflexivity. Qed.
#[local] Existing Instance fexp_valid.

Lemma rnd_le x y : x <= y -> rnd x <= rnd y.
Proof. apply round_le; auto with typeclass_instances. Qed.

Lemma rnd_0 : rnd 0 = 0.
Proof. apply round_0; auto with typeclass_instances. Qed.

Lemma rnd_id x : fmt x -> rnd x = x.
Proof. apply round_generic; auto with typeclass_instances. Qed.

Lemma rnd_nonneg x : 0 <= x -> 0 <= rnd x.
Proof. intros H. rewrite <- rnd_0. apply rnd_le. exact H. Qed.

(* integers m * 2^e with |m| < 2^53 are representable *)
Lemma fmt_int_shift m e : (Z.abs m < 2^53)%Z -> (0 <= e)%Z -> fmt (IZR (m * 2^e)).
Proof.
  intros Hm He. change fexp with (FLT_exp emin prec). apply generic_format_FLT. apply (FLT_spec _ _ _ _ (Float radix2 m e)).
  - unfold F2R. cbn [Fnum Fexp]. rewrite mult_IZR. f_equal.
    rewrite (IZR_Zpower radix2) by exact He. reflexivity.
  - cbn [Fnum]. exact Hm.
  - cbn [Fexp]. unfold SpecFloat.emin, emax, prec. lia.
Qed.

Lemma fmt_int m : (Z.abs m < 2^53)%Z -> fmt (IZR m).
Proof. intros Hm. replace m with (m * 2^0)%Z by lia. apply fmt_int_shift; lia. Qed.

Lemma bpow_lt_emax e : (e < 1024)%Z -> bpow radix2 e < bpow radix2 emax.
Proof. intros H. apply bpow_lt. exact H. Qed.

Lemma fmt_bpow e : (-1000 <= e <= 1000)%Z -> fmt (bpow radix2 e).
Proof.
  intros H. apply generic_format_bpow. unfold SpecFloat.fexp, FLT_exp, SpecFloat.emin, emax, prec. lia.
Qed.

Lemma rnd_abs_le x y : fmt y -> Rabs x <= y -> Rabs (rnd x) <= y.
Proof. intros Fy H. apply abs_round_le_generic; auto with typeclass_instances. Qed.

Lemma no_overflow x e : (e < 1024)%Z -> Rabs x <= bpow radix2 e ->
  Rlt_bool (Rabs x) (bpow radix2 emax) = true.
Proof.
  intros He H. apply Rlt_bool_true. eapply Rle_lt_trans; [exact H|]. apply bpow_lt_emax; exact He.
Qed.

Lemma fmul_spec x y e : fin x = true -> fin y = true -> (-1000 <= e <= 1000)%Z ->
  Rabs (Rv x * Rv y) <= bpow radix2 e ->
  fin (fmul x y) = true /\ Rv (fmul x y) = rnd (Rv x * Rv y).
Proof.
  intros Fx Fy He Hb. unfold fmul.
  pose proof (Bmult_correct prec emax Hprec Hmax mode_NE x y) as C. cbn [round_mode] in C.
  assert (Hr : Rabs (rnd (Rv x * Rv y)) <= bpow radix2 e) by (apply rnd_abs_le; [apply fmt_bpow; exact He|exact Hb]).
  rewrite (no_overflow _ e) in C by (try lia; exact Hr).
  destruct C as [C1 [C2 _]]. rewrite C2, Fx, Fy. split; [reflexivity|exact C1].
Qed.

Lemma fadd_spec x y e : fin x = true -> fin y = true -> (-1000 <= e <= 1000)%Z ->
  Rabs (Rv x + Rv y) <= bpow radix2 e ->
  fin (fadd x y) = true /\ Rv (fadd x y) = rnd (Rv x + Rv y).
Proof.
  intros Fx Fy He Hb. unfold fadd.
  pose proof (Bplus_correct prec emax Hprec Hmax mode_NE x y Fx Fy) as C. cbn [round_mode] in C.
  assert (Hr : Rabs (rnd (Rv x + Rv y)) <= bpow radix2 e) by (apply rnd_abs_le; [apply fmt_bpow; exact He|exact Hb]).
  rewrite (no_overflow _ e) in C by (try lia; exact Hr).
  destruct C as [C1 [C2 _]]. split; assumption.
Qed.

Lemma fdiv_spec x y e : fin x = true -> Rv y <> 0 -> (-1000 <= e <= 1000)%Z ->
  Rabs (Rv x / Rv y) <= bpow radix2 e ->
  fin (fdiv x y) = true /\ Rv (fdiv x y) = rnd (Rv x / Rv y).
Proof.
  intros Fx Hy He Hb. unfold fdiv.
  pose proof (Bdiv_correct prec emax Hprec Hmax mode_NE x y Hy) as C. cbn [round_mode] in C.
  assert (Hr : Rabs (rnd (Rv x / Rv y)) <= bpow radix2 e) by (apply rnd_abs_le; [apply fmt_bpow; exact He|exact Hb]).
  rewrite (no_overflow _ e) in C by (try lia; exact Hr).
  destruct C as [C1 [C2 _]]. rewrite C2, Fx. split; [reflexivity|exact C1].
Qed.

Lemma f_of_int_spec z : (Z.abs z < 2^53)%Z -> fin (f_of_int z) = true /\ Rv (f_of_int z) = IZR z.
Proof.
  intros Hz. unfold f_of_int.
  pose proof (binary_normalize_correct prec emax Hprec Hmax mode_NE z 0 false) as C.
  cbn [round_mode] in C. cbv zeta in C.
  assert (E : F2R (Float radix2 z 0) = IZR z) by (unfold F2R; cbn [Fnum Fexp bpow]; lra).
  rewrite E in C. rewrite (rnd_id (IZR z)) in C by (apply fmt_int; exact Hz).
  rewrite Rlt_bool_true in C.
  - destruct C as [C1 [C2 _]]. split; assumption.
  - apply Rle_lt_trans with (bpow radix2 53).
    + rewrite <- abs_IZR. change (bpow radix2 53) with (IZR (2^53)). apply IZR_le. lia.
    + apply bpow_lt_emax. lia.
Qed.

Lemma f_to_i64_spec x : fin x = true ->
  (min_i64 <= Ztrunc (Rv x) <= max_i64)%Z -> f_to_i64 x = Ztrunc (Rv x).
Proof.
  intros Fx Hr. unfold f_to_i64, fis_finite. rewrite Fx.
  assert (E : Btrunc x = Ztrunc (Rv x)).
  { apply eq_IZR. rewrite (Btrunc_correct prec emax Hmax). apply round_FIX_IZR. }
  rewrite E. unfold in_i64b.
  destruct (Z.leb_spec min_i64 (Ztrunc (Rv x))); [|lia].
  destruct (Z.leb_spec (Ztrunc (Rv x)) max_i64); [reflexivity|lia].
Qed.

Lemma feq_zero_false x : fin x = true -> 0 < Rv x -> feq x fzero = false.
Proof.
  intros Fx Hx. unfold feq, fcmp. rewrite Bcompare_correct by (exact Fx || reflexivity).
  change (Rv fzero) with 0. rewrite Rcompare_Gt by exact Hx. reflexivity.
Qed.

(* ---- relative error of one rounding ---- *)
Definition u : R := / 9007199254740992.    (* 2^-53 *)

Lemma tiny_le x : / 1000000000000000000000 <= x -> bpow radix2 (-1022) <= x.
Proof.
  intros H. apply Rle_trans with (bpow radix2 (-70)); [apply bpow_le; lia|].
  change (bpow radix2 (-70)) with (/ IZR (Zpower_pos 2 70)).
  change (Zpower_pos 2 70) with 1180591620717411303424%Z.
  eapply Rle_trans; [|exact H].
  apply Rinv_le_contravar; lra.
Qed.

Lemma rnd_rel x : x = 0 \/ bpow radix2 (-1022) <= x -> x * (1 - u) <= rnd x <= x * (1 + u).
Proof.
  intros [H|H].
  - subst x. rewrite rnd_0. lra.
  - assert (P : 0 < x) by (eapply Rlt_le_trans; [apply (bpow_gt_0 radix2 (-1022))|exact H]).
    pose proof (relative_error_N_FLT radix2 emin prec Hprec (fun x => negb (Z.even x)) x) as E.
    change (FLT_exp emin prec) with fexp in E.
    assert (Hb : bpow radix2 (emin + prec - 1) <= Rabs x).
    { rewrite Rabs_pos_eq by lra. replace (emin + prec - 1)%Z with (-1022)%Z by reflexivity. exact H. }
    specialize (E Hb). rewrite (Rabs_pos_eq x) in E by lra.
    replace (- prec + 1)%Z with (-52)%Z in E by reflexivity.
    change (bpow radix2 (-52)) with (/ IZR (Zpower_pos 2 52)) in E.
    change (Zpower_pos 2 52) with 4503599627370496%Z in E.
    apply Rabs_le_inv in E. unfold u. lra.
Qed.

(* x is X up to k roundings *)
Definition near (k : nat) (X x : R) : Prop := X * (1 - u) ^ k <= x <= X * (1 + u) ^ k.

Lemma u_range : 0 < u < / 1000000000000000.
Proof. unfold u. split; [apply Rinv_0_lt_compat; lra|apply Rinv_lt_contravar; lra]. Qed.

Lemma pow_lo_pos k : 0 < (1 - u) ^ k.
Proof. apply pow_lt. pose proof u_range. lra. Qed.

Lemma pow_hi_ge1 k : 1 <= (1 + u) ^ k.
Proof. apply pow_R1_Rle. pose proof u_range. lra. Qed.

Lemma pow_lo_le1 k : (1 - u) ^ k <= 1.
Proof.
  induction k as [|k IH]; [simpl; lra|]. simpl. pose proof u_range. pose proof (pow_lo_pos k). nra.
Qed.

Lemma num6 : (1 + u) ^ 6 <= 1 + / 1125899906842624 /\ 1 - / 1125899906842624 <= (1 - u) ^ 6.
Proof. unfold u. split; lra. Qed.

Lemma pow_mono_lo j k : (j <= k)%nat -> (1 - u) ^ k <= (1 - u) ^ j.
Proof.
  intros H. induction H as [|k H IH]; [lra|]. simpl. pose proof u_range. pose proof (pow_lo_pos k). nra.
Qed.

Lemma pow_mono_hi j k : (j <= k)%nat -> (1 + u) ^ j <= (1 + u) ^ k.
Proof. intros H. apply Rle_pow; [pose proof u_range; lra|exact H]. Qed.

Lemma near_refl X : near 0 X X.
Proof. unfold near. simpl. lra. Qed.

Lemma near_weaken j k X x : 0 <= X -> (j <= k)%nat -> near j X x -> near k X x.
Proof.
  intros HX H [A B]. pose proof (pow_mono_lo j k H). pose proof (pow_mono_hi j k H). unfold near. split.
  - eapply Rle_trans; [|exact A]. apply Rmult_le_compat_l; assumption.
  - eapply Rle_trans; [exact B|]. apply Rmult_le_compat_l; assumption.
Qed.

Lemma near_nonneg k X x : 0 <= X -> near k X x -> 0 <= x.
Proof. intros HX [A _]. pose proof (pow_lo_pos k). eapply Rle_trans; [|exact A]. apply Rmult_le_pos; lra. Qed.

Lemma near_zero k x : near k 0 x -> x = 0.
Proof. intros [A B]. lra. Qed.

(* at most six roundings lose less than 2^-50 *)
Lemma near6 k X x : 0 <= X -> (k <= 6)%nat -> near k X x ->
  X * (1 - / 1125899906842624) <= x <= X * (1 + / 1125899906842624).
Proof.
  intros HX Hk N. apply (near_weaken k 6 X x HX Hk) in N. destruct N as [A B]. destruct num6 as [N1 N2]. split.
  - eapply Rle_trans; [|exact A]. apply Rmult_le_compat_l; assumption.
  - eapply Rle_trans; [exact B|]. apply Rmult_le_compat_l; assumption.
Qed.

Lemma near_half k X x : 0 <= X -> (k <= 6)%nat -> near k X x -> X / 2 <= x <= 2 * X.
Proof. intros HX Hk N. apply near6 in N; [|exact HX|exact Hk]. lra. Qed.

Lemma near_mul j k X Y x y : 0 <= X -> 0 <= Y -> near j X x -> near k Y y -> near (j + k) (X * Y) (x * y).
Proof.
  intros HX HY Nx Ny. pose proof (near_nonneg j X x HX Nx) as Px. pose proof (near_nonneg k Y y HY Ny) as Py.
  destruct Nx as [A1 A2]. destruct Ny as [B1 B2].
  pose proof (pow_lo_pos j). pose proof (pow_lo_pos k).
  unfold near. rewrite !pow_add. split.
  - replace (X * Y * ((1 - u) ^ j * (1 - u) ^ k)) with ((X * (1 - u) ^ j) * (Y * (1 - u) ^ k)) by ring.
    apply Rmult_le_compat; try assumption; apply Rmult_le_pos; lra.
  - replace (X * Y * ((1 + u) ^ j * (1 + u) ^ k)) with ((X * (1 + u) ^ j) * (Y * (1 + u) ^ k)) by ring.
    apply Rmult_le_compat; assumption.
Qed.

Lemma near_add k X Y x y : near k X x -> near k Y y -> near k (X + Y) (x + y).
Proof. intros [A1 A2] [B1 B2]. unfold near. split; lra. Qed.

Lemma near_exact k X : 0 <= X -> near k X X.
Proof. intros HX. apply (near_weaken 0 k); [exact HX|lia|apply near_refl]. Qed.

(* one more rounding; the value is zero or far above the subnormal range *)
Lemma near_rnd k X x : (k <= 5)%nat -> X = 0 \/ / 500000000000000000000 <= X ->
  near k X x -> near (S k) X (rnd x).
Proof.
  intros Hk HX N.
  assert (X0 : 0 <= X) by (destruct HX as [->|HX]; [lra|]; eapply Rle_trans; [|exact HX]; left; apply Rinv_0_lt_compat; lra).
  assert (T : x = 0 \/ bpow radix2 (-1022) <= x).
  { destruct HX as [->|HX]; [left; exact (near_zero k x N)|]. right. apply tiny_le.
    apply (near_half k X x X0) in N; [|lia]. lra. }
  pose proof (rnd_rel x T) as [R1 R2]. destruct N as [A B]. pose proof u_range.
  pose proof (pow_lo_pos k). pose proof (pow_hi_ge1 k).
  assert (Px : 0 <= x) by (eapply Rle_trans; [|exact A]; apply Rmult_le_pos; lra).
  unfold near. simpl. split.
  - eapply Rle_trans; [|exact R1].
    replace (X * ((1 - u) * (1 - u) ^ k)) with ((X * (1 - u) ^ k) * (1 - u)) by ring.
    apply Rmult_le_compat_r; lra.
  - eapply Rle_trans; [exact R2|].
    replace (X * ((1 + u) * (1 + u) ^ k)) with ((X * (1 + u) ^ k) * (1 + u)) by ring.
    apply Rmult_le_compat_r; lra.
Qed.

(* ---- time.Duration.Seconds on non-negative durations ---- *)
Definition E9 : Z := 1000000000.

Lemma E9_pos_R : 0 < IZR E9.
Proof. unfold E9. lra. Qed.

Lemma div_E9_small x : (1 <= x)%Z -> / 1000000000 <= IZR x / IZR E9.
Proof.
  intros H. apply IZR_le in H. unfold E9, Rdiv.
  assert (0 < / 1000000000) by (apply Rinv_0_lt_compat; lra). nra.
Qed.

Lemma div_E9_zero_or_big x : (0 <= x)%Z -> IZR x / IZR E9 = 0 \/ / 500000000000000000000 <= IZR x / IZR E9.
Proof.
  intros H. destruct (Z.eq_dec x 0) as [->|N].
  - left. unfold Rdiv. apply Rmult_0_l.
  - right. eapply Rle_trans; [|apply div_E9_small; lia].
    apply Rinv_le_contravar; lra.
Qed.

Lemma dur_seconds_near d : (0 <= d <= 9223372036854775808)%Z ->
  fin (dur_seconds d) = true /\ near 2 (IZR d / IZR E9) (Rv (dur_seconds d)) /\
  Rv (dur_seconds d) = rnd (IZR (d / E9) + rnd (IZR (d mod E9) / IZR E9)).
Proof.
  intros Hd.
  assert (Eq : Z.quot d 1000000000 = (d / E9)%Z) by (apply Z.quot_div_nonneg; unfold E9; lia).
  assert (Er : Z.rem d 1000000000 = (d mod E9)%Z) by (apply Z.rem_mod_nonneg; unfold E9; lia).
  unfold dur_seconds. rewrite Eq, Er. clear Eq Er.
  pose proof (Z.div_mod d E9 ltac:(unfold E9; lia)) as DM.
  set (q := (d / E9)%Z) in *. set (r := (d mod E9)%Z) in *.
  assert (Hr : (0 <= r < 1000000000)%Z) by (subst r; unfold E9; apply Z.mod_pos_bound; lia).
  assert (Hq : (0 <= q <= 9223372036)%Z) by (unfold E9 in DM; lia).
  destruct (f_of_int_spec q) as [Fq Rq]; [lia|].
  destruct (f_of_int_spec r) as [Fr Rr]; [lia|].
  destruct (f_of_int_spec 1000000000) as [F9 R9]; [lia|].
  pose proof E9_pos_R as P9. fold E9 in R9, F9 |- *.
  assert (Hx : 0 <= IZR r / IZR E9 <= 1).
  { assert (0 <= IZR r <= 1000000000) by (split; apply IZR_le; lia). unfold E9 in *. split.
    - apply Rmult_le_pos; [lra|]. left. apply Rinv_0_lt_compat. lra.
    - apply Rmult_le_reg_r with 1000000000; [lra|]. unfold Rdiv. rewrite Rmult_assoc, Rinv_l by lra. lra. }
  destruct (fdiv_spec (f_of_int r) (f_of_int E9) 0) as [Fd Rd].
  { exact Fr. } { rewrite R9. lra. } { lia. }
  { rewrite Rr, R9. rewrite Rabs_pos_eq by lra. cbn [bpow]. lra. }
  rewrite Rr, R9 in Rd.
  assert (Nf : near 1 (IZR r / IZR E9) (rnd (IZR r / IZR E9))).
  { apply near_rnd; [lia|apply div_E9_zero_or_big; lia|apply near_refl]. }
  assert (Hq' : 0 <= IZR q <= 9223372036) by (split; apply IZR_le; lia).
  assert (Ns : near 1 (IZR q + IZR r / IZR E9) (IZR q + rnd (IZR r / IZR E9))).
  { apply near_add; [apply near_exact; lra|exact Nf]. }
  assert (Es : IZR q + IZR r / IZR E9 = IZR d / IZR E9).
  { replace (IZR d) with (IZR E9 * IZR q + IZR r) by (rewrite <- mult_IZR, <- plus_IZR; f_equal; lia). field. lra. }
  rewrite Es in Ns.
  assert (Hd' : 0 <= IZR d / IZR E9).
  { apply Rmult_le_pos; [apply IZR_le; lia|]. left. apply Rinv_0_lt_compat. exact P9. }
  destruct (fadd_spec (f_of_int q) (fdiv (f_of_int r) (f_of_int E9)) 35) as [Fs Rs].
  { exact Fq. } { exact Fd. } { lia. }
  { rewrite Rq, Rd. apply (near_half 1) in Nf; [|lra|lia].
    rewrite Rabs_pos_eq by lra. change (bpow radix2 35) with (IZR (2^35)). change (2^35)%Z with 34359738368%Z. lra. }
  rewrite Rq, Rd in Rs. split; [exact Fs|]. split; [|exact Rs].
  rewrite Rs. apply near_rnd; [lia|apply div_E9_zero_or_big; lia|exact Ns].
Qed.

Lemma dur_seconds_mono d1 d2 : (0 <= d1 <= d2)%Z -> (d2 <= 9223372036854775808)%Z ->
  Rv (dur_seconds d1) <= Rv (dur_seconds d2).
Proof.
  intros H1 H2.
  destruct (dur_seconds_near d1) as [_ [_ E1]]; [lia|].
  destruct (dur_seconds_near d2) as [_ [_ E2]]; [lia|].
  rewrite E1, E2. apply rnd_le.
  pose proof (Z.div_mod d1 E9 ltac:(unfold E9; lia)) as DM1.
  pose proof (Z.div_mod d2 E9 ltac:(unfold E9; lia)) as DM2.
  pose proof (Z.mod_pos_bound d1 E9 ltac:(unfold E9; lia)) as B1.
  pose proof (Z.mod_pos_bound d2 E9 ltac:(unfold E9; lia)) as B2.
  set (q1 := (d1 / E9)%Z) in *. set (r1 := (d1 mod E9)%Z) in *.
  set (q2 := (d2 / E9)%Z) in *. set (r2 := (d2 mod E9)%Z) in *.
  clearbody q1 r1 q2 r2.
  pose proof E9_pos_R as P9.
  assert (I9 : 0 < / IZR E9) by (apply Rinv_0_lt_compat; exact P9).
  assert (U : forall r, (0 <= r < E9)%Z -> 0 <= rnd (IZR r / IZR E9) <= 1).
  { intros r Hr. assert (0 <= IZR r <= IZR E9) by (split; apply IZR_le; lia). split.
    - apply rnd_nonneg. apply Rmult_le_pos; lra.
    - rewrite <- (rnd_id 1) by (apply (fmt_int 1); lia). apply rnd_le.
      apply Rmult_le_reg_r with (IZR E9); [lra|]. unfold Rdiv. rewrite Rmult_assoc, Rinv_l by lra. lra. }
  destruct (Z_lt_le_dec q1 q2) as [L|G].
  - assert (IZR q1 + 1 <= IZR q2) by (rewrite <- plus_IZR; apply IZR_le; lia).
    pose proof (U r1 B1). pose proof (U r2 B2). lra.
  - assert (q1 = q2) by (unfold E9 in *; lia). subst q2.
    assert (r1 <= r2)%Z by lia.
    apply Rplus_le_compat_l. apply rnd_le. apply Rmult_le_compat_r; [lra|]. apply IZR_le. assumption.
Qed.

(* ---- SystemClock.Drift ---- *)
Definition Fval (dn d : Z) : R := rnd (rnd (Rv (dur_seconds d) * Rv (dur_seconds dn)) * IZR E9).

(* the range of the theorems: allowance below 2^63 - 2^13 ns (the last 8192 ns below 2^63 round up
   to 2^63 and the conversion to int64 then yields MinInt64: see sysclk_drift_top_band) *)
Definition DRL : Z := 9223372036854767616.        (* 2^63 - 2^13 *)
Definition drift_range (dn d : Z) : Prop :=
  (0 < dn <= 9223372036854775808)%Z /\ (0 <= d <= 9223372036854775808)%Z /\ (dn * d < DRL * 1000000000)%Z.

Lemma feq_zero_false' x : fin x = true -> Rv x <> 0 -> feq x fzero = false.
Proof.
  intros Fx Hx. unfold feq, fcmp. rewrite Bcompare_correct by (exact Fx || reflexivity).
  change (Rv fzero) with 0. destruct (Rcompare_spec (Rv x) 0); try reflexivity. contradiction.
Qed.

(* the float computation of Drift on two finite "seconds" values, no overflow *)
Lemma drift_core x y : fin x = true -> fin y = true -> Rv y <> 0 ->
  Rabs (Rv x * Rv y) <= bpow radix2 35 ->
  Rabs (rnd (Rv x * Rv y) * IZR E9) <= bpow radix2 64 ->
  (min_i64 <= Ztrunc (rnd (rnd (Rv x * Rv y) * IZR E9)) <= max_i64)%Z ->
  (if feq y fzero then max_i64 else dur_of_seconds (fmul x y)) = Ztrunc (rnd (rnd (Rv x * Rv y) * IZR E9)).
Proof.
  intros Fx Fy Ny B1 B2 Hr. rewrite (feq_zero_false' _ Fy Ny).
  destruct (fmul_spec x y 35 Fx Fy) as [Fp Rp]; [lia|exact B1|].
  destruct (f_of_int_spec 1000000000) as [F9 R9]; [lia|]. fold E9 in F9, R9.
  unfold dur_of_seconds. fold E9.
  destruct (fmul_spec (fmul x y) (f_of_int E9) 64 Fp F9) as [Fm Rm]; [lia|rewrite R9, Rp; exact B2|].
  rewrite R9, Rp in Rm. rewrite (f_to_i64_spec _ Fm); rewrite Rm; [reflexivity|exact Hr].
Qed.

Lemma drift_bounds dn d : drift_range dn d ->
  fin (dur_seconds d) = true /\ fin (dur_seconds dn) = true /\
  0 <= Rv (dur_seconds d) /\ 0 < Rv (dur_seconds dn) /\
  Rv (dur_seconds d) * Rv (dur_seconds dn) <= bpow radix2 35 /\
  0 <= rnd (Rv (dur_seconds d) * Rv (dur_seconds dn)) * IZR E9 <= bpow radix2 64 /\
  near 6 (IZR (dn * d) / IZR E9) (Fval dn d) /\ 0 <= Fval dn d < 9223372036854775808.
Proof.
  intros [Hn [Hd Hq]]. unfold DRL in Hq.
  destruct (dur_seconds_near d Hd) as [Fd [Nd _]].
  destruct (dur_seconds_near dn) as [Fn [Nn _]]; [lia|].
  pose proof E9_pos_R as P9.
  set (X := IZR d / IZR E9) in *. set (Y := IZR dn / IZR E9) in *.
  assert (HX : 0 <= X).
  { subst X. apply Rmult_le_pos; [apply IZR_le; lia|]. left. apply Rinv_0_lt_compat. exact P9. }
  assert (HY : / 1000000000 <= Y) by (apply div_E9_small; lia).
  assert (I9 : 0 < / 1000000000) by (apply Rinv_0_lt_compat; lra).
  assert (Pn : 0 < Rv (dur_seconds dn)).
  { apply (near_half 2) in Nn; [|lra|lia]. lra. }
  assert (Pd : 0 <= Rv (dur_seconds d)) by (apply (near_nonneg 2 X); assumption).
  assert (EXY : X * Y * IZR E9 = IZR (dn * d) / IZR E9).
  { subst X Y. rewrite mult_IZR. field. lra. }
  assert (BQ : 0 <= X * Y * IZR E9 < 9223372036854767616).
  { rewrite EXY. split.
    - apply Rmult_le_pos; [apply IZR_le; nia|]. left. apply Rinv_0_lt_compat. exact P9.
    - apply Rmult_lt_reg_r with (IZR E9); [exact P9|]. unfold Rdiv. rewrite Rmult_assoc, Rinv_l by lra.
      rewrite Rmult_1_r. unfold E9. rewrite <- mult_IZR. apply IZR_lt. lia. }
  assert (BXY : 0 <= X * Y <= 9223372037).
  { split; [apply Rmult_le_pos; lra|]. unfold E9 in BQ. nra. }
  assert (Np : near 4 (X * Y) (Rv (dur_seconds d) * Rv (dur_seconds dn))).
  { apply (near_mul 2 2); [exact HX|lra|exact Nd|exact Nn]. }
  assert (B1 : Rv (dur_seconds d) * Rv (dur_seconds dn) <= bpow radix2 35).
  { pose proof (near_half 4 _ _ (proj1 BXY) ltac:(lia) Np) as Hh.
    change (bpow radix2 35) with (IZR (2^35)). change (2^35)%Z with 34359738368%Z. lra. }
  assert (TXY : X * Y = 0 \/ / 500000000000000000000 <= X * Y).
  { destruct (Z.eq_dec d 0) as [->|Nz].
    - left. subst X. unfold Rdiv. rewrite !Rmult_0_l. reflexivity.
    - right. assert (/ 1000000000 <= X) by (apply div_E9_small; lia).
      apply Rle_trans with (/ 1000000000 * / 1000000000); [|apply Rmult_le_compat; lra].
      rewrite <- Rinv_mult. apply Rinv_le_contravar; lra. }
  assert (Np5 : near 5 (X * Y) (rnd (Rv (dur_seconds d) * Rv (dur_seconds dn)))).
  { apply near_rnd; [lia|exact TXY|exact Np]. }
  set (p := rnd (Rv (dur_seconds d) * Rv (dur_seconds dn))) in *.
  assert (Nm : near 5 (X * Y * IZR E9) (p * IZR E9)).
  { change 5%nat with (5 + 0)%nat. apply near_mul; [lra|lra|exact Np5|apply near_refl]. }
  assert (B2 : 0 <= p * IZR E9 <= bpow radix2 64).
  { pose proof (near_half 5 _ _ (proj1 BQ) ltac:(lia) Nm) as Hh.
    change (bpow radix2 64) with (IZR (2^64)). change (2^64)%Z with 18446744073709551616%Z. lra. }
  assert (TQ : X * Y * IZR E9 = 0 \/ / 500000000000000000000 <= X * Y * IZR E9).
  { destruct TXY as [->|T]; [left; apply Rmult_0_l|right]. unfold E9. nra. }
  assert (N6 : near 6 (X * Y * IZR E9) (Fval dn d)).
  { unfold Fval. fold p. apply near_rnd; [lia|exact TQ|exact Nm]. }
  pose proof (near6 6 _ _ (proj1 BQ) ltac:(lia) N6) as [L H].
  assert (P0 : 0 <= Fval dn d) by (apply (near_nonneg 6 _ _ (proj1 BQ) N6)).
  rewrite EXY in N6.
  refine (conj Fd (conj Fn (conj Pd (conj Pn (conj B1 (conj B2 (conj N6 (conj P0 _)))))))). lra.
Qed.

Lemma sysclk_drift_real dn d : drift_range dn d ->
  sysclk_drift dn d = Zfloor (Fval dn d) /\ near 6 (IZR (dn * d) / IZR E9) (Fval dn d).
Proof.
  intros Hr. destruct (drift_bounds dn d Hr) as [Fd [Fn [Pd [Pn [B1 [[B2a B2b] [N6 [P0 P1]]]]]]]].
  split; [|exact N6].
  assert (T : Ztrunc (Fval dn d) = Zfloor (Fval dn d)) by (apply Ztrunc_floor; exact P0).
  unfold sysclk_drift. cbv zeta. rewrite drift_core; try assumption.
  - lra.
  - rewrite Rabs_pos_eq; [exact B1|]. apply Rmult_le_pos; lra.
  - rewrite Rabs_pos_eq; assumption.
  - fold (Fval dn d). rewrite T. split.
    + unfold min_i64. assert (0 <= Zfloor (Fval dn d))%Z by (apply Zfloor_lub; exact P0). lia.
    + unfold max_i64. assert (Zfloor (Fval dn d) < 9223372036854775808)%Z; [|lia].
      apply lt_IZR. eapply Rle_lt_trans; [apply Zfloor_lb|]. exact P1.
Qed.

(* the allowance against the true value q/10^9, q = drift_ns * d, over the reals *)
Lemma sysclk_drift_close dn d : drift_range dn d ->
  let D := IZR (sysclk_drift dn d) in let Q := IZR (dn * d) / IZR E9 in
  0 <= D /\ Q * (1 - / 1125899906842624) - 1 < D <= Q * (1 + / 1125899906842624).
Proof.
  intros Hr. destruct (sysclk_drift_real dn d Hr) as [E N]. cbv zeta. rewrite E.
  destruct Hr as [Hn [Hd Hq]].
  assert (HQ : 0 <= IZR (dn * d) / IZR E9).
  { apply Rmult_le_pos; [apply IZR_le; nia|]. left. apply Rinv_0_lt_compat. apply E9_pos_R. }
  pose proof (near6 6 _ _ HQ ltac:(lia) N) as [L H].
  pose proof (near_nonneg 6 _ _ HQ N) as P0.
  pose proof (Zfloor_lb (Fval dn d)). pose proof (Zfloor_ub (Fval dn d)).
  split; [apply IZR_le; apply Zfloor_lub; exact P0|]. lra.
Qed.

Lemma sysclk_drift_zero dn d : drift_range dn d -> d = 0%Z -> sysclk_drift dn d = 0%Z.
Proof.
  intros Hr ->. destruct (sysclk_drift_real dn 0 Hr) as [E N]. rewrite E.
  replace (dn * 0)%Z with 0%Z in N by lia. unfold Rdiv in N. rewrite Rmult_0_l in N.
  rewrite (near_zero 6 _ N). apply Zfloor_IZR.
Qed.

Lemma sysclk_drift_mono dn d1 d2 : drift_range dn d2 -> (0 <= d1 <= d2)%Z ->
  (sysclk_drift dn d1 <= sysclk_drift dn d2)%Z.
Proof.
  intros Hr H1. assert (Hr1 : drift_range dn d1) by (destruct Hr as [A [B C]]; repeat split; try lia; nia).
  destruct (sysclk_drift_real dn d1 Hr1) as [E1 _]. destruct (sysclk_drift_real dn d2 Hr) as [E2 _].
  rewrite E1, E2. apply Zfloor_le. unfold Fval. destruct Hr as [A [B C]].
  destruct (dur_seconds_near dn) as [_ [Nn _]]; [lia|].
  assert (0 <= Rv (dur_seconds dn)).
  { apply (near_nonneg 2 _ _) in Nn; [exact Nn|]. apply Rmult_le_pos; [apply IZR_le; lia|].
    left. apply Rinv_0_lt_compat. apply E9_pos_R. }
  apply rnd_le. apply Rmult_le_compat_r; [left; apply E9_pos_R|].
  apply rnd_le. apply Rmult_le_compat_r; [assumption|]. apply dur_seconds_mono; lia.
Qed.

(* ---- integer statements ---- *)
Lemma drift_range_of_bool dn d : in_i64 dn -> in_i64 d -> C18_drift_range dn d = true -> drift_range dn d.
Proof.
  unfold in_i64, min_i64, max_i64, C18_drift_range, drift_range, DRL. intros A B H.
  apply andb_true_iff in H. destruct H as [H H3]. apply andb_true_iff in H. destruct H as [H1 H2].
  apply Z.ltb_lt in H1. apply Z.leb_le in H2. apply Z.ltb_lt in H3. change (2^62)%Z with 4611686018427387904%Z in H3. lia.
Qed.

Lemma sysclk_drift_int2 dn d : drift_range dn d ->
  let D := sysclk_drift dn d in let q := (dn * d)%Z in
  (0 <= D /\ (D * 1000000000 - q) * 2^50 <= q /\ (q - D * 1000000000) * 2^50 < 1000000000 * 2^50 + q)%Z.
Proof.
  intros Hr. pose proof (sysclk_drift_close dn d Hr) as C. cbv zeta in *.
  destruct C as [C0 [C1 C2]]. destruct Hr as [Hn [Hd Hq]].
  set (D := sysclk_drift dn d) in *. set (q := (dn * d)%Z) in *.
  assert (Q0 : 0 <= IZR q) by (apply IZR_le; subst q; nia).
  split; [apply le_IZR; exact C0|].
  change (2^50)%Z with 1125899906842624%Z. unfold E9 in C1, C2. split.
  - apply le_IZR. rewrite mult_IZR, minus_IZR, mult_IZR. lra.
  - apply lt_IZR. rewrite mult_IZR, minus_IZR, plus_IZR, !mult_IZR. lra.
Qed.

Lemma sysclk_drift_int dn d : drift_range dn d ->
  let D := sysclk_drift dn d in let q := (dn * d)%Z in
  (0 <= D /\ Z.abs (D * 1000000000 - q) * 2^50 <= 1000000000 * 2^50 + q)%Z.
Proof.
  intros Hr. pose proof (sysclk_drift_int2 dn d Hr) as [I0 [I1 I2]]. cbv zeta in *.
  assert (q0 : (0 <= dn * d)%Z) by (destruct Hr as [? [? ?]]; nia).
  split; [exact I0|]. change (2^50)%Z with 1125899906842624%Z in *. lia.
Qed.

Lemma sysclk_drift_oracle dn d : in_i64 dn -> in_i64 d -> C18_drift_ok dn d (sysclk_drift dn d) = true.
Proof.
  intros A B. unfold C18_drift_ok. destruct (C18_drift_range dn d) eqn:Rg; [|reflexivity].
  pose proof (drift_range_of_bool dn d A B Rg) as Hr.
  pose proof (sysclk_drift_int dn d Hr) as [I0 I1]. cbv zeta.
  pose proof (sysclk_drift_zero dn d Hr) as Z0.
  assert (q0 : (0 <= dn * d)%Z) by (destruct Hr as [? [? ?]]; nia).
  change (2^50)%Z with 1125899906842624%Z in I1. change (2^48)%Z with 281474976710656%Z.
  apply andb_true_iff. split; [apply andb_true_iff; split|].
  - apply Z.leb_le. exact I0.
  - destruct (Z.eqb_spec d 0) as [E|E]; [|reflexivity]. apply Z.eqb_eq. apply Z0. exact E.
  - apply Z.leb_le. lia.
Qed.

(* allowances below 2^50 ns (13 days): at most one nanosecond away from floor(drift*d / 10^9) *)
Lemma sysclk_drift_within_1ns dn d : drift_range dn d -> (dn * d < 2^50 * 1000000000)%Z ->
  (dn * d / 1000000000 - 1 <= sysclk_drift dn d <= dn * d / 1000000000 + 1)%Z.
Proof.
  intros Hr Hs. pose proof (sysclk_drift_int2 dn d Hr) as [I0 [I1 I2]]. cbv zeta in I1, I2.
  assert (q0 : (0 <= dn * d)%Z) by (destruct Hr as [? [? ?]]; nia).
  change (2^50)%Z with 1125899906842624%Z in *.
  set (q := (dn * d)%Z) in *. set (D := sysclk_drift dn d) in *. clearbody q D.
  pose proof (Z.div_mod q 1000000000 ltac:(lia)). pose proof (Z.mod_pos_bound q 1000000000 ltac:(lia)).
  lia.
Qed.

(* drift 0 = clocks.UnknownDrift: no bound *)
Lemma sysclk_drift_unknown d : sysclk_drift 0 d = max_i64.
Proof. unfold sysclk_drift. replace (feq (dur_seconds 0) fzero) with true by (vm_compute; reflexivity). reflexivity. Qed.

Open Scope Z_scope.

(* additivity follows from closeness (linear arithmetic), monotonicity from sysclk_drift_mono *)
Lemma drift_add_from_close q1 q2 D1 D2 D12 : 0 <= q1 -> 0 <= q2 ->
  Z.abs (D1 * 1000000000 - q1) * 2^50 <= 1000000000 * 2^50 + q1 ->
  Z.abs (D2 * 1000000000 - q2) * 2^50 <= 1000000000 * 2^50 + q2 ->
  Z.abs (D12 * 1000000000 - (q1 + q2)) * 2^50 <= 1000000000 * 2^50 + (q1 + q2) ->
  Z.abs (D12 - D1 - D2) * 2^46 <= 3 * 2^46 + D12 + 1.
Proof.
  change (2^50) with 1125899906842624. change (2^46) with 70368744177664. intros. lia.
Qed.

Lemma sysclk_drift_add_oracle dn d1 d2 : in_i64 dn -> in_i64 d1 -> in_i64 d2 ->
  C18_drift_add_ok dn d1 d2 (sysclk_drift dn d1) (sysclk_drift dn d2) (sysclk_drift dn (d1 + d2)) = true.
Proof.
  intros A B1 B2. unfold C18_drift_add_ok.
  destruct ((0 <=? d1) && (0 <=? d2) && (d1 + d2 <=? max_i64) && C18_drift_range dn (d1 + d2))%bool eqn:Rg; [|reflexivity].
  apply andb_true_iff in Rg. destruct Rg as [Rg R12]. apply andb_true_iff in Rg. destruct Rg as [Rg R3].
  apply andb_true_iff in Rg. destruct Rg as [R1 R2].
  apply Z.leb_le in R1. apply Z.leb_le in R2. apply Z.leb_le in R3.
  assert (B12 : in_i64 (d1 + d2)) by (unfold in_i64, min_i64 in *; lia).
  pose proof (drift_range_of_bool dn (d1 + d2) A B12 R12) as H12.
  assert (H1 : drift_range dn d1) by (destruct H12 as [X [Y Z0]]; repeat split; try lia; nia).
  assert (H2 : drift_range dn d2) by (destruct H12 as [X [Y Z0]]; repeat split; try lia; nia).
  pose proof (sysclk_drift_int dn d1 H1) as [P1 C1].
  pose proof (sysclk_drift_int dn d2 H2) as [P2 C2].
  pose proof (sysclk_drift_int dn (d1 + d2) H12) as [P12 C12]. cbv zeta in C1, C2, C12.
  pose proof (sysclk_drift_mono dn d1 (d1 + d2) H12 ltac:(lia)) as M1.
  pose proof (sysclk_drift_mono dn d2 (d1 + d2) H12 ltac:(lia)) as M2.
  replace (dn * (d1 + d2)) with (dn * d1 + dn * d2) in C12 by ring.
  assert (q1 : 0 <= dn * d1) by (destruct H1 as [? [? ?]]; nia).
  assert (q2 : 0 <= dn * d2) by (destruct H2 as [? [? ?]]; nia).
  pose proof (drift_add_from_close _ _ _ _ _ q1 q2 C1 C2 C12) as AD.
  repeat (apply andb_true_iff; split); try (apply Z.leb_le; assumption).
  destruct (Z.leb_spec d1 d2) as [L|L]; apply Z.leb_le.
  - apply sysclk_drift_mono; [exact H2|lia].
  - apply sysclk_drift_mono; [exact H1|lia].
Qed.

(* ==== frequency <-> scaled ppm ==== *)
Open Scope R_scope.

Lemma rnd_rel_abs x : x = 0 \/ bpow radix2 (-1022) <= Rabs x -> Rabs (rnd x - x) <= u * Rabs x.
Proof.
  intros [H|H].
  - subst x. rewrite rnd_0, Rminus_0_r, Rabs_R0. lra.
  - pose proof (relative_error_N_FLT radix2 emin prec Hprec (fun x => negb (Z.even x)) x) as E.
    change (FLT_exp emin prec) with fexp in E.
    replace (emin + prec - 1)%Z with (-1022)%Z in E by reflexivity. specialize (E H).
    replace (- prec + 1)%Z with (-52)%Z in E by reflexivity.
    change (bpow radix2 (-52)) with (/ IZR (Zpower_pos 2 52)) in E.
    change (Zpower_pos 2 52) with 4503599627370496%Z in E.
    pose proof (Rabs_pos x). unfold u. lra.
Qed.

Lemma rnd_opp x : rnd (- x) = - rnd x.
Proof. apply round_NE_opp. Qed.

Lemma rnd_sign_pos x : 0 <= x -> 0 <= rnd x.
Proof. exact (rnd_nonneg x). Qed.

Lemma rnd_sign_neg x : x <= 0 -> rnd x <= 0.
Proof. intros H. rewrite <- rnd_0. apply rnd_le. exact H. Qed.

Definition CS : R := 65536000000.

Lemma scale_spec : fin scale_const = true /\ Rv scale_const = CS.
Proof. unfold scale_const, CS. apply f_of_int_spec. lia. Qed.

(* FreqFromScaledPPM on the kernel's range and a bit beyond: RN(x / 65536e6), exact conversion of x *)
Lemma freq_from_ppm_spec x : (Z.abs x < 2^53)%Z ->
  fin (freq_from_scaled_ppm x) = true /\ Rv (freq_from_scaled_ppm x) = rnd (IZR x / CS).
Proof.
  intros Hx. destruct (f_of_int_spec x Hx) as [Fx Rx]. destruct scale_spec as [Fc Rc].
  unfold freq_from_scaled_ppm.
  destruct (fdiv_spec (f_of_int x) scale_const 18 Fx) as [Fd Rd].
  - rewrite Rc. unfold CS. lra.
  - lia.
  - rewrite Rx, Rc. unfold CS, Rdiv. rewrite Rabs_mult, <- abs_IZR.
    rewrite (Rabs_pos_eq (/ 65536000000)) by (left; apply Rinv_0_lt_compat; lra).
    assert (IZR (Z.abs x) <= 9007199254740992) by (apply IZR_le; lia).
    change (bpow radix2 18) with (IZR (2^18)). change (2^18)%Z with 262144%Z.
    apply Rmult_le_reg_r with 65536000000; [lra|]. rewrite Rmult_assoc, Rinv_l by lra. lra.
  - rewrite Rx, Rc in Rd. split; assumption.
Qed.

(* the round trip: b = RN(RN(x/C) * C) is within 1/2 of x, the conversion truncates toward zero *)
Lemma freq_roundtrip_real x : (Z.abs x <= 32768000)%Z ->
  exists b, scaled_ppm_from_freq (freq_from_scaled_ppm x) = Ztrunc b /\ Rabs (b - IZR x) < / 2 /\
            (0 <= IZR x -> 0 <= b) /\ (IZR x <= 0 -> b <= 0).
Proof.
  intros Hx. destruct (freq_from_ppm_spec x) as [Fa Ra]; [lia|]. destruct scale_spec as [Fc Rc].
  set (a := freq_from_scaled_ppm x) in *.
  assert (HX : Rabs (IZR x) <= 32768000) by (rewrite <- abs_IZR; apply IZR_le; exact Hx).
  assert (CSpos : 0 < CS) by (unfold CS; lra).
  assert (Iv : 0 < / CS) by (apply Rinv_0_lt_compat; exact CSpos).
  pose proof u_range as Hu.
  (* division *)
  assert (T1 : IZR x / CS = 0 \/ bpow radix2 (-1022) <= Rabs (IZR x / CS)).
  { destruct (Z.eq_dec x 0) as [->|N]; [left; unfold Rdiv; apply Rmult_0_l|right].
    apply tiny_le. unfold Rdiv. rewrite Rabs_mult, (Rabs_pos_eq (/ CS)) by lra.
    assert (1 <= Rabs (IZR x)) by (rewrite <- abs_IZR; apply IZR_le; lia).
    apply Rle_trans with (1 * / CS); [|apply Rmult_le_compat_r; lra].
    rewrite Rmult_1_l. unfold CS. apply Rinv_le_contravar; lra. }
  pose proof (rnd_rel_abs _ T1) as E1. rewrite <- Ra in E1.
  (* a * C against x *)
  assert (E1' : Rabs (Rv a * CS - IZR x) <= u * Rabs (IZR x)).
  { replace (Rv a * CS - IZR x) with ((Rv a - IZR x / CS) * CS) by (field; lra).
    rewrite Rabs_mult, (Rabs_pos_eq CS) by lra.
    apply Rle_trans with (u * Rabs (IZR x / CS) * CS); [apply Rmult_le_compat_r; lra|].
    unfold Rdiv. rewrite Rabs_mult, (Rabs_pos_eq (/ CS)) by lra. right. field. lra. }
  assert (B1 : Rabs (Rv a * CS) <= 32768001).
  { replace (Rv a * CS) with ((Rv a * CS - IZR x) + IZR x) by ring.
    eapply Rle_trans; [apply Rabs_triang|]. nra. }
  destruct (fmul_spec a scale_const 25 Fa Fc) as [Fm Rm]; [lia| |].
  { rewrite Rc. change (bpow radix2 25) with (IZR (2^25)). change (2^25)%Z with 33554432%Z. lra. }
  rewrite Rc in Rm.
  assert (T2 : Rv a * CS = 0 \/ bpow radix2 (-1022) <= Rabs (Rv a * CS)).
  { destruct (Z.eq_dec x 0) as [->|N].
    - left. rewrite Ra. unfold Rdiv. rewrite Rmult_0_l, rnd_0. ring.
    - right. apply tiny_le.
      assert (1 <= Rabs (IZR x)) by (rewrite <- abs_IZR; apply IZR_le; lia).
      assert (Rabs (IZR x) - Rabs (Rv a * CS - IZR x) <= Rabs (Rv a * CS)).
      { pose proof (Rabs_triang_inv (IZR x) (IZR x - Rv a * CS)) as Tr.
        replace (IZR x - (IZR x - Rv a * CS)) with (Rv a * CS) in Tr by ring.
        rewrite (Rabs_minus_sym (IZR x)) in Tr. exact Tr. }
      apply Rle_trans with (/ 2); [apply Rinv_le_contravar; lra|]. nra. }
  pose proof (rnd_rel_abs _ T2) as E2. rewrite <- Rm in E2.
  set (b := Rv (fmul a scale_const)) in *.
  exists b. split; [|split; [|split]].
  - unfold scaled_ppm_from_freq. apply f_to_i64_spec; [exact Fm|]. fold b.
    assert (Hb : Rabs b < 32768002 + 1).
    { replace b with ((b - Rv a * CS) + Rv a * CS) by ring. eapply Rle_lt_trans; [apply Rabs_triang|]. nra. }
    assert (Z.abs (Ztrunc b) <= 32768002)%Z.
    { destruct (Rle_or_lt 0 b) as [P|N].
      - rewrite Ztrunc_floor by exact P. rewrite Rabs_pos_eq in Hb by exact P.
        assert (0 <= Zfloor b)%Z by (apply Zfloor_lub; exact P).
        assert (Zfloor b < 32768002 + 1)%Z by (apply lt_IZR; rewrite plus_IZR; eapply Rle_lt_trans; [apply Zfloor_lb|exact Hb]).
        lia.
      - rewrite Ztrunc_ceil by lra. rewrite Rabs_left in Hb by exact N.
        assert (Zceil b <= 0)%Z by (apply Zceil_glb; lra).
        assert (- 32768002 - 1 < Zceil b)%Z.
        { apply lt_IZR. rewrite minus_IZR. eapply Rlt_le_trans; [|apply Zceil_ub]. lra. }
        lia. }
    unfold min_i64, max_i64. lia.
  - replace (b - IZR x) with ((b - Rv a * CS) + (Rv a * CS - IZR x)) by ring.
    eapply Rle_lt_trans; [apply Rabs_triang|]. nra.
  - intros P. rewrite Rm. apply rnd_nonneg. apply Rmult_le_pos; [|lra].
    rewrite Ra. apply rnd_nonneg. apply Rmult_le_pos; lra.
  - intros N. rewrite Rm. apply rnd_sign_neg.
    assert (Rv a <= 0) by (rewrite Ra; apply rnd_sign_neg; unfold Rdiv; nra). nra.
Qed.

Lemma freq_roundtrip x : (Z.abs x <= 32768000)%Z ->
  let r := scaled_ppm_from_freq (freq_from_scaled_ppm x) in
  ((0 <= x -> x - 1 <= r <= x) /\ (x <= 0 -> x <= r <= x + 1))%Z.
Proof.
  intros Hx. cbv zeta. destruct (freq_roundtrip_real x Hx) as [b [E [Hb [Sp Sn]]]]. rewrite E.
  apply Rabs_def2 in Hb. destruct Hb as [Hb1 Hb2]. split; intros S.
  - assert (P : 0 <= b) by (apply Sp; apply IZR_le; exact S).
    rewrite Ztrunc_floor by exact P. pose proof (Zfloor_lb b). pose proof (Zfloor_ub b). split.
    + assert (x - 2 < Zfloor b)%Z; [|lia]. apply lt_IZR. rewrite minus_IZR. lra.
    + assert (Zfloor b < x + 1)%Z; [|lia]. apply lt_IZR. rewrite plus_IZR. lra.
  - assert (N : b <= 0) by (apply Sn; apply IZR_le; exact S).
    rewrite Ztrunc_ceil by exact N. pose proof (Zceil_ub b). pose proof (Zceil_lb b). split.
    + assert (x - 1 < Zceil b)%Z; [|lia]. apply lt_IZR. rewrite minus_IZR. lra.
    + assert (Zceil b < x + 2)%Z; [|lia]. apply lt_IZR. rewrite plus_IZR. lra.
Qed.

Lemma freq_roundtrip_oracle x :
  C18_freq_ok x (scaled_ppm_from_freq (freq_from_scaled_ppm x)) = true.
Proof.
  unfold C18_freq_ok. destruct (Z.leb_spec (Z.abs x) 32768000) as [H|H]; [|reflexivity].
  pose proof (freq_roundtrip x H) as [A B]. cbv zeta in A, B. apply Z.leb_le. lia.
Qed.

(* ---- decoded finite floats: value as a quotient of integers ---- *)
Lemma finite_val s m e H :
  Rv (B754_finite s m e H) = (if s then -1 else 1) * (IZR (Zpos m) * bpow radix2 e).
Proof.
  cbn [B2R]. unfold F2R. cbn [Fnum Fexp]. destruct s; cbn [cond_Zopp].
  - change (Z.opp (Zpos m)) with (- Zpos m)%Z. rewrite opp_IZR. ring.
  - ring.
Qed.

Lemma pow2_max_pos e : 0 < IZR (2 ^ Z.max 0 e).
Proof. apply IZR_lt. apply Z.pow_pos_nonneg; lia. Qed.

Lemma bpow_split e : bpow radix2 e = IZR (2 ^ Z.max 0 e) / IZR (2 ^ Z.max 0 (- e)).
Proof.
  destruct (Z_le_gt_dec 0 e) as [P|N].
  - rewrite Z.max_r by lia. rewrite (Z.max_l 0 (- e)) by lia. change (2 ^ 0)%Z with 1%Z.
    rewrite <- (IZR_Zpower radix2 e P). change (Zpower radix2 e) with (2 ^ e)%Z. field.
  - rewrite Z.max_l by lia. rewrite (Z.max_r 0 (- e)) by lia. change (2 ^ 0)%Z with 1%Z.
    replace e with (- (- e))%Z at 1 by lia. rewrite bpow_opp.
    rewrite <- (IZR_Zpower radix2 (- e)) by lia. change (Zpower radix2 (- e)) with (2 ^ (- e))%Z.
    unfold Rdiv. ring.
Qed.

Lemma ND_val m e :
  IZR (Zpos m * ppm_scale * 2 ^ Z.max 0 e) = IZR (Zpos m) * bpow radix2 e * CS * IZR (2 ^ Z.max 0 (- e)).
Proof.
  rewrite !mult_IZR, (bpow_split e). unfold ppm_scale, CS. field.
  apply Rgt_not_eq. apply pow2_max_pos.
Qed.

(* int64(RN(V)) for 0 <= V < 2^62 *)
Lemma trunc_rnd_pos V : 0 <= V < 4611686018427387904 ->
  let a := Ztrunc (rnd V) in
  (0 <= a < 2^63)%Z /\ IZR a <= V * (1 + u) /\ V * (1 - u) < IZR a + 1.
Proof.
  intros [V0 V1]. cbv zeta. pose proof u_range as Hu.
  assert (C0 : 0 <= rnd V) by (apply rnd_nonneg; exact V0).
  rewrite Ztrunc_floor by exact C0.
  pose proof (Zfloor_lb (rnd V)) as L. pose proof (Zfloor_ub (rnd V)) as U.
  assert (A0 : (0 <= Zfloor (rnd V))%Z) by (apply Zfloor_lub; exact C0).
  destruct (Rlt_or_le V (/ 2)) as [S|B].
  - assert (C1 : rnd V <= / 2).
    { rewrite <- (rnd_id (/ 2)); [apply rnd_le; lra|]. change (/ 2) with (bpow radix2 (-1)). apply fmt_bpow. lia. }
    assert (Zfloor (rnd V) < 1)%Z by (apply lt_IZR; lra).
    replace (Zfloor (rnd V)) with 0%Z in * by lia. split; [lia|]. split; nra.
  - assert (T : V = 0 \/ bpow radix2 (-1022) <= V) by (right; apply tiny_le; lra).
    pose proof (rnd_rel V T) as [R1 R2].
    split; [split; [exact A0|]|split; lra].
    apply lt_IZR. change (2 ^ 63)%Z with 9223372036854775808%Z. nra.
Qed.

Lemma Ztrunc_opp_R x : Ztrunc (- x) = (- Ztrunc x)%Z.
Proof. apply Ztrunc_opp. Qed.

(* ScaledPPMFromFreq meets its one-directional oracle on every float64 *)
Lemma ppm_of_freq_oracle f : C18_ppm_of_freq_ok f (scaled_ppm_from_freq f) = true.
Proof.
  destruct f as [s|s| |s m e H]; [|unfold C18_ppm_of_freq_ok; reflexivity|unfold C18_ppm_of_freq_ok; reflexivity|].
  - destruct s; vm_compute; reflexivity.
  - unfold C18_ppm_of_freq_ok. cbv zeta.
    set (N := (Zpos m * ppm_scale * 2 ^ Z.max 0 e)%Z). set (D := (2 ^ Z.max 0 (- e))%Z).
    destruct (Z.ltb_spec N (2 ^ 62 * D)) as [Rg|Rg]; [|reflexivity].
    pose proof (pow2_max_pos (- e)) as Dpos. fold D in Dpos.
    pose proof (ND_val m e) as EN. fold N D in EN.
    set (V := IZR (Zpos m) * bpow radix2 e * CS) in *.
    assert (V0 : 0 <= V).
    { unfold V, CS. apply Rmult_le_pos; [apply Rmult_le_pos; [apply IZR_le; lia|apply bpow_ge_0]|lra]. }
    assert (V1 : V < 4611686018427387904).
    { apply IZR_lt in Rg. rewrite mult_IZR in Rg. change (IZR (2 ^ 62)) with 4611686018427387904 in Rg.
      rewrite EN in Rg. apply Rmult_lt_reg_r with (IZR D); assumption. }
    destruct (trunc_rnd_pos V (conj V0 V1)) as [[A0 A1] [A2 A3]]. cbv zeta in *.
    set (a := Ztrunc (rnd V)) in *.
    destruct scale_spec as [Fc Rc].
    assert (Ff : fin (B754_finite s m e H) = true) by reflexivity.
    assert (Ep : Rv (B754_finite s m e H) * CS = (if s then -1 else 1) * V).
    { rewrite finite_val. unfold V. ring. }
    destruct (fmul_spec (B754_finite s m e H) scale_const 62 Ff Fc) as [Fm Rm]; [lia| |].
    { rewrite Rc, Ep. change (bpow radix2 62) with (IZR (2^62)). change (2^62)%Z with 4611686018427387904%Z.
      destruct s; [replace (-1 * V) with (- V) by ring; rewrite Rabs_Ropp|rewrite Rmult_1_l]; rewrite Rabs_pos_eq; lra. }
    rewrite Rc, Ep in Rm.
    assert (Er : scaled_ppm_from_freq (B754_finite s m e H) = (if s then - a else a)%Z).
    { unfold scaled_ppm_from_freq. rewrite f_to_i64_spec; [|exact Fm|]; rewrite Rm.
      - destruct s; [replace (-1 * V) with (- V) by ring; rewrite rnd_opp, Ztrunc_opp_R|rewrite Rmult_1_l]; reflexivity.
      - change (2 ^ 63)%Z with 9223372036854775808%Z in A1. unfold min_i64, max_i64.
        destruct s; [replace (-1 * V) with (- V) by ring; rewrite rnd_opp, Ztrunc_opp_R|rewrite Rmult_1_l]; fold a; lia. }
    rewrite Er.
    assert (Ea : Z.abs (if s then - a else a) = a) by (destruct s; lia). rewrite Ea.
    pose proof u_range as Hu.
    assert (Hu52 : u <= / 4503599627370496) by (unfold u; apply Rinv_le_contravar; lra).
    apply andb_true_iff; split; [apply andb_true_iff; split|].
    + destruct s; apply Z.leb_le; lia.
    + apply Z.leb_le. apply le_IZR. rewrite !mult_IZR, minus_IZR, plus_IZR. change (IZR (2 ^ 52)) with 4503599627370496.
      rewrite EN.
      assert (IZR a * IZR D <= V * (1 + / 4503599627370496) * IZR D).
      { apply Rmult_le_compat_r; [lra|]. nra. }
      nra.
    + apply Z.leb_le. apply le_IZR. rewrite !mult_IZR, minus_IZR, plus_IZR. change (IZR (2 ^ 52)) with 4503599627370496.
      rewrite EN.
      assert (V * (1 - / 4503599627370496) * IZR D <= (IZR a + 1) * IZR D).
      { apply Rmult_le_compat_r; [lra|]. nra. }
      nra.
Qed.

(* float64(int64) in general: one rounding *)
Lemma f_of_int_gen z : (Z.abs z <= 2^63)%Z -> fin (f_of_int z) = true /\ Rv (f_of_int z) = rnd (IZR z).
Proof.
  intros Hz. unfold f_of_int.
  pose proof (binary_normalize_correct prec emax Hprec Hmax mode_NE z 0 false) as C.
  cbn [round_mode] in C. cbv zeta in C.
  assert (E : F2R (Float radix2 z 0) = IZR z) by (unfold F2R; cbn [Fnum Fexp bpow]; lra).
  rewrite E in C. rewrite Rlt_bool_true in C.
  - destruct C as [C1 [C2 _]]. split; assumption.
  - apply Rle_lt_trans with (bpow radix2 63); [|apply bpow_lt_emax; lia].
    apply rnd_abs_le; [apply fmt_bpow; lia|].
    rewrite <- abs_IZR. change (bpow radix2 63) with (IZR (2^63)). apply IZR_le. exact Hz.
Qed.

(* FreqFromScaledPPM on every int64: g * 65536e6 is x up to 2^-51 relative, same sign *)
Lemma freq_of_ppm_real x : in_i64 x -> x <> 0%Z ->
  fin (freq_from_scaled_ppm x) = true /\
  Rabs (Rv (freq_from_scaled_ppm x) * CS - IZR x) <= Rabs (IZR x) * / 2251799813685248.
Proof.
  intros Hx Nz. unfold in_i64, min_i64, max_i64 in Hx.
  destruct (f_of_int_gen x) as [Fy Ry]; [change (2^63)%Z with 9223372036854775808%Z; lia|].
  destruct scale_spec as [Fc Rc]. pose proof u_range as Hu.
  assert (CSpos : 0 < CS) by (unfold CS; lra).
  assert (Iv : 0 < / CS) by (apply Rinv_0_lt_compat; exact CSpos).
  assert (X1 : 1 <= Rabs (IZR x)) by (rewrite <- abs_IZR; apply IZR_le; lia).
  assert (X2 : Rabs (IZR x) <= 9223372036854775808) by (rewrite <- abs_IZR; apply IZR_le; lia).
  set (y := Rv (f_of_int x)) in *.
  assert (Ey : Rabs (y - IZR x) <= u * Rabs (IZR x)).
  { rewrite Ry. apply rnd_rel_abs. right. apply tiny_le. lra. }
  assert (By : Rabs y <= 2 * Rabs (IZR x)).
  { replace y with ((y - IZR x) + IZR x) by ring. eapply Rle_trans; [apply Rabs_triang|]. nra. }
  assert (Ly : Rabs (IZR x) / 2 <= Rabs y).
  { pose proof (Rabs_triang_inv (IZR x) (IZR x - y)) as Tr.
    replace (IZR x - (IZR x - y)) with y in Tr by ring. rewrite (Rabs_minus_sym (IZR x)) in Tr. nra. }
  unfold freq_from_scaled_ppm.
  destruct (fdiv_spec (f_of_int x) scale_const 29 Fy) as [Fd Rd].
  - rewrite Rc. lra.
  - lia.
  - rewrite Rc. fold y. unfold Rdiv. rewrite Rabs_mult, (Rabs_pos_eq (/ CS)) by lra.
    change (bpow radix2 29) with (IZR (2^29)). change (2^29)%Z with 536870912%Z.
    apply Rmult_le_reg_r with CS; [exact CSpos|]. rewrite Rmult_assoc, Rinv_l by lra. unfold CS. lra.
  - rewrite Rc in Rd. fold y in Rd. split; [exact Fd|].
    set (g := Rv (fdiv (f_of_int x) scale_const)) in *.
    assert (T : y / CS = 0 \/ bpow radix2 (-1022) <= Rabs (y / CS)).
    { right. apply tiny_le. unfold Rdiv. rewrite Rabs_mult, (Rabs_pos_eq (/ CS)) by lra.
      apply Rle_trans with (/ 2 * / CS); [|apply Rmult_le_compat_r; lra].
      rewrite <- Rinv_mult. unfold CS. apply Rinv_le_contravar; lra. }
    pose proof (rnd_rel_abs _ T) as Eg. rewrite <- Rd in Eg.
    assert (Eg' : Rabs (g * CS - y) <= u * Rabs y).
    { replace (g * CS - y) with ((g - y / CS) * CS) by (field; lra).
      rewrite Rabs_mult, (Rabs_pos_eq CS) by lra.
      apply Rle_trans with (u * Rabs (y / CS) * CS); [apply Rmult_le_compat_r; lra|].
      unfold Rdiv. rewrite Rabs_mult, (Rabs_pos_eq (/ CS)) by lra. right. field. lra. }
    replace (g * CS - IZR x) with ((g * CS - y) + (y - IZR x)) by ring.
    eapply Rle_trans; [apply Rabs_triang|].
    assert (u * 4 <= / 2251799813685248) by (unfold u; lra). nra.
Qed.

Lemma freq_of_ppm_oracle x : in_i64 x -> C18_freq_of_ppm_ok x (freq_from_scaled_ppm x) = true.
Proof.
  intros Hx. destruct (Z.eq_dec x 0) as [->|Nz]; [vm_compute; reflexivity|].
  destruct (freq_of_ppm_real x Hx Nz) as [Fg Eg].
  assert (X1 : 1 <= Rabs (IZR x)) by (rewrite <- abs_IZR; apply IZR_le; lia).
  remember (freq_from_scaled_ppm x) as g eqn:Hg. clear Hg.
  assert (Gn : Rv g * CS <> 0).
  { intros Z0. rewrite Z0 in Eg. unfold Rminus in Eg. rewrite Rplus_0_l, Rabs_Ropp in Eg. nra. }
  destruct g as [s|s| |s m e H]; try discriminate Fg.
  { exfalso. apply Gn. cbn [B2R]. ring. }
  unfold C18_freq_of_ppm_ok. cbv zeta.
  set (N := (Zpos m * ppm_scale * 2 ^ Z.max 0 e)%Z). set (D := (2 ^ Z.max 0 (- e))%Z).
  pose proof (pow2_max_pos (- e)) as Dpos. fold D in Dpos.
  pose proof (ND_val m e) as EN. fold N D in EN.
  set (V := IZR (Zpos m) * bpow radix2 e * CS) in *.
  assert (V0 : 0 < V).
  { unfold V, CS. apply Rmult_lt_0_compat; [apply Rmult_lt_0_compat; [apply IZR_lt; lia|apply bpow_gt_0]|lra]. }
  assert (Ep : Rv (B754_finite s m e H) * CS = (if s then -1 else 1) * V).
  { rewrite finite_val. unfold V. ring. }
  rewrite Ep in Eg.
  (* sign and |.| *)
  assert (Sg : (if s then IZR x < 0 else 0 < IZR x) /\ Rabs (V - Rabs (IZR x)) <= Rabs (IZR x) * / 2251799813685248).
  { destruct s.
    - replace (-1 * V - IZR x) with (- (V + IZR x)) in Eg by ring. rewrite Rabs_Ropp in Eg.
      destruct (Rle_or_lt 0 (IZR x)) as [P|Ng].
      + exfalso. rewrite (Rabs_pos_eq (IZR x)) in * by exact P. rewrite Rabs_pos_eq in Eg by lra. nra.
      + split; [exact Ng|]. rewrite (Rabs_left (IZR x)) in * by exact Ng.
        replace (V - - IZR x) with (V + IZR x) by ring. exact Eg.
    - rewrite Rmult_1_l in Eg.
      destruct (Rle_or_lt (IZR x) 0) as [Ng|P].
      + exfalso. rewrite (Rabs_left1 (IZR x)) in * by exact Ng. rewrite Rabs_pos_eq in Eg by lra. nra.
      + split; [exact P|]. rewrite (Rabs_pos_eq (IZR x)) in * by lra. exact Eg. }
  destruct Sg as [Sg Ev].
  apply andb_true_iff; split.
  - destruct s; [apply Z.ltb_lt|apply Z.ltb_lt]; apply lt_IZR; exact Sg.
  - apply Z.leb_le. apply le_IZR. rewrite !mult_IZR, abs_IZR, minus_IZR, mult_IZR, abs_IZR.
    change (IZR (2 ^ 51)) with 2251799813685248. rewrite EN.
    replace (V * IZR D - Rabs (IZR x) * IZR D) with ((V - Rabs (IZR x)) * IZR D) by ring.
    rewrite Rabs_mult, (Rabs_pos_eq (IZR D)) by lra.
    assert (Rabs (V - Rabs (IZR x)) * IZR D <= Rabs (IZR x) * / 2251799813685248 * IZR D).
    { apply Rmult_le_compat_r; lra. }
    nra.
Qed.


(* ==== Drift: negative arguments, the whole range, the top band ==== *)
Lemma dur_seconds_opp d : (0 <= d <= 9223372036854775808)%Z ->
  fin (dur_seconds (- d)) = true /\ Rv (dur_seconds (- d)) = - Rv (dur_seconds d).
Proof.
  intros Hd. destruct (dur_seconds_near d Hd) as [_ [_ E]]. rewrite E.
  unfold dur_seconds.
  rewrite Z.quot_opp_l, Z.rem_opp_l by lia.
  rewrite (Z.quot_div_nonneg d 1000000000), (Z.rem_mod_nonneg d 1000000000) by lia.
  fold E9.
  pose proof (Z.div_mod d E9 ltac:(unfold E9; lia)) as DM.
  set (q := (d / E9)%Z) in *. set (r := (d mod E9)%Z) in *.
  assert (Hr : (0 <= r < 1000000000)%Z) by (subst r; unfold E9; apply Z.mod_pos_bound; lia).
  assert (Hq : (0 <= q <= 9223372036)%Z) by (unfold E9 in DM; lia).
  clearbody q r.
  destruct (f_of_int_spec (- q)) as [Fq Rq]; [lia|].
  destruct (f_of_int_spec (- r)) as [Fr Rr]; [lia|].
  destruct (f_of_int_spec 1000000000) as [F9 R9]; [lia|]. fold E9 in F9, R9.
  pose proof E9_pos_R as P9.
  assert (Hx : 0 <= IZR r / IZR E9 <= 1).
  { assert (0 <= IZR r <= 1000000000) by (split; apply IZR_le; lia). unfold E9 in *. split.
    - apply Rmult_le_pos; [lra|]. left. apply Rinv_0_lt_compat. lra.
    - apply Rmult_le_reg_r with 1000000000; [lra|]. unfold Rdiv. rewrite Rmult_assoc, Rinv_l by lra. lra. }
  assert (Ex : IZR (- r) / IZR E9 = - (IZR r / IZR E9)) by (rewrite opp_IZR; unfold Rdiv; ring).
  destruct (fdiv_spec (f_of_int (- r)) (f_of_int E9) 0) as [Fd Rd].
  { exact Fr. } { rewrite R9. lra. } { lia. }
  { rewrite Rr, R9, Ex, Rabs_Ropp. rewrite Rabs_pos_eq by lra. cbn [bpow]. lra. }
  rewrite Rr, R9, Ex, rnd_opp in Rd.
  assert (Hf : 0 <= rnd (IZR r / IZR E9) <= 1).
  { split; [apply rnd_nonneg; lra|]. rewrite <- (rnd_id 1) by (apply (fmt_int 1); lia). apply rnd_le. lra. }
  assert (Hq' : 0 <= IZR q <= 9223372036) by (split; apply IZR_le; lia).
  destruct (fadd_spec (f_of_int (- q)) (fdiv (f_of_int (- r)) (f_of_int E9)) 35) as [Fs Rs].
  { exact Fq. } { exact Fd. } { lia. }
  { rewrite Rq, Rd, opp_IZR.
    replace (- IZR q + - rnd (IZR r / IZR E9)) with (- (IZR q + rnd (IZR r / IZR E9))) by ring.
    rewrite Rabs_Ropp, Rabs_pos_eq by lra.
    change (bpow radix2 35) with (IZR (2^35)). change (2^35)%Z with 34359738368%Z. lra. }
  split; [exact Fs|]. rewrite Rs, Rq, Rd, opp_IZR.
  replace (- IZR q + - rnd (IZR r / IZR E9)) with (- (IZR q + rnd (IZR r / IZR E9))) by ring.
  apply rnd_opp.
Qed.

(* Drift is odd in the interval and in the configured drift *)
Lemma sysclk_drift_signed dn d : drift_range dn d ->
  sysclk_drift dn (- d) = (- sysclk_drift dn d)%Z /\
  sysclk_drift (- dn) d = (- sysclk_drift dn d)%Z /\
  sysclk_drift (- dn) (- d) = sysclk_drift dn d.
Proof.
  intros Hr. destruct (drift_bounds dn d Hr) as [Fd [Fn [Pd [Pn [B1 [[B2a B2b] [N6 [P0 P1]]]]]]]].
  destruct (sysclk_drift_real dn d Hr) as [E _].
  destruct Hr as [Hn [Hd Hq]].
  destruct (dur_seconds_opp d Hd) as [Fod Rod].
  destruct (dur_seconds_opp dn) as [Fon Ron]; [lia|].
  set (a := Rv (dur_seconds d)) in *. set (b := Rv (dur_seconds dn)) in *.
  assert (T : Ztrunc (Fval dn d) = Zfloor (Fval dn d)) by (apply Ztrunc_floor; exact P0).
  assert (Z0 : (0 <= Zfloor (Fval dn d) <= max_i64)%Z).
  { split; [apply Zfloor_lub; exact P0|]. unfold max_i64.
    assert (Zfloor (Fval dn d) < 9223372036854775808)%Z; [|lia].
    apply lt_IZR. eapply Rle_lt_trans; [apply Zfloor_lb|]. exact P1. }
  assert (Fv : Fval dn d = rnd (rnd (a * b) * IZR E9)) by reflexivity.
  assert (Eneg : rnd (rnd (- (a * b)) * IZR E9) = - Fval dn d).
  { rewrite Fv, rnd_opp. replace (- rnd (a * b) * IZR E9) with (- (rnd (a * b) * IZR E9)) by ring. apply rnd_opp. }
  assert (Aab : Rabs (a * b) <= bpow radix2 35) by (rewrite Rabs_pos_eq; [exact B1|apply Rmult_le_pos; lra]).
  assert (Ap : Rabs (rnd (a * b) * IZR E9) <= bpow radix2 64) by (rewrite Rabs_pos_eq; assumption).
  assert (Apn : Rabs (rnd (- (a * b)) * IZR E9) <= bpow radix2 64).
  { rewrite rnd_opp. replace (- rnd (a * b) * IZR E9) with (- (rnd (a * b) * IZR E9)) by ring. rewrite Rabs_Ropp. exact Ap. }
  assert (Rneg : (min_i64 <= Ztrunc (- Fval dn d) <= max_i64)%Z).
  { rewrite Ztrunc_opp, T. unfold min_i64, max_i64 in *. lia. }
  assert (Aabn : Rabs (- (a * b)) <= bpow radix2 35) by (rewrite Rabs_Ropp; exact Aab).
  assert (Bn : b <> 0) by lra. assert (Bnn : - b <> 0) by lra.
  rewrite E. split; [|split].
  - pose proof (drift_core (dur_seconds (- d)) (dur_seconds dn) Fod Fn) as C. fold b in C. rewrite Rod in C.
    replace (- a * b) with (- (a * b)) in C by ring. rewrite Eneg in C.
    unfold sysclk_drift. cbv zeta. rewrite (C Bn Aabn Apn Rneg), Ztrunc_opp, T. reflexivity.
  - pose proof (drift_core (dur_seconds d) (dur_seconds (- dn)) Fd Fon) as C. fold a in C. rewrite Ron in C.
    replace (a * - b) with (- (a * b)) in C by ring. rewrite Eneg in C.
    unfold sysclk_drift. cbv zeta. rewrite (C Bnn Aabn Apn Rneg), Ztrunc_opp, T. reflexivity.
  - pose proof (drift_core (dur_seconds (- d)) (dur_seconds (- dn)) Fod Fon) as C. rewrite Rod, Ron in C.
    replace (- a * - b) with (a * b) in C by ring. rewrite <- Fv in C.
    assert (Rpos : (min_i64 <= Ztrunc (Fval dn d) <= max_i64)%Z) by (rewrite T; unfold min_i64, max_i64 in *; lia).
    unfold sysclk_drift. cbv zeta. rewrite (C Bnn Aab Ap Rpos), T. reflexivity.
Qed.

Open Scope Z_scope.

(* closeness for every sign: all non-zero int64 drifts, all int64 intervals, |allowance| < 2^63 - 2^13 ns *)
Definition drift_close_signed (dn d : Z) : Prop :=
  let D := sysclk_drift dn d in let q := dn * d in
  Z.abs (D * 1000000000 - q) * 2^50 <= 1000000000 * 2^50 + Z.abs q /\
  (0 <= q -> 0 <= D) /\ (q <= 0 -> D <= 0).

Lemma drift_close_signed_all a b : drift_range a b ->
  drift_close_signed a b /\ drift_close_signed a (- b) /\ drift_close_signed (- a) b /\ drift_close_signed (- a) (- b).
Proof.
  intros Hr. destruct (sysclk_drift_signed _ _ Hr) as [S1 [S2 S3]].
  pose proof (sysclk_drift_int2 _ _ Hr) as [I0 [I1 I2]]. cbv zeta in I1, I2.
  assert (Hq : 0 <= a * b) by (destruct Hr as [? [? ?]]; nia).
  unfold drift_close_signed. cbv zeta. rewrite S1, S2, S3.
  replace (a * - b) with (- (a * b)) by ring. replace (- a * b) with (- (a * b)) by ring.
  replace (- a * - b) with (a * b) by ring.
  change (2^50) with 1125899906842624 in *.
  set (D := sysclk_drift a b) in *. set (q := a * b) in *. clearbody D q.
  repeat split; lia.
Qed.

Lemma sysclk_drift_all_signs dn d : in_i64 dn -> in_i64 d -> dn <> 0 ->
  Z.abs (dn * d) < DRL * 1000000000 -> drift_close_signed dn d.
Proof.
  unfold in_i64, min_i64, max_i64. intros A B Nz Hq.
  destruct (Z_lt_le_dec dn 0) as [Ln|Pn]; destruct (Z_lt_le_dec d 0) as [Ld|Pd].
  - assert (Hr : drift_range (- dn) (- d)).
    { unfold drift_range. replace (- dn * - d) with (dn * d) by ring. lia. }
    destruct (drift_close_signed_all _ _ Hr) as [_ [_ [_ H]]]. rewrite !Z.opp_involutive in H. exact H.
  - assert (Hr : drift_range (- dn) d).
    { unfold drift_range. replace (- dn * d) with (- (dn * d)) by ring. lia. }
    destruct (drift_close_signed_all _ _ Hr) as [_ [_ [H _]]]. rewrite !Z.opp_involutive in H. exact H.
  - assert (Hr : drift_range dn (- d)).
    { unfold drift_range. replace (dn * - d) with (- (dn * d)) by ring. lia. }
    destruct (drift_close_signed_all _ _ Hr) as [_ [H _]]. rewrite !Z.opp_involutive in H. exact H.
  - assert (Hr : drift_range dn d) by (unfold drift_range; lia).
    destruct (drift_close_signed_all _ _ Hr) as [H _]. exact H.
Qed.

(* statements in the form used by Props/C18.v (stdlib reals only) *)
Lemma sysclk_drift_proportional dn d :
  0 < dn <= max_i64 -> 0 <= d <= max_i64 -> dn * d < (2^63 - 2^13) * 1000000000 ->
  exists F : Rdefinitions.R,
    (IZR (sysclk_drift dn d) <= F < IZR (sysclk_drift dn d) + 1)%R /\
    (Rabs (F - IZR (dn * d) / 1000000000) <= IZR (dn * d) / 1000000000 * / 1125899906842624)%R.
Proof.
  unfold max_i64. change (2^63 - 2^13) with DRL. intros Hn Hd Hq.
  assert (Hr : drift_range dn d) by (unfold drift_range; lia).
  destruct (sysclk_drift_real dn d Hr) as [E N]. exists (Fval dn d). rewrite E. split.
  - split; [apply Zfloor_lb|apply Zfloor_ub].
  - assert (HQ : (0 <= IZR (dn * d) / IZR E9)%R).
    { apply Rmult_le_pos; [apply IZR_le; nia|]. left. apply Rinv_0_lt_compat. apply E9_pos_R. }
    pose proof (near6 6 _ _ HQ ltac:(lia) N) as [L H]. unfold E9 in *.
    apply Rabs_le. split; lra.
Qed.

Lemma sysclk_drift_monotone dn d1 d2 :
  0 < dn <= max_i64 -> 0 <= d1 <= d2 -> d2 <= max_i64 -> dn * d2 < (2^63 - 2^13) * 1000000000 ->
  sysclk_drift dn d1 <= sysclk_drift dn d2.
Proof.
  unfold max_i64. change (2^63 - 2^13) with DRL. intros Hn H1 H2 Hq.
  apply sysclk_drift_mono; [unfold drift_range; lia|exact H1].
Qed.

Lemma sysclk_drift_empty_interval dn : 0 < dn <= max_i64 -> sysclk_drift dn 0 = 0.
Proof.
  intros Hn. apply sysclk_drift_zero; [|reflexivity].
  unfold drift_range, DRL, max_i64 in *. lia.
Qed.

Lemma sysclk_drift_1ns dn d :
  0 < dn <= max_i64 -> 0 <= d <= max_i64 -> dn * d < 2^50 * 1000000000 ->
  dn * d / 1000000000 - 1 <= sysclk_drift dn d <= dn * d / 1000000000 + 1.
Proof.
  intros Hn Hd Hq. apply sysclk_drift_within_1ns; [|exact Hq].
  change (2^50) with 1125899906842624 in Hq. unfold drift_range, DRL, max_i64 in *. lia.
Qed.


(* ==== the other direction of the frequency round trip: freq -> scaled ppm -> freq ==== *)
Open Scope R_scope.

Lemma Ztrunc_err x : Rabs (IZR (Ztrunc x) - x) < 1.
Proof.
  destruct (Rle_or_lt 0 x) as [P|N].
  - rewrite Ztrunc_floor by exact P. pose proof (Zfloor_lb x). pose proof (Zfloor_ub x). apply Rabs_def1; lra.
  - rewrite Ztrunc_ceil by lra. pose proof (Zceil_ub x). pose proof (Zceil_lb x). apply Rabs_def1; lra.
Qed.

(* for a frequency within the kernel's range (|f| x 65536e6 <= 2^25, i.e. 512 ppm) the frequency that
   comes back differs by less than one unit of 2^-16 ppm (plus 2^-26 of a unit for the two roundings) *)
Lemma ppm_freq_roundtrip f : fin f = true -> Rabs (Rv f * CS) <= 33554432 ->
  let r := scaled_ppm_from_freq f in
  fin (freq_from_scaled_ppm r) = true /\ (Z.abs r <= 33554433)%Z /\
  Rabs (Rv (freq_from_scaled_ppm r) * CS - Rv f * CS) < 1 + / 67108864.
Proof.
  intros Ff Hb. cbv zeta. destruct scale_spec as [Fc Rc]. pose proof u_range as Hu.
  assert (CSpos : 0 < CS) by (unfold CS; lra).
  set (V := Rv f * CS) in *.
  destruct (fmul_spec f scale_const 25 Ff Fc) as [Fm Rm]; [lia| |].
  { rewrite Rc. fold V. change (bpow radix2 25) with (IZR (2^25)). change (2^25)%Z with 33554432%Z. exact Hb. }
  rewrite Rc in Rm. fold V in Rm. set (b := Rv (fmul f scale_const)) in *.
  assert (Eb : Rabs (b - V) <= / 268435456).
  { destruct (Rle_or_lt (bpow radix2 (-1022)) (Rabs V)) as [Big|Tiny].
    - rewrite Rm. eapply Rle_trans; [apply rnd_rel_abs; right; exact Big|]. unfold u. nra.
    - assert (Tb : bpow radix2 (-1022) <= / 1073741824).
      { apply Rle_trans with (bpow radix2 (-30)); [apply bpow_le; lia|].
        change (bpow radix2 (-30)) with (/ IZR (Zpower_pos 2 30)). change (Zpower_pos 2 30) with 1073741824%Z. lra. }
      assert (Rabs b <= bpow radix2 (-1022)).
      { rewrite Rm. apply rnd_abs_le; [|lra]. apply generic_format_bpow.
        unfold SpecFloat.fexp, FLT_exp, SpecFloat.emin, emax, prec. lia. }
      replace (b - V) with (b + - V) by ring. eapply Rle_trans; [apply Rabs_triang|]. rewrite Rabs_Ropp. lra. }
  assert (Bb : Rabs b <= 33554433).
  { replace b with ((b - V) + V) by ring. eapply Rle_trans; [apply Rabs_triang|]. lra. }
  pose proof (Ztrunc_err b) as Et.
  set (r := Ztrunc b) in *.
  assert (Hr : (Z.abs r <= 33554433)%Z).
  { assert (Rabs (IZR r) < 33554434).
    { replace (IZR r) with ((IZR r - b) + b) by ring. eapply Rle_lt_trans; [apply Rabs_triang|]. lra. }
    rewrite <- abs_IZR in H. assert (Z.abs r < 33554434)%Z; [apply lt_IZR; lra|lia]. }
  assert (Er : scaled_ppm_from_freq f = r).
  { unfold scaled_ppm_from_freq. apply f_to_i64_spec; [exact Fm|]. fold b r. unfold min_i64, max_i64. lia. }
  rewrite Er. destruct (freq_from_ppm_spec r) as [Fg Rg]; [lia|].
  split; [exact Fg|]. split; [exact Hr|].
  assert (X2 : Rabs (IZR r) <= 33554433) by (rewrite <- abs_IZR; apply IZR_le; exact Hr).
  assert (Iv : 0 < / CS) by (apply Rinv_0_lt_compat; exact CSpos).
  assert (T : IZR r / CS = 0 \/ bpow radix2 (-1022) <= Rabs (IZR r / CS)).
  { destruct (Z.eq_dec r 0) as [->|N]; [left; unfold Rdiv; apply Rmult_0_l|right].
    apply tiny_le. unfold Rdiv. rewrite Rabs_mult, (Rabs_pos_eq (/ CS)) by lra.
    assert (1 <= Rabs (IZR r)) by (rewrite <- abs_IZR; apply IZR_le; lia).
    apply Rle_trans with (1 * / CS); [|apply Rmult_le_compat_r; lra].
    rewrite Rmult_1_l. unfold CS. apply Rinv_le_contravar; lra. }
  pose proof (rnd_rel_abs _ T) as Eg. rewrite <- Rg in Eg.
  set (g := Rv (freq_from_scaled_ppm r)) in *.
  assert (Eg' : Rabs (g * CS - IZR r) <= u * Rabs (IZR r)).
  { replace (g * CS - IZR r) with ((g - IZR r / CS) * CS) by (field; lra).
    rewrite Rabs_mult, (Rabs_pos_eq CS) by lra.
    apply Rle_trans with (u * Rabs (IZR r / CS) * CS); [apply Rmult_le_compat_r; lra|].
    unfold Rdiv. rewrite Rabs_mult, (Rabs_pos_eq (/ CS)) by lra. right. field. lra. }
  replace (g * CS - V) with ((g * CS - IZR r) + ((IZR r - b) + (b - V))) by ring.
  eapply Rle_lt_trans; [apply Rabs_triang|].
  assert (Rabs ((IZR r - b) + (b - V)) < 1 + / 268435456).
  { eapply Rle_lt_trans; [apply Rabs_triang|]. lra. }
  assert (u * 33554433 <= / 134217728) by (unfold u; lra).
  assert (u * Rabs (IZR r) <= u * 33554433) by (apply Rmult_le_compat_l; lra). lra.
Qed.
