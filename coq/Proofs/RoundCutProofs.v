(* The exits of a round that the plain statements do not cover:
   - collectMeasurements leaves its loop at ctx.Done with only some of the
     participants' results (round_offset_cut): the offset is the fault-tolerant
     midpoint over the successful ones among those that arrived in time, for
     every arrival order; if the late ones have no measurement anyway (a path
     that never answers: the client waits for the very context that ends the
     collection) the result is that of the complete collection;
   - the random generator's error (RErr) is the context's: it needs a context
     that is already cancelled. *)
From ST Require Import Base.Ints Base.Sorting Model.NtpTime Model.Ftm Model.Sample Model.PathAssign
  Proofs.FtmProofs Proofs.SampleProofs Proofs.PathAssignProofs.
From Coq Require Import Sorting.Permutation.
Open Scope Z_scope.

Theorem round_offset_cut_values arrived cut :
  round_offset_cut arrived cut = ftm (measured (firstn cut arrived)).
Proof. reflexivity. Qed.

Theorem round_offset_cut_none arrived cut :
  round_offset_cut arrived cut = None <-> measured (firstn cut arrived) = [].
Proof. apply round_offset_none. Qed.

Theorem round_offset_cut_order_free a a' cut cut' :
  Permutation (firstn cut a) (firstn cut' a') -> round_offset_cut a cut = round_offset_cut a' cut'.
Proof. apply round_offset_order_free. Qed.

Theorem round_offset_cut_all arrived cut : (length arrived <= cut)%nat -> round_offset_cut arrived cut = round_offset arrived.
Proof. intros H. unfold round_offset_cut. rewrite firstn_all2 by exact H. reflexivity. Qed.

Lemma measured_app a b : measured (a ++ b) = measured a ++ measured b.
Proof. unfold measured. apply flat_map_app. Qed.

Lemma measured_nones l : Forall (fun o : option Z => o = None) l -> measured l = [].
Proof. induction 1 as [|x r Hx Hr IH]; [reflexivity|]. subst x. exact IH. Qed.

(* the participants that are cut off have nothing to deliver: same result as the complete collection *)
Theorem round_offset_cut_silent arrived cut :
  Forall (fun o => o = None) (skipn cut arrived) -> round_offset_cut arrived cut = round_offset arrived.
Proof.
  intros H. unfold round_offset_cut, round_offset.
  rewrite <- (firstn_skipn cut arrived) at 2. rewrite measured_app, (measured_nones _ H), app_nil_r. reflexivity.
Qed.

(* ms has one cell per participant: the successes collected always fit *)
Theorem measured_fits arrived cut : (length (measured (firstn cut arrived)) <= length arrived)%nat.
Proof.
  assert (G : forall l, (length (measured l) <= length l)%nat).
  { induction l as [|[v|] r IH]; cbn [measured flat_map app length] in *; unfold measured in *; cbn; lia. }
  etransitivity; [apply G|]. rewrite firstn_length. lia.
Qed.

(* ---- the error of the random generator ---- *)
Lemma rand_intn_err_cancelled n c d tape : n <= max_i32 -> rand_intn n c d tape = Err -> c = true.
Proof.
  intros Hn. unfold rand_intn. destruct (n <=? 0); [discriminate|]. destruct (Z.leb_spec n max_i32); [|lia].
  unfold rand_int31. destruct (n <? 2); [discriminate|]. destruct (max_i32 <? n); [discriminate|].
  apply loop31_err_cancelled.
Qed.

Lemma sample_loop_err_cancelled fuel : forall k i c d tape,
  0 <= i -> i + Z.of_nat fuel <= max_i32 -> sample_loop fuel k i c d tape = Err -> c = true.
Proof.
  induction fuel as [|f IH]; intros k i c d tape Hi Hm; cbn [sample_loop]; [discriminate|].
  destruct (rand_intn (i + 1) c d tape) as [[j t1]| | |] eqn:Er; try discriminate.
  - destruct (sample_loop f k (i + 1) c d t1) as [[ps t2]| | |] eqn:El; try discriminate.
    intros _. apply (IH k (i + 1) c d t1); [lia|lia|exact El].
  - intros _. apply (rand_intn_err_cancelled (i + 1) c d tape); [lia|exact Er].
Qed.

Theorem assign_err_cancelled fps cs c d tape resets :
  Z.of_nat (length fps) <= max_i32 -> assign fps cs c d tape = AErr resets -> c = true.
Proof.
  intros Hmax. unfold assign. destruct (sticky fps cs (seq 0 (length fps))) as [sps ps1] eqn:Es.
  assert (Hlen : (length ps1 <= length fps)%nat).
  { pose proof (sticky_perm fps cs (seq 0 (length fps)) sps ps1 Es) as Hp.
    apply Permutation_length in Hp. rewrite app_length, seq_length in Hp. lia. }
  destruct (sample _ _ c d tape) as [[[n picks] rest2]| | |] eqn:Esm; try discriminate.
  - destruct (_ =? 0); discriminate.
  - intros _. unfold sample in Esm.
    destruct (_ <? 0); [discriminate|]. destruct (Z.of_nat (length ps1) <? 0); [discriminate|].
    match type of Esm with context [sample_loop ?f ?k ?i c d tape] =>
      destruct (sample_loop f k i c d tape) as [[ps t]| | |] eqn:El; try discriminate;
      apply (sample_loop_err_cancelled f k i c d tape); [| |exact El] end.
    + destruct (Z.ltb_spec (Z.of_nat (length ps1)) (Z.of_nat (length sps) - Z.of_nat (count_some sps))); [lia|].
      assert (count_some sps <= length sps)%nat; [|lia].
      unfold count_some. clear. induction sps as [|x r IH]; cbn; [lia|destruct (is_some x); cbn; lia].
    + destruct (Z.ltb_spec (Z.of_nat (length ps1)) (Z.of_nat (length sps) - Z.of_nat (count_some sps))); lia.
Qed.

(* a round with a live context never ends with the generator's error; after that error the clients that did not
   keep a path have been reset and nobody has probed *)
Theorem round_err_cancelled c fps cs d tape mss vss post resets :
  Z.of_nat (length fps) <= max_i32 ->
  run_round_c c fps cs d tape mss vss = RErr post resets ->
  c = true /\ post = post_reset cs resets.
Proof.
  intros Hmax. unfold run_round_c. destruct (assign fps cs c d tape) as [asg rs rest| rs rest|rs| |] eqn:Ea; try discriminate.
  - destruct (round_offset _); discriminate.
  - intros H. inversion H; subst. split; [|reflexivity]. eapply assign_err_cancelled; eauto.
Qed.
