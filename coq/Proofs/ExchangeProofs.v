From ST Require Import Base.Ints Model.NtpTime Model.Exchange Model.ExchangeOracle Proofs.NtpTimeProofs.
From Coq Require Import ZArith Lia List Bool.
Open Scope Z_scope.
Ltac Zify.zify_post_hook ::= Z.to_euclidean_division_equations.

Definition dur_ok (d : Z) : Prop := - 2^61 <= d <= 2^61.

Lemma sat64_id x : min_i64 <= x <= max_i64 -> sat64 x = x.
Proof. unfold sat64, min_i64, max_i64. intros H. destruct (x <? _) eqn:E1; [lia|]. destruct (_ <? x) eqn:E2; lia. Qed.

Lemma clock_offset_val t0 t1 t2 t3 :
  dur_ok (t1 - t0) -> dur_ok (t2 - t3) ->
  clock_offset t0 t1 t2 t3 = Z.quot ((t1 - t0) + (t2 - t3)) 2.
Proof.
  unfold dur_ok, clock_offset, time_sub, go_div. intros H1 H2.
  change (2^61) with 2305843009213693952 in *.
  rewrite !sat64_id by (unfold min_i64, max_i64; lia).
  rewrite (i64_id (t1 - t0 + (t2 - t3))) by (unfold min_i64, max_i64; lia).
  apply i64_id. unfold min_i64, max_i64.
  pose proof (Z.quot_rem' (t1 - t0 + (t2 - t3)) 2).
  pose proof (Z.rem_bound_abs (t1 - t0 + (t2 - t3)) 2). lia.
Qed.

Lemma rtd_val t0 t1 t2 t3 :
  dur_ok (t3 - t0) -> dur_ok (t2 - t1) ->
  round_trip_delay t0 t1 t2 t3 = (t3 - t0) - (t2 - t1).
Proof.
  unfold dur_ok, round_trip_delay, time_sub. intros H1 H2.
  change (2^61) with 2305843009213693952 in *.
  rewrite !sat64_id by (unfold min_i64, max_i64; lia).
  apply i64_id. unfold min_i64, max_i64. lia.
Qed.

Lemma quot2_bounds n : n - 1 <= 2 * Z.quot n 2 <= n + 1.
Proof.
  pose proof (Z.quot_rem' n 2). pose proof (Z.rem_bound_abs n 2 ltac:(lia)).
  assert (Z.abs (Z.rem n 2) < 2) by (simpl in *; lia). lia.
Qed.

Theorem arith_exact t0 t3 d1 d2 theta :
  0 <= d1 -> 0 <= d2 ->
  let t1 := t0 + d1 + theta in let t2 := t3 - d2 + theta in
  dur_ok (t1 - t0) -> dur_ok (t2 - t3) -> dur_ok (t3 - t0) -> dur_ok (t2 - t1) ->
  2 * Z.abs (clock_offset t0 t1 t2 t3 - theta) <= d1 + d2 + 1 /\
  round_trip_delay t0 t1 t2 t3 = d1 + d2.
Proof.
  intros Hd1 Hd2 t1 t2 A B C D.
  rewrite clock_offset_val, rtd_val by assumption.
  pose proof (quot2_bounds (t1 - t0 + (t2 - t3))). unfold t1, t2 in *. lia.
Qed.

Theorem arith_trunc t0 t1 t2 t3 ctx srx stx crx theta :
  ctx - 1 <= t0 <= ctx -> srx - 1 <= t1 <= srx -> stx - 1 <= t2 <= stx -> crx - 1 <= t3 <= crx ->
  let d1 := srx - theta - ctx in let d2 := crx - (stx - theta) in
  0 <= d1 -> 0 <= d2 ->
  dur_ok (t1 - t0) -> dur_ok (t2 - t3) -> dur_ok (t3 - t0) -> dur_ok (t2 - t1) ->
  2 * Z.abs (clock_offset t0 t1 t2 t3 - theta) <= d1 + d2 + 3 /\
  Z.abs (round_trip_delay t0 t1 t2 t3 - (d1 + d2)) <= 2 /\
  bound_ok (clock_offset t0 t1 t2 t3) t0 t1 t2 t3 theta = true.
Proof.
  intros H0 H1 H2 H3 d1 d2 Hd1 Hd2 A B C D.
  rewrite clock_offset_val, rtd_val by assumption.
  pose proof (quot2_bounds (t1 - t0 + (t2 - t3))) as Q.
  unfold bound_ok, rounding_slack. unfold d1, d2 in *.
  repeat split; lia.
Qed.
