From ST Require Import Base.Ints Model.NtpTime Model.Exchange Model.ExchangeOracle Model.ExchangeWorld Proofs.NtpTimeProofs.
From Coq Require Import ZArith Lia List Bool.
Import ListNotations.
Open Scope Z_scope.
Ltac Zify.zify_post_hook ::= Z.to_euclidean_division_equations.

(* durations that fit int64 with room for one addition: |d| < 2^62 ns (146 years) *)
Definition dur_ok (d : Z) : Prop := - 2^62 < d < 2^62.

Lemma sat64_id x : min_i64 <= x <= max_i64 -> sat64 x = x.
Proof. unfold sat64, min_i64, max_i64. intros H. destruct (x <? _) eqn:E1; [lia|]. destruct (_ <? x) eqn:E2; lia. Qed.

Lemma clock_offset_val t0 t1 t2 t3 :
  dur_ok (t1 - t0) -> dur_ok (t2 - t3) ->
  clock_offset t0 t1 t2 t3 = Z.quot ((t1 - t0) + (t2 - t3)) 2.
Proof.
  unfold dur_ok, clock_offset, time_sub, go_div. intros H1 H2.
  change (2^62) with 4611686018427387904 in *.
  rewrite !sat64_id by (unfold min_i64, max_i64; lia).
  rewrite (i64_id (t1 - t0 + (t2 - t3))) by (unfold min_i64, max_i64; lia).
  apply i64_id. unfold min_i64, max_i64.
  pose proof (Z.quot_rem' (t1 - t0 + (t2 - t3)) 2).
  pose proof (Z.rem_bound_abs (t1 - t0 + (t2 - t3)) 2). lia.
Qed.

Lemma rtd_val t0 t1 t2 t3 :
  dur_ok (t3 - t0) -> dur_ok (t2 - t1) ->
  round_trip_delay t0 t1 t2 t3 = (t3 - t0) - (t2 - t1).
Proof.
  unfold dur_ok, round_trip_delay, time_sub. intros H1 H2.
  change (2^62) with 4611686018427387904 in *.
  rewrite !sat64_id by (unfold min_i64, max_i64; lia).
  apply i64_id. unfold min_i64, max_i64. lia.
Qed.

Lemma quot2_bounds n : n - 1 <= 2 * Z.quot n 2 <= n + 1.
Proof.
  pose proof (Z.quot_rem' n 2). pose proof (Z.rem_bound_abs n 2 ltac:(lia)).
  assert (Z.abs (Z.rem n 2) < 2) by (simpl in *; lia). lia.
Qed.

Theorem arith_exact t0 t3 d1 d2 theta :
  0 <= d1 -> 0 <= d2 ->
  let t1 := t0 + d1 + theta in let t2 := t3 - d2 + theta in
  dur_ok (t1 - t0) -> dur_ok (t2 - t3) -> dur_ok (t3 - t0) -> dur_ok (t2 - t1) ->
  2 * Z.abs (clock_offset t0 t1 t2 t3 - theta) <= d1 + d2 + 1 /\
  round_trip_delay t0 t1 t2 t3 = d1 + d2.
Proof.
  intros Hd1 Hd2 t1 t2 A B C D.
  rewrite clock_offset_val, rtd_val by assumption.
  pose proof (quot2_bounds (t1 - t0 + (t2 - t3))). unfold t1, t2 in *. lia.
Qed.

Theorem arith_trunc t0 t1 t2 t3 ctx srx stx crx theta :
  ctx - 1 <= t0 <= ctx -> srx - 1 <= t1 <= srx -> stx - 1 <= t2 <= stx -> crx - 1 <= t3 <= crx ->
  let d1 := srx - theta - ctx in let d2 := crx - (stx - theta) in
  0 <= d1 -> 0 <= d2 ->
  dur_ok (t1 - t0) -> dur_ok (t2 - t3) -> dur_ok (t3 - t0) -> dur_ok (t2 - t1) ->
  2 * Z.abs (clock_offset t0 t1 t2 t3 - theta) <= d1 + d2 + 3 /\
  Z.abs (round_trip_delay t0 t1 t2 t3 - (d1 + d2)) <= 2 /\
  bound_ok (clock_offset t0 t1 t2 t3) t0 t1 t2 t3 theta = true.
Proof.
  intros H0 H1 H2 H3 d1 d2 Hd1 Hd2 A B C D.
  rewrite clock_offset_val, rtd_val by assumption.
  pose proof (quot2_bounds (t1 - t0 + (t2 - t3))) as Q.
  unfold bound_ok, rounding_slack. unfold d1, d2 in *.
  repeat split; lia.
Qed.

Lemma t64_eqb_eq x y : t64_eqb x y = true <-> x = y.
Proof.
  destruct x as [a b], y as [c d]. unfold t64_eqb. cbn.
  rewrite andb_true_iff, !Z.eqb_eq. split; [intros [-> ->]; reflexivity|intros H; inversion H; auto].
Qed.

Lemma t64_eqb_neq x y : x <> y -> t64_eqb x y = false.
Proof. intros H. destruct (t64_eqb x y) eqn:E; [apply t64_eqb_eq in E; contradiction|reflexivity]. Qed.

(* Time64FromTime separates two times less than 2^32 s apart (also across an
   NTP era rollover) *)
Lemma t64_inj_near a b :
  a < b -> b - a < secs_per_era * nanos_per_sec -> time_ok a -> time_ok b ->
  time64_of_time a <> time64_of_time b.
Proof.
  unfold time_ok, time64_of_time. intros Hlt Hn Ha Hb Heq.
  injection Heq as Hs Hf.
  destruct (time_sec_nsec a) as [Da Ra]. destruct (time_sec_nsec b) as [Db Rb].
  rewrite !frac_value in Hf by (unfold nanos_per_sec in *; lia).
  unfold u32, ntp_epoch, secs_per_era in *.
  change (2^60) with 1152921504606846976 in *.
  rewrite !i64_id in Hs by (unfold min_i64, max_i64; lia).
  unfold nanos_per_sec in *.
  assert (Hd : time_sec a = time_sec b \/ time_sec b = time_sec a + 4294967296) by lia.
  destruct Hd as [Hd|Hd].
  - assert (time_nsec a < time_nsec b) by lia. lia.
  - assert (time_nsec b < time_nsec a) by lia. lia.
Qed.

(* ---- bookkeeping invariants ---- *)
Fixpoint reqs_ok (l : list reqinfo) : Prop :=
  match l with [] => True | q :: r => q_id q = length r /\ reqs_ok r end.

Lemma reqs_ok_lt l : reqs_ok l -> forall q, In q l -> (q_id q < length l)%nat.
Proof.
  induction l as [|x r IH]; cbn; intros H q Hin; [contradiction|].
  destruct H as [Hx Hr]. destruct Hin as [->|Hin]; [lia|]. specialize (IH Hr q Hin). lia.
Qed.

Lemma reqs_ok_inj l : reqs_ok l -> forall q q', In q l -> In q' l -> q_id q = q_id q' -> q = q'.
Proof.
  induction l as [|x r IH]; cbn; intros H q q' Hq Hq' Hid; [contradiction|].
  destruct H as [Hx Hr].
  destruct Hq as [->|Hq], Hq' as [->|Hq']; auto.
  - pose proof (reqs_ok_lt r Hr q' Hq'). lia.
  - pose proof (reqs_ok_lt r Hr q Hq). lia.
Qed.

Fixpoint exs_ok (l : list exch) : Prop :=
  match l with [] => True | e :: r => ex_ok r e /\ exs_ok r end.

Lemma exs_ok_in l : exs_ok l -> forall e, In e l ->
  exists r, ex_ok r e /\ (forall e0, In e0 r -> In e0 l).
Proof.
  induction l as [|x r IH]; cbn; intros H e Hin; [contradiction|].
  destruct H as [Hx Hr]. destruct Hin as [->|Hin].
  - exists r. split; auto.
  - destruct (IH Hr e Hin) as [r' [H1 H2]]. exists r'. split; auto.
Qed.

Lemma exs_ok_uniq l : exs_ok l -> forall e e', In e l -> In e' l ->
  time64_of_time (e_srx e) = time64_of_time (e_srx e') -> e = e'.
Proof.
  induction l as [|x r IH]; cbn; intros H e e' He He' Heq; [contradiction|].
  destruct H as [Hx Hr]. destruct Hx as [_ [_ [_ [Hu _]]]].
  destruct He as [->|He], He' as [->|He']; auto.
  - exfalso. apply (Hu e' He'). auto.
  - exfalso. apply (Hu e He). auto.
Qed.

Definition prev_link (ref : Z) (w : world) : Prop :=
  p_ref (w_prev w) = ref ->
  exists e crx, w_gprev w = Some (e, crx) /\ In e (w_exs w) /\ arrival_ok (e_q e) e crx /\
    p_ctx (w_prev w) = time64_of_time (q_ctx (e_q e)) /\
    p_crx (w_prev w) = time64_of_time crx /\
    p_srx (w_prev w) = time64_of_time (e_srx e).

Definition cur_ok (c : cfg) (ref : Z) (w : world) : Prop :=
  w_open w = true ->
  exists q, cur w = Some q /\ build_request c ref (w_prev w) (q_now0 q) = (q_ireq q, q_pkt q).

Definition Inv (c : cfg) (ref : Z) (w : world) : Prop :=
  reqs_ok (w_reqs w) /\ exs_ok (w_exs w) /\
  (forall e, In e (w_exs w) -> In (e_q e) (w_reqs w)) /\
  cur_ok c ref w /\ prev_link ref w /\ (c_im c = false -> p_ref (w_prev w) <> ref).

(* which exchange the four stamps of an accepted response belong to *)
Definition T (q : reqinfo) (x : Z) : Z := time_of_time64 (time64_of_time x) (q_now0 q).

Definition paired_basic (q : reqinfo) (e : exch) (crx : Z) (a : accept_t) : Prop :=
  a_inter a = false /\ e_q e = q /\
  a_t0 a = q_ctx q /\ a_t1 a = T q (e_srx e) /\ a_t2 a = T q (e_stx e) /\ a_t3 a = crx.

Definition paired_inter (w : world) (q : reqinfo) (a : accept_t) : Prop :=
  a_inter a = true /\
  exists e' c', w_gprev w = Some (e', c') /\ In e' (w_exs w) /\ arrival_ok (e_q e') e' c' /\
    a_t0 a = T q (q_ctx (e_q e')) /\ a_t1 a = T q (e_srx e') /\ a_t2 a = T q (e_rtx e') /\ a_t3 a = T q c'.


(* what an accepted response looks like *)
Lemma process_accept c ref p ireq req now0 ctx1 resp crx cr a :
  process_response c ref p ireq req now0 ctx1 resp crx cr = DAccept a ->
  exists inter : bool,
    classify ireq req resp = (if inter then RInter else RBasic) /\
    a_inter a = inter /\
    (a_t0 a, a_t1 a, a_t2 a, a_t3 a) = select_ts inter p now0 ctx1 crx resp /\
    a_off a = clock_offset (a_t0 a) (a_t1 a) (a_t2 a) (a_t3 a) /\
    a_rtd a = round_trip_delay (a_t0 a) (a_t1 a) (a_t2 a) (a_t3 a) /\
    a_ts a = crx /\
    a_prev a = update_prev c ref p inter ctx1 crx resp.
Proof.
  unfold process_response. intros H.
  destruct (classify ireq req resp) eqn:C.
  - destruct (negb (metadata_ok resp)); [discriminate|].
    destruct (select_ts true p now0 ctx1 crx resp) as [[[t0 t1] t2] t3] eqn:S.
    destruct (negb (timestamps_ok t0 t1 t2 t3 =? 0)); [discriminate|].
    injection H as <-. exists true. cbn [a_inter a_t0 a_t1 a_t2 a_t3 a_off a_rtd a_ts a_prev].
    rewrite S. repeat split; reflexivity.
  - destruct (negb (metadata_ok resp)); [discriminate|].
    destruct (select_ts false p now0 ctx1 crx resp) as [[[t0 t1] t2] t3] eqn:S.
    destruct (negb (timestamps_ok t0 t1 t2 t3 =? 0)); [discriminate|].
    injection H as <-. exists false. cbn [a_inter a_t0 a_t1 a_t2 a_t3 a_off a_rtd a_ts a_prev].
    rewrite S. repeat split; reflexivity.
  - destruct cr; discriminate.
Qed.

Lemma t64_eqb_refl x : t64_eqb x x = true.
Proof. apply t64_eqb_eq. reflexivity. Qed.

Lemma accept_pairing c ref w q e crx a :
  Inv c ref w -> accepts c ref w q e crx a ->
  (paired_basic q e crx a \/ paired_inter w q a) /\
  a_prev a = update_prev c ref (w_prev w) (a_inter a) (q_ctx q) crx (e_reply e) /\
  k_rx (e_reply e) = time64_of_time (e_srx e) /\ e_q e = q /\
  a_off a = clock_offset (a_t0 a) (a_t1 a) (a_t2 a) (a_t3 a) /\
  a_rtd a = round_trip_delay (a_t0 a) (a_t1 a) (a_t2 a) (a_t3 a).
Proof.
  intros [Hreqs [Hexs [Hq [Hcur [Hlink Him]]]]] [Hopen [Hc [Hin [Hid [Harr Hacc]]]]].
  destruct (Hcur Hopen) as [q' [Hc' Hbuild]]. rewrite Hc in Hc'. injection Hc' as <-.
  assert (Hqin : In q (w_reqs w)).
  { unfold cur in Hc. destruct (w_reqs w) as [|x r]; [discriminate|]. injection Hc as ->. left; reflexivity. }
  assert (Heq : e_q e = q) by (apply (reqs_ok_inj _ Hreqs); auto).
  destruct (exs_ok_in _ Hexs e Hin) as [r [Hex Hsub]].
  destruct Hex as [_ [_ [_ [_ Hconf]]]]. rewrite Heq in Hconf.
  assert (Hrx : k_rx (e_reply e) = time64_of_time (e_srx e)).
  { destruct Hconf as [[_ [H _]]|[_ [_ [H _]]]]; exact H. }
  unfold client_recv in Hacc.
  apply process_accept in Hacc.
  destruct Hacc as [inter [Hcls [Hinter [Hts [Hoff [Hrtd [_ Hprev]]]]]]].
  rewrite <- Hinter in Hprev.
  split; [|split; [exact Hprev|split; [assumption|split; [assumption|split; assumption]]]].
  clear Hoff Hrtd.
  unfold build_request in Hbuild.
  destruct (want_interleaved c ref (w_prev w) (q_now0 q)) eqn:W.
  - (* interleaved request *)
    injection Hbuild as Hireq Hpkt.
    unfold want_interleaved in W. apply andb_prop in W. destruct W as [W1 W3].
    apply andb_prop in W1. destruct W1 as [W1 W2]. apply Z.eqb_eq in W2.
    destruct (Hlink (eq_sym W2)) as [e' [c' [Hg [Hin' [Harr' [Pctx [Pcrx Psrx]]]]]]].
    assert (Hdiff : p_ctx (w_prev w) <> p_crx (w_prev w)).
    { rewrite Pctx, Pcrx. destruct Harr' as [A1 [A2 [A3 [A4 _]]]]. apply t64_inj_near; auto. }
    rewrite <- Hireq, <- Hpkt in Hcls. unfold classify in Hcls. cbn [k_rx k_tx k_org andb] in Hcls.
    destruct Hconf as [[Ho [_ Ht]]|[Ho [_ [_ [e0 [Hin0 [Hs0 Ht]]]]]]].
    + (* basic reply *)
      rewrite <- Hpkt in Ho. cbn [k_tx] in Ho.
      rewrite Ho, (t64_eqb_neq _ _ Hdiff), t64_eqb_refl in Hcls.
      destruct inter; [discriminate|].
      left. unfold paired_basic, T. unfold select_ts in Hts. injection Hts as -> -> -> ->.
      rewrite Hrx, Ht. repeat split; first [assumption | reflexivity].
    + (* interleaved reply *)
      rewrite <- Hpkt in Ho, Hs0. cbn [k_rx k_org] in Ho, Hs0.
      rewrite Ho, t64_eqb_refl in Hcls.
      destruct inter; [|discriminate].
      right. unfold paired_inter, T. split; [assumption|].
      assert (e0 = e').
      { apply (exs_ok_uniq _ Hexs); auto. rewrite Hs0. exact Psrx. }
      subst e0. exists e', c'. unfold select_ts in Hts. injection Hts as -> -> -> ->.
      rewrite Ht, Pctx, Pcrx, Psrx.
      split; [exact Hg|split; [exact Hin'|split; [exact Harr'|repeat split; reflexivity]]].
  - (* basic request *)
    injection Hbuild as Hireq Hpkt.
    rewrite <- Hireq, <- Hpkt in Hcls. unfold classify in Hcls. cbn [k_rx k_tx k_org andb] in Hcls.
    destruct Hconf as [[Ho [_ Ht]]|[Ho [Hne _]]].
    + rewrite <- Hpkt in Ho. cbn [k_tx] in Ho. rewrite Ho, t64_eqb_refl in Hcls.
      destruct inter; [discriminate|].
      left. unfold paired_basic, T. unfold select_ts in Hts. injection Hts as -> -> -> ->.
      rewrite Hrx, Ht. repeat split; first [assumption | reflexivity].
    + (* an interleaved reply to a basic request is never accepted *)
      exfalso. rewrite <- Hpkt in Ho, Hne. cbn [k_rx k_tx] in Ho, Hne. rewrite Ho in Hcls.
      rewrite (t64_eqb_neq _ _ Hne) in Hcls. destruct inter; discriminate.
Qed.


(* ---- the invariant holds in every reachable state ---- *)
Lemma inv_init c ref : ref <> 0 -> Inv c ref w_init.
Proof.
  intros Hr. unfold Inv, w_init, cur_ok, prev_link. cbn.
  repeat split; try tauto; try discriminate.
  - intros H. exfalso. apply Hr. symmetry. exact H.
  - intros _ H. apply Hr. symmetry. exact H.
Qed.

Lemma inv_close c ref w : Inv c ref w -> Inv c ref (w_close w).
Proof.
  intros [H1 [H2 [H3 [H4 [H5 H6]]]]]. unfold Inv, w_close, cur_ok, prev_link in *. cbn.
  repeat split; auto. discriminate.
Qed.

Lemma inv_retry c ref w : w_open w = true -> Inv c ref w -> Inv c ref (w_retry w).
Proof.
  intros Ho [H1 [H2 [H3 [H4 [H5 H6]]]]]. unfold Inv, w_retry, cur_ok, prev_link, cur in *. cbn.
  repeat split; auto.
Qed.

Lemma step_inv c ref w w' : Inv c ref w -> step c ref w w' -> Inv c ref w'.
Proof.
  intros HI Hs. destruct Hs as [w now0 ctx ireq pk Hopen Hb | w e Hq Hex | w q e crx Hopen Hc Hin Hid Harr | w Hopen | w Hopen | w p Hopen Hp].
  - (* send *)
    destruct HI as [H1 [H2 [H3 [H4 [H5 H6]]]]].
    unfold Inv, w_send, cur_ok, prev_link, cur in *. cbn.
    repeat split; auto.
    intros _. eexists. split; [reflexivity|]. cbn. exact Hb.
  - (* handle *)
    destruct HI as [H1 [H2 [H3 [H4 [H5 H6]]]]].
    unfold Inv. split; [exact H1|]. split; [cbn; split; assumption|].
    split; [intros e0 [<-|Hin0]; auto|]. split; [exact H4|]. split; [|exact H6].
    intros Hr. destruct (H5 Hr) as [e' [c' [A [B C]]]]. exists e', c'.
    split; [exact A|split; [right; exact B|exact C]].
  - (* recv *)
    unfold after_recv. destruct (client_recv c ref w q e crx) as [|err|a] eqn:R.
    + apply inv_retry; assumption.
    + apply inv_close; assumption.
    + assert (Hacc : accepts c ref w q e crx a) by (unfold accepts; auto 10).
      destruct (accept_pairing c ref w q e crx a HI Hacc) as [_ [Hprev [Hrx [Heq _]]]].
      destruct HI as [H1 [H2 [H3 [H4 [H5 H6]]]]].
      unfold Inv. split; [exact H1|]. split; [exact H2|]. split; [exact H3|].
      split; [intros Ho; discriminate Ho|]. split.
      * unfold prev_link. cbn [w_accept w_prev w_gprev w_exs]. intros Hr.
        rewrite Hprev in Hr |- *. unfold update_prev in *.
        destruct (c_im c) eqn:Im.
        -- exists e, crx. cbn [p_ctx p_crx p_srx]. rewrite Heq.
           split; [reflexivity|split; [exact Hin|split; [exact Harr|split; [reflexivity|split; [reflexivity|exact Hrx]]]]].
        -- exfalso. exact (H6 eq_refl Hr).
      * cbn [w_accept w_prev]. intros Im. rewrite Hprev. unfold update_prev. rewrite Im. exact (H6 Im).
  - (* junk *)
    destruct (w_retries w =? 1); [apply inv_close|apply inv_retry]; assumption.
  - apply inv_close; assumption.
  - (* other reference / reset *)
    destruct HI as [H1 [H2 [H3 [H4 [H5 H6]]]]].
    unfold Inv, w_setprev, cur_ok, prev_link, cur in *. cbn.
    repeat split; auto.
    + intros Ho. rewrite Ho in Hopen. discriminate.
    + intros Hr. contradiction.
Qed.

Theorem reachable_inv c ref w : ref <> 0 -> reachable c ref w -> Inv c ref w.
Proof.
  intros Hr H. induction H as [|w w' _ IH Hs]; [apply inv_init; assumption|].
  apply (step_inv c ref w w'); assumption.
Qed.


(* ---- the bound for an accepted response ---- *)
Definition mag_ok (d : Z) : Prop := - 2^61 <= d <= 2^61.
Definition near (q : reqinfo) (x : Z) : Prop := in_window x (q_now0 q).

(* exchange ex (transmit stamp tx, arrival cx) lies within the window of the
   client's clock reading and its durations are below 2^61 ns (73 years) *)
Definition stamps_near (q : reqinfo) (ex : exch) (tx cx : Z) : Prop :=
  time_ok (q_now0 q) /\ near q (q_ctx (e_q ex)) /\ near q (e_srx ex) /\ near q tx /\ near q cx /\
  mag_ok (e_srx ex - q_ctx (e_q ex)) /\ mag_ok (tx - cx) /\ mag_ok (cx - q_ctx (e_q ex)) /\ mag_ok (tx - e_srx ex).

Definition bound_for (a : accept_t) (ctx srx stx crx theta : Z) : Prop :=
  let d1 := srx - theta - ctx in let d2 := crx - (stx - theta) in
  0 <= d1 /\ 0 <= d2 /\
  2 * Z.abs (a_off a - theta) <= d1 + d2 + 3 /\
  Z.abs (a_rtd a - (d1 + d2)) <= 2 /\
  (forall lo hi, lo <= ctx -> crx <= hi ->
     C03_ok1 (a_off a) (a_t0 a) (a_t1 a) (a_t2 a) (a_t3 a)
       {| x_lo0 := lo; x_srx := srx; x_stx := stx; x_theta := theta; x_hi3 := hi; x_fb := false |} = true).

Lemma bound_core a ctx srx stx crx theta :
  ctx - 1 <= a_t0 a <= ctx -> srx - 1 <= a_t1 a <= srx -> stx - 1 <= a_t2 a <= stx -> crx - 1 <= a_t3 a <= crx ->
  a_off a = clock_offset (a_t0 a) (a_t1 a) (a_t2 a) (a_t3 a) ->
  a_rtd a = round_trip_delay (a_t0 a) (a_t1 a) (a_t2 a) (a_t3 a) ->
  ctx + theta <= srx -> stx - theta <= crx ->
  mag_ok (srx - ctx) -> mag_ok (stx - crx) -> mag_ok (crx - ctx) -> mag_ok (stx - srx) ->
  bound_for a ctx srx stx crx theta.
Proof.
  intros H0 H1 H2 H3 Ho Hr Hd1 Hd2 M1 M2 M3 M4.
  unfold mag_ok in *. change (2^61) with 2305843009213693952 in *.
  assert (D1 : dur_ok (a_t1 a - a_t0 a)) by (unfold dur_ok; change (2^62) with 4611686018427387904; lia).
  assert (D2 : dur_ok (a_t2 a - a_t3 a)) by (unfold dur_ok; change (2^62) with 4611686018427387904; lia).
  assert (D3 : dur_ok (a_t3 a - a_t0 a)) by (unfold dur_ok; change (2^62) with 4611686018427387904; lia).
  assert (D4 : dur_ok (a_t2 a - a_t1 a)) by (unfold dur_ok; change (2^62) with 4611686018427387904; lia).
  destruct (arith_trunc (a_t0 a) (a_t1 a) (a_t2 a) (a_t3 a) ctx srx stx crx theta H0 H1 H2 H3
              ltac:(lia) ltac:(lia) D1 D2 D3 D4) as [B1 [B2 B3]].
  rewrite <- Ho in B1, B3. rewrite <- Hr in B2.
  unfold bound_for. cbv zeta. split; [lia|]. split; [lia|]. split; [exact B1|]. split; [exact B2|].
  intros lo hi Hlo Hhi. unfold C03_ok1, stamps_in. cbn [x_lo0 x_srx x_stx x_theta x_hi3 x_fb].
  rewrite B3. rewrite !andb_true_iff, !Z.leb_le. lia.
Qed.

Lemma T_bounds q x : time_ok (q_now0 q) -> near q x -> x - 1 <= T q x <= x.
Proof. intros Ht Hn. unfold T. apply (roundtrip x (q_now0 q)); assumption. Qed.

Theorem accept_bound c ref w q e crx a :
  ref <> 0 -> reachable c ref w -> accepts c ref w q e crx a ->
  (a_inter a = false ->
     e_q e = q /\
     (stamps_near q e (e_stx e) crx -> bound_for a (q_ctx q) (e_srx e) (e_stx e) crx (e_theta e))) /\
  (a_inter a = true ->
     exists e' c', w_gprev w = Some (e', c') /\ In e' (w_exs w) /\
       (stamps_near q e' (e_rtx e') c' ->
        bound_for a (q_ctx (e_q e')) (e_srx e') (e_rtx e') c' (e_theta e'))).
Proof.
  intros Hr Hreach Hacc. pose proof (reachable_inv c ref w Hr Hreach) as HI.
  destruct (accept_pairing c ref w q e crx a HI Hacc) as [Hp [_ [_ [Heq [Hoff Hrtd]]]]].
  destruct HI as [_ [Hexs _]].
  destruct Hacc as [_ [_ [Hin [_ [Harr _]]]]].
  split.
  - intros Hb. split; [exact Heq|]. intros Hn.
    destruct Hp as [[_ [_ [P0 [P1 [P2 P3]]]]]|[Hi _]]; [|rewrite Hi in Hb; discriminate].
    destruct Hn as [Ht [N0 [N1 [N2 [N3 [M1 [M2 [M3 M4]]]]]]]]. rewrite Heq in *.
    destruct (exs_ok_in _ Hexs e Hin) as [r [[E1 _] _]]. rewrite Heq in E1.
    destruct Harr as [_ [_ [_ [_ [A1 _]]]]].
    pose proof (T_bounds q (e_srx e) Ht N1). pose proof (T_bounds q (e_stx e) Ht N2).
    apply bound_core; try assumption; lia.
  - intros Hb.
    destruct Hp as [[Hi _]|[_ [e' [c' [Hg [Hin' [Harr' [P0 [P1 [P2 P3]]]]]]]]]]; [rewrite Hi in Hb; discriminate|].
    exists e', c'. split; [exact Hg|]. split; [exact Hin'|]. intros Hn.
    destruct Hn as [Ht [N0 [N1 [N2 [N3 [M1 [M2 [M3 M4]]]]]]]].
    destruct (exs_ok_in _ Hexs e' Hin') as [r [[E1 _] _]].
    destruct Harr' as [_ [_ [_ [_ [_ A2]]]]].
    pose proof (T_bounds q _ Ht N0). pose proof (T_bounds q _ Ht N1).
    pose proof (T_bounds q _ Ht N2). pose proof (T_bounds q _ Ht N3).
    apply bound_core; try assumption; lia.
Qed.



(* ---- summary statements ---- *)
Theorem pairing c ref w q e crx a :
  ref <> 0 -> reachable c ref w -> accepts c ref w q e crx a ->
  paired_basic q e crx a \/ paired_inter w q a.
Proof.
  intros Hr Hreach Hacc.
  destruct (accept_pairing c ref w q e crx a (reachable_inv c ref w Hr Hreach) Hacc) as [H _]. exact H.
Qed.

(* the oracle evaluated on a list of scripted exchanges that contains the right one *)
Lemma bound_for_oracle a ctx srx stx crx theta lo hi xs :
  bound_for a ctx srx stx crx theta -> lo <= ctx -> crx <= hi ->
  In {| x_lo0 := lo; x_srx := srx; x_stx := stx; x_theta := theta; x_hi3 := hi; x_fb := false |} xs ->
  C03_ok (a_off a) (a_t0 a) (a_t1 a) (a_t2 a) (a_t3 a) xs = true.
Proof.
  intros [_ [_ [_ [_ H]]]] Hlo Hhi Hin. unfold C03_ok. apply existsb_exists.
  eexists. split; [exact Hin|]. apply H; assumption.
Qed.

(* the receive loop accepts only what process_response accepts *)
Lemma recv_loop_accept c ref p ireq req now0 ctx1 ds : forall retries a,
  recv_loop c ref p ireq req now0 ctx1 retries ds = AAccept a ->
  exists r crx cr, In (DgResp r crx) ds /\
    process_response c ref p ireq req now0 ctx1 r crx cr = DAccept a.
Proof.
  induction ds as [|d ds IH]; intros retries a H; [discriminate|].
  cbn [recv_loop] in H. destruct d as [|r crx].
  - destruct (retries =? 1); [discriminate|].
    destruct (IH _ _ H) as [r [crx [cr [Hin Hp]]]]. exists r, crx, cr. split; [right; exact Hin|exact Hp].
  - destruct (process_response c ref p ireq req now0 ctx1 r crx (negb (retries =? 1))) as [|e|a'] eqn:P.
    + destruct (IH _ _ H) as [r' [crx' [cr [Hin Hp]]]]. exists r', crx', cr. split; [right; exact Hin|exact Hp].
    + discriminate.
    + injection H as <-. exists r, crx, (negb (retries =? 1)). split; [left; reflexivity|exact P].
Qed.

(* ---- a concrete run: basic exchange, then an interleaved one, server 7 s ahead ---- *)
Module Ex.
Definition c := {| c_scion := false; c_im := true |}.
Definition t := 1790000000000000000.
Definition th := 7000000000.
Definition mkq (id : nat) (p : prev_t) (now0 ctx : Z) : reqinfo :=
  {| q_id := id; q_ireq := fst (build_request c 1 p now0); q_pkt := snd (build_request c 1 p now0);
     q_now0 := now0; q_ctx := ctx |}.
Definition q0 := mkq 0 prev_init t (t + 1000).
Definition w1 := w_send w_init q0.
Definition e1 := {| e_q := q0; e_srx := t + 5000 + th; e_stx := t + 7000 + th; e_rtx := t + 7500 + th; e_theta := th;
                    e_reply := {| k_lvm := 36; k_stratum := 1; k_org := k_tx (q_pkt q0);
                                  k_rx := time64_of_time (t + 5000 + th); k_tx := time64_of_time (t + 7000 + th) |} |}.
Definition w2 := w_handle w1 e1.
Definition w3 := after_recv c 1 w2 q0 e1 (t + 9000).
Definition q1 := mkq 1 (w_prev w3) (t + 1000000000) (t + 1000001000).
Definition w4 := w_send w3 q1.
Definition e2 := {| e_q := q1; e_srx := t + 1000005000 + th; e_stx := t + 1000007000 + th; e_rtx := t + 1000007700 + th;
                    e_theta := th;
                    e_reply := {| k_lvm := 36; k_stratum := 1; k_org := k_rx (q_pkt q1);
                                  k_rx := time64_of_time (t + 1000005000 + th); k_tx := time64_of_time (t + 7500 + th) |} |}.
Definition w5 := w_handle w4 e2.
End Ex.

Lemma arrival_ex1 : arrival_ok Ex.q0 Ex.e1 (Ex.t + 9000).
Proof. unfold arrival_ok, time_ok. vm_compute. repeat split; congruence. Qed.

Example run_reachable : reachable Ex.c 1 Ex.w5.
Proof.
  assert (R1 : reachable Ex.c 1 Ex.w1).
  { eapply reach_step; [apply reach_init|]. unfold Ex.w1, Ex.q0, Ex.mkq.
    apply (st_send Ex.c 1 w_init Ex.t (Ex.t + 1000)); [reflexivity|apply surjective_pairing]. }
  assert (R2 : reachable Ex.c 1 Ex.w2).
  { eapply reach_step; [exact R1|]. apply st_handle; [left; reflexivity|].
    unfold ex_ok. split; [vm_compute; congruence|]. split; [vm_compute; reflexivity|]. split; [vm_compute; reflexivity|].
    split; [intros e0 []|]. left. unfold reply_basic. repeat split; reflexivity. }
  assert (R3 : reachable Ex.c 1 Ex.w3).
  { eapply reach_step; [exact R2|]. apply st_recv; [reflexivity|reflexivity|left; reflexivity|reflexivity|exact arrival_ex1]. }
  assert (R4 : reachable Ex.c 1 Ex.w4).
  { eapply reach_step; [exact R3|]. unfold Ex.w4, Ex.q1, Ex.mkq.
    apply (st_send Ex.c 1 Ex.w3 (Ex.t + 1000000000) (Ex.t + 1000001000)); [vm_compute; reflexivity|apply surjective_pairing]. }
  assert (Hexs : w_exs Ex.w4 = [Ex.e1]) by (vm_compute; reflexivity).
  eapply reach_step; [exact R4|]. apply st_handle; [left; reflexivity|].
  unfold ex_ok. rewrite Hexs. split; [vm_compute; congruence|]. split; [vm_compute; reflexivity|]. split; [vm_compute; reflexivity|].
  split.
  - intros e0 [<-|[]]. vm_compute. congruence.
  - right. unfold reply_inter. split; [reflexivity|]. split; [vm_compute; congruence|]. split; [reflexivity|].
    exists Ex.e1. split; [left; reflexivity|]. split; vm_compute; reflexivity.
Qed.

Example run_accepts_interleaved :
  exists a, accepts Ex.c 1 Ex.w5 Ex.q1 Ex.e2 (Ex.t + 1000009000) a /\ a_inter a = true /\
    w_gprev Ex.w5 = Some (Ex.e1, Ex.t + 9000) /\
    stamps_near Ex.q1 Ex.e1 (e_rtx Ex.e1) (Ex.t + 9000) /\
    a_off a = 7000001250 /\ a_rtd a = 5500.
Proof.
  eexists. split; [|split; [|split; [|split]]].
  - unfold accepts. split; [reflexivity|]. split; [reflexivity|]. split; [left; reflexivity|]. split; [reflexivity|].
    split; [unfold arrival_ok, time_ok; vm_compute; repeat split; congruence|]. vm_compute. reflexivity.
  - reflexivity.
  - vm_compute. reflexivity.
  - unfold stamps_near, near, in_window, mag_ok, time_ok. vm_compute. repeat split; congruence.
  - split; vm_compute; reflexivity.
Qed.
