(* C13 - the key the listener's cache hands out is the key of the request, of an
   epoch that contains the validity time asked for *)
From Coq Require Import ZArith List Bool Lia.
From ST Require Import Base.Ints Model.ScionGlue Model.DrkeyCache Proofs.ScionGlueProofs.
Import ListNotations.
Open Scope Z_scope.

Section Cache.

(* the key hierarchy: the host-AS key of (protocol, server AS, client AS, server host) in the epoch starting at nb *)
Variable K : Z -> Z -> Z -> bytes -> Z -> bytes.

(* k is a genuine key: its key bytes are those of its own metadata and epoch *)
Definition genuine (k : hakey) : Prop :=
  k_key k = K (k_proto k) (k_src_ia k) (k_dst_ia k) (k_src_host k) (k_nb k).

(* k is the key for request m: of m's protocol, ASes and host, of an epoch containing m's time *)
Definition key_for (k : hakey) (m : hameta) : Prop :=
  k_proto k = m_proto m /\ k_src_ia k = m_src_ia m /\ k_dst_ia k = m_dst_ia m /\ k_src_host k = m_src_host m /\
  k_nb k <= m_time m <= k_na k /\ genuine k.

(* a daemon that answers with genuine keys of the epoch asked for, or not at all *)
Definition sound_daemon (d : hameta -> option hakey) : Prop :=
  forall m k, d m = Some k -> key_for k m.

Definition cache_genuine (c : kcache) : Prop := forall ia k, klookup ia c = Some k -> genuine k.

Lemma klookup_store : forall ia k c ia',
  klookup ia' (kstore ia k c) = if ia =? ia' then Some k else klookup ia' c.
Proof.
  intros ia k c ia'. induction c as [|[i k0] r IH]; simpl.
  - destruct (ia =? ia'); reflexivity.
  - destruct (i =? ia) eqn:E; simpl.
    + apply Z.eqb_eq in E. subst i. destruct (ia =? ia'); reflexivity.
    + destruct (i =? ia') eqn:E2.
      * apply Z.eqb_eq in E2. subst i. rewrite Z.eqb_sym in E. rewrite E. reflexivity.
      * exact IH.
Qed.

Lemma kusable_key_for : forall k m, genuine k -> kusable k m = true -> key_for k m.
Proof.
  intros k m Hg H. unfold kusable, kcontains in H.
  repeat (apply andb_true_iff in H; let Hx := fresh "Hc" in destruct H as [H Hx]).
  apply Z.leb_le in H, Hc3. apply Z.eqb_eq in Hc2, Hc1, Hc0. apply bytes_eqb_eq in Hc.
  unfold key_for. repeat split; assumption.
Qed.

Lemma kfetch_sound : forall d c m c' asked res,
  sound_daemon d -> cache_genuine c -> kfetch d c m = (c', asked, res) ->
  cache_genuine c' /\ (forall k, res = Some k -> key_for k m) /\
  (asked = false -> c' = c /\ exists k, res = Some k).
Proof.
  intros d c m c' asked res Hd Hc H. unfold kfetch in H.
  assert (Hre : (match d m with Some k => (kstore (k_dst_ia k) k c, true, Some k) | None => (c, true, None) end) = (c', asked, res) ->
                cache_genuine c' /\ (forall k, res = Some k -> key_for k m) /\ (asked = false -> c' = c /\ exists k, res = Some k)).
  { intro H0. destruct (d m) as [k|] eqn:Hk; inversion H0; subst; clear H0.
    - pose proof (Hd m k Hk) as Hf. split; [|split].
      + intros ia k' Hl. rewrite klookup_store in Hl. destruct (k_dst_ia k =? ia).
        * inversion Hl; subst. destruct Hf as [_ [_ [_ [_ [_ Hg]]]]]. exact Hg.
        * exact (Hc ia k' Hl).
      + intros k' E. inversion E; subst. exact Hf.
      + discriminate.
    - split; [exact Hc|]. split; [discriminate|discriminate]. }
  destruct (klookup (m_dst_ia m) c) as [k|] eqn:Hl; [|exact (Hre H)].
  destruct (kusable k m) eqn:Hu; [|exact (Hre H)].
  inversion H; subst; clear H. split; [exact Hc|]. split.
  - intros k' E. inversion E; subst. exact (kusable_key_for k' m (Hc _ _ Hl) Hu).
  - intros _. split; [reflexivity|eauto].
Qed.

(* every key a Fetcher ever returns - after any history of calls, cache hits and
   daemon failures - is the genuine key of the request's protocol, ASes and
   server host in an epoch that contains the request's validity time *)
Lemma krun_sound : forall calls c,
  cache_genuine c -> Forall (fun cd => sound_daemon (snd cd)) calls ->
  Forall2 (fun cd r => forall k, snd r = Some k -> key_for k (fst cd)) calls (krun c calls).
Proof.
  induction calls as [|[m d] r IH]; intros c Hc Hd; simpl; [constructor|].
  inversion Hd as [|x l Hd1 Hd2]; subst. simpl in Hd1.
  destruct (kfetch d c m) as [[c' asked] res] eqn:Hf.
  destruct (kfetch_sound d c m c' asked res Hd1 Hc Hf) as [Hc' [Hr _]].
  constructor; [exact Hr|exact (IH c' Hc' Hd2)].
Qed.

Lemma empty_cache_genuine : cache_genuine [].
Proof. intros ia k H. discriminate. Qed.

End Cache.
