(* Proofs about the model of MeasureClockOffsetSCION (Model/PathAssign.v):
   distinct paths, number of participants, sticky/reset clause, error exactly
   without participants, the reported offset over all completion orders. *)
From ST Require Import Base.Ints Base.Sorting Model.NtpTime Model.Ftm Model.Sample Model.PathAssign
  Proofs.FtmProofs Proofs.SampleProofs.
From Coq Require Import Sorting.Permutation Sorting.Sorted.
Open Scope Z_scope.

(* ---- lists ---- *)
Lemma set_nth_length {A} j (x : A) l : length (set_nth j x l) = length l.
Proof. revert j. induction l as [|y r IH]; intros [|j]; cbn; auto. Qed.

Lemma nth_set_nth_neq {A} i j (x d : A) l : i <> j -> nth i (set_nth j x l) d = nth i l d.
Proof. revert i j. induction l as [|y r IH]; intros [|i] [|j] H; cbn; auto; try lia. Qed.

Lemma set_nth_same {A} j (d : A) l : set_nth j (nth j l d) l = l.
Proof. revert j. induction l as [|y r IH]; intros [|j]; cbn; auto. f_equal. apply IH. Qed.

Lemma In_set_nth {A} j (x y : A) l : In y (set_nth j x l) -> y = x \/ In y l.
Proof.
  revert j. induction l as [|z r IH]; intros [|j]; cbn; auto.
  - intros [H|H]; auto.
  - intros [H|H]; auto. destruct (IH _ H); auto.
Qed.

Lemma NoDup_set_nth {A} j (x : A) l : NoDup l -> ~ In x l -> NoDup (set_nth j x l).
Proof.
  revert j. induction l as [|z r IH]; intros [|j] Hn Hx; cbn; auto.
  - inversion Hn; subst. constructor; [|assumption]. intros H. apply Hx. right. exact H.
  - inversion Hn as [|? ? Hz Hr]; subst. constructor.
    + intros H. apply In_set_nth in H. destruct H as [->|H]; [apply Hx; left; reflexivity|contradiction].
    + apply IH; [exact Hr|]. intros H. apply Hx. right. exact H.
Qed.

Lemma firstn_set_nth {A} k j (x : A) l : (j < k)%nat -> firstn k (set_nth j x l) = set_nth j x (firstn k l).
Proof.
  revert k j. induction l as [|z r IH]; intros [|k] [|j] H; cbn; try lia; auto.
  f_equal. apply IH. lia.
Qed.

Lemma In_firstn_le {A} a b (x : A) l : In x (firstn a l) -> (a <= b)%nat -> In x (firstn b l).
Proof.
  revert a b. induction l as [|z r IH]; intros [|a] [|b] H Hab; cbn in *; auto; try lia; try contradiction.
  destruct H as [H|H]; auto. right. eapply IH; [exact H|lia].
Qed.

Lemma In_firstn_In {A} a (x : A) l : In x (firstn a l) -> In x l.
Proof. revert a. induction l as [|z r IH]; intros [|a] H; cbn in *; auto; try contradiction. destruct H; eauto. Qed.

Lemma nth_In_firstn_S {A} i (d : A) l : (i < length l)%nat -> In (nth i l d) (firstn (S i) l).
Proof. revert i. induction l as [|z r IH]; intros [|i] H; cbn in *; auto; try lia. right. apply IH. lia. Qed.

Lemma nth_notin_firstn {A} i (d : A) l : NoDup l -> (i < length l)%nat -> ~ In (nth i l d) (firstn i l).
Proof.
  revert i. induction l as [|z r IH]; intros [|i] Hn Hi; cbn in *; auto; try lia.
  inversion Hn as [|? ? Hz Hr]; subst. intros [H|H].
  - apply Hz. rewrite H. apply nth_In. lia.
  - eapply IH; [exact Hr| |exact H]. lia.
Qed.

Lemma NoDup_app_sub {A} (a b q : list A) :
  NoDup (a ++ b) -> NoDup q -> (forall x, In x q -> In x b) -> NoDup (a ++ q).
Proof.
  induction a as [|x a IH]; cbn; intros Hab Hq Hin; [exact Hq|].
  inversion Hab as [|? ? Hx Hr]; subst. constructor; [|apply IH; assumption].
  intros H. apply Hx. apply in_app_iff in H. apply in_app_iff. destruct H; auto.
Qed.

Lemma NoDup_app_left {A} (a b : list A) : NoDup (a ++ b) -> NoDup a.
Proof.
  induction a as [|x a IH]; cbn; intros H; [constructor|]. inversion H as [|? ? Hx Hr]; subst.
  constructor; [|apply IH; exact Hr]. intros Hin. apply Hx. apply in_app_iff. left. exact Hin.
Qed.

Lemma NoDup_app_right {A} (a b : list A) : NoDup (a ++ b) -> NoDup b.
Proof. induction a as [|x a IH]; cbn; intros H; [exact H|]. inversion H; subst. apply IH. assumption. Qed.

(* ---- the paths held by the clients ---- *)
Fixpoint somes (l : list (option nat)) : list nat :=
  match l with [] => [] | Some p :: r => p :: somes r | None :: r => somes r end.
Definition count_none (l : list (option nat)) : nat := length (filter is_none l).

Lemma count_some_somes l : count_some l = length (somes l).
Proof. unfold count_some. induction l as [|[p|] r IH]; cbn; auto. Qed.

Lemma count_none_some l : (count_none l + count_some l = length l)%nat.
Proof. unfold count_none, count_some. induction l as [|[p|] r IH]; cbn; lia. Qed.

(* ---- find and swap-remove ---- *)
Lemma find_fp_Some fps f ps j :
  find_fp fps f ps = Some j -> (j < length ps)%nat /\ fp_of fps (nth j ps O) = f.
Proof.
  revert j. induction ps as [|p r IH]; intros j; cbn [find_fp]; [discriminate|].
  destruct (Z.eqb_spec (fp_of fps p) f) as [E|E].
  - intros H. inversion H; subst. cbn. split; [lia|reflexivity].
  - destruct (find_fp fps f r) as [j'|]; [|discriminate]. intros H. inversion H; subst.
    destruct (IH j' eq_refl) as [H1 H2]. cbn. split; [lia|exact H2].
Qed.

Lemma find_fp_None fps f ps : find_fp fps f ps = None -> forall p, In p ps -> fp_of fps p <> f.
Proof.
  induction ps as [|q r IH]; cbn [find_fp]; [intros _ p []|].
  destruct (Z.eqb_spec (fp_of fps q) f) as [E|E]; [discriminate|].
  destruct (find_fp fps f r) as [j'|]; [discriminate|]. intros _ p [<-|Hp]; [exact E|apply IH; auto].
Qed.

Lemma last_removelast_perm (r : list nat) : r <> [] -> Permutation (last r O :: removelast r) r.
Proof.
  intros Hr. rewrite (app_removelast_last O Hr) at 3.
  apply Permutation_cons_append.
Qed.

Lemma swap_remove_perm j ps : (j < length ps)%nat -> Permutation (nth j ps O :: swap_remove j ps) ps.
Proof.
  revert j. induction ps as [|p r IH]; intros [|j] Hj; cbn in Hj; try lia.
  - cbn [nth swap_remove]. destruct r as [|q r']; [apply Permutation_refl|].
    apply perm_skip. apply last_removelast_perm. discriminate.
  - cbn [nth swap_remove]. eapply Permutation_trans; [apply perm_swap|]. apply perm_skip. apply IH. lia.
Qed.

(* ---- the sticky loop ---- *)
Lemma sticky_length fps cs ps sps ps' : sticky fps cs ps = (sps, ps') -> length sps = length cs.
Proof.
  revert ps sps ps'. induction cs as [|c r IH]; intros ps sps ps'; cbn [sticky].
  - intros H. inversion H. reflexivity.
  - destruct (if in_ilv c then find_fp fps (cs_fp c) ps else None) as [j|].
    + destruct (sticky fps r (swap_remove j ps)) as [s p] eqn:E. intros H. inversion H; subst. cbn. f_equal. eapply IH; eauto.
    + destruct (sticky fps r ps) as [s p] eqn:E. intros H. inversion H; subst. cbn. f_equal. eapply IH; eauto.
Qed.

Lemma sticky_perm fps cs ps sps ps' : sticky fps cs ps = (sps, ps') -> Permutation (somes sps ++ ps') ps.
Proof.
  revert ps sps ps'. induction cs as [|c r IH]; intros ps sps ps'; cbn [sticky].
  - intros H. inversion H. apply Permutation_refl.
  - destruct (if in_ilv c then find_fp fps (cs_fp c) ps else None) as [j|] eqn:Ef.
    + destruct (sticky fps r (swap_remove j ps)) as [s p] eqn:E. intros H. inversion H; subst. cbn [somes app].
      assert (Hj : (j < length ps)%nat).
      { destruct (in_ilv c); [|discriminate]. apply find_fp_Some in Ef. tauto. }
      eapply Permutation_trans; [apply perm_skip; eapply IH; exact E|]. apply swap_remove_perm. exact Hj.
    + destruct (sticky fps r ps) as [s p] eqn:E. intros H. inversion H; subst. cbn [somes]. eapply IH; exact E.
Qed.

(* Sticky clause.  For every client i (state s):
   - it keeps a path p  =>  it is in interleaved mode, p has the fingerprint of its previous exchange and
     is one of the paths still available;
   - it keeps none  =>  it is not in interleaved mode, or every available path with that fingerprint was
     kept by an earlier client. *)
Lemma sticky_spec fps cs ps sps ps' :
  sticky fps cs ps = (sps, ps') ->
  forall i s, nth_error cs i = Some s ->
    (forall p, nth_error sps i = Some (Some p) -> in_ilv s = true /\ fp_of fps p = cs_fp s /\ In p ps)
    /\ (nth_error sps i = Some None ->
        in_ilv s = false \/
        forall p, In p ps -> fp_of fps p = cs_fp s -> exists j, (j < i)%nat /\ nth_error sps j = Some (Some p)).
Proof.
  revert ps sps ps'. induction cs as [|c r IH]; intros ps sps ps' Hs i s Hi; [destruct i; discriminate|].
  cbn [sticky] in Hs.
  destruct (if in_ilv c then find_fp fps (cs_fp c) ps else None) as [j|] eqn:Ef.
  - destruct (sticky fps r (swap_remove j ps)) as [s0 p0] eqn:E. inversion Hs; subst. clear Hs.
    assert (Hc : in_ilv c = true) by (destruct (in_ilv c); [reflexivity|discriminate]).
    rewrite Hc in Ef. destruct (find_fp_Some _ _ _ _ Ef) as [Hj Hfp].
    assert (Hperm := swap_remove_perm j ps Hj).
    destruct i as [|i]; cbn [nth_error] in *.
    + inversion Hi; subst. split.
      * intros p Hp. inversion Hp; subst. repeat split; auto. apply nth_In. exact Hj.
      * discriminate.
    + destruct (IH _ _ _ E i s Hi) as [H1 H2]. split.
      * intros p Hp. destruct (H1 p Hp) as [Ha [Hb Hin]]. repeat split; auto.
        apply (Permutation_in _ Hperm). right. exact Hin.
      * intros Hn. destruct (H2 Hn) as [Hl|Hr]; [left; exact Hl|right].
        intros p Hp Hf. apply (Permutation_in _ (Permutation_sym Hperm)) in Hp. destruct Hp as [<-|Hp].
        -- exists O. split; [lia|reflexivity].
        -- destruct (Hr p Hp Hf) as [j' [Hj' Hn']]. exists (S j'). split; [lia|exact Hn'].
  - destruct (sticky fps r ps) as [s0 p0] eqn:E. inversion Hs; subst. clear Hs.
    destruct i as [|i]; cbn [nth_error] in *.
    + inversion Hi; subst. split; [discriminate|].
      intros _. destruct (in_ilv s) eqn:Hil; [right|left; reflexivity].
      intros p Hp Hf. exfalso. exact (find_fp_None _ _ _ Ef p Hp Hf).
    + destruct (IH _ _ _ E i s Hi) as [H1 H2]. split; [exact H1|].
      intros Hn. destruct (H2 Hn) as [Hl|Hr]; [left; exact Hl|right].
      intros p Hp Hf. destruct (Hr p Hp Hf) as [j' [Hj' Hn']]. exists (S j'). split; [lia|exact Hn'].
Qed.

(* ---- the reservoir on the array ---- *)
Section Reservoir.
  Variable arr : list nat.
  Variable k : nat.
  Hypothesis arr_nodup : NoDup arr.
  Hypothesis k_le : (k <= length arr)%nat.

  (* after the sources below b have been considered *)
  Definition rinv (b : nat) (a : list nat) : Prop :=
    length a = length arr
    /\ (forall i, (k <= i)%nat -> nth i a O = nth i arr O)
    /\ NoDup (firstn k a)
    /\ (forall x, In x (firstn k a) -> In x (firstn b arr)).

  Lemma rinv_init : rinv k arr.
  Proof.
    repeat split; auto.
    - rewrite <- (firstn_skipn k arr) in arr_nodup. apply NoDup_app_left in arr_nodup. exact arr_nodup.
  Qed.

  Lemma rinv_step b a p :
    rinv b a -> (k <= b)%nat -> pick_ok (Z.of_nat k) (Z.of_nat b) (Z.of_nat (length arr)) p ->
    rinv (S (Z.to_nat (snd p))) (apply_pick a p).
  Proof.
    intros [Hl [Hs [Hn Hi]]] Hkb [[Hj0 Hj1] [Hi0 Hi1]].
    set (J := Z.to_nat (fst p)). set (I := Z.to_nat (snd p)).
    assert (HJ : (J < k)%nat) by (unfold J; lia).
    assert (HI : (b <= I < length arr)%nat) by (unfold I; lia).
    unfold apply_pick. fold J I. rewrite (Hs I) by lia. set (y := nth I arr O).
    assert (Hy : ~ In y (firstn k a)).
    { intros H. apply Hi in H. apply (nth_notin_firstn I O arr arr_nodup ltac:(lia)).
      eapply In_firstn_le; [exact H|lia]. }
    repeat split.
    - rewrite set_nth_length. exact Hl.
    - intros i Hki. rewrite nth_set_nth_neq by lia. apply Hs. exact Hki.
    - rewrite firstn_set_nth by exact HJ. apply NoDup_set_nth; assumption.
    - intros x Hx. rewrite firstn_set_nth in Hx by exact HJ. apply In_set_nth in Hx. destruct Hx as [->|Hx].
      + apply nth_In_firstn_S. lia.
      + eapply In_firstn_le; [apply Hi; exact Hx|lia].
  Qed.

  Lemma rinv_fold ps b a :
    rinv b a -> (k <= b)%nat ->
    Forall (pick_ok (Z.of_nat k) (Z.of_nat b) (Z.of_nat (length arr))) ps ->
    StronglySorted (fun p q : Z * Z => snd p < snd q) ps ->
    exists b', rinv b' (fold_left apply_pick ps a).
  Proof.
    revert b a. induction ps as [|p r IH]; intros b a Hinv Hkb Hf Hs; cbn [fold_left]; [eauto|].
    inversion Hf as [|? ? Hp Hr]; subst. inversion Hs as [|? ? Hs' Hlt]; subst.
    assert (Hstep := rinv_step b a p Hinv Hkb Hp).
    destruct Hp as [[Hj0 Hj1] [Hi0 Hi1]].
    eapply (IH (S (Z.to_nat (snd p)))); [exact Hstep|lia| |exact Hs'].
    rewrite Forall_forall in *. intros q Hq. specialize (Hr q Hq). specialize (Hlt q Hq).
    destruct Hr as [Hq1 [Hq2 Hq3]]. split; [exact Hq1|]. lia.
  Qed.
End Reservoir.

Lemma init_picks_id k' arr : fold_left apply_pick (init_picks k') arr = arr.
Proof.
  assert (H : forall l a, Forall (fun p : Z * Z => fst p = snd p) l -> fold_left apply_pick l a = a).
  { induction l as [|p r IH]; intros a Hf; cbn [fold_left]; [reflexivity|].
    inversion Hf as [|? ? Hp Hr]; subst. unfold apply_pick at 2. rewrite Hp, set_nth_same. apply IH. exact Hr. }
  apply H. rewrite Forall_forall. intros p Hp. apply init_picks_spec in Hp. tauto.
Qed.

(* what the sampling step leaves in ps[0..k'): distinct elements of the array *)
Lemma sample_reservoir kz arr c d tape k' picks rest :
  NoDup arr -> Z.of_nat (length arr) <= max_i64 -> words tape -> word d ->
  sample kz (Z.of_nat (length arr)) c d tape = Ok (k', picks, rest) ->
  let q := firstn (Z.to_nat k') (fold_left apply_pick picks arr) in
  NoDup q /\ (forall x, In x q -> In x arr) /\ length q = Z.to_nat k' /\ k' = Z.min kz (Z.of_nat (length arr)) /\ 0 <= kz
  /\ words rest.
Proof.
  intros Hnd Hmax Hw Hd Hs. cbv zeta.
  destruct (sample_count _ _ _ _ _ _ _ _ Hs) as [Hk' [Hkz _]].
  destruct (sample_picks _ _ _ _ _ _ _ _ Hmax Hw Hd Hs) as [ps2 [-> [Hf [Hss Hwr]]]].
  rewrite fold_left_app, init_picks_id.
  set (k := Z.to_nat k').
  assert (Hkle : (k <= length arr)%nat) by (unfold k; lia).
  assert (Hk2 : Z.of_nat k = k') by (unfold k; lia).
  rewrite <- Hk2 in Hf.
  destruct (rinv_fold arr k Hnd Hkle ps2 k arr (rinv_init arr k Hnd) (le_n k) Hf Hss) as [b' [Hl [_ [Hn Hi]]]].
  repeat split; auto.
  - intros x Hx. eapply In_firstn_In. apply Hi. exact Hx.
  - rewrite firstn_length. lia.
Qed.

(* ---- filling the free slots ---- *)
Lemma fill_length sps qs : length (fill sps qs) = length sps.
Proof. revert qs. induction sps as [|[p|] r IH]; intros qs; cbn; auto. destruct qs; cbn; auto. Qed.

Lemma fill_keeps sps qs i p : nth_error sps i = Some (Some p) -> nth_error (fill sps qs) i = Some (Some p).
Proof.
  revert qs i. induction sps as [|[q|] r IH]; intros qs [|i] H; cbn [fill nth_error] in *; try discriminate.
  - exact H.
  - apply IH. exact H.
  - destruct qs; cbn [nth_error]; apply IH; exact H.
Qed.

Lemma somes_fill_perm sps qs :
  Permutation (somes (fill sps qs)) (somes sps ++ firstn (count_none sps) qs).
Proof.
  revert qs. induction sps as [|[p|] r IH]; intros qs; cbn [fill somes app].
  - unfold count_none. cbn. apply Permutation_refl.
  - unfold count_none. cbn [filter is_none]. apply perm_skip. apply IH.
  - unfold count_none. cbn [filter is_none length]. destruct qs as [|q qs']; cbn [somes firstn].
    + specialize (IH []). unfold count_none in IH. rewrite firstn_nil in *. exact IH.
    + eapply Permutation_trans; [apply perm_skip; apply IH|]. apply Permutation_middle.
Qed.

(* ---- the assignment of one round ---- *)
Record assign_facts (fps : list Z) (cs : list cstate) (asg : list (option nat)) (resets : list bool) : Prop := {
  af_len : length asg = length cs /\ length resets = length cs;
  af_distinct : NoDup (somes asg);
  af_offered : forall p, In p (somes asg) -> (p < length fps)%nat;
  af_count : length (somes asg) = Nat.min (length cs) (length fps);
  af_nonempty : (0 < Nat.min (length cs) (length fps))%nat;
  af_sticky : forall i s, nth_error cs i = Some s ->
      (nth i resets false = false ->
         in_ilv s = true /\ exists p, nth_error asg i = Some (Some p) /\ fp_of fps p = cs_fp s)
      /\ (nth i resets false = true ->
         in_ilv s = false \/
         forall p, (p < length fps)%nat -> fp_of fps p = cs_fp s ->
           exists j, (j < i)%nat /\ nth_error asg j = Some (Some p) /\ nth j resets false = false) }.

Lemma nth_map_is_none (sps : list (option nat)) i :
  nth i (map is_none sps) false = match nth_error sps i with Some None => true | _ => false end.
Proof. revert i. induction sps as [|o r IH]; intros [|i]; cbn; auto. Qed.

Lemma seq_nodup n : NoDup (seq 0 n).
Proof. apply seq_NoDup. Qed.

Theorem assign_ok_facts fps cs c d tape asg resets rest :
  Z.of_nat (length fps) <= max_i64 -> words tape -> word d ->
  assign fps cs c d tape = AOk asg resets rest -> assign_facts fps cs asg resets /\ words rest.
Proof.
  intros Hmax Hw Hd. unfold assign.
  destruct (sticky fps cs (seq 0 (length fps))) as [sps ps1] eqn:Es.
  assert (Hperm := sticky_perm _ _ _ _ _ Es).
  assert (Hlen := sticky_length _ _ _ _ _ Es).
  assert (Hspec := sticky_spec _ _ _ _ _ Es).
  assert (Hnd : NoDup (somes sps ++ ps1)).
  { eapply Permutation_NoDup; [apply Permutation_sym; exact Hperm|apply seq_nodup]. }
  assert (Hnd1 : NoDup ps1) by (apply NoDup_app_right in Hnd; exact Hnd).
  assert (Hpl : (length (somes sps) + length ps1 = length fps)%nat).
  { apply Permutation_length in Hperm. rewrite app_length, seq_length in Hperm. exact Hperm. }
  assert (Hcn := count_none_some sps). rewrite count_some_somes in Hcn.
  destruct (sample _ _ c d tape) as [[[n picks] rest']| | |] eqn:Esm; try discriminate.
  assert (Hmax1 : Z.of_nat (length ps1) <= max_i64) by lia.
  destruct (sample_reservoir _ _ _ _ _ _ _ _ Hnd1 Hmax1 Hw Hd Esm) as [Hq1 [Hq2 [Hq3 [Hn [Hk0 Hwr]]]]].
  set (q := firstn (Z.to_nat n) (fold_left apply_pick picks ps1)) in *.
  destruct (Z.of_nat (count_some sps) + n =? 0) eqn:E0; [discriminate|]. apply Z.eqb_neq in E0.
  intros H. inversion H; subst asg resets rest'. clear H. split; [|exact Hwr].
  rewrite count_some_somes in *.
  assert (Hnn : Z.to_nat n = Nat.min (count_none sps) (length ps1)) by lia.
  assert (Hsf := somes_fill_perm sps q).
  assert (Hfq : firstn (count_none sps) q = q) by (apply firstn_all2; lia).
  rewrite Hfq in Hsf.
  constructor.
  - rewrite fill_length, map_length. lia.
  - eapply Permutation_NoDup; [apply Permutation_sym; exact Hsf|]. eapply NoDup_app_sub; eauto.
  - intros p Hp. apply (Permutation_in _ Hsf) in Hp.
    assert (Hin : In p (seq 0 (length fps))).
    { apply (Permutation_in _ Hperm). apply in_app_iff in Hp. apply in_app_iff. destruct Hp; auto. }
    apply in_seq in Hin. lia.
  - apply Permutation_length in Hsf. rewrite Hsf, app_length. lia.
  - lia.
  - intros i s Hi. rewrite nth_map_is_none. destruct (Hspec i s Hi) as [H1 H2]. split.
    + intros Hr. destruct (nth_error sps i) as [[p|]|] eqn:En; try discriminate.
      * destruct (H1 p eq_refl) as [Ha [Hb _]]. split; [exact Ha|]. exists p. split; [apply fill_keeps; exact En|exact Hb].
      * exfalso. apply nth_error_None in En. assert (Hi' : nth_error cs i <> None) by (rewrite Hi; discriminate). apply nth_error_Some in Hi'. lia.
    + intros Hr. destruct (nth_error sps i) as [[p|]|] eqn:En; try discriminate.
      destruct (H2 eq_refl) as [Hl|Hrr]; [left; exact Hl|right].
      intros p Hp Hf. destruct (Hrr p ltac:(apply in_seq; lia) Hf) as [j [Hj Hnj]].
      exists j. repeat split; [exact Hj|apply fill_keeps; exact Hnj|]. rewrite nth_map_is_none, Hnj. reflexivity.
Qed.

(* errNoPath exactly when nobody can take part; never a panic *)
Theorem assign_nopath fps cs c d tape resets rest :
  assign fps cs c d tape = ANoPath resets rest ->
  Nat.min (length cs) (length fps) = O /\ resets = map (fun _ => true) cs.
Proof.
  unfold assign.
  destruct (sticky fps cs (seq 0 (length fps))) as [sps ps1] eqn:Es.
  assert (Hperm := sticky_perm _ _ _ _ _ Es).
  assert (Hlen := sticky_length _ _ _ _ _ Es).
  assert (Hpl : (length (somes sps) + length ps1 = length fps)%nat).
  { apply Permutation_length in Hperm. rewrite app_length, seq_length in Hperm. exact Hperm. }
  assert (Hcn := count_none_some sps). rewrite count_some_somes in *.
  destruct (sample _ _ c d tape) as [[[n picks] rest']| | |] eqn:Esm; try discriminate.
  destruct (sample_count _ _ _ _ _ _ _ _ Esm) as [Hn [Hk0 _]].
  destruct (Z.of_nat (length (somes sps)) + n =? 0) eqn:E0; [|discriminate]. apply Z.eqb_eq in E0.
  intros H. inversion H; subst resets rest'. clear H.
  assert (Hs0 : length (somes sps) = O) by lia.
  assert (Hn0 : n = 0) by lia.
  split; [lia|].
  (* everybody was reset *)
  clear - Hs0 Hlen. revert cs Hlen. induction sps as [|[p|] r IH]; intros [|c cs] Hlen; cbn in *; try lia; auto.
    f_equal. apply IH; lia.
Qed.

Theorem assign_no_panic fps cs c d tape : assign fps cs c d tape <> APanic.
Proof.
  unfold assign. destruct (sticky fps cs (seq 0 (length fps))) as [sps ps1] eqn:Es.
  assert (Hcn := count_none_some sps).
  destruct (sample _ _ c d tape) as [[[n picks] rest']| | |] eqn:Esm; try discriminate.
  - destruct (_ =? 0); discriminate.
  - apply sample_panic_iff in Esm. lia.
Qed.

(* ---- the reported offset ---- *)
Lemma measured_perm a a' : Permutation a a' -> Permutation (measured a) (measured a').
Proof.
  unfold measured. induction 1 as [|x l l' Hp IH|x y l|l l' l'' H1 IH1 H2 IH2]; cbn [flat_map].
  - apply Permutation_refl.
  - apply Permutation_app_head. exact IH.
  - rewrite !app_assoc. apply Permutation_app_tail. apply Permutation_app_comm.
  - eapply Permutation_trans; eassumption.
Qed.

(* the reported offset is the fault-tolerant midpoint over one value per participant that produced a
   measurement (in arrival order before sorting) *)
Theorem round_offset_values arrived : round_offset arrived = ftm (measured arrived).
Proof. reflexivity. Qed.

(* ... for every completion order of the per-path measurements *)
Theorem round_offset_order_free a a' : Permutation a a' -> round_offset a = round_offset a'.
Proof. intros Hp. unfold round_offset. apply (proj1 (perm_invariant _ _ (measured_perm _ _ Hp))). Qed.

(* errNoMeasurement exactly when no participant produced a measurement *)
Theorem round_offset_none arrived : round_offset arrived = None <-> measured arrived = [].
Proof.
  unfold round_offset, ftm. destruct (measured arrived); split; intros H; try reflexivity; discriminate.
Qed.
