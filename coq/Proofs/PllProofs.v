(* Proofs about the PLL model (Model/Pll.v): single-update facts that hold in
   every state, the numeric invariant of reachable states, and the theorem that
   the property oracle accepts the model's trace for every history with
   non-decreasing clock readings. *)
From Coq Require Import ZArith Reals List Bool Lia Lra.
From Flocq Require Import Core BinarySingleNaN.
From ST Require Import Base.Ints Base.F64 Model.Pll Proofs.PllFloat.
Import ListNotations.
Open Scope Z_scope.

(* ------------------------------------------------------------------ *)
(* integers *)

Lemma sat64_range x : in_i64 (sat64 x).
Proof.
  unfold in_i64, sat64, min_i64, max_i64.
  destruct (Z.ltb_spec x (-9223372036854775808)); [lia|].
  destruct (Z.ltb_spec 9223372036854775807 x); lia.
Qed.

Lemma sat64_nonneg x : 0 <= x -> 0 <= sat64 x.
Proof.
  unfold sat64, min_i64, max_i64. intros H.
  destruct (Z.ltb_spec x (-9223372036854775808)); [lia|].
  destruct (Z.ltb_spec 9223372036854775807 x); lia.
Qed.

Lemma sat64_gt c x : 0 <= c -> c < sat64 x -> c < x.
Proof.
  unfold sat64, min_i64, max_i64. intros Hc H.
  destruct (Z.ltb_spec x (-9223372036854775808)); [lia|].
  destruct (Z.ltb_spec 9223372036854775807 x); lia.
Qed.

Lemma sat64_small x : 0 <= x <= max_i64 -> sat64 x = x.
Proof.
  unfold sat64, min_i64, max_i64. intros H.
  destruct (Z.ltb_spec x (-9223372036854775808)); [lia|].
  destruct (Z.ltb_spec 9223372036854775807 x); lia.
Qed.

Lemma inv_in_i64 off : in_i64 off -> in_i64 (inv off).
Proof.
  unfold in_i64, inv, min_i64, max_i64. intros H.
  destruct (Z.eqb_spec off (-9223372036854775808)); lia.
Qed.

Lemma inv_inv off : in_i64 off -> off <> min_i64 -> inv (inv off) = off.
Proof.
  unfold in_i64, inv, min_i64, max_i64. intros H N.
  destruct (Z.eqb_spec off (-9223372036854775808)); [lia|].
  destruct (Z.eqb_spec (- off) (-9223372036854775808)); lia.
Qed.

Lemma inv_inv_min : inv (inv min_i64) = min_i64 + 1.
Proof. reflexivity. Qed.

Lemma dur_abs_inv off : in_i64 off -> dur_abs (inv off) = Z.min (Z.abs off) max_i64.
Proof.
  unfold in_i64, dur_abs, inv, min_i64, max_i64. intros H.
  destruct (Z.eqb_spec off (-9223372036854775808)) as [->|N]; [reflexivity|].
  destruct (Z.leb_spec 0 (- off)); [lia|].
  destruct (Z.eqb_spec (- off) (-9223372036854775808)); lia.
Qed.

Lemma ceil_div_spec g : 0 <= g ->
  ceil_div g sec_ns = g / sec_ns + (if g mod sec_ns =? 0 then 0 else 1).
Proof.
  unfold ceil_div, sec_ns. intros H.
  destruct (Z.eqb_spec (g mod 1000000000) 0) as [E|E].
  - pose proof (Z.div_mod g 1000000000). pose proof (Z.div_mod (- g) 1000000000).
    pose proof (Z.mod_pos_bound (- g) 1000000000). lia.
  - pose proof (Z.div_mod g 1000000000). pose proof (Z.div_mod (- g) 1000000000).
    pose proof (Z.mod_pos_bound (- g) 1000000000). pose proof (Z.mod_pos_bound g 1000000000). lia.
Qed.

(* ------------------------------------------------------------------ *)
(* events of one update, in every state *)

Definition events (r : result) : list event := snd (fst r).
Definition state_of (r : result) : pll := fst (fst r).

Lemma track_events s u off e : In e (events (do_track s u off)) ->
  e = EPanic \/ exists o d f, e = EAdjust o d f.
Proof.
  unfold do_track, events.
  destruct (tsub (u_now u) (p_t0 s) <? 0); [cbn; intros [<-|[]]; left; reflexivity|].
  destruct (flt _ fzero); [cbn; intros [<-|[]]; left; reflexivity|].
  destruct (gains s u _ _) as [[[[la lb] a] b] q].
  destruct (fgt _ fzero); cbn; [|intros []].
  intros [<-|[]]. right. eauto.
Qed.

Lemma await_pll_events s u e : In e (events (do_await_pll s u)) -> e = EPanic.
Proof.
  unfold do_await_pll, events.
  destruct (tsub (u_now u) (p_t0 s) <? 0); [cbn; intros [<-|[]]; reflexivity|].
  destruct (pll_wait_ns <? _); cbn; intros [].
Qed.

Lemma sync_epoch_same s u : p_epoch s = u_epoch u -> sync_epoch s u = s.
Proof. intros E. unfold sync_epoch. rewrite E, Z.eqb_refl. reflexivity. Qed.

Lemma sync_epoch_diff s u : p_epoch s <> u_epoch u ->
  sync_epoch s u = mkPll (u_epoch u) 0 (p_t0 s) (p_t s) (p_a s) (p_b s) (p_i s).
Proof. intros E. unfold sync_epoch. destruct (Z.eqb_spec (p_epoch s) (u_epoch u)); [contradiction|reflexivity]. Qed.

Lemma pll_do_mode s u : pll_do s u =
  let s1 := sync_epoch s u in
  if p_mode s1 =? 0 then do_startup s1 u
  else if p_mode s1 =? 1 then do_await_step s1 u (inv (u_off u))
  else if p_mode s1 =? 2 then do_await_pll s1 u
  else if p_mode s1 =? 3 then do_track s1 u (inv (u_off u))
  else (s1, [EPanic], None).
Proof. reflexivity. Qed.

Lemma pll_do_0 s u : p_mode (sync_epoch s u) = 0 -> pll_do s u = do_startup (sync_epoch s u) u.
Proof. intros M. rewrite pll_do_mode. cbv zeta. rewrite M. reflexivity. Qed.
Lemma pll_do_1 s u : p_mode (sync_epoch s u) = 1 -> pll_do s u = do_await_step (sync_epoch s u) u (inv (u_off u)).
Proof. intros M. rewrite pll_do_mode. cbv zeta. rewrite M. reflexivity. Qed.
Lemma pll_do_2 s u : p_mode (sync_epoch s u) = 2 -> pll_do s u = do_await_pll (sync_epoch s u) u.
Proof. intros M. rewrite pll_do_mode. cbv zeta. rewrite M. reflexivity. Qed.
Lemma pll_do_3 s u : p_mode (sync_epoch s u) = 3 -> pll_do s u = do_track (sync_epoch s u) u (inv (u_off u)).
Proof. intros M. rewrite pll_do_mode. cbv zeta. rewrite M. reflexivity. Qed.
Lemma pll_do_other s u : p_mode (sync_epoch s u) <> 0 -> p_mode (sync_epoch s u) <> 1 ->
  p_mode (sync_epoch s u) <> 2 -> p_mode (sync_epoch s u) <> 3 -> pll_do s u = (sync_epoch s u, [EPanic], None).
Proof.
  intros M0 M1 M2 M3. rewrite pll_do_mode. cbv zeta.
  destruct (Z.eqb_spec (p_mode (sync_epoch s u)) 0); [contradiction|].
  destruct (Z.eqb_spec (p_mode (sync_epoch s u)) 1); [contradiction|].
  destruct (Z.eqb_spec (p_mode (sync_epoch s u)) 2); [contradiction|].
  destruct (Z.eqb_spec (p_mode (sync_epoch s u)) 3); [contradiction|]. reflexivity.
Qed.

Lemma sync_epoch_diff_mode s u : p_epoch s <> u_epoch u -> p_mode (sync_epoch s u) = 0.
Proof. intros E. rewrite (sync_epoch_diff s u E). reflexivity. Qed.

(* a Step is emitted only in the awaiting-step mode of the current epoch, more
   than 2 s after t0, with weight > 3 and |offset| > 1 ms, and its argument is
   the measured offset (offset <> MinInt64) *)
Lemma step_only_awaiting s u x : in_i64 (u_off u) ->
  In (EStep x) (events (pll_do s u)) ->
  p_epoch s = u_epoch u /\ p_mode s = 1 /\
  step_wait_ns < u_now u - p_t0 s /\ fgt (u_weight u) c_3 = true /\
  step_min_ns < Z.abs (u_off u) /\
  (u_off u <> min_i64 -> x = u_off u) /\ (u_off u = min_i64 -> x = min_i64 + 1).
Proof.
  intros Hoff.
  destruct (Z.eq_dec (p_epoch s) (u_epoch u)) as [E|E].
  2:{ rewrite (pll_do_0 s u (sync_epoch_diff_mode s u E)). unfold do_startup, events. cbn [fst snd In]. intros []. }
  destruct (Z.eq_dec (p_mode s) 1) as [M1|M1].
  2:{ intros H. exfalso. revert H.
      destruct (Z.eq_dec (p_mode s) 0) as [M0|M0].
      { rewrite pll_do_0 by (rewrite (sync_epoch_same s u E); exact M0).
        unfold do_startup, events. cbn [fst snd In]. intros []. }
      destruct (Z.eq_dec (p_mode s) 2) as [M2|M2].
      { rewrite pll_do_2 by (rewrite (sync_epoch_same s u E); exact M2).
        intros H. apply await_pll_events in H. discriminate. }
      destruct (Z.eq_dec (p_mode s) 3) as [M3|M3].
      { rewrite pll_do_3 by (rewrite (sync_epoch_same s u E); exact M3).
        intros H. apply track_events in H. destruct H as [H|[o [d [f H]]]]; discriminate. }
      rewrite pll_do_other by (rewrite (sync_epoch_same s u E); assumption).
      unfold events. cbn [fst snd In]. intros [H|[]]. discriminate. }
  rewrite pll_do_1 by (rewrite (sync_epoch_same s u E); exact M1).
  rewrite (sync_epoch_same s u E).
  unfold do_await_step, events.
  destruct (tsub (u_now u) (p_t0 s) <? 0); [cbn [fst snd In]; intros [H|[]]; discriminate|].
  destruct (Z.ltb_spec step_wait_ns (tsub (u_now u) (p_t0 s))) as [W|W]; cbn [andb].
  2:{ cbn [fst snd In]. intros []. }
  destruct (fgt (u_weight u) c_3) eqn:G.
  2:{ cbn [fst snd In]. intros []. }
  cbn [fst snd].
  destruct (Z.ltb_spec step_min_ns (dur_abs (inv (u_off u)))) as [A|A]; [|intros []].
  intros [H|[]]. injection H as <-.
  split; [exact E|]. split; [exact M1|].
  split; [apply sat64_gt; [unfold step_wait_ns, sec_ns; lia|exact W]|].
  split; [reflexivity|].
  rewrite dur_abs_inv in A by exact Hoff.
  split; [unfold max_i64, step_min_ns in *; lia|]. split.
  - intros N. apply inv_inv; assumption.
  - intros ->. apply inv_inv_min.
Qed.

(* once past the awaiting-step mode (awaiting PLL, tracking) and within the
   same epoch there is no Step *)
Lemma no_step_after_startup s u x : in_i64 (u_off u) ->
  p_epoch s = u_epoch u -> 2 <= p_mode s -> ~ In (EStep x) (events (pll_do s u)).
Proof.
  intros Hoff E M H. destruct (step_only_awaiting s u x Hoff H) as [_ [M1 _]]. lia.
Qed.

(* tracking stays tracking while the epoch is unchanged *)
Lemma tracking_stays s u : p_epoch s = u_epoch u -> p_mode s = 3 ->
  p_mode (state_of (pll_do s u)) = 3.
Proof.
  intros E M. rewrite pll_do_3 by (rewrite (sync_epoch_same s u E); exact M).
  rewrite (sync_epoch_same s u E). unfold do_track, state_of.
  destruct (tsub (u_now u) (p_t0 s) <? 0); [exact M|].
  destruct (flt _ fzero); [exact M|].
  destruct (gains s u _ _) as [[[[la lb] a] b] q]. reflexivity.
Qed.

(* an epoch change restarts the start-up sequence: no call on the clock, the
   controller is awaiting the step again with t0 = now *)
Lemma epoch_change_restarts s u : p_epoch s <> u_epoch u ->
  pll_do s u = (mkPll (u_epoch u) 1 (u_now u) (u_now u) (p_a s) (p_b s) (p_i s), [], None).
Proof. intros E. rewrite (pll_do_0 s u (sync_epoch_diff_mode s u E)), (sync_epoch_diff s u E). reflexivity. Qed.

(* the MinInt64 corner: the step is off by one nanosecond *)
Lemma step_minint_witness :
  let s := mkPll 0 1 0 0 fzero fzero fzero in
  let u := mkUpd 3000000000 0 min_i64 (f_of_int 10) fzero in
  events (pll_do s u) = [EStep (min_i64 + 1)].
Proof. vm_compute. reflexivity. Qed.

(* ------------------------------------------------------------------ *)
(* numeric invariant of the controller state *)

Open Scope R_scope.

Definition NI (s : pll) : Prop :=
  fin (p_a s) = true /\ 0 <= R (p_a s) <= / 2 /\
  fin (p_b s) = true /\ 0 <= R (p_b s) <= / 128 /\
  fin (p_i s) = true /\ Rabs (R (p_i s)) <= bpow radix2 80.

Lemma const_spec (c : f64) m e lo hi :
  B2SF c = SpecFloat.S754_finite false m e ->
  lo <= F2R (Float radix2 (Zpos m) e) <= hi ->
  fin c = true /\ lo <= R c <= hi.
Proof. intros H B. destruct (R_of_SF c false m e H) as [F E]. split; [exact F|]. rewrite E. exact B. Qed.

Ltac const_tac m e :=
  apply (const_spec _ m (Zneg e)); [vm_compute; reflexivity|];
  rewrite F2R_neg_exp;
  match goal with |- context [Zpower_pos 2 ?k] =>
    let v := eval vm_compute in (Zpower_pos 2 k) in change (Zpower_pos 2 k) with v end; lra.

Lemma c_3em2_b : fin c_3em2 = true /\ 0 <= R c_3em2 <= / 2.
Proof. const_tac 8646911284551352%positive 58%positive. Qed.
Lemma c_6em2_b : fin c_6em2 = true /\ 0 <= R c_6em2 <= / 2.
Proof. const_tac 8646911284551352%positive 57%positive. Qed.
Lemma c_5em4_b : fin c_5em4 = true /\ 0 <= R c_5em4 <= / 128.
Proof. const_tac 4611686018427388%positive 63%positive. Qed.
Lemma c_1em3_b : fin c_1em3 = true /\ 0 <= R c_1em3 <= / 128.
Proof. const_tac 4611686018427388%positive 62%positive. Qed.
Lemma c_pinit_b : fin c_pinit = true /\ 0 <= R c_pinit <= / 2.
Proof. const_tac 5944751508129055%positive 54%positive. Qed.
Lemma c_binit_b : fin (fdiv c_pinit c_iinit) = true /\ 0 <= R (fdiv c_pinit c_iinit) <= / 128.
Proof. const_tac 6341068275337659%positive 60%positive. Qed.

Lemma NI_init : NI pll_init.
Proof.
  unfold NI, pll_init. cbn. rewrite Rabs_R0.
  repeat split; try reflexivity; try lra.
Qed.

(* multiplying a gain by a factor in [0,1] keeps it finite and does not increase it *)
Lemma fmul_unit x w : fin x = true -> 0 <= R x <= / 2 -> pow_in_unit w = true ->
  fin (fmul x w) = true /\ 0 <= R (fmul x w) <= R x.
Proof.
  intros Fx Bx Hw. unfold pow_in_unit in Hw. apply andb_prop in Hw. destruct Hw as [H0 H1].
  destruct (unit_interval_fin w H0 H1) as [Fw Bw].
  assert (B : Rabs (R x * R w) <= bpow radix2 0).
  { rewrite Rabs_pos_eq by (apply Rmult_le_pos; lra). cbn. nra. }
  destruct (fmul_spec x w 0 Fx Fw) as [F [E _]]; [lia|exact B|].
  split; [exact F|]. rewrite E. split.
  - rewrite <- rnd_0. apply rnd_le. apply Rmult_le_pos; lra.
  - rewrite <- (rnd_id (R x)) at 2 by apply fmt_R. apply rnd_le. nra.
Qed.

Lemma gains_spec s u mdt dt la lb a b q : NI s -> pow_in_unit (u_pow u) = true ->
  gains s u mdt dt = (la, lb, a, b, q) ->
  (fin la = true /\ 0 <= R la <= / 2) /\ (fin lb = true /\ 0 <= R lb <= / 128) /\
  (fin a = true /\ 0 <= R a <= / 2) /\ (fin b = true /\ 0 <= R b <= / 128).
Proof.
  intros [Fa [Ba [Fb [Bb _]]]] Hw. unfold gains.
  destruct (flt (u_weight u) c_50).
  { intros H. injection H as <- <- <- <- <-. pose proof c_3em2_b. pose proof c_5em4_b. tauto. }
  destruct (flt (u_weight u) c_150).
  { intros H. injection H as <- <- <- <- <-. pose proof c_6em2_b. pose proof c_1em3_b. tauto. }
  destruct ((capture_ns <? mdt)%Z && fgt (p_a s) c_3em2).
  - intros H. injection H as <- <- <- <- <-.
    destruct (fmul_unit (p_a s) (u_pow u) Fa Ba Hw) as [F1 B1].
    assert (Bb' : 0 <= R (p_b s) <= / 2) by lra.
    destruct (fmul_unit (p_b s) (u_pow u) Fb Bb' Hw) as [F2 B2].
    repeat split; try assumption; lra.
  - intros H. injection H as <- <- <- <- <-. tauto.
Qed.

(* what one tracking update does, numerically *)
Lemma track_numeric s u off : NI s -> pow_in_unit (u_pow u) = true -> in_i64 off ->
  (0 <= tsub (u_now u) (p_t0 s))%Z -> (0 <= tsub (u_now u) (p_t s))%Z ->
  let g := tsub (u_now u) (p_t s) in
  exists s' evs q, do_track s u off = (s', evs, q) /\ NI s' /\
    p_mode s' = 3%Z /\ p_t0 s' = p_t0 s /\ p_t s' = u_now u /\ p_epoch s' = p_epoch s /\
    ((evs = [] /\ g = 0%Z) \/ exists o d f, evs = [EAdjust o d f] /\ fis_finite f = true /\
       ((g < max_gap_ns)%Z -> (sec_ns <= d /\ d <= sec_ns * ceil_div g sec_ns /\ 2000 * Z.abs o <= d)%Z) /\
       ((g <= wrap_gap_ns)%Z ->
          (sec_ns <= d /\ d <= sec_ns * ceil_div g sec_ns + 1024 /\ Z.abs o <= 500000 * ceil_div g sec_ns + 1)%Z)).
Proof.
  intros HNI Hw Hoff Hm Hg g. unfold do_track.
  destruct (Z.ltb_spec (tsub (u_now u) (p_t0 s)) 0) as [C|_]; [lia|].
  fold g. set (dt := dur_seconds g).
  assert (Gr : (0 <= g <= max_i64)%Z).
  { pose proof (sat64_range (u_now u - p_t s)) as S. unfold in_i64 in S. unfold g, tsub in *. lia. }
  assert (Gi : in_i64 g) by (unfold in_i64, min_i64, max_i64 in *; lia).
  destruct (dur_seconds_bound g Gi) as [Fdt _].
  destruct (dur_seconds_nonneg g Gr) as [[Dlo Dhi] Dex]. fold dt in Fdt, Dlo, Dhi, Dex.
  assert (Q0 : (0 <= g / E9)%Z) by (apply Z.div_pos; unfold E9; lia).
  assert (Dt0 : 0 <= R dt) by (eapply Rle_trans; [|exact Dlo]; apply IZR_le; exact Q0).
  destruct (flt dt fzero) eqn:Fl.
  { apply (flt_fin dt fzero Fdt eq_refl) in Fl. cbn in Fl. lra. }
  destruct (gains s u (tsub (u_now u) (p_t0 s)) dt) as [[[[la lb] a] b] q] eqn:Gn.
  destruct (gains_spec s u _ _ _ _ _ _ _ HNI Hw Gn) as [[Fla Bla] [[Flb Blb] [[Fa Ba] [Fb Bb]]]].
  destruct HNI as [_ [_ [_ [_ [Fi Bi]]]]].
  (* p = Seconds(Inv(offset)) * a *)
  destruct (dur_seconds_bound (inv off) (inv_in_i64 off Hoff)) as [Fs Bs].
  set (sec := dur_seconds (inv off)) in *.
  assert (Bp0 : Rabs (R sec * R a) <= bpow radix2 33).
  { rewrite Rabs_mult, (Rabs_pos_eq (R a)) by lra.
    change (bpow radix2 34) with (IZR (2^34)) in Bs. change (bpow radix2 33) with (IZR (2^33)).
    change (2^34)%Z with 17179869184%Z in Bs. change (2^33)%Z with 8589934592%Z.
    pose proof (Rabs_pos (R sec)). nra. }
  destruct (fmul_spec sec a 33 Fs Fa) as [Fp [_ Bp]]; [lia|exact Bp0|].
  set (p := fmul sec a) in *.
  assert (Bpb0 : Rabs (R p * R b) <= bpow radix2 26).
  { rewrite Rabs_mult, (Rabs_pos_eq (R b)) by lra.
    change (bpow radix2 33) with (IZR (2^33)) in Bp. change (bpow radix2 26) with (IZR (2^26)).
    change (2^33)%Z with 8589934592%Z in Bp. change (2^26)%Z with 67108864%Z.
    pose proof (Rabs_pos (R p)). nra. }
  destruct (fmul_spec p b 26 Fp Fb) as [Fpb [_ Bpb]]; [lia|exact Bpb0|].
  destruct (fadd_acc (p_i s) (fmul p b) Fi Fpb Bi Bpb) as [Fi' Bi'].
  set (i' := fadd (p_i s) (fmul p b)) in *.
  destruct (fceil_spec dt Fdt) as [Fd Rd]. set (d := fceil dt) in *.
  set (n := Zceil (R dt)) in *.
  assert (N0 : (0 <= n)%Z).
  { subst n. apply le_IZR. eapply Rle_trans; [exact Dt0|]. apply Zceil_ub. }
  assert (N1 : (n <= g / E9 + 1)%Z) by (subst n; apply Zceil_glb; exact Dhi).
  eexists _, _, _. split; [reflexivity|].
  split; [unfold NI; cbn [p_a p_b p_i]; repeat split; try assumption; lra|].
  cbn [p_mode p_t0 p_t p_epoch]. repeat (split; [reflexivity|]).
  destruct (fgt d fzero) eqn:Gd.
  2:{ left. split; [reflexivity|]. destruct (Z.eq_dec g 0) as [G0|G0]; [exact G0|exfalso].
      assert (Pd : 0 < R dt) by (apply dur_seconds_pos; lia).
      assert (N2 : (1 <= n)%Z).
      { subst n. destruct (Z_le_gt_dec 1 (Zceil (R dt))) as [L|L]; [exact L|exfalso].
        assert (Zc : Zceil (R dt) = 0%Z) by lia. pose proof (Zceil_ub (R dt)) as U. rewrite Zc in U. cbn in U. lra. }
      assert (Gt : R d > R fzero) by (rewrite Rd; cbn; apply IZR_lt; lia).
      apply (fgt_fin d fzero Fd eq_refl) in Gt. congruence. }
  right. eexists _, _, _. split; [reflexivity|]. split; [exact Fi'|].
  apply (fgt_fin d fzero Fd eq_refl) in Gd. rewrite Rd in Gd. cbn in Gd.
  assert (N2 : (1 <= n)%Z) by (apply lt_IZR in Gd; lia).
  assert (N3 : (n <= g / E9 + (if (g mod E9 =? 0)%Z then 0 else 1))%Z).
  { destruct (Z.eqb_spec (g mod E9) 0) as [Z0|Z0]; [|lia].
    specialize (Dex Z0). subst n. rewrite Dex, Zceil_IZR. lia. }
  split.
  - intros Hgap.
    assert (Q1 : (g / E9 < 4294967296)%Z).
    { apply Z.div_lt_upper_bound; [unfold E9; lia|]. unfold max_gap_ns, sec_ns, E9 in *. lia. }
    destruct (slew_numeric d p n Fd Rd) as [Ed Eo]; [lia|exact Fp|].
    rewrite Ed. rewrite ceil_div_spec by lia. fold E9 in *. change sec_ns with E9.
    unfold E9 in *. lia.
  - intros Hgap.
    assert (Q1 : (g / E9 + (if (g mod E9 =? 0)%Z then 0 else 1) <= 9223372036)%Z).
    { unfold wrap_gap_ns, sec_ns, E9 in *. pose proof (Z.div_mod g 1000000000).
      pose proof (Z.mod_pos_bound g 1000000000).
      destruct (Z.eqb_spec (g mod 1000000000) 0); lia. }
    destruct (slew_numeric_wide d p n Fd Rd) as [Ed Eo]; [lia|exact Fp|].
    rewrite ceil_div_spec by lia. fold E9 in *. change sec_ns with E9.
    unfold E9 in *. lia.
Qed.

Close Scope R_scope.

(* ------------------------------------------------------------------ *)
(* histories: the oracle accepts the model's trace *)

Definition upd_ok (u : upd) : Prop := in_i64 (u_off u) /\ pow_in_unit (u_pow u) = true.

(* a condition P on the gap between consecutive updates that report the same
   epoch; across an epoch change the readings are unconstrained *)
Fixpoint chain_from (P : Z -> Prop) (pe pn : Z) (us : list upd) : Prop :=
  match us with
  | [] => True
  | u :: r => (pe = u_epoch u -> P (u_now u - pn)) /\ chain_from P (u_epoch u) (u_now u) r
  end.

Definition chain (P : Z -> Prop) (us : list upd) : Prop :=
  match us with [] => True | u :: r => chain_from P (u_epoch u) (u_now u) r end.

(* readings do not go backwards within an epoch (they may jump arbitrarily,
   also backwards, when the epoch changes: a step of the clock) *)
Definition epoch_monotone : list upd -> Prop := chain (fun g => 0 <= g).
(* no two consecutive updates of one epoch are more than 9223372036 s apart *)
Definition gaps_below_wrap : list upd -> Prop := chain (fun g => g <= wrap_gap_ns).

(* model state and oracle state after at least one update *)
Definition Rel (s : pll) (o : ost) : Prop :=
  o_started o = true /\ o_mono o = true /\
  p_epoch s = o_epoch o /\ p_t s = o_prev o /\
  o_start o <= p_t0 s <= p_t s /\
  ((p_mode s = 1 /\ p_t0 s = o_start o /\ o_decided o = false /\ o_slewing o = false) \/
   (p_mode s = 2 /\ o_decided o = true /\ o_slewing o = false) \/
   (p_mode s = 3 /\ o_decided o = true)) /\
  NI s.

Definition Rel0 (s : pll) (o : ost) : Prop := o = ost_init /\ p_mode s = 0 /\ NI s.

Lemma Rel_intro s o :
  o_started o = true -> o_mono o = true -> p_epoch s = o_epoch o -> p_t s = o_prev o ->
  o_start o <= p_t0 s -> p_t0 s <= p_t s ->
  ((p_mode s = 1 /\ p_t0 s = o_start o /\ o_decided o = false /\ o_slewing o = false) \/
   (p_mode s = 2 /\ o_decided o = true /\ o_slewing o = false) \/
   (p_mode s = 3 /\ o_decided o = true)) ->
  NI s -> Rel s o.
Proof. unfold Rel. tauto. Qed.

Ltac rel_intro :=
  apply Rel_intro;
  cbn [o_started o_mono o_epoch o_prev o_start o_decided o_slewing p_epoch p_mode p_t0 p_t];
  [reflexivity|reflexivity|first [reflexivity|assumption|congruence]|first [reflexivity|assumption]|lia|lia| | ].

Lemma tsub_nonneg a b : b <= a -> 0 <= tsub a b.
Proof. intros H. unfold tsub. apply sat64_nonneg. lia. Qed.

Lemma sync_epoch_fields s u :
  p_epoch (sync_epoch s u) = u_epoch u /\ p_t0 (sync_epoch s u) = p_t0 s /\ p_t (sync_epoch s u) = p_t s /\
  p_a (sync_epoch s u) = p_a s /\ p_b (sync_epoch s u) = p_b s /\ p_i (sync_epoch s u) = p_i s.
Proof.
  unfold sync_epoch. destruct (Z.eqb_spec (p_epoch s) (u_epoch u)) as [E|E]; cbn; tauto.
Qed.

Lemma NI_sync s u : NI s -> NI (sync_epoch s u).
Proof.
  unfold NI. destruct (sync_epoch_fields s u) as [_ [_ [_ [-> [-> ->]]]]]. tauto.
Qed.

Lemma ost_step_restart o u :
  (o_started o = false \/ o_epoch o <> u_epoch u) ->
  ost_step o u [] = (true, mkOst true true (u_now u) (u_epoch u) (u_now u) false false).
Proof.
  intros H. unfold ost_step. destruct H as [S|E].
  - rewrite S. reflexivity.
  - destruct (Z.eqb_spec (o_epoch o) (u_epoch u)); [contradiction|]. rewrite orb_true_r. reflexivity.
Qed.

Lemma ost_step_same o u evs :
  o_started o = true -> o_mono o = true -> o_prev o <= u_now u -> o_epoch o = u_epoch u ->
  ost_step o u evs =
    let '(ok, dec, sl) := ost_calls o u evs in
    (ok, mkOst true true (u_now u) (u_epoch u) (o_start o) dec sl).
Proof.
  intros S M P E. unfold ost_step. rewrite S, M, E, Z.eqb_refl. cbn [negb andb orb].
  destruct (Z.leb_spec (o_prev o) (u_now u)); [|lia]. reflexivity.
Qed.

Lemma ost_step_fields o u evs :
  o_prev (snd (ost_step o u evs)) = u_now u /\ o_epoch (snd (ost_step o u evs)) = u_epoch u.
Proof.
  unfold ost_step. destruct (negb (o_started o) || negb (o_epoch o =? u_epoch u)); [split; reflexivity|].
  destruct (negb (o_mono o && (o_prev o <=? u_now u))); [split; reflexivity|].
  destruct (ost_calls o u evs) as [[ok dec] sl]. split; reflexivity.
Qed.

(* what one update establishes: the calls, the oracle's verdict ok with its next
   state, the invariant, no panic; the verdict is "accepted" when the gap to the
   previous update of the epoch is below the int64 wrap G *)
Definition step_result (s : pll) (o : ost) (u : upd) (G : Prop) : Prop :=
  exists s' evs q ok o', pll_do s u = (s', evs, q) /\ ost_step o u evs = (ok, o') /\ Rel s' o' /\
    ~ In EPanic evs /\ (G -> ok = true).

Lemma startup_case s o u G : p_mode (sync_epoch s u) = 0 -> NI s ->
  ost_step o u [] = (true, mkOst true true (u_now u) (u_epoch u) (u_now u) false false) ->
  step_result s o u G.
Proof.
  intros M HNI HO. unfold step_result. rewrite (pll_do_0 s u M). unfold do_startup.
  eexists _, _, _, _, _. split; [reflexivity|]. split; [exact HO|].
  destruct (sync_epoch_fields s u) as [Ee [_ [_ [Ea [Eb Ei]]]]].
  split; [|split; [intros []|reflexivity]].
  rel_intro.
  - left. repeat split; reflexivity.
  - unfold NI in *. cbn [p_a p_b p_i]. rewrite Ea, Eb, Ei. exact HNI.
Qed.

Lemma wait_sat a b : (step_wait_ns <? tsub a b) = (step_wait_ns <? a - b).
Proof.
  unfold tsub, sat64, min_i64, max_i64, step_wait_ns, sec_ns.
  destruct (Z.ltb_spec (a - b) (-9223372036854775808)).
  - destruct (Z.ltb_spec (2 * 1000000000) (-9223372036854775808)); [lia|].
    destruct (Z.ltb_spec (2 * 1000000000) (a - b)); [lia|reflexivity].
  - destruct (Z.ltb_spec 9223372036854775807 (a - b)); [|reflexivity].
    destruct (Z.ltb_spec (2 * 1000000000) 9223372036854775807); [|lia].
    destruct (Z.ltb_spec (2 * 1000000000) (a - b)); [reflexivity|lia].
Qed.

Lemma min_abs_lt x : (step_min_ns <? Z.min (Z.abs x) max_i64) = (step_min_ns <? Z.abs x).
Proof.
  unfold step_min_ns, max_i64.
  destruct (Z.ltb_spec 1000000 (Z.abs x)); destruct (Z.ltb_spec 1000000 (Z.min (Z.abs x) 9223372036854775807)); lia.
Qed.

Lemma case_await_step s o u G :
  o_started o = true -> o_mono o = true -> p_epoch s = o_epoch o -> p_t s = o_prev o ->
  o_start o <= p_t0 s -> p_t0 s <= p_t s -> NI s ->
  o_prev o <= u_now u -> in_i64 (u_off u) -> pow_in_unit (u_pow u) = true ->
  p_epoch s = u_epoch u ->
  (p_mode s = 1 /\ p_t0 s = o_start o /\ o_decided o = false /\ o_slewing o = false) ->
  step_result s o u G.
Proof.
  intros S Mo Ee Et T0a T0b HNI HP Hoff Hw E HMx. unfold step_result.
  assert (Eo : o_epoch o = u_epoch u) by congruence.
  assert (Hnow : p_t s <= u_now u) by lia.
  assert (Hm : 0 <= tsub (u_now u) (p_t0 s)) by (apply tsub_nonneg; lia).
  destruct HMx as [M [T0 [Dc Sl]]].
  rewrite pll_do_1 by (rewrite (sync_epoch_same s u E); exact M). rewrite (sync_epoch_same s u E).
  unfold do_await_step.
  destruct (Z.ltb_spec (tsub (u_now u) (p_t0 s)) 0) as [C|_]; [lia|].
  assert (SD : ((step_wait_ns <? tsub (u_now u) (p_t0 s)) && fgt (u_weight u) c_3) = step_due o u).
  { unfold step_due. rewrite <- T0. rewrite (wait_sat (u_now u) (p_t0 s)). reflexivity. }
  rewrite SD. destruct (step_due o u) eqn:Due.
  2:{ eexists _, _, _, _, _. split; [reflexivity|]. split; [|split; [|split; [intros []|reflexivity]]].
      - rewrite (ost_step_same o u _ S Mo HP Eo). unfold ost_calls. rewrite Dc, Due. reflexivity.
      - unfold set_t. rel_intro; [left; repeat split; assumption|exact HNI]. }
  rewrite dur_abs_inv by exact Hoff.
  pose proof (min_abs_lt (u_off u)) as AB.
  rewrite AB. destruct (step_min_ns <? Z.abs (u_off u)) eqn:A.
  + eexists _, _, _, _, _. split; [reflexivity|]. split; [|split; [|split; [intros [K|[]]; discriminate|reflexivity]]].
    * rewrite (ost_step_same o u _ S Mo HP Eo). unfold ost_calls. rewrite Dc, Due, A. cbn [negb].
      replace (step_arg_ok (u_off u) (inv (inv (u_off u)))) with true; [reflexivity|].
      unfold step_arg_ok. destruct (Z.eqb_spec (u_off u) min_i64) as [N|N].
      -- rewrite N, inv_inv_min, Z.eqb_refl. cbn [andb]. symmetry. apply orb_true_r.
      -- rewrite inv_inv by assumption. rewrite Z.eqb_refl. reflexivity.
    * rel_intro; [right; left; repeat split; reflexivity|exact HNI].
  + eexists _, _, _, _, _. split; [reflexivity|]. split; [|split; [|split; [intros []|reflexivity]]].
    * rewrite (ost_step_same o u _ S Mo HP Eo). unfold ost_calls. rewrite Dc, Due, A. reflexivity.
    * rel_intro; [right; left; repeat split; reflexivity|exact HNI].
Qed.

Lemma case_await_pll s o u G :
  o_started o = true -> o_mono o = true -> p_epoch s = o_epoch o -> p_t s = o_prev o ->
  o_start o <= p_t0 s -> p_t0 s <= p_t s -> NI s ->
  o_prev o <= u_now u -> in_i64 (u_off u) -> pow_in_unit (u_pow u) = true ->
  p_epoch s = u_epoch u ->
  (p_mode s = 2 /\ o_decided o = true /\ o_slewing o = false) ->
  step_result s o u G.
Proof.
  intros S Mo Ee Et T0a T0b HNI HP Hoff Hw E HMx. unfold step_result.
  assert (Eo : o_epoch o = u_epoch u) by congruence.
  assert (Hnow : p_t s <= u_now u) by lia.
  assert (Hm : 0 <= tsub (u_now u) (p_t0 s)) by (apply tsub_nonneg; lia).
  destruct HMx as [M [Dc Sl]].
  rewrite pll_do_2 by (rewrite (sync_epoch_same s u E); exact M). rewrite (sync_epoch_same s u E).
  unfold do_await_pll.
  destruct (Z.ltb_spec (tsub (u_now u) (p_t0 s)) 0) as [C|_]; [lia|].
  destruct (Z.ltb_spec pll_wait_ns (tsub (u_now u) (p_t0 s))) as [W6|W6].
  + eexists _, _, _, _, _. split; [reflexivity|]. split; [|split; [|split; [intros []|reflexivity]]].
    * rewrite (ost_step_same o u _ S Mo HP Eo). unfold ost_calls. rewrite Dc, Sl. reflexivity.
    * rel_intro; [right; right; split; reflexivity|].
      destruct HNI as [_ [_ [_ [_ HI]]]]. unfold NI. cbn [p_a p_b p_i].
      destruct c_pinit_b as [F1 B1]. destruct c_binit_b as [F2 B2]. tauto.
  + eexists _, _, _, _, _. split; [reflexivity|]. split; [|split; [|split; [intros []|reflexivity]]].
    * rewrite (ost_step_same o u _ S Mo HP Eo). unfold ost_calls. rewrite Dc, Sl. reflexivity.
    * unfold set_t. rel_intro; [right; left; repeat split; assumption|exact HNI].
Qed.

Lemma case_track s o u :
  o_started o = true -> o_mono o = true -> p_epoch s = o_epoch o -> p_t s = o_prev o ->
  o_start o <= p_t0 s -> p_t0 s <= p_t s -> NI s ->
  o_prev o <= u_now u -> in_i64 (u_off u) -> pow_in_unit (u_pow u) = true ->
  p_epoch s = u_epoch u ->
  (p_mode s = 3 /\ o_decided o = true) ->
  step_result s o u (u_now u - o_prev o <= wrap_gap_ns).
Proof.
  intros S Mo Ee Et T0a T0b HNI HP Hoff Hw E HMx. unfold step_result.
  assert (Eo : o_epoch o = u_epoch u) by congruence.
  assert (Hnow : p_t s <= u_now u) by lia.
  assert (Hm : 0 <= tsub (u_now u) (p_t0 s)) by (apply tsub_nonneg; lia).
  destruct HMx as [M Dc].
  rewrite pll_do_3 by (rewrite (sync_epoch_same s u E); exact M). rewrite (sync_epoch_same s u E).
  assert (Hg : 0 <= tsub (u_now u) (p_t s)) by (apply tsub_nonneg; lia).
  destruct (track_numeric s u (inv (u_off u)) HNI Hw (inv_in_i64 _ Hoff) Hm Hg)
    as [s' [evs [q [ED [HNI' [M' [T0' [T' [E' HE]]]]]]]]].
  exists s', evs, q. destruct HE as [[-> G0]|[oo [d [f [-> [Ff [HN HW]]]]]]].
  + eexists _, _. split; [exact ED|]. split; [|split; [|split; [intros []|reflexivity]]].
    * rewrite (ost_step_same o u _ S Mo HP Eo). unfold ost_calls. rewrite Dc. cbn [negb].
      assert (NP : (u_now u <=? o_prev o) = true).
      { apply Z.leb_le. unfold tsub in G0. rewrite Et in G0.
        destruct (Z_le_gt_dec (u_now u) (o_prev o)) as [L|L]; [exact L|exfalso].
        assert (0 < sat64 (u_now u - o_prev o)); [|lia].
        unfold sat64, min_i64, max_i64.
        destruct (Z.ltb_spec (u_now u - o_prev o) (-9223372036854775808)); [lia|].
        destruct (Z.ltb_spec 9223372036854775807 (u_now u - o_prev o)); lia. }
      rewrite NP, orb_true_r. reflexivity.
    * apply Rel_intro; cbn [o_started o_mono o_epoch o_prev o_start o_decided o_slewing]; rewrite ?M', ?T0', ?T', ?E';
        [reflexivity|reflexivity|assumption|reflexivity|lia|lia|right; right; split; reflexivity|exact HNI'].
  + eexists _, _. split; [exact ED|]. split; [|split; [|split; [intros [K|[]]; discriminate|]]].
    * rewrite (ost_step_same o u _ S Mo HP Eo). unfold ost_calls. rewrite Dc. cbn [negb]. reflexivity.
    * apply Rel_intro; cbn [o_started o_mono o_epoch o_prev o_start o_decided o_slewing]; rewrite ?M', ?T0', ?T', ?E';
        [reflexivity|reflexivity|assumption|reflexivity|lia|lia|right; right; split; reflexivity|exact HNI'].
    * intros Gw. unfold adjust_ok. rewrite Ff. cbn [andb].
      assert (Eg : tsub (u_now u) (p_t s) = u_now u - o_prev o).
      { unfold tsub. rewrite Et. apply sat64_small. unfold wrap_gap_ns, sec_ns, max_i64 in *. lia. }
      rewrite Eg in HN, HW. destruct (HW Gw) as [W1 [W2 W3]].
      destruct (Z.ltb_spec 0 d); [|unfold sec_ns in *; lia]. cbn [andb].
      destruct (Z.ltb_spec (u_now u - o_prev o) max_gap_ns) as [Gp|Gp].
      -- destruct (HN Gp) as [N1 [N2 N3]].
         destruct (Z.leb_spec d (sec_ns * ceil_div (u_now u - o_prev o) sec_ns)); [|lia].
         destruct (Z.leb_spec (2000 * Z.abs oo) d); [|lia]. reflexivity.
      -- destruct (Z.leb_spec d (sec_ns * ceil_div (u_now u - o_prev o) sec_ns + 1024)); [|lia].
         destruct (Z.leb_spec (Z.abs oo) (500000 * ceil_div (u_now u - o_prev o) sec_ns + 1)); [|lia]. reflexivity.
Qed.

Definition gap_ok (o : ost) (u : upd) : Prop :=
  o_started o = true -> o_epoch o = u_epoch u -> u_now u - o_prev o <= wrap_gap_ns.

Lemma step_result_weaken s o u (G G' : Prop) : (G' -> G) -> step_result s o u G -> step_result s o u G'.
Proof.
  intros H [s' [evs [q [ok [o' [A [B [C [D F]]]]]]]]]. exists s', evs, q, ok, o'. tauto.
Qed.

Lemma inv_step s o u : (Rel0 s o \/ Rel s o) ->
  (o_started o = true -> o_epoch o = u_epoch u -> o_prev o <= u_now u) -> upd_ok u ->
  step_result s o u (gap_ok o u).
Proof.
  intros HR HP [Hoff Hw]. destruct HR as [[-> [M0 HNI]]|HR].
  { apply startup_case; [|exact HNI|apply ost_step_restart; left; reflexivity].
    unfold sync_epoch. destruct (p_epoch s =? u_epoch u); [exact M0|reflexivity]. }
  destruct HR as [S [Mo [Ee [Et [[T0a T0b] [HM HNI]]]]]].
  destruct (Z.eq_dec (p_epoch s) (u_epoch u)) as [E|E].
  2:{ apply startup_case; [apply sync_epoch_diff_mode; exact E|exact HNI|].
      apply ost_step_restart. right. congruence. }
  assert (Eo : o_epoch o = u_epoch u) by congruence. specialize (HP S Eo).
  destruct HM as [HM|[HM|HM]].
  - apply case_await_step; assumption.
  - apply case_await_pll; assumption.
  - apply (step_result_weaken s o u (u_now u - o_prev o <= wrap_gap_ns)); [intros Gk; exact (Gk S Eo)|].
    apply case_track; assumption.
Qed.

Lemma Rel_prev s o : Rel s o -> o_started o = true /\ o_prev o = p_t s /\ o_epoch o = p_epoch s.
Proof. intros [S [_ [Ee [Et _]]]]. split; [exact S|]. split; symmetry; assumption. Qed.

(* after an accepted-or-not step the oracle remembers this update's reading and epoch *)
Lemma step_fields o u evs ok o' : ost_step o u evs = (ok, o') -> o_prev o' = u_now u /\ o_epoch o' = u_epoch u.
Proof. intros H. pose proof (ost_step_fields o u evs) as F. rewrite H in F. exact F. Qed.

(* main history theorem: for every history whose readings are non-decreasing
   within each epoch, with gaps below the int64 wrap, int64 offsets and math.Pow
   answers in [0,1], the oracle accepts the model's trace *)
Lemma oracle_from s o us : (Rel0 s o \/ Rel s o) ->
  (o_started o = true -> chain_from (fun g => 0 <= g) (o_epoch o) (o_prev o) us /\
                         chain_from (fun g => g <= wrap_gap_ns) (o_epoch o) (o_prev o) us) ->
  (o_started o = false -> epoch_monotone us /\ gaps_below_wrap us) ->
  Forall upd_ok us -> C19_ok_from o (pll_run s us) = true.
Proof.
  revert s o. induction us as [|u r IH]; intros s o HR H1 H0 HU; [reflexivity|].
  inversion HU as [|? ? Hu Hr]; subst.
  assert (HP : o_started o = true -> o_epoch o = u_epoch u -> o_prev o <= u_now u).
  { intros S E. destruct (H1 S) as [[A _] _]. specialize (A E). lia. }
  assert (HG : gap_ok o u).
  { intros S E. destruct (H1 S) as [_ [A _]]. exact (A E). }
  destruct (inv_step s o u HR HP Hu) as [s' [evs [q [ok [o' [ED [HO [HR' [_ Hok]]]]]]]]].
  rewrite (Hok HG) in HO.
  destruct (step_fields o u evs true o' HO) as [Pn Pe].
  cbn [pll_run]. rewrite ED. cbn [C19_ok_from]. rewrite HO. cbn [andb].
  destruct (Rel_prev s' o' HR') as [S' _].
  apply IH; [right; exact HR'| | |exact Hr].
  - intros _. rewrite Pn, Pe. destruct (o_started o) eqn:S.
    + destruct (H1 eq_refl) as [[_ A] [_ B]]. split; assumption.
    + destruct (H0 eq_refl) as [A B]. split; assumption.
  - intros C. congruence.
Qed.

Lemma oracle_holds us : epoch_monotone us -> gaps_below_wrap us -> Forall upd_ok us ->
  C19_ok (pll_run pll_init us) = true.
Proof.
  intros HM HG HU. unfold C19_ok. apply oracle_from; [left|discriminate|intros _; split; assumption|exact HU].
  split; [reflexivity|]. split; [reflexivity|apply NI_init].
Qed.

(* ------------------------------------------------------------------ *)
(* readable statements about every update of a history *)

Lemma await_step_events s u off e : In e (events (do_await_step s u off)) ->
  e = EPanic \/ exists x, e = EStep x.
Proof.
  unfold do_await_step, events.
  destruct (tsub (u_now u) (p_t0 s) <? 0); [cbn [fst snd In]; intros [<-|[]]; left; reflexivity|].
  destruct (_ && _); cbn [fst snd]; [|intros []].
  destruct (step_min_ns <? _); [|intros []]. intros [<-|[]]. right. eauto.
Qed.

(* Adjust is called only in tracking mode of the current epoch *)
Lemma adjust_only_tracking s u o d f : In (EAdjust o d f) (events (pll_do s u)) ->
  p_epoch s = u_epoch u /\ p_mode s = 3.
Proof.
  destruct (Z.eq_dec (p_epoch s) (u_epoch u)) as [E|E].
  2:{ rewrite (pll_do_0 s u (sync_epoch_diff_mode s u E)). unfold do_startup, events. cbn [fst snd In]. intros []. }
  destruct (Z.eq_dec (p_mode s) 3) as [M3|M3]; [intros _; split; assumption|].
  intros H. exfalso. revert H.
  destruct (Z.eq_dec (p_mode s) 0) as [M0|M0].
  { rewrite pll_do_0 by (rewrite (sync_epoch_same s u E); exact M0).
    unfold do_startup, events. cbn [fst snd In]. intros []. }
  destruct (Z.eq_dec (p_mode s) 1) as [M1|M1].
  { rewrite pll_do_1 by (rewrite (sync_epoch_same s u E); exact M1).
    intros H. apply await_step_events in H. destruct H as [H|[x H]]; discriminate. }
  destruct (Z.eq_dec (p_mode s) 2) as [M2|M2].
  { rewrite pll_do_2 by (rewrite (sync_epoch_same s u E); exact M2).
    intros H. apply await_pll_events in H. discriminate. }
  rewrite pll_do_other by (rewrite (sync_epoch_same s u E); assumption).
  unfold events. cbn [fst snd In]. intros [H|[]]. discriminate.
Qed.

(* the arguments of an Adjust: g = time since the previous update *)
Definition adjust_sane (s : pll) (u : upd) (o d : Z) (f : f64) : Prop :=
  let g := u_now u - p_t s in
  fis_finite f = true /\ 0 <= g /\
  (g < max_gap_ns -> sec_ns <= d /\ d <= sec_ns * ceil_div g sec_ns /\ 2000 * Z.abs o <= d) /\
  (g <= wrap_gap_ns ->
     sec_ns <= d /\ d <= sec_ns * ceil_div g sec_ns + 1024 /\ Z.abs o <= 500000 * ceil_div g sec_ns + 1).

Lemma adjust_sane_step s ost u : (Rel0 s ost \/ Rel s ost) ->
  (o_started ost = true -> o_epoch ost = u_epoch u -> o_prev ost <= u_now u) -> upd_ok u ->
  forall o d f, In (EAdjust o d f) (events (pll_do s u)) -> adjust_sane s u o d f.
Proof.
  intros HR HP [Hoff Hw] o d f H.
  destruct (adjust_only_tracking s u o d f H) as [E M].
  destruct HR as [[_ [M0 _]]|HR]; [lia|].
  destruct HR as [S [Mo [Ee [Et [[T0a T0b] [_ HNI]]]]]].
  assert (Eo : o_epoch ost = u_epoch u) by congruence. specialize (HP S Eo).
  assert (Hnow : p_t s <= u_now u) by lia.
  assert (Hm : 0 <= tsub (u_now u) (p_t0 s)) by (apply tsub_nonneg; lia).
  assert (Hg : 0 <= tsub (u_now u) (p_t s)) by (apply tsub_nonneg; lia).
  revert H. rewrite pll_do_3 by (rewrite (sync_epoch_same s u E); exact M). rewrite (sync_epoch_same s u E).
  destruct (track_numeric s u (inv (u_off u)) HNI Hw (inv_in_i64 _ Hoff) Hm Hg)
    as [s' [evs [q [ED [_ [_ [_ [_ [_ HE]]]]]]]]].
  rewrite ED. unfold events. cbn [fst snd].
  destruct HE as [[-> _]|[oo [dd [ff [-> [Ff [HN HW]]]]]]]; [intros []|].
  intros [H|[]]. injection H as -> -> ->.
  unfold adjust_sane. cbv zeta. split; [exact Ff|]. split; [lia|].
  split.
  - intros Gp.
    assert (Eg : tsub (u_now u) (p_t s) = u_now u - p_t s).
    { unfold tsub. apply sat64_small. unfold max_gap_ns, sec_ns, max_i64 in *. lia. }
    rewrite Eg in HN. apply HN. exact Gp.
  - intros Gp.
    assert (Eg : tsub (u_now u) (p_t s) = u_now u - p_t s).
    { unfold tsub. apply sat64_small. unfold wrap_gap_ns, sec_ns, max_i64 in *. lia. }
    rewrite Eg in HW. apply HW. exact Gp.
Qed.

Lemma no_panic_step s ost u : (Rel0 s ost \/ Rel s ost) ->
  (o_started ost = true -> o_epoch ost = u_epoch u -> o_prev ost <= u_now u) -> upd_ok u ->
  ~ In EPanic (events (pll_do s u)).
Proof.
  intros HR HP Hu K.
  destruct (inv_step s ost u HR HP Hu) as [s2 [evs2 [q2 [ok [o2 [ED2 [_ [_ [NP _]]]]]]]]].
  rewrite ED2 in K. unfold events in K. cbn [fst snd] in K. exact (NP K).
Qed.

(* the invariant holds after every prefix of an admissible history *)
Definition last_upd (d : upd) (us : list upd) : upd := fold_left (fun _ u => u) us d.

Lemma reach_from us : forall s o, (Rel0 s o \/ Rel s o) ->
  (o_started o = true -> chain_from (fun g => 0 <= g) (o_epoch o) (o_prev o) us) ->
  (o_started o = false -> epoch_monotone us) ->
  Forall upd_ok us ->
  us = [] \/ exists o', Rel (pll_final s us) o' /\
                        forall d, o_prev o' = u_now (last_upd d us) /\ o_epoch o' = u_epoch (last_upd d us).
Proof.
  induction us as [|u r IH]; intros s o HR H1 H0 HU; [left; reflexivity|right].
  inversion HU as [|? ? Hu Hr]; subst.
  assert (HP : o_started o = true -> o_epoch o = u_epoch u -> o_prev o <= u_now u).
  { intros S E. destruct (H1 S) as [A _]. specialize (A E). lia. }
  destruct (inv_step s o u HR HP Hu) as [s' [evs [q [ok [o' [ED [HO [HR' _]]]]]]]].
  destruct (step_fields o u evs ok o' HO) as [Pn Pe].
  destruct (Rel_prev s' o' HR') as [S' _].
  assert (M' : chain_from (fun g => 0 <= g) (o_epoch o') (o_prev o') r).
  { rewrite Pn, Pe. destruct (o_started o) eqn:S; [apply (H1 eq_refl)|apply (H0 eq_refl)]. }
  cbn [pll_final]. rewrite ED.
  destruct r as [|u1 r1].
  - exists o'. split; [exact HR'|]. intros d. split; assumption.
  - destruct (IH s' o' (or_intror HR') (fun _ => M') (fun C => ltac:(congruence)) Hr) as [C|[o2 [HR2 HL]]];
      [discriminate|].
    exists o2. split; [exact HR2|]. intros d. exact (HL u).
Qed.

Lemma chain_from_app P pe pn us u : chain_from P pe pn (us ++ [u]) ->
  chain_from P pe pn us /\
  (forall d, u_epoch d = pe -> u_now d = pn ->
             u_epoch (last_upd d us) = u_epoch u -> P (u_now u - u_now (last_upd d us))).
Proof.
  revert pe pn. induction us as [|v r IH]; intros pe pn; cbn [app chain_from].
  - intros [H _]. split; [exact I|]. intros d <- <-. cbn. exact H.
  - intros [H1 H2]. destruct (IH _ _ H2) as [A B]. split; [split; assumption|].
    intros d _ _. exact (B v eq_refl eq_refl).
Qed.

Lemma chain_app P us u : chain P (us ++ [u]) ->
  chain P us /\ (us <> [] -> forall d, u_epoch (last_upd d us) = u_epoch u -> P (u_now u - u_now (last_upd d us))).
Proof.
  destruct us as [|v r]; cbn [app chain]; [intros _; split; [exact I|contradiction]|].
  intros H. destruct (chain_from_app _ _ _ _ _ H) as [A B]. split; [exact A|]. intros _ d.
  exact (B v eq_refl eq_refl).
Qed.

Lemma history_state us u : epoch_monotone (us ++ [u]) -> Forall upd_ok (us ++ [u]) ->
  exists o, (Rel0 (pll_final pll_init us) o \/ Rel (pll_final pll_init us) o) /\
            (o_started o = true -> o_epoch o = u_epoch u -> o_prev o <= u_now u) /\ upd_ok u.
Proof.
  intros HM HU. apply Forall_app in HU. destruct HU as [HU Hu]. inversion Hu as [|? ? Hu' _]; subst.
  destruct (chain_app _ us u HM) as [HM1 HM2].
  assert (R0 : Rel0 pll_init ost_init) by (split; [reflexivity|split; [reflexivity|apply NI_init]]).
  destruct (reach_from us pll_init ost_init (or_introl R0)) as [->|[o [HR HL]]];
    [discriminate|intros _; exact HM1|exact HU| |].
  - exists ost_init. split; [left; exact R0|]. split; [discriminate|exact Hu'].
  - exists o. split; [right; exact HR|]. split; [|exact Hu'].
    intros _ Eo. destruct (HL u) as [Ln Le]. rewrite Ln.
    assert (NE : us <> []).
    { intros ->. cbn [pll_final] in HR. destruct HR as [_ [_ [_ [_ [_ [HMd _]]]]]].
      cbn [pll_init p_mode] in HMd. lia. }
    specialize (HM2 NE u). rewrite <- Le in HM2. specialize (HM2 Eo). lia.
Qed.

(* statements over whole histories: s is the state after the history us, u the next update *)
Lemma history_no_panic us u : epoch_monotone (us ++ [u]) -> Forall upd_ok (us ++ [u]) ->
  ~ In EPanic (events (pll_do (pll_final pll_init us) u)).
Proof.
  intros HM HU. destruct (history_state us u HM HU) as [o [HR [HP Hu]]].
  exact (no_panic_step _ o u HR HP Hu).
Qed.

Lemma history_adjust_sane us u : epoch_monotone (us ++ [u]) -> Forall upd_ok (us ++ [u]) ->
  forall o d f, In (EAdjust o d f) (events (pll_do (pll_final pll_init us) u)) ->
  adjust_sane (pll_final pll_init us) u o d f.
Proof.
  intros HM HU. destruct (history_state us u HM HU) as [ost [HR [HP Hu]]].
  exact (adjust_sane_step _ ost u HR HP Hu).
Qed.

(* the time of the previous update is what the state remembers *)
Lemma history_prev_time us : us <> [] -> epoch_monotone us -> Forall upd_ok us ->
  forall d, p_t (pll_final pll_init us) = u_now (last_upd d us) /\ p_epoch (pll_final pll_init us) = u_epoch (last_upd d us).
Proof.
  intros NE HM HU d.
  assert (R0 : Rel0 pll_init ost_init) by (split; [reflexivity|split; [reflexivity|apply NI_init]]).
  destruct (reach_from us pll_init ost_init (or_introl R0)) as [C|[o [HR HL]]];
    [discriminate|intros _; exact HM|exact HU|contradiction|].
  destruct (Rel_prev _ _ HR) as [_ [P E]]. destruct (HL d) as [Ln Le]. split; congruence.
Qed.

(* the call made by one update of the start-up sequence, in every state *)
Lemma await_step_calls s u : in_i64 (u_off u) ->
  p_epoch s = u_epoch u -> p_mode s = 1 -> p_t0 s <= u_now u ->
  events (pll_do s u) =
    if (step_wait_ns <? u_now u - p_t0 s) && fgt (u_weight u) c_3 && (step_min_ns <? Z.abs (u_off u))
    then [EStep (inv (inv (u_off u)))] else [].
Proof.
  intros Hoff E M T.
  rewrite pll_do_1 by (rewrite (sync_epoch_same s u E); exact M). rewrite (sync_epoch_same s u E).
  unfold do_await_step, events.
  pose proof (tsub_nonneg (u_now u) (p_t0 s) T) as Hm.
  destruct (Z.ltb_spec (tsub (u_now u) (p_t0 s)) 0) as [C|_]; [lia|].
  rewrite wait_sat, dur_abs_inv, min_abs_lt by exact Hoff.
  destruct ((step_wait_ns <? u_now u - p_t0 s) && fgt (u_weight u) c_3); cbn [fst snd andb]; [|reflexivity].
  destruct (step_min_ns <? Z.abs (u_off u)); reflexivity.
Qed.

Lemma await_pll_calls s u : p_epoch s = u_epoch u -> p_mode s = 2 -> p_t0 s <= u_now u ->
  events (pll_do s u) = [].
Proof.
  intros E M T.
  rewrite pll_do_2 by (rewrite (sync_epoch_same s u E); exact M). rewrite (sync_epoch_same s u E).
  unfold do_await_pll, events.
  pose proof (tsub_nonneg (u_now u) (p_t0 s) T) as Hm.
  destruct (Z.ltb_spec (tsub (u_now u) (p_t0 s)) 0) as [C|_]; [lia|].
  destruct (pll_wait_ns <? _); reflexivity.
Qed.

(* once tracking, an update at an unchanged reading makes no call and an update
   at a later reading makes exactly one Adjust *)
Lemma track_calls_step s ost u : Rel s ost -> o_prev ost <= u_now u -> upd_ok u ->
  p_epoch s = u_epoch u -> p_mode s = 3 ->
  (u_now u = p_t s -> events (pll_do s u) = []) /\
  (p_t s < u_now u -> exists o d f, events (pll_do s u) = [EAdjust o d f]).
Proof.
  intros HR HP [Hoff Hw] E M.
  destruct HR as [S [Mo [Ee [Et [[T0a T0b] [_ HNI]]]]]].
  assert (Hnow : p_t s <= u_now u) by lia.
  assert (Hm : 0 <= tsub (u_now u) (p_t0 s)) by (apply tsub_nonneg; lia).
  assert (Hg : 0 <= tsub (u_now u) (p_t s)) by (apply tsub_nonneg; lia).
  rewrite pll_do_3 by (rewrite (sync_epoch_same s u E); exact M). rewrite (sync_epoch_same s u E).
  destruct (track_numeric s u (inv (u_off u)) HNI Hw (inv_in_i64 _ Hoff) Hm Hg)
    as [s' [evs [q [ED [_ [_ [_ [_ [_ HE]]]]]]]]].
  rewrite ED. unfold events. cbn [fst snd].
  destruct HE as [[-> G0]|[oo [dd [ff [-> [Ff [HN _]]]]]]].
  - split; [reflexivity|]. intros L. exfalso.
    assert (0 < tsub (u_now u) (p_t s)); [|lia].
    unfold tsub, sat64, min_i64, max_i64.
    destruct (Z.ltb_spec (u_now u - p_t s) (-9223372036854775808)); [lia|].
    destruct (Z.ltb_spec 9223372036854775807 (u_now u - p_t s)); lia.
  - split; [|intros _; eauto].
    intros En. exfalso.
    assert (Gp : tsub (u_now u) (p_t s) < max_gap_ns).
    { rewrite En. unfold tsub. rewrite Z.sub_diag. cbn. unfold max_gap_ns, sec_ns. lia. }
    destruct (HN Gp) as [N1 [N2 _]]. rewrite En in N2. unfold tsub in N2. rewrite Z.sub_diag in N2.
    cbn in N2. unfold sec_ns in *. lia.
Qed.

Lemma history_track_calls us u : epoch_monotone (us ++ [u]) -> Forall upd_ok (us ++ [u]) ->
  let s := pll_final pll_init us in
  p_epoch s = u_epoch u -> p_mode s = 3 ->
  (u_now u = p_t s -> events (pll_do s u) = []) /\
  (p_t s < u_now u -> exists o d f, events (pll_do s u) = [EAdjust o d f]).
Proof.
  intros HM HU s E M. destruct (history_state us u HM HU) as [o [HR [HP Hu]]].
  destruct HR as [[_ [M0 _]]|HR]; [fold s in M0; lia|].
  apply (track_calls_step s o u HR); try assumption.
  destruct HR as [S [_ [Ee _]]]. apply HP; [exact S|]. fold s in Ee. congruence.
Qed.

(* float-level slew bound: whatever p is, the clamped value lies within
   +-(d * 500e-6) for d = ceil(dt) up to 2^34 s *)
Lemma clamp_float_bound d p n : fin d = true -> R d = IZR n -> 0 <= n <= 2^34 -> fin p = true ->
  fle (clamp d p) (fmul d c_5em4) = true /\ fle (fmul d c_m5em4) (clamp d p) = true.
Proof.
  intros Fd Rd Hn Fp.
  destruct (clamp_spec d p n Fd Rd Hn Fp) as [Fh [Rh [Fl [Rl [Fc Bc]]]]].
  split; apply fle_fin; try assumption; rewrite ?Rh, ?Rl; apply Bc.
Qed.

(* the hypotheses of the history theorems are satisfiable by a history that
   steps once (the clock then reports a new epoch and a reading that went
   BACKWARDS by the step) and then slews *)
Definition shape (e : event) : Z := match e with EStep _ => 1 | EAdjust _ _ _ => 2 | EPanic => 9 end.
Definition example_history : list upd :=
  [mkUpd 100000000000 0 (-5000000000) (f_of_int 10) (f_of_int 1); mkUpd 103000000000 0 (-5000000000) (f_of_int 10) (f_of_int 1);
   mkUpd 99000000000 1 0 (f_of_int 10) (f_of_int 1); mkUpd 102000000000 1 0 (f_of_int 10) (f_of_int 1);
   mkUpd 109000000000 1 0 (f_of_int 10) (f_of_int 1); mkUpd 111000000000 1 40000000 (f_of_int 200) (f_of_int 1)].

Example hypotheses_satisfiable :
  epoch_monotone example_history /\ gaps_below_wrap example_history /\ Forall upd_ok example_history /\
  map (fun p => map shape (snd p)) (pll_run pll_init example_history) = [[]; [1]; []; []; []; [2]].
Proof.
  split; [cbn; unfold wrap_gap_ns, sec_ns; lia|]. split; [cbn; unfold wrap_gap_ns, sec_ns; lia|]. split.
  - repeat constructor; try (unfold in_i64, min_i64, max_i64; cbn; lia); vm_compute; reflexivity.
  - vm_compute. reflexivity.
Qed.

(* the known finding: more than 9223372036 s between two tracking updates and
   the requested duration is int64(ceil(dt)*1e9) wrapped to MinInt64 *)
Definition wrap_history : list upd :=
  [mkUpd 0 0 1000 (f_of_int 10) (f_of_int 1); mkUpd 3000000000 0 1000 (f_of_int 10) (f_of_int 1);
   mkUpd 10000000000 0 1000 (f_of_int 10) (f_of_int 1)].
Definition wrap_update : upd := mkUpd 9223372047000000000 0 1000 (f_of_int 10) (f_of_int 1).

Lemma duration_wrap_witness :
  epoch_monotone (wrap_history ++ [wrap_update]) /\ Forall upd_ok (wrap_history ++ [wrap_update]) /\
  map (fun e => match e with EAdjust o d _ => (o, d) | _ => (0, 0) end)
      (events (pll_do (pll_final pll_init wrap_history) wrap_update)) = [(29, min_i64)].
Proof.
  split; [cbn; lia|]. split.
  - repeat constructor; try (unfold in_i64, min_i64, max_i64; cbn; lia); vm_compute; reflexivity.
  - vm_compute. reflexivity.
Qed.

Lemma duration_positive_refuted :
  exists us u o d f, epoch_monotone (us ++ [u]) /\ Forall upd_ok (us ++ [u]) /\
    In (EAdjust o d f) (events (pll_do (pll_final pll_init us) u)) /\ d <= 0.
Proof.
  destruct duration_wrap_witness as [HM [HU HE]].
  destruct (events (pll_do (pll_final pll_init wrap_history) wrap_update)) as [|[x|o d f|] [|e r]] eqn:E;
    try discriminate HE.
  exists wrap_history, wrap_update, o, d, f. rewrite E.
  split; [exact HM|]. split; [exact HU|]. split; [left; reflexivity|].
  cbn [map] in HE. injection HE as _ Hd. rewrite Hd. unfold min_i64. lia.
Qed.
