(* C04, decoding direction: every 64-bit timestamp (all 2^32 seconds fields, all 2^32 fractions)
   decodes into the reference's window, and encoding the result gives the timestamp back up to
   the truncation of the fraction. *)
From ST Require Import Base.Ints Model.NtpTime Proofs.NtpTimeProofs.
From Coq Require Import ZArith Lia Bool.
Open Scope Z_scope.
Ltac Zify.zify_post_hook ::= Z.to_euclidean_division_equations.

Lemma unfold_in_window s tref : sec_ok tref -> 0 <= s < 4294967296 ->
  -2147483648 <= unfold_sec s tref - tref < 2147483648 /\
  (unfold_sec s tref - ntp_epoch) mod 4294967296 = s.
Proof.
  unfold sec_ok, unfold_sec, go_div, ntp_epoch, secs_per_era. intros Ht Hs.
  change (2 ^ 60) with 1152921504606846976 in Ht.
  rewrite (i64_id (tref - -2208988800)) by (unfold min_i64, max_i64; lia).
  rewrite (Z.quot_div_nonneg (tref - -2208988800)) by lia.
  rewrite (i64_id ((tref - -2208988800) / 4294967296)) by (unfold min_i64, max_i64; lia).
  rewrite (i64_id ((tref - -2208988800) / 4294967296 * 4294967296)) by (unfold min_i64, max_i64; lia).
  change (Z.quot 4294967296 2) with 2147483648.
  rewrite (i64_id 2147483648) by (unfold min_i64, max_i64; lia).
  set (base := (tref - -2208988800) / 4294967296 * 4294967296).
  assert (Hb : 0 <= base <= tref + 2208988800 /\ tref + 2208988800 < base + 4294967296) by (unfold base; lia).
  assert (Hj : exists j, base = 4294967296 * j) by (exists ((tref - -2208988800) / 4294967296); unfold base; lia).
  destruct Hj as [j Hj].
  rewrite (i64_id (-2208988800 + base + s)) by (unfold min_i64, max_i64; lia).
  destruct (_ <? _) eqn:E1; [|destruct (_ <=? _) eqn:E2];
    rewrite ?i64_id by (unfold min_i64, max_i64; lia); lia.
Qed.

Lemma nsec_of_frac_value f : 0 <= f < 4294967296 ->
  nsec_of_frac f = f * 1000000000 / 4294967296 /\ 0 <= nsec_of_frac f < 1000000000.
Proof.
  intros H. unfold nsec_of_frac, nanos_per_sec.
  rewrite i64_id by (unfold min_i64, max_i64; lia).
  rewrite Z.shiftr_div_pow2 by lia. change (2 ^ 32) with 4294967296. lia.
Qed.

Lemma mk_time_sec sec ns : 0 <= ns < 1000000000 ->
  time_sec (mk_time sec ns) = sec /\ time_nsec (mk_time sec ns) = ns.
Proof. unfold time_sec, time_nsec, mk_time, nanos_per_sec. lia. Qed.

(* decode then encode: same seconds field, fraction at most 5 units (1.2 ns) below *)
Theorem decode_encode s f tref :
  sec_ok (time_sec tref) -> 0 <= s < 4294967296 -> 0 <= f < 4294967296 ->
  let t := time_of_time64 {| t64_sec := s; t64_frac := f |} tref in
  in_window t tref /\ t64_sec (time64_of_time t) = s /\
  f - 5 <= t64_frac (time64_of_time t) <= f.
Proof.
  intros Ht Hs Hf. cbv zeta. unfold time_of_time64, in_window. cbn [t64_sec t64_frac].
  destruct (nsec_of_frac_value f Hf) as [Hv Hr].
  destruct (unfold_in_window s (time_sec tref) Ht Hs) as [Hw Hm].
  destruct (mk_time_sec (unfold_sec s (time_sec tref)) (nsec_of_frac f) Hr) as [E1 E2].
  unfold time64_of_time. cbn [t64_sec t64_frac]. rewrite E1, E2.
  split; [lia|]. split.
  - unfold u32. unfold sec_ok in Ht. change (2 ^ 60) with 1152921504606846976 in Ht.
    rewrite i64_id by (unfold min_i64, max_i64, ntp_epoch in *; lia). exact Hm.
  - rewrite frac_value by lia. rewrite Hv. lia.
Qed.

(* the decoded nanosecond is the fraction truncated: f*1e9/2^32 rounded down *)
Theorem decode_nsec s f tref : 0 <= f < 4294967296 ->
  let t := time_of_time64 {| t64_sec := s; t64_frac := f |} tref in
  time_nsec t * 4294967296 <= f * 1000000000 < (time_nsec t + 1) * 4294967296.
Proof.
  intros Hf. cbv zeta. unfold time_of_time64. cbn [t64_sec t64_frac].
  destruct (nsec_of_frac_value f Hf) as [Hv Hr].
  destruct (mk_time_sec (unfold_sec s (time_sec tref)) (nsec_of_frac f) Hr) as [_ E2].
  rewrite E2, Hv. lia.
Qed.

Lemma decode_facts s f tref :
  sec_ok (time_sec tref) -> 0 <= s < 4294967296 -> 0 <= f < 4294967296 ->
  let t := time_of_time64 {| t64_sec := s; t64_frac := f |} tref in
  -2147483648 <= time_sec t - time_sec tref < 2147483648 /\
  (time_sec t - ntp_epoch) mod 4294967296 = s /\
  time_nsec t * 4294967296 <= f * 1000000000 < (time_nsec t + 1) * 4294967296.
Proof.
  intros Ht Hs Hf. cbv zeta. split; [|split].
  - apply (decode_encode s f tref Ht Hs Hf).
  - unfold time_of_time64. cbn [t64_sec t64_frac].
    destruct (nsec_of_frac_value f Hf) as [_ Hr].
    destruct (mk_time_sec (unfold_sec s (time_sec tref)) (nsec_of_frac f) Hr) as [E1 _].
    rewrite E1. apply (unfold_in_window s (time_sec tref) Ht Hs).
  - apply (decode_nsec s f tref Hf).
Qed.

Theorem decode_meets_oracle s f tref : 0 <= s < 4294967296 -> 0 <= f < 4294967296 ->
  C04_decode_ok s f tref (time_of_time64 {| t64_sec := s; t64_frac := f |} tref) = true.
Proof.
  intros Hs Hf. unfold C04_decode_ok.
  destruct ((0 <=? time_sec tref) && (time_sec tref <? 1152921504606846976)) eqn:G; [|reflexivity].
  apply andb_true_iff in G. destruct G as [G1 G2].
  apply Z.leb_le in G1. apply Z.ltb_lt in G2.
  assert (Ht : sec_ok (time_sec tref)) by (unfold sec_ok; change (2 ^ 60) with 1152921504606846976; lia).
  pose proof (decode_facts s f tref Ht Hs Hf) as Hd. cbv zeta in Hd.
  set (b := time_of_time64 {| t64_sec := s; t64_frac := f |} tref) in *. clearbody b.
  destruct Hd as [[Ha Hb] [Hc [Hd He]]].
  set (x := time_sec b) in *. set (y := time_nsec b) in *. set (r := time_sec tref) in *.
  clearbody x y r. cbv zeta.
  set (n := (f * 1000000000 + 4294967295) / 4294967296).
  assert (Hn : y <= n <= y + 1) by (unfold n; lia).
  apply andb_true_iff; split.
  - rewrite !andb_true_iff, Z.leb_le, Z.ltb_lt, Z.eqb_eq. repeat split; assumption.
  - destruct ((n <? 1000000000) && (n * 4294967296 / 1000000000 =? f)); [|reflexivity].
    rewrite andb_true_iff, !Z.leb_le. lia.
Qed.

(* order is also reflected: a strictly earlier result comes from a strictly earlier time *)
Theorem order_reflected t1 t2 tref :
  sec_ok (time_sec tref) -> in_window t1 tref -> in_window t2 tref ->
  time_of_time64 (time64_of_time t1) tref < time_of_time64 (time64_of_time t2) tref -> t1 < t2.
Proof.
  intros Ht H1 H2 Hlt. destruct (Z_lt_le_dec t1 t2) as [L|L]; [exact L|].
  pose proof (order_preserved t2 t1 tref Ht H2 H1 L). lia.
Qed.

(* two times at least 2 ns apart stay strictly ordered *)
Theorem order_strict t1 t2 tref :
  sec_ok (time_sec tref) -> in_window t1 tref -> in_window t2 tref -> t1 + 2 <= t2 ->
  time_of_time64 (time64_of_time t1) tref < time_of_time64 (time64_of_time t2) tref.
Proof.
  intros Ht H1 H2 L.
  pose proof (roundtrip t1 tref Ht H1) as R1. pose proof (roundtrip t2 tref Ht H2) as R2.
  cbv zeta in R1, R2. lia.
Qed.


(* non-vacuity across the era boundary of 2036-02-07T06:28:16Z (Unix second 2085978496):
   reference after the rollover, time before it *)
Example era_crossing :
  let tref := mk_time 2085978500 5 in
  let t := mk_time 2085978490 123456789 in
  time_sec tref = 2085978500 /\ time_sec t - time_sec tref = -10 /\
  t64_sec (time64_of_time t) = 4294967290 /\
  time_of_time64 (time64_of_time t) tref = t - 1.
Proof. cbv zeta. repeat split; vm_compute; reflexivity. Qed.
