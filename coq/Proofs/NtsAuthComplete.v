(* C10, completeness at byte level: DecodePacket applied to the bytes that
   EncodePacket assembles yields exactly the nonce, the ciphertext and the
   authenticator position of the encoder, hence every packet of the project's
   own encoder is accepted under the key it was sealed with.
   Model: Model/NtsAuth.v (enc_packet, new_request, new_response, decode_packet,
   authenticate).  The wire format is written down once ([pre_bytes],
   [auth_field]); the encoder is shown to produce it and the decoder to read it. *)
From Coq Require Import ZArith List Bool Lia.
From ST Require Import Base.Ints Model.NtsAuth Proofs.NtsAuthProofs.
Import ListNotations.
Open Scope Z_scope.
Ltac Zify.zify_post_hook ::= Z.div_mod_to_equations.

(* ------------- the wire format ------------- *)
(* value followed by the zero padding to a multiple of 4 *)
Definition padz (v : bytes) : bytes := v ++ repeat 0 (pad4 (length v) - length v).
(* length of an extension field with body v *)
Definition field_len (v : bytes) : nat := (4 + pad4 (length v))%nat.
Definition field (t : Z) (v : bytes) : bytes :=
  enc16 t ++ enc16 (Z.of_nat (field_len v)) ++ padz v.
Definition fields (t : Z) (vs : list bytes) : bytes := flat_map (field t) vs.
Definition fields_len (vs : list bytes) : nat := list_sum (map field_len vs).
(* authenticator field for a plaintext pt: header 4, two length words 4, nonce 16,
   ciphertext = 16-byte tag + plaintext, padded *)
Definition auth_len (pt : bytes) : nat := (24 + pad4 (16 + length pt))%nat.
(* length of the whole datagram *)
Definition enc_len (uid : bytes) (cookies phs : list bytes) (pt : bytes) : nat :=
  (48 + field_len uid + fields_len cookies + fields_len phs + auth_len pt)%nat.
(* everything in front of the authenticator: the associated data *)
Definition pre_bytes (hdr uid : bytes) (cookies phs : list bytes) : bytes :=
  hdr ++ field extUniqueIdentifier uid ++ fields extCookie cookies ++ fields extCookiePlaceholder phs.
Definition auth_field (nonce ct : bytes) : bytes :=
  enc16 extAuthenticator ++ enc16 (Z.of_nat (24 + pad4 (length ct))) ++
  enc16 16 ++ enc16 (lenz ct) ++ nonce ++ padz ct.

(* ------------- arithmetic and list helpers ------------- *)
Lemma pad4_Z : forall n, Z.of_nat (pad4 n) = (Z.of_nat n + 3) / 4 * 4.
Proof. intros n. unfold pad4. rewrite Nat2Z.inj_mul, Nat2Z.inj_div, Nat2Z.inj_add. reflexivity. Qed.

Lemma pad4_bounds : forall n, (n <= pad4 n)%nat /\ (pad4 n < n + 4)%nat.
Proof. intros n. pose proof (pad4_Z n). lia. Qed.

Lemma pad4_mult : forall n, (n mod 4 = 0)%nat -> pad4 n = n.
Proof.
  intros n H. apply Nat.mod_divides in H; [|lia]. destruct H as [q H].
  pose proof (pad4_Z n). lia.
Qed.

Lemma pad4_mod : forall n, (pad4 n mod 4 = 0)%nat.
Proof. intros n. unfold pad4. apply Nat.mod_mul. lia. Qed.

Lemma padz_length : forall v, length (padz v) = pad4 (length v).
Proof. intros v. unfold padz. rewrite app_length, repeat_length. pose proof (pad4_bounds (length v)). lia. Qed.

Lemma padz_mult : forall v, (length v mod 4 = 0)%nat -> padz v = v.
Proof. intros v H. unfold padz. rewrite pad4_mult by exact H. rewrite Nat.sub_diag. apply app_nil_r. Qed.

Lemma field_length : forall t v, length (field t v) = field_len v.
Proof. intros. unfold field. rewrite !app_length, !enc16_length, padz_length. unfold field_len. lia. Qed.

Lemma fields_cons : forall t v r, fields t (v :: r) = field t v ++ fields t r.
Proof. reflexivity. Qed.

Lemma fields_len_cons : forall v r, fields_len (v :: r) = (field_len v + fields_len r)%nat.
Proof. reflexivity. Qed.

Lemma fields_len_nil : fields_len [] = 0%nat.
Proof. reflexivity. Qed.

Lemma fields_length : forall t vs, length (fields t vs) = fields_len vs.
Proof.
  intros t vs. induction vs as [|v r IH]; [reflexivity|].
  rewrite fields_cons, fields_len_cons, app_length, field_length, IH. reflexivity.
Qed.

Lemma fields_len_ge : forall vs, (4 * length vs <= fields_len vs)%nat.
Proof.
  induction vs as [|v r IH]; [simpl; lia|].
  rewrite fields_len_cons. unfold field_len at 1. cbn [length]. lia.
Qed.

Lemma auth_field_length : forall nonce ct, length nonce = 16%nat ->
  length (auth_field nonce ct) = (24 + pad4 (length ct))%nat.
Proof. intros nonce ct H. unfold auth_field. rewrite !app_length, !enc16_length, padz_length, H. lia. Qed.

Lemma pre_bytes_length : forall hdr uid cookies phs, length hdr = 48%nat ->
  length (pre_bytes hdr uid cookies phs) = (48 + field_len uid + fields_len cookies + fields_len phs)%nat.
Proof. intros. unfold pre_bytes. rewrite !app_length, field_length, !fields_length. lia. Qed.

Lemma u16_small : forall x, 0 <= x < 65536 -> u16 x = x.
Proof. intros x H. unfold u16. apply Z.mod_small. exact H. Qed.

Lemma cpad_nat : forall n, Z.of_nat (n) < 65536 -> u16 (- Z.of_nat n) mod 4 = Z.of_nat (pad4 n - n).
Proof.
  intros n H. pose proof (pad4_Z n) as HZ. pose proof (pad4_bounds n) as HB.
  rewrite Nat2Z.inj_sub by lia. rewrite HZ. unfold u16. lia.
Qed.

Lemma cpad_lenz : forall v : bytes, lenz v < 65536 ->
  u16 (- lenz v) mod 4 = Z.of_nat (pad4 (length v) - length v).
Proof. intros v H. unfold lenz in *. apply cpad_nat. exact H. Qed.

Lemma take_pad_app_exact : forall (v rest : bytes) n, n = length v -> take_pad n (v ++ rest) = v.
Proof.
  intros v rest n H. subst n. unfold take_pad. rewrite firstn_app_exact by reflexivity.
  rewrite app_length. replace (length v - (length v + length rest))%nat with 0%nat by lia. apply app_nil_r.
Qed.

Lemma skipn_add : forall (l : bytes) a c, skipn (a + c) l = skipn c (skipn a l).
Proof.
  intros l a. revert l. induction a as [|a IH]; intros l c; [reflexivity|].
  destruct l as [|x l]; [cbn [plus skipn]; rewrite skipn_nil; reflexivity|].
  cbn [plus skipn]. apply IH.
Qed.

Lemma firstn_fit : forall (l : bytes) n, (length l <= n)%nat -> firstn n l = l.
Proof. intros l n H. apply firstn_all2. exact H. Qed.

(* ------------- the encoder produces the wire format ------------- *)
Lemma pack_field_ok : forall cap (acc : bytes) t (v : bytes),
  (length acc + field_len v <= cap)%nat -> Z.of_nat (field_len v) < 65536 ->
  pack_field cap acc t v = Ok (acc ++ field t v).
Proof.
  intros cap acc t v Hfit Hcap. unfold pack_field, wr_hdr, field_len in *.
  pose proof (pad4_bounds (length v)) as Hp.
  replace (length acc + 4 <=? cap)%nat with true by (symmetry; apply Nat.leb_le; lia).
  rewrite (u16_small (Z.of_nat (pad4 (length v)))) by lia.
  rewrite u16_small by lia.
  unfold wr_copy.
  rewrite (firstn_fit v) by (rewrite !app_length, !enc16_length; lia).
  rewrite (firstn_fit (repeat 0 (pad4 (length v) - length v)))
    by (rewrite !app_length, !enc16_length, repeat_length; lia).
  unfold field, padz, field_len. rewrite Nat2Z.inj_add. rewrite <- !app_assoc. reflexivity.
Qed.

Lemma pack_fields_ok : forall (vs : list bytes) cap (acc : bytes) t,
  (length acc + fields_len vs <= cap)%nat -> Z.of_nat (fields_len vs) < 65536 ->
  pack_fields cap acc t vs = Ok (acc ++ fields t vs).
Proof.
  induction vs as [|v r IH]; intros cap acc t Hfit Hcap.
  - cbn [pack_fields fields flat_map]. rewrite app_nil_r. reflexivity.
  - rewrite fields_len_cons in Hfit, Hcap. cbn [pack_fields].
    rewrite pack_field_ok by lia.
    rewrite IH by (try rewrite app_length, field_length; lia).
    rewrite fields_cons, app_assoc. reflexivity.
Qed.

Section Complete.
  Variable seal : bytes -> bytes -> option bytes -> bytes -> bytes.
  Variable open : bytes -> bytes -> option bytes -> bytes -> option bytes.
  Hypothesis open_seal : forall k n ad p, open k n ad (seal k n ad p) = Some p.
  Hypothesis seal_len : forall k n ad p, length (seal k n ad p) = (16 + length p)%nat.

  Lemma pack_auth_ok : forall cap (acc key pt rnd : bytes),
    key_ok key = true -> length rnd = 16%nat ->
    (length acc + auth_len pt <= cap)%nat -> Z.of_nat (cap) < 65536 ->
    pack_auth seal cap acc key pt rnd = Ok (acc ++ auth_field rnd (seal key rnd (Some acc) pt)).
  Proof.
    intros cap acc key pt rnd Hk Hr Hfit Hcap. unfold pack_auth, auth_len in *. rewrite Hk. cbn [negb].
    cbv zeta.
    assert (Hn : lenz rnd = 16) by (unfold lenz; rewrite Hr; reflexivity).
    rewrite Hn. change (u16 16) with 16. change (u16 (- (16)) mod 4) with 0.
    set (ct := seal key rnd (Some acc) pt).
    assert (Hct : length ct = (16 + length pt)%nat) by apply seal_len.
    pose proof (pad4_bounds (length ct)) as Hp. rewrite <- Hct in Hfit.
    rewrite (u16_small (lenz ct)) by (unfold lenz; lia).
    rewrite !(cpad_lenz ct) by (unfold lenz; lia). rewrite Nat2Z.id.
    replace (4 + 2 + 2 + 16 + 0 + lenz ct + Z.of_nat (pad4 (length ct) - length ct))
      with (Z.of_nat (24 + pad4 (length ct))) by (unfold lenz; lia).
    rewrite u16_small by lia.
    unfold wr_hdr.
    replace (length acc + 4 <=? cap)%nat with true by (symmetry; apply Nat.leb_le; lia).
    replace (length (acc ++ enc16 extAuthenticator ++ enc16 (Z.of_nat (24 + pad4 (length ct)))) + 4 <=? cap)%nat
      with true by (symmetry; apply Nat.leb_le; rewrite !app_length, !enc16_length; lia).
    unfold wr_copy. change (Z.to_nat 0) with 0%nat. cbn [repeat].
    rewrite (firstn_fit rnd) by (rewrite !app_length, !enc16_length; lia).
    rewrite firstn_nil, app_nil_r.
    rewrite (firstn_fit ct) by (rewrite !app_length, !enc16_length; lia).
    rewrite (firstn_fit (repeat 0 (pad4 (length ct) - length ct)))
      by (rewrite !app_length, !enc16_length, repeat_length; lia).
    unfold auth_field, padz. rewrite <- !app_assoc. reflexivity.
  Qed.

  (* EncodePacket: no panic, no truncation, and the bytes are the wire format *)
  Theorem enc_packet_wire : forall (hdr uid : bytes) (cookies phs : list bytes) (key pt rnd : bytes),
    length hdr = 48%nat -> (32 <= length uid)%nat -> key_ok key = true -> length rnd = 16%nat ->
    (enc_len uid cookies phs pt <= MaxPacketLen)%nat ->
    enc_packet seal hdr uid cookies phs key pt rnd =
      Ok (pre_bytes hdr uid cookies phs ++
          auth_field rnd (seal key rnd (Some (pre_bytes hdr uid cookies phs)) pt)).
  Proof.
    intros hdr uid cookies phs key pt rnd Hh Hu Hk Hr Hfit.
    unfold enc_len, MaxPacketLen in Hfit. unfold enc_packet, MaxPacketLen, ntpPacketLen.
    rewrite Hh. cbn [Nat.eqb negb]. unfold pack_uid.
    replace (length uid <? 32)%nat with false by (symmetry; apply Nat.ltb_ge; lia).
    rewrite pack_field_ok by lia.
    rewrite pack_fields_ok by (try rewrite app_length, field_length; lia).
    rewrite pack_fields_ok by (try rewrite !app_length, field_length, fields_length; lia).
    assert (E : ((hdr ++ field extUniqueIdentifier uid) ++ fields extCookie cookies) ++ fields extCookiePlaceholder phs
                = pre_bytes hdr uid cookies phs) by (unfold pre_bytes; rewrite <- !app_assoc; reflexivity).
    rewrite E.
    apply pack_auth_ok; auto; try lia.
    rewrite pre_bytes_length by exact Hh. lia.
  Qed.

  (* ------------- the decoder reads the wire format ------------- *)
  Definition mkst (uid : bytes) (cs : list bytes) (nph : nat) (nonce ct : bytes) (pos : nat) (fu fa : bool) : dstate :=
    {| d_pkt := {| p_uid := uid; p_cookies := cs; p_nph := nph; p_nonce := nonce; p_ct := ct; p_pos := pos |};
       d_uid := fu; d_auth := fa |}.

  Lemma decode_step : forall f b pos s, decode_continue b pos s = true ->
    decode_loop (S f) b pos s =
    match decode_field b pos s with
    | Ok (next, s') => decode_loop f b next s'
    | Err e => Err e
    | Panic => Panic
    | OutOfFuel => OutOfFuel
    end.
  Proof. intros f b pos s H. simpl. rewrite H. reflexivity. Qed.

  Lemma decode_done : forall f b pos s, d_auth s = true -> decode_loop f b pos s = Ok s.
  Proof. intros f b pos s H. destruct f; simpl; unfold decode_continue; rewrite H, andb_false_r; reflexivity. Qed.

  Lemma continue_ok : forall (b pre mid post : bytes) pos s,
    b = pre ++ mid ++ post -> pos = length pre -> (28 <= length mid + length post)%nat -> d_auth s = false ->
    decode_continue b pos s = true.
  Proof.
    intros b pre mid post pos s Hb Hpos Hl Ha. unfold decode_continue. rewrite Ha. cbn [negb]. rewrite andb_true_r.
    apply Nat.leb_le. subst b pos. rewrite !app_length. lia.
  Qed.

  (* an extension field in place *)
  Lemma field_shape : forall (pre : bytes) t (v post b : bytes) pos,
    b = pre ++ field t v ++ post -> pos = length pre -> 0 <= t < 65536 -> Z.of_nat (field_len v) < 65536 ->
    be16 b pos = t /\ be16 b (pos + 2) = Z.of_nat (field_len v) /\ skipn (pos + 4) b = padz v ++ post.
  Proof.
    intros pre t v post b pos Hb Hpos Ht Hl. subst b pos. unfold field. rewrite <- !app_assoc.
    split; [apply be16_enc16; exact Ht|].
    split.
    - rewrite (app_assoc pre (enc16 t)).
      apply be16_enc16_at; [lia|]. rewrite app_length, enc16_length. reflexivity.
    - rewrite (app_assoc (enc16 t)), (app_assoc pre).
      apply skipn_app_exact. rewrite !app_length, !enc16_length. lia.
  Qed.

  Lemma dec_uid : forall (b pre v post : bytes) pos (u : bytes) (cs : list bytes) n (no ct : bytes) p fu,
    b = pre ++ field extUniqueIdentifier v ++ post -> pos = length pre ->
    (32 <= length v)%nat -> Z.of_nat (length b) < 65536 ->
    decode_field b pos (mkst u cs n no ct p fu false) =
      Ok ((pos + field_len v)%nat, mkst (padz v) cs n no ct p true false).
  Proof.
    intros b pre v post pos u cs n no ct p fu Hb Hpos Hv Hlen.
    assert (Hfl : Z.of_nat (field_len v) < 65536).
    { apply (f_equal (@length Z)) in Hb. rewrite !app_length, field_length in Hb. lia. }
    destruct (field_shape pre extUniqueIdentifier v post b pos Hb Hpos) as [E1 [E2 E3]];
      [unfold extUniqueIdentifier; lia|exact Hfl|].
    pose proof (pad4_bounds (length v)) as Hp.
    unfold decode_field. cbv zeta. rewrite E1, E2, E3.
    replace (Z.of_nat (field_len v) <? 4) with false by (symmetry; apply Z.ltb_ge; unfold field_len; lia).
    rewrite Z.eqb_refl.
    replace (Z.of_nat (field_len v) - 4 <? 32) with false by (symmetry; apply Z.ltb_ge; unfold field_len; lia).
    replace (Z.to_nat (Z.of_nat (field_len v) - 4)) with (length (padz v)) by (rewrite padz_length; unfold field_len; lia).
    rewrite take_pad_app_exact by reflexivity. rewrite Nat2Z.id. reflexivity.
  Qed.

  Lemma dec_cookie : forall (b pre v post : bytes) pos (u : bytes) (cs : list bytes) n (no ct : bytes) p fu,
    b = pre ++ field extCookie v ++ post -> pos = length pre -> Z.of_nat (length b) < 65536 ->
    decode_field b pos (mkst u cs n no ct p fu false) =
      Ok ((pos + field_len v)%nat, mkst u (cs ++ [padz v]) n no ct p fu false).
  Proof.
    intros b pre v post pos u cs n no ct p fu Hb Hpos Hlen.
    assert (Hfl : Z.of_nat (field_len v) < 65536).
    { apply (f_equal (@length Z)) in Hb. rewrite !app_length, field_length in Hb. lia. }
    destruct (field_shape pre extCookie v post b pos Hb Hpos) as [E1 [E2 E3]];
      [unfold extCookie; lia|exact Hfl|].
    pose proof (pad4_bounds (length v)) as Hp.
    unfold decode_field. cbv zeta. rewrite E1, E2, E3.
    replace (Z.of_nat (field_len v) <? 4) with false by (symmetry; apply Z.ltb_ge; unfold field_len; lia).
    change (extCookie =? extUniqueIdentifier) with false.
    change (extCookie =? extAuthenticator) with false.
    rewrite Z.eqb_refl.
    replace (Z.to_nat (Z.of_nat (field_len v) - 4)) with (length (padz v)) by (rewrite padz_length; unfold field_len; lia).
    rewrite take_pad_app_exact by reflexivity. rewrite Nat2Z.id. reflexivity.
  Qed.

  Lemma dec_ph : forall (b pre v post : bytes) pos (u : bytes) (cs : list bytes) n (no ct : bytes) p fu,
    b = pre ++ field extCookiePlaceholder v ++ post -> pos = length pre -> Z.of_nat (length b) < 65536 ->
    decode_field b pos (mkst u cs n no ct p fu false) =
      Ok ((pos + field_len v)%nat, mkst u cs (S n) no ct p fu false).
  Proof.
    intros b pre v post pos u cs n no ct p fu Hb Hpos Hlen.
    assert (Hfl : Z.of_nat (field_len v) < 65536).
    { apply (f_equal (@length Z)) in Hb. rewrite !app_length, field_length in Hb. lia. }
    destruct (field_shape pre extCookiePlaceholder v post b pos Hb Hpos) as [E1 [E2 E3]];
      [unfold extCookiePlaceholder; lia|exact Hfl|].
    unfold decode_field. cbv zeta. rewrite E1, E2.
    replace (Z.of_nat (field_len v) <? 4) with false by (symmetry; apply Z.ltb_ge; unfold field_len; lia).
    change (extCookiePlaceholder =? extUniqueIdentifier) with false.
    change (extCookiePlaceholder =? extAuthenticator) with false.
    change (extCookiePlaceholder =? extCookie) with false.
    rewrite Z.eqb_refl. rewrite Nat2Z.id. reflexivity.
  Qed.

  Lemma loop_cookies : forall (vs : list bytes) f (b pre post : bytes) pos (u : bytes) (cs : list bytes) n (no ct : bytes) p fu,
    b = pre ++ fields extCookie vs ++ post -> pos = length pre ->
    Z.of_nat (length b) < 65536 -> (28 <= length post)%nat ->
    decode_loop (length vs + f) b pos (mkst u cs n no ct p fu false) =
    decode_loop f b (pos + fields_len vs) (mkst u (cs ++ map padz vs) n no ct p fu false).
  Proof.
    induction vs as [|v r IH]; intros f b pre post pos u cs n no ct p fu Hb Hpos Hlen Hpost.
    - cbn [length map fields_len list_sum plus]. rewrite Nat.add_0_r, app_nil_r. reflexivity.
    - rewrite fields_cons, <- app_assoc in Hb.
      cbn [length plus].
      rewrite decode_step
        by (eapply continue_ok; [exact Hb|exact Hpos|rewrite app_length; lia|reflexivity]).
      rewrite (dec_cookie b pre v (fields extCookie r ++ post) pos) by assumption.
      rewrite (IH f b (pre ++ field extCookie v) post (pos + field_len v)%nat); try assumption.
      + rewrite fields_len_cons, Nat.add_assoc. cbn [map]. rewrite <- app_assoc. reflexivity.
      + rewrite Hb, <- app_assoc. reflexivity.
      + rewrite app_length, field_length. lia.
  Qed.

  Lemma loop_phs : forall (vs : list bytes) f (b pre post : bytes) pos (u : bytes) (cs : list bytes) n (no ct : bytes) p fu,
    b = pre ++ fields extCookiePlaceholder vs ++ post -> pos = length pre ->
    Z.of_nat (length b) < 65536 -> (28 <= length post)%nat ->
    decode_loop (length vs + f) b pos (mkst u cs n no ct p fu false) =
    decode_loop f b (pos + fields_len vs) (mkst u cs (n + length vs) no ct p fu false).
  Proof.
    induction vs as [|v r IH]; intros f b pre post pos u cs n no ct p fu Hb Hpos Hlen Hpost.
    - cbn [length fields_len map list_sum plus]. rewrite !Nat.add_0_r. reflexivity.
    - rewrite fields_cons, <- app_assoc in Hb.
      cbn [length plus].
      rewrite decode_step
        by (eapply continue_ok; [exact Hb|exact Hpos|rewrite app_length; lia|reflexivity]).
      rewrite (dec_ph b pre v (fields extCookiePlaceholder r ++ post) pos) by assumption.
      rewrite (IH f b (pre ++ field extCookiePlaceholder v) post (pos + field_len v)%nat); try assumption.
      + rewrite fields_len_cons, Nat.add_assoc. replace (S n + length r)%nat with (n + S (length r))%nat by lia. reflexivity.
      + rewrite Hb, <- app_assoc. reflexivity.
      + rewrite app_length, field_length. lia.
  Qed.

  Lemma dec_auth : forall (b pre nonce ct : bytes) pos (u : bytes) (cs : list bytes) n (no0 ct0 : bytes) p0 fu,
    b = pre ++ auth_field nonce ct -> pos = length pre -> length nonce = 16%nat ->
    Z.of_nat (length b) < 65536 ->
    decode_field b pos (mkst u cs n no0 ct0 p0 fu false) =
      Ok ((pos + (24 + pad4 (length ct)))%nat, mkst u cs n nonce ct pos fu true).
  Proof.
    intros b pre nonce ct pos u cs n no0 ct0 p0 fu Hb Hpos Hn Hlen.
    pose proof (pad4_bounds (length ct)) as Hp.
    assert (Hbl : length b = (length pre + (24 + pad4 (length ct)))%nat).
    { rewrite Hb, app_length, auth_field_length by exact Hn. reflexivity. }
    assert (E1 : be16 b pos = extAuthenticator).
    { subst b pos. unfold auth_field. apply be16_enc16. unfold extAuthenticator. lia. }
    assert (E2 : be16 b (pos + 2) = Z.of_nat (24 + pad4 (length ct))).
    { subst b pos. unfold auth_field. rewrite (app_assoc pre (enc16 extAuthenticator)).
      apply be16_enc16_at; [lia|]. rewrite app_length, enc16_length. reflexivity. }
    assert (E3 : be16 b (pos + 4) = 16).
    { subst b pos. unfold auth_field.
      rewrite (app_assoc (enc16 extAuthenticator)), (app_assoc pre).
      apply be16_enc16_at; [lia|]. rewrite !app_length, !enc16_length. lia. }
    assert (E4 : be16 b (pos + 4 + 2) = lenz ct).
    { subst b pos. unfold auth_field.
      rewrite (app_assoc (enc16 (Z.of_nat (24 + pad4 (length ct))))), (app_assoc (enc16 extAuthenticator)), (app_assoc pre).
      apply be16_enc16_at; [unfold lenz; lia|]. rewrite !app_length, !enc16_length. lia. }
    assert (E5 : skipn (pos + 4 + 4) b = nonce ++ padz ct).
    { subst b pos. unfold auth_field.
      rewrite (app_assoc (enc16 16)), (app_assoc (enc16 (Z.of_nat (24 + pad4 (length ct))))),
              (app_assoc (enc16 extAuthenticator)), (app_assoc pre).
      apply skipn_app_exact. rewrite !app_length, !enc16_length. lia. }
    assert (E6 : skipn (pos + 4 + 4 + 16) b = padz ct).
    { rewrite skipn_add, E5. apply skipn_app_exact. symmetry. exact Hn. }
    unfold decode_field. cbv zeta. rewrite E1, E2.
    replace (Z.of_nat (24 + pad4 (length ct)) <? 4) with false by (symmetry; apply Z.ltb_ge; lia).
    change (extAuthenticator =? extUniqueIdentifier) with false.
    rewrite Z.eqb_refl.
    unfold unpack_auth. cbv zeta. rewrite E3, E4, E5.
    change (Z.to_nat 16) with 16%nat.
    replace (Nat.min 16 (length b - (pos + 4 + 4))) with 16%nat by lia.
    rewrite E6.
    rewrite (take_pad_app_exact nonce (padz ct) 16) by (symmetry; exact Hn).
    unfold lenz. rewrite !Nat2Z.id. unfold padz at 1. rewrite take_pad_app_exact by reflexivity.
    reflexivity.
  Qed.

  (* DecodePacket of the wire format: exactly the encoder's unique identifier,
     cookies and placeholders (bodies zero-padded to a multiple of 4), nonce,
     ciphertext, and the authenticator at the end of the associated data *)
  Theorem decode_wire : forall (hdr uid : bytes) (cookies phs : list bytes) (nonce ct : bytes),
    length hdr = 48%nat -> (32 <= length uid)%nat -> length nonce = 16%nat -> (4 <= length ct)%nat ->
    (length (pre_bytes hdr uid cookies phs ++ auth_field nonce ct) <= MaxPacketLen)%nat ->
    decode_packet (pre_bytes hdr uid cookies phs ++ auth_field nonce ct) =
      Ok {| p_uid := padz uid; p_cookies := map padz cookies; p_nph := length phs;
            p_nonce := nonce; p_ct := ct; p_pos := length (pre_bytes hdr uid cookies phs) |}.
  Proof.
    intros hdr uid cookies phs nonce ct Hh Hu Hn Hc Hlen.
    set (pre := pre_bytes hdr uid cookies phs) in *. set (b := pre ++ auth_field nonce ct) in *.
    unfold MaxPacketLen in Hlen.
    assert (Hal : length (auth_field nonce ct) = (24 + pad4 (length ct))%nat) by (apply auth_field_length; exact Hn).
    assert (Hpl : length pre = (48 + field_len uid + fields_len cookies + fields_len phs)%nat)
      by (apply pre_bytes_length; exact Hh).
    assert (Hbl : length b = (length pre + (24 + pad4 (length ct)))%nat) by (unfold b; rewrite app_length, Hal; reflexivity).
    pose proof (pad4_bounds (length ct)) as Hp.
    pose proof (fields_len_ge cookies) as Hg1. pose proof (fields_len_ge phs) as Hg2.
    assert (B1 : b = hdr ++ field extUniqueIdentifier uid ++
                     (fields extCookie cookies ++ fields extCookiePlaceholder phs ++ auth_field nonce ct))
      by (unfold b, pre, pre_bytes; rewrite <- !app_assoc; reflexivity).
    assert (B2 : b = (hdr ++ field extUniqueIdentifier uid) ++ fields extCookie cookies ++
                     (fields extCookiePlaceholder phs ++ auth_field nonce ct))
      by (unfold b, pre, pre_bytes; rewrite <- !app_assoc; reflexivity).
    assert (B3 : b = (hdr ++ field extUniqueIdentifier uid ++ fields extCookie cookies) ++
                     fields extCookiePlaceholder phs ++ auth_field nonce ct)
      by (unfold b, pre, pre_bytes; rewrite <- !app_assoc; reflexivity).
    assert (B4 : b = pre ++ auth_field nonce ct ++ []) by (unfold b; rewrite app_nil_r; reflexivity).
    unfold decode_packet.
    replace (MaxPacketLen <? length b)%nat with false by (symmetry; apply Nat.ltb_ge; unfold MaxPacketLen; lia).
    change {| d_pkt := packet0; d_uid := false; d_auth := false |} with (mkst [] [] 0 [] [] 0 false false).
    replace (length b) with (S (length cookies + (length phs + S (length b - 2 - length cookies - length phs)))) at 1 by lia.
    (* unique identifier *)
    rewrite decode_step
      by (eapply continue_ok; [exact B1|unfold ntpPacketLen; lia|rewrite !app_length, Hal; lia|reflexivity]).
    rewrite (dec_uid b hdr uid _ ntpPacketLen) by (try exact B1; unfold ntpPacketLen; lia).
    (* cookies *)
    rewrite (loop_cookies cookies _ b (hdr ++ field extUniqueIdentifier uid)
                          (fields extCookiePlaceholder phs ++ auth_field nonce ct) (ntpPacketLen + field_len uid)%nat);
      [|exact B2|rewrite app_length, field_length; unfold ntpPacketLen; lia|lia|rewrite app_length, Hal; lia].
    (* placeholders *)
    rewrite (loop_phs phs _ b (hdr ++ field extUniqueIdentifier uid ++ fields extCookie cookies) (auth_field nonce ct)
                      (ntpPacketLen + field_len uid + fields_len cookies)%nat);
      [|exact B3|rewrite !app_length, field_length, fields_length; unfold ntpPacketLen; lia|lia|rewrite Hal; lia].
    (* authenticator *)
    rewrite decode_step
      by (eapply continue_ok; [exact B4|unfold ntpPacketLen; lia|rewrite Hal; cbn [length]; lia|reflexivity]).
    rewrite (dec_auth b pre nonce ct) by (try reflexivity; try exact Hn; unfold ntpPacketLen; lia).
    rewrite decode_done by reflexivity.
    cbn [mkst d_uid d_auth d_pkt negb app map plus].
    replace (ntpPacketLen + field_len uid + fields_len cookies + fields_len phs)%nat with (length pre)
      by (unfold ntpPacketLen; lia).
    reflexivity.
  Qed.

  (* ------------- the plaintext of a response ------------- *)
  Lemma plain_step : forall f b pos cs, (pos + 28 <= length b)%nat ->
    plain_loop (S f) b pos cs =
    if be16 b (pos + 2) <? 4 then Err EShortExtension else
    plain_loop f b (pos + Z.to_nat (be16 b (pos + 2)))
      (if be16 b pos =? extCookie then cs ++ [take_pad (Z.to_nat (be16 b (pos + 2) - 4)) (skipn (pos + 4) b)] else cs).
  Proof.
    intros f b pos cs H. simpl.
    replace (pos + 28 <=? length b)%nat with true by (symmetry; apply Nat.leb_le; exact H). reflexivity.
  Qed.

  Lemma plain_stop : forall f b pos cs, (length b < pos + 28)%nat -> plain_loop f b pos cs = Ok cs.
  Proof.
    intros f b pos cs H.
    destruct f; simpl; replace (pos + 28 <=? length b)%nat with false by (symmetry; apply Nat.leb_gt; exact H); reflexivity.
  Qed.

  (* the loop of authenticate over a concatenation of cookie fields never fails;
     it keeps the cookies whose field starts at least 28 bytes before the end -
     all of them when every cookie body has 24 bytes or more *)
  Lemma plain_fields : forall (vs : list bytes) fuel (pre : bytes) (acc : list bytes) (b : bytes),
    b = pre ++ fields extCookie vs -> Z.of_nat (length b) < 65536 -> (length vs <= fuel)%nat ->
    exists k, plain_loop fuel b (length pre) acc = Ok (acc ++ map padz (firstn k vs)) /\
              (Forall (fun v => 24 <= length v)%nat vs -> k = length vs).
  Proof.
    induction vs as [|v r IH]; intros fuel pre acc b Hb Hlen Hf.
    - exists 0%nat. split; [|reflexivity]. cbn [firstn map]. rewrite app_nil_r.
      apply plain_stop. rewrite Hb. cbn [fields flat_map]. rewrite app_nil_r. lia.
    - destruct (le_lt_dec (length pre + 28) (length b)) as [Hc|Hc].
      + destruct fuel as [|f]; [cbn [length] in Hf; lia|].
        rewrite fields_cons in Hb.
        assert (Hfl : Z.of_nat (field_len v) < 65536).
        { apply (f_equal (@length Z)) in Hb. rewrite !app_length, field_length in Hb. lia. }
        destruct (field_shape pre extCookie v (fields extCookie r) b (length pre) Hb eq_refl) as [E1 [E2 E3]];
          [unfold extCookie; lia|exact Hfl|].
        pose proof (pad4_bounds (length v)) as Hp.
        rewrite plain_step by exact Hc. rewrite E1, E2, E3.
        replace (Z.of_nat (field_len v) <? 4) with false by (symmetry; apply Z.ltb_ge; unfold field_len; lia).
        rewrite Z.eqb_refl.
        replace (Z.to_nat (Z.of_nat (field_len v) - 4)) with (length (padz v)) by (rewrite padz_length; unfold field_len; lia).
        rewrite take_pad_app_exact by reflexivity. rewrite Nat2Z.id.
        destruct (IH f (pre ++ field extCookie v) (acc ++ [padz v]) b) as [k [Hk1 Hk2]].
        * rewrite Hb, <- app_assoc. reflexivity.
        * exact Hlen.
        * cbn [length] in Hf. lia.
        * exists (S k). split.
          -- rewrite app_length, field_length in Hk1. rewrite Hk1. cbn [firstn map]. rewrite <- app_assoc. reflexivity.
          -- intro Hall. inversion Hall; subst. cbn [length]. f_equal. apply Hk2. assumption.
      + exists 0%nat. split.
        * cbn [firstn map]. rewrite app_nil_r. apply plain_stop. exact Hc.
        * intro Hall. inversion Hall as [|x l Hx Hl]; subst. exfalso.
          rewrite fields_cons, !app_length, field_length in Hc. unfold field_len in Hc.
          pose proof (pad4_bounds (length v)). lia.
  Qed.

  (* ------------- acceptance ------------- *)
  (* every packet that EncodePacket emits (within 1024 bytes) decodes to exactly
     what was encoded and passes ProcessRequest under the sealing key and
     ProcessResponse under the sealing key with the (padded) unique identifier,
     whenever the fields inside the plaintext are well formed *)
  Theorem encoder_accepted : forall (hdr uid : bytes) (cookies phs : list bytes) (key pt rnd : bytes) (cs : list bytes),
    length hdr = 48%nat -> (32 <= length uid)%nat -> key_ok key = true -> length rnd = 16%nat ->
    (enc_len uid cookies phs pt <= MaxPacketLen)%nat ->
    plain_loop (length pt) pt 0 (map padz cookies) = Ok cs ->
    let pre := pre_bytes hdr uid cookies phs in
    let ct := seal key rnd (Some pre) pt in
    let b := pre ++ auth_field rnd ct in
    let p := {| p_uid := padz uid; p_cookies := map padz cookies; p_nph := length phs;
                p_nonce := rnd; p_ct := ct; p_pos := length pre |} in
    let p' := {| p_uid := padz uid; p_cookies := cs; p_nph := length phs;
                 p_nonce := rnd; p_ct := ct; p_pos := length pre |} in
    enc_packet seal hdr uid cookies phs key pt rnd = Ok b /\
    decode_packet b = Ok p /\ firstn (length pre) b = pre /\
    server_accept open b key = Ok p' /\
    client_accept open b key (padz uid) = Ok p'.
  Proof.
    intros hdr uid cookies phs key pt rnd cs Hh Hu Hk Hr Hfit Hpl pre ct b p p'.
    assert (Hct : length ct = (16 + length pt)%nat) by apply seal_len.
    assert (Hbl : length b = enc_len uid cookies phs pt).
    { unfold b. rewrite app_length, auth_field_length by exact Hr. unfold pre. rewrite pre_bytes_length by exact Hh.
      unfold enc_len, auth_len. rewrite Hct. lia. }
    assert (Hd : decode_packet b = Ok p).
    { unfold b, p, pre. apply decode_wire; auto; try lia. fold pre. fold ct. fold b. lia. }
    assert (Hpre : firstn (length pre) b = pre) by (unfold b; apply firstn_app_exact; reflexivity).
    assert (Ha : authenticate open b key p = Ok p').
    { unfold authenticate, p. cbn [p_nonce p_pos p_ct p_cookies p_uid p_nph].
      rewrite Hk, Hr. cbn [negb Nat.eqb].
      replace (length b <? length pre)%nat with false by (symmetry; apply Nat.ltb_ge; unfold b; rewrite app_length; lia).
      rewrite Hpre. unfold ct. rewrite open_seal, Hpl. reflexivity. }
    split; [apply enc_packet_wire; assumption|].
    split; [exact Hd|]. split; [exact Hpre|].
    split.
    - unfold server_accept. rewrite Hd. exact Ha.
    - unfold client_accept. rewrite Hd. unfold process_response. cbn [p_uid p].
      replace (bytes_eqb (padz uid) (padz uid)) with true by (symmetry; apply bytes_eqb_eq; reflexivity).
      exact Ha.
  Qed.

  (* a client that compares with an identifier whose length is not a multiple of
     4 rejects: the identifier read back from the wire is the padded one *)
  Theorem unpadded_uid_rejected : forall (hdr uid : bytes) (cookies phs : list bytes) (key pt rnd : bytes),
    length hdr = 48%nat -> (32 <= length uid)%nat -> key_ok key = true -> length rnd = 16%nat ->
    (enc_len uid cookies phs pt <= MaxPacketLen)%nat -> (length uid mod 4 <> 0)%nat ->
    let pre := pre_bytes hdr uid cookies phs in
    let b := pre ++ auth_field rnd (seal key rnd (Some pre) pt) in
    client_accept open b key uid = Err EUnexpectedResponseID.
  Proof.
    intros hdr uid cookies phs key pt rnd Hh Hu Hk Hr Hfit Hm pre b.
    set (ct := seal key rnd (Some pre) pt) in *.
    assert (Hct : length ct = (16 + length pt)%nat) by apply seal_len.
    assert (Hbl : length b = enc_len uid cookies phs pt).
    { unfold b. rewrite app_length, auth_field_length by exact Hr. unfold pre. rewrite pre_bytes_length by exact Hh.
      unfold enc_len, auth_len. rewrite Hct. lia. }
    assert (Hd : decode_packet b = Ok {| p_uid := padz uid; p_cookies := map padz cookies; p_nph := length phs;
                  p_nonce := rnd; p_ct := ct; p_pos := length pre |}).
    { unfold b, pre. apply decode_wire; auto; try lia. fold pre. fold b. lia. }
    unfold client_accept. rewrite Hd. unfold process_response. cbn [p_uid].
    destruct (bytes_eqb uid (padz uid)) eqn:E; [|reflexivity].
    apply bytes_eqb_eq in E. apply (f_equal (@length Z)) in E. rewrite padz_length in E.
    exfalso. apply Hm. rewrite E. apply pad4_mod.
  Qed.

  (* ------------- requests: NewRequestPacket + EncodePacket ------------- *)
  Theorem request_accepted : forall (kecookies cookies phs : list bytes) (hdr uid key rnd : bytes),
    new_request kecookies = Ok (cookies, phs) ->
    length hdr = 48%nat -> (32 <= length uid)%nat -> key_ok key = true -> length rnd = 16%nat ->
    (enc_len uid cookies phs [] <= MaxPacketLen)%nat ->
    let pre := pre_bytes hdr uid cookies phs in
    let ct := seal key rnd (Some pre) [] in
    let b := pre ++ auth_field rnd ct in
    let p := {| p_uid := padz uid; p_cookies := map padz cookies; p_nph := length phs;
                p_nonce := rnd; p_ct := ct; p_pos := length pre |} in
    enc_packet seal hdr uid cookies phs key [] rnd = Ok b /\
    decode_packet b = Ok p /\ firstn (length pre) b = pre /\
    server_accept open b key = Ok p.
  Proof.
    intros kecookies cookies phs hdr uid key rnd _ Hh Hu Hk Hr Hfit pre ct b p.
    destruct (encoder_accepted hdr uid cookies phs key [] rnd (map padz cookies) Hh Hu Hk Hr Hfit eq_refl)
      as [A [B [C [D _]]]].
    repeat split; assumption.
  Qed.

  (* a request as the client builds it (32-byte identifier from newID, a cookie
     of at most 896 bytes - larger ones are refused by the key exchange) always
     fits into 1024 bytes *)
  Lemma fields_len_repeat : forall v n, fields_len (repeat v n) = (n * field_len v)%nat.
  Proof. intros v n. induction n as [|n IH]; [reflexivity|]. cbn [repeat]. rewrite fields_len_cons, IH. lia. Qed.

  Lemma new_request_shape : forall (c : bytes) (rest cookies phs : list bytes),
    new_request (c :: rest) = Ok (cookies, phs) ->
    cookies = [c] /\ exists n, phs = repeat (repeat 0 (length c)) n /\
                               Z.of_nat n <= Z.max 0 (max_cookies 32 (length c) - 1).
  Proof.
    intros c rest cookies phs H. unfold new_request in H. cbv zeta in H. injection H as H1 H2.
    split; [symmetry; exact H1|]. eexists. split; [symmetry; exact H2|].
    match goal with |- context [if ?t then _ else _] => destruct t eqn:E end; lia.
  Qed.

  Lemma max_cookies_bound : forall L, (L <= 896)%nat ->
    1 <= max_cookies 32 L /\ max_cookies 32 L * Z.of_nat (4 + pad4 L) <= 900.
  Proof.
    intros L HL. unfold max_cookies. change (pad4 32) with 32%nat.
    change (1024 - 48 - (4 + Z.of_nat 32) - 40) with 900.
    replace (4 + Z.of_nat (pad4 L)) with (Z.of_nat (4 + pad4 L)) by lia.
    assert (HF : 0 < Z.of_nat (4 + pad4 L) <= 900) by (pose proof (pad4_Z L); lia).
    set (F := Z.of_nat (4 + pad4 L)) in *.
    rewrite Z.quot_div_nonneg by lia.
    split; [apply Z.div_le_lower_bound; lia|rewrite Z.mul_comm; apply Z.mul_div_le; lia].
  Qed.

  Theorem request_fits : forall (c : bytes) (rest cookies phs : list bytes) (uid : bytes),
    new_request (c :: rest) = Ok (cookies, phs) -> length uid = 32%nat -> (length c <= 896)%nat ->
    (enc_len uid cookies phs [] <= MaxPacketLen)%nat.
  Proof.
    intros c rest cookies phs uid H Hu Hc.
    destruct (new_request_shape c rest cookies phs H) as [H1 [n [H2 Hn]]]. subst cookies phs.
    destruct (max_cookies_bound (length c) Hc) as [Hm1 Hm2].
    unfold enc_len, auth_len, MaxPacketLen. rewrite fields_len_repeat.
    rewrite fields_len_cons, fields_len_nil. cbn [length]. unfold field_len. rewrite repeat_length, Hu.
    change (pad4 32) with 32%nat. change (pad4 (16 + 0)) with 16%nat.
    assert (Hprod : Z.of_nat (n * (4 + pad4 (length c))) <= (max_cookies 32 (length c) - 1) * Z.of_nat (4 + pad4 (length c))).
    { rewrite Nat2Z.inj_mul. apply Z.mul_le_mono_nonneg_r; lia. }
    lia.
  Qed.

  (* ------------- responses: NewResponsePacket + EncodePacket ------------- *)
  (* the cookies NewResponsePacket keeps *)
  Definition resp_cookies (cookies : list bytes) (uid : bytes) : list bytes :=
    match cookies with
    | [] => []
    | c0 :: _ =>
        let n := max_cookies (length uid) (length c0) in
        if (1 <=? n) && (n <? Z.of_nat (length cookies)) then firstn (Z.to_nat n) cookies else cookies
    end.

  Lemma new_response_eq : forall (c0 : bytes) (rest : list bytes) (uid : bytes),
    new_response (c0 :: rest) uid =
    let cs := resp_cookies (c0 :: rest) uid in
    match pack_fields (length cs * (4 + length c0)) [] extCookie cs with
    | Ok acc => Ok (acc ++ repeat 0 (length cs * (4 + length c0) - length acc))
    | o => o
    end.
  Proof. reflexivity. Qed.

  (* cookies of the issued shape: all of one length, a multiple of 4 (the
     encoded encrypted server cookie has 124 bytes for 32-byte keys) *)
  Definition same_shape (cookies : list bytes) (L : nat) : Prop :=
    Forall (fun c : bytes => length c = L) cookies /\ (L mod 4 = 0)%nat.

  Lemma Forall_firstn_b : forall (P : bytes -> Prop) n l, Forall P l -> Forall P (firstn n l).
  Proof.
    induction n as [|n IH]; intros l H; [constructor|].
    destruct l as [|x l]; [constructor|]. inversion H; subst. cbn [firstn]. constructor; auto.
  Qed.

  Lemma resp_cookies_shape : forall (c0 : bytes) (rest : list bytes) (uid : bytes) L,
    Forall (fun c : bytes => length c = L) (c0 :: rest) ->
    Forall (fun c : bytes => length c = L) (resp_cookies (c0 :: rest) uid).
  Proof.
    intros c0 rest uid L Hall. unfold resp_cookies. cbv zeta.
    destruct ((1 <=? max_cookies (length uid) (length c0)) && (max_cookies (length uid) (length c0) <? Z.of_nat (length (c0 :: rest))));
      [apply Forall_firstn_b; exact Hall|exact Hall].
  Qed.

  Lemma fields_len_same : forall (vs : list bytes) L, Forall (fun c : bytes => length c = L) vs -> (L mod 4 = 0)%nat ->
    fields_len vs = (length vs * (4 + L))%nat.
  Proof.
    intros vs L H Hm. induction H as [|v r Hv Hr IH]; [reflexivity|].
    rewrite fields_len_cons, IH. unfold field_len. rewrite Hv, pad4_mult by exact Hm. cbn [length]. lia.
  Qed.

  Lemma map_padz_id : forall (vs : list bytes) L, Forall (fun c : bytes => length c = L) vs -> (L mod 4 = 0)%nat ->
    map padz vs = vs.
  Proof.
    intros vs L H Hm. induction H as [|v r Hv Hr IH]; [reflexivity|].
    cbn [map]. rewrite IH, padz_mult by (rewrite Hv; exact Hm). reflexivity.
  Qed.

  Lemma new_response_plain : forall (c0 : bytes) (rest : list bytes) (uid : bytes) L,
    same_shape (c0 :: rest) L -> Z.of_nat (fields_len (resp_cookies (c0 :: rest) uid)) < 65536 ->
    new_response (c0 :: rest) uid = Ok (fields extCookie (resp_cookies (c0 :: rest) uid)).
  Proof.
    intros c0 rest uid L [Hall Hm] Hsz.
    assert (HL : length c0 = L) by (inversion Hall; assumption).
    pose proof (resp_cookies_shape c0 rest uid L Hall) as Hcs.
    pose proof (fields_len_same _ L Hcs Hm) as Hfl.
    rewrite new_response_eq. cbv zeta.
    set (cs := resp_cookies (c0 :: rest) uid) in *.
    rewrite pack_fields_ok; [|cbn [length plus]; rewrite Hfl, HL; lia|exact Hsz].
    cbn [app]. rewrite fields_length, Hfl, HL, Nat.sub_diag. cbn [repeat]. rewrite app_nil_r. reflexivity.
  Qed.

  Theorem response_accepted : forall (c0 : bytes) (rest : list bytes) (uid : bytes) L (hdr key rnd : bytes),
    same_shape (c0 :: rest) L ->
    length hdr = 48%nat -> (32 <= length uid)%nat -> key_ok key = true -> length rnd = 16%nat ->
    let pt := fields extCookie (resp_cookies (c0 :: rest) uid) in
    (enc_len uid [] [] pt <= MaxPacketLen)%nat ->
    let pre := pre_bytes hdr uid [] [] in
    let ct := seal key rnd (Some pre) pt in
    let b := pre ++ auth_field rnd ct in
    new_response (c0 :: rest) uid = Ok pt /\
    enc_packet seal hdr uid [] [] key pt rnd = Ok b /\
    decode_packet b = Ok {| p_uid := padz uid; p_cookies := []; p_nph := 0;
                            p_nonce := rnd; p_ct := ct; p_pos := length pre |} /\
    firstn (length pre) b = pre /\
    exists k,
      client_accept open b key (padz uid) =
        Ok {| p_uid := padz uid; p_cookies := firstn k (resp_cookies (c0 :: rest) uid); p_nph := 0;
              p_nonce := rnd; p_ct := ct; p_pos := length pre |} /\
      ((24 <= L)%nat -> k = length (resp_cookies (c0 :: rest) uid)).
  Proof.
    intros c0 rest uid L hdr key rnd Hs Hh Hu Hk Hr pt Hfit pre ct b.
    destruct Hs as [Hall Hm].
    pose proof (resp_cookies_shape c0 rest uid L Hall) as Hcs.
    set (cs := resp_cookies (c0 :: rest) uid) in *.
    assert (Hptl : length pt = fields_len cs) by (unfold pt; apply fields_length).
    assert (Hsz : (fields_len cs <= 1024)%nat).
    { unfold enc_len, auth_len, MaxPacketLen in Hfit. rewrite Hptl in Hfit.
      pose proof (pad4_bounds (16 + fields_len cs)). lia. }
    assert (Hnr : new_response (c0 :: rest) uid = Ok pt).
    { unfold pt, cs. apply (new_response_plain c0 rest uid L); [split; assumption|fold cs; lia]. }
    destruct (plain_fields cs (length pt) [] [] pt) as [k [Hk1 Hk2]].
    - reflexivity.
    - lia.
    - pose proof (fields_len_ge cs). lia.
    - cbn [length app] in Hk1.
      assert (Hid : map padz (firstn k cs) = firstn k cs).
      { apply (map_padz_id _ L); [apply Forall_firstn_b; exact Hcs|exact Hm]. }
      rewrite Hid in Hk1.
      destruct (encoder_accepted hdr uid [] [] key pt rnd (firstn k cs) Hh Hu Hk Hr Hfit Hk1) as [A [B [C [_ E]]]].
      split; [exact Hnr|]. split; [exact A|]. split; [exact B|]. split; [exact C|].
      exists k. split; [exact E|]. intro H24. apply Hk2.
      eapply Forall_impl; [|exact Hcs]. intros a Ha. cbn beta in Ha. lia.
  Qed.

  (* the response fits into 1024 bytes whenever there is room for one cookie:
     NewResponsePacket cuts the list to maxCookies *)
  Theorem response_fits : forall (c0 : bytes) (rest : list bytes) (uid : bytes) L,
    same_shape (c0 :: rest) L -> 1 <= max_cookies (length uid) L ->
    (enc_len uid [] [] (fields extCookie (resp_cookies (c0 :: rest) uid)) <= MaxPacketLen)%nat.
  Proof.
    intros c0 rest uid L [Hall Hm] Hmx.
    assert (HL : length c0 = L) by (inversion Hall; assumption).
    pose proof (resp_cookies_shape c0 rest uid L Hall) as Hcs.
    pose proof (fields_len_same _ L Hcs Hm) as Hfl.
    assert (Hn : Z.of_nat (length (resp_cookies (c0 :: rest) uid)) <= max_cookies (length uid) L).
    { unfold resp_cookies. cbv zeta. rewrite HL.
      destruct ((1 <=? max_cookies (length uid) L) && (max_cookies (length uid) L <? Z.of_nat (length (c0 :: rest)))) eqn:E.
      - rewrite firstn_length. lia.
      - apply andb_false_iff in E. destruct E as [E|E]; [apply Z.leb_gt in E; lia|apply Z.ltb_ge in E; lia]. }
    set (cs := resp_cookies (c0 :: rest) uid) in *.
    unfold enc_len, auth_len, MaxPacketLen. rewrite fields_length, Hfl.
    rewrite !fields_len_nil. unfold field_len.
    assert (Hp4 : pad4 (16 + length cs * (4 + L)) = (16 + length cs * (4 + L))%nat).
    { apply pad4_mult. apply Nat.mod_divides in Hm; [|lia]. destruct Hm as [q Hq].
      apply Nat.mod_divides; [lia|]. exists (4 + length cs * (1 + q))%nat. subst L. lia. }
    rewrite Hp4.
    unfold max_cookies in Hn, Hmx. rewrite (pad4_mult L) in Hn, Hmx by exact Hm.
    set (A := 1024 - 48 - (4 + Z.of_nat (pad4 (length uid))) - 40) in *.
    set (F := 4 + Z.of_nat L) in *.
    assert (HF : 0 < F) by (unfold F; lia).
    assert (HA : 0 <= A).
    { destruct (Z_lt_le_dec A 0) as [Hneg|Hpos]; [|exact Hpos]. exfalso.
      pose proof (Z.quot_pos (- A) F ltac:(lia) HF) as Hq.
      rewrite Z.quot_opp_l in Hq by lia. lia. }
    rewrite Z.quot_div_nonneg in Hn, Hmx by lia.
    pose proof (Z.mul_div_le A F HF) as Hmd.
    assert (Hprod : Z.of_nat (length cs * (4 + L)) <= A).
    { rewrite Nat2Z.inj_mul. replace (Z.of_nat (4 + L)) with F by (unfold F; lia).
      apply Z.le_trans with (A / F * F); [apply Z.mul_le_mono_nonneg_r; lia|lia]. }
    unfold A in Hprod. lia.
  Qed.
End Complete.

(* ------------- the statement exported to Props/C10.v ------------- *)
(* every packet produced by the project's own encoder for the same keys is accepted *)
Lemma c10_complete : forall seal open, ideal_aead seal open ->
  (* a request: NewRequestPacket (identifier of 32 bytes from newID, first cookie
     of the key exchange, which lets through cookies of at most 896 bytes) encoded by
     EncodePacket under the C2S key, received by DecodePacket + ProcessRequest *)
  (forall (c : bytes) (rest cookies phs : list bytes) (hdr uid key rnd : bytes),
     new_request (c :: rest) = Ok (cookies, phs) -> (length c <= 896)%nat ->
     length hdr = 48%nat -> length uid = 32%nat -> key_ok key = true -> length rnd = 16%nat ->
     exists b p,
       enc_packet seal hdr uid cookies phs key [] rnd = Ok b /\ (length b <= MaxPacketLen)%nat /\
       decode_packet b = Ok p /\
       p_uid p = uid /\ p_nonce p = rnd /\ p_ct p = seal key rnd (Some (firstn (p_pos p) b)) [] /\
       server_accept open b key = Ok p) /\
  (* a response: NewResponsePacket for cookies of the issued shape (one length, a
     multiple of 4) and the identifier of the request, encoded by EncodePacket
     under the S2C key, received by DecodePacket + ProcessResponse of the client
     whose outstanding request carries that identifier *)
  (forall (c0 : bytes) (rest : list bytes) L (pt hdr uid key rnd : bytes),
     Forall (fun c : bytes => length c = L) (c0 :: rest) -> (L mod 4 = 0)%nat ->
     new_response (c0 :: rest) uid = Ok pt ->
     (32 <= length uid)%nat -> (length uid mod 4 = 0)%nat -> 1 <= max_cookies (length uid) L ->
     length hdr = 48%nat -> key_ok key = true -> length rnd = 16%nat ->
     exists b p p',
       enc_packet seal hdr uid [] [] key pt rnd = Ok b /\ (length b <= MaxPacketLen)%nat /\
       decode_packet b = Ok p /\
       p_uid p = uid /\ p_nonce p = rnd /\ p_ct p = seal key rnd (Some (firstn (p_pos p) b)) pt /\
       client_accept open b key uid = Ok p' /\
       ((24 <= L)%nat -> p_cookies p' = resp_cookies (c0 :: rest) uid)).
Proof.
  intros seal open [A [_ [_ D]]]. split.
  - intros c rest cookies phs hdr uid key rnd Hnr Hc Hh Hu Hk Hr.
    pose proof (request_fits seal open A D c rest cookies phs uid Hnr Hu Hc) as Hfit.
    assert (Hu32 : (32 <= length uid)%nat) by lia.
    destruct (request_accepted seal open A D (c :: rest) cookies phs hdr uid key rnd Hnr Hh Hu32 Hk Hr Hfit)
      as [E1 [E2 [E3 E4]]].
    assert (Hpz : padz uid = uid) by (apply padz_mult; rewrite Hu; reflexivity).
    eexists. eexists. split; [exact E1|]. split.
    { rewrite app_length, auth_field_length by exact Hr. rewrite pre_bytes_length by exact Hh.
      rewrite D. unfold enc_len, auth_len in Hfit. cbn [length] in *. lia. }
    split; [exact E2|]. cbn [p_uid p_nonce p_ct p_pos].
    split; [exact Hpz|]. split; [reflexivity|]. split; [rewrite E3; reflexivity|exact E4].
  - intros c0 rest L pt hdr uid key rnd Hall Hm Hnr Hu Hum Hmx Hh Hk Hr.
    assert (Hs : same_shape (c0 :: rest) L) by (split; assumption).
    pose proof (response_fits seal open A D c0 rest uid L Hs Hmx) as Hfit.
    destruct (response_accepted seal open A D c0 rest uid L hdr key rnd Hs Hh Hu Hk Hr Hfit)
      as [E0 [E1 [E2 [E3 [k [E4 E5]]]]]].
    rewrite E0 in Hnr. inversion Hnr; subst pt. clear Hnr.
    assert (Hpz : padz uid = uid) by (apply padz_mult; exact Hum).
    rewrite Hpz in E4 at 1.
    eexists. eexists. eexists. split; [exact E1|]. split.
    { rewrite app_length, auth_field_length by exact Hr. rewrite pre_bytes_length by exact Hh.
      rewrite D. unfold enc_len, auth_len in Hfit. rewrite !fields_len_nil in *. lia. }
    split; [exact E2|]. cbn [p_uid p_nonce p_ct p_pos].
    split; [exact Hpz|]. split; [reflexivity|]. split; [rewrite E3; reflexivity|].
    split; [exact E4|]. intro H24. cbn [p_cookies]. rewrite (E5 H24). apply firstn_all.
Qed.

(* general form: any identifier, cookies, placeholders and plaintext *)
Lemma c10_complete_encoder : forall seal open, ideal_aead seal open ->
  forall (hdr uid : bytes) (cookies phs : list bytes) (key pt rnd : bytes) (cs : list bytes),
  length hdr = 48%nat -> (32 <= length uid)%nat -> key_ok key = true -> length rnd = 16%nat ->
  (enc_len uid cookies phs pt <= MaxPacketLen)%nat ->
  plain_loop (length pt) pt 0 (map padz cookies) = Ok cs ->
  let pre := pre_bytes hdr uid cookies phs in
  let ct := seal key rnd (Some pre) pt in
  let b := pre ++ auth_field rnd ct in
  let p := {| p_uid := padz uid; p_cookies := map padz cookies; p_nph := length phs;
              p_nonce := rnd; p_ct := ct; p_pos := length pre |} in
  let p' := {| p_uid := padz uid; p_cookies := cs; p_nph := length phs;
               p_nonce := rnd; p_ct := ct; p_pos := length pre |} in
  enc_packet seal hdr uid cookies phs key pt rnd = Ok b /\
  decode_packet b = Ok p /\ firstn (length pre) b = pre /\
  server_accept open b key = Ok p' /\
  client_accept open b key (padz uid) = Ok p'.
Proof. intros seal open [A [_ [_ D]]]. intros. apply encoder_accepted; assumption. Qed.

Lemma c10_unpadded_uid : forall seal open, ideal_aead seal open ->
  forall (hdr uid : bytes) (cookies phs : list bytes) (key pt rnd : bytes),
  length hdr = 48%nat -> (32 <= length uid)%nat -> key_ok key = true -> length rnd = 16%nat ->
  (enc_len uid cookies phs pt <= MaxPacketLen)%nat -> (length uid mod 4 <> 0)%nat ->
  let pre := pre_bytes hdr uid cookies phs in
  let b := pre ++ auth_field rnd (seal key rnd (Some pre) pt) in
  client_accept open b key uid = Err EUnexpectedResponseID.
Proof. intros seal open [A [_ [_ D]]]. intros. apply (unpadded_uid_rejected seal open); assumption. Qed.
