(* Proofs about the model of base/crypto (Model/Sample.v): rejection sampling
   (range, first accepted word, residue classes of the accepted words) and the
   shape of the pick calls of Sample. *)
From ST Require Import Base.Ints Model.Sample.
From Coq Require Import Sorting.Sorted.
Open Scope Z_scope.

Definition word (x : Z) : Prop := 0 <= x < two32.
Definition words (l : list Z) : Prop := Forall word l.

(* ---- thresholds ---- *)
Lemma thresh31_eq n : 2 <= n <= max_i32 -> thresh31 n = two32 mod n.
Proof.
  intros Hn. unfold thresh31, u32, max_i32, two32 in *.
  assert (H1 : (- n) mod 4294967296 = 4294967296 - n).
  { symmetry. apply (Z.mod_unique _ _ (-1)); lia. }
  assert (H2 : n mod 4294967296 = n) by (apply Z.mod_small; lia).
  rewrite H1, H2. rewrite Z.rem_mod_nonneg by lia.
  replace (4294967296 - n) with (4294967296 + (-1) * n) by lia.
  apply Z_mod_plus_full.
Qed.

Lemma thresh31_range n : 2 <= n <= max_i32 -> 0 <= thresh31 n < n.
Proof. intros Hn. rewrite thresh31_eq by exact Hn. apply Z.mod_pos_bound. lia. Qed.

Lemma thresh63_range n : 2 <= n <= max_i64 -> 0 <= thresh63 n < n.
Proof.
  intros Hn. unfold thresh63, u64, max_i64 in *.
  assert (H2 : n mod 18446744073709551616 = n) by (apply Z.mod_small; lia).
  rewrite H2.
  assert (H1 : 0 <= (- n) mod 18446744073709551616) by (apply Z.mod_pos_bound; lia).
  rewrite Z.rem_mod_nonneg by lia. apply Z.mod_pos_bound. lia.
Qed.

Lemma rem_range x n : 0 <= x -> 0 < n -> 0 <= Z.rem x n < n.
Proof. intros Hx Hn. rewrite Z.rem_mod_nonneg by lia. apply Z.mod_pos_bound. lia. Qed.

(* ---- the rejection loop: the result is the residue of the first accepted word ---- *)
(* the words read by a draw: a prefix of rejected words and the accepted one *)
Lemma loop31_spec n t c d tape v rest :
  loop31 n t c d tape = Ok (v, rest) ->
  exists pre x,
    ((tape = pre ++ x :: rest) \/ (tape = pre /\ rest = [] /\ x = d))
    /\ Forall (fun y => y <= t) pre /\ t < x /\ v = Z.rem x (u32 n)
    /\ (c = true -> pre = []).
Proof.
  revert v rest. induction tape as [|x r IH]; intros v rest; cbn [loop31].
  - destruct (t <? d) eqn:E.
    + intros H. inversion H; subst. exists [], d. repeat split; auto. lia.
    + destruct c; discriminate.
  - destruct (t <? x) eqn:E.
    + intros H. inversion H; subst. exists [], x. repeat split; auto. lia.
    + destruct c; [discriminate|]. intros H. destruct (IH _ _ H) as [pre [y [Hs [Hf [Ht [Hv Hc]]]]]].
      exists (x :: pre), y. repeat split; auto.
      * destruct Hs as [Hs|[Hs [Hr Hy]]]; [left; rewrite Hs; reflexivity|right; subst; auto].
      * constructor; [lia|exact Hf].
      * discriminate.
Qed.

Lemma loop31_range n t c d tape v rest :
  0 < n < two32 -> words tape -> word d ->
  loop31 n t c d tape = Ok (v, rest) -> 0 <= v < n /\ words rest.
Proof.
  intros Hn Hw Hd. revert v rest. induction Hw as [|x r Hx Hw IH]; intros v rest; cbn [loop31].
  - destruct (t <? d); [|destruct c; discriminate]. intros H. inversion H; subst.
    split; [|constructor]. unfold u32. rewrite Z.mod_small by (unfold two32 in *; lia).
    apply rem_range; unfold word in *; lia.
  - destruct (t <? x).
    + intros H. inversion H; subst. split; [|exact Hw]. unfold u32. rewrite Z.mod_small by (unfold two32 in *; lia).
      apply rem_range; unfold word in *; lia.
    + destruct c; [discriminate|]. apply IH.
Qed.

Lemma w64_range x y : word x -> word y -> 0 <= w64 x y < two64.
Proof. unfold word, w64, two32, two64. lia. Qed.

Lemma loop63_range n t c d tape v rest :
  0 < n < two64 -> words tape -> word d ->
  loop63 n t c d tape = Ok (v, rest) -> 0 <= v < n /\ words rest.
Proof.
  intros Hn Hw Hd.
  assert (Hu : u64 n = n) by (unfold u64; apply Z.mod_small; unfold two64 in *; lia).
  assert (Hr : forall x y, word x -> word y -> 0 <= Z.rem (w64 x y) (u64 n) < n).
  { intros x y Hx Hy. rewrite Hu. apply rem_range; [|lia]. apply (w64_range x y Hx Hy). }
  revert v rest Hw.
  (* induction on the length, two words at a time *)
  assert (Hgen : forall m tape, (length tape <= m)%nat -> words tape -> forall v rest,
             loop63 n t c d tape = Ok (v, rest) -> 0 <= v < n /\ words rest).
  { induction m as [|m IH]; intros tp Hl Hw v rest.
    - destruct tp; [|cbn in Hl; lia]. cbn [loop63].
      destruct (t <? w64 d d); [|destruct c; discriminate]. intros H. inversion H; subst. split; [apply Hr; auto|constructor].
    - destruct tp as [|x [|y r]]; cbn [loop63].
      + destruct (t <? w64 d d); [|destruct c; discriminate]. intros H. inversion H; subst. split; [apply Hr; auto|constructor].
      + inversion Hw; subst. destruct (t <? w64 x d).
        * intros H. inversion H; subst. split; [apply Hr; auto|constructor].
        * destruct c; [discriminate|]. destruct (t <? w64 d d); [|discriminate].
          intros H. inversion H; subst. split; [apply Hr; auto|constructor].
      + inversion Hw as [|? ? Hx Hw1]; subst. inversion Hw1 as [|? ? Hy Hw2]; subst.
        destruct (t <? w64 x y).
        * intros H. inversion H; subst. split; [apply Hr; auto|exact Hw2].
        * destruct c; [discriminate|]. apply IH; [cbn in Hl; lia|exact Hw2]. }
  intros v rest Hw'. apply (Hgen (length tape) tape); auto.
Qed.

(* RandIntn(n): a value in [0, n) for every tape *)
Theorem rand_intn_range n c d tape v rest :
  0 < n <= max_i64 -> words tape -> word d ->
  rand_intn n c d tape = Ok (v, rest) -> 0 <= v < n /\ words rest.
Proof.
  intros Hn Hw Hd. unfold rand_intn. destruct (n <=? 0) eqn:E0; [lia|].
  destruct (n <=? max_i32) eqn:E1.
  - unfold rand_int31. destruct (n <? 2) eqn:E2.
    + intros H. inversion H; subst. split; [lia|exact Hw].
    + destruct (max_i32 <? n) eqn:E3; [lia|]. apply loop31_range; auto. unfold max_i32, two32 in *. lia.
  - unfold rand_int63. destruct (n <? 2) eqn:E2.
    + intros H. inversion H; subst. split; [lia|exact Hw].
    + apply loop63_range; auto. unfold max_i64, two64 in *. lia.
Qed.

(* RandIntn panics exactly for n <= 0 *)
Lemma loop31_no_panic n t c d tape : loop31 n t c d tape <> Panic.
Proof. induction tape as [|x r IH]; cbn [loop31]; [destruct (t <? d); [discriminate|destruct c; discriminate]|].
  destruct (t <? x); [discriminate|]. destruct c; [discriminate|exact IH]. Qed.

Lemma loop63_no_panic n t c d tape : loop63 n t c d tape <> Panic.
Proof.
  assert (Hgen : forall m tape, (length tape <= m)%nat -> loop63 n t c d tape <> Panic).
  { induction m as [|m IH]; intros tp Hl.
    - destruct tp; [|cbn in Hl; lia]. cbn [loop63]. destruct (t <? w64 d d); [discriminate|destruct c; discriminate].
    - destruct tp as [|x [|y r]]; cbn [loop63].
      + destruct (t <? w64 d d); [discriminate|destruct c; discriminate].
      + destruct (t <? w64 x d); [discriminate|]. destruct c; [discriminate|]. destruct (t <? w64 d d); discriminate.
      + destruct (t <? w64 x y); [discriminate|]. destruct c; [discriminate|]. apply IH. cbn in Hl. lia. }
  apply (Hgen (length tape)). lia.
Qed.

Theorem rand_intn_panic_iff n c d tape : rand_intn n c d tape = Panic <-> n <= 0.
Proof.
  unfold rand_intn. destruct (n <=? 0) eqn:E0; [split; [lia|reflexivity]|].
  split; [|lia]. destruct (n <=? max_i32) eqn:E1.
  - unfold rand_int31. destruct (n <? 2); [discriminate|]. destruct (max_i32 <? n) eqn:E3; [lia|].
    intros H. exfalso. exact (loop31_no_panic _ _ _ _ _ H).
  - unfold rand_int63. destruct (n <? 2); [discriminate|]. intros H. exfalso. exact (loop63_no_panic _ _ _ _ _ H).
Qed.

(* with a default word that is accepted the 31-bit loop always ends; an error needs a cancelled context *)
Lemma loop31_total n t d tape : t < d -> exists v rest, loop31 n t false d tape = Ok (v, rest).
Proof.
  intros Hd. induction tape as [|x r IH]; cbn [loop31].
  - destruct (t <? d) eqn:E; [eauto|lia].
  - destruct (t <? x); [eauto|exact IH].
Qed.

Lemma loop31_err_cancelled n t c d tape : loop31 n t c d tape = Err -> c = true.
Proof.
  induction tape as [|x r IH]; cbn [loop31].
  - destruct (t <? d); [discriminate|]. destruct c; [reflexivity|discriminate].
  - destruct (t <? x); [discriminate|]. destruct c; [reflexivity|exact IH].
Qed.

(* ---- near-uniformity of the accepted words ----
   For 2 <= n < 2^31 let Q = 2^32 / n and t = 2^32 mod n.  A 32-bit word x is
   accepted iff x > t.  The accepted words with residue v are exactly
   m*n + v for lo v <= m < hi v; there are Q of them for v <> t and Q - 1 for
   v = t.  So under uniform words the result is v with probability Q/(nQ-1) or
   (Q-1)/(nQ-1): the probabilities of two values differ by 1/(nQ-1) < 2^-31. *)
Definition acc_lo (n v : Z) : Z := if v <=? two32 mod n then 1 else 0.
Definition acc_hi (n v : Z) : Z := if v <? two32 mod n then two32 / n + 1 else two32 / n.

Theorem randint_residue_classes n v x :
  2 <= n <= max_i32 -> 0 <= v < n ->
  (word x /\ thresh31 n < x /\ x mod n = v) <-> (exists m, x = m * n + v /\ acc_lo n v <= m < acc_hi n v).
Proof.
  intros Hn Hv. rewrite thresh31_eq by exact Hn.
  assert (Hdm := Z.div_mod two32 n ltac:(lia)).
  assert (Ht := Z.mod_pos_bound two32 n ltac:(lia)).
  set (Q := two32 / n) in *. set (t := two32 mod n) in *.
  unfold word, acc_lo, acc_hi. fold Q t. split.
  - intros [[Hx0 Hx1] [Hacc Hm]]. exists (x / n).
    assert (Hx := Z.div_mod x n ltac:(lia)). rewrite Hm in Hx.
    assert (Hq : 0 <= x / n) by (apply Z.div_pos; lia).
    split; [lia|].
    destruct (Z.leb_spec v t); destruct (Z.ltb_spec v t); nia.
  - intros [m [Hx Hm]].
    assert (Hmod : x mod n = v).
    { symmetry. apply (Z.mod_unique _ _ m); lia. }
    destruct (Z.leb_spec v t); destruct (Z.ltb_spec v t); repeat split; try assumption; nia.
Qed.

Theorem randint_class_sizes n v :
  2 <= n <= max_i32 -> 0 <= v < n ->
  acc_hi n v - acc_lo n v = (if v =? two32 mod n then two32 / n - 1 else two32 / n)
  /\ n * (two32 / n) - 1 >= 2147483648.
Proof.
  intros Hn Hv. unfold acc_hi, acc_lo.
  assert (Hdm := Z.div_mod two32 n ltac:(lia)).
  assert (Ht := Z.mod_pos_bound two32 n ltac:(lia)).
  split.
  - destruct (Z.ltb_spec v (two32 mod n)); destruct (Z.leb_spec v (two32 mod n)); destruct (Z.eqb_spec v (two32 mod n)); lia.
  - unfold two32, max_i32 in *. lia.
Qed.

(* one step of the 31-bit draw, as the property reads it *)
Lemma rand_int31_step n c d x tape :
  2 <= n <= max_i32 -> word x ->
  rand_int31 n c d (x :: tape) =
    if thresh31 n <? x then Ok (x mod n, tape) else if c then Err else rand_int31 n c d tape.
Proof.
  intros Hn Hx. unfold rand_int31. destruct (n <? 2) eqn:E; [lia|]. destruct (max_i32 <? n) eqn:E2; [lia|].
  cbn [loop31]. unfold u32. rewrite (Z.mod_small n) by (unfold max_i32 in *; lia).
  rewrite Z.rem_mod_nonneg by (unfold word in *; lia). reflexivity.
Qed.

(* ---- Sample ---- *)
Lemma sample_count k n c d tape k' ps rest :
  sample k n c d tape = Ok (k', ps, rest) -> k' = Z.min k n /\ 0 <= k /\ 0 <= n.
Proof.
  unfold sample. destruct (k <? 0) eqn:Hk; [discriminate|]. destruct (n <? 0) eqn:Hn; [discriminate|].
  destruct (sample_loop _ _ _ _ _ _) as [[ps' rest']| | |]; try discriminate.
  intros H. inversion H; subst. destruct (n <? k) eqn:Hnk; lia.
Qed.

(* the picks of the loop: destination inside the reservoir, sources strictly increasing from i *)
Definition pick_ok (k lo hi : Z) (p : Z * Z) : Prop := 0 <= fst p < k /\ lo <= snd p < hi.

Lemma sample_loop_picks fuel k i c d tape ps rest :
  0 <= k <= i -> i + Z.of_nat fuel <= max_i64 -> words tape -> word d ->
  sample_loop fuel k i c d tape = Ok (ps, rest) ->
  Forall (pick_ok k i (i + Z.of_nat fuel)) ps
  /\ StronglySorted (fun p q : Z * Z => snd p < snd q) ps
  /\ words rest.
Proof.
  revert i tape ps rest. induction fuel as [|f IH]; intros i tape ps rest Hk Hmax Hw Hd; cbn [sample_loop].
  - intros H. inversion H; subst. repeat split; [constructor|constructor|exact Hw].
  - destruct (rand_intn (i + 1) c d tape) as [[j tape1]| | |] eqn:Er; try discriminate.
    assert (Hi1 : 0 < i + 1 <= max_i64) by lia.
    destruct (rand_intn_range _ _ _ _ _ _ Hi1 Hw Hd Er) as [Hj Hw1].
    destruct (sample_loop f k (i + 1) c d tape1) as [[ps2 rest2]| | |] eqn:El; try discriminate.
    intros H. inversion H; subst.
    assert (Hk1 : 0 <= k <= i + 1) by lia.
    assert (Hm1 : i + 1 + Z.of_nat f <= max_i64) by lia.
    destruct (IH (i + 1) tape1 ps2 rest Hk1 Hm1 Hw1 Hd El) as [Hf [Hs Hwr]].
    assert (Hf' : Forall (pick_ok k i (i + Z.of_nat (S f))) ps2).
    { eapply Forall_impl; [|exact Hf]. intros p [Hp1 Hp2]. split; [exact Hp1|lia]. }
    destruct (j <? k) eqn:Ejk; cbn [app]; repeat split; try assumption.
    + constructor; [|exact Hf']. split; cbn [fst snd]; lia.
    + constructor; [exact Hs|]. eapply Forall_impl; [|exact Hf]. intros p [_ Hp2]. cbn [snd]. lia.
Qed.

Lemma sample_loop_no_panic fuel k i c d tape :
  0 <= i -> sample_loop fuel k i c d tape <> Panic.
Proof.
  revert i tape. induction fuel as [|f IH]; intros i tape Hi; cbn [sample_loop]; [discriminate|].
  destruct (rand_intn (i + 1) c d tape) as [[j tape1]| | |] eqn:Er; try discriminate.
  - specialize (IH (i + 1) tape1 ltac:(lia)).
    destruct (sample_loop f k (i + 1) c d tape1) as [[ps2 rest2]| | |]; try discriminate. contradiction.
  - apply rand_intn_panic_iff in Er. lia.
Qed.

(* Sample panics exactly for a negative argument *)
Theorem sample_panic_iff k n c d tape : sample k n c d tape = Panic <-> k < 0 \/ n < 0.
Proof.
  unfold sample. destruct (k <? 0) eqn:Hk; [split; [lia|reflexivity]|].
  destruct (n <? 0) eqn:Hn; [split; [lia|reflexivity]|].
  split; [|lia].
  destruct (sample_loop _ _ _ _ _ _) as [[ps' rest']| | |] eqn:E; try discriminate.
  exfalso. eapply sample_loop_no_panic; [|exact E]. destruct (n <? k); lia.
Qed.

Lemma init_picks_spec k : forall p, In p (init_picks k) -> fst p = snd p /\ 0 <= fst p < k.
Proof.
  unfold init_picks. intros p Hp. apply in_map_iff in Hp. destruct Hp as [i [<- Hi]].
  apply in_seq in Hi. cbn [fst snd]. split; [reflexivity|]. lia.
Qed.

Theorem sample_picks k n c d tape k' ps rest :
  n <= max_i64 -> words tape -> word d ->
  sample k n c d tape = Ok (k', ps, rest) ->
  exists ps2, ps = init_picks k' ++ ps2
    /\ Forall (pick_ok k' k' n) ps2
    /\ StronglySorted (fun p q : Z * Z => snd p < snd q) ps2
    /\ words rest.
Proof.
  intros Hmax Hw Hd Hs. destruct (sample_count _ _ _ _ _ _ _ _ Hs) as [Hk' [Hk Hn]].
  unfold sample in Hs. destruct (k <? 0) eqn:E1; [lia|]. destruct (n <? 0) eqn:E2; [lia|].
  set (kk := if n <? k then n else k) in *.
  assert (Hkk : kk = k') by (unfold kk; destruct (n <? k) eqn:E; lia).
  destruct (sample_loop (Z.to_nat (n - kk)) kk kk c d tape) as [[ps2 rest2]| | |] eqn:El; try discriminate.
  inversion Hs; subst. exists ps2. split; [reflexivity|].
  assert (Hle : kk <= n) by (unfold kk; destruct (n <? k) eqn:E; lia).
  assert (Hkk0 : 0 <= kk) by (unfold kk; destruct (n <? k) eqn:E; lia).
  assert (Ha : 0 <= kk <= kk) by lia.
  assert (Hb : kk + Z.of_nat (Z.to_nat (n - kk)) <= max_i64) by (rewrite Z2Nat.id; lia).
  destruct (sample_loop_picks _ _ _ _ _ _ _ _ Ha Hb Hw Hd El) as [Hf [Hss Hwr]].
  rewrite Z2Nat.id in Hf by lia. replace (kk + (n - kk)) with n in Hf by lia.
  repeat split; assumption.
Qed.
