(* Reservoir sampling (the loop of crypto.Sample) with exactly uniform draws:
   every k-subset of the n candidates is the content of the final reservoir for
   the same number of draw vectors, namely (n-k)! of the (k+1)(k+2)...n = n!/k!.

   The reservoir is an array of k slots (`run` returns the slot contents in slot
   order); which slot holds which selected candidate is NOT uniform (for k = n
   the only outcome is the identity), so the statement is about the SET of the
   selected candidates: `same_set T res`.

   Forward induction over the draws, generalised over the state before draw i:
   let T be a k-set below i+m whose members below i are all in the reservoir
   `res`, and t the number of members of T that are >= i (still to come).  Then
       #vectors(i, m, res -> T) * (i-k+t)! = t! * (i+m-k)!
   Step: draw i has i+1 values.  If i is in T it must enter and evict a slot
   whose candidate is not in T (t of the k slots, as k = |T below i| + t); if i
   is not in T every value is fine except the (k-t) slots that hold a member
   of T.  A member of T that was passed over or evicted never comes back. *)
From ST Require Import Base.Ints Model.Sample Model.PathAssign Proofs.SampleProofs Proofs.PathAssignProofs
  Proofs.ReservoirProofs.
From Coq Require Import Arith Lia List Factorial Sorting.Permutation.
Import ListNotations.
Open Scope nat_scope.

(* ---- the event: the reservoir holds exactly the candidates of T ---- *)
Definition subset (a b : list nat) : bool := forallb (fun x => memb x b) a.
Definition same_set (a b : list nat) : bool := subset a b && subset b a.

Lemma subset_spec a b : subset a b = true <-> incl a b.
Proof.
  unfold subset, incl. rewrite forallb_forall. split; intros H x Hx.
  - apply memb_In. apply H. exact Hx.
  - apply memb_In. apply H. exact Hx.
Qed.

Lemma same_set_spec a b : same_set a b = true <-> (forall x, In x a <-> In x b).
Proof.
  unfold same_set. rewrite Bool.andb_true_iff, !subset_spec. unfold incl. split.
  - intros [H1 H2] x. split; [apply H1|apply H2].
  - intros H. split; intros x Hx; apply H; exact Hx.
Qed.

(* ---- counting draw vectors by the final reservoir ---- *)
Fixpoint cntP (P : list nat -> bool) (k : nat) (res : list nat) (i m : nat) : nat :=
  match m with
  | O => if P res then 1 else 0
  | S m' => list_sum (map (fun j => cntP P k (rstep k res i j) (S i) m') (seq 0 (S i)))
  end.

Theorem cntP_counts P k res i m :
  cntP P k res i m = length (filter (fun js => P (run k res i js)) (vectors i m)).
Proof.
  revert res i. induction m as [|m IH]; intros res i; cbn [cntP vectors].
  - cbn [filter run]. destruct (P res); reflexivity.
  - rewrite length_filter_flat_map. f_equal. apply map_ext. intros j.
    rewrite filter_map_cons. cbn [run]. apply IH.
Qed.

(* ---- `vectors i m` lists exactly the draw vectors, each once ---- *)
Fixpoint vec_ok (i : nat) (js : list nat) : Prop :=
  match js with [] => True | j :: r => j <= i /\ vec_ok (S i) r end.

Lemma vectors_spec m : forall i js, In js (vectors i m) <-> length js = m /\ vec_ok i js.
Proof.
  induction m as [|m IH]; intros i js; cbn [vectors].
  - split.
    + intros [<-|[]]. split; [reflexivity|exact I].
    + intros [Hl _]. destruct js; [left; reflexivity|discriminate].
  - rewrite in_flat_map. split.
    + intros [j [Hj Hin]]. apply in_map_iff in Hin. destruct Hin as [r [<- Hr]].
      apply IH in Hr. destruct Hr as [Hl Hok]. apply in_seq in Hj. cbn [length vec_ok].
      repeat split; [lia|lia|exact Hok].
    + intros [Hl Hok]. destruct js as [|j r]; [discriminate|]. cbn [length vec_ok] in *. destruct Hok as [Hj Hok].
      exists j. split; [apply in_seq; lia|]. apply in_map. apply IH. split; [lia|exact Hok].
Qed.

Lemma NoDup_app' {A} (a b : list A) : NoDup a -> NoDup b -> (forall x, In x a -> ~ In x b) -> NoDup (a ++ b).
Proof.
  induction 1 as [|x r Hx Hr IH]; intros Hb Hd; [exact Hb|]. cbn [app]. constructor.
  - intros H. apply in_app_or in H. destruct H as [H|H]; [contradiction|]. apply (Hd x); [left; reflexivity|exact H].
  - apply IH; [exact Hb|]. intros y Hy. apply Hd. right. exact Hy.
Qed.

Lemma NoDup_flat_map_cons {A} (l : list A) (v : list (list A)) :
  NoDup l -> NoDup v -> NoDup (flat_map (fun j => map (cons j) v) l).
Proof.
  intros Hl Hv. induction Hl as [|x r Hx Hr IH]; [constructor|]. cbn [flat_map]. apply NoDup_app'.
  - apply FinFun.Injective_map_NoDup; [|exact Hv]. intros a b H. inversion H. reflexivity.
  - exact IH.
  - intros y Hy Hy2. apply in_map_iff in Hy. destruct Hy as [a [<- _]].
    apply in_flat_map in Hy2. destruct Hy2 as [j [Hj Hin]]. apply in_map_iff in Hin. destruct Hin as [b [Hb _]].
    inversion Hb; subst. contradiction.
Qed.

Lemma vectors_NoDup m : forall i, NoDup (vectors i m).
Proof.
  induction m as [|m IH]; intros i; cbn [vectors].
  - constructor; [intros []|constructor].
  - apply NoDup_flat_map_cons; [apply seq_NoDup|apply IH].
Qed.

(* the draws of the model (Proofs/ReservoirProofs.v: sample_loop_draws) are such a vector *)
Lemma draws_vec_ok js : forall i, draws_ok (Z.of_nat i) js -> vec_ok i (map Z.to_nat js).
Proof.
  induction js as [|j r IH]; intros i H; cbn [map vec_ok draws_ok] in *; [exact I|].
  destruct H as [Hj Hr]. split; [lia|]. apply IH. replace (Z.of_nat (S i)) with (Z.of_nat i + 1)%Z by lia. exact Hr.
Qed.

Lemma draws_in_vectors js i : draws_ok (Z.of_nat i) js -> In (map Z.to_nat js) (vectors i (length js)).
Proof. intros H. apply vectors_spec. split; [apply map_length|apply draws_vec_ok; exact H]. Qed.

(* the final reservoir is a k-subset of the candidates seen *)
Lemma run_rinv k js : forall res i, rinv' k res i -> rinv' k (run k res i js) (i + length js).
Proof.
  induction js as [|j r IH]; intros res i H; cbn [run length].
  - rewrite Nat.add_0_r. exact H.
  - replace (i + S (length r)) with (S i + length r) by lia. apply IH. apply rinv'_step. exact H.
Qed.

Lemma reservoir_output_k_subset k n js : k <= n -> length js = n - k ->
  length (run k (seq 0 k) k js) = k /\ NoDup (run k (seq 0 k) k js) /\ (forall x, In x (run k (seq 0 k) k js) -> x < n).
Proof.
  intros Hk Hl. destruct (run_rinv k js (seq 0 k) k (rinv'_init k)) as [H1 [H2 [H3 _]]].
  rewrite Hl in H3. replace (k + (n - k)) with n in H3 by lia. auto.
Qed.

(* ---- sums and counts ---- *)
Lemma sum_weighted (g : nat -> nat) (good : nat -> bool) F G l :
  (forall j, In j l -> g j * F = if good j then G else 0) ->
  list_sum (map g l) * F = length (filter good l) * G.
Proof.
  induction l as [|x r IH]; intros H; [reflexivity|].
  cbn [map filter]. change (list_sum (g x :: map g r)) with (g x + list_sum (map g r)).
  rewrite Nat.mul_add_distr_r, IH by (intros j Hj; apply H; right; exact Hj).
  rewrite (H x) by (left; reflexivity). destruct (good x); cbn [length]; lia.
Qed.

Lemma filter_none {A} (f : A -> bool) l : (forall x, In x l -> f x = false) -> filter f l = [].
Proof.
  induction l as [|x r IH]; intros H; [reflexivity|]. cbn [filter]. rewrite (H x) by (left; reflexivity).
  apply IH. intros y Hy. apply H. right. exact Hy.
Qed.

Lemma filter_compl {A} (f : A -> bool) l :
  length (filter f l) + length (filter (fun x => negb (f x)) l) = length l.
Proof. induction l as [|x r IH]; [reflexivity|]. cbn [filter]. destruct (f x); cbn [negb length]; lia. Qed.

Lemma filter_nth_seq (P : nat -> bool) res :
  length (filter (fun j => P (nth j res 0)) (seq 0 (length res))) = length (filter P res).
Proof.
  induction res as [|y r IH]; [reflexivity|].
  cbn [length seq]. rewrite <- seq_shift. cbn [filter]. change (nth 0 (y :: r) 0) with y.
  assert (H : length (filter (fun j => P (nth j (y :: r) 0)) (map S (seq 0 (length r)))) = length (filter P r)).
  { rewrite filter_map_cons. cbn [nth]. exact IH. }
  destruct (P y); cbn [length]; rewrite H; reflexivity.
Qed.

(* the draws j < k whose slot holds a candidate with property P *)
Lemma count_slots (P : nat -> bool) res i : length res <= i ->
  length (filter (fun j => (j <? length res) && P (nth j res 0)) (seq 0 (S i))) = length (filter P res).
Proof.
  intros Hk. replace (S i) with (length res + (S i - length res)) by lia.
  rewrite seq_app, filter_app, app_length. cbn [Nat.add].
  rewrite (filter_none _ (seq (length res) _)).
  2:{ intros j Hj. apply in_seq in Hj. destruct (Nat.ltb_spec j (length res)); [lia|reflexivity]. }
  cbn [length]. rewrite Nat.add_0_r. rewrite <- (filter_nth_seq P res). f_equal. apply filter_ext_in.
  intros j Hj. apply in_seq in Hj. destruct (Nat.ltb_spec j (length res)); [reflexivity|lia].
Qed.

(* |res /\ T| counted from either side *)
Lemma inter_size T res i :
  NoDup T -> NoDup res -> (forall x, In x res -> x < i) -> (forall x, In x T -> x < i -> In x res) ->
  length (filter (fun x => memb x T) res) = length (filter (fun x => x <? i) T).
Proof.
  intros HT Hr Hb Hs. apply Permutation_length, NoDup_Permutation; try (apply NoDup_filter; assumption).
  intros x. rewrite !filter_In, memb_In, Nat.ltb_lt. split.
  - intros [H1 H2]. split; [exact H2|apply Hb; exact H1].
  - intros [H1 H2]. split; [apply Hs; assumption|exact H1].
Qed.

Lemma split_lt_ge T i :
  length (filter (fun x => x <? i) T) + length (filter (fun x => i <=? x) T) = length T.
Proof.
  induction T as [|x r IH]; [reflexivity|]. cbn [filter].
  destruct (Nat.ltb_spec x i), (Nat.leb_spec i x); cbn [length]; lia.
Qed.

Lemma ge_step T i : NoDup T ->
  length (filter (fun x => i <=? x) T) = (if memb i T then 1 else 0) + length (filter (fun x => S i <=? x) T).
Proof.
  induction 1 as [|x r Hx Hr IH]; [reflexivity|]. cbn [filter]. unfold memb. cbn [existsb]. fold (memb i r).
  destruct (Nat.eqb_spec i x) as [->|Hne]; cbn [orb].
  - rewrite memb_false in IH by exact Hx. rewrite Nat.leb_refl.
    destruct (Nat.leb_spec (S x) x); [lia|]. cbn [length]. rewrite IH. reflexivity.
  - destruct (Nat.leb_spec i x), (Nat.leb_spec (S i) x); try lia; cbn [length]; rewrite IH; destruct (memb i r); lia.
Qed.

(* ---- a member of T that was passed over or evicted never comes back ---- *)
Lemma cntS_dead k T x : In x T -> forall m res i, x < i -> ~ In x res -> cntP (same_set T) k res i m = 0.
Proof.
  intros HxT. induction m as [|m IH]; intros res i Hxi Hn; cbn [cntP].
  - destruct (same_set T res) eqn:E; [|reflexivity]. pose proof (proj1 (same_set_spec _ _) E x) as E'. apply E' in HxT. contradiction.
  - rewrite (sum_const _ 0); [lia|]. intros j _. apply IH; [lia|].
    unfold rstep. destruct (j <? k); [|exact Hn]. intros H. apply In_set_nth in H. destruct H as [->|H]; [lia|contradiction].
Qed.

(* ---- the generalised count ---- *)
Lemma cntS_gen k T : NoDup T -> length T = k -> forall m res i,
  rinv' k res i -> (forall x, In x T -> x < i + m) -> (forall x, In x T -> x < i -> In x res) ->
  cntP (same_set T) k res i m * fact (i - k + length (filter (fun x => i <=? x) T))
  = fact (length (filter (fun x => i <=? x) T)) * fact (i + m - k).
Proof.
  intros HnT HlT. induction m as [|m IH]; intros res i Hinv Hb Hsub.
  - cbn [cntP]. destruct Hinv as [Hl [Hn [Hbr Hk]]].
    assert (Ht : filter (fun x => i <=? x) T = []).
    { apply filter_none. intros x Hx. apply Hb in Hx. apply Nat.leb_gt. lia. }
    rewrite Ht. cbn [length].
    assert (Hsame : same_set T res = true).
    { apply same_set_spec. intros x. split.
      - intros Hx. apply Hsub; [exact Hx|]. apply Hb in Hx. lia.
      - revert x. apply NoDup_length_incl; [exact HnT|lia|].
        intros y Hy. apply Hsub; [exact Hy|]. apply Hb in Hy. lia. }
    rewrite Hsame. replace (i - k + 0) with (i + 0 - k) by lia. cbn [fact]. lia.
  - pose proof Hinv as [Hl [Hn [Hbr Hk]]].
    cbn [cntP]. set (g := fun j => cntP (same_set T) k (rstep k res i j) (S i) m).
    assert (Hs : length (filter (fun x => memb x T) res) + length (filter (fun x => i <=? x) T) = k).
    { rewrite (inter_size T res i), split_lt_ge; auto. }
    rewrite (ge_step T i HnT) in Hs |- *.
    set (t' := length (filter (fun x => S i <=? x) T)) in *.
    assert (Hlt : forall j, j < k -> nth j res 0 < i) by (intros j Hj; apply Hbr, nth_In; lia).
    assert (IHg : forall j, (j < k -> ~ In (nth j res 0) T) -> (memb i T = true -> j < k) ->
              g j * fact (S i - k + t') = fact t' * fact (S i + m - k)).
    { intros j Hj1 Hj2. unfold g. apply IH.
      - apply rinv'_step; exact Hinv.
      - intros x Hx. apply Hb in Hx. lia.
      - intros x Hx Hxi. unfold rstep. destruct (Nat.ltb_spec j k) as [Hjk|Hjk].
        + destruct (Nat.eq_dec x i) as [->|Hne]; [apply In_set_nth_new; lia|].
          apply (In_set_nth_keep j i x 0); [apply Hsub; [exact Hx|lia]|].
          intros Hc. apply (Hj1 Hjk). rewrite Hc. exact Hx.
        + destruct (Nat.eq_dec x i) as [->|Hne]; [|apply Hsub; [exact Hx|lia]].
          exfalso. apply memb_true in Hx. apply Hj2 in Hx. lia. }
    assert (Hdead : forall j, j < k -> In (nth j res 0) T -> g j = 0).
    { intros j Hjk Hin. unfold g. specialize (Hlt j Hjk). apply (cntS_dead k T (nth j res 0) Hin); [lia|].
      unfold rstep. destruct (Nat.ltb_spec j k); [|lia]. apply (In_set_nth_evict j i _ 0); auto; lia. }
    assert (Hdead2 : memb i T = true -> forall j, k <= j -> g j = 0).
    { intros Hi j Hj. unfold g. apply (cntS_dead k T i); [apply memb_In; exact Hi|lia|].
      unfold rstep. destruct (Nat.ltb_spec j k); [lia|]. intros Hin. apply Hbr in Hin. lia. }
    assert (Hcompl := filter_compl (fun x => memb x T) res).
    destruct (memb i T) eqn:Ei.
    + (* candidate i belongs to T: it must enter, evicting a candidate outside T *)
      assert (Hsum := sum_weighted g (fun j => (j <? length res) && negb (memb (nth j res 0) T))
                        (fact (S i - k + t')) (fact t' * fact (S i + m - k)) (seq 0 (S i))).
      rewrite (count_slots (fun x => negb (memb x T))) in Hsum by lia.
      replace (i - k + (1 + t')) with (S i - k + t') by lia.
      replace (i + S m - k) with (S i + m - k) by lia.
      rewrite Hsum.
      * replace (length (filter (fun x => negb (memb x T)) res)) with (S t') by lia.
        change (1 + t') with (S t'). cbn [fact]. ring.
      * intros j _. rewrite Hl. destruct (Nat.ltb_spec j k) as [Hjk|Hjk]; cbn [andb].
        -- destruct (memb (nth j res 0) T) eqn:E; cbn [negb].
           ++ rewrite Hdead; [reflexivity|exact Hjk|apply memb_In; exact E].
           ++ apply IHg; [|intros _; exact Hjk]. intros _ Hin. apply memb_true in Hin. congruence.
        -- rewrite Hdead2; [reflexivity|reflexivity|exact Hjk].
    + (* candidate i does not belong to T: every draw is fine that does not evict a member of T *)
      assert (Hsum := sum_weighted g (fun j => negb ((j <? length res) && memb (nth j res 0) T))
                        (fact (S i - k + t')) (fact t' * fact (S i + m - k)) (seq 0 (S i))).
      assert (Hc2 := filter_compl (fun j => (j <? length res) && memb (nth j res 0) T) (seq 0 (S i))).
      rewrite (count_slots (fun x => memb x T)), seq_length in Hc2 by lia.
      cbn [Nat.add]. replace (i + S m - k) with (S i + m - k) by lia.
      replace (S i - k + t') with (S (i - k + t')) in Hsum by lia.
      apply (proj1 (Nat.mul_cancel_l _ _ (S (i - k + t')) (Nat.neq_succ_0 _))).
      transitivity (list_sum (map g (seq 0 (S i))) * fact (S (i - k + t'))); [cbn [fact]; ring|].
      rewrite Hsum.
      * replace (length (filter (fun j => negb ((j <? length res) && memb (nth j res 0) T)) (seq 0 (S i))))
          with (S (i - k + t')) by lia. reflexivity.
      * intros j _. rewrite Hl. replace (S (i - k + t')) with (S i - k + t') by lia.
        destruct (Nat.ltb_spec j k) as [Hjk|Hjk]; cbn [andb].
        -- destruct (memb (nth j res 0) T) eqn:E; cbn [negb].
           ++ rewrite Hdead; [reflexivity|exact Hjk|apply memb_In; exact E].
           ++ apply IHg; [|intros; discriminate]. intros _ Hin. apply memb_true in Hin. congruence.
        -- cbn [negb]. apply IHg; [intros; lia|intros; discriminate].
Qed.

(* Uniformity of Sample(k, n) over subsets with exact uniform draws: every k-subset T of the n candidates is
   the set of the selected candidates for exactly (n-k)! of the draw vectors. *)
Theorem reservoir_subset_uniform k n T :
  k <= n -> NoDup T -> length T = k -> (forall x, In x T -> x < n) ->
  length (filter (fun js => same_set T (run k (seq 0 k) k js)) (vectors k (n - k))) = fact (n - k).
Proof.
  intros Hk HnT HlT Hb. rewrite <- cntP_counts.
  assert (H := cntS_gen k T HnT HlT (n - k) (seq 0 k) k (rinv'_init k)).
  replace (k + (n - k)) with n in H by lia.
  specialize (H Hb).
  assert (Hsub : forall x, In x T -> x < k -> In x (seq 0 k)) by (intros x _ Hx; apply in_seq; lia).
  specialize (H Hsub).
  replace (k - k + length (filter (fun x => k <=? x) T)) with (length (filter (fun x => k <=? x) T)) in H by lia.
  rewrite (Nat.mul_comm (fact _) (fact (n - k))) in H.
  apply Nat.mul_cancel_r in H; [exact H|apply fact_neq_0].
Qed.

(* all draw vectors: (k+1)...n = n!/k!, so each k-subset has probability (n-k)! k!/n! = 1/C(n,k) *)
Lemma total_range_fact m : forall i, total_range i m * fact i = fact (i + m).
Proof.
  induction m as [|m IH]; intros i; cbn [total_range].
  - rewrite Nat.add_0_r. lia.
  - replace (i + S m) with (S i + m) by lia. rewrite <- IH. cbn [fact]. ring.
Qed.

Lemma reservoir_total k n : k <= n -> length (vectors k (n - k)) * fact k = fact n.
Proof. intros H. rewrite vectors_length, total_range_fact. f_equal. lia. Qed.
