(* C06/C07: what handleRequest does to the receive time (the first free stamp at
   or after the given one, at most one nanosecond per stored exchange later),
   which stored exchange an interleaved reply serves, and the frame properties:
   a reply is a function of the client's own item and the request; every other
   client's item is left alone (except the one evicted client). *)
From ST Require Import Base.Ints Model.NtpTime Model.Tss Proofs.NtpTimeProofs Proofs.TssProofs Proofs.TssInv.
From Coq Require Import ZArith List Bool Lia.
Import ListNotations.
Open Scope Z_scope.

Definition ents_of_client (s : tss) (cid : Z) : list entry :=
  match find_item cid (items s) with Some it => it_ents it | None => [] end.

(* the collision loop returns the FIRST receive time >= the given one whose stamp is free *)
Lemma uniq_least l : forall fuel rxt txt r' t',
  uniq fuel l rxt txt = Some (r', t') ->
  rxt <= r' /\ (forall d, rxt <= d < r' -> has_rx (to64 d) l = true) /\
  has_rx (to64 r') l = false /\ (r' = rxt -> t' = txt).
Proof.
  induction fuel as [|f IH]; intros rxt txt r' t' H; cbn [uniq] in H.
  - destruct (has_rx (to64 rxt) l) eqn:E; [discriminate|]. inversion H; subst.
    split; [lia|]. split; [intros d Hd; lia|]. split; [exact E|reflexivity].
  - destruct (has_rx (to64 rxt) l) eqn:E.
    + destruct (IH _ _ _ _ H) as [H1 [H2 [H3 _]]].
      split; [lia|]. split; [|split; [exact H3|intros; lia]].
      intros d Hd. destruct (Z.eq_dec d rxt) as [->|Hne]; [exact E|]. apply H2. lia.
    + inversion H; subst. split; [lia|]. split; [intros d Hd; lia|]. split; [exact E|reflexivity].
Qed.

(* the receive time reported back: first free stamp; untouched (and the transmit time is
   the clock reading, or receive time + 1 ns when the clock is not later) without a collision *)
Lemma handle_rxt_spec c s cid q rxt now victim out :
  handle c s cid q rxt now victim = Some out ->
  rxt <= o_rxt out /\
  (forall d, rxt <= d < o_rxt out -> has_rx (to64 d) (ents_of_client s cid) = true) /\
  has_rx (to64 (o_rxt out)) (ents_of_client s cid) = false /\
  (o_rxt out = rxt -> o_txt out = if rxt <? now then now else rxt + 1).
Proof.
  unfold handle, ents_of_client. intros Hh.
  destruct (find_item cid (items s)) as [it|] eqn:Hfind.
  - destruct (uniq (S (length (it_ents it))) (it_ents it) rxt (if rxt <? now then now else rxt + 1)) as [[r' t']|] eqn:Hu; [|discriminate].
    destruct (uniq_least _ _ _ _ _ _ Hu) as [H1 [H2 [H3 H4]]].
    destruct (scan (it_ents it) (q_org q)) as [[o mn] mx].
    inversion Hh; subst out; clear Hh. cbn [o_rxt o_txt]. auto.
  - assert (Hall : o_rxt out = rxt /\ o_txt out = if rxt <? now then now else rxt + 1).
    { destruct (admission_decision c (length (items s)) (hq_min_val (hq s)) (to64 rxt)).
      - destruct (hq_find victim (hq s)); [|discriminate]. destruct (hq_min_val (hq s)); [|discriminate].
        destruct (z =? z0); [|discriminate]. inversion Hh; subst out. cbn [o_rxt o_txt]. auto.
      - inversion Hh; subst out. cbn [o_rxt o_txt]. auto.
      - inversion Hh; subst out. cbn [o_rxt o_txt]. auto. }
    destruct Hall as [-> Ht]. split; [lia|]. split; [intros d Hd; lia|]. split; [reflexivity|intros _; exact Ht].
Qed.

(* isolation as a frame property: the reply and the reported times depend on the store only
   through the client's own item *)
Lemma handle_reply_frame c s s' cid q rxt now victim victim' out out' :
  find_item cid (items s) = find_item cid (items s') ->
  handle c s cid q rxt now victim = Some out ->
  handle c s' cid q rxt now victim' = Some out' ->
  o_reply out = o_reply out' /\ o_rxt out = o_rxt out' /\ o_txt out = o_txt out'.
Proof.
  unfold handle. intros Heq Hh Hh'. rewrite <- Heq in Hh'.
  destruct (find_item cid (items s)) as [it|].
  - destruct (uniq (S (length (it_ents it))) (it_ents it) rxt (if rxt <? now then now else rxt + 1)) as [[r' t']|]; [|discriminate].
    destruct (scan (it_ents it) (q_org q)) as [[o mn] mx].
    inversion Hh; subst out. inversion Hh'; subst out'. cbn [o_reply o_rxt o_txt]. auto.
  - assert (H1 : o_reply out = {| r_org := q_tx q; r_rx := to64 rxt; r_tx := to64 (if rxt <? now then now else rxt + 1);
                                 r_inter := false; r_ref := to64 (if rxt <? now then now else rxt + 1) |} /\
                 o_rxt out = rxt /\ o_txt out = if rxt <? now then now else rxt + 1).
    { destruct (admission_decision c (length (items s)) (hq_min_val (hq s)) (to64 rxt)).
      - destruct (hq_find victim (hq s)); [|discriminate]. destruct (hq_min_val (hq s)); [|discriminate].
        destruct (z =? z0); [|discriminate]. inversion Hh; subst out. cbn [o_reply o_rxt o_txt]. auto.
      - inversion Hh; subst out. cbn [o_reply o_rxt o_txt]. auto.
      - inversion Hh; subst out. cbn [o_reply o_rxt o_txt]. auto. }
    assert (H2 : o_reply out' = {| r_org := q_tx q; r_rx := to64 rxt; r_tx := to64 (if rxt <? now then now else rxt + 1);
                                  r_inter := false; r_ref := to64 (if rxt <? now then now else rxt + 1) |} /\
                 o_rxt out' = rxt /\ o_txt out' = if rxt <? now then now else rxt + 1).
    { destruct (admission_decision c (length (items s')) (hq_min_val (hq s')) (to64 rxt)).
      - destruct (hq_find victim' (hq s')); [|discriminate]. destruct (hq_min_val (hq s')); [|discriminate].
        destruct (z =? z0); [|discriminate]. inversion Hh'; subst out'. cbn [o_reply o_rxt o_txt]. auto.
      - inversion Hh'; subst out'. cbn [o_reply o_rxt o_txt]. auto.
      - inversion Hh'; subst out'. cbn [o_reply o_rxt o_txt]. auto. }
    destruct H1 as [-> [-> ->]]. destruct H2 as [-> [-> ->]]. auto.
Qed.

(* ... and a request changes nobody else's item: every item of the new store other than the
   client's own was there before, unchanged (the one evicted client disappears) *)
Lemma handle_items_frame c s cid q rxt now victim out :
  NoDup (map it_key (items s)) ->
  handle c s cid q rxt now victim = Some out ->
  forall x, In x (items (o_state out)) -> it_key x <> cid -> In x (items s).
Proof.
  unfold handle. intros Hnd Hh x Hx Hne.
  destruct (find_item cid (items s)) as [it|] eqn:Hfind.
  - destruct (uniq (S (length (it_ents it))) (it_ents it) rxt (if rxt <? now then now else rxt + 1)) as [[r' t']|]; [|discriminate].
    destruct (scan (it_ents it) (q_org q)) as [[o mn] mx].
    inversion Hh; subst out; clear Hh. cbn [o_state items] in Hx.
    destruct (In_replace_item _ _ _ Hnd Hx) as [->|[H _]]; [cbn [it_key] in Hne; congruence|exact H].
  - destruct (admission_decision c (length (items s)) (hq_min_val (hq s)) (to64 rxt)).
    + destruct (hq_find victim (hq s)); [|discriminate]. destruct (hq_min_val (hq s)); [|discriminate].
      destruct (z =? z0); [|discriminate]. inversion Hh; subst out; clear Hh. cbn [o_state items] in Hx.
      destruct Hx as [<-|Hx]; [cbn [it_key] in Hne; congruence|]. eapply In_remove_item; exact Hx.
    + inversion Hh; subst out; clear Hh. exact Hx.
    + inversion Hh; subst out; clear Hh. cbn [o_state items] in Hx.
      destruct Hx as [<-|Hx]; [cbn [it_key] in Hne; congruence|exact Hx].
Qed.

(* a transmit-timestamp report for one client leaves every other client's item alone *)
Lemma update_tx_items_frame s cid rxt txt :
  NoDup (map it_key (items s)) ->
  forall x, In x (items (t_state (update_tx s cid rxt txt))) -> it_key x <> cid -> In x (items s).
Proof.
  intros Hnd x Hx Hne. destruct (update_tx_frame s cid rxt txt Hnd x Hx) as [H|[H _]]; [exact H|congruence].
Qed.

Section Era.
Variable k : Z.
Variable c : config.
Hypothesis Hicap : 0 < icap c.

(* at most one nanosecond per stored exchange *)
Lemma handle_rxt_bound s cid q rxt now victim it out :
  find_item cid (items s) = Some it -> item_ok c it ->
  in_era k rxt -> in_era k (rxt + icap c + 1) ->
  handle c s cid q rxt now victim = Some out ->
  o_rxt out <= rxt + Z.of_nat (length (it_ents it)).
Proof.
  intros Hfind [Hlen1 [Hlen2 _]] Era1 Era2 Hh. unfold handle in Hh. rewrite Hfind in Hh.
  set (txt0 := if rxt <? now then now else rxt + 1) in *.
  assert (Ht0 : rxt < txt0) by (unfold txt0; destruct (rxt <? now) eqn:E; lia).
  assert (Hfuel : in_era k (rxt + Z.of_nat (S (length (it_ents it))))).
  { apply (in_era_convex k rxt (rxt + icap c + 1)); auto. lia. }
  destruct (uniq_spec k (it_ents it) (S (length (it_ents it))) rxt txt0) as [rxt' [txt' [Hu [Hr1 _]]]]; auto.
  { pose proof (cnt_ge_le (to64 rxt) (it_ents it)). lia. }
  rewrite Hu in Hh. destruct (scan (it_ents it) (q_org q)) as [[o mn] mx].
  inversion Hh; subst out. cbn [o_rxt]. lia.
Qed.

(* an interleaved reply serves the transmit time of THE stored exchange of this client whose
   receive stamp is the request's origin *)
Lemma interleaved_serves_stored s cid q rxt now victim out :
  Inv c s -> in_era k rxt -> in_era k (rxt + icap c + 1) -> in_era k now ->
  handle c s cid q rxt now victim = Some out ->
  r_inter (o_reply out) = true ->
  exists it e, find_item cid (items s) = Some it /\ In e (it_ents it) /\
    e_rx e = q_org q /\ r_tx (o_reply out) = e_tx e /\ e_rx e < e_tx e /\
    (forall e', In e' (it_ents it) -> e_rx e' = q_org q -> e' = e).
Proof.
  intros [Hnd [Hcap [Hall Hhq]]] E1 E2 E3 Hh Hint.
  assert (E1' : in_era k (rxt + 1)) by (apply (in_era_convex k rxt (rxt + icap c + 1)); auto; lia).
  destruct (find_item cid (items s)) as [it|] eqn:Hfind.
  - destruct (find_item_In _ _ _ Hfind) as [Hin Hkey].
    assert (Hok : item_ok c it) by (rewrite Forall_forall in Hall; apply Hall; exact Hin).
    destruct (handle_existing_spec k c Hicap s cid q rxt now victim it Hfind Hok E1 E2 E3)
      as [out' [it' [hq' [Hh' [_ [_ [_ [_ [_ [_ [_ [_ [_ [_ [_ [_ [Hrep _]]]]]]]]]]]]]]]]].
    assert (out' = out) by congruence. subst out'.
    destruct Hrep as [_ [_ [[_ [_ [_ [e [He [Herx Hetx]]]]]]|[Ri _]]]]; [|congruence].
    exists it, e. split; [reflexivity|]. split; [exact He|]. split; [exact Herx|]. split; [exact Hetx|].
    destruct Hok as [_ [_ [Hndrx [_ Hrt]]]]. split; [apply Hrt; exact He|].
    intros e' He' Herx'.
    destruct (In_nth _ _ e He) as [i [Hi Hnthi]]. destruct (In_nth _ _ e He') as [j [Hj Hnthj]].
    assert (i = j).
    { eapply (NoDup_map_nth_inj e_rx (it_ents it) e); eauto. rewrite Hnthi, Hnthj. congruence. }
    subst j. congruence.
  - destruct (handle_new_spec k c s cid q rxt now victim out Hfind E1 E1' E3 Hh) as [_ [_ [_ [_ [Hrep _]]]]].
    destruct Hrep as [_ [_ [[_ [_ [_ [e [[] _]]]]]|[Ri _]]]]. congruence.
Qed.
End Era.
