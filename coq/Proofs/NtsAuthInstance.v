(* An instance of the symbolic AEAD: the Section hypotheses used in Proofs/NtsAuthProofs.v are jointly satisfiable. *)
From Coq Require Import ZArith List Bool Lia Arith.Cantor.
From ST Require Import Base.Ints Model.NtsAuth.
Import ListNotations.
Open Scope Z_scope.

(* A cipher that satisfies the four hypotheses at once: the "tag" is 16 list
   elements, the first of which is an injective code of (key, nonce, associated
   data); the plaintext follows in clear.  (Elements of the lists are unbounded
   integers here; no real cipher with 16-byte tags can be injective, which is
   exactly why the AEAD is symbolic.) *)
Opaque Cantor.to_nat.
Definition zcode (z : Z) : nat := Cantor.to_nat (Z.to_nat z, Z.to_nat (- z)).
Lemma zcode_inj : forall a b, zcode a = zcode b -> a = b.
Proof. intros a b H. unfold zcode in H. apply Cantor.to_nat_inj in H. inversion H. lia. Qed.

Fixpoint lcode (l : list Z) : nat :=
  match l with
  | [] => O
  | x :: r => S (Cantor.to_nat (zcode x, lcode r))
  end.
Lemma lcode_inj : forall a b, lcode a = lcode b -> a = b.
Proof.
  induction a as [|x a IH]; destruct b as [|y b]; simpl; intro H; try discriminate; auto.
  injection H as H1. apply Cantor.to_nat_inj in H1. injection H1 as H2 H3.
  apply zcode_inj in H2. apply IH in H3. congruence.
Qed.

Definition adcode (ad : option bytes) : nat :=
  match ad with None => O | Some x => S (lcode x) end.
Lemma adcode_inj : forall a b, adcode a = adcode b -> a = b.
Proof.
  intros [x|] [y|] H; simpl in H; try discriminate; auto.
  apply Nat.succ_inj in H. apply lcode_inj in H. congruence.
Qed.

Definition tag (k n : bytes) (ad : option bytes) : Z :=
  Z.of_nat (Cantor.to_nat (lcode k, Cantor.to_nat (lcode n, adcode ad))).
Lemma tag_inj : forall k n ad k' n' ad', tag k n ad = tag k' n' ad' -> k = k' /\ n = n' /\ ad = ad'.
Proof.
  intros k n ad k' n' ad' H. unfold tag in H. apply Nat2Z.inj in H.
  apply Cantor.to_nat_inj in H. injection H as H1 H2. apply Cantor.to_nat_inj in H2. injection H2 as H3 H4.
  apply lcode_inj in H1. apply lcode_inj in H3. apply adcode_inj in H4. auto.
Qed.

Definition ex_seal (k n : bytes) (ad : option bytes) (p : bytes) : bytes :=
  tag k n ad :: repeat 0 15 ++ p.
Definition ex_open (k n : bytes) (ad : option bytes) (c : bytes) : option bytes :=
  match c with
  | t :: r => if (t =? tag k n ad) && bytes_eqb (firstn 15 r) (repeat 0 15) && (15 <=? length r)%nat
              then Some (skipn 15 r) else None
  | [] => None
  end.

Lemma bytes_eqb_refl : forall a, bytes_eqb a a = true.
Proof. induction a; simpl; auto. rewrite Z.eqb_refl. auto. Qed.
Lemma bytes_eqb_true : forall a b, bytes_eqb a b = true -> a = b.
Proof.
  induction a as [|x a IH]; destruct b as [|y b]; simpl; intro H; try discriminate; auto.
  apply andb_true_iff in H. destruct H as [H1 H2]. apply Z.eqb_eq in H1. apply IH in H2. congruence.
Qed.

Example ex_open_seal : forall k n ad p, ex_open k n ad (ex_seal k n ad p) = Some p.
Proof. intros. unfold ex_open, ex_seal. rewrite Z.eqb_refl. simpl. reflexivity. Qed.

Example ex_open_only_seal : forall k n ad c p, ex_open k n ad c = Some p -> c = ex_seal k n ad p.
Proof.
  intros k n ad c p H. unfold ex_open in H. destruct c as [|t r]; [discriminate|].
  destruct ((t =? tag k n ad) && bytes_eqb (firstn 15 r) (repeat 0 15) && (15 <=? length r)%nat) eqn:E; [|discriminate].
  apply andb_true_iff in E. destruct E as [E E3]. apply andb_true_iff in E. destruct E as [E1 E2].
  inversion H; subst p. apply Z.eqb_eq in E1. apply bytes_eqb_true in E2.
  unfold ex_seal. rewrite E1. f_equal. rewrite <- E2. symmetry. apply firstn_skipn.
Qed.

Example ex_seal_inj : forall k n ad p k' n' ad' p',
  ex_seal k n ad p = ex_seal k' n' ad' p' -> k = k' /\ n = n' /\ ad = ad' /\ p = p'.
Proof.
  intros k n ad p k' n' ad' p' H. unfold ex_seal in H. injection H as H1 H2.
  apply tag_inj in H1. destruct H1 as [A [B C]]. auto.
Qed.

Example ex_seal_len : forall k n ad p, length (ex_seal k n ad p) = (16 + length p)%nat.
Proof. intros. unfold ex_seal. simpl. reflexivity. Qed.

(* A second cipher, shaped like AES-SIV: with an empty plaintext the tag depends
   on the first half of the key only.  It meets the hypotheses of aead_siv
   (Proofs/NtsAuthMore.v) and NOT seal_inj: keys that differ in the second half
   seal the empty plaintext identically (ex2_ctr_half_unused). *)
Definition keypart (k p : bytes) : bytes := match p with [] => mac_half k | _ :: _ => k end.
Definition ex2_seal (k n : bytes) (ad : option bytes) (p : bytes) : bytes :=
  tag (keypart k p) n ad :: repeat 0 15 ++ p.
Definition ex2_open (k n : bytes) (ad : option bytes) (c : bytes) : option bytes :=
  match c with
  | t :: r => if (t =? tag (keypart k (skipn 15 r)) n ad) && bytes_eqb (firstn 15 r) (repeat 0 15) && (15 <=? length r)%nat
              then Some (skipn 15 r) else None
  | [] => None
  end.

Example ex2_open_seal : forall k n ad p, ex2_open k n ad (ex2_seal k n ad p) = Some p.
Proof.
  intros. unfold ex2_open, ex2_seal.
  change (skipn 15 (repeat 0 15 ++ p)) with p. rewrite Z.eqb_refl.
  change (firstn 15 (repeat 0 15 ++ p)) with (repeat 0 15). rewrite bytes_eqb_refl.
  rewrite app_length, repeat_length. cbn [Nat.leb plus andb]. reflexivity.
Qed.

Example ex2_open_only_seal : forall k n ad c p, ex2_open k n ad c = Some p -> c = ex2_seal k n ad p.
Proof.
  intros k n ad c p H. unfold ex2_open in H. destruct c as [|t r]; [discriminate|].
  destruct ((t =? tag (keypart k (skipn 15 r)) n ad) && bytes_eqb (firstn 15 r) (repeat 0 15) && (15 <=? length r)%nat) eqn:E; [|discriminate].
  apply andb_true_iff in E. destruct E as [E E3]. apply andb_true_iff in E. destruct E as [E1 E2].
  inversion H; subst p. apply Z.eqb_eq in E1. apply bytes_eqb_true in E2.
  unfold ex2_seal. rewrite E1. f_equal. rewrite <- E2. symmetry. apply firstn_skipn.
Qed.

Example ex2_seal_inj_siv : forall k n ad p k' n' ad' p',
  ex2_seal k n ad p = ex2_seal k' n' ad' p' ->
  mac_half k = mac_half k' /\ (p <> [] -> k = k') /\ n = n' /\ ad = ad' /\ p = p'.
Proof.
  intros k n ad p k' n' ad' p' H. unfold ex2_seal in H. injection H as H1 H2.
  apply tag_inj in H1. destruct H1 as [A [B C]]. subst p'.
  destruct p as [|x p]; simpl in A.
  - repeat split; auto. intro N. exfalso. apply N. reflexivity.
  - subst k'. repeat split; auto.
Qed.

Example ex2_seal_len : forall k n ad p, length (ex2_seal k n ad p) = (16 + length p)%nat.
Proof. intros. unfold ex2_seal. simpl. reflexivity. Qed.

(* two different keys with the same first half seal the empty plaintext alike *)
Example ex2_ctr_half_unused : forall n ad,
  [1; 2] <> [1; 3] /\ ex2_seal [1; 2] n ad [] = ex2_seal [1; 3] n ad [].
Proof. intros. split; [discriminate|reflexivity]. Qed.

(* A small computable cipher for witnesses by computation: the tag is one keyed
   checksum byte (never 0) followed by 15 zero bytes, the plaintext follows in
   clear.  Open succeeds only on Seal's own output. *)
Definition bsum (l : bytes) : Z := fold_right Z.add 0 l.
Definition adsum (ad : option bytes) : Z := match ad with None => 0 | Some x => 1 + bsum x end.
Definition tag3 (k n : bytes) (ad : option bytes) : Z := 1 + (bsum k * 7 + bsum n * 3 + adsum ad) mod 251.
Definition ex3_seal (k n : bytes) (ad : option bytes) (p : bytes) : bytes :=
  tag3 k n ad :: repeat 0 15 ++ p.
Definition ex3_open (k n : bytes) (ad : option bytes) (c : bytes) : option bytes :=
  match c with
  | t :: r => if (t =? tag3 k n ad) && bytes_eqb (firstn 15 r) (repeat 0 15) && (15 <=? length r)%nat
              then Some (skipn 15 r) else None
  | [] => None
  end.

Example ex3_open_seal : forall k n ad p, ex3_open k n ad (ex3_seal k n ad p) = Some p.
Proof.
  intros. unfold ex3_open, ex3_seal. rewrite Z.eqb_refl.
  change (firstn 15 (repeat 0 15 ++ p)) with (repeat 0 15). rewrite bytes_eqb_refl.
  rewrite app_length, repeat_length. cbn [Nat.leb plus andb]. reflexivity.
Qed.

Example ex3_open_only_seal : forall k n ad c p, ex3_open k n ad c = Some p -> c = ex3_seal k n ad p.
Proof.
  intros k n ad c p H. unfold ex3_open in H. destruct c as [|t r]; [discriminate|].
  destruct ((t =? tag3 k n ad) && bytes_eqb (firstn 15 r) (repeat 0 15) && (15 <=? length r)%nat) eqn:E; [|discriminate].
  apply andb_true_iff in E. destruct E as [E E3]. apply andb_true_iff in E. destruct E as [E1 E2].
  inversion H; subst p. apply Z.eqb_eq in E1. apply bytes_eqb_true in E2.
  unfold ex3_seal. rewrite E1. f_equal. rewrite <- E2. symmetry. apply firstn_skipn.
Qed.
