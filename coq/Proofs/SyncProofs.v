(* Proofs about the model of sync.Run (Model/Sync.v): Flocq facts about the caps and the
   clamp, the round-level case analysis and bound, the measurement slices, induction over
   the rounds, the theorem that every run of the model satisfies the property oracle,
   the start-up conditions and the bound in real / integer arithmetic. *)
From Coq Require Import ZArith List Bool Lia Reals Lra Psatz.
From ST Require Import Base.Ints Base.F64 Base.Sorting Model.NtpTime Model.Units Model.Ftm Model.Sync.
From Flocq Require Import Core.Core IEEE754.BinarySingleNaN.
Import ListNotations.
Open Scope Z_scope.

Notation fexp := (SpecFloat.fexp prec emax).
Definition RN (x : R) : R := round radix2 fexp (round_mode mode_NE) x.

#[local] Instance Vexp : Valid_exp fexp := fexp_correct prec emax Hprec.
#[local] Instance Vrnd : Valid_rnd (round_mode mode_NE) := valid_rnd_round_mode mode_NE.

Lemma RN_le x y : (x <= y)%R -> (RN x <= RN y)%R.
Proof. intros H. apply round_le; auto with typeclass_instances. Qed.

Lemma RN_B2R (x : f64) : RN (B2R x) = B2R x.
Proof. apply round_generic; auto with typeclass_instances. apply generic_format_B2R. Qed.

Lemma format_pow2 k : (0 <= k <= 1000)%Z -> generic_format radix2 fexp (bpow radix2 k).
Proof.
  intros H. apply generic_format_bpow. unfold SpecFloat.fexp, SpecFloat.emin, prec, emax. lia.
Qed.

Lemma f_of_int_correct z : Z.abs z <= 2^64 ->
  B2R (f_of_int z) = RN (IZR z) /\ is_finite (f_of_int z) = true.
Proof.
  intros Hz. unfold f_of_int.
  generalize (binary_normalize_correct prec emax Hprec Hmax mode_NE z 0 false).
  cbv zeta. unfold F2R; simpl Fnum; simpl Fexp. change (bpow radix2 0) with 1%R. rewrite Rmult_1_r.
  rewrite Rlt_bool_true.
  - intros [H1 [H2 _]]. split; assumption.
  - apply Rle_lt_trans with (bpow radix2 64).
    + apply abs_round_le_generic; auto with typeclass_instances.
      * apply format_pow2. lia.
      * rewrite <- abs_IZR. change (bpow radix2 64) with (IZR (2^64)). apply IZR_le. exact Hz.
    + apply bpow_lt. reflexivity.
Qed.

(* ---- comparisons ---- *)
Lemma fcmp_some (x y : f64) : fis_nan x = false -> fis_nan y = false -> exists c, fcmp x y = Some c.
Proof.
  unfold fis_nan, fcmp. intros Hx Hy.
  destruct x as [sx|sx| |sx mx ex Bx], y as [sy|sy| |sy my ey By_]; try discriminate;
    try (destruct sx; cbn; eauto; fail); try (destruct sy; cbn; eauto; fail);
    try (destruct sx, sy; cbn; eauto; fail);
    try (rewrite Bcompare_correct by reflexivity; eauto).
Qed.

Lemma fgt_negb_fle (x y : f64) : fis_nan x = false -> fis_nan y = false -> fgt x y = negb (fle x y).
Proof.
  intros Hx Hy. destruct (fcmp_some x y Hx Hy) as [c Hc]. unfold fgt, fle. rewrite Hc. destruct c; reflexivity.
Qed.

Lemma fle_finite (x y : f64) : is_finite x = true -> is_finite y = true ->
  fle x y = Rle_bool (B2R x) (B2R y).
Proof.
  intros Hx Hy. unfold fle, fcmp. rewrite Bcompare_correct by assumption.
  unfold Rle_bool. destruct (Rcompare _ _); reflexivity.
Qed.

Lemma flt_finite (x y : f64) : is_finite x = true -> is_finite y = true ->
  flt x y = Rlt_bool (B2R x) (B2R y).
Proof.
  intros Hx Hy. unfold flt, fcmp. rewrite Bcompare_correct by assumption.
  unfold Rlt_bool. destruct (Rcompare _ _); reflexivity.
Qed.

Lemma fle_pinf (x : f64) : is_finite x = true -> fle x (B754_infinity false) = true.
Proof. destruct x as [s|s| |s m e B]; try discriminate; intros _; destruct s; reflexivity. Qed.

Lemma finite_not_nan (x : f64) : is_finite x = true -> fis_nan x = false.
Proof. destruct x; try discriminate; reflexivity. Qed.

(* a cap: not NaN and positive *)
Definition cap_ok (mx : f64) : Prop := fis_nan mx = false /\ flt fzero mx = true.

Lemma cap_ok_cases mx : cap_ok mx -> mx = B754_infinity false \/ (is_finite mx = true /\ (0 < B2R mx)%R).
Proof.
  intros [Hn Hp]. destruct mx as [s|s| |s m e B].
  - destruct s; vm_compute in Hp; discriminate Hp.
  - destruct s; [vm_compute in Hp; discriminate Hp|]. left. reflexivity.
  - vm_compute in Hn. discriminate Hn.
  - right. split; [reflexivity|].
    rewrite flt_finite in Hp by reflexivity. change (B2R fzero) with 0%R in Hp.
    revert Hp. case Rlt_bool_spec; [intros H _; exact H|discriminate].
Qed.

(* ---- exact products with +-1 and truncation ---- *)
Lemma RN_id_format x : generic_format radix2 fexp x -> RN x = x.
Proof. intros H. apply round_generic; auto with typeclass_instances. Qed.

Lemma f_of_int_pm1 s : s = 1 \/ s = -1 -> B2R (f_of_int s) = IZR s /\ is_finite (f_of_int s) = true.
Proof.
  intros Hs. destruct (f_of_int_correct s) as [H1 H2]; [destruct Hs; subst; cbn; lia|].
  split; [|exact H2]. rewrite H1. apply RN_id_format.
  destruct Hs; subst.
  - change (IZR 1) with (bpow radix2 0). apply format_pow2. lia.
  - change (IZR (-1)) with (- bpow radix2 0)%R. apply generic_format_opp. apply format_pow2. lia.
Qed.

Lemma fmul_pm1 s mx : s = 1 \/ s = -1 -> is_finite mx = true ->
  B2R (fmul (f_of_int s) mx) = (IZR s * B2R mx)%R /\ is_finite (fmul (f_of_int s) mx) = true.
Proof.
  intros Hs Hf. destruct (f_of_int_pm1 s Hs) as [E1 E2].
  unfold fmul. generalize (Bmult_correct prec emax Hprec Hmax mode_NE (f_of_int s) mx).
  rewrite E1.
  assert (G : generic_format radix2 fexp (IZR s * B2R mx)).
  { destruct Hs; subst.
    - rewrite Rmult_1_l. apply generic_format_B2R.
    - replace (-1 * B2R mx)%R with (- B2R mx)%R by ring. apply generic_format_opp, generic_format_B2R. }
  rewrite round_generic by (auto with typeclass_instances).
  rewrite Rlt_bool_true.
  - intros [H1 [H2 _]]. split; [exact H1|]. rewrite H2, E2, Hf. reflexivity.
  - replace (Rabs (IZR s * B2R mx)) with (Rabs (B2R mx)).
    + apply abs_B2R_lt_emax.
    + rewrite Rabs_mult. destruct Hs; subst.
      * rewrite Rabs_R1. ring.
      * replace (Rabs (-1)) with 1%R; [ring|]. rewrite Rabs_left; lra.
Qed.

Lemma Ztrunc_bound r : (Rabs r < IZR two63)%R -> min_i64 <= Ztrunc r <= max_i64.
Proof.
  intros H. unfold min_i64, max_i64. unfold two63 in H.
  destruct (Rle_or_lt 0 r) as [Hr|Hr].
  - rewrite Ztrunc_floor by exact Hr. rewrite Rabs_pos_eq in H by exact Hr.
    assert (0 <= Zfloor r) by (apply Zfloor_lub; simpl; lra).
    assert (Zfloor r < 9223372036854775808); [|lia].
    apply lt_IZR. apply Rle_lt_trans with r; [apply Zfloor_lb|exact H].
  - rewrite Ztrunc_ceil by lra. rewrite Rabs_left in H by exact Hr.
    assert (Zceil r <= 0) by (apply Zceil_glb; simpl; lra).
    assert (- 9223372036854775808 < Zceil r); [|lia].
    apply lt_IZR. apply Rlt_le_trans with r; [|apply Zceil_ub]. change (IZR (-9223372036854775808)) with (- IZR 9223372036854775808)%R. lra.
Qed.

Lemma f_to_i64_val x : is_finite x = true -> (Rabs (B2R x) < IZR two63)%R -> f_to_i64 x = Ztrunc (B2R x).
Proof.
  intros Hf Hb. unfold f_to_i64, fis_finite. rewrite Hf.
  assert (E : Btrunc x = Ztrunc (B2R x)).
  { apply eq_IZR. rewrite (Btrunc_correct prec emax Hmax). apply round_FIX_IZR. }
  rewrite E. pose proof (Ztrunc_bound _ Hb) as [A B]. unfold in_i64b.
  destruct (min_i64 <=? Ztrunc (B2R x)) eqn:E1; [|lia]. destruct (Ztrunc (B2R x) <=? max_i64) eqn:E2; [|lia]. reflexivity.
Qed.

(* ---- the clamp ---- *)
Lemma B2SF_absmin : B2SF (f_of_int (Z.abs min_i64)) = B2SF (f_of_int max_i64).
Proof. vm_compute. reflexivity. Qed.

Lemma fcmp_dabs off mx : fcmp (f_of_int (dabs off)) mx = fcmp (f_of_int (Z.abs off)) mx.
Proof.
  unfold dabs. destruct (0 <=? off) eqn:E0.
  - rewrite Z.abs_eq by lia. reflexivity.
  - destruct (off =? min_i64) eqn:E1.
    + apply Z.eqb_eq in E1. subst off. unfold fcmp, Bcompare. rewrite B2SF_absmin. reflexivity.
    + rewrite Z.abs_neq by lia. reflexivity.
Qed.

Lemma dabs_bound off : in_i64 off -> 0 <= dabs off <= max_i64.
Proof. unfold in_i64, dabs, min_i64, max_i64. intros H. destruct (0 <=? off) eqn:E; [lia|]. destruct (off =? _) eqn:E1; lia. Qed.

Lemma within_real c mx : is_finite mx = true -> Z.abs c <= 2^64 ->
  within c mx = Rle_bool (RN (IZR (Z.abs c))) (B2R mx).
Proof.
  intros Hf Hc. unfold within. destruct (f_of_int_correct (Z.abs c)) as [E1 E2]; [rewrite Z.abs_involutive; exact Hc|].
  rewrite fle_finite by assumption. rewrite E1. reflexivity.
Qed.

Lemma RN_two63 : RN (IZR two63) = IZR two63.
Proof. apply RN_id_format. change (IZR two63) with (bpow radix2 63). apply format_pow2. lia. Qed.

Lemma RN_abs_le_two63 off : in_i64 off -> (RN (IZR (Z.abs off)) <= IZR two63)%R.
Proof.
  intros H. rewrite <- RN_two63. apply RN_le. apply IZR_le. unfold in_i64, min_i64, max_i64, two63 in *. lia.
Qed.

Lemma Zfloor_RN_le m : (0 < m)%R -> generic_format radix2 fexp m -> (RN (IZR (Zfloor m)) <= m)%R.
Proof.
  intros Hm G. rewrite <- (RN_id_format m G) at 2. apply RN_le. apply Zfloor_lb.
Qed.

Lemma clamp_spec mx off : is_finite mx = true -> (0 < B2R mx)%R -> in_i64 off ->
  (exceeds off mx = false /\ clamp mx off = off /\ within off mx = true) \/
  (exceeds off mx = true /\ within off mx = false /\ (B2R mx < IZR two63)%R /\ off <> 0 /\
   clamp mx off = sgn off * Zfloor (B2R mx) /\ f_to_i64 mx = Zfloor (B2R mx)).
Proof.
  intros Hf Hm Hoff.
  assert (Habs : Z.abs off <= 2^64) by (unfold in_i64, min_i64, max_i64 in Hoff; lia).
  assert (Hw : within off mx = negb (exceeds off mx)).
  { unfold within, exceeds. rewrite fgt_negb_fle.
    - rewrite negb_involutive. unfold fle. rewrite fcmp_dabs. reflexivity.
    - apply finite_not_nan. apply f_of_int_correct. pose proof (dabs_bound off Hoff). unfold max_i64 in *. lia.
    - apply finite_not_nan, Hf. }
  destruct (exceeds off mx) eqn:Ex.
  - right. cbn in Hw. split; [reflexivity|]. split; [exact Hw|].
    rewrite within_real in Hw by assumption.
    assert (Hlt : (B2R mx < RN (IZR (Z.abs off)))%R).
    { revert Hw. unfold Rle_bool. case Rcompare_spec; try discriminate. intros H _. exact H. }
    assert (Hb : (B2R mx < IZR two63)%R) by (eapply Rlt_le_trans; [exact Hlt|apply RN_abs_le_two63; exact Hoff]).
    split; [exact Hb|].
    assert (Hnz : off <> 0).
    { intros ->. cbn in Hlt. unfold RN in Hlt. rewrite round_0 in Hlt by auto with typeclass_instances. lra. }
    split; [exact Hnz|].
    assert (Hs : sgn off = 1 \/ sgn off = -1).
    { unfold sgn. destruct (off <? 0) eqn:A; [right; reflexivity|]. destruct (0 <? off) eqn:B; [left; reflexivity|lia]. }
    destruct (fmul_pm1 (sgn off) mx Hs Hf) as [P1 P2].
    assert (Hr : Rabs (B2R mx) = B2R mx) by (apply Rabs_pos_eq; lra).
    split.
    + unfold clamp. rewrite Ex. rewrite f_to_i64_val; [|exact P2|].
      * rewrite P1. destruct Hs as [-> | ->].
        -- rewrite Rmult_1_l. rewrite Ztrunc_floor by lra. lia.
        -- replace (-1 * B2R mx)%R with (- B2R mx)%R by ring. rewrite Ztrunc_opp. rewrite Ztrunc_floor by lra. lia.
      * rewrite P1, Rabs_mult, Hr. destruct Hs as [-> | ->].
        -- rewrite Rabs_R1. lra.
        -- replace (Rabs (-1)) with 1%R; [lra|]. rewrite Rabs_left; lra.
    + rewrite f_to_i64_val; [|exact Hf|rewrite Hr; exact Hb]. apply Ztrunc_floor. lra.
  - left. cbn in Hw. split; [reflexivity|]. split; [|exact Hw]. unfold clamp. rewrite Ex. reflexivity.
Qed.

Lemma exceeds_pinf off : in_i64 off -> exceeds off (B754_infinity false) = false.
Proof.
  intros H. unfold exceeds. rewrite fgt_negb_fle; [rewrite fle_pinf; [reflexivity|]|apply finite_not_nan|reflexivity];
    apply f_of_int_correct; pose proof (dabs_bound off H); unfold max_i64 in *; lia.
Qed.

Lemma within_pinf c : Z.abs c <= 2^64 -> within c (B754_infinity false) = true.
Proof. intros H. unfold within. apply fle_pinf. apply f_of_int_correct. rewrite Z.abs_involutive. exact H. Qed.

Lemma Zfloor_cap_range m : (0 < m)%R -> (m < IZR two63)%R -> 0 <= Zfloor m <= max_i64.
Proof.
  intros H0 H1. split; [apply Zfloor_lub; simpl; lra|].
  assert (Zfloor m < two63); [|unfold two63, max_i64 in *; lia].
  apply lt_IZR. eapply Rle_lt_trans; [apply Zfloor_lb|exact H1].
Qed.

Lemma sgn_mul_abs off F : 0 <= F -> off <> 0 -> Z.abs (sgn off * F) = F.
Proof. intros HF Hn. unfold sgn. destruct (off <? 0) eqn:A; [lia|]. destruct (0 <? off) eqn:B; lia. Qed.

(* the three facts about the clamp that the round-level statements use *)
Lemma clamp_facts mx off : cap_ok mx -> in_i64 off ->
  within (clamp mx off) mx = true /\ in_i64 (clamp mx off) /\ clamp mx off = bounded mx off.
Proof.
  intros Hc Hoff. destruct (cap_ok_cases mx Hc) as [-> | [Hf Hm]].
  - unfold clamp, bounded. rewrite exceeds_pinf by exact Hoff.
    assert (Z.abs off <= 2^64) by (unfold in_i64, min_i64, max_i64 in Hoff; lia).
    rewrite within_pinf by assumption. auto.
  - destruct (clamp_spec mx off Hf Hm Hoff) as [[E1 [E2 E3]] | [E1 [E2 [E3 [E4 [E5 E6]]]]]].
    + rewrite E2. unfold bounded. rewrite E3. auto.
    + pose proof (Zfloor_cap_range _ Hm E3) as HF.
      assert (HA : Z.abs (clamp mx off) = Zfloor (B2R mx)) by (rewrite E5; apply sgn_mul_abs; [lia|exact E4]).
      split; [|split].
      * rewrite within_real; [|exact Hf|rewrite HA; unfold max_i64 in HF; lia].
        rewrite HA. apply Rle_bool_true. apply Zfloor_RN_le; [exact Hm|apply generic_format_B2R].
      * unfold in_i64, min_i64, max_i64 in *. lia.
      * unfold bounded. rewrite E2, E6. exact E5.
Qed.

(* ---- integers ---- *)
Ltac Zify.zify_post_hook ::= Z.to_euclidean_division_equations.

Lemma i64_in x : in_i64 (i64 x).
Proof. unfold in_i64, i64, min_i64, max_i64, two63, two64. lia. Qed.

Lemma i64_same x : in_i64 x -> i64 x = x.
Proof. unfold in_i64, i64, min_i64, max_i64, two63, two64. lia. Qed.

Lemma midpoint_in x y : in_i64 (midpoint x y).
Proof. apply i64_in. Qed.

Lemma midpoint_small x y : Z.abs x < 2^62 -> Z.abs y < 2^62 ->
  midpoint x y = x + Z.quot (y - x) 2 /\ Z.abs (midpoint x y) <= Z.max (Z.abs x) (Z.abs y).
Proof.
  change (2^62) with 4611686018427387904. intros Hx Hy.
  assert (E : midpoint x y = x + Z.quot (y - x) 2).
  { unfold midpoint, go_div.
    rewrite (i64_same (y - x)) by (unfold in_i64, min_i64, max_i64; lia).
    rewrite (i64_same (Z.quot (y - x) 2)) by (unfold in_i64, min_i64, max_i64; lia).
    apply i64_same. unfold in_i64, min_i64, max_i64. lia. }
  split; [exact E|]. rewrite E. lia.
Qed.

(* ---- monotonicity of "within" ---- *)
Lemma within_mono c c' mx : cap_ok mx -> Z.abs c <= 2^64 -> Z.abs c' <= Z.abs c ->
  within c mx = true -> within c' mx = true.
Proof.
  intros Hc Hb Hle Hw. destruct (cap_ok_cases mx Hc) as [-> | [Hf Hm]].
  - apply within_pinf. lia.
  - rewrite within_real in * by (assumption || lia).
    apply Rle_bool_true. eapply Rle_trans; [apply RN_le, IZR_le, Hle|].
    revert Hw. case Rle_bool_spec; [auto|discriminate].
Qed.

Lemma RN_two62 : RN (IZR (2^62)) = IZR (2^62).
Proof. apply RN_id_format. change (IZR (2^62)) with (bpow radix2 62). apply format_pow2. lia. Qed.

Lemma two62f_val : B2R two62f = IZR (2^62) /\ is_finite two62f = true.
Proof. unfold two62f. destruct (f_of_int_correct (2^62)) as [A B]; [cbn; lia|]. rewrite A, RN_two62. auto. Qed.

Lemma within_lt_two62 c mx : cap_ok mx -> flt mx two62f = true -> Z.abs c <= 2^64 ->
  within c mx = true -> Z.abs c < 2^62.
Proof.
  intros Hc Hs Hb Hw. destruct two62f_val as [T1 T2].
  destruct (cap_ok_cases mx Hc) as [-> | [Hf Hm]].
  - destruct two62f; discriminate.
  - rewrite flt_finite in Hs by assumption. rewrite T1 in Hs.
    rewrite within_real in Hw by assumption.
    destruct (Z_lt_le_dec (Z.abs c) (2^62)) as [L|G]; [exact L|exfalso].
    assert (IZR (2^62) <= RN (IZR (Z.abs c)))%R by (rewrite <- RN_two62; apply RN_le, IZR_le, G).
    revert Hs Hw. case Rlt_bool_spec; [|discriminate]. case Rle_bool_spec; [|discriminate]. intros. lra.
Qed.

(* ---- one round ---- *)
Definition contributes (cfg : config) (npeer : nat) (po : Z) : bool :=
  negb (Nat.eqb npeer 0) && (c_cutoff cfg <? dabs po).

Lemma round_shape cfg rm pm nref npeer ro po : cap_ok rm -> cap_ok pm -> in_i64 ro -> in_i64 po ->
  Sync.round cfg rm pm nref npeer ro po =
  match negb (Nat.eqb nref 0), contributes cfg npeer po with
  | true, false => bounded rm ro
  | false, true => bounded pm po
  | true, true => midpoint (bounded rm ro) (bounded pm po)
  | false, false => 0
  end.
Proof.
  intros Hr Hp Hro Hpo.
  destruct (clamp_facts rm ro Hr Hro) as [_ [_ Er]]. destruct (clamp_facts pm po Hp Hpo) as [_ [_ Ep]].
  unfold Sync.round, contributes. rewrite Er.
  destruct (Nat.eqb nref 0), (Nat.eqb npeer 0), (c_cutoff cfg <? dabs po); cbn; try rewrite Ep; reflexivity.
Qed.

Lemma bounded_facts mx off : cap_ok mx -> in_i64 off -> within (bounded mx off) mx = true /\ in_i64 (bounded mx off).
Proof. intros H1 H2. destruct (clamp_facts mx off H1 H2) as [A [B C]]. rewrite <- C. auto. Qed.

Lemma in_i64_abs x : in_i64 x -> Z.abs x <= 2^64.
Proof. unfold in_i64, min_i64, max_i64. lia. Qed.

Lemma midpoint_within rm pm r p : cap_ok rm -> cap_ok pm -> in_i64 r -> in_i64 p ->
  flt rm two62f = true -> flt pm two62f = true -> within r rm = true -> within p pm = true ->
  within (midpoint r p) rm || within (midpoint r p) pm = true.
Proof.
  intros Hr Hp Ir Ip Sr Sp Wr Wp.
  pose proof (within_lt_two62 r rm Hr Sr (in_i64_abs _ Ir) Wr) as Br.
  pose proof (within_lt_two62 p pm Hp Sp (in_i64_abs _ Ip) Wp) as Bp.
  destruct (midpoint_small r p Br Bp) as [_ Hle].
  destruct (Z_le_dec (Z.abs p) (Z.abs r)) as [L|G].
  - rewrite (within_mono r (midpoint r p) rm Hr (in_i64_abs _ Ir)); [reflexivity| lia | exact Wr].
  - rewrite (within_mono p (midpoint r p) pm Hp (in_i64_abs _ Ip)); [apply orb_true_r| lia | exact Wp].
Qed.

(* Midpoint does not wrap when the difference of its arguments is an int64 *)
Lemma midpoint_nowrap x y : in_i64 x -> in_i64 y -> Z.abs (y - x) <= max_i64 ->
  midpoint x y = x + Z.quot (y - x) 2 /\ Z.abs (midpoint x y) <= Z.max (Z.abs x) (Z.abs y).
Proof.
  unfold in_i64, min_i64, max_i64. intros Hx Hy Hd.
  assert (E : midpoint x y = x + Z.quot (y - x) 2).
  { unfold midpoint, go_div.
    rewrite (i64_same (y - x)) by (unfold in_i64, min_i64, max_i64; lia).
    rewrite (i64_same (Z.quot (y - x) 2)) by (unfold in_i64, min_i64, max_i64; lia).
    apply i64_same. unfold in_i64, min_i64, max_i64. lia. }
  split; [exact E|]. rewrite E. lia.
Qed.

Lemma midpoint_within_nowrap rm pm r p : cap_ok rm -> cap_ok pm -> in_i64 r -> in_i64 p ->
  Z.abs (p - r) <= max_i64 -> within r rm = true -> within p pm = true ->
  within (midpoint r p) rm || within (midpoint r p) pm = true.
Proof.
  intros Hr Hp Ir Ip Hn Wr Wp. destruct (midpoint_nowrap r p Ir Ip Hn) as [_ Hle].
  destruct (Z_le_dec (Z.abs p) (Z.abs r)) as [L|G].
  - rewrite (within_mono r (midpoint r p) rm Hr (in_i64_abs _ Ir)); [reflexivity| lia | exact Wr].
  - rewrite (within_mono p (midpoint r p) pm Hp (in_i64_abs _ Ip)); [apply orb_true_r| lia | exact Wp].
Qed.

Lemma dabs_abs po : po <> min_i64 -> in_i64 po -> dabs po = Z.abs po.
Proof. unfold dabs, in_i64, min_i64, max_i64. intros. destruct (0 <=? po) eqn:A; [lia|]. destruct (po =? _) eqn:B; lia. Qed.

Lemma peer_small_facts cfg po : in_i64 po -> peer_small cfg po = true ->
  (c_cutoff cfg <? dabs po) = false /\ po <> min_i64.
Proof.
  unfold peer_small. intros I H. apply andb_prop in H. destruct H as [A B].
  apply Z.leb_le in A. apply Z.ltb_lt in B. change (2^62) with 4611686018427387904 in B.
  assert (N : po <> min_i64) by (unfold min_i64; lia).
  split; [|exact N]. rewrite (dabs_abs po N I). apply Z.ltb_ge. exact A.
Qed.

Lemma round_ok_model cfg rm pm nref npeer pe ro po kr kp :
  cap_ok rm -> cap_ok pm -> in_i64 ro -> in_i64 po ->
  (kr = None \/ kr = Some ro) -> (kp = None \/ (kp = Some po /\ po <> min_i64)) ->
  (pe = true -> peer_small cfg po = true) ->
  round_ok cfg rm pm nref npeer pe kr kp (Sync.round cfg rm pm nref npeer ro po) = true.
Proof.
  intros Hr Hp Iro Ipo Kr Kp Hpe.
  rewrite round_shape by assumption.
  destruct (bounded_facts rm ro Hr Iro) as [Wr Ir]. destruct (bounded_facts pm po Hp Ipo) as [Wp Ip].
  assert (Kcut : forall x, kp = Some x -> (Z.abs x <=? c_cutoff cfg) = negb (c_cutoff cfg <? dabs po) /\ x = po).
  { intros x E. destruct Kp as [K|[K Hn]]; [congruence|]. assert (x = po) by congruence. subst x.
    rewrite (dabs_abs po Hn Ipo). split; [|reflexivity]. destruct (Z.abs po <=? c_cutoff cfg) eqn:A, (c_cutoff cfg <? Z.abs po) eqn:B; try reflexivity; lia. }
  assert (Pe : pe = true -> (c_cutoff cfg <? dabs po) = false).
  { intros E. apply (peer_small_facts cfg po Ipo (Hpe E)). }
  unfold round_ok, contributes.
  destruct nref as [|nr], npeer as [|np]; cbn [Nat.eqb negb andb].
  - reflexivity.
  - (* peers only *)
    destruct (c_cutoff cfg <? dabs po) eqn:C.
    + rewrite Wp, orb_true_r. cbn [andb].
      destruct pe; [specialize (Pe eq_refl); discriminate Pe|]. cbn [andb].
      destruct kp as [x|]; [|reflexivity].
      destruct (Kcut x eq_refl) as [E ->]. rewrite E. cbn. apply Z.eqb_refl.
    + cbn. replace (if pe then true else true) with true by (destruct pe; reflexivity). cbn.
      destruct kp as [x|]; [|reflexivity]. destruct (Kcut x eq_refl) as [E ->]. rewrite E. reflexivity.
  - (* reference clocks only *)
    rewrite Wr. cbn [andb]. destruct Kr as [-> | ->]; [reflexivity|apply Z.eqb_refl].
  - (* both *)
    destruct (c_cutoff cfg <? dabs po) eqn:C.
    + destruct pe; [specialize (Pe eq_refl); discriminate Pe|].
      apply andb_true_intro. split; [apply andb_true_intro; split; [|reflexivity]|].
      * match goal with |- (if ?b then _ else _) = true => destruct b eqn:SN; [|reflexivity] end.
        apply orb_true_iff in SN. destruct SN as [SN|SN].
        -- apply andb_prop in SN. destruct SN as [Sr Sp]. apply midpoint_within; assumption.
        -- destruct kr as [ro'|]; [|discriminate SN]. destruct kp as [po'|]; [|discriminate SN].
           assert (ro' = ro) as -> by (destruct Kr as [K|K]; congruence).
           assert (po' = po) as -> by (destruct Kp as [K|[K _]]; congruence).
           apply Z.leb_le in SN. apply midpoint_within_nowrap; assumption.
      * destruct kp as [x|].
        -- destruct (Kcut x eq_refl) as [E ->]. destruct Kr as [-> | ->]; [rewrite E; reflexivity|].
           rewrite E. cbn. apply Z.eqb_refl.
        -- destruct kr; reflexivity.
    + apply andb_true_intro. split; [apply andb_true_intro; split|].
      * rewrite Wr. cbn. match goal with |- (if ?b then _ else _) = true => destruct b; reflexivity end.
      * rewrite Wr. destruct pe; reflexivity.
      * destruct kp as [x|].
        -- destruct (Kcut x eq_refl) as [E ->]. rewrite E. cbn. destruct Kr as [-> | ->]; [exact Wr|apply Z.eqb_refl].
        -- destruct kr; reflexivity.
Qed.

(* ---- the caps ---- *)
Lemma fone_val : B2R fone = 1%R /\ is_finite fone = true.
Proof. apply (f_of_int_pm1 1). left. reflexivity. Qed.

Lemma RN_0 : RN 0 = 0%R.
Proof. unfold RN. apply round_0. auto with typeclass_instances. Qed.

Lemma RN_1 : RN 1 = 1%R.
Proof. apply RN_id_format. change 1%R with (bpow radix2 0). apply format_pow2. lia. Qed.

Lemma fle_false_gt x y : is_finite x = true -> is_finite y = true -> fle x y = false -> (B2R y < B2R x)%R.
Proof. intros Hx Hy. rewrite fle_finite by assumption. case Rle_bool_spec; [discriminate|auto]. Qed.

Lemma fle_true_le x y : is_finite x = true -> is_finite y = true -> fle x y = true -> (B2R x <= B2R y)%R.
Proof. intros Hx Hy. rewrite fle_finite by assumption. case Rle_bool_spec; [auto|discriminate]. Qed.

Lemma B2R_sign (x : f64) : is_finite x = true -> if Bsign x then (B2R x <= 0)%R else (0 <= B2R x)%R.
Proof.
  destruct x as [s|s| |s m e B]; try discriminate; intros _; cbn.
  - destruct s; lra.
  - destruct s; cbn; [apply F2R_le_0|apply F2R_ge_0]; cbn; lia.
Qed.

(* impact x float64(D) for a finite impact factor above 1 *)
Lemma cap_sign f D : is_finite f = true -> (1 < B2R f)%R -> in_i64 D ->
  (D <= 0 -> fle (cap f D) fzero = true) /\ (0 < D -> cap_ok (cap f D)).
Proof.
  intros Hf H1 HD.
  destruct (f_of_int_correct D (in_i64_abs D HD)) as [E1 E2].
  pose proof (B2R_sign f Hf) as Sf. pose proof (B2R_sign _ E2) as SD. rewrite E1 in SD.
  unfold cap, fmul. generalize (Bmult_correct prec emax Hprec Hmax mode_NE f (f_of_int D)).
  rewrite E1. fold (RN (B2R f * RN (IZR D))).
  set (y := Bmult mode_NE f (f_of_int D)).
  case Rlt_bool_spec; intros Hov.
  - intros [R1 [R2 _]]. rewrite Hf, E2 in R2. cbn in R2.
    split; intros HD0.
    + rewrite fle_finite by (exact R2 || reflexivity). apply Rle_bool_true. rewrite R1. change (B2R fzero) with 0%R.
      rewrite <- RN_0. apply RN_le.
      assert (RN (IZR D) <= 0)%R by (rewrite <- RN_0; apply RN_le, IZR_le; lia). nra.
    + split; [apply finite_not_nan, R2|]. rewrite flt_finite by (exact R2 || reflexivity). apply Rlt_bool_true.
      rewrite R1. change (B2R fzero) with 0%R.
      assert (1 <= RN (IZR D))%R by (rewrite <- RN_1; apply RN_le, IZR_le; lia).
      apply Rlt_le_trans with 1%R; [lra|]. rewrite <- RN_1. apply RN_le. nra.
  - intros R. unfold binary_overflow, overflow_to_inf in R. cbn in R.
    assert (Hs : Bsign f = false) by (destruct (Bsign f); [lra|reflexivity]).
    rewrite Hs in R. cbn in R.
    split; intros HD0.
    + assert (RN (IZR D) <= 0)%R by (rewrite <- RN_0; apply RN_le, IZR_le; lia).
      destruct (Bsign (f_of_int D)).
      * destruct y as [s|s| |s m e B]; try discriminate; cbn in R. inversion R. reflexivity.
      * exfalso. assert (RN (IZR D) = 0)%R by lra.
        rewrite H0, Rmult_0_r, RN_0, Rabs_R0 in Hov. pose proof (bpow_gt_0 radix2 emax). lra.
    + assert (1 <= RN (IZR D))%R by (rewrite <- RN_1; apply RN_le, IZR_le; lia).
      destruct (Bsign (f_of_int D)); [lra|].
      destruct y as [s|s| |s m e B]; try discriminate; cbn in R. inversion R. split; reflexivity.
Qed.

Lemma cap_ok_not_le0 mx : cap_ok mx -> fle mx fzero = false.
Proof.
  intros H. destruct (cap_ok_cases mx H) as [-> | [Hf Hm]]; [reflexivity|].
  rewrite fle_finite by (exact Hf || reflexivity). change (B2R fzero) with 0%R. apply Rle_bool_false. exact Hm.
Qed.

(* ---- the factor tests !(x > y) ---- *)
Lemma ngt_fle (x y : f64) : fis_nan x = false -> fis_nan y = false -> negb (fgt x y) = fle x y.
Proof. intros Hx Hy. rewrite fgt_negb_fle by assumption. apply negb_involutive. Qed.

Lemma fgt_nan_l (x y : f64) : fis_nan x = true -> fgt x y = false.
Proof. destruct x; try discriminate. reflexivity. Qed.

Lemma fgt_nan_r (x y : f64) : fis_nan y = true -> fgt x y = false.
Proof. destruct y; try discriminate. destruct x as [s|s| |s m e B]; try destruct s; reflexivity. Qed.

Lemma fgt_pinf_r (x : f64) : fgt x (B754_infinity false) = false.
Proof. destruct x as [s|s| |s m e B]; try destruct s; reflexivity. Qed.

(* x > 1 in float64: +Inf or a finite number above 1 *)
Lemma fgt_one_cases (x : f64) : fgt x fone = true -> x = B754_infinity false \/ (is_finite x = true /\ (1 < B2R x)%R).
Proof.
  intros H. destruct fone_val as [O1 O2].
  destruct x as [s|s| |s m e B].
  - right. split; [reflexivity|]. rewrite fgt_negb_fle in H by (reflexivity || apply finite_not_nan, O2).
    apply negb_true_iff in H. apply fle_false_gt in H; [|reflexivity|exact O2]. rewrite O1 in H. exact H.
  - destruct s; [vm_compute in H; discriminate H|left; reflexivity].
  - vm_compute in H. discriminate H.
  - right. split; [reflexivity|]. rewrite fgt_negb_fle in H by (reflexivity || apply finite_not_nan, O2).
    apply negb_true_iff in H. apply fle_false_gt in H; [|reflexivity|exact O2]. rewrite O1 in H. exact H.
Qed.

(* +Inf x float64(D) for a positive D *)
Lemma cap_pinf D : in_i64 D -> 0 < D -> cap (B754_infinity false) D = B754_infinity false.
Proof.
  intros ID Dp. destruct (f_of_int_correct D (in_i64_abs D ID)) as [E1 E2].
  assert (HD1 : (1 <= RN (IZR D))%R) by (rewrite <- RN_1; apply RN_le, IZR_le; lia).
  pose proof (B2R_sign _ E2) as SD. rewrite E1 in SD.
  unfold cap, fmul. destruct (f_of_int D) as [s|s| |s m e B]; try discriminate.
  - cbn in E1. lra.
  - cbn in SD. destruct s; [lra|reflexivity].
Qed.

(* what passing the three factor tests means: the reference factor is a finite number above 1, the peer
   factor is +Inf or a finite number above 1 *)
Lemma factor_tests cfg :
  fgt (c_ref cfg) fone = true -> fgt (c_peer cfg) fone = true -> fgt (fsub (c_peer cfg) fone) (c_ref cfg) = true ->
  (is_finite (c_ref cfg) = true /\ (1 < B2R (c_ref cfg))%R) /\
  (c_peer cfg = B754_infinity false \/ (is_finite (c_peer cfg) = true /\ (1 < B2R (c_peer cfg))%R)).
Proof.
  intros T1 T2 T3. split; [|apply fgt_one_cases; exact T2].
  destruct (fgt_one_cases _ T1) as [E|H]; [|exact H].
  rewrite E, fgt_pinf_r in T3. discriminate T3.
Qed.

(* ---- the prologue ---- *)
Lemma prologue_cases cfg D : in_i64 (c_interval cfg) -> in_i64 D ->
  match prologue cfg D with
  | Refuse code nd => (inadmissible cfg = true /\ nd = 0%nat) \/ (inadmissible cfg = false /\ D <= 0 /\ nd = 1%nat)
  | Start rm pm => inadmissible cfg = false /\ 0 < D /\ rm = cap (c_ref cfg) D /\ pm = cap (c_peer cfg) D
                   /\ cap_ok rm /\ cap_ok pm
  end.
Proof.
  intros Ii ID.
  unfold prologue, inadmissible.
  destruct (fgt (c_ref cfg) fone) eqn:T1; [|left; auto]. cbn [negb orb].
  destruct (fgt (c_peer cfg) fone) eqn:T2; [|left; auto]. cbn [negb orb].
  destruct (fgt (fsub (c_peer cfg) fone) (c_ref cfg)) eqn:T3; [|left; auto]. cbn [negb orb].
  destruct (c_interval cfg <=? 0) eqn:T4; [left; auto|].
  assert (G : go_div (c_interval cfg) 2 = Z.quot (c_interval cfg) 2).
  { unfold go_div. apply i64_same. unfold in_i64, min_i64, max_i64 in *. lia. }
  rewrite G. cbn [orb].
  destruct (c_timeout cfg <? 0) eqn:T5; [left; auto|].
  destruct (Z.quot (c_interval cfg) 2 <? c_timeout cfg) eqn:T6; [left; auto|]. cbn [orb].
  destruct (factor_tests cfg T1 T2 T3) as [[Fr Gr] HP].
  destruct (cap_sign (c_ref cfg) D Fr Gr ID) as [Rn Rp].
  unfold max_corr. fold (cap (c_ref cfg) D). fold (cap (c_peer cfg) D).
  destruct (Z_le_gt_dec D 0) as [Dn|Dp].
  - rewrite (Rn Dn). right. auto.
  - assert (0 < D) as Dp' by lia.
    assert (Cp : cap_ok (cap (c_peer cfg) D)).
    { destruct HP as [E|[Fp Gp]].
      - rewrite E, cap_pinf by assumption. split; reflexivity.
      - apply (cap_sign (c_peer cfg) D Fp Gp ID). exact Dp'. }
    rewrite (cap_ok_not_le0 _ (Rp Dp')), (cap_ok_not_le0 _ Cp). auto 10.
Qed.

(* ---- the measurement slices ---- *)
Lemma zsort_length l : length (zsort l) = length l.
Proof. apply isort_length. Qed.

Lemma collect_length old arr : length (collect old arr) = length old.
Proof.
  unfold collect. rewrite zsort_length, app_length, skipn_length, firstn_length. lia.
Qed.

Lemma ftm_sorted_in s : in_i64 (ftm_sorted s).
Proof. unfold ftm_sorted. apply midpoint_in. Qed.

Lemma measure_facts old arr s' o : measure old arr = (s', o) -> length s' = length old /\ in_i64 o.
Proof.
  unfold measure. destruct old as [|x old'].
  - intros E. inversion E. split; [reflexivity|]. unfold in_i64, min_i64, max_i64. lia.
  - intros E. inversion E. split; [apply collect_length|apply ftm_sorted_in].
Qed.

Lemma measure_full old arr : length arr = length old -> old <> [] ->
  measure old arr = (zsort arr, ftm_sorted (zsort arr)) /\ ftm arr = Some (ftm_sorted (zsort arr)).
Proof.
  intros HL Hne. unfold measure, collect. destruct old as [|x old']; [congruence|].
  rewrite <- HL. rewrite firstn_all. rewrite HL, skipn_all, app_nil_r. split; [reflexivity|].
  unfold ftm. destruct arr; [discriminate|reflexivity].
Qed.

Lemma timely_length l : forallb (fun s => match s with Timely _ => true | Failed => false end) l = true ->
  length (timely l) = length l.
Proof.
  induction l as [|[v|] l IH]; cbn; intros H; [reflexivity| |discriminate]. rewrite IH by exact H. reflexivity.
Qed.

Lemma all_timely_some n l vs : all_timely n l = Some vs -> vs = timely l /\ length vs = n.
Proof.
  unfold all_timely. destruct (forallb _ l) eqn:A; [|discriminate]. destruct (Nat.eqb (length l) n) eqn:B; [|discriminate].
  cbn. intros E. inversion E. split; [reflexivity|]. rewrite timely_length by exact A. apply Nat.eqb_eq. exact B.
Qed.

Lemma known_ref_ok nref old l s' ro : length old = nref -> measure old (timely l) = (s', ro) ->
  known_ref nref l = None \/ known_ref nref l = Some ro.
Proof.
  intros HL M. unfold known_ref. destruct (all_timely nref l) as [vs|] eqn:A; [|left; reflexivity].
  destruct (all_timely_some _ _ _ A) as [-> Hn].
  destruct old as [|x old'].
  - cbn in HL. subst nref. destruct (timely l); [left; reflexivity|discriminate].
  - destruct (measure_full (x :: old') (timely l)) as [M' F]; [congruence|discriminate|].
    rewrite M in M'. inversion M'. right. exact F.
Qed.

Lemma known_peer_ok npeer old l s' po : length old = peer_slots npeer -> measure old (peer_arrivals npeer l) = (s', po) ->
  known_peer npeer l = None \/ (known_peer npeer l = Some po /\ po <> min_i64).
Proof.
  intros HL M. unfold known_peer. destruct (all_timely npeer l) as [vs|] eqn:A; [|left; reflexivity].
  destruct (all_timely_some _ _ _ A) as [-> Hn].
  destruct npeer as [|k].
  - destruct old; [|discriminate]. cbn in M. inversion M.
    destruct (timely l); [|discriminate]. right. split; [reflexivity|discriminate].
  - cbn [peer_arrivals] in M.
    destruct (measure_full old (timely l ++ [0])) as [M' F].
    + rewrite app_length, Hn, HL. cbn. lia.
    + destruct old; [discriminate|discriminate].
    + rewrite M in M'. inversion M'. rewrite F.
      destruct (ftm_sorted (zsort (timely l ++ [0])) =? min_i64) eqn:E; [left; reflexivity|].
      right. split; [reflexivity|]. apply Z.eqb_neq. exact E.
Qed.

Lemma repeat_length' {A} (x : A) n : length (repeat x n) = n.
Proof. apply repeat_length. Qed.

(* ---- stale values: when every value in a slice and every arrival is small, so is the aggregated offset ---- *)
Definition psmall (cfg : config) (v : Z) : Prop := peer_small cfg v = true.

Lemma psmall_abs cfg v : psmall cfg v <-> Z.abs v <= c_cutoff cfg /\ Z.abs v < 2^62.
Proof. unfold psmall, peer_small. rewrite andb_true_iff, Z.leb_le, Z.ltb_lt. tauto. Qed.

Lemma In_firstn_in {A} (l : list A) n x : In x (firstn n l) -> In x l.
Proof. revert n. induction l as [|y r IH]; intros [|n] H; cbn in *; try contradiction. destruct H; [left; assumption|right; eauto]. Qed.

Lemma In_skipn_in {A} (l : list A) n x : In x (skipn n l) -> In x l.
Proof. revert n. induction l as [|y r IH]; intros [|n] H; cbn in *; try contradiction; try assumption. right; eauto. Qed.

(* the fault-tolerant midpoint of a slice is the Midpoint of two of its elements *)
Lemma ftm_sorted_small cfg s : s <> [] -> Forall (psmall cfg) s -> psmall cfg (ftm_sorted s).
Proof.
  intros Hne HF. rewrite Forall_forall in HF. unfold ftm_sorted.
  assert (Hn : (1 <= length s)%nat) by (destruct s; [congruence|cbn; lia]).
  set (n := length s) in *. set (f := ((n - 1) / 3)%nat).
  assert (Hf : (f <= n - 1)%nat) by (unfold f; apply Nat.div_le_upper_bound; lia).
  assert (A : psmall cfg (nth f s 0)) by (apply HF, nth_In; fold n; lia).
  assert (B : psmall cfg (nth (n - 1 - f) s 0)) by (apply HF, nth_In; fold n; lia).
  apply psmall_abs in A. apply psmall_abs in B. apply psmall_abs.
  destruct (midpoint_small (nth f s 0) (nth (n - 1 - f) s 0)) as [_ M]; lia.
Qed.

Lemma measure_small cfg old arr s' o : psmall cfg 0 -> Forall (psmall cfg) old -> Forall (psmall cfg) arr ->
  measure old arr = (s', o) -> Forall (psmall cfg) s' /\ psmall cfg o.
Proof.
  intros H0 Ho Ha M. unfold measure in M. destruct old as [|x old'].
  - inversion M. split; [constructor|exact H0].
  - inversion M as [[E1 E2]]. clear M.
    set (old := x :: old') in *. unfold collect.
    set (X := firstn (length old) arr ++ skipn (length (firstn (length old) arr)) old).
    assert (FX : Forall (psmall cfg) X).
    { rewrite Forall_forall in *. intros v Hv. unfold X in Hv. apply in_app_or in Hv. destruct Hv as [Hv|Hv].
      - apply Ha. eapply In_firstn_in. exact Hv.
      - apply Ho. eapply In_skipn_in. exact Hv. }
    assert (PX : Permutation.Permutation X (zsort X)) by apply isort_perm.
    assert (FS : Forall (psmall cfg) (zsort X)).
    { rewrite Forall_forall in *. intros v Hv. apply FX. apply (Permutation.Permutation_in _ (Permutation.Permutation_sym PX)). exact Hv. }
    split; [exact FS|].
    assert (LX : length (zsort X) = length old).
    { pose proof (collect_length old arr) as CL. unfold collect in CL. fold X in CL. exact CL. }
    apply ftm_sorted_small; [intros EX; rewrite EX in LX; discriminate LX|exact FS].
Qed.

Lemma timely_small cfg l : forallb (peer_small cfg) (timely l) = true -> Forall (psmall cfg) (timely l).
Proof. intros H. rewrite Forall_forall. intros v Hv. rewrite forallb_forall in H. apply H. exact Hv. Qed.

(* ---- all rounds ---- *)
Lemma loop_ok cfg rm pm nref npeer rs : cap_ok rm -> cap_ok pm ->
  forall pe sref speer, length sref = nref -> length speer = peer_slots npeer ->
  (pe = true -> psmall cfg 0 /\ Forall (psmall cfg) speer) ->
  rounds_ok cfg rm pm nref npeer pe rs (loop cfg rm pm nref npeer rs sref speer) = true.
Proof.
  intros Hr Hp. induction rs as [|r rest IH]; intros pe sref speer L1 L2 Inv; [reflexivity|].
  cbn [loop].
  destruct (measure sref (timely (r_ref r))) as [sref' ro] eqn:M1.
  destruct (measure speer (peer_arrivals npeer (r_peer r))) as [speer' po] eqn:M2.
  destruct (measure_facts _ _ _ _ M1) as [L1' I1]. destruct (measure_facts _ _ _ _ M2) as [L2' I2].
  cbn [rounds_ok]. rewrite Z.eqb_refl. cbn [andb].
  set (pe' := pe && forallb (peer_small cfg) (timely (r_peer r))).
  assert (Inv' : pe' = true -> psmall cfg 0 /\ Forall (psmall cfg) speer' /\ psmall cfg po).
  { intros E. unfold pe' in E. apply andb_prop in E. destruct E as [E1 E2]. destruct (Inv E1) as [Z0 Fs].
    split; [exact Z0|]. apply (measure_small cfg speer (peer_arrivals npeer (r_peer r))); try assumption.
    unfold peer_arrivals. destruct npeer; [constructor|].
    apply Forall_app. split; [apply timely_small; exact E2|constructor; [exact Z0|constructor]]. }
  rewrite round_ok_model; try assumption.
  - cbn [andb]. apply IH; try congruence. intros E. destruct (Inv' E) as [A [B _]]. split; assumption.
  - eapply known_ref_ok; eassumption.
  - eapply known_peer_ok; eassumption.
  - intros E. apply (Inv' E).
Qed.

Lemma drift_calls_loop cfg rm pm nref npeer rs sref speer :
  drift_calls (loop cfg rm pm nref npeer rs sref speer) = ([], loop cfg rm pm nref npeer rs sref speer).
Proof.
  destruct rs as [|r rest]; [reflexivity|]. cbn [loop].
  destruct (measure sref _) as [a b]. destruct (measure speer _) as [c d]. reflexivity.
Qed.

(* ---- the whole run satisfies the property oracle ---- *)
Theorem run_oracle_env env cfg D nref npeer rs : in_i64 (c_interval cfg) -> in_i64 D ->
  C01_ok_env env cfg nref npeer rs (run cfg D nref npeer rs) = true.
Proof.
  intros Ii ID. unfold C01_ok_env, run.
  pose proof (prologue_cases cfg D Ii ID) as P.
  destruct (prologue cfg D) as [code nd|rm pm].
  - destruct P as [[-> ->] | [-> [Dn ->]]]; [reflexivity|].
    cbn. rewrite Z.eqb_refl. cbn. destruct (0 <? D) eqn:E; [lia|]. reflexivity.
  - destruct P as [-> [Dp [-> [-> [Cr Cp]]]]]. cbn [drift_calls].
    rewrite drift_calls_loop. cbn [forallb fst snd last]. rewrite Z.eqb_refl. cbn [andb].
    destruct (0 <? D) eqn:E; [|lia]. cbn [andb negb].
    apply loop_ok; try assumption; [apply repeat_length|rewrite repeat_length; reflexivity|].
    intros H. apply andb_prop in H. destruct H as [_ H]. split; [exact H|].
    apply Forall_forall. intros v Hv. apply repeat_spec in Hv. subst v. exact H.
Qed.

Theorem run_oracle cfg D nref npeer rs : in_i64 (c_interval cfg) -> in_i64 D ->
  C01_ok cfg nref npeer rs (run cfg D nref npeer rs) = true.
Proof. apply run_oracle_env. Qed.

(* ---- the start-up conditions in real numbers ---- *)
Lemma fsub_one_gt1 p : is_finite p = true -> (1 < B2R p)%R ->
  B2R (fsub p fone) = RN (B2R p - 1) /\ is_finite (fsub p fone) = true.
Proof.
  intros Hf H1. destruct fone_val as [O1 O2].
  unfold fsub. generalize (Bminus_correct prec emax Hprec Hmax mode_NE p fone Hf O2).
  rewrite O1. fold (RN (B2R p - 1)).
  rewrite Rlt_bool_true.
  - intros [A [B _]]. auto.
  - apply Rle_lt_trans with (Rabs (B2R p)); [|apply abs_B2R_lt_emax].
    rewrite (Rabs_pos_eq (B2R p)) by lra.
    apply abs_round_le_generic; auto with typeclass_instances; [apply generic_format_B2R|].
    rewrite Rabs_pos_eq by lra. lra.
Qed.

Lemma fle_real x y : is_finite x = true -> is_finite y = true -> (fle x y = true <-> (B2R x <= B2R y)%R).
Proof.
  intros Hx Hy. rewrite fle_finite by assumption. split.
  - case Rle_bool_spec; [auto|discriminate].
  - intros H. apply Rle_bool_true. exact H.
Qed.

(* for finite factors !(x > y) is x <= y *)
Lemma inadmissible_finite cfg : is_finite (c_ref cfg) = true -> is_finite (c_peer cfg) = true ->
  inadmissible cfg =
  (fle (c_ref cfg) fone || fle (c_peer cfg) fone || fle (fsub (c_peer cfg) fone) (c_ref cfg)
   || (c_interval cfg <=? 0) || (c_timeout cfg <? 0) || (Z.quot (c_interval cfg) 2 <? c_timeout cfg)).
Proof.
  intros Fr Fp. destruct fone_val as [O1 O2]. unfold inadmissible.
  rewrite (ngt_fle (c_ref cfg) fone) by (apply finite_not_nan; assumption).
  rewrite (ngt_fle (c_peer cfg) fone) by (apply finite_not_nan; assumption).
  destruct (fle (c_peer cfg) fone) eqn:T2.
  - rewrite !orb_true_r. reflexivity.
  - pose proof (fle_false_gt _ _ Fp O2 T2) as Gp. rewrite O1 in Gp.
    destruct (fsub_one_gt1 _ Fp Gp) as [_ S2].
    rewrite (ngt_fle (fsub (c_peer cfg) fone) (c_ref cfg)) by (apply finite_not_nan; assumption). reflexivity.
Qed.

Lemma inadmissible_real cfg : is_finite (c_ref cfg) = true -> is_finite (c_peer cfg) = true ->
  (inadmissible cfg = true <->
   (B2R (c_ref cfg) <= 1)%R \/ (B2R (c_peer cfg) <= 1)%R \/ (RN (B2R (c_peer cfg) - 1) <= B2R (c_ref cfg))%R \/
   c_interval cfg <= 0 \/ c_timeout cfg < 0 \/ Z.quot (c_interval cfg) 2 < c_timeout cfg).
Proof.
  intros Fr Fp. destruct fone_val as [O1 O2]. rewrite (inadmissible_finite cfg Fr Fp).
  pose proof (fle_real _ _ Fr O2) as E1. pose proof (fle_real _ _ Fp O2) as E2. rewrite O1 in E1, E2.
  destruct (Rle_or_lt (B2R (c_peer cfg)) 1) as [Hp|Hp].
  - assert (fle (c_peer cfg) fone = true) as -> by (apply E2; exact Hp).
    rewrite orb_true_r. cbn. split; auto.
  - destruct (fsub_one_gt1 _ Fp Hp) as [S1 S2].
    pose proof (fle_real _ _ S2 Fr) as E3. rewrite S1 in E3.
    rewrite !orb_true_iff, E1, E2, E3, Z.leb_le, !Z.ltb_lt. tauto.
Qed.

(* a NaN factor is inadmissible (every comparison with NaN is false) *)
Lemma nan_inadmissible cfg : fis_nan (c_ref cfg) = true \/ fis_nan (c_peer cfg) = true -> inadmissible cfg = true.
Proof.
  intros [H|H]; unfold inadmissible.
  - rewrite (fgt_nan_l _ _ H). reflexivity.
  - rewrite (fgt_nan_l (c_peer cfg) fone H). cbn. rewrite orb_true_r. reflexivity.
Qed.

(* so is every infinite factor except a peer factor +Inf *)
Lemma inf_inadmissible cfg : is_finite (c_ref cfg) = false \/ c_peer cfg = B754_infinity true -> inadmissible cfg = true.
Proof.
  intros H. destruct (inadmissible cfg) eqn:E; [reflexivity|exfalso].
  unfold inadmissible in E. rewrite !orb_false_iff, !negb_false_iff in E. destruct E as [[[[[T1 T2] T3] _] _] _].
  destruct (factor_tests cfg T1 T2 T3) as [[Fr _] _].
  destruct H as [H|H]; [congruence|]. rewrite H in T2. vm_compute in T2. discriminate T2.
Qed.

(* a peer factor that does not exceed the reference factor by more than 1 (in exact arithmetic) is refused *)
Lemma gap_refused cfg : is_finite (c_ref cfg) = true -> is_finite (c_peer cfg) = true ->
  (B2R (c_peer cfg) - B2R (c_ref cfg) <= 1)%R -> inadmissible cfg = true.
Proof.
  intros Fr Fp H. apply inadmissible_real; try assumption. right. right. left.
  rewrite <- (RN_B2R (c_ref cfg)). apply RN_le. lra.
Qed.

(* ---- for admissible factors the reference cap never exceeds the peer cap ---- *)
Lemma fle_refl_pinf : fle (B754_infinity false) (B754_infinity false) = true.
Proof. reflexivity. Qed.

Lemma caps_ordered_fin cfg D : is_finite (c_ref cfg) = true -> is_finite (c_peer cfg) = true ->
  inadmissible cfg = false -> in_i64 D -> 0 < D ->
  fle (cap (c_ref cfg) D) (cap (c_peer cfg) D) = true.
Proof.
  intros Fr Fp Hin ID Dp. destruct fone_val as [O1 O2].
  rewrite (inadmissible_finite cfg Fr Fp) in Hin. rewrite !orb_false_iff in Hin. destruct Hin as [[[[[T1 T2] T3] _] _] _].
  pose proof (fle_false_gt _ _ Fr O2 T1) as Gr. pose proof (fle_false_gt _ _ Fp O2 T2) as Gp. rewrite O1 in Gr, Gp.
  destruct (fsub_one_gt1 _ Fp Gp) as [S1 S2].
  pose proof (fle_false_gt _ _ S2 Fr T3) as G3. rewrite S1 in G3.
  assert (Hrp : (B2R (c_ref cfg) <= B2R (c_peer cfg))%R).
  { apply Rlt_le. eapply Rlt_le_trans; [exact G3|]. rewrite <- (RN_B2R (c_peer cfg)) at 2. apply RN_le. lra. }
  destruct (cap_sign (c_ref cfg) D Fr Gr ID) as [_ Cr]. destruct (cap_sign (c_peer cfg) D Fp Gp ID) as [_ Cp].
  specialize (Cr Dp). specialize (Cp Dp).
  destruct (cap_ok_cases _ Cp) as [Ep | [Pf Pm]].
  - rewrite Ep. destruct (cap_ok_cases _ Cr) as [Er | [Rf Rm]]; [rewrite Er; reflexivity|apply fle_pinf; exact Rf].
  - (* the peer cap is finite: no overflow there, hence none for the reference cap *)
    destruct (f_of_int_correct D (in_i64_abs D ID)) as [E1 E2].
    assert (HD1 : (1 <= RN (IZR D))%R) by (rewrite <- RN_1; apply RN_le, IZR_le; lia).
    assert (Hmono : (RN (B2R (c_ref cfg) * RN (IZR D)) <= RN (B2R (c_peer cfg) * RN (IZR D)))%R) by (apply RN_le; nra).
    assert (Hpos : (0 <= RN (B2R (c_ref cfg) * RN (IZR D)))%R) by (rewrite <- RN_0; apply RN_le; nra).
    assert (PV : B2R (cap (c_peer cfg) D) = RN (B2R (c_peer cfg) * RN (IZR D))).
    { generalize (Bmult_correct prec emax Hprec Hmax mode_NE (c_peer cfg) (f_of_int D)). rewrite E1.
      fold (RN (B2R (c_peer cfg) * RN (IZR D))). fold (fmul (c_peer cfg) (f_of_int D)). fold (cap (c_peer cfg) D).
      case Rlt_bool_spec; [intros _ [A _]; exact A|].
      intros _ R. exfalso. destruct (cap (c_peer cfg) D); try discriminate. }
    pose proof (abs_B2R_lt_emax _ _ (cap (c_peer cfg) D)) as PB. rewrite PV in PB.
    generalize (Bmult_correct prec emax Hprec Hmax mode_NE (c_ref cfg) (f_of_int D)). rewrite E1.
    fold (RN (B2R (c_ref cfg) * RN (IZR D))). fold (fmul (c_ref cfg) (f_of_int D)). fold (cap (c_ref cfg) D).
    rewrite Rlt_bool_true.
    + intros [A [B _]]. rewrite Fr, E2 in B. cbn in B.
      apply fle_real; [exact B|exact Pf|]. rewrite A, PV. exact Hmono.
    + rewrite Rabs_pos_eq by exact Hpos. eapply Rle_lt_trans; [exact Hmono|].
      eapply Rle_lt_trans; [apply Rle_abs|exact PB].
Qed.

Lemma admissible_factors cfg : inadmissible cfg = false ->
  (is_finite (c_ref cfg) = true /\ (1 < B2R (c_ref cfg))%R) /\
  (c_peer cfg = B754_infinity false \/ (is_finite (c_peer cfg) = true /\ (1 < B2R (c_peer cfg))%R)).
Proof.
  intros E. unfold inadmissible in E. rewrite !orb_false_iff, !negb_false_iff in E. destruct E as [[[[[T1 T2] T3] _] _] _].
  apply factor_tests; assumption.
Qed.

Lemma caps_ordered cfg D : inadmissible cfg = false -> in_i64 D -> 0 < D ->
  fle (cap (c_ref cfg) D) (cap (c_peer cfg) D) = true.
Proof.
  intros Hin ID Dp. destruct (admissible_factors cfg Hin) as [[Fr Gr] [E|[Fp Gp]]].
  - rewrite E, cap_pinf by assumption.
    destruct (cap_sign (c_ref cfg) D Fr Gr ID) as [_ Cr]. specialize (Cr Dp).
    destruct (cap_ok_cases _ Cr) as [-> | [Rf _]]; [reflexivity|apply fle_pinf; exact Rf].
  - apply caps_ordered_fin; assumption.
Qed.

(* ---- caps below 2^53 ns: "within" is the integer inequality |c| <= floor(cap) ---- *)
Lemma format_int z : Z.abs z <= 2^53 -> generic_format radix2 fexp (IZR z).
Proof.
  intros Hz. apply generic_format_abs_inv. rewrite <- abs_IZR.
  destruct (Z.eq_dec (Z.abs z) (2^53)) as [E|E].
  - rewrite E. change (IZR (2^53)) with (bpow radix2 53). apply format_pow2. lia.
  - apply generic_format_FLT. apply (FLT_spec _ _ _ _ (Float radix2 (Z.abs z) 0)).
    + unfold F2R; simpl. lra.
    + simpl. rewrite Z.abs_involutive. unfold prec. lia.
    + simpl. unfold SpecFloat.emin, emax, prec. lia.
Qed.

Lemma RN_two53 : RN (IZR (2^53)) = IZR (2^53).
Proof. apply RN_id_format. apply format_int. cbn. lia. Qed.

Lemma within_exact c mx : is_finite mx = true -> (0 < B2R mx < IZR (2^53))%R -> Z.abs c <= 2^64 ->
  (within c mx = true <-> Z.abs c <= Zfloor (B2R mx)).
Proof.
  intros Hf [H0 H1] Hc. rewrite within_real by assumption. split.
  - case Rle_bool_spec; [|discriminate]. intros H _.
    destruct (Z_le_gt_dec (Z.abs c) (2^53)) as [L|G].
    + rewrite RN_id_format in H by (apply format_int; rewrite Z.abs_involutive; exact L).
      apply Zfloor_lub. exact H.
    + exfalso. assert (IZR (2^53) <= RN (IZR (Z.abs c)))%R by (rewrite <- RN_two53; apply RN_le, IZR_le; lia). lra.
  - intros H. apply Rle_bool_true. rewrite <- (RN_B2R mx). apply RN_le.
    eapply Rle_trans; [apply IZR_le, H|apply Zfloor_lb].
Qed.

(* ---- histories: the events of a run ---- *)
Inductive alternates (P : Z -> Prop) (d : Z) : nat -> list event -> Prop :=
| alt_nil : alternates P d 0 []
| alt_cons c n evs : P c -> alternates P d n evs -> alternates P d (S n) (EDo c :: ESleep d :: evs).

Lemma loop_alternates cfg rm pm nref npeer rs : forall sref speer,
  alternates (fun c => exists ro po, in_i64 ro /\ in_i64 po /\ c = Sync.round cfg rm pm nref npeer ro po)
             (c_interval cfg) (length rs) (loop cfg rm pm nref npeer rs sref speer).
Proof.
  induction rs as [|r rest IH]; intros sref speer; [constructor|].
  cbn [loop length].
  destruct (measure sref (timely (r_ref r))) as [sref' ro] eqn:M1.
  destruct (measure speer (peer_arrivals npeer (r_peer r))) as [speer' po] eqn:M2.
  destruct (measure_facts _ _ _ _ M1) as [_ I1]. destruct (measure_facts _ _ _ _ M2) as [_ I2].
  constructor; [exists ro, po; auto|apply IH].
Qed.

Lemma alternates_weaken (P Q : Z -> Prop) d n evs : (forall c, P c -> Q c) -> alternates P d n evs -> alternates Q d n evs.
Proof. intros H A. induction A; constructor; auto. Qed.

(* the bound of one round, in the form used for histories *)
Definition corr_bounded (cfg : config) (rm pm : f64) (nref npeer : nat) (c : Z) : Prop :=
  match nref, npeer with
  | O, O => c = 0
  | S _, O => within c rm = true
  | O, S _ => within c pm = true
  | S _, S _ => flt pm two62f = true -> within c pm = true
  end.

Lemma within_zero mx : cap_ok mx -> within 0 mx = true.
Proof.
  intros H. destruct (cap_ok_cases mx H) as [-> | [Hf Hm]]; [apply within_pinf; cbn; lia|].
  rewrite within_real by (assumption || (cbn; lia)). apply Rle_bool_true. cbn. rewrite RN_0. lra.
Qed.

Lemma within_le_caps c rm pm : cap_ok rm -> cap_ok pm -> fle rm pm = true -> Z.abs c <= 2^64 ->
  within c rm = true -> within c pm = true.
Proof.
  intros Hr Hp Hle Hc Hw.
  destruct (cap_ok_cases pm Hp) as [-> | [Pf Pm]]; [apply within_pinf; exact Hc|].
  destruct (cap_ok_cases rm Hr) as [-> | [Rf Rm]]; [destruct pm; try discriminate; destruct s; discriminate|].
  rewrite within_real in * by assumption.
  apply Rle_bool_true. apply fle_real in Hle; try assumption.
  revert Hw. case Rle_bool_spec; [|discriminate]. intros. lra.
Qed.

Lemma flt_le_trans rm pm : cap_ok rm -> cap_ok pm -> fle rm pm = true -> flt pm two62f = true -> flt rm two62f = true.
Proof.
  intros Hr Hp Hle Hs. destruct two62f_val as [T1 T2].
  destruct (cap_ok_cases pm Hp) as [-> | [Pf Pm]]; [destruct two62f; discriminate|].
  destruct (cap_ok_cases rm Hr) as [-> | [Rf Rm]]; [destruct pm; try discriminate; destruct s; discriminate|].
  rewrite flt_finite in * by assumption. apply fle_real in Hle; try assumption.
  apply Rlt_bool_true. revert Hs. case Rlt_bool_spec; [|discriminate]. intros. lra.
Qed.

Lemma round_bounded cfg rm pm nref npeer ro po : cap_ok rm -> cap_ok pm -> fle rm pm = true ->
  in_i64 ro -> in_i64 po -> corr_bounded cfg rm pm nref npeer (Sync.round cfg rm pm nref npeer ro po).
Proof.
  intros Hr Hp Hle Iro Ipo. rewrite round_shape by assumption.
  destruct (bounded_facts rm ro Hr Iro) as [Wr Ir]. destruct (bounded_facts pm po Hp Ipo) as [Wp Ip].
  unfold corr_bounded, contributes.
  destruct nref as [|nr], npeer as [|np]; cbn [Nat.eqb negb andb].
  - reflexivity.
  - destruct (c_cutoff cfg <? dabs po); [exact Wp|apply within_zero; exact Hp].
  - exact Wr.
  - intros Hs. destruct (c_cutoff cfg <? dabs po).
    + pose proof (flt_le_trans rm pm Hr Hp Hle Hs) as Hsr.
      pose proof (midpoint_within rm pm _ _ Hr Hp Ir Ip Hsr Hs Wr Wp) as M.
      apply orb_true_iff in M. destruct M as [M|M]; [|exact M].
      apply (within_le_caps _ rm pm Hr Hp Hle); [apply in_i64_abs, midpoint_in|exact M].
    + apply (within_le_caps _ rm pm Hr Hp Hle); [apply in_i64_abs, Ir|exact Wr].
Qed.

(* one correction per round, each within the bound, for every history *)
Theorem run_history cfg D nref npeer rs :
  in_i64 (c_interval cfg) -> in_i64 D ->
  inadmissible cfg = false -> 0 < D ->
  exists evs,
    run cfg D nref npeer rs = (false, EDrift (c_interval cfg) D :: EDrift (c_interval cfg) D :: evs) /\
    alternates (corr_bounded cfg (cap (c_ref cfg) D) (cap (c_peer cfg) D) nref npeer) (c_interval cfg) (length rs) evs.
Proof.
  intros Ii ID Hin Dp. pose proof (prologue_cases cfg D Ii ID) as P. unfold run.
  destruct (prologue cfg D) as [code nd|rm pm].
  - exfalso. destruct P as [[A _]|[_ [B _]]]; [congruence|lia].
  - destruct P as [_ [_ [-> [-> [Cr Cp]]]]]. eexists. split; [reflexivity|].
    eapply alternates_weaken; [|apply loop_alternates].
    intros c [ro [po [I1 [I2 ->]]]]. apply round_bounded; try assumption.
    apply caps_ordered; assumption.
Qed.

(* inadmissible settings and clocks without a positive drift: nothing is ever handed to the discipline *)
Theorem run_refused cfg D nref npeer rs :
  in_i64 (c_interval cfg) -> in_i64 D ->
  inadmissible cfg = true \/ D <= 0 ->
  exists nd, run cfg D nref npeer rs = (true, repeat (EDrift (c_interval cfg) D) nd).
Proof.
  intros Ii ID H. pose proof (prologue_cases cfg D Ii ID) as P. unfold run.
  destruct (prologue cfg D) as [code nd|rm pm]; [eexists; reflexivity|].
  exfalso. destruct P as [A [B _]]. destruct H; [congruence|lia].
Qed.

(* ---- beyond 2^62 ns the midpoint of the two bounded values can wrap (boundary observation) ---- *)
Definition wit_cfg : config := mkcfg (f_of_bits 4608308318706860032) (f_of_bits 4612811918334230528) 50000 500000000 1000000000.
Definition wit_D : Z := 3000000000000000000.

Lemma midpoint_wraps_beyond_2p62 :
  inadmissible wit_cfg = false /\ 0 < wit_D /\ in_i64 wit_D /\
  flt (cap (c_peer wit_cfg) wit_D) (f_of_int two63) = true /\
  flt (cap (c_peer wit_cfg) wit_D) two62f = false /\
  within (Sync.round wit_cfg (cap (c_ref wit_cfg) wit_D) (cap (c_peer wit_cfg) wit_D) 1 1 min_i64 5473372036854775808)
         (cap (c_peer wit_cfg) wit_D) = false.
Proof. vm_compute. repeat split; try reflexivity; discriminate. Qed.

Example history_hypotheses_inhabited :
  is_finite (c_ref wit_cfg) = true /\ is_finite (c_peer wit_cfg) = true /\ inadmissible wit_cfg = false /\
  cap_ok (cap (c_ref wit_cfg) 100000) /\ flt (cap (c_peer wit_cfg) 100000) two62f = true.
Proof. vm_compute. repeat split; reflexivity. Qed.

(* the cap is the correctly rounded product impact x D when D < 2^53 (float64(D) is exact) *)
Lemma cap_real f D : is_finite f = true -> Z.abs D <= 2^53 -> is_finite (cap f D) = true ->
  B2R (cap f D) = RN (B2R f * IZR D).
Proof.
  intros Hf HD Hc. destruct (f_of_int_correct D) as [E1 E2]; [lia|].
  rewrite (RN_id_format _ (format_int D HD)) in E1.
  generalize (Bmult_correct prec emax Hprec Hmax mode_NE f (f_of_int D)). rewrite E1.
  fold (fmul f (f_of_int D)). fold (cap f D). fold (RN (B2R f * IZR D)).
  case Rlt_bool_spec; [intros _ [A _]; exact A|].
  intros _ R. exfalso. destruct (cap f D); try discriminate.
Qed.

(* the clamp fires only when the cap is below 2^63, so the conversion back to int64 never overflows *)
Lemma clamp_no_conversion_overflow mx off : is_finite mx = true -> (0 < B2R mx)%R -> in_i64 off ->
  exceeds off mx = true ->
  (B2R mx < IZR two63)%R /\ clamp mx off = sgn off * Zfloor (B2R mx) /\ in_i64 (clamp mx off).
Proof.
  intros Hf Hm Hoff Ex. destruct (clamp_spec mx off Hf Hm Hoff) as [[E _] | [_ [_ [E3 [E4 [E5 _]]]]]]; [congruence|].
  split; [exact E3|]. split; [exact E5|].
  destruct (clamp_facts mx off) as [_ [I _]]; [|exact Hoff|exact I].
  split; [apply finite_not_nan, Hf|]. rewrite flt_finite by (exact Hf || reflexivity). apply Rlt_bool_true. exact Hm.
Qed.

(* ---- statements exported to Props/C01.v ---- *)
Theorem startup_refusal cfg D :
  in_i64 (c_interval cfg) -> in_i64 D ->
  ((exists code nd, prologue cfg D = Refuse code nd) <-> (inadmissible cfg = true \/ D <= 0)) /\
  (forall rm pm, prologue cfg D = Start rm pm ->
     rm = cap (c_ref cfg) D /\ pm = cap (c_peer cfg) D /\ cap_ok rm /\ cap_ok pm /\ fle rm pm = true).
Proof.
  intros Ii ID. pose proof (prologue_cases cfg D Ii ID) as P.
  destruct (prologue cfg D) as [code nd|rm pm].
  - split.
    + split; [intros _|intros _; eauto]. destruct P as [[A _]|[_ [B _]]]; auto.
    + intros rm pm E. discriminate.
  - destruct P as [A [B [-> [-> [Cr Cp]]]]]. split.
    + split; [intros [code [nd E]]; discriminate|]. intros [H|H]; [congruence|lia].
    + intros rm pm E. inversion E. subst. repeat split; try assumption; try apply Cr; try apply Cp.
      apply caps_ordered; assumption.
Qed.

(* a peer offset within the cutoff contributes nothing *)
Theorem cutoff_contributes_nothing cfg rm pm nref npeer ro po :
  cap_ok rm -> cap_ok pm -> in_i64 ro -> in_i64 po -> po <> min_i64 -> Z.abs po <= c_cutoff cfg ->
  Sync.round cfg rm pm nref npeer ro po = match nref with O => 0 | S _ => bounded rm ro end.
Proof.
  intros Hr Hp Iro Ipo Hn Hc. rewrite round_shape by assumption. unfold contributes.
  rewrite (dabs_abs po Hn Ipo). destruct (c_cutoff cfg <? Z.abs po) eqn:E; [lia|].
  rewrite andb_false_r. destruct nref; reflexivity.
Qed.

(* clocks.UnknownDrift (configured drift 0): Drift reports MaxInt64, whatever the interval *)
Lemma unknown_drift d : Units.sysclk_drift 0 d = max_i64.
Proof. unfold Units.sysclk_drift. replace (feq (dur_seconds 0) fzero) with true by (vm_compute; reflexivity). reflexivity. Qed.

(* a NaN impact factor is refused before the clock is even asked for its drift: Run panics, no event at all
   (whatever the clock, the sources and the other settings are) *)
Theorem nan_factor_refused cfg D nref npeer rs :
  fis_nan (c_ref cfg) = true \/ fis_nan (c_peer cfg) = true ->
  inadmissible cfg = true /\ run cfg D nref npeer rs = (true, []).
Proof.
  intros H. split; [apply nan_inadmissible; exact H|].
  unfold run, prologue. destruct H as [H|H].
  - rewrite (fgt_nan_l _ _ H). reflexivity.
  - rewrite (fgt_nan_l (c_peer cfg) fone H). destruct (fgt (c_ref cfg) fone); reflexivity.
Qed.

(* the only non-finite setting that is accepted is a peer factor +Inf (with a finite reference factor):
   the peer cap is then +Inf - the peer side is not bounded, the reference side is *)
Lemma pinf_peer_cap cfg D : inadmissible cfg = false -> is_finite (c_peer cfg) = false -> in_i64 D -> 0 < D ->
  c_peer cfg = B754_infinity false /\ cap (c_peer cfg) D = B754_infinity false /\ is_finite (c_ref cfg) = true.
Proof.
  intros Hin Hp ID Dp. destruct (admissible_factors cfg Hin) as [[Fr _] [E|[Fp _]]]; [|congruence].
  rewrite E. split; [reflexivity|]. split; [apply cap_pinf; assumption|exact Fr].
Qed.

(* ---- histories with the property's case analysis ---- *)
Definition beyond (cfg : config) (po : Z) : bool := c_cutoff cfg <? dabs po.
Definition nowrap (r p : Z) : Prop := Z.abs (p - r) <= max_i64.

(* the case analysis of the property for one round, ro and po being the aggregated offsets of the two sides *)
Definition corr_cases (cfg : config) (rm pm : f64) (nref npeer : nat) (ro po c : Z) : Prop :=
  match nref, npeer with
  | O, O => c = 0
  | S _, O => c = Sync.bounded rm ro /\ within c rm = true
  | O, S _ => if beyond cfg po then c = Sync.bounded pm po /\ within c pm = true else c = 0
  | S _, S _ =>
      if beyond cfg po
      then c = midpoint (Sync.bounded rm ro) (Sync.bounded pm po) /\
           (nowrap (Sync.bounded rm ro) (Sync.bounded pm po) -> within c pm = true)
      else c = Sync.bounded rm ro /\ within c rm = true
  end.

Lemma round_cases cfg rm pm nref npeer ro po : cap_ok rm -> cap_ok pm -> fle rm pm = true ->
  in_i64 ro -> in_i64 po -> corr_cases cfg rm pm nref npeer ro po (Sync.round cfg rm pm nref npeer ro po).
Proof.
  intros Hr Hp Hle Iro Ipo. rewrite round_shape by assumption.
  destruct (bounded_facts rm ro Hr Iro) as [Wr Ir]. destruct (bounded_facts pm po Hp Ipo) as [Wp Ip].
  unfold corr_cases, contributes, beyond.
  destruct nref as [|nr], npeer as [|np]; cbn [Nat.eqb negb andb].
  - reflexivity.
  - destruct (c_cutoff cfg <? dabs po); [split; [reflexivity|exact Wp]|reflexivity].
  - split; [reflexivity|exact Wr].
  - destruct (c_cutoff cfg <? dabs po); [|split; [reflexivity|exact Wr]].
    split; [reflexivity|]. intros Hn. unfold nowrap in Hn.
    destruct (midpoint_nowrap _ _ Ir Ip Hn) as [_ Hm].
    pose proof (within_le_caps _ rm pm Hr Hp Hle (in_i64_abs _ Ir) Wr) as Wr'.
    destruct (Z_le_dec (Z.abs (Sync.bounded pm po)) (Z.abs (Sync.bounded rm ro))) as [L|G].
    + apply (within_mono (Sync.bounded rm ro) _ pm Hp (in_i64_abs _ Ir)); [lia|exact Wr'].
    + apply (within_mono (Sync.bounded pm po) _ pm Hp (in_i64_abs _ Ip)); [lia|exact Wp].
Qed.

(* histories: the slices of the two sides are the state; every round's correction obeys the case analysis for the
   aggregated offsets that measureOffsetToRefClks computes from this round's timely answers and the stale values *)
Inductive history (cfg : config) (rm pm : f64) (nref npeer : nat) : list rnd -> list Z -> list Z -> list event -> Prop :=
| hist_nil sref speer : history cfg rm pm nref npeer [] sref speer []
| hist_cons r rest sref speer sref' speer' ro po c evs :
    measure sref (timely (r_ref r)) = (sref', ro) ->
    measure speer (peer_arrivals npeer (r_peer r)) = (speer', po) ->
    in_i64 ro -> in_i64 po ->
    corr_cases cfg rm pm nref npeer ro po c ->
    history cfg rm pm nref npeer rest sref' speer' evs ->
    history cfg rm pm nref npeer (r :: rest) sref speer (EDo c :: ESleep (c_interval cfg) :: evs).

Lemma loop_history cfg rm pm nref npeer rs : cap_ok rm -> cap_ok pm -> fle rm pm = true -> forall sref speer,
  history cfg rm pm nref npeer rs sref speer (loop cfg rm pm nref npeer rs sref speer).
Proof.
  intros Hr Hp Hle. induction rs as [|r rest IH]; intros sref speer; [constructor|].
  cbn [loop].
  destruct (measure sref (timely (r_ref r))) as [sref' ro] eqn:M1.
  destruct (measure speer (peer_arrivals npeer (r_peer r))) as [speer' po] eqn:M2.
  destruct (measure_facts _ _ _ _ M1) as [_ I1]. destruct (measure_facts _ _ _ _ M2) as [_ I2].
  econstructor; try eassumption; [apply round_cases; assumption|apply IH].
Qed.

Theorem run_history_cases cfg D nref npeer rs : in_i64 (c_interval cfg) -> in_i64 D ->
  inadmissible cfg = false -> 0 < D ->
  exists evs,
    run cfg D nref npeer rs = (false, EDrift (c_interval cfg) D :: EDrift (c_interval cfg) D :: evs) /\
    history cfg (cap (c_ref cfg) D) (cap (c_peer cfg) D) nref npeer rs (repeat 0 nref) (repeat 0 (peer_slots npeer)) evs.
Proof.
  intros Ii ID Hin Dp. pose proof (prologue_cases cfg D Ii ID) as P. unfold run.
  destruct (prologue cfg D) as [code nd|rm pm].
  - exfalso. destruct P as [[A _]|[_ [B _]]]; [congruence|lia].
  - destruct P as [_ [_ [-> [-> [Cr Cp]]]]]. eexists. split; [reflexivity|].
    apply loop_history; try assumption. apply caps_ordered; assumption.
Qed.
