(* The inductive invariant of the server's timestamp store and what the
   replies look like (C06, C07). *)
From ST Require Import Base.Ints Model.NtpTime Model.Tss Proofs.NtpTimeProofs Proofs.TssProofs.
From Coq Require Import ZArith List Bool Lia.
Import ListNotations.
Open Scope Z_scope.

Definition kq (it : item) : Z * Z := (it_key it, it_qval it).

Definition item_ok (c : config) (it : item) : Prop :=
  (1 <= length (it_ents it))%nat /\ Z.of_nat (length (it_ents it)) <= icap c /\
  NoDup (map e_rx (it_ents it)) /\
  (forall e, In e (it_ents it) -> e_rx e <= it_qval it) /\
  (forall e, In e (it_ents it) -> e_rx e < e_tx e).

Definition Inv (c : config) (s : tss) : Prop :=
  NoDup (map it_key (items s)) /\
  Z.of_nat (length (items s)) <= cap c /\
  Forall (item_ok c) (items s) /\
  hq s = map kq (items s).

(* ---------- association-list lemmas ---------- *)
Lemma find_item_In k l it : find_item k l = Some it -> In it l /\ it_key it = k.
Proof.
  induction l as [|x r IH]; cbn [find_item]; [discriminate|].
  destruct (it_key x =? k) eqn:E.
  - intros H; inversion H; subst. split; [left; reflexivity|lia].
  - intros H. destruct (IH H). split; [right; assumption|assumption].
Qed.

Lemma find_item_None k l : find_item k l = None -> ~ In k (map it_key l).
Proof.
  induction l as [|x r IH]; cbn [find_item map In]; [tauto|].
  destruct (it_key x =? k) eqn:E; [discriminate|]. intros H [H1|H1]; [lia|]. exact (IH H H1).
Qed.

Lemma In_find_item l it : NoDup (map it_key l) -> In it l -> find_item (it_key it) l = Some it.
Proof.
  induction l as [|x r IH]; cbn [map find_item In]; [tauto|]. intros Hnd [->|Hin].
  - rewrite Z.eqb_refl. reflexivity.
  - inversion Hnd as [|? ? Hn Hnd']; subst.
    destruct (it_key x =? it_key it) eqn:E.
    + exfalso. apply Hn. apply Z.eqb_eq in E. rewrite E. apply in_map. exact Hin.
    + apply IH; assumption.
Qed.

Lemma replace_item_keys it' l : map it_key (replace_item it' l) = map it_key l.
Proof.
  induction l as [|x r IH]; cbn [replace_item map]; [reflexivity|].
  destruct (it_key x =? it_key it') eqn:E; cbn [map]; [f_equal; lia|f_equal; exact IH].
Qed.

Lemma replace_item_length it' l : length (replace_item it' l) = length l.
Proof. rewrite <- (map_length it_key), replace_item_keys, map_length. reflexivity. Qed.

Lemma In_replace_item l : forall it' x, NoDup (map it_key l) ->
  In x (replace_item it' l) -> x = it' \/ (In x l /\ it_key x <> it_key it').
Proof.
  induction l as [|y r IH]; intros it' x Hnd; cbn [replace_item In]; [tauto|].
  cbn [map] in Hnd. inversion Hnd as [|? ? Hn Hnd']; subst.
  destruct (it_key y =? it_key it') eqn:E; cbn [In].
  - apply Z.eqb_eq in E. intros [<-|H]; [left; reflexivity|]. right. split; [right; exact H|].
    intros Heq. apply Hn. rewrite E, <- Heq. apply in_map. exact H.
  - apply Z.eqb_neq in E. intros [<-|H]; [right; split; [left; reflexivity|exact E]|].
    destruct (IH it' x Hnd' H) as [->|[H1 H2]]; [left; reflexivity|right; split; [right; exact H1|exact H2]].
Qed.

Lemma hq_fix_absent k v l : ~ In k (map it_key l) -> hq_fix k v (map kq l) = map kq l.
Proof.
  unfold hq_fix. induction l as [|z r IH]; cbn [map In]; intros Hn; [reflexivity|].
  replace (fst (kq z)) with (it_key z) by reflexivity.
  destruct (it_key z =? k) eqn:F; [exfalso; apply Hn; left; lia|].
  f_equal. apply IH. intros H. apply Hn. right. exact H.
Qed.

Lemma replace_item_kq_fix it' l : NoDup (map it_key l) ->
  map kq (replace_item it' l) = hq_fix (it_key it') (it_qval it') (map kq l).
Proof.
  induction l as [|y r IH]; intros Hnd; cbn [replace_item map]; [reflexivity|].
  cbn [map] in Hnd. inversion Hnd as [|? ? Hn Hnd']; subst.
  unfold hq_fix. cbn [map]. fold (hq_fix (it_key it') (it_qval it') (map kq r)).
  replace (fst (kq y)) with (it_key y) by reflexivity.
  destruct (it_key y =? it_key it') eqn:E; cbn [map].
  - apply Z.eqb_eq in E. f_equal. rewrite hq_fix_absent; [reflexivity|]. rewrite <- E. exact Hn.
  - f_equal. apply IH. exact Hnd'.
Qed.

Lemma replace_item_kq_same it it' l : NoDup (map it_key l) -> In it l ->
  it_key it' = it_key it -> it_qval it' = it_qval it -> map kq (replace_item it' l) = map kq l.
Proof.
  induction l as [|y r IH]; intros Hnd Hin Hk Hq; cbn [replace_item map]; [reflexivity|].
  cbn [map] in Hnd. inversion Hnd as [|? ? Hn Hnd']; subst.
  destruct (it_key y =? it_key it') eqn:E; cbn [map].
  - apply Z.eqb_eq in E. f_equal. destruct Hin as [->|Hin].
    + unfold kq. rewrite Hk, Hq. reflexivity.
    + exfalso. apply Hn. rewrite E, Hk. apply in_map. exact Hin.
  - apply Z.eqb_neq in E. f_equal. destruct Hin as [->|Hin]; [congruence|]. apply IH; assumption.
Qed.

Lemma remove_item_kq k l : map kq (remove_item k l) = hq_remove k (map kq l).
Proof.
  induction l as [|y r IH]; cbn [remove_item map hq_remove]; [reflexivity|].
  unfold kq at 2. destruct (it_key y =? k); cbn [map]; [reflexivity|]. f_equal. exact IH.
Qed.

Lemma In_remove_item k l x : In x (remove_item k l) -> In x l.
Proof.
  induction l as [|y r IH]; cbn [remove_item In]; [tauto|].
  destruct (it_key y =? k); cbn [In]; [intros H; right; exact H|]. intros [H|H]; [left; exact H|right; apply IH; exact H].
Qed.

Lemma remove_item_keys_NoDup k l : NoDup (map it_key l) -> NoDup (map it_key (remove_item k l)).
Proof.
  induction l as [|y r IH]; cbn [remove_item map]; intros Hnd; [constructor|].
  inversion Hnd as [|? ? Hn Hnd']; subst.
  destruct (it_key y =? k); [exact Hnd'|]. cbn [map]. constructor; [|apply IH; exact Hnd'].
  intros H. apply Hn. apply in_map_iff in H. destruct H as [x [Hx1 Hx2]]. rewrite <- Hx1. apply in_map. eapply In_remove_item; eauto.
Qed.

Lemma remove_item_not_in k l : NoDup (map it_key l) -> ~ In k (map it_key (remove_item k l)).
Proof.
  induction l as [|y r IH]; cbn [remove_item map]; intros Hnd; [tauto|].
  inversion Hnd as [|? ? Hn Hnd']; subst.
  destruct (it_key y =? k) eqn:E.
  - apply Z.eqb_eq in E. subst k. exact Hn.
  - apply Z.eqb_neq in E. cbn [map In]. intros [H|H]; [congruence|]. exact (IH Hnd' H).
Qed.

Lemma remove_item_length k l : In k (map it_key l) -> length (remove_item k l) = (length l - 1)%nat.
Proof.
  induction l as [|y r IH]; cbn [remove_item map In length]; [tauto|].
  destruct (it_key y =? k) eqn:E; [intros _; lia|]. apply Z.eqb_neq in E.
  intros [H|H]; [congruence|]. cbn [length]. rewrite (IH H).
  destruct r; [destruct H|cbn [length]; lia].
Qed.

Lemma remove_item_length_le k l : (length (remove_item k l) <= length l)%nat.
Proof.
  induction l as [|y r IH]; cbn [remove_item length]; [lia|]. destruct (it_key y =? k); cbn [length]; lia.
Qed.

Lemma hq_find_map_kq k l v : hq_find k (map kq l) = Some v -> In k (map it_key l).
Proof.
  induction l as [|y r IH]; cbn [map hq_find In]; [discriminate|]. unfold kq at 1.
  destruct (it_key y =? k) eqn:E; [intros _; left; lia|]. intros H. right. exact (IH H).
Qed.

Lemma map_set_nth_same {A} (f : A -> Z) i x l d : f x = f (nth i l d) -> map f (set_nth i x l) = map f l.
Proof.
  revert i; induction l as [|y r IH]; intros [|i]; cbn [set_nth map nth]; try reflexivity.
  - intros ->. reflexivity.
  - intros H. f_equal. apply IH. exact H.
Qed.

Lemma nth_error_nth_lt {A} (l : list A) i x d : nth_error l i = Some x -> nth i l d = x /\ (i < length l)%nat.
Proof.
  intros H. split; [apply nth_error_nth; exact H|]. apply nth_error_Some. congruence.
Qed.

Lemma nth_error_In' {A} (l : list A) i x : nth_error l i = Some x -> In x l.
Proof. apply nth_error_In. Qed.

Lemma NoDup_app_last {A} (l : list A) x : NoDup l -> ~ In x l -> NoDup (l ++ [x]).
Proof.
  intros Hnd Hn. induction l as [|y r IH]; cbn [app]; [constructor; [tauto|constructor]|].
  inversion Hnd as [|? ? Hy Hr]; subst. constructor.
  - intros H. apply in_app_or in H. destruct H as [H|[H|[]]]; [tauto|]. apply Hn. left. symmetry. exact H.
  - apply IH; [exact Hr|]. intros H. apply Hn. right. exact H.
Qed.

(* ---------- handleRequest for a client that has an item ---------- *)
Section Era.
Variable k : Z.
Variable c : config.
Hypothesis Hicap : 0 < icap c.

Definition reply_ok (ents : list entry) (q : request) (rx64 tx64 : Z) (r : reply) : Prop :=
  r_rx r = rx64 /\ r_ref r = tx64 /\
  ((r_inter r = true /\ r_org r = q_rx q /\ q_rx q <> q_tx q /\
      exists e, In e ents /\ e_rx e = q_org q /\ r_tx r = e_tx e) \/
   (r_inter r = false /\ r_org r = q_tx q /\ r_tx r = tx64 /\
      (q_rx q = q_tx q \/ forall e, In e ents -> e_rx e <> q_org q))).

Lemma handle_existing_spec s cid q rxt now victim it :
  find_item cid (items s) = Some it -> item_ok c it ->
  in_era k rxt -> in_era k (rxt + icap c + 1) -> in_era k now ->
  exists out it' hq',
    handle c s cid q rxt now victim = Some out /\
    o_state out = {| items := replace_item it' (items s); hq := hq' |} /\
    o_evicted out = None /\ o_stateless out = false /\
    rxt <= o_rxt out /\ o_rxt out < o_txt out /\ in_era k (o_rxt out) /\ in_era k (o_txt out) /\
    has_rx (to64 (o_rxt out)) (it_ents it) = false /\
    (rxt < now -> now <= o_txt out) /\
    it_key it' = cid /\ item_ok c it' /\
    (hq' = hq_fix cid (it_qval it') (hq s) \/ (hq' = hq s /\ it_qval it' = it_qval it)) /\
    reply_ok (it_ents it) q (to64 (o_rxt out)) (to64 (o_txt out)) (o_reply out) /\
    In {| e_rx := to64 (o_rxt out); e_tx := to64 (o_txt out) |} (it_ents it') /\
    (forall e, In e (it_ents it') -> e = {| e_rx := to64 (o_rxt out); e_tx := to64 (o_txt out) |} \/ In e (it_ents it)).
Proof.
  intros Hfind [Hlen1 [Hlen2 [Hnd [Hq Hrt]]]] Era1 Era2 Era3.
  unfold handle. rewrite Hfind.
  set (txt0 := if rxt <? now then now else rxt + 1).
  assert (Ht0 : rxt < txt0) by (unfold txt0; destruct (rxt <? now) eqn:E; lia).
  assert (Hfuel : in_era k (rxt + Z.of_nat (S (length (it_ents it))))).
  { apply (in_era_convex k rxt (rxt + icap c + 1)); auto. lia. }
  destruct (uniq_spec k (it_ents it) (S (length (it_ents it))) rxt txt0) as [rxt' [txt' [Hu [Hr1 [Hfresh [Hlt [Htx [_ Hge]]]]]]]]; auto.
  { pose proof (cnt_ge_le (to64 rxt) (it_ents it)). lia. }
  rewrite Hu.
  assert (EraR : in_era k rxt') by (apply (in_era_convex k rxt (rxt + icap c + 1)); auto; lia).
  assert (EraT0 : in_era k txt0).
  { unfold txt0. destruct (rxt <? now); [exact Era3|]. apply (in_era_convex k rxt (rxt + icap c + 1)); auto; lia. }
  assert (EraT : in_era k txt').
  { destruct Htx as [->| ->]; [exact EraT0|]. apply (in_era_convex k rxt (rxt + icap c + 1)); auto; lia. }
  assert (Hmono : to64 rxt' < to64 txt') by (apply (to64_strict_mono k); auto).
  pose proof (scan_spec (q_org q) (it_ents it)) as Hscan.
  destruct (scan (it_ents it) (q_org q)) as [[o mn] mx].
  destruct Hscan as [Ho [Hmn Hmx]].
  set (rx64 := to64 rxt') in *. set (tx64 := to64 txt') in *.
  set (e := {| e_rx := rx64; e_tx := tx64 |}).
  set (ents' := match o with
                | Some (i, _) => set_nth i e (it_ents it)
                | None => if Z.of_nat (length (it_ents it)) =? icap c
                          then match mn with Some (i, _) => set_nth i e (it_ents it) | None => it_ents it end
                          else it_ents it ++ [e]
                end).
  destruct mx as [[jm m]|]; [|exfalso; cbn [Mxinv] in Hmx; rewrite Hmx in Hlen1; cbn in Hlen1; lia].
  cbn [Mxinv] in Hmx. destruct Hmx as [[em [Hm0 Hm1]] Hmall].
  assert (Hmin : In em (it_ents it)) by (eapply nth_error_In; eauto).
  assert (Hmq : m <= it_qval it) by (rewrite <- Hm1; apply Hq; exact Hmin).
  set (newmax := m <? rx64).
  assert (Hfresh' : ~ In (e_rx e) (map e_rx (it_ents it))).
  { intros Hin. apply in_map_iff in Hin. destruct Hin as [x [Hx1 Hx2]].
    rewrite has_rx_false in Hfresh. apply (Hfresh x Hx2). exact Hx1. }
  assert (Hents : (exists i, (i < length (it_ents it))%nat /\ ents' = set_nth i e (it_ents it)) \/
                  (ents' = it_ents it ++ [e] /\ Z.of_nat (length (it_ents it)) < icap c)).
  { unfold ents'. destruct o as [[j tx]|].
    - left. exists j. split; [|reflexivity]. cbn [Oinv] in Ho. destruct Ho as [e0 [H0 _]].
      apply nth_error_Some. congruence.
    - destruct (Z.of_nat (length (it_ents it)) =? icap c) eqn:El.
      + destruct mn as [[j v]|]; cbn [Mninv] in Hmn.
        * left. exists j. split; [|reflexivity]. destruct Hmn as [[e0 [H0 _]] _]. apply nth_error_Some. congruence.
        * exfalso. rewrite Hmn in Hlen1. cbn in Hlen1. lia.
      + right. split; [reflexivity|]. lia. }
  assert (HA : (1 <= length ents')%nat /\ Z.of_nat (length ents') <= icap c).
  { destruct Hents as [[i [Hi ->]]|[-> Hl]]; [rewrite set_nth_length; lia|]. rewrite app_length. cbn [length]. lia. }
  assert (HB : NoDup (map e_rx ents')).
  { destruct Hents as [[i [Hi ->]]|[-> Hl]].
    - apply NoDup_map_set_nth_fresh; assumption.
    - rewrite map_app. cbn [map]. apply NoDup_app_last; assumption. }
  assert (HIn : In e ents').
  { destruct Hents as [[i [Hi ->]]|[-> Hl]]; [apply set_nth_In_new; exact Hi|apply in_or_app; right; left; reflexivity]. }
  assert (HSub : forall x, In x ents' -> x = e \/ In x (it_ents it)).
  { intros x Hx. destruct Hents as [[i [Hi ->]]|[-> Hl]]; [apply (In_set_nth _ _ _ _ Hx)|].
    apply in_app_or in Hx. destruct Hx as [Hx|[<-|[]]]; auto. }
  exists {| o_state := {| items := replace_item {| it_key := cid; it_ents := ents'; it_qval := if newmax then rx64 else it_qval it |} (items s);
                          hq := if newmax then hq_fix cid rx64 (hq s) else hq s |};
            o_reply := match o with
                       | Some (_, otx) => if negb (q_rx q =? q_tx q) && match o with Some _ => true | None => false end
                                          then {| r_org := q_rx q; r_rx := rx64; r_tx := otx; r_inter := true; r_ref := tx64 |}
                                          else {| r_org := q_tx q; r_rx := rx64; r_tx := tx64; r_inter := false; r_ref := tx64 |}
                       | None => {| r_org := q_tx q; r_rx := rx64; r_tx := tx64; r_inter := false; r_ref := tx64 |}
                       end;
            o_rxt := rxt'; o_txt := txt'; o_evicted := None; o_stateless := false |}.
  exists {| it_key := cid; it_ents := ents'; it_qval := if newmax then rx64 else it_qval it |}.
  exists (if newmax then hq_fix cid rx64 (hq s) else hq s).
  split; [reflexivity|].
  cbn [o_state o_evicted o_stateless o_rxt o_txt o_reply it_key it_ents it_qval].
  split; [reflexivity|]. split; [reflexivity|]. split; [reflexivity|].
  split; [lia|]. split; [exact Hlt|]. split; [exact EraR|]. split; [exact EraT|]. split; [exact Hfresh|].
  split. { intros Hn. unfold txt0 in Hge. destruct (rxt <? now) eqn:E; lia. }
  split; [reflexivity|].
  split.
  { (* item_ok *)
    unfold item_ok. cbn [it_ents it_qval]. split; [apply HA|]. split; [apply HA|]. split; [exact HB|]. split.
    - intros x Hx. unfold newmax. destruct (m <? rx64) eqn:Em.
      + destruct (HSub x Hx) as [->|Hx']; [unfold e; cbn [e_rx]; lia|]. specialize (Hmall x Hx'). lia.
      + destruct (HSub x Hx) as [->|Hx']; [unfold e; cbn [e_rx]; lia|]. apply Hq. exact Hx'.
    - intros x Hx. destruct (HSub x Hx) as [->|Hx']; [unfold e; cbn [e_rx e_tx]; exact Hmono|apply Hrt; exact Hx']. }
  split. { destruct newmax; [left; reflexivity|right; split; reflexivity]. }
  split.
  { (* reply *)
    unfold reply_ok. destruct o as [[j otx]|]; cbn [Oinv] in Ho.
    - destruct Ho as [e0 [H0 [H1 H2]]]. assert (Hin0 : In e0 (it_ents it)) by (eapply nth_error_In; eauto).
      destruct (q_rx q =? q_tx q) eqn:Eq; cbn [negb andb r_rx r_ref r_inter r_org r_tx].
      + split; [reflexivity|]. split; [reflexivity|]. right. repeat split; try reflexivity. left. lia.
      + split; [reflexivity|]. split; [reflexivity|]. left. split; [reflexivity|]. split; [reflexivity|]. split; [lia|].
        exists e0. split; [exact Hin0|]. split; [exact H1|]. symmetry. exact H2.
    - cbn [r_rx r_ref r_inter r_org r_tx]. split; [reflexivity|]. split; [reflexivity|]. right. repeat split; try reflexivity. right. exact Ho. }
  split; [exact HIn|]. exact HSub.
Qed.

(* ---------- handleRequest for a client without an item ---------- *)
Definition new_item (cid rx64 tx64 : Z) : item :=
  {| it_key := cid; it_ents := [{| e_rx := rx64; e_tx := tx64 |}]; it_qval := rx64 |}.

Lemma handle_new_spec s cid q rxt now victim out :
  find_item cid (items s) = None -> in_era k rxt -> in_era k (rxt + 1) -> in_era k now ->
  handle c s cid q rxt now victim = Some out ->
  o_rxt out = rxt /\ rxt < o_txt out /\ in_era k (o_txt out) /\ (rxt < now -> o_txt out = now) /\
  reply_ok [] q (to64 rxt) (to64 (o_txt out)) (o_reply out) /\
  ((o_stateless out = true /\ o_evicted out = None /\ o_state out = s /\
    Z.of_nat (length (items s)) = cap c /\
    (hq_min_val (hq s) = None \/ exists m, hq_min_val (hq s) = Some m /\ to64 rxt < m)) \/
   (o_stateless out = false /\ o_evicted out = None /\ Z.of_nat (length (items s)) <> cap c /\
    o_state out = {| items := new_item cid (to64 rxt) (to64 (o_txt out)) :: items s;
                     hq := (cid, to64 rxt) :: hq s |}) \/
   (o_stateless out = false /\ o_evicted out = Some victim /\ Z.of_nat (length (items s)) = cap c /\
    (exists m, hq_find victim (hq s) = Some m /\ hq_min_val (hq s) = Some m /\ m <= to64 rxt) /\
    o_state out = {| items := new_item cid (to64 rxt) (to64 (o_txt out)) :: remove_item victim (items s);
                     hq := (cid, to64 rxt) :: hq_remove victim (hq s) |})).
Proof.
  intros Hfind Era1 Era2 Era3. unfold handle. rewrite Hfind.
  set (txt0 := if rxt <? now then now else rxt + 1).
  assert (Ht0 : rxt < txt0) by (unfold txt0; destruct (rxt <? now) eqn:E; lia).
  assert (EraT0 : in_era k txt0) by (unfold txt0; destruct (rxt <? now); assumption).
  assert (Hnow : rxt < now -> txt0 = now) by (unfold txt0; destruct (rxt <? now) eqn:E; lia).
  assert (Hrep : reply_ok [] q (to64 rxt) (to64 txt0)
                   {| r_org := q_tx q; r_rx := to64 rxt; r_tx := to64 txt0; r_inter := false; r_ref := to64 txt0 |}).
  { unfold reply_ok. cbn. split; [reflexivity|]. split; [reflexivity|]. right. repeat split; try reflexivity. right. intros e []. }
  unfold admission_decision.
  destruct (Z.of_nat (length (items s)) =? cap c) eqn:Ec.
  - apply Z.eqb_eq in Ec. destruct (hq_min_val (hq s)) as [m|] eqn:Em.
    + destruct (negb (to64 rxt <? m)) eqn:En.
      * destruct (hq_find victim (hq s)) as [vq|] eqn:Ev; [|discriminate].
        destruct (vq =? m) eqn:Evm; [|discriminate]. apply Z.eqb_eq in Evm. subst vq.
        intros H; inversion H; subst out; clear H. cbn [o_rxt o_txt o_reply o_stateless o_evicted o_state].
        repeat (split; [assumption || reflexivity|]). right. right.
        repeat (split; [assumption || reflexivity|]). split; [|reflexivity].
        exists m. repeat split; auto. apply negb_true_iff in En. lia.
      * intros H; inversion H; subst out; clear H. cbn [o_rxt o_txt o_reply o_stateless o_evicted o_state].
        repeat (split; [assumption || reflexivity|]). left.
        repeat (split; [assumption || reflexivity|]). right. exists m. split; [reflexivity|]. apply negb_false_iff in En. lia.
    + intros H; inversion H; subst out; clear H. cbn [o_rxt o_txt o_reply o_stateless o_evicted o_state].
      repeat (split; [assumption || reflexivity|]). left.
      repeat (split; [assumption || reflexivity|]). left. reflexivity.
  - apply Z.eqb_neq in Ec.
    intros H; inversion H; subst out; clear H. cbn [o_rxt o_txt o_reply o_stateless o_evicted o_state].
    repeat (split; [assumption || reflexivity|]). right. left.
    repeat (split; [assumption || reflexivity|]). reflexivity.
Qed.

Lemma new_item_ok cid rxt txt : in_era k rxt -> in_era k txt -> rxt < txt -> item_ok c (new_item cid (to64 rxt) (to64 txt)).
Proof.
  intros E1 E2 Hlt. unfold item_ok, new_item. cbn [it_ents it_qval length map].
  split; [lia|]. split; [lia|]. split; [repeat constructor; cbn; tauto|].
  split; intros e [<-|[]]; cbn [e_rx e_tx]; [lia|]. apply (to64_strict_mono k); assumption.
Qed.

(* ---------- handleRequest preserves the invariant ---------- *)
Lemma handle_inv s cid q rxt now victim out :
  Inv c s -> in_era k rxt -> in_era k (rxt + icap c + 1) -> in_era k now ->
  handle c s cid q rxt now victim = Some out -> Inv c (o_state out).
Proof.
  intros [Hnd [Hcap [Hall Hhq]]] Era1 Era2 Era3 Hh.
  assert (Era1' : in_era k (rxt + 1)) by (apply (in_era_convex k rxt (rxt + icap c + 1)); auto; lia).
  destruct (find_item cid (items s)) as [it|] eqn:Hfind.
  - destruct (find_item_In _ _ _ Hfind) as [Hin Hkey].
    assert (Hok : item_ok c it) by (rewrite Forall_forall in Hall; apply Hall; exact Hin).
    destruct (handle_existing_spec s cid q rxt now victim it Hfind Hok Era1 Era2 Era3)
      as [out' [it' [hq' [Hh' [Hst [_ [_ [_ [_ [_ [_ [_ [_ [Hk' [Hok' [Hq' _]]]]]]]]]]]]]]]].
    assert (out' = out) by congruence. subst out'. rewrite Hst. unfold Inv. cbn [items hq].
    split; [rewrite replace_item_keys; exact Hnd|].
    split; [rewrite replace_item_length; exact Hcap|].
    split.
    + rewrite Forall_forall in *. intros x Hx. destruct (In_replace_item _ _ _ Hnd Hx) as [->|[Hx' _]]; [exact Hok'|apply Hall; exact Hx'].
    + destruct Hq' as [->|[-> Hsame]].
      * rewrite Hhq, <- Hk'. symmetry. apply replace_item_kq_fix. exact Hnd.
      * rewrite Hhq. symmetry. apply (replace_item_kq_same it); auto. congruence.
  - destruct (handle_new_spec s cid q rxt now victim out Hfind Era1 Era1' Era3 Hh)
      as [Hr [Hlt [EraT [_ [_ Hcases]]]]].
    assert (Hnew : item_ok c (new_item cid (to64 rxt) (to64 (o_txt out)))) by (apply new_item_ok; assumption).
    pose proof (find_item_None _ _ Hfind) as Hnotin.
    destruct Hcases as [[_ [_ [-> _]]]|[[_ [_ [Hne ->]]]|[_ [_ [Heq [[m [Hv [_ _]]] ->]]]]]].
    + unfold Inv. auto.
    + unfold Inv. cbn [items hq map length].
      split; [constructor; assumption|]. split; [lia|]. split; [constructor; assumption|].
      rewrite Hhq. reflexivity.
    + unfold Inv. cbn [items hq map length].
      assert (Hvin : In victim (map it_key (items s))) by (rewrite Hhq in Hv; eapply hq_find_map_kq; eauto).
      split.
      { constructor; [|apply remove_item_keys_NoDup; exact Hnd].
        intros H. unfold new_item in H. cbn [it_key] in H. apply Hnotin. apply in_map_iff in H. destruct H as [x [Hx1 Hx2]]. rewrite <- Hx1. apply in_map. eapply In_remove_item; eauto. }
      split. { rewrite (remove_item_length _ _ Hvin). destruct (items s); [destruct Hvin|cbn [length] in *; lia]. }
      split. { constructor; [exact Hnew|]. rewrite Forall_forall in *. intros x Hx. apply Hall. eapply In_remove_item; eauto. }
      rewrite Hhq, remove_item_kq. reflexivity.
Qed.

(* ---------- updateTXTimestamp ---------- *)
Lemma find_replace_item it' l : In (it_key it') (map it_key l) -> find_item (it_key it') (replace_item it' l) = Some it'.
Proof.
  induction l as [|y r IH]; cbn [map In replace_item find_item]; [tauto|].
  destruct (it_key y =? it_key it') eqn:E; cbn [find_item].
  - intros _. rewrite Z.eqb_refl. reflexivity.
  - rewrite E. apply Z.eqb_neq in E. intros [H|H]; [congruence|]. apply IH. exact H.
Qed.

Lemma find_remove_item key l : NoDup (map it_key l) -> find_item key (remove_item key l) = None.
Proof.
  intros Hnd. pose proof (remove_item_not_in key l Hnd) as H.
  destruct (find_item key (remove_item key l)) as [it|] eqn:E; [|reflexivity].
  exfalso. apply H. destruct (find_item_In _ _ _ E) as [H1 H2]. rewrite <- H2 at 1. apply in_map. exact H1.
Qed.

Definition tx_kernel_clause (s : tss) (cid rxt txt : Z) : Prop :=
  let out := update_tx s cid rxt txt in
  let rx64 := to64 rxt in let tx64 := to64 (t_txt out) in
  match find_item cid (items s) with
  | None => t_state out = s
  | Some it =>
      ((forall e, In e (it_ents it) -> e_rx e <> rx64) -> t_state out = s) /\
      (forall e, In e (it_ents it) -> e_rx e = rx64 ->
         (e_tx e <> tx64 ->
            t_updated out = true /\
            exists it', find_item cid (items (t_state out)) = Some it' /\
                        In {| e_rx := rx64; e_tx := tx64 |} (it_ents it') /\
                        (forall x, In x (it_ents it') -> x = {| e_rx := rx64; e_tx := tx64 |} \/ In x (it_ents it)) /\
                        length (it_ents it') = length (it_ents it)) /\
         (e_tx e = tx64 ->
            t_removed_entry out = true /\
            forall it', find_item cid (items (t_state out)) = Some it' ->
                        (forall x, In x (it_ents it') -> e_rx x <> rx64 /\ In x (it_ents it)) /\
                        length (it_ents it') = (length (it_ents it) - 1)%nat))
  end.

Lemma update_tx_spec s cid rxt txt :
  Inv c s -> in_era k rxt -> in_era k (rxt + 1) -> in_era k txt ->
  let out := update_tx s cid rxt txt in
  Inv c (t_state out) /\ rxt < t_txt out /\ (rxt < txt -> t_txt out = txt) /\ in_era k (t_txt out) /\
  tx_kernel_clause s cid rxt txt.
Proof.
  intros [Hnd [Hcap [Hall Hhq]]] Era1 Era2 Era3. unfold tx_kernel_clause. unfold update_tx.
  set (txt' := if rxt <? txt then txt else rxt + 1).
  assert (Hlt : rxt < txt') by (unfold txt'; destruct (rxt <? txt) eqn:E; lia).
  assert (Hsame : rxt < txt -> txt' = txt) by (unfold txt'; destruct (rxt <? txt) eqn:E; lia).
  assert (EraT : in_era k txt') by (unfold txt'; destruct (rxt <? txt); assumption).
  assert (Hmono : to64 rxt < to64 txt') by (apply (to64_strict_mono k); assumption).
  assert (HInv : Inv c s) by (unfold Inv; auto).
  destruct (find_item cid (items s)) as [it|] eqn:Hfind; [|cbn [t_state t_txt]; auto 10].
  destruct (find_item_In _ _ _ Hfind) as [Hin Hkey].
  assert (Hok : item_ok c it) by (rewrite Forall_forall in Hall; apply Hall; exact Hin).
  destruct Hok as [Hlen1 [Hlen2 [Hndr [Hq Hrt]]]].
  pose proof (scan_tx_spec (to64 rxt) (it_ents it)) as Hscan.
  destruct (scan_tx_from 0 (it_ents it) (to64 rxt) None None None) as [[x m0] m1].
  destruct Hscan as [Hx Hm].
  destruct x as [[xi xtx]|]; cbn [Oinv] in Hx.
  2:{ cbn [t_state t_txt]. split; [exact HInv|]. split; [exact Hlt|]. split; [exact Hsame|]. split; [exact EraT|].
      split; [auto|]. intros e He Heq. exfalso. exact (Hx e He Heq). }
  destruct Hx as [ex [Hnth [Hexrx Hextx]]].
  assert (Hexin : In ex (it_ents it)) by (eapply nth_error_In; eauto).
  destruct (nth_error_nth_lt _ _ _ {| e_rx := 0; e_tx := 0 |} Hnth) as [Hnthd Hxi].
  assert (Huniq : forall e, In e (it_ents it) -> e_rx e = to64 rxt -> e = ex).
  { intros e He Heq. destruct (In_nth _ _ {| e_rx := 0; e_tx := 0 |} He) as [j [Hj1 Hj2]].
    assert (j = xi). { eapply (NoDup_map_nth_inj e_rx); eauto. rewrite Hj2, Hnthd. congruence. }
    subst j. congruence. }
  assert (Hcidin : In cid (map it_key (items s))) by (rewrite <- Hkey; apply in_map; exact Hin).
  destruct (negb (xtx =? to64 txt')) eqn:Eupd.
  - (* the stored transmit timestamp is replaced *)
    apply negb_true_iff in Eupd. apply Z.eqb_neq in Eupd.
    set (e' := {| e_rx := to64 rxt; e_tx := to64 txt' |}).
    set (it' := {| it_key := cid; it_ents := set_nth xi e' (it_ents it); it_qval := it_qval it |}).
    cbn [t_state t_txt t_updated t_removed_entry].
    assert (Hmap : map e_rx (set_nth xi e' (it_ents it)) = map e_rx (it_ents it)).
    { apply (map_set_nth_same e_rx xi e' (it_ents it) {| e_rx := 0; e_tx := 0 |}). rewrite Hnthd. cbn. congruence. }
    assert (Hok' : item_ok c it').
    { unfold item_ok, it'. cbn [it_ents it_qval]. rewrite set_nth_length. split; [exact Hlen1|]. split; [exact Hlen2|].
      split; [rewrite Hmap; exact Hndr|]. split.
      - intros y Hy. destruct (In_set_nth _ _ _ _ Hy) as [->|Hy']; [unfold e'; cbn [e_rx]; rewrite <- Hexrx; apply Hq; exact Hexin|apply Hq; exact Hy'].
      - intros y Hy. destruct (In_set_nth _ _ _ _ Hy) as [->|Hy']; [unfold e'; cbn [e_rx e_tx]; exact Hmono|apply Hrt; exact Hy']. }
    split.
    { unfold Inv. cbn [items hq]. split; [rewrite replace_item_keys; exact Hnd|]. split; [rewrite replace_item_length; exact Hcap|].
      split.
      - rewrite Forall_forall in *. intros y Hy. destruct (In_replace_item _ _ _ Hnd Hy) as [->|[Hy' _]]; [exact Hok'|apply Hall; exact Hy'].
      - rewrite Hhq. symmetry. apply (replace_item_kq_same it); auto. }
    split; [exact Hlt|]. split; [exact Hsame|]. split; [exact EraT|].
    split; [intros Hno; exfalso; exact (Hno ex Hexin Hexrx)|].
    intros e He Heq. rewrite (Huniq e He Heq). split.
    + intros _. split; [reflexivity|]. exists it'. split.
      * replace cid with (it_key it') by reflexivity. apply find_replace_item. exact Hcidin.
      * cbn [it' it_ents]. split; [apply set_nth_In_new; exact Hxi|]. split; [|apply set_nth_length].
        intros y Hy. apply (In_set_nth _ _ _ _ Hy).
    + intros Heqtx. exfalso. apply Eupd. congruence.
  - (* no updated transmit timestamp: the exchange is dropped *)
    apply negb_false_iff in Eupd. apply Z.eqb_eq in Eupd.
    destruct (Nat.eqb (length (it_ents it)) 1) eqn:Elen.
    + (* last exchange of this client: the item goes *)
      cbn [t_state t_txt t_updated t_removed_entry].
      split.
      { unfold Inv. cbn [items hq]. split; [apply remove_item_keys_NoDup; exact Hnd|].
        split; [pose proof (remove_item_length_le cid (items s)); lia|].
        split; [rewrite Forall_forall in *; intros y Hy; apply Hall; eapply In_remove_item; eauto|].
        rewrite Hhq, remove_item_kq. reflexivity. }
      split; [exact Hlt|]. split; [exact Hsame|]. split; [exact EraT|].
      split; [intros Hno; exfalso; exact (Hno ex Hexin Hexrx)|].
      intros e He Heq. rewrite (Huniq e He Heq). split; [intros Hne; exfalso; apply Hne; congruence|].
      intros _. split; [reflexivity|]. intros it' Hf. cbn [items t_state] in Hf. rewrite (find_remove_item cid (items s) Hnd) in Hf. discriminate.
    + (* the slot is removed, the last exchange moves into it *)
      apply Nat.eqb_neq in Elen.
      set (ismax := match m0 with Some a => a =? to64 rxt | None => false end).
      set (qval' := if ismax then match m1 with Some b => b | None => it_qval it end else it_qval it).
      set (ents' := swap_remove {| e_rx := 0; e_tx := 0 |} xi (it_ents it)).
      set (it' := {| it_key := cid; it_ents := ents'; it_qval := qval' |}).
      cbn [t_state t_txt t_updated t_removed_entry].
      assert (Hothers : forall y, In y ents' -> e_rx y <> to64 rxt /\ In y (it_ents it)).
      { intros y Hy. split; [|eapply In_swap_remove; exact Hy].
        pose proof (swap_remove_others e_rx {| e_rx := 0; e_tx := 0 |} xi (it_ents it) y Hndr Hxi Hy) as H. rewrite Hnthd in H. congruence. }
      assert (Hq' : forall y, In y ents' -> e_rx y <= qval').
      { intros y Hy. destruct (Hothers y Hy) as [Hne Hyin]. unfold qval', ismax.
        destruct m0 as [a|]; cbn [M01inv] in Hm; [|apply Hq; exact Hyin].
        destruct Hm as [_ [_ Hm1]]. destruct (a =? to64 rxt) eqn:Ea; [|apply Hq; exact Hyin].
        apply Z.eqb_eq in Ea. subst a. destruct m1 as [b|].
        - destruct Hm1 as [_ Hrest]. apply Hrest; assumption.
        - exfalso. apply Hne. apply Hm1. exact Hyin. }
      assert (Hok' : item_ok c it').
      { unfold item_ok, it'. cbn [it_ents it_qval]. unfold ents'. rewrite swap_remove_length.
        split; [lia|]. split; [lia|]. split; [apply NoDup_map_swap_remove; assumption|].
        split; [exact Hq'|]. intros y Hy. apply Hrt. eapply In_swap_remove; exact Hy. }
      split.
      { unfold Inv. cbn [items hq]. split; [rewrite replace_item_keys; exact Hnd|]. split; [rewrite replace_item_length; exact Hcap|].
        split.
        - rewrite Forall_forall in *. intros y Hy. destruct (In_replace_item _ _ _ Hnd Hy) as [->|[Hy' _]]; [exact Hok'|apply Hall; exact Hy'].
        - rewrite Hhq. destruct ismax eqn:Eis.
          + symmetry. replace cid with (it_key it') by reflexivity. replace qval' with (it_qval it') by reflexivity.
            apply replace_item_kq_fix. exact Hnd.
          + symmetry. apply (replace_item_kq_same it); auto; try (cbn [it' it_qval]; unfold qval'; rewrite Eis; reflexivity). }
      split; [exact Hlt|]. split; [exact Hsame|]. split; [exact EraT|].
      split; [intros Hno; exfalso; exact (Hno ex Hexin Hexrx)|].
      intros e He Heq. rewrite (Huniq e He Heq). split; [intros Hne; exfalso; apply Hne; congruence|].
      intros _. split; [reflexivity|]. intros it'' Hf. cbn [items t_state] in Hf.
      assert (it'' = it').
      { replace cid with (it_key it') in Hf by reflexivity. rewrite find_replace_item in Hf by exact Hcidin. congruence. }
      subst it''. cbn [it' it_ents]. split; [exact Hothers|]. unfold ents'. apply swap_remove_length.
Qed.
End Era.

(* what updateTXTimestamp may do to the items: everything except the client's
   own item is untouched; the client's item keeps a subset of its exchanges,
   one of which may carry the newly reported transmit time *)
Lemma update_tx_frame s cid rxt txt : NoDup (map it_key (items s)) ->
  forall x, In x (items (t_state (update_tx s cid rxt txt))) ->
    In x (items s) \/
    (it_key x = cid /\ exists it, find_item cid (items s) = Some it /\
       forall e, In e (it_ents x) ->
         In e (it_ents it) \/
         (e = {| e_rx := to64 rxt; e_tx := to64 (t_txt (update_tx s cid rxt txt)) |} /\
          exists e0, In e0 (it_ents it) /\ e_rx e0 = to64 rxt)).
Proof.
  intros Hnd x. unfold update_tx.
  set (txt' := if rxt <? txt then txt else rxt + 1).
  destruct (find_item cid (items s)) as [it|] eqn:Hfind; [|cbn [t_state]; auto].
  pose proof (scan_tx_spec (to64 rxt) (it_ents it)) as Hscan.
  destruct (scan_tx_from 0 (it_ents it) (to64 rxt) None None None) as [[xo m0] m1].
  destruct Hscan as [Hx _].
  destruct xo as [[xi xtx]|]; [|cbn [t_state]; auto].
  cbn [Oinv] in Hx. destruct Hx as [ex [Hnth [Hexrx _]]].
  assert (Hexin : In ex (it_ents it)) by (eapply nth_error_In; eauto).
  destruct (negb (xtx =? to64 txt')).
  - cbn [t_state t_txt items]. intros Hin. destruct (In_replace_item _ _ _ Hnd Hin) as [->|[H _]]; [|left; exact H].
    right. cbn [it_key it_ents]. split; [reflexivity|]. exists it. split; [reflexivity|].
    intros e He. destruct (In_set_nth _ _ _ _ He) as [->|He']; [right; split; [reflexivity|exists ex; auto]|left; exact He'].
  - destruct (Nat.eqb (length (it_ents it)) 1).
    + cbn [t_state items]. intros Hin. left. eapply In_remove_item; eauto.
    + cbn [t_state items]. intros Hin. destruct (In_replace_item _ _ _ Hnd Hin) as [->|[H _]]; [|left; exact H].
      right. cbn [it_key it_ents]. split; [reflexivity|]. exists it. split; [reflexivity|].
      intros e He. left. eapply In_swap_remove; exact He.
Qed.
