(* Proofs about the server-cookie TLV codec model. *)
From ST Require Import Base.Ints Base.Bytes Model.CodecCookie.
Open Scope Z_scope.
Ltac Zify.zify_post_hook ::= Z.div_mod_to_equations.

Lemma bl_eqb_refl l : bl_eqb l l = true.
Proof. induction l as [|x l IH]; simpl; auto. rewrite Z.eqb_refl. exact IH. Qed.

Section Cookie.
Variable ty : ck_types.
Hypothesis Hr1 : 0 <= ck_t1 ty < 65536.
Hypothesis Hr2 : 0 <= ck_t2 ty < 65536.
Hypothesis Hr3 : 0 <= ck_t3 ty < 65536.
Hypothesis H12 : ck_t1 ty <> ck_t2 ty.
Hypothesis H13 : ck_t1 ty <> ck_t3 ty.
Hypothesis H23 : ck_t2 ty <> ck_t3 ty.

Definition tlv (t : Z) (body : list Z) : list Z :=
  be_enc 2 t ++ be_enc 2 (u16 (Z.of_nat (length body))) ++ body.

Lemma tlv_length t body : length (tlv t body) = (4 + length body)%nat.
Proof. unfold tlv. rewrite !app_length, !be_enc_length. lia. Qed.

(* what one loop iteration sees of a well-formed field *)
Lemma tlv_parts t body rest :
  0 <= t < 65536 -> Z.of_nat (length body) < 65536 ->
  let s := tlv t body ++ rest in
  be_dec (firstn 2 s) = t /\ Z.to_nat (be_dec (firstn 2 (skipn 2 s))) = length body /\
  firstn (length body) (skipn 4 s) = body /\ skipn (4 + length body) s = rest /\
  (length s <? 4)%nat = false /\ (length s - 4 <? length body)%nat = false /\ s <> [].
Proof.
  intros Ht Hl s. unfold s, tlv. rewrite <- !app_assoc.
  assert (E2 : forall x, length (be_enc 2 x) = 2%nat) by (intros; apply be_enc_length).
  split; [rewrite firstn_app_exact by apply E2; apply (be_dec_enc 2); exact Ht|].
  split.
  { rewrite skipn_app_exact by apply E2. rewrite firstn_app_exact by apply E2.
    unfold u16. rewrite Z.mod_small by lia. rewrite (be_dec_enc 2) by (change (256 ^ Z.of_nat 2) with 65536; lia).
    apply Nat2Z.id. }
  split.
  { change 4%nat with (2 + 2)%nat. rewrite <- skipn_skipn. rewrite skipn_app_exact by apply E2.
    rewrite skipn_app_exact by apply E2. apply firstn_app_exact. reflexivity. }
  split.
  { replace (4 + length body)%nat with (2 + (2 + length body))%nat by lia.
    rewrite <- skipn_skipn. rewrite skipn_app_exact by apply E2.
    rewrite <- skipn_skipn. rewrite skipn_app_exact by apply E2.
    apply skipn_app_exact. reflexivity. }
  rewrite !app_length, !E2.
  split; [apply Nat.ltb_ge; lia|]. split; [apply Nat.ltb_ge; lia|].
  destruct (be_enc 2 t) eqn:E; [specialize (E2 t); rewrite E in E2; discriminate|discriminate].
Qed.

Lemma ck_encode_tlvs v a b :
  ck_encode ty (v, a, b) = tlv (ck_t1 ty) (be_enc 2 v) ++ tlv (ck_t2 ty) a ++ tlv (ck_t3 ty) b.
Proof.
  unfold ck_encode, tlv. rewrite be_enc_length. change (u16 (Z.of_nat 2)) with 2.
  rewrite <- !app_assoc. reflexivity.
Qed.

Lemma ck_loop_field1 fuel v rest c f1 f2 f3 :
  0 <= v < 65536 ->
  ck_decode_loop (S fuel) ty (tlv (ck_t1 ty) (be_enc 2 v) ++ rest) c f1 f2 f3 =
  ck_decode_loop fuel ty rest (v, snd (fst c), snd c) true f2 f3.
Proof.
  intros Hv. destruct (tlv_parts (ck_t1 ty) (be_enc 2 v) rest Hr1) as (Ht & Hl & Hb & Hrest & H4 & Hs & Hne);
    [rewrite be_enc_length; simpl; lia|]. cbn zeta in *.
  rewrite be_enc_length in *.
  cbn [ck_decode_loop]. destruct (tlv (ck_t1 ty) (be_enc 2 v) ++ rest) as [|x s] eqn:E; [congruence|].
  rewrite <- E in *. clear E. rewrite H4, Ht, Hl, Hs. destruct c as [[v0 a0] b0].
  rewrite Z.eqb_refl. change (2 <? 2)%nat with false. cbv iota. rewrite Hb, Hrest.
  rewrite firstn_all2 by (rewrite be_enc_length; lia). rewrite (be_dec_enc 2) by exact Hv. reflexivity.
Qed.

Lemma ck_loop_field2 fuel a rest c f1 f2 f3 :
  Z.of_nat (length a) < 65536 ->
  ck_decode_loop (S fuel) ty (tlv (ck_t2 ty) a ++ rest) c f1 f2 f3 =
  ck_decode_loop fuel ty rest (fst (fst c), a, snd c) f1 true f3.
Proof.
  intros Ha. destruct (tlv_parts (ck_t2 ty) a rest Hr2 Ha) as (Ht & Hl & Hb & Hrest & H4 & Hs & Hne).
  cbn zeta in *.
  cbn [ck_decode_loop]. destruct (tlv (ck_t2 ty) a ++ rest) as [|x s] eqn:E; [congruence|].
  rewrite <- E in *. clear E. rewrite H4, Ht, Hl, Hs. destruct c as [[v0 a0] b0].
  destruct (Z.eqb_spec (ck_t2 ty) (ck_t1 ty)) as [Heq|_]; [congruence|].
  rewrite Z.eqb_refl, Hb, Hrest. reflexivity.
Qed.

Lemma ck_loop_field3 fuel b rest c f1 f2 f3 :
  Z.of_nat (length b) < 65536 ->
  ck_decode_loop (S fuel) ty (tlv (ck_t3 ty) b ++ rest) c f1 f2 f3 =
  ck_decode_loop fuel ty rest (fst (fst c), snd (fst c), b) f1 f2 true.
Proof.
  intros Ha. destruct (tlv_parts (ck_t3 ty) b rest Hr3 Ha) as (Ht & Hl & Hb & Hrest & H4 & Hs & Hne).
  cbn zeta in *.
  cbn [ck_decode_loop]. destruct (tlv (ck_t3 ty) b ++ rest) as [|x s] eqn:E; [congruence|].
  rewrite <- E in *. clear E. rewrite H4, Ht, Hl, Hs. destruct c as [[v0 a0] b0].
  destruct (Z.eqb_spec (ck_t3 ty) (ck_t1 ty)) as [Heq|_]; [congruence|].
  destruct (Z.eqb_spec (ck_t3 ty) (ck_t2 ty)) as [Heq|_]; [congruence|].
  rewrite Z.eqb_refl, Hb, Hrest. reflexivity.
Qed.

(* decoding the encoding returns the value, into whatever cookie struct it is decoded *)
Theorem ck_dec_enc c c0 : ck_wf c -> ck_decode ty c0 (ck_encode ty c) = (c, true).
Proof.
  destruct c as [[v a] b]. intros (Hv & Hoa & Hob & Hla & Hlb).
  unfold ck_decode. rewrite ck_encode_tlvs.
  set (n := length (tlv (ck_t1 ty) (be_enc 2 v) ++ tlv (ck_t2 ty) a ++ tlv (ck_t3 ty) b)).
  assert (Hn : (12 <= n)%nat) by (unfold n; rewrite !app_length, !tlv_length; lia).
  destruct n as [|[|[|n]]]; try lia.
  rewrite (ck_loop_field1 _ v) by exact Hv.
  rewrite ck_loop_field2 by exact Hla.
  rewrite <- (app_nil_r (tlv (ck_t3 ty) b)).
  rewrite ck_loop_field3 by exact Hlb.
  destruct n; reflexivity.
Qed.

Lemma ck_encode_length c : length (ck_encode ty c) = (14 + length (snd (fst c)) + length (snd c))%nat.
Proof. destruct c as [[v a] b]. unfold ck_encode. rewrite !app_length, !be_enc_length. simpl. lia. Qed.

Lemma ck_encode_ok c : bytes_ok (snd (fst c)) -> bytes_ok (snd c) -> bytes_ok (ck_encode ty c).
Proof.
  destruct c as [[v a] b]. cbn [fst snd]. intros Ha Hb. unfold ck_encode.
  repeat first [assumption | apply bytes_ok_app; split | apply be_enc_ok].
Qed.

Theorem ck_meets_oracle c c0 : ck_wf c ->
  let e := ck_encode ty c in
  C14_cookie_ok c e (snd (ck_decode ty c0 e)) (fst (ck_decode ty c0 e)) = true.
Proof.
  intros Hwf e. unfold e. rewrite ck_dec_enc by exact Hwf. destruct c as [[v a] b].
  destruct Hwf as (Hv & Hoa & Hob & Hla & Hlb). cbn [fst snd]. unfold C14_cookie_ok.
  rewrite Z.eqb_refl, !bl_eqb_refl.
  pose proof (ck_encode_length (v, a, b)) as Hl. cbn [fst snd] in Hl. rewrite Hl, Nat.eqb_refl.
  rewrite (proj2 (bytes_okb_ok _) (ck_encode_ok (v, a, b) Hoa Hob)). reflexivity.
Qed.
End Cookie.

(* the fuel given (the input length) is never exhausted, for every input *)
Lemma ck_loop_fuel ty fuel : forall s c f1 f2 f3, (length s <= fuel)%nat ->
  snd (ck_decode_loop fuel ty s c f1 f2 f3) = true.
Proof.
  induction fuel as [|fuel IH]; intros s c f1 f2 f3 Hlen.
  - destruct s; [reflexivity|simpl in Hlen; lia].
  - cbn [ck_decode_loop]. destruct s as [|x s']; [reflexivity|]. set (s := x :: s') in *.
    destruct (length s <? 4)%nat eqn:E4; [reflexivity|]. apply Nat.ltb_ge in E4.
    set (l := Z.to_nat (be_dec (firstn 2 (skipn 2 s)))).
    destruct (length s - 4 <? l)%nat eqn:El; [reflexivity|].
    assert (Hrest : (length (skipn (4 + l) s) <= fuel)%nat) by (rewrite skipn_length; lia).
    destruct c as [[v a] b].
    repeat match goal with |- context [if ?c then _ else _] => destruct c end;
      try reflexivity; apply IH; exact Hrest.
Qed.

Theorem ck_decode_total ty c0 b : snd (ck_decode_loop (length b) ty b c0 false false false) = true.
Proof. apply ck_loop_fuel. lia. Qed.

(* the two instances of the code *)
Theorem server_cookie_dec_enc c c0 : ck_wf c ->
  ck_decode server_cookie_types c0 (ck_encode server_cookie_types c) = (c, true).
Proof. apply ck_dec_enc; simpl; lia. Qed.

Theorem encrypted_cookie_dec_enc c c0 : ck_wf c ->
  ck_decode encrypted_cookie_types c0 (ck_encode encrypted_cookie_types c) = (c, true).
Proof. apply ck_dec_enc; simpl; lia. Qed.

Theorem server_cookie_meets_oracle c c0 : ck_wf c ->
  let e := ck_encode server_cookie_types c in
  C14_cookie_ok c e (snd (ck_decode server_cookie_types c0 e)) (fst (ck_decode server_cookie_types c0 e)) = true.
Proof. apply ck_meets_oracle; simpl; lia. Qed.

Theorem encrypted_cookie_meets_oracle c c0 : ck_wf c ->
  let e := ck_encode encrypted_cookie_types c in
  C14_cookie_ok c e (snd (ck_decode encrypted_cookie_types c0 e)) (fst (ck_decode encrypted_cookie_types c0 e)) = true.
Proof. apply ck_meets_oracle; simpl; lia. Qed.
