From ST Require Import Base.Ints Model.NtpTime.
From Coq Require Import ZArith Lia.
Open Scope Z_scope.
Ltac Zify.zify_post_hook ::= Z.to_euclidean_division_equations.

(* the magnitude limits inside which Go's int64 arithmetic does not wrap:
   Unix seconds below 2^60 (year 3.6e10) *)
Definition sec_ok (s : Z) : Prop := 0 <= s < 2^60.

Lemma i64_id x : min_i64 <= x <= max_i64 -> i64 x = x.
Proof. unfold i64, min_i64, max_i64, two63, two64. intros. lia. Qed.

Lemma time_sec_nsec t : t = time_sec t * nanos_per_sec + time_nsec t /\ 0 <= time_nsec t < nanos_per_sec.
Proof. unfold time_sec, time_nsec, nanos_per_sec. lia. Qed.

Lemma frac_roundtrip ns : 0 <= ns < 1000000000 ->
  let f := u32 (go_div (i64 (ns * 4294967296)) nanos_per_sec) in
  0 <= f < 4294967296 /\ ns - 1 <= nsec_of_frac f <= ns /\ 0 <= nsec_of_frac f.
Proof.
  intros H. cbv zeta. unfold nsec_of_frac, go_div, u32, nanos_per_sec.
  rewrite (i64_id (ns * 4294967296)) by (unfold min_i64, max_i64; lia).
  rewrite Z.quot_div_nonneg by lia.
  assert (Hq : 0 <= ns * 4294967296 / 1000000000 < 4294967296) by lia.
  rewrite (i64_id (ns * 4294967296 / 1000000000)) by (unfold min_i64, max_i64; lia).
  rewrite Z.mod_small by lia.
  rewrite i64_id by (unfold min_i64, max_i64; lia).
  rewrite Z.shiftr_div_pow2 by lia. change (2 ^ 32) with 4294967296.
  lia.
Qed.

Lemma frac_value ns : 0 <= ns < 1000000000 ->
  u32 (go_div (i64 (ns * 4294967296)) nanos_per_sec) = ns * 4294967296 / 1000000000.
Proof.
  intros H. unfold go_div, u32, nanos_per_sec.
  rewrite (i64_id (ns * 4294967296)) by (unfold min_i64, max_i64; lia).
  rewrite Z.quot_div_nonneg by lia.
  rewrite (i64_id (ns * 4294967296 / 1000000000)) by (unfold min_i64, max_i64; lia).
  apply Z.mod_small. lia.
Qed.

Lemma frac_monotone a b : 0 <= a <= b -> b < 1000000000 ->
  u32 (go_div (i64 (a * 4294967296)) nanos_per_sec) <= u32 (go_div (i64 (b * 4294967296)) nanos_per_sec).
Proof. intros H Hb. rewrite !frac_value by lia. lia. Qed.

Lemma nsec_of_frac_monotone f g : 0 <= f <= g -> g < 4294967296 -> nsec_of_frac f <= nsec_of_frac g.
Proof.
  intros H Hg. unfold nsec_of_frac, nanos_per_sec.
  rewrite !i64_id by (unfold min_i64, max_i64; lia).
  rewrite !Z.shiftr_div_pow2 by lia. change (2 ^ 32) with 4294967296. lia.
Qed.

Lemma sec_roundtrip s tref : sec_ok tref ->
  -2147483648 <= s - tref < 2147483648 ->
  unfold_sec (u32 (i64 (s - ntp_epoch))) tref = s.
Proof.
  unfold sec_ok, unfold_sec, u32, go_div, ntp_epoch, secs_per_era. intros Ht Hw.
  change (2 ^ 60) with 1152921504606846976 in Ht.
  rewrite (i64_id (s - -2208988800)) by (unfold min_i64, max_i64; lia).
  rewrite (i64_id (tref - -2208988800)) by (unfold min_i64, max_i64; lia).
  rewrite (Z.quot_div_nonneg (tref - -2208988800)) by lia.
  rewrite (i64_id ((tref - -2208988800) / 4294967296)) by (unfold min_i64, max_i64; lia).
  rewrite (i64_id ((tref - -2208988800) / 4294967296 * 4294967296)) by (unfold min_i64, max_i64; lia).
  change (Z.quot 4294967296 2) with 2147483648.
  rewrite (i64_id 2147483648) by (unfold min_i64, max_i64; lia).
  set (base := (tref - -2208988800) / 4294967296 * 4294967296).
  set (x := (s - -2208988800) mod 4294967296).
  assert (Hb : 0 <= base <= tref + 2208988800 /\ tref + 2208988800 < base + 4294967296) by (unfold base; lia).
  assert (Hx : 0 <= x < 4294967296) by (unfold x; lia).
  rewrite (i64_id (-2208988800 + base + x)) by (unfold min_i64, max_i64; lia).
  assert (Hk : exists k, s - -2208988800 = 4294967296 * k + x) by (exists ((s - -2208988800) / 4294967296); unfold x; lia).
  destruct Hk as [k Hk].
  assert (Hj : exists j, base = 4294967296 * j) by (exists ((tref - -2208988800) / 4294967296); unfold base; lia).
  destruct Hj as [j Hj].
  destruct (_ <? _) eqn:E1; [|destruct (_ <=? _) eqn:E2];
    rewrite ?i64_id by (unfold min_i64, max_i64; lia); lia.
Qed.

(* Main round-trip statement of C04. *)
Theorem roundtrip t tref :
  sec_ok (time_sec tref) -> in_window t tref ->
  let back := time_of_time64 (time64_of_time t) tref in
  t - 1 <= back <= t.
Proof.
  intros Ht Hw. cbv zeta. unfold time_of_time64, time64_of_time, mk_time. cbn [t64_sec t64_frac].
  unfold in_window in Hw.
  rewrite sec_roundtrip by assumption.
  destruct (time_sec_nsec t) as [Hd Hr].
  pose proof (frac_roundtrip (time_nsec t) Hr) as Hf. cbv zeta in Hf.
  unfold nanos_per_sec in *. lia.
Qed.

(* the seconds part comes back exactly and the sub-second part stays inside the second *)
Theorem roundtrip_same_second t tref :
  sec_ok (time_sec tref) -> in_window t tref ->
  time_sec (time_of_time64 (time64_of_time t) tref) = time_sec t.
Proof.
  intros Ht Hw. unfold time_of_time64, time64_of_time, mk_time. cbn [t64_sec t64_frac].
  unfold in_window in Hw. rewrite sec_roundtrip by assumption.
  destruct (time_sec_nsec t) as [Hd Hr].
  pose proof (frac_roundtrip (time_nsec t) Hr) as Hf. cbv zeta in Hf.
  unfold time_sec, nanos_per_sec in *. lia.
Qed.

Theorem order_preserved t1 t2 tref :
  sec_ok (time_sec tref) -> in_window t1 tref -> in_window t2 tref -> t1 <= t2 ->
  time_of_time64 (time64_of_time t1) tref <= time_of_time64 (time64_of_time t2) tref.
Proof.
  intros Ht H1 H2 Hle. unfold time_of_time64, time64_of_time, mk_time. cbn [t64_sec t64_frac].
  unfold in_window in H1, H2. rewrite !sec_roundtrip by assumption.
  destruct (time_sec_nsec t1) as [Hd1 Hr1]. destruct (time_sec_nsec t2) as [Hd2 Hr2].
  pose proof (frac_roundtrip (time_nsec t1) Hr1) as Hf1. pose proof (frac_roundtrip (time_nsec t2) Hr2) as Hf2.
  cbv zeta in Hf1, Hf2.
  assert (Hs : time_sec t1 <= time_sec t2) by (unfold time_sec, nanos_per_sec; lia).
  destruct (Z.eq_dec (time_sec t1) (time_sec t2)) as [E|E].
  - rewrite E. assert (time_nsec t1 <= time_nsec t2) by (unfold nanos_per_sec in *; lia).
    pose proof (frac_monotone (time_nsec t1) (time_nsec t2)) as Hm.
    pose proof (nsec_of_frac_monotone
                  (u32 (go_div (i64 (time_nsec t1 * 4294967296)) nanos_per_sec))
                  (u32 (go_div (i64 (time_nsec t2 * 4294967296)) nanos_per_sec))) as Hn.
    unfold nanos_per_sec in *. lia.
  - unfold nanos_per_sec in *. nia.
Qed.

(* The oracle used on implementation observations is implied by the theorem. *)
Theorem model_meets_oracle t tref : time_sec tref < 2^60 ->
  C04_roundtrip_ok t tref (time_of_time64 (time64_of_time t) tref) = true.
Proof.
  intros Hs. unfold C04_roundtrip_ok.
  destruct (in_windowb t tref && (0 <=? time_sec tref)) eqn:E; [|reflexivity].
  apply andb_prop in E. destruct E as [E1 E2].
  unfold in_windowb in E1. apply andb_prop in E1. destruct E1 as [Ea Eb].
  assert (Hw : in_window t tref) by (unfold in_window; lia).
  assert (Hk : sec_ok (time_sec tref)) by (unfold sec_ok; lia).
  pose proof (roundtrip t tref Hk Hw) as H. cbv zeta in H. lia.
Qed.

(* D-C04: the pinned revision's one-sided unfolding is wrong after an era
   rollover.  Reference 2036-02-07 06:28:17Z (Unix 2085978497), time 3 s
   earlier. *)
Theorem roundtrip_refuted_pinned :
  exists t tref, sec_ok (time_sec tref) /\ in_window t tref /\
    time_of_time64_pinned (time64_of_time t) tref = t + 4294967296 * 1000000000.
Proof.
  exists (2085978494 * 1000000000), (2085978497 * 1000000000).
  split; [unfold sec_ok, time_sec, nanos_per_sec; lia|].
  split; [unfold in_window, time_sec, nanos_per_sec; lia|].
  vm_compute. reflexivity.
Qed.

(* non-vacuity: a reference after the 2036 rollover and a time before it satisfy the hypotheses *)
Example window_inhabited_across_era :
  sec_ok (time_sec (2085978497 * 1000000000)) /\ in_window (2085978494 * 1000000000) (2085978497 * 1000000000)
  /\ time_of_time64 (time64_of_time (2085978494 * 1000000000)) (2085978497 * 1000000000) = 2085978494 * 1000000000.
Proof.
  split; [unfold sec_ok, time_sec, nanos_per_sec; lia|].
  split; [unfold in_window, time_sec, nanos_per_sec; lia|]. vm_compute. reflexivity.
Qed.

(* the literal nanosecond window: the round trip holds except in the one-second band at the upper edge *)
Lemma window_ns_seconds t tref : in_window_ns t tref ->
  in_window t tref \/ (time_sec t - time_sec tref = 2147483648 /\ time_nsec t < time_nsec tref).
Proof.
  unfold in_window_ns, in_window. intros H.
  destruct (time_sec_nsec t) as [Ht Hrt]. destruct (time_sec_nsec tref) as [Hr Hrr].
  unfold nanos_per_sec in *.
  destruct (Z.eq_dec (time_sec t - time_sec tref) 2147483648) as [E|E]; [right; split; [exact E|]; lia|left; lia].
Qed.

Theorem roundtrip_ns t tref :
  0 <= time_sec tref < 2^60 -> in_window_ns t tref -> time_sec t - time_sec tref <> 2147483648 ->
  t - 1 <= time_of_time64 (time64_of_time t) tref <= t.
Proof.
  intros Hr Hw Hne. destruct (window_ns_seconds t tref Hw) as [H|[H _]]; [apply roundtrip; assumption|contradiction].
Qed.
