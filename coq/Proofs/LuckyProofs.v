(* Proofs about the lucky-packet filter model (C17). *)
From ST Require Import Base.Ints Base.Sorting Model.NtpTime Model.Ftm Model.Lucky Proofs.FtmProofs.
From Coq Require Import ZArith List Lia Sorting.Permutation Sorting.Sorted.
Import ListNotations.
Open Scope Z_scope.

(* ---- generic list facts ---- *)

Lemma filter_perm {A} (p : A -> bool) l l' : Permutation l l' -> Permutation (filter p l) (filter p l').
Proof.
  induction 1 as [|x l l' Hp IH|x y l|l l' l'' H1 IH1 H2 IH2]; cbn [filter].
  - constructor.
  - destruct (p x); [apply perm_skip|]; exact IH.
  - destruct (p x), (p y); try apply Permutation_refl. apply perm_swap.
  - eapply Permutation_trans; eassumption.
Qed.

Lemma filter_all {A} (p : A -> bool) l : (forall x, In x l -> p x = true) -> filter p l = l.
Proof.
  induction l as [|x r IH]; intros H; cbn [filter]; [reflexivity|].
  rewrite (H x (or_introl eq_refl)). f_equal. apply IH. intros y Hy. apply H. right. exact Hy.
Qed.

Lemma filter_none {A} (p : A -> bool) l : (forall x, In x l -> p x = false) -> filter p l = [].
Proof.
  induction l as [|x r IH]; intros H; cbn [filter]; [reflexivity|].
  rewrite (H x (or_introl eq_refl)). apply IH. intros y Hy. apply H. right. exact Hy.
Qed.

Lemma filter_ext_in' {A} (p q : A -> bool) l : (forall x, In x l -> p x = q x) -> filter p l = filter q l.
Proof.
  induction l as [|x r IH]; intros H; cbn [filter]; [reflexivity|].
  rewrite (H x (or_introl eq_refl)). rewrite IH; [reflexivity|]. intros y Hy. apply H. right. exact Hy.
Qed.

Lemma filter_len_le {A} (p : A -> bool) l : (length (filter p l) <= length l)%nat.
Proof. induction l as [|x r IH]; cbn [filter length]; [lia|]. destruct (p x); cbn [length]; lia. Qed.

Lemma lastn_short {A} n (l : list A) : (length l <= n)%nat -> lastn n l = l.
Proof. intros H. unfold lastn. replace (length l - n)%nat with 0%nat by lia. reflexivity. Qed.

Lemma lastn_length {A} n (l : list A) : length (lastn n l) = Nat.min n (length l).
Proof. unfold lastn. rewrite skipn_length. lia. Qed.

Lemma tl_skipn {A} k (l : list A) : tl (skipn k l) = skipn (S k) l.
Proof.
  revert l. induction k as [|k IH]; intros l.
  - destruct l; reflexivity.
  - destruct l as [|x r]; [reflexivity|]. cbn [skipn]. rewrite IH. destruct r; reflexivity.
Qed.

(* the window shift of Do keeps "the last n elements" *)
Lemma lastn_snoc {A} n (l : list A) x : (0 < n)%nat ->
  lastn n (l ++ [x]) = (if Nat.eqb (length (lastn n l)) n then tl (lastn n l) else lastn n l) ++ [x].
Proof.
  intros Hn. rewrite lastn_length.
  destruct (Nat.eqb (Nat.min n (length l)) n) eqn:E.
  - apply Nat.eqb_eq in E. assert (Hl : (n <= length l)%nat) by lia.
    unfold lastn. rewrite tl_skipn. rewrite app_length. cbn [length].
    replace (length l + 1 - n)%nat with (S (length l - n)) by lia.
    rewrite skipn_app. replace (S (length l - n) - length l)%nat with 0%nat by lia. reflexivity.
  - apply Nat.eqb_neq in E. assert (Hl : (length l < n)%nat) by lia.
    rewrite (lastn_short n l) by lia. apply lastn_short. rewrite app_length. cbn [length]. lia.
Qed.

(* ---- the k lowest-delay samples ---- *)

Definition strictly_sorted (l : list lmeas) : Prop := StronglySorted (fun a b => l_rtd a < l_rtd b) l.

Lemma rank_in_perm w w' m : Permutation w w' -> rank_in w m = rank_in w' m.
Proof. intros H. unfold rank_in. apply Permutation_length. apply filter_perm. exact H. Qed.

Lemma lowest_perm k w w' : Permutation w w' -> Permutation (lowest k w) (lowest k w').
Proof.
  intros H. unfold lowest.
  rewrite (filter_ext_in' (fun m => Nat.ltb (rank_in w m) k) (fun m => Nat.ltb (rank_in w' m) k) w).
  - apply filter_perm. exact H.
  - intros x _. rewrite (rank_in_perm w w' x H). reflexivity.
Qed.

Lemma rank_split a x b :
  Forall (fun y => l_rtd y < l_rtd x) a -> Forall (fun y => l_rtd x < l_rtd y) b ->
  rank_in (a ++ x :: b) x = length a.
Proof.
  intros Ha Hb. unfold rank_in. rewrite filter_app. cbn [filter].
  rewrite Z.ltb_irrefl. rewrite app_length.
  rewrite (filter_all _ a), (filter_none _ b); [cbn [length]; lia| |].
  - intros y Hy. rewrite Forall_forall in Hb. specialize (Hb y Hy). apply Z.ltb_ge. lia.
  - intros y Hy. rewrite Forall_forall in Ha. specialize (Ha y Hy). apply Z.ltb_lt. lia.
Qed.

Lemma lowest_sorted_aux k b : forall a,
  strictly_sorted b ->
  (forall y z, In y a -> In z b -> l_rtd y < l_rtd z) ->
  filter (fun m => Nat.ltb (rank_in (a ++ b) m) k) b = firstn (k - length a) b.
Proof.
  induction b as [|x b IH]; intros a Hs Hab.
  - rewrite firstn_nil. reflexivity.
  - inversion Hs as [|? ? Hs' Hall]; subst. cbn [filter].
    rewrite rank_split.
    + replace (a ++ x :: b) with ((a ++ [x]) ++ b) by (rewrite <- app_assoc; reflexivity).
      rewrite IH; [|exact Hs'|].
      * rewrite app_length. cbn [length].
        destruct (Nat.ltb (length a) k) eqn:E.
        -- apply Nat.ltb_lt in E. replace (k - length a)%nat with (S (k - (length a + 1))) by lia. reflexivity.
        -- apply Nat.ltb_ge in E. replace (k - (length a + 1))%nat with 0%nat by lia.
           replace (k - length a)%nat with 0%nat by lia. reflexivity.
      * intros y z Hy Hz. apply in_app_or in Hy. destruct Hy as [Hy|[<-|[]]].
        -- apply Hab; [exact Hy|right; exact Hz].
        -- rewrite Forall_forall in Hall. apply Hall. exact Hz.
    + apply Forall_forall. intros y Hy. apply Hab; [exact Hy|left; reflexivity].
    + exact Hall.
Qed.

Lemma lowest_strictly_sorted k s : strictly_sorted s -> lowest k s = firstn k s.
Proof.
  intros Hs. unfold lowest. pose proof (lowest_sorted_aux k s [] Hs) as H. cbn [app length] in H.
  rewrite H; [rewrite Nat.sub_0_r; reflexivity|]. intros y z [].
Qed.

Lemma sorted_nodup_strict s : sorted_by l_rtd s -> NoDup (map l_rtd s) -> strictly_sorted s.
Proof.
  unfold sorted_by, strictly_sorted. induction 1 as [|x r Hs IH Hall]; intros Hnd; [constructor|].
  cbn [map] in Hnd. inversion Hnd as [|? ? Hnotin Hnd']; subst.
  constructor; [apply IH; exact Hnd'|].
  rewrite Forall_forall in *. intros y Hy. specialize (Hall y Hy).
  assert (l_rtd x <> l_rtd y) by (intros E; apply Hnotin; rewrite E; apply in_map; exact Hy). lia.
Qed.

Lemma rank_lt_length w m : In m w -> (rank_in w m < length w)%nat.
Proof.
  intros Hin. unfold rank_in. induction w as [|x r IH]; [destruct Hin|].
  cbn [filter length]. destruct Hin as [->|Hin].
  - rewrite Z.ltb_irrefl. pose proof (filter_len_le (fun x => l_rtd x <? l_rtd m) r). lia.
  - specialize (IH Hin). destruct (l_rtd x <? l_rtd m); cbn [length]; lia.
Qed.

Lemma lowest_all k w : (length w <= k)%nat -> lowest k w = w.
Proof.
  intros Hk. unfold lowest. apply filter_all. intros x Hx. apply Nat.ltb_lt.
  pose proof (rank_lt_length w x Hx). lia.
Qed.

(* for EVERY slice the unstable sort by delay may leave behind: the selection is
   a permutation of the k lowest-delay samples of the window *)
Lemma take_is_lowest pick w s1 : rtd_sorted_perm w s1 -> NoDup (map l_rtd w) ->
  Permutation (lucky_take pick w s1) (lowest pick w).
Proof.
  intros [Hp Hs] Hnd. unfold lucky_take.
  destruct (Nat.ltb pick (length w)) eqn:E.
  - assert (Hss : strictly_sorted s1).
    { apply sorted_nodup_strict; [exact Hs|].
      eapply Permutation_NoDup; [apply Permutation_map; exact Hp|exact Hnd]. }
    rewrite <- (lowest_strictly_sorted pick s1 Hss).
    apply Permutation_sym. apply lowest_perm. exact Hp.
  - apply Nat.ltb_ge in E. rewrite lowest_all by exact E. apply Permutation_refl.
Qed.

Lemma lucky_result_perm lp lp' : Permutation lp lp' -> lucky_result lp = lucky_result lp'.
Proof.
  intros H. unfold lucky_result. rewrite !isort_map.
  rewrite (zsort_perm_invariant (map l_off lp) (map l_off lp')); [reflexivity|].
  apply Permutation_map. exact H.
Qed.

Theorem lucky_selection_rule pick w s1 : rtd_sorted_perm w s1 -> NoDup (map l_rtd w) ->
  lucky_out_of pick w s1 = median_sorted (zsort (map l_off (lowest pick w))).
Proof.
  intros Hsp Hnd. unfold lucky_out_of.
  rewrite (lucky_result_perm _ _ (take_is_lowest pick w s1 Hsp Hnd)).
  unfold lucky_result. rewrite isort_map. reflexivity.
Qed.

Lemma isort_rtd_sorted_perm w : rtd_sorted_perm w (isort l_rtd w).
Proof. split; [apply isort_perm|apply isort_sorted]. Qed.

(* the order the sort leaves ties in cannot matter when there are none *)
Theorem lucky_sort_choice_irrelevant pick w s1 : rtd_sorted_perm w s1 -> NoDup (map l_rtd w) ->
  lucky_out_of pick w s1 = lucky_result (lucky_select pick w).
Proof.
  intros Hsp Hnd. rewrite (lucky_selection_rule pick w s1 Hsp Hnd).
  symmetry. apply (lucky_selection_rule pick w (isort l_rtd w) (isort_rtd_sorted_perm w) Hnd).
Qed.

(* ---- the median without int64 wrap ---- *)

Lemma zsort_In l x : In x (zsort l) -> In x l.
Proof. intros H. eapply Permutation_in; [apply Permutation_sym; apply isort_perm|exact H]. Qed.

Lemma median_sorted_exact s : s <> [] -> (forall x, In x s -> Z.abs x < 2^62) -> median_sorted s = med_exact s.
Proof.
  intros Hne Hb. unfold median_sorted, med_exact.
  destruct (Nat.eqb (length s mod 2) 0) eqn:E; [|reflexivity].
  assert (Hlen : (0 < length s)%nat) by (destruct s; [congruence|cbn; lia]).
  assert (Hd : (length s / 2 < length s)%nat) by (apply Nat.div_lt; lia).
  apply midpoint_exact; apply Hb; apply nth_In; lia.
Qed.

Lemma distinctb_NoDup l : distinctb l = true -> NoDup l.
Proof.
  induction l as [|x r IH]; cbn [distinctb]; intros H; [constructor|].
  apply andb_prop in H. destruct H as [H1 H2]. constructor; [|apply IH; exact H2].
  intros Hin. apply Bool.negb_true_iff in H1.
  assert (existsb (Z.eqb x) r = true) by (apply existsb_exists; exists x; split; [exact Hin|apply Z.eqb_refl]).
  congruence.
Qed.

Lemma lowest_incl k w x : In x (lowest k w) -> In x w.
Proof. unfold lowest. intros H. apply filter_In in H. apply H. Qed.

Lemma lowest_nonempty k w : (0 < k)%nat -> w <> [] -> lowest k w <> [].
Proof.
  intros Hk Hw.
  (* the element of minimal delay has rank 0 *)
  assert (Hmin : exists m, In m w /\ forall y, In y w -> l_rtd m <= l_rtd y).
  { clear Hk. induction w as [|x r IH]; [congruence|].
    destruct r as [|y r'].
    - exists x. split; [left; reflexivity|]. intros y [<-|[]]. lia.
    - destruct IH as [m [Hm Hle]]; [discriminate|].
      destruct (Z.le_gt_cases (l_rtd x) (l_rtd m)).
      + exists x. split; [left; reflexivity|]. intros z [<-|Hz]; [lia|]. specialize (Hle z Hz). lia.
      + exists m. split; [right; exact Hm|]. intros z [<-|Hz]; [lia|]. apply Hle. exact Hz. }
  destruct Hmin as [m [Hm Hle]].
  assert (Hin : In m (lowest k w)).
  { unfold lowest. apply filter_In. split; [exact Hm|]. apply Nat.ltb_lt.
    unfold rank_in. rewrite filter_none; [cbn; lia|].
    intros y Hy. apply Z.ltb_ge. apply Hle. exact Hy. }
  intros E. rewrite E in Hin. destruct Hin.
Qed.

(* one step meets the oracle: for every slice the sort may leave when the delays are distinct,
   for the stable sort (windows of at most 12 samples) when they are not *)
Lemma lucky_step_meets_spec cap pick hist s1 :
  (0 < cap)%nat -> (0 < pick)%nat -> hist <> [] ->
  let w := map meas_of (lastn cap hist) in
  rtd_sorted_perm w s1 -> (distinctb (map l_rtd w) = false -> s1 = isort l_rtd w) ->
  C17_lucky_step_ok cap pick hist (lucky_out_of (Nat.min pick cap) w s1) = true.
Proof.
  intros Hcap Hpick Hne w Hsp Hties. unfold C17_lucky_step_ok, lucky_spec.
  destruct cap as [|cap']; [lia|]. fold w.
  destruct (forallb (fun m => Z.abs (l_off m) <? 2 ^ 62) w && negb (Nat.eqb (length w) 0)) eqn:E; [|reflexivity].
  apply andb_prop in E. destruct E as [E2 E3].
  assert (Hw : w <> []) by (intros Hw; rewrite Hw in E3; cbn in E3; discriminate).
  destruct (distinctb (map l_rtd w)) eqn:E1.
  - apply Z.eqb_eq. rewrite (lucky_selection_rule _ w s1 Hsp (distinctb_NoDup _ E1)).
    symmetry. apply median_sorted_exact.
    + intros Hnil. assert (Hl : lowest (Nat.min pick (S cap')) w = []).
      { destruct (lowest (Nat.min pick (S cap')) w) eqn:El; [reflexivity|].
        unfold zsort in Hnil. pose proof (isort_length (fun x => x) (map l_off (l :: l0))) as HL.
        rewrite Hnil in HL. cbn in HL. lia. }
      revert Hl. apply lowest_nonempty; [lia|exact Hw].
    + intros x Hx. apply zsort_In in Hx. apply in_map_iff in Hx. destruct Hx as [m [<- Hm]].
      apply lowest_incl in Hm. rewrite forallb_forall in E2. specialize (E2 m Hm). apply Z.ltb_lt. exact E2.
  - destruct (Nat.leb (length w) max_insertion); [|reflexivity].
    apply Z.eqb_eq. rewrite (Hties eq_refl). unfold lucky_out_of, lucky_result. rewrite isort_map.
    change (lucky_take (Nat.min pick (S cap')) w (isort l_rtd w)) with (lowest_stable (Nat.min pick (S cap')) w).
    symmetry. apply median_sorted_exact.
    + intros Hnil. assert (Hl : lowest_stable (Nat.min pick (S cap')) w = []).
      { destruct (lowest_stable (Nat.min pick (S cap')) w) eqn:El; [reflexivity|].
        unfold zsort in Hnil. pose proof (isort_length (fun x => x) (map l_off (l :: l0))) as HL.
        rewrite Hnil in HL. cbn in HL. lia. }
      unfold lowest_stable in Hl. destruct (Nat.ltb (Nat.min pick (S cap')) (length w)); [|exact (Hw Hl)].
      pose proof (isort_length l_rtd w) as HL. destruct (isort l_rtd w) as [|a r] eqn:Ei.
      * destruct w; [exact (Hw eq_refl)|cbn in HL; lia].
      * destruct (Nat.min pick (S cap')) eqn:Em; [lia|]. cbn in Hl. discriminate.
    + intros x Hx. apply zsort_In in Hx. apply in_map_iff in Hx. destruct Hx as [m [<- Hm]].
      assert (Hin : In m w).
      { unfold lowest_stable in Hm. destruct (Nat.ltb (Nat.min pick (S cap')) (length w)); [|exact Hm].
        eapply Permutation_in; [apply Permutation_sym, isort_perm|].
        rewrite <- (firstn_skipn (Nat.min pick (S cap')) (isort l_rtd w)). apply in_or_app. left. exact Hm. }
      rewrite forallb_forall in E2. specialize (E2 m Hin). apply Z.ltb_lt. exact E2.
Qed.

(* ---- histories ---- *)

Definition configured (cap pick : nat) (f : lucky) (acc : list sample) : Prop :=
  lk_cap f = cap /\ lk_pick f = Nat.min pick cap /\ lk_state f = map meas_of (lastn cap acc).

Lemma push_window cap acc s : (0 < cap)%nat ->
  lucky_push cap (map meas_of (lastn cap acc)) (meas_of s) = map meas_of (lastn cap (acc ++ [s])).
Proof.
  intros Hcap. unfold lucky_push. rewrite map_length. rewrite (lastn_snoc cap acc s Hcap).
  rewrite map_app. cbn [map]. f_equal.
  destruct (Nat.eqb (length (lastn cap acc)) cap); [|reflexivity].
  destruct (lastn cap acc); reflexivity.
Qed.

Lemma lucky_do_configured cap pick f acc s : (0 < cap)%nat -> configured cap pick f acc ->
  exists f', lucky_do f s = Some (f', lucky_result (lucky_select (Nat.min pick cap) (map meas_of (lastn cap (acc ++ [s])))))
             /\ configured cap pick f' (acc ++ [s]).
Proof.
  intros Hcap [Hc [Hp Hst]]. unfold lucky_do. rewrite Hc, Hp, Hst.
  destruct (Nat.eqb cap 0) eqn:E; [apply Nat.eqb_eq in E; lia|].
  rewrite (push_window cap acc s Hcap).
  assert (Hlen : Nat.ltb cap (length (map meas_of (lastn cap (acc ++ [s])))) = false).
  { apply Nat.ltb_ge. rewrite map_length, lastn_length. lia. }
  rewrite Hlen. eexists. split; [reflexivity|]. repeat split; reflexivity.
Qed.

Theorem lucky_run_meets_oracle cap pick : (0 < cap)%nat -> (0 < pick)%nat ->
  forall ops f acc, configured cap pick f acc ->
  exists outs, lucky_run f ops = Some outs /\ C17_lucky_ok_from cap pick acc ops outs = true.
Proof.
  intros Hcap Hpick. induction ops as [|op r IH]; intros f acc Hcf.
  - exists []. split; reflexivity.
  - destruct op as [s|].
    + destruct (lucky_do_configured cap pick f acc s Hcap Hcf) as [f' [Hdo Hcf']].
      destruct (IH f' (acc ++ [s]) Hcf') as [outs [Hrun Hok]].
      eexists. cbn [lucky_run]. rewrite Hdo, Hrun. split; [reflexivity|].
      cbn [C17_lucky_ok_from]. rewrite Hok, Bool.andb_true_r.
      apply (lucky_step_meets_spec cap pick (acc ++ [s]) _ Hcap Hpick).
      * destruct acc; discriminate.
      * apply isort_rtd_sorted_perm.
      * intros _. reflexivity.
    + cbn [lucky_run C17_lucky_ok_from]. apply IH.
      destruct Hcf as [Hc [Hp _]]. split; [exact Hc|]. split; [exact Hp|]. reflexivity.
Qed.

Lemma lucky_new_configured cap pick f : lucky_new cap pick = Some f ->
  0 < cap /\ 0 < pick /\ configured (Z.to_nat cap) (Z.to_nat pick) f [].
Proof.
  unfold lucky_new. destruct (cap <=? 0) eqn:E1; [discriminate|]. destruct (pick <=? 0) eqn:E2; [discriminate|].
  intros H. injection H as <-. apply Z.leb_gt in E1, E2. repeat split; try lia; cbn.
  apply Z2Nat.inj_min.
Qed.

Theorem lucky_new_meets_oracle cap pick f ops : lucky_new cap pick = Some f ->
  exists outs, lucky_run f ops = Some outs /\ C17_lucky_ok (Z.to_nat cap) (Z.to_nat pick) ops outs = true.
Proof.
  intros Hnew. destruct (lucky_new_configured cap pick f Hnew) as [Hc [Hp Hcf]].
  apply lucky_run_meets_oracle; [lia|lia|exact Hcf].
Qed.

(* the constructor refuses exactly the non-positive arguments *)
Theorem lucky_new_total cap pick : lucky_new cap pick = None <-> cap <= 0 \/ pick <= 0.
Proof.
  unfold lucky_new. destruct (cap <=? 0) eqn:E1; [apply Z.leb_le in E1; split; [left; lia|reflexivity]|].
  destruct (pick <=? 0) eqn:E2; [apply Z.leb_le in E2; split; [right; lia|reflexivity]|].
  apply Z.leb_gt in E1, E2. split; [discriminate|lia].
Qed.

(* unconfigured filter *)
Lemma unconfigured_raw s : lucky_do lucky_zero s = Some (lucky_zero, raw_offset s).
Proof. reflexivity. Qed.

Theorem unconfigured_run ops : forall acc,
  exists outs, lucky_run lucky_zero ops = Some outs /\ C17_lucky_ok_from 0 0 acc ops outs = true.
Proof.
  induction ops as [|op r IH]; intros acc.
  - exists []. split; reflexivity.
  - destruct op as [s|].
    + destruct (IH (acc ++ [s])) as [outs [Hrun Hok]].
      exists (raw_offset s :: outs). cbn [lucky_run]. rewrite unconfigured_raw, Hrun. split; [reflexivity|].
      cbn [C17_lucky_ok_from]. rewrite Hok, Bool.andb_true_r.
      unfold C17_lucky_step_ok, lucky_spec. rewrite rev_app_distr. cbn. apply Z.eqb_refl.
    + cbn [lucky_run C17_lucky_ok_from]. change (lucky_reset lucky_zero) with lucky_zero. apply IH.
Qed.

(* the window is the last N samples since the last reset *)
Theorem lucky_window cap pick : (0 < cap)%nat ->
  forall ops f acc, configured cap pick f acc ->
  forall f', lucky_after f ops = Some f' -> configured cap pick f' (since_reset acc ops).
Proof.
  intros Hcap. induction ops as [|op r IH]; intros f acc Hcf f' Hafter.
  - cbn in Hafter. injection Hafter as <-. exact Hcf.
  - destruct op as [s|]; cbn [lucky_after since_reset] in *.
    + destruct (lucky_do_configured cap pick f acc s Hcap Hcf) as [f1 [Hdo Hcf1]].
      rewrite Hdo in Hafter. apply (IH f1 (acc ++ [s]) Hcf1 f' Hafter).
    + apply (IH (lucky_reset f) [] ); [|exact Hafter].
      destruct Hcf as [Hc [Hp _]]. split; [exact Hc|]. split; [exact Hp|]. reflexivity.
Qed.

(* Reset: whatever the filter held before, what follows is the same *)
Theorem lucky_reset_forgets f1 f2 ops :
  lk_cap f1 = lk_cap f2 -> lk_pick f1 = lk_pick f2 ->
  lucky_run f1 (LReset :: ops) = lucky_run f2 (LReset :: ops).
Proof.
  intros Hc Hp. cbn [lucky_run]. unfold lucky_reset. rewrite Hc, Hp. reflexivity.
Qed.

(* Reset equals fresh: a filter that went through ANY history, once Reset, behaves on every
   further history exactly like the filter NewLuckyPacketFilter returned *)
Definition lucky_fresh (cap pick : nat) : lucky := {| lk_cap := cap; lk_pick := pick; lk_state := [] |}.

Lemma lucky_reset_is_fresh f : lucky_reset f = lucky_fresh (lk_cap f) (lk_pick f).
Proof. reflexivity. Qed.

Theorem lucky_reset_equals_new cap pick f0 pre f ops :
  lucky_new cap pick = Some f0 -> lucky_after f0 pre = Some f ->
  lucky_run f (LReset :: ops) = lucky_run f0 ops.
Proof.
  intros Hnew Hafter. destruct (lucky_new_configured cap pick f0 Hnew) as [Hc [Hp Hcf]].
  assert (Hcf' := lucky_window (Z.to_nat cap) (Z.to_nat pick) ltac:(lia) pre f0 [] Hcf f Hafter).
  destruct Hcf as [C0 [P0 S0]]. destruct Hcf' as [C1 [P1 _]].
  assert (EC : lk_cap f = lk_cap f0) by congruence. assert (EP : lk_pick f = lk_pick f0) by congruence.
  cbn [lucky_run]. rewrite lucky_reset_is_fresh, EC, EP.
  destruct f0 as [c p st]. cbn [lk_cap lk_pick lk_state] in *. rewrite S0. reflexivity.
Qed.

(* an unconfigured filter has nothing to forget *)
Theorem lucky_reset_equals_zero ops : lucky_run lucky_zero (LReset :: ops) = lucky_run lucky_zero ops.
Proof. reflexivity. Qed.

(* ---- ties: Go's insertion sort (windows of at most 12 samples) is the stable sort ---- *)
Section Stable.
  Context {A : Type} (key : A -> Z).

  (* x placed behind everything not larger: insertion from the left, the mirror image of insert *)
  Fixpoint rinsert (x : A) (l : list A) : list A :=
    match l with
    | [] => [x]
    | y :: r => if key y <=? key x then y :: rinsert x r else x :: l
    end.

  Lemma insert_rinsert_comm x y p : insert key x (rinsert y p) = rinsert y (insert key x p).
  Proof.
    induction p as [|z r IH]; cbn [insert rinsert].
    - destruct (Z.leb_spec (key x) (key y)); cbn [insert rinsert];
        destruct (Z.leb_spec (key x) (key y)); try lia; reflexivity.
    - destruct (Z.leb_spec (key z) (key y)) as [Hzy|Hzy]; destruct (Z.leb_spec (key x) (key z)) as [Hxz|Hxz];
        cbn [insert rinsert].
      + destruct (Z.leb_spec (key x) (key z)); [|lia]. destruct (Z.leb_spec (key x) (key y)); [|lia].
        destruct (Z.leb_spec (key z) (key y)); [reflexivity|lia].
      + destruct (Z.leb_spec (key x) (key z)); [lia|]. destruct (Z.leb_spec (key z) (key y)); [|lia].
        rewrite IH. reflexivity.
      + destruct (Z.leb_spec (key x) (key y)) as [Hxy|Hxy]; cbn [insert rinsert].
        * destruct (Z.leb_spec (key x) (key y)); [|lia]. destruct (Z.leb_spec (key z) (key y)); [lia|]. reflexivity.
        * destruct (Z.leb_spec (key x) (key y)); [lia|]. destruct (Z.leb_spec (key x) (key z)); [reflexivity|lia].
      + destruct (Z.leb_spec (key x) (key y)); [lia|]. cbn [insert].
        destruct (Z.leb_spec (key x) (key z)); [lia|]. destruct (Z.leb_spec (key z) (key y)); [lia|]. reflexivity.
  Qed.

  (* sorting one more (newer) element: it goes behind its equals *)
  Lemma isort_snoc l y : isort key (l ++ [y]) = rinsert y (isort key l).
  Proof.
    induction l as [|x r IH]; cbn [app isort]; [reflexivity|].
    rewrite IH. apply insert_rinsert_comm.
  Qed.

  Lemma rinsert_app_gt y q z : key y < key z -> rinsert y (q ++ [z]) = rinsert y q ++ [z].
  Proof.
    intros H. induction q as [|w r IH]; cbn [app rinsert].
    - destruct (Z.leb_spec (key z) (key y)); [lia|reflexivity].
    - destruct (Z.leb_spec (key w) (key y)); [rewrite IH|]; reflexivity.
  Qed.

  Lemma rinsert_all_le y p : (forall w, In w p -> key w <= key y) -> rinsert y p = p ++ [y].
  Proof.
    induction p as [|w r IH]; intros H; cbn [app rinsert]; [reflexivity|].
    destruct (Z.leb_spec (key w) (key y)) as [_|C]; [|specialize (H w (or_introl eq_refl)); lia].
    rewrite IH; [reflexivity|]. intros v Hv. apply H. right. exact Hv.
  Qed.

  Lemma sorted_snoc_inv q z : sorted_by key (q ++ [z]) -> sorted_by key q /\ forall w, In w q -> key w <= key z.
  Proof.
    induction q as [|a q IHq]; intros Hs; [split; [constructor|intros w []]|].
    cbn [app] in Hs. inversion Hs as [|a' l' Hs' Hall]; subst. destruct (IHq Hs') as [S1 S2].
    rewrite Forall_forall in Hall. split.
    - constructor; [exact S1|]. apply Forall_forall. intros w Hw. apply Hall. apply in_or_app. left. exact Hw.
    - intros w [<-|Hw]; [apply Hall; apply in_or_app; right; left; reflexivity|apply S2; exact Hw].
  Qed.

  (* Go's right-to-left sinking on a sorted prefix finds the same place *)
  Lemma go_sink_rinsert y p : sorted_by key p -> rev (go_sink key y (rev p)) = rinsert y p.
  Proof.
    induction p as [|z q IH] using rev_ind; intros Hs; [reflexivity|].
    rewrite rev_app_distr. cbn [rev app go_sink].
    destruct (sorted_snoc_inv q z Hs) as [Sq Lq].
    destruct (Z.ltb_spec (key y) (key z)) as [Hlt|Hge].
    - cbn [rev]. rewrite (IH Sq). symmetry. apply rinsert_app_gt. exact Hlt.
    - cbn [rev]. rewrite rev_involutive. rewrite rinsert_all_le; [rewrite <- app_assoc; reflexivity|].
      intros w Hw. apply in_app_or in Hw. destruct Hw as [Hw|[<-|[]]]; [specialize (Lq w Hw); lia|lia].
  Qed.

  Theorem go_isort_is_isort l : go_isort key l = isort key l.
  Proof.
    unfold go_isort. induction l as [|y q IH] using rev_ind; [reflexivity|].
    rewrite fold_left_app. cbn [fold_left]. rewrite isort_snoc.
    rewrite <- (rev_involutive (fold_left _ q [])). rewrite IH.
    apply go_sink_rinsert. apply isort_sorted.
  Qed.

  (* stability: the samples of any one key keep the order they had *)
  Lemma filter_insert k x l :
    filter (fun m => key m =? k) (insert key x l) =
    if key x =? k then x :: filter (fun m => key m =? k) l else filter (fun m => key m =? k) l.
  Proof.
    induction l as [|y r IH]; cbn [insert filter].
    - destruct (key x =? k); reflexivity.
    - destruct (Z.leb_spec (key x) (key y)) as [Hle|Hgt]; cbn [filter]; [destruct (key x =? k); reflexivity|].
      rewrite IH. destruct (Z.eqb_spec (key x) k) as [Ex|Nx]; [|reflexivity].
      destruct (Z.eqb_spec (key y) k); [lia|reflexivity].
  Qed.

  Theorem isort_stable k l : filter (fun m => key m =? k) (isort key l) = filter (fun m => key m =? k) l.
  Proof.
    induction l as [|x r IH]; cbn [isort filter]; [reflexivity|].
    rewrite filter_insert, IH. reflexivity.
  Qed.
End Stable.

(* what the filter does on ties, windows of at most 12 samples: the slice after the first sort is the
   stable sort of the window (samples of equal delay in window order, older first), so the selection
   is its first pick entries, and the model's output is the filter's output *)
Theorem lucky_ties_small pick w :
  go_isort l_rtd w = isort l_rtd w /\
  (forall d, filter (fun m => l_rtd m =? d) (go_isort l_rtd w) = filter (fun m => l_rtd m =? d) w) /\
  lucky_out_of pick w (go_isort l_rtd w) = lucky_result (lucky_select pick w).
Proof.
  rewrite go_isort_is_isort. split; [reflexivity|]. split; [intros d; apply isort_stable|reflexivity].
Qed.
