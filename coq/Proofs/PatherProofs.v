(* Proofs about the model of the Pather (Model/Pather.v): what Paths(dst)
   returns after a refresh: exactly what the daemon last reported for that IA
   (each destination is looked up once), that the clients of a
   round then probe over pairwise distinct daemon paths, and that the
   Pather-level oracle accepts every such round of the model. *)
From ST Require Import Base.Ints Base.Sorting Model.NtpTime Model.Ftm Model.Sample Model.PathAssign Model.PathOracle
  Model.Pather Proofs.SampleProofs Proofs.PathAssignProofs Proofs.PathOracleProofs Proofs.C15Main.
From Coq Require Import Sorting.Permutation.
Open Scope Z_scope.

(* ---- Paths(q) after a refresh ---- *)
Lemma zmemb_In x l : zmemb x l = true <-> In x l.
Proof.
  induction l as [|y r IH]; cbn [zmemb In]; [split; [discriminate|tauto]|].
  rewrite orb_true_iff, IH, Z.eqb_eq. split; intros [H|H]; auto.
Qed.

(* every destination is looked up once *)
Lemma first_occ_spec l : forall seen,
  NoDup (first_occ seen l) /\ (forall x, In x (first_occ seen l) <-> In x l /\ ~ In x seen).
Proof.
  induction l as [|d r IH]; intros seen; cbn [first_occ].
  - split; [constructor|]. intros x. cbn [In]. tauto.
  - destruct (zmemb d seen) eqn:E.
    + apply zmemb_In in E. destruct (IH seen) as [Hn Hi]. split; [exact Hn|].
      intros x. rewrite Hi. cbn [In]. split; [tauto|]. intros [[->|H] Hs]; [contradiction|tauto].
    + assert (Hd : ~ In d seen) by (intros H; apply zmemb_In in H; congruence).
      destruct (IH (d :: seen)) as [Hn Hi]. split.
      * constructor; [|exact Hn]. intros H. apply Hi in H. destruct H as [_ H]. apply H. left. reflexivity.
      * intros x. cbn [In]. rewrite Hi. cbn [In]. split.
        -- intros [<-|[H1 H2]]; [tauto|]. split; [tauto|]. intros H. apply H2. right. exact H.
        -- intros [[<-|H1] H2]; [tauto|]. destruct (Z.eq_dec d x) as [->|Hne]; [tauto|]. right. split; [exact H1|].
           intros [H|H]; [contradiction|contradiction].
Qed.

Lemma pather_paths_map l answers q :
  pather_paths (map (fun d => (d, daemon_paths answers d)) l) q
  = flat_map (fun d => if d =? q then daemon_paths answers q else []) l.
Proof.
  unfold pather_paths. induction l as [|a r IH]; [reflexivity|].
  cbn [map flat_map fst snd]. rewrite IH. destruct (Z.eqb_spec a q) as [->|_]; reflexivity.
Qed.

Lemma pather_update_failed st dstIAs answers : pather_update st false dstIAs answers = st.
Proof. reflexivity. Qed.

Lemma flat_map_absent (f : Z -> list dpath) q l :
  ~ In q l -> flat_map (fun d => if d =? q then f d else []) l = [].
Proof.
  induction l as [|a r IH]; intros H; [reflexivity|]. cbn [flat_map].
  destruct (Z.eqb_spec a q) as [->|_]; [exfalso; apply H; left; reflexivity|].
  apply IH. intros Hin. apply H. right. exact Hin.
Qed.

Lemma flat_map_once (f : Z -> list dpath) q l : NoDup l ->
  flat_map (fun d => if d =? q then f q else []) l = if zmemb q l then f q else [].
Proof.
  intros Hn. induction Hn as [|a r Ha Hr IH]; [reflexivity|].
  cbn [flat_map zmemb]. rewrite (Z.eqb_sym q a). destruct (Z.eqb_spec a q) as [->|Hne]; cbn [orb].
  - rewrite (flat_map_absent (fun _ => f q)) by exact Ha. apply app_nil_r.
  - exact IH.
Qed.

(* after a refresh that got the local IA, Paths(q) is the daemon's answer for q - once, however often q is
   listed among the destinations - or nothing if q is not a destination *)
Lemma pather_paths_update st dstIAs answers q :
  pather_paths (pather_update st true dstIAs answers) q
  = if zmemb q dstIAs then daemon_paths answers q else [].
Proof.
  unfold pather_update. rewrite pather_paths_map.
  destruct (first_occ_spec dstIAs []) as [Hn Hi].
  rewrite (flat_map_once (daemon_paths answers) q _ Hn).
  assert (E : zmemb q (first_occ [] dstIAs) = zmemb q dstIAs).
  { destruct (zmemb q dstIAs) eqn:E1.
    - apply zmemb_In. apply Hi. split; [apply zmemb_In; exact E1|intros []].
    - destruct (zmemb q (first_occ [] dstIAs)) eqn:E2; [|reflexivity].
      apply zmemb_In in E2. apply Hi in E2. destruct E2 as [E2 _]. apply zmemb_In in E2. congruence. }
  rewrite E. reflexivity.
Qed.

(* a sequence of refreshes: what the property calls the available paths (truth_update) is what Paths(q) returns *)
Record refresh := { rf_lia : bool; rf_answers : list answer }.

Fixpoint refreshes (st : pstate) (dstIAs : list Z) (l : list refresh) : pstate :=
  match l with [] => st | r :: l' => refreshes (pather_update st (rf_lia r) dstIAs (rf_answers r)) dstIAs l' end.
Fixpoint truths (t : list dpath) (dstIAs : list Z) (q : Z) (l : list refresh) : list dpath :=
  match l with [] => t | r :: l' => truths (truth_update t (rf_lia r) dstIAs (rf_answers r) q) dstIAs q l' end.

Theorem pather_offers_daemon_paths dstIAs q l :
  forall st t, pather_paths st q = t -> pather_paths (refreshes st dstIAs l) q = truths t dstIAs q l.
Proof.
  induction l as [|r l' IH]; intros st t H; cbn [refreshes truths]; [exact H|].
  apply IH. unfold truth_update. destruct (rf_lia r).
  - apply pather_paths_update.
  - exact H.
Qed.

(* ---- identities and positions ---- *)
Lemma index_of_nth ids : NoDup ids -> forall p i, (p < length ids)%nat ->
  index_of (nth p ids (-1)) ids i = i + Z.of_nat p.
Proof.
  induction 1 as [|x r Hx Hr IH]; intros p i Hp; cbn [length] in Hp; [lia|].
  destruct p as [|p]; cbn [nth index_of].
  - rewrite Z.eqb_refl. lia.
  - destruct (Z.eqb_spec (nth p r (-1)) x) as [E|_].
    + exfalso. apply Hx. rewrite <- E. apply nth_In. lia.
    + rewrite IH by lia. lia.
Qed.

Lemma with_hops_same o : with_hops o (ob_hops o) = o.
Proof. destruct o; reflexivity. Qed.

Lemma hops_in_out ids o : NoDup ids ->
  forallb (fun p => (0 <=? p) && (p <? Z.of_nat (length ids))) (ob_hops o) = true ->
  hops_in ids (hops_out ids o) = o.
Proof.
  intros Hn Hr. unfold hops_in, hops_out. destruct o as [il fp fl hops rs fi vs]. unfold with_hops. cbn [ob_hops ob_ilv ob_fp ob_filter ob_resets ob_first ob_vals] in *.
  f_equal. rewrite map_map. rewrite <- (map_id hops) at 2. apply map_ext_in. intros p Hp.
  rewrite forallb_forall in Hr. specialize (Hr p Hp). apply andb_true_iff in Hr. destruct Hr as [H0 H1].
  apply Z.leb_le in H0. apply Z.ltb_lt in H1.
  rewrite index_of_nth by (exact Hn || lia). lia.
Qed.

Lemma forallb_flat_map {A B} (f : B -> bool) (g : A -> list B) l :
  forallb f (flat_map g l) = true -> forall x, In x l -> forallb f (g x) = true.
Proof.
  induction l as [|a r IH]; intros H x Hx; [destruct Hx|]. cbn [flat_map] in H. rewrite forallb_app in H.
  apply andb_true_iff in H. destruct H as [H1 H2]. destruct Hx as [<-|Hx]; [exact H1|apply IH; assumption].
Qed.

(* what the plain oracle accepts for positions, the Pather-level oracle accepts for identities *)
Theorem pather_oracle_of_round_oracle truth L cls off : NoDup (map fst truth) ->
  C15_round_ok (map snd truth) L cls off = true ->
  C15_pather_round_ok truth (map (hops_out (map fst truth)) L) cls off = true.
Proof.
  intros Hn H. unfold C15_pather_round_ok. rewrite map_map.
  replace (map (fun o => hops_in (map fst truth) (hops_out (map fst truth) o)) L) with L; [exact H|].
  rewrite <- (map_id L) at 1. apply map_ext_in. intros o Ho. symmetry. apply hops_in_out; [exact Hn|].
  unfold C15_round_ok in H. repeat (apply andb_true_iff in H; destruct H as [H ?]).
  match goal with Hr : forallb _ (flat_map ob_hops L) = true |- _ =>
    pose proof (forallb_flat_map _ _ _ Hr o Ho) as Hro end.
  rewrite !map_length in *. exact Hro.
Qed.

(* ---- the rounds of the model behind a Pather ---- *)
Section PatherRound.
  Variables (st : pstate) (q : Z) (truth : list dpath).
  Hypothesis Hoffered : pather_paths st q = truth.          (* e.g. by pather_offers_daemon_paths *)
  Hypothesis Hids : NoDup (map fst truth).                  (* the daemon reports each path once *)
  Variables (c : bool) (cs : list cstate) (hasfs : list bool) (d : Z) (tape : list Z).
  Hypothesis Hh : length hasfs = length cs.
  Hypothesis Hmax : Z.of_nat (length truth) <= max_i64.
  Hypothesis Hw : words tape.
  Hypothesis Hd : word d.

  Let seen (obs : list client_obs) := map (hops_out (map fst truth)) (to_cobs_list hasfs cs obs).

  Theorem pather_round_ok mss vss obs off rest :
    pather_round c st q cs d tape mss vss = ROk obs off rest ->
    C15_pather_round_ok truth (seen obs) 0 off = true.
  Proof.
    unfold pather_round. rewrite Hoffered. intros H. apply pather_oracle_of_round_oracle; [exact Hids|].
    eapply model_round_ok; eauto. rewrite map_length. exact Hmax.
  Qed.

  Theorem pather_round_nomeas_ok mss vss obs rest :
    pather_round c st q cs d tape mss vss = RNoMeas obs rest ->
    C15_pather_round_ok truth (seen obs) 4 0 = true.
  Proof.
    unfold pather_round. rewrite Hoffered. intros H. apply pather_oracle_of_round_oracle; [exact Hids|].
    eapply model_nomeas_ok; eauto. rewrite map_length. exact Hmax.
  Qed.

  Theorem pather_round_nopath_ok mss vss post resets rest :
    pather_round c st q cs d tape mss vss = RNoPath post resets rest ->
    C15_pather_round_ok truth
      (map (hops_out (map fst truth)) (map (fun hs : bool * cstate => idle_cobs (fst hs) (snd hs)) (combine hasfs cs))) 1 0 = true.
  Proof.
    unfold pather_round. rewrite Hoffered. intros H. apply pather_oracle_of_round_oracle; [exact Hids|].
    eapply model_nopath_ok; eauto.
  Qed.

  (* the participating clients probe over pairwise distinct paths of the daemon *)
  Theorem pather_distinct c0 asg resets rest :
    assign (map snd truth) cs c0 d tape = AOk asg resets rest ->
    NoDup (map (fun p => nth p (map fst truth) (-1)) (somes asg))
    /\ (forall p, In p (somes asg) -> In (nth p truth (-1, -1)) truth)
    /\ (length (somes asg) <= length truth)%nat.
  Proof.
    intros H.
    assert (Hmax' : Z.of_nat (length (map snd truth)) <= max_i64) by (rewrite map_length; exact Hmax).
    destruct (distinct _ _ _ _ _ Hmax' Hw Hd _ _ _ H) as [Hn [Hr _]].
    destruct (count _ _ _ _ _ Hmax' Hw Hd _ _ _ H) as [Hc _].
    rewrite map_length in Hr, Hc. repeat split.
    - assert (Hgen : forall l, NoDup l -> (forall p, In p l -> (p < length truth)%nat) ->
                NoDup (map (fun p => nth p (map fst truth) (-1)) l)).
      { induction 1 as [|x r Hx Hnr IH]; intros Hb; [constructor|]. cbn [map]. constructor.
        - intros Hin. apply in_map_iff in Hin. destruct Hin as [y [Hy Hyr]].
          assert (x = y); [|subst; contradiction].
          apply (proj1 (NoDup_nth (map fst truth) (-1)) Hids); rewrite ?map_length;
            [apply Hb; left; reflexivity|apply Hb; right; exact Hyr|symmetry; exact Hy].
        - apply IH. intros p Hp. apply Hb. right. exact Hp. }
      apply Hgen; assumption.
    - intros p Hp. apply nth_In. apply Hr. exact Hp.
    - rewrite Hc. apply Nat.le_min_r.
  Qed.
End PatherRound.

(* ---- a clock without a Pather (no SCION daemon address configured) ----
   no path is available: the round reports errNoPath and resets every client, for every client state, tape and
   context; with a Pather the clock's round is the Pather's round *)
Theorem clock_round_no_pather c q cs d tape mss vss :
  clock_round c None q cs d tape mss vss
  = RNoPath (map reset_client cs) (map (fun _ => true) cs) tape.
Proof.
  unfold clock_round, clock_paths, run_round_c. cbn [map]. rewrite no_paths_error. f_equal.
  unfold post_reset. induction cs as [|s r IH]; [reflexivity|]. cbn [map combine fst snd]. rewrite IH. reflexivity.
Qed.

Lemma clock_round_some c st q cs d tape mss vss :
  clock_round c (Some st) q cs d tape mss vss = pather_round c st q cs d tape mss vss.
Proof. reflexivity. Qed.
