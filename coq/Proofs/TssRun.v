(* Histories: every reachable state of the timestamp store satisfies the
   invariant, and every stored exchange was created by a reply to the same
   client (C06 provenance / isolation). *)
From ST Require Import Base.Ints Model.NtpTime Model.Tss Proofs.NtpTimeProofs Proofs.TssProofs Proofs.TssInv.
From Coq Require Import ZArith List Bool Lia.
Import ListNotations.
Open Scope Z_scope.

Inductive event :=
| EvReply (cid : Z) (q : request) (r : reply)
| EvTx (cid rx64 tx64 : Z).

Definition step_log (c : config) (s : tss) (o : op) : option (tss * event) :=
  match o with
  | OpHandle cid q rxt now victim =>
      match handle c s cid q rxt now victim with
      | Some out => Some (o_state out, EvReply cid q (o_reply out))
      | None => None
      end
  | OpUpdateTx cid rxt txt =>
      let out := update_tx s cid rxt txt in Some (t_state out, EvTx cid (to64 rxt) (to64 (t_txt out)))
  end.

(* the log is kept newest first *)
Fixpoint run_log (c : config) (s : tss) (log : list event) (ops : list op) : option (tss * list event) :=
  match ops with
  | [] => Some (s, log)
  | o :: r => match step_log c s o with
              | Some (s', ev) => run_log c s' (ev :: log) r
              | None => None
              end
  end.

Section Era.
Variable k : Z.
Variable c : config.
Hypothesis Hicap : 0 < icap c.

Definition op_in_era (o : op) : Prop :=
  match o with
  | OpHandle _ _ rxt now _ => in_era k rxt /\ in_era k (rxt + icap c + 1) /\ in_era k now
  | OpUpdateTx _ rxt txt => in_era k rxt /\ in_era k (rxt + 1) /\ in_era k txt
  end.

(* every stored exchange of a client was created by a reply to that client;
   its transmit time is the one of that reply or a later reported one *)
Definition Prov (log : list event) (s : tss) : Prop :=
  forall it e, In it (items s) -> In e (it_ents it) ->
    exists q r, In (EvReply (it_key it) q r) log /\ r_rx r = e_rx e /\
                (r_ref r = e_tx e \/ In (EvTx (it_key it) (e_rx e) (e_tx e)) log).

Lemma Prov_weaken log s ev : Prov log s -> Prov (ev :: log) s.
Proof.
  intros H it e Hit He. destruct (H it e Hit He) as [q [r [H1 [H2 H3]]]].
  exists q, r. split; [right; exact H1|]. split; [exact H2|]. destruct H3 as [H3|H3]; [left; exact H3|right; right; exact H3].
Qed.

Lemma step_log_inv s o s' ev log :
  Inv c s -> Prov log s -> op_in_era o -> step_log c s o = Some (s', ev) -> Inv c s' /\ Prov (ev :: log) s'.
Proof.
  intros HInv HProv Hera Hstep. destruct o as [cid q rxt now victim|cid rxt txt]; cbn [step_log op_in_era] in *.
  - destruct Hera as [E1 [E2 E3]].
    destruct (handle c s cid q rxt now victim) as [out|] eqn:Hh; [|discriminate].
    inversion Hstep; subst s' ev; clear Hstep.
    split; [exact (handle_inv k c Hicap s cid q rxt now victim out HInv E1 E2 E3 Hh)|].
    assert (E1' : in_era k (rxt + 1)) by (apply (in_era_convex k rxt (rxt + icap c + 1)); auto; lia).
    destruct HInv as [Hnd [Hcap [Hall Hhq]]].
    destruct (find_item cid (items s)) as [it|] eqn:Hfind.
    + destruct (find_item_In _ _ _ Hfind) as [Hin Hkey].
      assert (Hok : item_ok c it) by (rewrite Forall_forall in Hall; apply Hall; exact Hin).
      destruct (handle_existing_spec k c Hicap s cid q rxt now victim it Hfind Hok E1 E2 E3)
        as [out' [it' [hq' [Hh' [Hst [_ [_ [_ [_ [_ [_ [_ [_ [Hk' [_ [_ [Hrep [_ Hsub]]]]]]]]]]]]]]]]]].
      assert (out' = out) by congruence. subst out'. rewrite Hst. intros x e Hx He. cbn [items] in Hx.
      destruct (In_replace_item _ _ _ Hnd Hx) as [->|[Hx' _]].
      * destruct (Hsub e He) as [->|He'].
        -- exists q, (o_reply out). rewrite Hk'. split; [left; reflexivity|]. cbn [e_rx e_tx].
           destruct Hrep as [R1 [R2 _]]. split; [exact R1|left; exact R2].
        -- rewrite Hk', <- Hkey. exact (Prov_weaken log s _ HProv it e Hin He').
      * exact (Prov_weaken log s _ HProv x e Hx' He).
    + destruct (handle_new_spec k c s cid q rxt now victim out Hfind E1 E1' E3 Hh) as [_ [_ [_ [_ [Hrep Hcases]]]]].
      destruct Hrep as [R1 [R2 _]].
      assert (Hnew : forall x e, x = new_item cid (to64 rxt) (to64 (o_txt out)) -> In e (it_ents x) ->
                exists q0 r, In (EvReply (it_key x) q0 r) (EvReply cid q (o_reply out) :: log) /\ r_rx r = e_rx e /\
                  (r_ref r = e_tx e \/ In (EvTx (it_key x) (e_rx e) (e_tx e)) (EvReply cid q (o_reply out) :: log))).
      { intros x e -> He. cbn [new_item it_ents In] in He. destruct He as [<-|[]]. cbn [new_item it_key e_rx e_tx].
        exists q, (o_reply out). split; [left; reflexivity|]. split; [exact R1|left; exact R2]. }
      destruct Hcases as [[_ [_ [-> _]]]|[[_ [_ [_ ->]]]|[_ [_ [_ [_ ->]]]]]].
      * apply Prov_weaken; exact HProv.
      * intros x e Hx He. cbn [items] in Hx. destruct Hx as [<-|Hx]; [apply (Hnew _ e eq_refl He)|exact (Prov_weaken log s _ HProv x e Hx He)].
      * intros x e Hx He. cbn [items] in Hx. destruct Hx as [<-|Hx]; [apply (Hnew _ e eq_refl He)|].
        exact (Prov_weaken log s _ HProv x e (In_remove_item _ _ _ Hx) He).
  - destruct Hera as [E1 [E2 E3]]. inversion Hstep; subst s' ev; clear Hstep.
    destruct (update_tx_spec k c s cid rxt txt HInv E1 E2 E3) as [HI _].
    split; [exact HI|].
    destruct HInv as [Hnd [Hcap [Hall Hhq]]].
    intros x e Hx He.
    destruct (update_tx_frame s cid rxt txt Hnd x Hx) as [Hold|[Hxk [it [Hfind Hents]]]].
    + exact (Prov_weaken log s _ HProv x e Hold He).
    + destruct (find_item_In _ _ _ Hfind) as [Hin Hkey].
      destruct (Hents e He) as [He'|[-> [e0 [He0 He0rx]]]].
      * rewrite Hxk, <- Hkey. exact (Prov_weaken log s _ HProv it e Hin He').
      * destruct (HProv it e0 Hin He0) as [q [r [H1 [H2 _]]]].
        exists q, r. rewrite Hxk, <- Hkey. cbn [e_rx e_tx].
        split; [right; exact H1|]. split; [congruence|]. right. left. rewrite Hkey. reflexivity.
Qed.

(* every reachable state *)
Lemma run_log_inv ops : forall s log s' log',
  Inv c s -> Prov log s -> Forall op_in_era ops -> run_log c s log ops = Some (s', log') ->
  Inv c s' /\ Prov log' s'.
Proof.
  induction ops as [|o r IH]; intros s log s' log' HI HP Hera Hrun; cbn [run_log] in Hrun.
  - inversion Hrun; subst. auto.
  - inversion Hera as [|? ? Ho Hr]; subst.
    destruct (step_log c s o) as [[s1 ev]|] eqn:Hs; [|discriminate].
    destruct (step_log_inv s o s1 ev log HI HP Ho Hs) as [HI1 HP1].
    exact (IH s1 (ev :: log) s' log' HI1 HP1 Hr Hrun).
Qed.

Lemma Inv_empty : 0 <= cap c -> Inv c tss_empty.
Proof.
  intros Hc. unfold Inv, tss_empty. cbn. split; [constructor|]. split; [exact Hc|]. split; [constructor|reflexivity].
Qed.

Lemma Prov_empty : Prov [] tss_empty.
Proof. intros it e []. Qed.

(* states (with their reply/update log) reachable from the empty store *)
Definition reachable (s : tss) (log : list event) : Prop :=
  exists ops, Forall op_in_era ops /\ run_log c tss_empty [] ops = Some (s, log).

Theorem reachable_inv s log : 0 <= cap c -> reachable s log -> Inv c s /\ Prov log s.
Proof.
  intros Hc [ops [Hera Hrun]]. exact (run_log_inv ops tss_empty [] s log (Inv_empty Hc) Prov_empty Hera Hrun).
Qed.

(* what a reply looks like, for any state satisfying the invariant *)
Theorem reply_theorem s log cid q rxt now victim out :
  Inv c s -> Prov log s -> in_era k rxt -> in_era k (rxt + icap c + 1) -> in_era k now ->
  handle c s cid q rxt now victim = Some out ->
  let r := o_reply out in
  r_rx r = to64 (o_rxt out) /\ rxt <= o_rxt out /\
  (forall it, find_item cid (items s) = Some it -> forall e, In e (it_ents it) -> e_rx e <> r_rx r) /\
  to64 (o_rxt out) < to64 (o_txt out) /\ (rxt < now -> now <= o_txt out) /\
  ((r_inter r = false /\ r_org r = q_tx q /\ r_tx r = to64 (o_txt out) /\ r_rx r < r_tx r) \/
   (r_inter r = true /\ r_org r = q_rx q /\ q_rx q <> q_tx q /\
    exists q0 r0, In (EvReply cid q0 r0) log /\ r_rx r0 = q_org q /\ r_rx r0 < r_tx r /\
      (r_tx r = r_ref r0 \/ In (EvTx cid (q_org q) (r_tx r)) log))) /\
  (r_inter r = true <->
     q_rx q <> q_tx q /\ exists it e, find_item cid (items s) = Some it /\ In e (it_ents it) /\ e_rx e = q_org q).
Proof.
  intros HInv HProv E1 E2 E3 Hh. cbv zeta.
  assert (E1' : in_era k (rxt + 1)) by (apply (in_era_convex k rxt (rxt + icap c + 1)); auto; lia).
  destruct HInv as [Hnd [Hcap [Hall Hhq]]].
  destruct (find_item cid (items s)) as [it|] eqn:Hfind.
  - destruct (find_item_In _ _ _ Hfind) as [Hin Hkey].
    assert (Hok : item_ok c it) by (rewrite Forall_forall in Hall; apply Hall; exact Hin).
    destruct (handle_existing_spec k c Hicap s cid q rxt now victim it Hfind Hok E1 E2 E3)
      as [out' [it' [hq' [Hh' [_ [_ [_ [Hle [Hlt [Er [Et [Hfresh [Hnow [_ [_ [_ [Hrep _]]]]]]]]]]]]]]]]].
    assert (out' = out) by congruence. subst out'.
    assert (Hmono : to64 (o_rxt out) < to64 (o_txt out)) by (apply (to64_strict_mono k); assumption).
    destruct Hrep as [R1 [R2 Rshape]].
    split; [exact R1|]. split; [exact Hle|].
    split. { intros it0 Hit0 e He. inversion Hit0; subst it0. rewrite R1. rewrite has_rx_false in Hfresh. apply Hfresh. exact He. }
    split; [exact Hmono|]. split; [exact Hnow|].
    destruct Rshape as [[Ri [Ro [Hne [e [He [Herx Hetx]]]]]]|[Ri [Ro [Rt Hwhy]]]].
    + split.
      * right. split; [exact Ri|]. split; [exact Ro|]. split; [exact Hne|].
        destruct (HProv it e Hin He) as [q0 [r0 [P1 [P2 P3]]]].
        destruct Hok as [_ [_ [_ [_ Hrt]]]].
        exists q0, r0. rewrite Hkey in P1, P3. split; [exact P1|]. split; [congruence|].
        split; [rewrite P2, Hetx; apply Hrt; exact He|].
        rewrite Hetx. destruct P3 as [P3|P3]; [left; congruence|right; rewrite <- Herx; exact P3].
      * split; [intros _; split; [exact Hne|exists it, e; auto]|intros _; exact Ri].
    + split.
      * left. split; [exact Ri|]. split; [exact Ro|]. split; [exact Rt|]. rewrite R1, Rt. exact Hmono.
      * split; [intros H; congruence|].
        intros [Hne [it0 [e [Hit0 [He Herx]]]]]. inversion Hit0; subst it0.
        destruct Hwhy as [Heq|Hno]; [congruence|]. exfalso. exact (Hno e He Herx).
  - destruct (handle_new_spec k c s cid q rxt now victim out Hfind E1 E1' E3 Hh) as [Hr [Hlt [Et [Hnow [Hrep _]]]]].
    assert (Hmono : to64 (o_rxt out) < to64 (o_txt out)) by (rewrite Hr; apply (to64_strict_mono k); assumption).
    destruct Hrep as [R1 [R2 Rshape]]. rewrite Hr.
    split; [exact R1|]. split; [lia|]. split; [intros it0 H0; discriminate|].
    split; [rewrite <- Hr; exact Hmono|]. split; [intros H; rewrite (Hnow H); lia|].
    destruct Rshape as [[Ri [_ [_ [e [[] _]]]]]|[Ri [Ro [Rt _]]]].
    split.
    + left. split; [exact Ri|]. split; [exact Ro|]. split; [exact Rt|]. rewrite R1, Rt. rewrite <- Hr. exact Hmono.
    + split; [intros H; congruence|]. intros [_ [it0 [e [H0 _]]]]. discriminate.
Qed.

(* handleRequest always produces a reply, except that the abstract queue must be
   told a real minimum when it pops *)
Theorem handle_defined s cid q rxt now victim :
  Inv c s -> in_era k rxt -> in_era k (rxt + icap c + 1) -> in_era k now ->
  handle c s cid q rxt now victim = None ->
  find_item cid (items s) = None /\ Z.of_nat (length (items s)) = cap c /\
  exists m, hq_min_val (hq s) = Some m /\ m <= to64 rxt /\ hq_find victim (hq s) <> Some m.
Proof.
  intros [Hnd [Hcap [Hall Hhq]]] E1 E2 E3 Hh.
  destruct (find_item cid (items s)) as [it|] eqn:Hfind.
  - destruct (find_item_In _ _ _ Hfind) as [Hin Hkey].
    assert (Hok : item_ok c it) by (rewrite Forall_forall in Hall; apply Hall; exact Hin).
    destruct (handle_existing_spec k c Hicap s cid q rxt now victim it Hfind Hok E1 E2 E3) as [out' [it' [hq' [Hh' _]]]].
    congruence.
  - split; [reflexivity|]. unfold handle in Hh. rewrite Hfind in Hh. unfold admission_decision in Hh.
    destruct (Z.of_nat (length (items s)) =? cap c) eqn:Ec; [|discriminate]. apply Z.eqb_eq in Ec. split; [exact Ec|].
    destruct (hq_min_val (hq s)) as [m|] eqn:Em; [|discriminate].
    destruct (negb (to64 rxt <? m)) eqn:En; [|discriminate]. apply negb_true_iff in En.
    exists m. split; [reflexivity|]. split; [lia|].
    destruct (hq_find victim (hq s)) as [vq|] eqn:Ev; [|discriminate].
    destruct (vq =? m) eqn:Evm; [discriminate|]. apply Z.eqb_neq in Evm. congruence.
Qed.
End Era.
