(* Rounding-error analysis of the raw offset of the Ntimed filter (C17):
   raw_f s = Inv(Duration((lo.Seconds() + hi.Seconds()) / 2)) in binary64 is
   within 2 ns + 2^-50 relative of ntp.ClockOffset and has its sign, for all
   samples whose one-way differences are below 2^62 ns in magnitude.  From the
   Flocq semantics of the binary64 operations (round to nearest even with
   gradual underflow: |rnd x - x| <= 2^-53 |x| + 2^-1075). *)
From ST Require Import Base.Ints Base.Value Base.F64 Model.NtpTime Model.Ftm Model.Lucky Model.Ntimed Proofs.NtpTimeProofs Proofs.NtimedProofs.
From Coq Require Import ZArith Reals Lia Lra List Bool.
From Flocq Require Import Core FIX Ulp Round_NE Relative BinarySingleNaN.
Import ListNotations.
Open Scope R_scope.

Notation emin := (SpecFloat.emin prec emax).
Notation fexp := (SpecFloat.fexp prec emax).
Notation rnd := (round radix2 fexp ZnearestE).
Notation R := (@B2R prec emax).
Notation fin := (@is_finite prec emax).
Notation fmt := (generic_format radix2 fexp).

(* ---- generic facts about binary64 rounding ---- *)

Lemma fexp_valid : Valid_exp fexp.
Proof. change fexp with (FLT_exp emin prec). apply FLT_exp_valid. reflexivity. Qed.
#[local] Existing Instance fexp_valid.

Lemma rnd_id x : fmt x -> rnd x = x.
Proof. apply round_generic; auto with typeclass_instances. Qed.

Lemma fmt_int_shift m e : (Z.abs m < 2^53)%Z -> (0 <= e)%Z -> fmt (IZR (m * 2^e)).
Proof.
  intros Hm He. change fexp with (FLT_exp emin prec). apply generic_format_FLT. apply (FLT_spec _ _ _ _ (Float radix2 m e)).
  - unfold F2R. cbn [Fnum Fexp]. rewrite mult_IZR. f_equal.
    rewrite (IZR_Zpower radix2) by exact He. reflexivity.
  - cbn [Fnum]. exact Hm.
  - cbn [Fexp]. unfold SpecFloat.emin, emax, prec. lia.
Qed.

Lemma fmt_int m : (Z.abs m < 2^53)%Z -> fmt (IZR m).
Proof. intros Hm. replace m with (m * 2^0)%Z by lia. apply fmt_int_shift; lia. Qed.

Lemma fmt_bpow e : (-1000 <= e <= 1000)%Z -> fmt (bpow radix2 e).
Proof.
  intros H. apply generic_format_bpow. unfold SpecFloat.fexp, FLT_exp, SpecFloat.emin, emax, prec. lia.
Qed.

Lemma rnd_abs_le x y : fmt y -> Rabs x <= y -> Rabs (rnd x) <= y.
Proof. intros Fy H. apply abs_round_le_generic; auto with typeclass_instances. Qed.

Lemma no_overflow x e : (e < 1024)%Z -> Rabs x <= bpow radix2 e ->
  Rlt_bool (Rabs x) (bpow radix2 emax) = true.
Proof.
  intros He H. apply Rlt_bool_true. eapply Rle_lt_trans; [exact H|]. apply bpow_lt. exact He.
Qed.

(* the unit roundoff and a (very generous) bound of the underflow term *)
Definition u := (/ 9007199254740992)%R.          (* 2^-53 *)
Definition eta := (/ 1000000000000000000000000000000)%R.   (* 10^-30 >= 2^-1075 *)

Lemma u_bpow : / 2 * bpow radix2 (- prec + 1) = u.
Proof.
  unfold u. change (bpow radix2 (- prec + 1)) with (/ IZR 4503599627370496). lra.
Qed.

Lemma eta_bpow : / 2 * bpow radix2 emin <= eta.
Proof.
  apply Rle_trans with (bpow radix2 (-100)).
  - assert (H : bpow radix2 emin <= bpow radix2 (-100)) by (apply bpow_le; unfold SpecFloat.emin, emax, prec; lia).
    pose proof (bpow_ge_0 radix2 emin). lra.
  - unfold eta. change (bpow radix2 (-100)) with (/ IZR 1267650600228229401496703205376).
    apply Rinv_le_contravar; lra.
Qed.

(* every binary64 rounding: relative error 2^-53 plus the underflow term *)
Lemma rnd_err x : Rabs (rnd x - x) <= u * Rabs x + eta.
Proof.
  destruct (error_N_FLT radix2 emin prec Hprec (fun n => negb (Z.even n)) x) as [eps [et [He [Ht [_ E]]]]].
  change (round radix2 (FLT_exp emin prec) (Znearest (fun n => negb (Z.even n))) x) with (rnd x) in E.
  rewrite E, u_bpow in *. pose proof eta_bpow as Hb.
  replace (x * (1 + eps) + et - x) with (x * eps + et) by ring.
  eapply Rle_trans; [apply Rabs_triang|]. rewrite Rabs_mult.
  assert (Rabs x * Rabs eps <= Rabs x * u) by (apply Rmult_le_compat_l; [apply Rabs_pos|exact He]).
  lra.
Qed.

(* one rounding after an approximation: x approximates y within d *)
Lemma rnd_step x y d : Rabs (x - y) <= d -> Rabs (rnd x - y) <= d + u * (Rabs y + d) + eta.
Proof.
  intros D. pose proof (rnd_err x) as E. unfold u, eta in *. revert D E. split_Rabs; lra.
Qed.

(* ---- the operations on finite values ---- *)

Lemma fmul_spec x y e : fin x = true -> fin y = true -> (-1000 <= e <= 1000)%Z ->
  Rabs (R x * R y) <= bpow radix2 e ->
  fin (fmul x y) = true /\ R (fmul x y) = rnd (R x * R y).
Proof.
  intros Fx Fy He Hb. unfold fmul.
  pose proof (Bmult_correct prec emax Hprec Hmax mode_NE x y) as C. cbn [round_mode] in C.
  assert (Hr : Rabs (rnd (R x * R y)) <= bpow radix2 e) by (apply rnd_abs_le; [apply fmt_bpow; exact He|exact Hb]).
  rewrite (no_overflow _ e) in C by (try lia; exact Hr).
  destruct C as [C1 [C2 _]]. rewrite C2, Fx, Fy. split; [reflexivity|exact C1].
Qed.

Lemma fadd_spec x y e : fin x = true -> fin y = true -> (-1000 <= e <= 1000)%Z ->
  Rabs (R x + R y) <= bpow radix2 e ->
  fin (fadd x y) = true /\ R (fadd x y) = rnd (R x + R y).
Proof.
  intros Fx Fy He Hb. unfold fadd.
  pose proof (Bplus_correct prec emax Hprec Hmax mode_NE x y Fx Fy) as C. cbn [round_mode] in C.
  assert (Hr : Rabs (rnd (R x + R y)) <= bpow radix2 e) by (apply rnd_abs_le; [apply fmt_bpow; exact He|exact Hb]).
  rewrite (no_overflow _ e) in C by (try lia; exact Hr).
  destruct C as [C1 [C2 _]]. split; assumption.
Qed.

Lemma fdiv_spec x y e : fin x = true -> R y <> 0 -> (-1000 <= e <= 1000)%Z ->
  Rabs (R x / R y) <= bpow radix2 e ->
  fin (fdiv x y) = true /\ R (fdiv x y) = rnd (R x / R y).
Proof.
  intros Fx Hy He Hb. unfold fdiv.
  pose proof (Bdiv_correct prec emax Hprec Hmax mode_NE x y Hy) as C. cbn [round_mode] in C.
  assert (Hr : Rabs (rnd (R x / R y)) <= bpow radix2 e) by (apply rnd_abs_le; [apply fmt_bpow; exact He|exact Hb]).
  rewrite (no_overflow _ e) in C by (try lia; exact Hr).
  destruct C as [C1 [C2 _]]. rewrite C2, Fx. split; [reflexivity|exact C1].
Qed.

(* float64(int64) is exact below 2^53 *)
Lemma f_of_int_spec z : (Z.abs z < 2^53)%Z -> fin (f_of_int z) = true /\ R (f_of_int z) = IZR z.
Proof.
  intros Hz. unfold f_of_int.
  pose proof (binary_normalize_correct prec emax Hprec Hmax mode_NE z 0 false) as C.
  cbn [round_mode] in C. cbv zeta in C.
  assert (E : F2R (Float radix2 z 0) = IZR z) by (unfold F2R; cbn [Fnum Fexp bpow]; lra).
  rewrite E in C. rewrite (rnd_id (IZR z)) in C by (apply fmt_int; exact Hz).
  rewrite Rlt_bool_true in C.
  - destruct C as [C1 [C2 _]]. split; assumption.
  - apply Rlt_trans with (bpow radix2 53).
    + rewrite <- abs_IZR. change (bpow radix2 53) with (IZR (2^53)). apply IZR_lt. exact Hz.
    + apply bpow_lt. reflexivity.
Qed.

(* int64(float64) *)
Lemma f_to_i64_spec x : fin x = true ->
  (min_i64 <= Ztrunc (R x) <= max_i64)%Z -> f_to_i64 x = Ztrunc (R x).
Proof.
  intros Fx Hr. unfold f_to_i64, fis_finite. rewrite Fx.
  assert (E : Btrunc x = Ztrunc (R x)).
  { apply eq_IZR. rewrite (Btrunc_correct prec emax Hmax). apply round_FIX_IZR. }
  rewrite E. unfold in_i64b.
  destruct (Z.leb_spec min_i64 (Ztrunc (R x))); [|lia].
  destruct (Z.leb_spec (Ztrunc (R x)) max_i64); [reflexivity|lia].
Qed.

(* truncation moves a real by less than one, towards zero *)
Lemma Ztrunc_err x : Rabs (IZR (Ztrunc x) - x) < 1 /\ Rabs (IZR (Ztrunc x)) <= Rabs x.
Proof.
  destruct (Rle_or_lt 0 x) as [P|N].
  - rewrite Ztrunc_floor by exact P. pose proof (Zfloor_lb x). pose proof (Zfloor_ub x).
    assert (0 <= IZR (Zfloor x)) by (apply IZR_le, Zfloor_lub; exact P).
    split; [apply Rabs_def1; lra|]. rewrite !Rabs_pos_eq by lra. lra.
  - rewrite Ztrunc_ceil by lra. pose proof (Zceil_ub x). pose proof (Zceil_lb x).
    assert (IZR (Zceil x) <= 0) by (apply IZR_le, Zceil_glb; lra).
    split; [apply Rabs_def1; lra|]. rewrite !Rabs_left1 by lra. lra.
Qed.

(* ---- time.Duration.Seconds: d / 1e9 up to 2^-53 relative and 2^-52 absolute ---- *)

Lemma quot_rem_e9 d : (Z.abs d <= 2^63)%Z ->
  (Z.abs (Z.quot d 1000000000) <= 9223372036 /\ Z.abs (Z.rem d 1000000000) < 1000000000 /\
   d = 1000000000 * Z.quot d 1000000000 + Z.rem d 1000000000)%Z.
Proof.
  intros H. change (2^63)%Z with 9223372036854775808%Z in H.
  pose proof (Z.quot_rem' d 1000000000) as E. pose proof (Z.rem_bound_abs d 1000000000) as Hr.
  split; [|split; [lia|exact E]].
  destruct (Z_le_gt_dec 0 d).
  - pose proof (Z.quot_pos d 1000000000). pose proof (Z.rem_nonneg d 1000000000). lia.
  - pose proof (Z.quot_opp_l d 1000000000). pose proof (Z.rem_opp_l d 1000000000).
    pose proof (Z.quot_pos (-d) 1000000000). pose proof (Z.rem_nonneg (-d) 1000000000).
    pose proof (Z.quot_rem' (-d) 1000000000). lia.
Qed.

Lemma dur_seconds_close d : (Z.abs d <= 2^63)%Z ->
  fin (dur_seconds d) = true /\
  Rabs (R (dur_seconds d) - IZR d / 1000000000) <= u * Rabs (IZR d / 1000000000) + 2 * u.
Proof.
  intros Hd. destruct (quot_rem_e9 d Hd) as [Hq [Hr E]].
  set (q := Z.quot d 1000000000) in *. set (r := Z.rem d 1000000000) in *.
  destruct (f_of_int_spec q) as [Fq Rq]; [change (2^53)%Z with 9007199254740992%Z; lia|].
  destruct (f_of_int_spec r) as [Fr Rr]; [change (2^53)%Z with 9007199254740992%Z; lia|].
  destruct (f_of_int_spec 1000000000) as [F9 R9]; [change (2^53)%Z with 9007199254740992%Z; lia|].
  assert (Bq : Rabs (IZR q) <= 9223372036) by (rewrite <- abs_IZR; apply IZR_le; exact Hq).
  assert (Br : Rabs (IZR r) <= 1000000000) by (rewrite <- abs_IZR; apply IZR_le; lia).
  assert (Ed : IZR d = 1000000000 * IZR q + IZR r) by (rewrite E, plus_IZR, mult_IZR; reflexivity).
  set (rho := IZR r / 1000000000).
  assert (Brho : Rabs rho <= 1).
  { unfold rho. apply Rabs_le. apply Rabs_le_inv in Br. split; lra. }
  destruct (fdiv_spec (f_of_int r) (f_of_int 1000000000) 0) as [Fa Ra].
  { exact Fr. } { rewrite R9. lra. } { lia. }
  { rewrite Rr, R9. exact Brho. }
  rewrite Rr, R9 in Ra. fold rho in Ra.
  pose proof (rnd_err rho) as Ea. set (a := rnd rho) in *.
  assert (Ba : Rabs a <= 2).
  { unfold u, eta in Ea. revert Ea Brho. split_Rabs; lra. }
  destruct (fadd_spec (f_of_int q) (fdiv (f_of_int r) (f_of_int 1000000000)) 34) as [Fs Rs].
  { exact Fq. } { exact Fa. } { lia. }
  { rewrite Rq, Ra. change (bpow radix2 34) with 17179869184. revert Bq Ba. split_Rabs; lra. }
  rewrite Rq, Ra in Rs. unfold dur_seconds. fold q r. split; [exact Fs|]. rewrite Rs.
  replace (IZR d / 1000000000) with (IZR q + rho) by (unfold rho; rewrite Ed; field).
  assert (D0 : Rabs (IZR q + a - (IZR q + rho)) <= u + eta).
  { replace (IZR q + a - (IZR q + rho)) with (a - rho) by ring. unfold u, eta in *. lra. }
  pose proof (rnd_step _ _ _ D0) as D1. pose proof (Rabs_pos (IZR q + rho)). unfold u, eta in *. lra.
Qed.

(* ---- (lo.Seconds() + hi.Seconds()) / 2 * 1e9 against the exact (lo + hi) / 2 ---- *)

Definition mid_ns_f (lo hi : Z) : f64 :=
  fmul (fdiv (fadd (dur_seconds lo) (dur_seconds hi)) c2) (f_of_int 1000000000).

Lemma mid_ns_close lo hi : (Z.abs lo <= 2^63)%Z -> (Z.abs hi <= 2^63)%Z ->
  fin (mid_ns_f lo hi) = true /\
  Rabs (R (mid_ns_f lo hi) - IZR (lo + hi) / 2) <= 3 * u * IZR (Z.abs lo + Z.abs hi) + / 1000000.
Proof.
  intros Hlo Hhi.
  destruct (dur_seconds_close lo Hlo) as [Fl El]. destruct (dur_seconds_close hi Hhi) as [Fh Eh].
  change (2^63)%Z with 9223372036854775808%Z in Hlo, Hhi.
  assert (Bl : Rabs (IZR lo) <= 9223372036854775808) by (rewrite <- abs_IZR; apply IZR_le; lia).
  assert (Bh : Rabs (IZR hi) <= 9223372036854775808) by (rewrite <- abs_IZR; apply IZR_le; lia).
  rewrite !plus_IZR, !abs_IZR.
  set (L := IZR lo / 1000000000) in *. set (H := IZR hi / 1000000000) in *.
  assert (EL : IZR lo = L * 1000000000) by (unfold L; field).
  assert (EH : IZR hi = H * 1000000000) by (unfold H; field).
  clearbody L H. rewrite EL, EH in *. clear EL EH.
  set (lf := R (dur_seconds lo)) in *. set (hf := R (dur_seconds hi)) in *.
  destruct (f_of_int_spec 2) as [F2 R2]; [change (2^53)%Z with 9007199254740992%Z; lia|].
  destruct (f_of_int_spec 1000000000) as [F9 R9]; [change (2^53)%Z with 9007199254740992%Z; lia|].
  (* magnitudes *)
  assert (BL : Rabs L <= 9223372037) by (revert Bl; clear; split_Rabs; lra).
  assert (BH : Rabs H <= 9223372037) by (revert Bh; clear; split_Rabs; lra).
  assert (Blf : Rabs lf <= 9223372039) by (unfold u in El; revert El BL; clear; split_Rabs; lra).
  assert (Bhf : Rabs hf <= 9223372039) by (unfold u in Eh; revert Eh BH; clear; split_Rabs; lra).
  (* the sum *)
  destruct (fadd_spec (dur_seconds lo) (dur_seconds hi) 35) as [Fs Rs].
  { exact Fl. } { exact Fh. } { lia. }
  { fold lf hf. change (bpow radix2 35) with 34359738368. revert Blf Bhf. clear. split_Rabs; lra. }
  fold lf hf in Rs. pose proof (rnd_err (lf + hf)) as Es. rewrite <- Rs in Es.
  set (sf := R (fadd (dur_seconds lo) (dur_seconds hi))) in *.
  assert (Bsf : Rabs sf <= 18446744090) by (unfold u, eta in Es; revert Es Blf Bhf; clear; split_Rabs; lra).
  (* the half *)
  destruct (fdiv_spec (fadd (dur_seconds lo) (dur_seconds hi)) c2 34) as [Fm Rm].
  { exact Fs. } { unfold c2. rewrite R2. lra. } { lia. }
  { unfold c2. rewrite R2. fold sf. change (bpow radix2 34) with 17179869184. revert Bsf. clear. split_Rabs; lra. }
  unfold c2 in Rm. rewrite R2 in Rm. fold c2 in Rm. fold sf in Rm.
  pose proof (rnd_err (sf / 2)) as Em. rewrite <- Rm in Em.
  set (mf := R (fdiv (fadd (dur_seconds lo) (dur_seconds hi)) c2)) in *.
  assert (Bmf : Rabs mf <= 9223372050) by (unfold u, eta in Em; revert Em Bsf; clear; split_Rabs; lra).
  (* back to nanoseconds *)
  destruct (fmul_spec (fdiv (fadd (dur_seconds lo) (dur_seconds hi)) c2) (f_of_int 1000000000) 64) as [Fp Rp].
  { exact Fm. } { exact F9. } { lia. }
  { fold mf. rewrite R9. change (bpow radix2 64) with 18446744073709551616. revert Bmf. clear. split_Rabs; lra. }
  fold mf in Rp. rewrite R9 in Rp. pose proof (rnd_err (mf * 1000000000)) as Ep. rewrite <- Rp in Ep.
  unfold mid_ns_f. split; [exact Fp|].
  set (pf := R (fmul (fdiv (fadd (dur_seconds lo) (dur_seconds hi)) c2) (f_of_int 1000000000))) in *.
  (* the rounding steps as linear constraints over |L| and |H| *)
  pose proof (Rabs_pos L) as PL. pose proof (Rabs_pos H) as PH. pose proof (Rabs_triang L H) as TLH.
  set (aL := Rabs L) in *. set (aH := Rabs H) in *.
  assert (Ds : Rabs (sf - (L + H)) <= 21 / 10 * u * (aL + aH) + 5 * u).
  { rewrite Rs.
    assert (D0 : Rabs (lf + hf - (L + H)) <= u * (aL + aH) + 4 * u).
    { replace (lf + hf - (L + H)) with ((lf - L) + (hf - H)) by ring. eapply Rle_trans; [apply Rabs_triang|]. lra. }
    pose proof (rnd_step _ _ _ D0) as D1. unfold u, eta in *. lra. }
  assert (Dm : Rabs (mf - (L + H) / 2) <= 16 / 10 * u * (aL + aH) + 3 * u).
  { rewrite Rm.
    assert (D0 : Rabs (sf / 2 - (L + H) / 2) <= (21 / 10 * u * (aL + aH) + 5 * u) / 2).
    { replace (sf / 2 - (L + H) / 2) with ((sf - (L + H)) * / 2) by field.
      rewrite Rabs_mult, (Rabs_pos_eq (/ 2)) by lra. lra. }
    pose proof (rnd_step _ _ _ D0) as D1.
    assert (T : Rabs ((L + H) / 2) <= (aL + aH) / 2).
    { unfold Rdiv. rewrite Rabs_mult, (Rabs_pos_eq (/ 2)) by lra. lra. }
    unfold u, eta in *. lra. }
  rewrite Rp.
  assert (D0 : Rabs (mf * 1000000000 - (L * 1000000000 + H * 1000000000) / 2)
               <= (16 / 10 * u * (aL + aH) + 3 * u) * 1000000000).
  { replace (mf * 1000000000 - (L * 1000000000 + H * 1000000000) / 2) with ((mf - (L + H) / 2) * 1000000000) by field.
    rewrite Rabs_mult, (Rabs_pos_eq 1000000000) by lra. lra. }
  pose proof (rnd_step _ _ _ D0) as D1.
  assert (T : Rabs ((L * 1000000000 + H * 1000000000) / 2) <= (aL + aH) * 1000000000 / 2).
  { replace ((L * 1000000000 + H * 1000000000) / 2) with ((L + H) * (1000000000 / 2)) by field.
    rewrite Rabs_mult, (Rabs_pos_eq (1000000000 / 2)) by lra. lra. }
  rewrite !Rabs_mult, (Rabs_pos_eq 1000000000) by lra. fold aL aH.
  unfold u, eta in *. lra.
Qed.

(* ---- the integer side ---- *)

Lemma sat64_small x : (Z.abs (sat64 x) < 2^62)%Z -> sat64 x = x.
Proof.
  change (2^62)%Z with 4611686018427387904%Z. unfold sat64, min_i64, max_i64.
  destruct (Z.ltb_spec x (-9223372036854775808)); [lia|].
  destruct (Z.ltb_spec 9223372036854775807 x); lia.
Qed.

(* Time.Sub saturates: the one-way differences are always int64 values *)
Lemma sat64_range x : (min_i64 <= sat64 x <= max_i64)%Z.
Proof.
  unfold sat64, min_i64, max_i64.
  destruct (Z.ltb_spec x (-9223372036854775808)); [lia|].
  destruct (Z.ltb_spec 9223372036854775807 x); lia.
Qed.

Lemma lo_hi_range s : (min_i64 <= lo_ns s <= max_i64 /\ min_i64 <= hi_ns s <= max_i64)%Z.
Proof. unfold lo_ns, hi_ns, time_sub. split; apply sat64_range. Qed.

(* below 2^62 ntp.ClockOffset neither saturates nor wraps: it is the offset over the integers *)
Lemma raw_offset_exact s : (Z.abs (lo_ns s) < 2^62)%Z -> (Z.abs (hi_ns s) < 2^62)%Z ->
  raw_offset s = wide_offset s.
Proof.
  intros Hl Hh. unfold wide_offset, raw_offset, clock_offset, lo_ns, hi_ns, time_sub in *.
  pose proof (sat64_small _ Hl) as El. pose proof (sat64_small _ Hh) as Eh. rewrite El, Eh in *.
  change (2^62)%Z with 4611686018427387904%Z in *.
  assert (E1 : sat64 (sm_srx s - sm_ctx s) = (- (sm_ctx s - sm_srx s))%Z).
  { unfold sat64, min_i64, max_i64.
    destruct (Z.ltb_spec (sm_srx s - sm_ctx s) (-9223372036854775808)); [lia|].
    destruct (Z.ltb_spec 9223372036854775807 (sm_srx s - sm_ctx s)); lia. }
  assert (E2 : sat64 (sm_stx s - sm_crx s) = (- (sm_crx s - sm_stx s))%Z).
  { unfold sat64, min_i64, max_i64.
    destruct (Z.ltb_spec (sm_stx s - sm_crx s) (-9223372036854775808)); [lia|].
    destruct (Z.ltb_spec 9223372036854775807 (sm_stx s - sm_crx s)); lia. }
  rewrite E1, E2. set (a := (sm_ctx s - sm_srx s)%Z) in *. set (b := (sm_crx s - sm_stx s)%Z) in *.
  replace (- a + - b)%Z with (- (a + b))%Z by ring.
  rewrite i64_id by (unfold min_i64, max_i64; lia).
  unfold go_div. apply i64_id. unfold min_i64, max_i64.
  pose proof (Z.quot_rem' (- (a + b)) 2). pose proof (Z.rem_bound_abs (- (a + b)) 2). lia.
Qed.

Lemma quot2_half n : Rabs (IZR (Z.quot n 2) - IZR n / 2) <= / 2.
Proof.
  pose proof (Z.quot_rem' n 2) as E. pose proof (Z.rem_bound_abs n 2) as Hr.
  assert (Er : IZR n = 2 * IZR (Z.quot n 2) + IZR (Z.rem n 2)) by (rewrite E at 1; rewrite plus_IZR, mult_IZR; reflexivity).
  assert (Br : Rabs (IZR (Z.rem n 2)) <= 1) by (rewrite <- abs_IZR; apply IZR_le; lia).
  rewrite Er. revert Br. clear. split_Rabs; lra.
Qed.

(* int64(float64) on every finite value: truncation, or -2^63 out of range *)
Lemma f_to_i64_cases x : fin x = true ->
  f_to_i64 x = if in_i64b (Ztrunc (R x)) then Ztrunc (R x) else min_i64.
Proof.
  intros Fx. unfold f_to_i64, fis_finite. rewrite Fx.
  assert (E : Btrunc x = Ztrunc (R x)).
  { apply eq_IZR. rewrite (Btrunc_correct prec emax Hmax). apply round_FIX_IZR. }
  rewrite E. reflexivity.
Qed.

(* ---- the closeness clause ---- *)

Lemma raw_f_unfold s : raw_f s = inv (f_to_i64 (mid_ns_f (lo_ns s) (hi_ns s))).
Proof. reflexivity. Qed.

(* On EVERY sample (the one-way differences are int64 values, saturated by Time.Sub): the output is
   within 3/2 + 10^-6 + 3 * 2^-53 * (|lo| + |hi|) ns of the offset over the integers, -(lo + hi) / 2
   truncated towards zero: one for the truncation, a half for the exact offset's own truncation, 10^-6
   for the conversions to seconds, 3 * 2^-53 relative for the four roundings.  This includes the
   saturation of Inv at an offset of +2^63.  The one exception: when lo + hi >= 2^64 - 2^14 the
   product mid * 1e9 can reach 2^63, int64() of which is -2^63, and Inv turns that into MaxInt64. *)
Lemma raw_f_wide_R s :
  Rabs (IZR (raw_f s - wide_offset s)) < 3 / 2 + / 1000000 + 3 * u * IZR (Z.abs (lo_ns s) + Z.abs (hi_ns s))
  \/ (raw_f s = max_i64 /\ (2^64 - 2^14 <= lo_ns s + hi_ns s)%Z).
Proof.
  rewrite raw_f_unfold. unfold wide_offset. destruct (lo_hi_range s) as [Rl Rh].
  set (lo := lo_ns s) in *. set (hi := hi_ns s) in *. unfold min_i64, max_i64 in Rl, Rh.
  assert (Hl : (Z.abs lo <= 2^63)%Z) by (change (2^63)%Z with 9223372036854775808%Z; lia).
  assert (Hh : (Z.abs hi <= 2^63)%Z) by (change (2^63)%Z with 9223372036854775808%Z; lia).
  destruct (mid_ns_close lo hi Hl Hh) as [Fp Ep]. set (p := mid_ns_f lo hi) in *.
  change (2^64 - 2^14)%Z with 18446744073709535232%Z.
  set (S := (Z.abs lo + Z.abs hi)%Z) in *.
  assert (BS2 : IZR S <= 18446744073709551616) by (apply IZR_le; lia).
  assert (BS0 : 0 <= IZR S) by (apply IZR_le; lia).
  pose proof (quot2_half (- (lo + hi))) as Q. set (m := Z.quot (- (lo + hi)) 2) in *.
  rewrite opp_IZR in Q.
  assert (Bm : (- 9223372036854775807 <= m <= 9223372036854775808)%Z).
  { subst m. pose proof (Z.quot_rem' (- (lo + hi)) 2). pose proof (Z.rem_bound_abs (- (lo + hi)) 2). lia. }
  destruct (Ztrunc_err (R p)) as [K1 K2]. set (k := Ztrunc (R p)) in *.
  rewrite (f_to_i64_cases p Fp). fold k. unfold in_i64b, min_i64, max_i64.
  destruct (Z.leb_spec (-9223372036854775808) k) as [Lk|Lk]; cbn [andb].
  - destruct (Z.leb_spec k 9223372036854775807) as [Uk|Uk].
    + unfold inv, min_i64, max_i64. destruct (Z.eqb_spec k (-9223372036854775808)) as [Ek|Nk].
      * (* the product is -2^63 exactly: Inv saturates, the offset is 2^63 within the bound *)
        left. rewrite minus_IZR. assert (Ik : IZR k = -9223372036854775808) by (rewrite Ek; reflexivity).
        assert (Im : IZR m <= 9223372036854775808) by (apply IZR_le; lia).
        rewrite Ik in K1. unfold u in *. revert K1 Ep Q Im BS0. clear. split_Rabs; lra.
      * left. rewrite minus_IZR, opp_IZR. unfold u in *. revert K1 Ep Q BS0. clear. split_Rabs; lra.
    + (* beyond 2^63 - 1: the indefinite value, then Inv of it *)
      right. split; [reflexivity|].
      assert (Ik : 9223372036854775808 <= IZR k) by (apply IZR_le; lia).
      assert (Hs : 18446744073709535232 <= IZR (lo + hi)).
      { unfold u in Ep. revert K1 Ep Ik BS2. clear. split_Rabs; lra. }
      apply le_IZR. exact Hs.
  - (* below -2^63: the indefinite value again; Inv gives MaxInt64, and the offset is 2^63 within the bound *)
    left. replace (inv (-9223372036854775808)) with 9223372036854775807%Z by reflexivity. rewrite minus_IZR.
    assert (Ik : IZR k <= -9223372036854775809) by (apply IZR_le; lia).
    assert (Im : IZR m <= 9223372036854775808) by (apply IZR_le; lia).
    unfold u in *. revert K1 Ep Q Ik Im BS0. clear. split_Rabs; lra.
Qed.

(* from the real bound to the tolerance of the property oracle *)
Lemma tol_of_R s x : 
  Rabs (IZR (x - wide_offset s)) < 3 / 2 + / 1000000 + 3 * u * IZR (Z.abs (lo_ns s) + Z.abs (hi_ns s)) ->
  (Z.abs (x - wide_offset s) <= raw_tol s)%Z.
Proof.
  intros D. unfold raw_tol. change (2^50)%Z with 1125899906842624%Z.
  set (S := (Z.abs (lo_ns s) + Z.abs (hi_ns s))%Z) in *. set (T := (S / 1125899906842624)%Z).
  assert (HT : (0 <= T /\ S < 1125899906842624 * (T + 1))%Z).
  { subst T. split; [apply Z.div_pos; lia|]. pose proof (Z.mul_succ_div_gt S 1125899906842624). lia. }
  assert (BS : IZR S < 1125899906842624 * (IZR T + 1)).
  { replace (1125899906842624 * (IZR T + 1)) with (IZR (1125899906842624 * (T + 1))) by (rewrite mult_IZR, plus_IZR; reflexivity).
    apply IZR_lt. apply HT. }
  assert (BT : 0 <= IZR T) by (apply IZR_le; apply HT).
  assert (D' : Rabs (IZR (x - wide_offset s)) < IZR (3 + T)) by (rewrite plus_IZR; unfold u in D; lra).
  rewrite <- abs_IZR in D'. apply lt_IZR in D'. lia.
Qed.

Lemma raw_close_to_of_abs x tol obs : (Z.abs (obs - x) <= tol)%Z -> raw_close_to x tol obs = true.
Proof.
  intros C. unfold raw_close_to.
  destruct (Z.leb_spec (Z.abs (obs - x)) tol) as [_|C']; [|lia]. cbn [andb].
  destruct (Z.ltb_spec tol x) as [P|_].
  - destruct (Z.ltb_spec 0 obs) as [_|P']; [|lia]. cbn [andb].
    destruct (Z.ltb_spec x (- tol)) as [N|_]; [|reflexivity].
    destruct (Z.ltb_spec obs 0); [reflexivity|lia].
  - cbn [andb]. destruct (Z.ltb_spec x (- tol)) as [N|_]; [|reflexivity].
    destruct (Z.ltb_spec obs 0); [reflexivity|lia].
Qed.

(* the whole wild range except the named corner *)
Theorem raw_f_wide_Z s : (lo_ns s + hi_ns s < 2^64 - 2^14)%Z ->
  (Z.abs (raw_f s - wide_offset s) <= raw_tol s)%Z.
Proof.
  intros H. destruct (raw_f_wide_R s) as [D|[_ C]]; [apply tol_of_R; exact D|lia].
Qed.

(* the corner: close, or MaxInt64 *)
Theorem raw_f_corner s : (2^64 - 2^14 <= lo_ns s + hi_ns s)%Z ->
  (Z.abs (raw_f s - wide_offset s) <= raw_tol s)%Z \/ raw_f s = max_i64.
Proof.
  intros H. destruct (raw_f_wide_R s) as [D|[E _]]; [left; apply tol_of_R; exact D|right; exact E].
Qed.

Lemma raw_f_close_R s : (Z.abs (lo_ns s) < 2^62)%Z -> (Z.abs (hi_ns s) < 2^62)%Z ->
  Rabs (IZR (raw_f s - raw_offset s)) < 3 / 2 + / 1000000 + 3 * u * IZR (Z.abs (lo_ns s) + Z.abs (hi_ns s)).
Proof.
  intros Hl Hh. rewrite (raw_offset_exact s Hl Hh). destruct (raw_f_wide_R s) as [D|[_ C]]; [exact D|].
  change (2^62)%Z with 4611686018427387904%Z in *. change (2^64 - 2^14)%Z with 18446744073709535232%Z in C. lia.
Qed.

(* ... hence the tolerance of the property oracle: 2 ns + 2^-50 of the magnitudes *)
Theorem raw_f_close_Z s : (Z.abs (lo_ns s) < 2^62)%Z -> (Z.abs (hi_ns s) < 2^62)%Z ->
  (Z.abs (raw_f s - raw_offset s) <= raw_tol s)%Z.
Proof.
  intros Hl Hh. pose proof (raw_f_close_R s Hl Hh) as D. rewrite (raw_offset_exact s Hl Hh) in *.
  apply tol_of_R. exact D.
Qed.

(* ... and one nanosecond while the two one-way differences add up to less than 2^50 ns (13 days) *)
Theorem raw_f_close_1ns s : (Z.abs (lo_ns s) + Z.abs (hi_ns s) < 2^50)%Z ->
  (Z.abs (raw_f s - raw_offset s) <= 1)%Z.
Proof.
  intros HS. change (2^50)%Z with 1125899906842624%Z in HS.
  assert (Hl : (Z.abs (lo_ns s) < 2^62)%Z) by (change (2^62)%Z with 4611686018427387904%Z; lia).
  assert (Hh : (Z.abs (hi_ns s) < 2^62)%Z) by (change (2^62)%Z with 4611686018427387904%Z; lia).
  pose proof (raw_f_close_R s Hl Hh) as D.
  assert (BS : IZR (Z.abs (lo_ns s) + Z.abs (hi_ns s)) < 1125899906842624) by (apply IZR_lt; exact HS).
  assert (D' : Rabs (IZR (raw_f s - raw_offset s)) < IZR 2) by (unfold u in D; lra).
  rewrite <- abs_IZR in D'. apply lt_IZR in D'. lia.
Qed.

(* correct sign: an exact offset beyond the tolerance is never turned around *)
Theorem raw_f_sign s : (Z.abs (lo_ns s) < 2^62)%Z -> (Z.abs (hi_ns s) < 2^62)%Z ->
  ((raw_tol s < raw_offset s -> 0 < raw_f s) /\ (raw_offset s < - raw_tol s -> raw_f s < 0))%Z.
Proof. intros Hl Hh. pose proof (raw_f_close_Z s Hl Hh). lia. Qed.

(* the closeness clause of the property oracle holds for the model on every sample outside the corner *)
Theorem raw_f_close s : in_corner s = false -> raw_close s (raw_f s) = true.
Proof.
  unfold in_corner. intros Hc. apply Z.leb_gt in Hc. unfold raw_close.
  destruct ((Z.abs (lo_ns s) <? 2^62) && (Z.abs (hi_ns s) <? 2^62)) eqn:E.
  - apply andb_prop in E. destruct E as [Hl Hh]. apply Z.ltb_lt in Hl, Hh.
    apply raw_close_to_of_abs. apply raw_f_close_Z; assumption.
  - apply raw_close_to_of_abs. apply raw_f_wide_Z. exact Hc.
Qed.

(* ---- the oracle on the model, all histories without a corner sample ---- *)

Theorem ntimed_model_meets_oracle_all ops :
  (forall s, In s (do_samples ops) -> in_corner s = false) ->
  let tr := nt_trace (nt_zero 0) ops in
  C17_ntimed_ok ops (within_of tr) (map ni_out tr) (reset_points 0 0 ops) (nt_run_restarting (nt_zero 0) ops) = true.
Proof. intros H. apply ntimed_model_meets_oracle. intros s Hs. apply raw_f_close. apply H. exact Hs. Qed.
