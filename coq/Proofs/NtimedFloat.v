(* Rounding-error analysis of the raw offset of the Ntimed filter (C17):
   raw_f s = Inv(Duration((lo.Seconds() + hi.Seconds()) / 2)) in binary64 is
   within 2 ns + 2^-50 relative of ntp.ClockOffset and has its sign, for all
   samples whose one-way differences are below 2^62 ns in magnitude.  From the
   Flocq semantics of the binary64 operations (round to nearest even with
   gradual underflow: |rnd x - x| <= 2^-53 |x| + 2^-1075). *)
From ST Require Import Base.Ints Base.Value Base.F64 Model.NtpTime Model.Ftm Model.Lucky Model.Ntimed Proofs.NtimedProofs.
From Coq Require Import ZArith Reals Lia Lra List Bool.
From Flocq Require Import Core FIX Ulp Round_NE Relative BinarySingleNaN.
Import ListNotations.
Open Scope R_scope.

Notation emin := (SpecFloat.emin prec emax).
Notation fexp := (SpecFloat.fexp prec emax).
Notation rnd := (round radix2 fexp ZnearestE).
Notation R := (@B2R prec emax).
Notation fin := (@is_finite prec emax).
Notation fmt := (generic_format radix2 fexp).

(* ---- generic facts about binary64 rounding ---- *)

Lemma fexp_valid : Valid_exp fexp.
Proof. change fexp with (FLT_exp emin prec). apply FLT_exp_valid. reflexivity. Qed.
#[local] Existing Instance fexp_valid.

Lemma rnd_id x : fmt x -> rnd x = x.
Proof. apply round_generic; auto with typeclass_instances. Qed.

Lemma fmt_int_shift m e : (Z.abs m < 2^53)%Z -> (0 <= e)%Z -> fmt (IZR (m * 2^e)).
Proof.
  intros Hm He. change fexp with (FLT_exp emin prec). apply generic_format_FLT. apply (FLT_spec _ _ _ _ (Float radix2 m e)).
  - unfold F2R. cbn [Fnum Fexp]. rewrite mult_IZR. f_equal.
    rewrite (IZR_Zpower radix2) by exact He. reflexivity.
  - cbn [Fnum]. exact Hm.
  - cbn [Fexp]. unfold SpecFloat.emin, emax, prec. lia.
Qed.

Lemma fmt_int m : (Z.abs m < 2^53)%Z -> fmt (IZR m).
Proof. intros Hm. replace m with (m * 2^0)%Z by lia. apply fmt_int_shift; lia. Qed.

Lemma fmt_bpow e : (-1000 <= e <= 1000)%Z -> fmt (bpow radix2 e).
Proof.
  intros H. apply generic_format_bpow. unfold SpecFloat.fexp, FLT_exp, SpecFloat.emin, emax, prec. lia.
Qed.

Lemma rnd_abs_le x y : fmt y -> Rabs x <= y -> Rabs (rnd x) <= y.
Proof. intros Fy H. apply abs_round_le_generic; auto with typeclass_instances. Qed.

Lemma no_overflow x e : (e < 1024)%Z -> Rabs x <= bpow radix2 e ->
  Rlt_bool (Rabs x) (bpow radix2 emax) = true.
Proof.
  intros He H. apply Rlt_bool_true. eapply Rle_lt_trans; [exact H|]. apply bpow_lt. exact He.
Qed.

(* the unit roundoff and a (very generous) bound of the underflow term *)
Definition u := (/ 9007199254740992)%R.          (* 2^-53 *)
Definition eta := (/ 1000000000000000000000000000000)%R.   (* 10^-30 >= 2^-1075 *)

Lemma u_bpow : / 2 * bpow radix2 (- prec + 1) = u.
Proof.
  unfold u. change (bpow radix2 (- prec + 1)) with (/ IZR 4503599627370496). lra.
Qed.

Lemma eta_bpow : / 2 * bpow radix2 emin <= eta.
Proof.
  apply Rle_trans with (bpow radix2 (-100)).
  - assert (H : bpow radix2 emin <= bpow radix2 (-100)) by (apply bpow_le; unfold SpecFloat.emin, emax, prec; lia).
    pose proof (bpow_ge_0 radix2 emin). lra.
  - unfold eta. change (bpow radix2 (-100)) with (/ IZR 1267650600228229401496703205376).
    apply Rinv_le_contravar; lra.
Qed.

(* every binary64 rounding: relative error 2^-53 plus the underflow term *)
Lemma rnd_err x : Rabs (rnd x - x) <= u * Rabs x + eta.
Proof.
  destruct (error_N_FLT radix2 emin prec Hprec (fun n => negb (Z.even n)) x) as [eps [et [He [Ht [_ E]]]]].
  change (round radix2 (FLT_exp emin prec) (Znearest (fun n => negb (Z.even n))) x) with (rnd x) in E.
  rewrite E, u_bpow in *. pose proof eta_bpow as Hb.
  replace (x * (1 + eps) + et - x) with (x * eps + et) by ring.
  eapply Rle_trans; [apply Rabs_triang|]. rewrite Rabs_mult.
  assert (Rabs x * Rabs eps <= Rabs x * u) by (apply Rmult_le_compat_l; [apply Rabs_pos|exact He]).
  lra.
Qed.

(* ---- the operations on finite values ---- *)

Lemma fmul_spec x y e : fin x = true -> fin y = true -> (-1000 <= e <= 1000)%Z ->
  Rabs (R x * R y) <= bpow radix2 e ->
  fin (fmul x y) = true /\ R (fmul x y) = rnd (R x * R y).
Proof.
  intros Fx Fy He Hb. unfold fmul.
  pose proof (Bmult_correct prec emax Hprec Hmax mode_NE x y) as C. cbn [round_mode] in C.
  assert (Hr : Rabs (rnd (R x * R y)) <= bpow radix2 e) by (apply rnd_abs_le; [apply fmt_bpow; exact He|exact Hb]).
  rewrite (no_overflow _ e) in C by (try lia; exact Hr).
  destruct C as [C1 [C2 _]]. rewrite C2, Fx, Fy. split; [reflexivity|exact C1].
Qed.

Lemma fadd_spec x y e : fin x = true -> fin y = true -> (-1000 <= e <= 1000)%Z ->
  Rabs (R x + R y) <= bpow radix2 e ->
  fin (fadd x y) = true /\ R (fadd x y) = rnd (R x + R y).
Proof.
  intros Fx Fy He Hb. unfold fadd.
  pose proof (Bplus_correct prec emax Hprec Hmax mode_NE x y Fx Fy) as C. cbn [round_mode] in C.
  assert (Hr : Rabs (rnd (R x + R y)) <= bpow radix2 e) by (apply rnd_abs_le; [apply fmt_bpow; exact He|exact Hb]).
  rewrite (no_overflow _ e) in C by (try lia; exact Hr).
  destruct C as [C1 [C2 _]]. split; assumption.
Qed.

Lemma fdiv_spec x y e : fin x = true -> R y <> 0 -> (-1000 <= e <= 1000)%Z ->
  Rabs (R x / R y) <= bpow radix2 e ->
  fin (fdiv x y) = true /\ R (fdiv x y) = rnd (R x / R y).
Proof.
  intros Fx Hy He Hb. unfold fdiv.
  pose proof (Bdiv_correct prec emax Hprec Hmax mode_NE x y Hy) as C. cbn [round_mode] in C.
  assert (Hr : Rabs (rnd (R x / R y)) <= bpow radix2 e) by (apply rnd_abs_le; [apply fmt_bpow; exact He|exact Hb]).
  rewrite (no_overflow _ e) in C by (try lia; exact Hr).
  destruct C as [C1 [C2 _]]. rewrite C2, Fx. split; [reflexivity|exact C1].
Qed.

(* float64(int64) is exact below 2^53 *)
Lemma f_of_int_spec z : (Z.abs z < 2^53)%Z -> fin (f_of_int z) = true /\ R (f_of_int z) = IZR z.
Proof.
  intros Hz. unfold f_of_int.
  pose proof (binary_normalize_correct prec emax Hprec Hmax mode_NE z 0 false) as C.
  cbn [round_mode] in C. cbv zeta in C.
  assert (E : F2R (Float radix2 z 0) = IZR z) by (unfold F2R; cbn [Fnum Fexp bpow]; lra).
  rewrite E in C. rewrite (rnd_id (IZR z)) in C by (apply fmt_int; exact Hz).
  rewrite Rlt_bool_true in C.
  - destruct C as [C1 [C2 _]]. split; assumption.
  - apply Rlt_trans with (bpow radix2 53).
    + rewrite <- abs_IZR. change (bpow radix2 53) with (IZR (2^53)). apply IZR_lt. exact Hz.
    + apply bpow_lt. reflexivity.
Qed.

(* int64(float64) *)
Lemma f_to_i64_spec x : fin x = true ->
  (min_i64 <= Ztrunc (R x) <= max_i64)%Z -> f_to_i64 x = Ztrunc (R x).
Proof.
  intros Fx Hr. unfold f_to_i64, fis_finite. rewrite Fx.
  assert (E : Btrunc x = Ztrunc (R x)).
  { apply eq_IZR. rewrite (Btrunc_correct prec emax Hmax). apply round_FIX_IZR. }
  rewrite E. unfold in_i64b.
  destruct (Z.leb_spec min_i64 (Ztrunc (R x))); [|lia].
  destruct (Z.leb_spec (Ztrunc (R x)) max_i64); [reflexivity|lia].
Qed.

(* truncation moves a real by less than one, towards zero *)
Lemma Ztrunc_err x : Rabs (IZR (Ztrunc x) - x) < 1 /\ Rabs (IZR (Ztrunc x)) <= Rabs x.
Proof.
  destruct (Rle_or_lt 0 x) as [P|N].
  - rewrite Ztrunc_floor by exact P. pose proof (Zfloor_lb x). pose proof (Zfloor_ub x).
    assert (0 <= IZR (Zfloor x)) by (apply IZR_le, Zfloor_lub; exact P).
    split; [apply Rabs_def1; lra|]. rewrite !Rabs_pos_eq by lra. lra.
  - rewrite Ztrunc_ceil by lra. pose proof (Zceil_ub x). pose proof (Zceil_lb x).
    assert (IZR (Zceil x) <= 0) by (apply IZR_le, Zceil_glb; lra).
    split; [apply Rabs_def1; lra|]. rewrite !Rabs_left1 by lra. lra.
Qed.
