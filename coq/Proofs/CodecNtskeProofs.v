(* Proofs about the NTS-KE record codec model: records round-trip through ReadData, and
   ReadData does not depend on how the stream is cut into reads. *)
From ST Require Import Base.Ints Base.Bytes Model.CodecNtske.
Open Scope Z_scope.
Ltac Zify.zify_post_hook ::= Z.div_mod_to_equations.

(* ---------- the reader oracle ---------- *)

Lemma rd_read_spec m r : (0 < m)%nat ->
  exists k sch, (1 <= k <= m)%nat /\
    rd_read m r = (firstn k (rd_rest r), {| rd_rest := skipn k (rd_rest r); rd_sched := sch |}).
Proof.
  intros Hm. unfold rd_read. destruct (rd_sched r) as [|c sch].
  - exists m, []. split; [lia|reflexivity].
  - exists (Nat.min m (S c)), sch. split; [lia|reflexivity].
Qed.

(* io.ReadFull over any schedule = taking n bytes off the whole stream *)
Lemma rf_loop_spec fuel : forall n acc r, (n <= fuel)%nat ->
  ((n <= length (rd_rest r))%nat ->
     exists sch, rf_loop fuel n acc r =
       Ok (acc ++ firstn n (rd_rest r), {| rd_rest := skipn n (rd_rest r); rd_sched := sch |})) /\
  ((length (rd_rest r) < n)%nat ->
     rf_loop fuel n acc r = Err (match acc ++ rd_rest r with [] => e_eof | _ => e_unexpected end)).
Proof.
  induction fuel as [|fuel IH]; intros n acc r Hn.
  - assert (n = 0%nat) by lia. subst n. split; [|lia]. intros _. simpl.
    exists (rd_sched r). rewrite app_nil_r. destruct r; reflexivity.
  - destruct n as [|n'].
    { split; [|lia]. intros _. simpl. exists (rd_sched r). rewrite app_nil_r. destruct r; reflexivity. }
    set (n := S n') in *.
    destruct (rd_read_spec n r) as (k & sch & Hk & Hrd); [unfold n; lia|].
    change (rf_loop (S fuel) n acc r) with
      (let '(got, r') := rd_read n r in
       match got with
       | [] => match acc with [] => Err e_eof | _ => Err e_unexpected end
       | _ => rf_loop fuel (n - length got) (acc ++ got) r'
       end).
    rewrite Hrd.
    destruct (rd_rest r) as [|x rest] eqn:Hrest.
    + (* end of stream *)
      split; [simpl; lia|]. intros _. rewrite firstn_nil. rewrite app_nil_r. destruct acc; reflexivity.
    + set (s := x :: rest) in *.
      assert (Hs1 : (1 <= length s)%nat) by (unfold s; simpl; lia).
      assert (Hgot : firstn k s <> []) by (destruct k; [lia|discriminate]).
      assert (Hlen : length (firstn k s) = Nat.min k (length s)) by apply firstn_length.
      destruct (firstn k s) as [|g gs] eqn:Hf; [congruence|]. rewrite <- Hf in *. clear Hgot.
      set (r' := {| rd_rest := skipn k s; rd_sched := sch |}).
      assert (Hsk : length (skipn k s) = (length s - k)%nat) by apply skipn_length.
      destruct (IH (n - length (firstn k s))%nat (acc ++ firstn k s) r') as [IH1 IH2]; [lia|].
      replace (match firstn k s with [] => match acc with [] => Err e_eof | _ => Err e_unexpected end
               | _ => rf_loop fuel (n - length (firstn k s)) (acc ++ firstn k s) r' end)
        with (rf_loop fuel (n - length (firstn k s)) (acc ++ firstn k s) r') by (rewrite Hf; reflexivity).
      simpl rd_rest in IH1, IH2. split.
      * intros Hle. assert (Hkl : (k <= length s)%nat) by lia.
        rewrite Hlen in *. replace (Nat.min k (length s)) with k in * by lia.
        destruct IH1 as [sch' ->]; [lia|]. exists sch'. f_equal. f_equal.
        -- rewrite <- app_assoc. f_equal.
           replace n with (k + (n - k))%nat at 2 by lia. apply eq_sym, firstn_plus.
        -- f_equal. rewrite skipn_skipn. f_equal. lia.
      * intros Hlt. rewrite IH2 by lia. f_equal.
        rewrite <- app_assoc, firstn_skipn.
        destruct acc; reflexivity.
Qed.

Lemma rf_chunked_spec n r :
  match rf_flat n (rd_rest r) with
  | Ok (b, s') => exists sch, rf_chunked n r = Ok (b, {| rd_rest := s'; rd_sched := sch |})
  | Err e => rf_chunked n r = Err e
  | _ => False
  end.
Proof.
  unfold rf_flat, rf_chunked. destruct (rf_loop_spec n n [] r (le_n n)) as [H1 H2].
  destruct (Nat.leb_spec n (length (rd_rest r))) as [Hle|Hlt].
  - destruct (H1 Hle) as [sch H]. exists sch. exact H.
  - rewrite (H2 Hlt). simpl. destruct (rd_rest r); reflexivity.
Qed.

(* ---------- simulation: two readers that deliver the same bytes give the same ReadData ---------- *)

Section Sim.
  Variables R1 R2 : Type.
  Variables (rf1 rc1 : nat -> R1 -> outcome (list Z * R1)) (rf2 rc2 : nat -> R2 -> outcome (list Z * R2)).
  Variable rel : R1 -> R2 -> Prop.

  Definition sim (f1 : nat -> R1 -> outcome (list Z * R1)) (f2 : nat -> R2 -> outcome (list Z * R2)) : Prop :=
    forall n r1 r2, rel r1 r2 ->
      match f2 n r2 with
      | Ok (b, r2') => exists r1', f1 n r1 = Ok (b, r1') /\ rel r1' r2'
      | Err e => f1 n r1 = Err e
      | _ => False
      end.

  Variables (dr1 : R1 -> R1) (dr2 : R2 -> R2).
  Hypothesis Hrf : sim rf1 rf2.
  Hypothesis Hrc : sim rc1 rc2.
  Hypothesis Hdr : forall r1 r2, rel (dr1 r1) (dr2 r2).

  Lemma read_data_sim fuel : forall r1 r2 d, rel r1 r2 ->
    let '(d1, e1, r1') := read_data R1 rf1 rc1 dr1 fuel r1 d in
    let '(d2, e2, r2') := read_data R2 rf2 rc2 dr2 fuel r2 d in
    d1 = d2 /\ e1 = e2 /\ rel r1' r2'.
  Proof.
    induction fuel as [|fuel IH]; intros r1 r2 d Hrel; [simpl; auto|].
    cbn [read_data].
    pose proof (Hrf 4%nat r1 r2 Hrel) as H4.
    destruct (rf2 4%nat r2) as [[h s1]| e | |]; try contradiction;
      [destruct H4 as (q1 & -> & Hrel1) | rewrite H4; simpl; auto].
    set (blen := Z.to_nat (be_dec (skipn 2 h))).
    pose proof (Hrf 2%nat q1 s1 Hrel1) as H2.
    pose proof (Hrf blen q1 s1 Hrel1) as Hb.
    pose proof (Hrc blen q1 s1 Hrel1) as Hc.
    repeat match goal with |- context [if ?c then _ else _] => destruct c end;
      try (simpl; auto; fail);
      try (destruct (rf2 2%nat s1) as [[v s2]| e | |]; try contradiction;
           [destruct H2 as (q2 & -> & Hrel2); try (apply IH; exact Hrel2); (simpl; auto)
           | rewrite H2; simpl; auto]; fail);
      try (destruct (rc2 blen s1) as [[v s2]| e | |]; try contradiction;
           [destruct Hc as (q2 & -> & Hrel2); apply IH; exact Hrel2 | rewrite Hc; simpl; auto]; fail);
      try (destruct (rf2 blen s1) as [[v s2]| e | |]; try contradiction;
           [destruct Hb as (q2 & -> & Hrel2); apply IH; exact Hrel2 | rewrite Hb; simpl; auto]; fail).
  Qed.
End Sim.

Definition rd_rel (r : reader) (s : list Z) : Prop := rd_rest r = s.

Lemma sim_chunked_flat : sim reader (list Z) rd_rel rf_chunked rf_flat.
Proof.
  intros n r s Hrel. unfold rd_rel in Hrel. subst s.
  pose proof (rf_chunked_spec n r) as H.
  destruct (rf_flat n (rd_rest r)) as [[b s']| e | |]; auto.
  destruct H as [sch H]. eexists. split; [exact H|reflexivity].
Qed.

(* ReadData yields the same Data, the same error class and leaves the same unread stream for
   every way the transport may cut the stream into reads *)
Theorem read_data_segmentation s sch d :
  let '(d1, e1, r1) := read_data_chunked {| rd_rest := s; rd_sched := sch |} d in
  let '(d2, e2, s2) := read_data_flat s d in
  d1 = d2 /\ e1 = e2 /\ rd_rest r1 = s2.
Proof.
  unfold read_data_chunked, read_data_flat. simpl rd_rest.
  apply (read_data_sim reader (list Z) rf_chunked rf_chunked rf_flat rf_flat rd_rel rd_drained (fun _ => [])
           sim_chunked_flat sim_chunked_flat); reflexivity.
Qed.

(* ---------- the fuel given is never exhausted ---------- *)

Lemma rf_flat_len n s b s' : rf_flat n s = Ok (b, s') -> length s' = (length s - n)%nat /\ (n <= length s)%nat.
Proof.
  unfold rf_flat. destruct (Nat.leb_spec n (length s)) as [H|H].
  - intros E. inversion E; subst. rewrite skipn_length. lia.
  - destruct s; discriminate.
Qed.

Lemma rf_flat_err n s : err_of (rf_flat n s) <> e_fuel.
Proof.
  unfold rf_flat. destruct (n <=? length s)%nat; [discriminate|]. destruct s; discriminate.
Qed.

Lemma read_data_flat_fuel fuel : forall s d, (length s < 4 * fuel)%nat ->
  snd (fst (read_data (list Z) rf_flat rf_flat (fun _ => []) fuel s d)) <> e_fuel.
Proof.
  induction fuel as [|fuel IH]; intros s d Hlen; [lia|].
  cbn [read_data].
  destruct (rf_flat 4 s) as [[h s1]| e | |] eqn:E4;
    [| pose proof (rf_flat_err 4 s) as H; rewrite E4 in H; exact H
     | pose proof (rf_flat_err 4 s) as H; rewrite E4 in H; exact H
     | pose proof (rf_flat_err 4 s) as H; rewrite E4 in H; exact H].
  apply rf_flat_len in E4 as [Hl1 Hge].
  set (blen := Z.to_nat (be_dec (skipn 2 h))).
  assert (Hrec : forall n b s2 d', rf_flat n s1 = Ok (b, s2) ->
                   snd (fst (read_data (list Z) rf_flat rf_flat (fun _ => []) fuel s2 d')) <> e_fuel).
  { intros n b s2 d' E. apply rf_flat_len in E as [Hl2 _]. apply IH. lia. }
  repeat match goal with |- context [if ?c then _ else _] => destruct c end;
    try (simpl; discriminate);
    match goal with
    | |- context [match rf_flat ?n s1 with _ => _ end] =>
        destruct (rf_flat n s1) as [[v s2]| e | |] eqn:E;
        [ try (eapply Hrec; exact E); try (simpl; repeat match goal with |- context [if ?c then _ else _] => destruct c end; discriminate)
        | pose proof (rf_flat_err n s1) as H; rewrite E in H; exact H
        | pose proof (rf_flat_err n s1) as H; rewrite E in H; exact H
        | pose proof (rf_flat_err n s1) as H; rewrite E in H; exact H ]
    end.
Qed.

Theorem read_data_no_fuel_exhaustion s sch d :
  snd (fst (read_data_flat s d)) <> e_fuel /\
  snd (fst (read_data_chunked {| rd_rest := s; rd_sched := sch |} d)) <> e_fuel.
Proof.
  assert (H1 : snd (fst (read_data_flat s d)) <> e_fuel).
  { unfold read_data_flat. apply read_data_flat_fuel. lia. }
  split; [exact H1|].
  pose proof (read_data_segmentation s sch d) as H.
  destruct (read_data_chunked _ d) as [[d1 e1] r1]. destruct (read_data_flat s d) as [[d2 e2] s2].
  simpl in *. destruct H as (_ & -> & _). exact H1.
Qed.

(* ---------- records: ReadData after Pack ---------- *)

Lemma pack_header_length t c n : length (pack_header t c n) = 4%nat.
Proof. unfold pack_header. rewrite app_length, !be_enc_length. reflexivity. Qed.

Lemma rf_flat_app a rest n : length a = n -> rf_flat n (a ++ rest) = Ok (a, rest).
Proof.
  intros H. unfold rf_flat. rewrite app_length.
  destruct (Nat.leb_spec n (length a + length rest)) as [_|Hlt]; [|lia].
  rewrite firstn_app_exact, skipn_app_exact by exact H. reflexivity.
Qed.

Lemma hdr_type t (c : bool) n : 0 <= (if c then Z.lor t 32768 else t) < 65536 ->
  be_dec (firstn 2 (pack_header t c n)) = (if c then Z.lor t 32768 else t).
Proof.
  intros H. unfold pack_header. rewrite firstn_app_exact by apply be_enc_length.
  apply (be_dec_enc 2). exact H.
Qed.

Lemma hdr_len t c n : (Z.of_nat n < 65536) ->
  Z.to_nat (be_dec (skipn 2 (pack_header t c n))) = n.
Proof.
  intros H. unfold pack_header. rewrite skipn_app_exact by apply be_enc_length.
  unfold u16. rewrite Z.mod_small by lia. rewrite (be_dec_enc 2) by (change (256 ^ Z.of_nat 2) with 65536; lia).
  apply Nat2Z.id.
Qed.

Lemma be2_length x : length (be_enc 2 x) = 2%nat.
Proof. apply be_enc_length. Qed.

Lemma be2_dec x : 0 <= x < 65536 -> be_dec (be_enc 2 x) = x.
Proof. intros H. apply (be_dec_enc 2). exact H. Qed.

Ltac hdr_step t c n :=
  cbn [read_data]; rewrite (rf_flat_app (pack_header t c n)) by apply pack_header_length;
  rewrite (hdr_type t c n) by (vm_compute; split; [discriminate|reflexivity]).

(* one canonical record moves ReadData one iteration forward and has the effect apply_record *)
Lemma read_step_canonical r : canonical r = true -> forall fuel rest d,
  read_data (list Z) rf_flat rf_flat (fun _ => []) (S fuel) (pack_record r ++ rest) d =
  read_data (list Z) rf_flat rf_flat (fun _ => []) fuel rest (apply_record d r).
Proof.
  intros Hc fuel rest d.
  destruct r as [v| |a c|p c|ck|x|x|l|ty body]; simpl canonical in Hc; try discriminate;
    unfold pack_record, pack_simple; rewrite <- app_assoc.
  - (* NextProto *)
    apply andb_true_iff in Hc as [H0 H1].
    hdr_step rec_nextproto true (length (be_enc 2 v)).
    cbn -[rf_flat read_data be_enc]. rewrite (rf_flat_app (be_enc 2 v)) by apply be2_length. reflexivity.
  - (* Server *)
    apply andb_true_iff in Hc as [H0 H1]. apply Z.ltb_lt in H1.
    destruct c.
    + hdr_step rec_server true (length a). rewrite hdr_len by exact H1.
      cbn -[rf_flat read_data]. rewrite (rf_flat_app a) by reflexivity. reflexivity.
    + hdr_step rec_server false (length a). rewrite hdr_len by exact H1.
      cbn -[rf_flat read_data]. rewrite (rf_flat_app a) by reflexivity. reflexivity.
  - (* Port *)
    apply andb_true_iff in Hc as [H0 H1].
    destruct c.
    + hdr_step rec_port true (length (be_enc 2 p)).
      cbn -[rf_flat read_data be_enc be_dec]. rewrite (rf_flat_app (be_enc 2 p)) by apply be2_length.
      rewrite be2_dec by lia. reflexivity.
    + hdr_step rec_port false (length (be_enc 2 p)).
      cbn -[rf_flat read_data be_enc be_dec]. rewrite (rf_flat_app (be_enc 2 p)) by apply be2_length.
      rewrite be2_dec by lia. reflexivity.
  - (* Cookie *)
    apply andb_true_iff in Hc as [H0 H1]. apply Z.ltb_lt in H1.
    hdr_step rec_cookie false (length ck). rewrite hdr_len by exact H1.
    cbn -[rf_flat read_data]. rewrite (rf_flat_app ck) by reflexivity. reflexivity.
  - (* Algorithm, exactly one *)
    destruct l as [|al [|? ?]]; try discriminate.
    apply andb_true_iff in Hc as [H0 H1].
    hdr_step rec_aead true (length (flat_map (be_enc 2) [al])).
    cbn -[rf_flat read_data be_enc be_dec]. rewrite app_nil_r.
    rewrite (rf_flat_app (be_enc 2 al)) by apply be2_length. rewrite be2_dec by lia. reflexivity.
  - (* a record of unknown type without the critical bit is swallowed whole *)
    apply andb_true_iff in Hc as [Hc H3]. apply andb_true_iff in Hc as [Hc H2].
    apply andb_true_iff in Hc as [H0 H1]. apply Z.ltb_lt in H3. apply Z.leb_le in H0. apply Z.ltb_lt in H1.
    cbn [read_data]. rewrite (rf_flat_app (pack_header ty false (length body))) by apply pack_header_length.
    rewrite (hdr_type ty false (length body)) by lia. rewrite hdr_len by exact H3.
    assert (Hland : Z.land ty 32767 = ty).
    { change 32767 with (Z.ones 15). rewrite Z.land_ones by lia. apply Z.mod_small. change (2 ^ 15) with 32768. lia. }
    assert (Hbit : Z.testbit ty 15 = false).
    { rewrite Z.testbit_false by lia. change (2 ^ 15) with 32768. rewrite Z.div_small by lia. reflexivity. }
    rewrite Hland, Hbit.
    unfold rec_eom, rec_nextproto, rec_aead, rec_cookie, rec_server, rec_port, rec_error.
    repeat match goal with |- context [ty =? ?k] => destruct (Z.eqb_spec ty k) as [E|_]; [lia|] end.
    rewrite (rf_flat_app body) by reflexivity. reflexivity.
Qed.

Lemma read_step_end fuel rest d :
  read_data (list Z) rf_flat rf_flat (fun _ => []) (S fuel) (pack_record REnd ++ rest) d = (d, 0, rest).
Proof.
  unfold pack_record. hdr_step rec_eom true 0%nat. reflexivity.
Qed.

Lemma read_records fuel : forall rs rest d,
  forallb canonical rs = true -> (length rs < fuel)%nat ->
  read_data (list Z) rf_flat rf_flat (fun _ => []) fuel (pack_msg (rs ++ [REnd]) ++ rest) d =
  (fold_left apply_record rs d, 0, rest).
Proof.
  induction fuel as [|fuel IH]; intros rs rest d Hc Hlen; [lia|].
  destruct rs as [|r rs]; unfold pack_msg.
  - cbn [app flat_map]. rewrite app_nil_r. apply read_step_end.
  - simpl in Hc. apply andb_true_iff in Hc as [Hr Hrs].
    cbn [app flat_map]. rewrite <- app_assoc. rewrite read_step_canonical by exact Hr.
    apply (IH rs rest (apply_record d r)); [exact Hrs | simpl in Hlen; lia].
Qed.

Lemma pack_record_len r : (4 <= length (pack_record r))%nat.
Proof.
  destruct r; unfold pack_record, pack_simple; rewrite ?app_length, pack_header_length; lia.
Qed.

Lemma pack_msg_len rs : (4 * length rs <= length (pack_msg rs))%nat.
Proof.
  induction rs as [|r rs IH]; simpl; [lia|]. rewrite app_length. pose proof (pack_record_len r). lia.
Qed.

(* a message of canonical records closed by End reads back as the data it spells, the
   bytes after End stay unread; and so for every segmentation of the stream *)
Theorem records_roundtrip rs rest d :
  forallb canonical rs = true ->
  read_data_flat (pack_msg (rs ++ [REnd]) ++ rest) d = (fold_left apply_record rs d, 0, rest).
Proof.
  intros Hc. unfold read_data_flat. apply read_records; [exact Hc|].
  rewrite app_length. pose proof (pack_msg_len (rs ++ [REnd])) as H. rewrite app_length in H. simpl in H. lia.
Qed.

Theorem records_roundtrip_chunked rs rest d sch :
  forallb canonical rs = true ->
  let '(d1, e1, r1) := read_data_chunked {| rd_rest := pack_msg (rs ++ [REnd]) ++ rest; rd_sched := sch |} d in
  d1 = fold_left apply_record rs d /\ e1 = 0 /\ rd_rest r1 = rest.
Proof.
  intros Hc. pose proof (read_data_segmentation (pack_msg (rs ++ [REnd]) ++ rest) sch d) as H.
  rewrite (records_roundtrip rs rest d Hc) in H.
  destruct (read_data_chunked _ d) as [[d1 e1] r1]. exact H.
Qed.

(* an Error record ends the exchange with the error class of its code *)
Lemma read_step_error x fuel rest d : 0 <= x < 65536 ->
  read_data (list Z) rf_flat rf_flat (fun _ => []) (S fuel) (pack_record (RError x) ++ rest) d =
  (d, (if x =? 0 then e_msg_critical else if x =? 1 then e_msg_badreq
       else if x =? 2 then e_msg_internal else e_msg_unknown), rest).
Proof.
  intros Hx. unfold pack_record, pack_simple. rewrite <- app_assoc.
  hdr_step rec_error true (length (be_enc 2 x)).
  cbn -[rf_flat read_data be_enc be_dec]. rewrite (rf_flat_app (be_enc 2 x)) by apply be2_length.
  rewrite be2_dec by lia. reflexivity.
Qed.

(* a Warning record (type 3, always packed critical) is not known to ReadData: error *)
Lemma read_step_warning x fuel rest d :
  snd (fst (read_data (list Z) rf_flat rf_flat (fun _ => []) (S fuel) (pack_record (RWarning x) ++ rest) d)) = e_unknown_critical.
Proof.
  unfold pack_record, pack_simple. rewrite <- app_assoc.
  hdr_step rec_warning true (length (be_enc 2 x)). reflexivity.
Qed.

(* ---------- equality tests ---------- *)

Lemma list_eqb_z_refl l : list_eqb_z l l = true.
Proof. induction l as [|x l IH]; simpl; auto. rewrite Z.eqb_refl. exact IH. Qed.
Lemma zll_eqb_refl l : zll_eqb l l = true.
Proof. induction l as [|x l IH]; simpl; auto. rewrite list_eqb_z_refl. exact IH. Qed.
Lemma kd_eqb_refl d : kd_eqb d d = true.
Proof. unfold kd_eqb. rewrite !Z.eqb_refl, list_eqb_z_refl, zll_eqb_refl. reflexivity. Qed.

(* ---------- the oracle accepts the model ---------- *)

Definition run_sched (s : list Z) (d : ke_data) (sch : list nat) : ke_data * Z :=
  fst (read_data_chunked {| rd_rest := s; rd_sched := sch |} d).

Lemma same_results_model s d schs :
  C14_same_results (fst (read_data_flat s d)) (map (run_sched s d) schs) = true.
Proof.
  induction schs as [|sch schs IH]; simpl; [reflexivity|].
  unfold run_sched at 1. pose proof (read_data_segmentation s sch d) as H.
  destruct (read_data_chunked _ d) as [[d1 e1] r1]. destruct (read_data_flat s d) as [[d2 e2] s2].
  simpl in *. destruct H as (-> & -> & _). rewrite kd_eqb_refl, Z.eqb_refl. exact IH.
Qed.

Lemma records_model_meets_oracle rs rest d sch :
  forallb canonical rs = true ->
  let res := run_sched (pack_msg (rs ++ [REnd]) ++ rest) d sch in
  C14_records_ok rs d (fst res) (snd res) = true.
Proof.
  intros Hc res. unfold res, run_sched.
  pose proof (records_roundtrip_chunked rs rest d sch Hc) as H.
  destruct (read_data_chunked _ d) as [[d1 e1] r1]. destruct H as (-> & -> & _).
  unfold C14_records_ok. simpl. apply kd_eqb_refl.
Qed.

(* ---------- the version before commit 0924366 depended on the segmentation ---------- *)

Definition pinned_stream : list Z :=
  pack_msg [RNextProto 0; RAlgorithm [15]; RCookie [1; 2; 3; 4; 5; 6; 7; 8]; REnd].

Lemma segmentation_refuted_pinned :
  exists s sch d, fst (read_data_chunked_pinned {| rd_rest := s; rd_sched := sch |} d) <> fst (read_data_flat s d).
Proof.
  exists pinned_stream, (repeat 0%nat 40), {| kd_algo := 0; kd_server := []; kd_port := 0; kd_cookies := [] |}.
  vm_compute. intros H. discriminate H.
Qed.

(* ---------- records outside `canonical`, stated ---------- *)

(* an Algorithm record with n >= 1 entries: ReadData takes the first entry and does NOT skip the
   others: their bytes are read as the next record header *)
Lemma read_step_algorithms a l fuel rest d : 0 <= a < 65536 -> Z.of_nat (2 + 2 * length l) < 65536 ->
  read_data (list Z) rf_flat rf_flat (fun _ => []) (S fuel) (pack_record (RAlgorithm (a :: l)) ++ rest) d =
  read_data (list Z) rf_flat rf_flat (fun _ => []) fuel (flat_map (be_enc 2) l ++ rest) (kd_set_algo d a).
Proof.
  intros Ha Hl. unfold pack_record, pack_simple. rewrite <- app_assoc.
  hdr_step rec_aead true (length (flat_map (be_enc 2) (a :: l))).
  cbn -[rf_flat read_data be_enc be_dec]. rewrite <- app_assoc.
  rewrite (rf_flat_app (be_enc 2 a)) by apply be2_length. rewrite be2_dec by lia. reflexivity.
Qed.

(* a Warning record: unknown type 3 with the critical bit: error, nothing assigned, body unread *)
Lemma read_step_warning_full x fuel rest d :
  read_data (list Z) rf_flat rf_flat (fun _ => []) (S fuel) (pack_record (RWarning x) ++ rest) d =
  (d, e_unknown_critical, be_enc 2 x ++ rest).
Proof.
  unfold pack_record, pack_simple. rewrite <- app_assoc.
  hdr_step rec_warning true (length (be_enc 2 x)). reflexivity.
Qed.

(* the byte-level decoder meets the record-level meaning of every message the latter speaks about *)
Lemma read_meets_spec fuel : forall rs d d' e left,
  ke_spec rs d = Some (d', e, left) -> (length rs < fuel)%nat ->
  exists rest', read_data (list Z) rf_flat rf_flat (fun _ => []) fuel (pack_msg rs) d = (d', e, rest') /\
                (e = 0 -> rest' = pack_msg left).
Proof.
  induction fuel as [|fuel IH]; intros rs d d' e left Hs Hlen; [lia|].
  destruct rs as [|r rs].
  - simpl in Hs. inversion Hs; subst. exists []. split; [reflexivity|]. unfold e_eof. discriminate.
  - unfold pack_msg. cbn [flat_map]. fold (pack_msg rs).
    assert (Hcan : canonical r = true -> ke_spec rs (apply_record d r) = Some (d', e, left) ->
                   exists rest', read_data (list Z) rf_flat rf_flat (fun _ => []) (S fuel) (pack_record r ++ pack_msg rs) d = (d', e, rest') /\
                                 (e = 0 -> rest' = pack_msg left)).
    { intros Hc Hs'. rewrite read_step_canonical by exact Hc. apply IH; [exact Hs'|simpl in Hlen; lia]. }
    destruct r as [v| |a c|p c|ck|x|x|l|ty body]; cbn [ke_spec] in Hs.
    + destruct (canonical (RNextProto v)) eqn:Hc; [|discriminate]. apply Hcan; auto.
    + inversion Hs; subst. rewrite read_step_end. exists (pack_msg left). auto.
    + destruct (canonical (RServer a c)) eqn:Hc; [|discriminate]. apply Hcan; auto.
    + destruct (canonical (RPort p c)) eqn:Hc; [|discriminate]. apply Hcan; auto.
    + destruct (canonical (RCookie ck)) eqn:Hc; [|discriminate]. apply Hcan; auto.
    + destruct ((0 <=? x) && (x <? 65536)) eqn:Hx; [|discriminate]. inversion Hs; subst.
      rewrite read_step_warning_full. eexists. split; [reflexivity|]. unfold e_unknown_critical. discriminate.
    + destruct ((0 <=? x) && (x <? 65536)) eqn:Hx; [|discriminate]. inversion Hs; subst.
      rewrite read_step_error by lia. eexists. split; [reflexivity|].
      unfold error_class, e_msg_critical, e_msg_badreq, e_msg_internal, e_msg_unknown.
      repeat match goal with |- context [if ?c then _ else _] => destruct c end; discriminate.
    + destruct (canonical (RAlgorithm l)) eqn:Hc; [|discriminate]. apply Hcan; auto.
    + destruct (canonical (RUnknown ty body)) eqn:Hc; [|discriminate]. apply Hcan; auto.
Qed.

Theorem read_data_meets_spec rs d d' e left :
  ke_spec rs d = Some (d', e, left) ->
  exists rest', read_data_flat (pack_msg rs) d = (d', e, rest') /\ (e = 0 -> rest' = pack_msg left).
Proof.
  intros Hs. unfold read_data_flat. apply (read_meets_spec _ rs d d' e left Hs).
  pose proof (pack_msg_len rs). lia.
Qed.

(* what the decoder discards: two record lists that agree on info_of give the same Data *)
Lemma apply_record_info r r' d : info_of r = info_of r' -> apply_record d r = apply_record d r'.
Proof.
  destruct r as [v| |a c|p c|ck|x|x|l|ty body], r' as [v'| |a' c'|p' c'|ck'|x'|x'|l'|ty' body']; simpl;
    try reflexivity;
    repeat match goal with
           | |- context [match ?l with _ => _ end] => destruct l
           end; simpl; intros H; try discriminate; try reflexivity; inversion H; reflexivity.
Qed.

Theorem records_projection rs rs' d :
  map info_of rs = map info_of rs' -> fold_left apply_record rs d = fold_left apply_record rs' d.
Proof.
  revert rs' d. induction rs as [|r rs IH]; intros [|r' rs'] d H; simpl in *; try discriminate; auto.
  inversion H as [[H1 H2]]. rewrite (apply_record_info r r' d H1). apply IH. exact H2.
Qed.

(* decode is a left inverse of spelling a Data value as records *)
Lemma fold_cookies cs d : fold_left apply_record (map RCookie cs) d =
  {| kd_algo := kd_algo d; kd_server := kd_server d; kd_port := kd_port d; kd_cookies := kd_cookies d ++ cs |}.
Proof.
  revert d. induction cs as [|c cs IH]; intros d; simpl.
  - rewrite app_nil_r. destruct d; reflexivity.
  - rewrite IH. unfold kd_add_cookie. simpl. rewrite <- app_assoc. reflexivity.
Qed.

Theorem data_roundtrip d d0 rest : kd_wf d -> kd_cookies d0 = [] ->
  read_data_flat (pack_msg (data_records d ++ [REnd]) ++ rest) d0 = (d, 0, rest).
Proof.
  intros (Ha & Hp & Hs & Hsl & Hc) H0.
  rewrite records_roundtrip.
  - unfold data_records. rewrite fold_left_app, fold_cookies. simpl. rewrite H0. destruct d; reflexivity.
  - unfold data_records. rewrite forallb_app. apply andb_true_iff. split.
    + simpl. rewrite (proj2 (bytes_okb_ok _) Hs).
      repeat (apply andb_true_iff; split); try reflexivity; try (apply Z.leb_le; lia); try (apply Z.ltb_lt; lia).
    + rewrite forallb_forall. intros r Hr. apply in_map_iff in Hr as (c & <- & Hin).
      rewrite Forall_forall in Hc. destruct (Hc c Hin) as [Hb Hl]. simpl.
      rewrite (proj2 (bytes_okb_ok _) Hb). apply Z.ltb_lt. exact Hl.
Qed.
