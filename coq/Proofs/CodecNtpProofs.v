(* Proofs about the NTP header codec model. *)
From ST Require Import Base.Ints Base.Bytes Model.CodecNtp.
Open Scope Z_scope.
Ltac Zify.zify_post_hook ::= Z.div_mod_to_equations.

(* ---------- finite sweeps over byte values ---------- *)

Definition all_bytes : list Z := map Z.of_nat (seq 0 256).

Lemma all_bytes_in x : 0 <= x < 256 -> In x all_bytes.
Proof.
  intros H. unfold all_bytes. apply in_map_iff. exists (Z.to_nat x). split; [lia|].
  apply in_seq. lia.
Qed.

Lemma byte_forall (P : Z -> bool) :
  forallb P all_bytes = true -> forall x, 0 <= x < 256 -> P x = true.
Proof. intros H x Hx. rewrite forallb_forall in H. apply H, all_bytes_in, Hx. Qed.

Lemma byte_forall2 (P : Z -> Z -> bool) :
  forallb (fun x => forallb (P x) all_bytes) all_bytes = true ->
  forall x y, 0 <= x < 256 -> 0 <= y < 256 -> P x y = true.
Proof.
  intros H x y Hx Hy. pose proof (byte_forall _ H x Hx) as H1. exact (byte_forall _ H1 y Hy).
Qed.

Lemma zlist_eqb_refl l : zlist_eqb l l = true.
Proof. induction l as [|x l IH]; simpl; auto. rewrite Z.eqb_refl. exact IH. Qed.

Lemma zlist_eqb_eq a b : zlist_eqb a b = true <-> a = b.
Proof.
  revert b. induction a as [|x a IH]; intros [|y b]; simpl; split; intros H; try discriminate; auto.
  - apply andb_true_iff in H as [H1 H2]. apply Z.eqb_eq in H1. apply IH in H2. congruence.
  - inversion H; subst. rewrite Z.eqb_refl. apply IH. reflexivity.
Qed.

(* ---------- encode / decode ---------- *)

Lemma ntp_of_to_list p : ntp_of_list (ntp_to_list p) = p.
Proof. destruct p; reflexivity. Qed.

Lemma ntp_to_of_list l : length l = 17%nat -> ntp_to_list (ntp_of_list l) = l.
Proof.
  intros H. do 17 (destruct l as [|? l]; [discriminate|]). destruct l; [reflexivity|discriminate].
Qed.

Lemma ntp_encode_length p : length (ntp_encode p) = 48%nat.
Proof. unfold ntp_encode. rewrite enc_fields_length; reflexivity. Qed.

Lemma ntp_encode_ok p : bytes_ok (ntp_encode p).
Proof. apply enc_fields_ok. Qed.

Lemma ntp_dec_enc p p0 rest :
  ntp_wf p -> ntp_decode p0 (ntp_encode p ++ rest) = (p, true).
Proof.
  intros Hwf. unfold ntp_decode.
  assert (Hl : (length (ntp_encode p ++ rest) <? ntp_packet_len)%nat = false).
  { apply Nat.ltb_ge. rewrite app_length, ntp_encode_length. unfold ntp_packet_len. lia. }
  rewrite Hl. unfold ntp_encode. rewrite dec_enc_fields by exact Hwf.
  rewrite ntp_of_to_list. reflexivity.
Qed.

Lemma ntp_decode_short p0 b : (length b < 48)%nat -> ntp_decode p0 b = (p0, false).
Proof. intros H. unfold ntp_decode. apply Nat.ltb_lt in H. unfold ntp_packet_len. rewrite H. reflexivity. Qed.

Lemma ntp_layout_widths : Forall (fun k => (0 < fwidth k)%nat) ntp_layout.
Proof. repeat constructor. Qed.

Lemma ntp_enc_dec p0 b :
  bytes_ok b -> (48 <= length b)%nat ->
  exists p, ntp_decode p0 b = (p, true) /\ ntp_encode p = firstn 48 b /\ ntp_wf p.
Proof.
  intros Hok Hlen. exists (ntp_of_list (dec_fields ntp_layout b)).
  unfold ntp_decode. assert (Hl : (length b <? ntp_packet_len)%nat = false)
    by (apply Nat.ltb_ge; unfold ntp_packet_len; lia).
  rewrite Hl. split; [reflexivity|]. unfold ntp_encode, ntp_wf.
  rewrite ntp_to_of_list by (rewrite dec_fields_length; reflexivity).
  split.
  - change 48%nat with (total ntp_layout). apply enc_dec_fields; auto.
  - apply dec_fields_ranges; auto using ntp_layout_widths.
Qed.

(* the first encoded byte is the LVM field *)
Lemma ntp_encode_first p : 0 <= np_lvm p < 256 -> nth 0 (ntp_encode p) 0 = np_lvm p.
Proof.
  intros H. unfold ntp_encode. destruct p; simpl in *.
  rewrite Z.div_1_r. apply Z.mod_small. exact H.
Qed.

(* ---------- accessors ---------- *)

Definition lvm_pkt (x : Z) : ntp_packet := with_lvm (ntp_of_list []) x.

Lemma accessors_with_lvm p x :
  ntp_leap (with_lvm p x) = ntp_leap (lvm_pkt x) /\
  ntp_version (with_lvm p x) = ntp_version (lvm_pkt x) /\
  ntp_mode (with_lvm p x) = ntp_mode (lvm_pkt x).
Proof. repeat split. Qed.

Lemma lvm_fields_byte x : 0 <= x < 256 ->
  ntp_leap (lvm_pkt x) = x / 64 /\ ntp_version (lvm_pkt x) = x / 8 mod 8 /\ ntp_mode (lvm_pkt x) = x mod 8.
Proof.
  intros Hx.
  pose (P := fun x => (ntp_leap (lvm_pkt x) =? x / 64) && (ntp_version (lvm_pkt x) =? x / 8 mod 8)
                      && (ntp_mode (lvm_pkt x) =? x mod 8)).
  assert (Hs : forallb P all_bytes = true) by (vm_compute; reflexivity).
  assert (H : P x = true) by (exact (byte_forall P Hs x Hx)).
  unfold P in H. rewrite !andb_true_iff, !Z.eqb_eq in H. tauto.
Qed.

Lemma ntp_lvm_fields p : 0 <= np_lvm p < 256 ->
  ntp_leap p = np_lvm p / 64 /\ ntp_version p = np_lvm p / 8 mod 8 /\ ntp_mode p = np_lvm p mod 8.
Proof. intros H. exact (lvm_fields_byte (np_lvm p) H). Qed.

Lemma ntp_lvm_agree p : 0 <= np_lvm p < 256 ->
  lvm_agree (np_lvm p) (ntp_leap p) (ntp_version p) (ntp_mode p) = true.
Proof.
  intros H. destruct (ntp_lvm_fields p H) as (-> & -> & ->).
  unfold lvm_agree. rewrite !andb_true_iff, !Z.leb_le, !Z.ltb_lt, Z.eqb_eq. lia.
Qed.

(* setters, by a sweep over all (lvm, argument) byte pairs *)
Definition set_spec (which x a : Z) : bool :=
  let r := if which =? 0 then ntp_set_leap (lvm_pkt x) a
           else if which =? 1 then ntp_set_version (lvm_pkt x) a else ntp_set_mode (lvm_pkt x) a in
  match r with
  | Some q => (0 <=? np_lvm q) && (np_lvm q <? 256) &&
              C14_ntp_set_ok which x a false (ntp_leap q) (ntp_version q) (ntp_mode q)
  | None => C14_ntp_set_ok which x a true (ntp_leap (lvm_pkt x)) (ntp_version (lvm_pkt x)) (ntp_mode (lvm_pkt x))
  end.

Lemma set_sweep0 : forallb (fun x => forallb (set_spec 0 x) all_bytes) all_bytes = true.
Proof. vm_compute. reflexivity. Qed.
Lemma set_sweep1 : forallb (fun x => forallb (set_spec 1 x) all_bytes) all_bytes = true.
Proof. vm_compute. reflexivity. Qed.
Lemma set_sweep2 : forallb (fun x => forallb (set_spec 2 x) all_bytes) all_bytes = true.
Proof. vm_compute. reflexivity. Qed.

Lemma set_spec_all which x a : 0 <= which < 3 -> 0 <= x < 256 -> 0 <= a < 256 -> set_spec which x a = true.
Proof.
  intros Hw Hx Ha.
  assert (Hc : which = 0 \/ which = 1 \/ which = 2) by lia.
  destruct Hc as [-> | [-> | ->]].
  - exact (byte_forall2 (set_spec 0) set_sweep0 x a Hx Ha).
  - exact (byte_forall2 (set_spec 1) set_sweep1 x a Hx Ha).
  - exact (byte_forall2 (set_spec 2) set_sweep2 x a Hx Ha).
Qed.

Definition apply_set (which : Z) (p : ntp_packet) (a : Z) : option ntp_packet :=
  if which =? 0 then ntp_set_leap p a else if which =? 1 then ntp_set_version p a else ntp_set_mode p a.

Lemma apply_set_lvm which p a :
  apply_set which p a = match apply_set which (lvm_pkt (np_lvm p)) a with
                        | Some q => Some (with_lvm p (np_lvm q)) | None => None end.
Proof.
  unfold apply_set, ntp_set_leap, ntp_set_version, ntp_set_mode.
  destruct (which =? 0); [|destruct (which =? 1)];
  match goal with |- context [if ?c then _ else _] => destruct c end; reflexivity.
Qed.

(* a setter changes only its field (and no other header field); it panics exactly
   when the argument does not fit *)
Lemma ntp_setters which p a :
  0 <= which < 3 -> 0 <= np_lvm p < 256 -> 0 <= a < 256 ->
  match apply_set which p a with
  | Some q => 0 <= np_lvm q < 256 /\ q = with_lvm p (np_lvm q) /\
              C14_ntp_set_ok which (np_lvm p) a false (ntp_leap q) (ntp_version q) (ntp_mode q) = true
  | None => C14_ntp_set_ok which (np_lvm p) a true (ntp_leap p) (ntp_version p) (ntp_mode p) = true
  end.
Proof.
  intros Hw Hx Ha. pose proof (set_spec_all which (np_lvm p) a Hw Hx Ha) as H.
  rewrite apply_set_lvm. unfold set_spec in H.
  change (if which =? 0 then ntp_set_leap (lvm_pkt (np_lvm p)) a
          else if which =? 1 then ntp_set_version (lvm_pkt (np_lvm p)) a
          else ntp_set_mode (lvm_pkt (np_lvm p)) a) with (apply_set which (lvm_pkt (np_lvm p)) a) in H.
  destruct (apply_set which (lvm_pkt (np_lvm p)) a) as [q|].
  - rewrite !andb_true_iff, Z.leb_le, Z.ltb_lt in H. destruct H as [[H1 H2] H3].
    split; [simpl; lia|]. split; [reflexivity|]. exact H3.
  - exact H.
Qed.

(* ---------- the oracle accepts the model ---------- *)

Lemma ntp_wf_lvm p : ntp_wf p -> 0 <= np_lvm p < 256.
Proof. unfold ntp_wf. destruct p; simpl. intros H. apply H. Qed.

Lemma ntp_enc_meets_oracle p p0 :
  ntp_wf p ->
  let e := ntp_encode p in
  let d := ntp_decode p0 e in
  C14_ntp_enc_ok (ntp_to_list p) e (snd d) (ntp_to_list (fst d))
    (ntp_leap (fst d)) (ntp_version (fst d)) (ntp_mode (fst d)) = true.
Proof.
  intros Hwf e d.
  assert (Hd : d = (p, true)).
  { unfold d, e. rewrite <- (app_nil_r (ntp_encode p)). apply ntp_dec_enc. exact Hwf. }
  rewrite Hd. unfold e. cbn [fst snd].
  unfold C14_ntp_enc_ok. rewrite ntp_encode_length, zlist_eqb_refl.
  rewrite (proj2 (bytes_okb_ok _) (ntp_encode_ok p)).
  rewrite ntp_encode_first by (apply ntp_wf_lvm; exact Hwf).
  rewrite ntp_lvm_agree by (apply ntp_wf_lvm; exact Hwf). reflexivity.
Qed.

Lemma ntp_dec_meets_oracle p0 b :
  bytes_ok b ->
  let d := ntp_decode p0 b in
  C14_ntp_dec_ok b (snd d) (ntp_encode (fst d))
    (ntp_leap (fst d)) (ntp_version (fst d)) (ntp_mode (fst d)) = true.
Proof.
  intros Hok d. unfold d, C14_ntp_dec_ok.
  destruct (Nat.ltb_spec (length b) 48) as [Hs|Hl].
  - rewrite ntp_decode_short by exact Hs. reflexivity.
  - destruct (ntp_enc_dec p0 b Hok Hl) as (p & Hd & He & Hwf). rewrite Hd. cbn [fst snd].
    rewrite He, zlist_eqb_refl.
    assert (Hb0 : nth 0 b 0 = np_lvm p).
    { rewrite <- (ntp_encode_first p) by (apply ntp_wf_lvm; exact Hwf). rewrite He.
      destruct b; [simpl in Hl; lia | reflexivity]. }
    rewrite Hb0, ntp_lvm_agree by (apply ntp_wf_lvm; exact Hwf). reflexivity.
Qed.
