(* C13 - proofs about Model/ScionGlue.v (server_step, client_run) *)
From Coq Require Import ZArith List Bool Lia.
From ST Require Import Base.Ints Model.ScionGlue Model.ScionGlueOracle.
Import ListNotations.
Open Scope Z_scope.

Lemma bytes_eqb_eq : forall a b, bytes_eqb a b = true <-> a = b.
Proof.
  induction a as [|x a IH]; destruct b as [|y b]; simpl; split; intro H; try congruence; try discriminate.
  - apply andb_true_iff in H. destruct H as [H1 H2]. apply Z.eqb_eq in H1. apply IH in H2. congruence.
  - inversion H; subst. rewrite Z.eqb_refl. simpl. apply IH. reflexivity.
Qed.

Lemma bytes_eqb_refl : forall a, bytes_eqb a a = true.
Proof. intro a. apply bytes_eqb_eq. reflexivity. Qed.

Lemma bytes_eqb_neq : forall a b, a <> b -> bytes_eqb a b = false.
Proof.
  intros a b H. destruct (bytes_eqb a b) eqn:E; [|reflexivity]. apply bytes_eqb_eq in E. contradiction.
Qed.

Ltac dmg := match goal with
  | |- context [match ?x with _ => _ end] => destruct x eqn:?
  end.
Ltac dmh H := match type of H with
  | context [match ?x with _ => _ end] => destruct x eqn:?
  end.

(* "the request carries the packet authenticator of the time service for the
   direction [spi]": the end-to-end extension was decoded directly in front of
   the L4 layer and its first authenticator option is [o], of 28 bytes, with
   that SPI and the algorithm *)
Definition carries (spi : Z) (q : rx) (o : opt) : Prop :=
  3 <= zlen (rx_layers q) /\ second_last_layer (rx_layers q) = LT_E2E /\
  find_opt OPT_AUTH (rx_opts q) = Some o /\ zlen (o_data o) = auth_opt_data_len /\
  opt_spi o = spi /\ opt_algo o = auth_algorithm.

Definition keyreq_of (q : rx) : keyreq :=
  mkKeyreq (h_dst_ia (rx_hdr q)) (h_src_ia (rx_hdr q)) (h_dst_raw (rx_hdr q)) (h_src_raw (rx_hdr q)).

Section Proofs.

Variable mac : bytes -> macin -> bytes.
Variable reverse : Z * bytes -> option (Z * bytes).
Variable fetch_key : keyreq -> option bytes.
Variable ntp_handle : bytes -> bytes.

Notation server_auth := (server_auth mac fetch_key).
Notation server_step := (server_step mac reverse fetch_key ntp_handle).
Notation client_auth := (client_auth mac).
Notation client_check := (client_check mac).
Notation client_run := (client_run mac).

(* ---- the three outcomes of the server-side check ---- *)
Lemma server_auth_bad : forall c q o k,
  s_fetcher c = true -> carries spi_client q o -> fetch_key (keyreq_of q) = Some k ->
  opt_mac o <> mac k (macin_rx o q) -> server_auth c q = AuthBad.
Proof.
  intros c q o k Hf [H1 [H2 [H3 [H4 [H5 H6]]]]] Hk Hm. unfold ScionGlue.server_auth.
  rewrite Hf. apply Z.leb_le in H1. rewrite H1, H2, Z.eqb_refl. simpl. rewrite H3. cbv beta iota.
  rewrite H4, H5, H6, !Z.eqb_refl. simpl.
  unfold keyreq_of in Hk. rewrite Hk. rewrite (bytes_eqb_neq _ _ Hm). rewrite andb_false_r. reflexivity.
Qed.

Lemma server_auth_ok_inv : forall c q k o,
  server_auth c q = AuthOk k o ->
  s_fetcher c = true /\ carries spi_client q o /\ fetch_key (keyreq_of q) = Some k /\
  mac_computable (rx_hdr q) = true /\ opt_mac o = mac k (macin_rx o q).
Proof.
  intros c q k o H. unfold ScionGlue.server_auth in H.
  destruct (s_fetcher c) eqn:Hf; [|discriminate]. simpl in H.
  destruct (3 <=? zlen (rx_layers q)) eqn:H1; [|discriminate]. simpl in H.
  destruct (second_last_layer (rx_layers q) =? LT_E2E) eqn:H2; [|discriminate].
  destruct (find_opt OPT_AUTH (rx_opts q)) as [o'|] eqn:H3; [|discriminate].
  destruct (opt_spi o' =? spi_client) eqn:H5; [|discriminate]. simpl in H.
  destruct (opt_algo o' =? auth_algorithm) eqn:H6; [|discriminate].
  destruct (zlen (o_data o') =? auth_opt_data_len) eqn:H4; [|discriminate].
  destruct (fetch_key _) as [k'|] eqn:Hk; [|discriminate].
  destruct (mac_computable (rx_hdr q)) eqn:Hc; [|discriminate]. simpl in H.
  destruct (bytes_eqb (opt_mac o') (mac k' (macin_rx o' q))) eqn:Hm; [|discriminate].
  inversion H; subst. apply bytes_eqb_eq in Hm.
  apply Z.leb_le in H1. apply Z.eqb_eq in H2, H4, H5, H6.
  unfold carries, keyreq_of. tauto.
Qed.

(* ---- 1. a request whose MAC does not verify is never served ---- *)
Lemma bad_mac_never_served : forall c q oob o k,
  s_fetcher c = true -> carries spi_client q o -> fetch_key (keyreq_of q) = Some k ->
  opt_mac o <> mac k (macin_rx o q) ->
  (exists s d n p, rx_l4 q = Udp s d n p) ->
  forall t, server_step c q oob <> Send ToLastHop t.
Proof.
  intros c q oob o k Hf Hc Hk Hm [s [d [n [p Hl]]]] t.
  pose proof (server_auth_bad c q o k Hf Hc Hk Hm) as Ha.
  unfold ScionGlue.server_step. rewrite Hl, Ha.
  repeat dmg; congruence.
Qed.

(* the same with the reason: a packet addressed to the service is dropped *)
Lemma bad_mac_dropped : forall c q oob o k s n p,
  s_fetcher c = true -> carries spi_client q o -> fetch_key (keyreq_of q) = Some k ->
  opt_mac o <> mac k (macin_rx o q) ->
  rx_l4 q = Udp s (s_local_port c) n p ->
  exists why, server_step c q oob = Drop why.
Proof.
  intros c q oob o k s n p Hf Hc Hk Hm Hl.
  pose proof (server_auth_bad c q o k Hf Hc Hk Hm) as Ha.
  unfold ScionGlue.server_step. rewrite Hl, Ha, Z.eqb_refl. simpl.
  repeat dmg; eauto.
Qed.

(* ---- 2. a response whose MAC does not verify is never accepted ---- *)
Lemma client_auth_bad : forall c q o k,
  c_key c = Some k -> carries spi_server q o -> opt_mac o <> mac k (macin_rx o q) -> client_auth c q = AuthBad.
Proof.
  intros c q o k Hk [H1 [H2 [H3 [H4 [H5 H6]]]]] Hm. unfold ScionGlue.client_auth.
  apply Z.leb_le in H1. rewrite H1, H2, Z.eqb_refl, Hk. simpl. rewrite H3, H4, Z.eqb_refl, H5, H6, !Z.eqb_refl. simpl.
  rewrite (bytes_eqb_neq _ _ Hm), andb_false_r. reflexivity.
Qed.

Lemma client_check_acc_not_bad : forall c q n a,
  client_check c q n = Acc a -> client_auth c q <> AuthBad.
Proof.
  intros c q n a H Hb. unfold ScionGlue.client_check in H. rewrite Hb in H.
  repeat (dmh H; try discriminate).
Qed.

(* acceptance is decided by client_check on the accepted datagram; its index is
   0 or 1 past the start: at most one datagram is skipped *)
Lemma client_run_accept : forall c rs retried i j a,
  client_run c retried i rs = CAccept j a ->
  exists q n, nth_error rs (j - i) = Some (q, n) /\ client_check c q n = Acc a /\
    (i <= j)%nat /\ (j <= i + 1)%nat /\ (retried = true -> j = i).
Proof.
  intros c rs. induction rs as [|[q n] rest IH]; intros retried i j a H; simpl in H; [discriminate|].
  destruct (client_check c q n) eqn:Hc.
  - destruct retried; [discriminate|].
    apply IH in H. destruct H as [q' [n' [Hn [Hk [Hle [Hle2 Hr]]]]]].
    specialize (Hr eq_refl). subst j.
    exists q', n'. replace (S i - i)%nat with 1%nat by lia. simpl.
    replace (S i - S i)%nat with 0%nat in Hn by lia. simpl in Hn.
    repeat split; try assumption; try lia.
  - discriminate.
  - inversion H; subst. exists q, n. replace (j - j)%nat with 0%nat by lia. simpl.
    repeat split; try assumption; try lia.
Qed.

Lemma bad_mac_never_accepted : forall c rs retried i j a,
  client_run c retried i rs = CAccept j a ->
  exists q n, nth_error rs (j - i) = Some (q, n) /\
    forall k o, c_key c = Some k -> carries spi_server q o -> opt_mac o = mac k (macin_rx o q).
Proof.
  intros c rs retried i j a H.
  destruct (client_run_accept c rs retried i j a H) as [q [n [Hn [Hc _]]]].
  exists q, n. split; [assumption|]. intros k o Hk Hcar.
  destruct (list_eq_dec Z.eq_dec (opt_mac o) (mac k (macin_rx o q))) as [E|E]; [assumption|].
  exfalso. exact (client_check_acc_not_bad c q n a Hc (client_auth_bad c q o k Hk Hcar E)).
Qed.

(* the second failing datagram ends the exchange: nothing after it is looked at *)
Lemma client_run_two_failures : forall c q1 n1 q2 n2 rest i cls1 cls2,
  client_check c q1 n1 = Retry cls1 -> client_check c q2 n2 = Retry cls2 ->
  client_run c false i ((q1, n1) :: (q2, n2) :: rest) = CErr (S i) cls2.
Proof. intros. simpl. rewrite H. simpl. rewrite H0. reflexivity. Qed.

(* ---- 4. reply addressing ---- *)
Definition swapped (h g : hdr) : Prop :=
  h_dst_ia g = h_src_ia h /\ h_src_ia g = h_dst_ia h /\
    h_dst_type g = h_src_type h /\ h_src_type g = h_dst_type h /\
    h_dst_raw g = h_src_raw h /\ h_src_raw g = h_dst_raw h /\ h_flow g = h_flow h.

Definition unchanged (h g : hdr) : Prop :=
  h_dst_ia g = h_dst_ia h /\ h_src_ia g = h_src_ia h /\
    h_dst_type g = h_dst_type h /\ h_src_type g = h_src_type h /\
    h_dst_raw g = h_dst_raw h /\ h_src_raw g = h_src_raw h /\
    h_path_type g = h_path_type h /\ h_path g = h_path h /\ h_tc g = h_tc h /\ h_flow g = h_flow h.

Lemma reply_addressing : forall c q oob t,
  server_step c q oob = Send ToLastHop t ->
  swapped (rx_hdr q) (tx_hdr t) /\
    reverse (h_path_type (rx_hdr q), h_path (rx_hdr q)) = Some (h_path_type (tx_hdr t), h_path (tx_hdr t)) /\
    ((exists s d n p, rx_l4 q = Udp s d n p /\ d = s_local_port c /\
    tx_l4 t = Udp d s (8 + zlen (ntp_handle p)) (ntp_handle p)) \/
   (exists ty code p rt, rx_l4 q = Scmp ty code p /\ scmp_reply_type ty = Some rt /\ tx_l4 t = Scmp rt 0 p /\ tx_e2e t = None)).
Proof.
  intros c q oob t H. unfold ScionGlue.server_step in H.
  repeat (dmh H; try discriminate); inversion H; subst; clear H; simpl;
  unfold swapped; simpl;
  (split; [tauto|]); (split; [reflexivity|]);
  try (right; do 4 eexists; repeat split; eauto; fail);
  left; do 4 eexists; (split; [reflexivity|]);
  match goal with Hd : negb (?d =? s_local_port c) = false |- _ =>
    apply negb_false_iff in Hd; apply Z.eqb_eq in Hd end; subst; split; reflexivity.
Qed.

(* everything the listener sends is a reply to the previous hop or a forward to
   the addressed end host *)
Lemma send_is_reply_or_forward : forall c q oob d t,
  server_step c q oob = Send d t ->
  d = ToLastHop \/ exists s dp n p, rx_l4 q = Udp s dp n p /\ d = ToHostPort (h_dst_raw (rx_hdr q)) dp.
Proof.
  intros c q oob d t H. unfold ScionGlue.server_step in H.
  repeat (dmh H; try discriminate); inversion H; subst; auto.
  right. do 4 eexists. split; reflexivity.
Qed.

(* ---- 5. forwarding ---- *)
Definition forward_cond (c : scfg) (q : rx) (s dp n : Z) (p : bytes) : Prop :=
  rx_ok q = true /\ valid_type (rx_layers q) = true /\ last_layer (rx_layers q) = LT_UDP /\
    rx_l4 q = Udp s dp n p /\ n <= rx_buflen q /\
    host_ok (h_src_raw (rx_hdr q)) = true /\ host_ok (h_dst_raw (rx_hdr q)) = true /\
    dp <> s_local_port c /\ s_conn_port c = endhost_port /\ dp <> endhost_port.

Lemma forward_iff : forall c q oob host port t,
  server_step c q oob = Send (ToHostPort host port) t <->
  exists s n p, forward_cond c q s port n p /\ host = h_dst_raw (rx_hdr q) /\ t = forward_tx q oob.
Proof.
  intros c q oob host port t. split.
  - intro H. unfold ScionGlue.server_step in H.
    repeat (dmh H; try discriminate); inversion H; subst; clear H.
    do 3 eexists. unfold forward_cond.
    repeat match goal with
    | Hx : negb _ = false |- _ => apply negb_false_iff in Hx
    | Hx : negb _ = true |- _ => apply negb_true_iff in Hx
    | Hx : _ || _ = false |- _ => apply orb_false_iff in Hx; destruct Hx
    | Hx : (_ =? _) = true |- _ => apply Z.eqb_eq in Hx
    | Hx : (_ =? _) = false |- _ => apply Z.eqb_neq in Hx
    | Hx : (_ <? _) = false |- _ => apply Z.ltb_ge in Hx
    end.
    repeat split; eauto.
  - intros [s [n [p [[H1 [H2 [H3 [H4 [H5 [H6 [H7 [H8 [H9 H10]]]]]]]]] [Hh Ht]]]]]. subst host t.
    unfold ScionGlue.server_step. rewrite H1, H2, H4, H3, H6, H7.
    apply Z.ltb_ge in H5. apply Z.eqb_neq in H8, H10. rewrite H5, H8, H10, H9.
    reflexivity.
Qed.

Lemma forward_payload_unchanged : forall q oob,
  tx_l4 (forward_tx q oob) = rx_l4 q /\ unchanged (rx_hdr q) (tx_hdr (forward_tx q oob)).
Proof. intros. unfold forward_tx, unchanged. simpl. tauto. Qed.

Lemma forward_extensions : forall q oob,
  let ts := mkOpt OPT_TIMESTAMP oob in
  let t := forward_tx q oob in
  (h_next (rx_hdr q) = E2E_CLASS ->
     h_next (tx_hdr t) = E2E_CLASS /\
     tx_e2e t = Some (rx_opts q ++ (if zlen oob =? 0 then [] else [ts]))) /\
  (h_next (rx_hdr q) <> E2E_CLASS ->
     (zlen oob = 0 -> tx_e2e t = None /\ h_next (tx_hdr t) = L4_UDP) /\
     (zlen oob <> 0 -> tx_e2e t = Some [ts] /\ h_next (tx_hdr t) = E2E_CLASS)).
Proof.
  intros q oob ts t. unfold t, forward_tx. split.
  - intro H. rewrite H. change (E2E_CLASS =? E2E_CLASS) with true. rewrite orb_true_r.
    cbn [tx_hdr tx_e2e set_next h_next]. change (E2E_CLASS =? E2E_CLASS) with true. cbv beta iota.
    destruct (zlen oob =? 0); cbn [negb]; split; reflexivity.
  - intro H. apply Z.eqb_neq in H. rewrite H. split; intro Hz.
    + rewrite Hz. cbn [negb Z.eqb orb tx_hdr tx_e2e set_next h_next]. change (L4_UDP =? E2E_CLASS) with false. split; reflexivity.
    + apply Z.eqb_neq in Hz. rewrite Hz. cbn [negb orb tx_hdr tx_e2e set_next h_next]. change (E2E_CLASS =? E2E_CLASS) with true. split; reflexivity.
Qed.

(* ---- 3. the reply to a verified request verifies at the requesting client ---- *)
Definition reply_hdr (c : scfg) (h : hdr) (pt : Z) (pp : bytes) : hdr :=
  swap_hdr h pt pp (u8 (Z.shiftl (s_dscp c) 2)) L4_UDP.

Definition reply_l4 (c : scfg) (s : Z) (p : bytes) : l4 :=
  Udp (s_local_port c) s (8 + zlen (ntp_handle p)) (ntp_handle p).

Lemma auth_reply_form : forall c q oob k o s n p t,
  server_auth c q = AuthOk k o -> rx_l4 q = Udp s (s_local_port c) n p ->
  server_step c q oob = Send ToLastHop t ->
  exists pt pp, reverse (h_path_type (rx_hdr q), h_path (rx_hdr q)) = Some (pt, pp) /\
    host_ok (h_src_raw (rx_hdr q)) = true /\ host_ok (h_dst_raw (rx_hdr q)) = true /\
    t = mkTx (set_next (reply_hdr c (rx_hdr q) pt pp) E2E_CLASS)
             (Some [mkOpt OPT_AUTH (meta_bytes spi_server auth_algorithm ++
                      mac k (macin_of spi_server auth_algorithm [0;0;0;0;0;0] (reply_hdr c (rx_hdr q) pt pp) L4_UDP (reply_l4 c s p)))])
             (reply_l4 c s p).
Proof.
  intros c q oob k o s n p t Ha Hl H. unfold ScionGlue.server_step in H. rewrite Hl, Ha in H.
  repeat (dmh H; try discriminate); inversion H; subst; clear H.
  do 2 eexists. repeat split; try reflexivity.
  - match goal with Hx : negb (host_ok (h_src_raw _)) = false |- _ => apply negb_false_iff in Hx; exact Hx end.
  - match goal with Hx : negb (host_ok (h_dst_raw _)) = false |- _ => apply negb_false_iff in Hx; exact Hx end.
Qed.

Lemma same_ip_refl : forall x, host_ok x = true -> same_ip x x = true.
Proof. intros x H. unfold same_ip. rewrite H, bytes_eqb_refl. reflexivity. Qed.

Lemma reply_auth_roundtrip : forall c q oob k o s n p t,
  (forall k m, zlen (mac k m) = 16) ->                      (* a CMAC tag has 16 bytes *)
  (forall pt pp, reverse (h_path_type (rx_hdr q), h_path (rx_hdr q)) = Some (pt, pp) -> pt < 4) ->
                                                            (* Path.Reverse yields a registered path type *)
  ip_type (h_src_type (rx_hdr q)) = true -> ip_type (h_dst_type (rx_hdr q)) = true ->
                                                            (* the request names IP hosts, as the client's requests do *)
  server_auth c q = AuthOk k o -> rx_l4 q = Udp s (s_local_port c) n p ->
  server_step c q oob = Send ToLastHop t ->
  let h := rx_hdr q in
  let cc := mkCcfg (Some k) (h_src_ia h) (h_src_raw h) (h_dst_ia h) (h_dst_raw h) true in
  forall nok, exists o',
    carries spi_server (deliver t nok) o' /\
    opt_mac o' = mac k (macin_rx o' (deliver t nok)) /\
    client_auth cc (deliver t nok) = AuthOk k o' /\
    client_check cc (deliver t nok) 0 = Acc true.
Proof.
  intros c q oob k o s n p t Hlen Hrev Hts Htd Ha Hl H h cc nok.
  destruct (auth_reply_form c q oob k o s n p t Ha Hl H) as [pt [pp [Hr [Hs [Hd Ht]]]]].
  specialize (Hrev pt pp Hr).
  set (rh := reply_hdr c (rx_hdr q) pt pp) in *.
  set (rl := reply_l4 c s p) in *.
  set (tag := mac k (macin_of spi_server auth_algorithm [0;0;0;0;0;0] rh L4_UDP rl)) in *.
  set (o' := mkOpt OPT_AUTH (meta_bytes spi_server auth_algorithm ++ tag)).
  assert (Hlo : zlen (o_data o') = auth_opt_data_len).
  { unfold o'. cbn [o_data]. unfold zlen. rewrite app_length, Nat2Z.inj_add.
    change (Z.of_nat (length tag)) with (zlen tag). unfold tag. rewrite (Hlen k _). reflexivity. }
  assert (Hmacin : macin_rx o' (deliver t nok) = macin_of spi_server auth_algorithm [0;0;0;0;0;0] rh L4_UDP rl).
  { subst t. reflexivity. }
  assert (Hmac : opt_mac o' = tag) by reflexivity.
  assert (Hcar : carries spi_server (deliver t nok) o').
  { subst t. unfold carries. simpl. repeat split; try reflexivity; try assumption. }
  assert (HL : rx_layers (deliver t nok) = [LT_SCION; LT_E2E; LT_UDP]) by (subst t; reflexivity).
  assert (HO : rx_opts (deliver t nok) = [o']) by (subst t; reflexivity).
  assert (HH : rx_hdr (deliver t nok) = set_next rh E2E_CLASS) by (subst t; reflexivity).
  assert (HL4 : rx_l4 (deliver t nok) = rl) by (subst t; reflexivity).
  assert (HB : rx_buflen (deliver t nok) = 8 + zlen (ntp_handle p) + 1020) by (subst t; reflexivity).
  assert (HK : rx_ok (deliver t nok) = true) by reflexivity.
  assert (Hca : client_auth cc (deliver t nok) = AuthOk k o').
  { unfold ScionGlue.client_auth. rewrite HL, HO, HH.
    change (3 <=? zlen [LT_SCION; LT_E2E; LT_UDP]) with true.
    change (second_last_layer [LT_SCION; LT_E2E; LT_UDP] =? LT_E2E) with true.
    change (c_key cc) with (Some k). cbn [andb].
    change (find_opt OPT_AUTH [o']) with (Some o'). cbv beta iota.
    rewrite Hlo, Z.eqb_refl.
    change (opt_spi o' =? spi_server) with true.
    change (opt_algo o' =? auth_algorithm) with true. cbn [andb].
    rewrite Hmacin. fold tag. rewrite Hmac, bytes_eqb_refl.
    change (mac_computable (set_next rh E2E_CLASS)) with (pt <? 4).
    apply Z.ltb_lt in Hrev. rewrite Hrev. reflexivity. }
  exists o'. split; [exact Hcar|]. split; [rewrite Hmacin; exact Hmac|]. split; [exact Hca|].
  unfold ScionGlue.client_check. rewrite Hca, HK, HL, HL4, HB, HH.
  change (valid_type [LT_SCION; LT_E2E; LT_UDP]) with true.
  change (last_layer [LT_SCION; LT_E2E; LT_UDP] =? LT_SCMP) with false.
  unfold rl, reply_l4. cbn [negb].
  replace (8 + zlen (ntp_handle p) + 1020 <? 8 + zlen (ntp_handle p)) with false by (symmetry; apply Z.ltb_ge; lia).
  unfold rh, reply_hdr, cc, h. cbn [set_next swap_hdr h_src_ia h_dst_ia h_src_type h_dst_type h_src_raw h_dst_raw c_remote_ia c_remote_host c_local_ia c_local_host].
  rewrite !Z.eqb_refl, Hts, Htd, (same_ip_refl _ Hs), (same_ip_refl _ Hd). reflexivity.
Qed.

(* ---- 6. ideal MAC: a datagram that differs from the authenticated one in any
        covered field is rejected ---- *)
Section Ideal.
Hypothesis mac_inj : forall k a b, mac k a = mac k b -> a = b.

Lemma covered_mutation_dropped : forall c q oob o k m0 s n p,
  s_fetcher c = true -> carries spi_client q o -> fetch_key (keyreq_of q) = Some k ->
  opt_mac o = mac k m0 ->                 (* the tag was made for the MAC input m0 *)
  macin_rx o q <> m0 ->                   (* the datagram received differs in a covered field *)
  rx_l4 q = Udp s (s_local_port c) n p ->
  exists why, server_step c q oob = Drop why.
Proof.
  intros c q oob o k m0 s n p Hf Hc Hk Ht Hne Hl.
  apply (bad_mac_dropped c q oob o k s n p Hf Hc Hk); [|exact Hl].
  rewrite Ht. intro E. apply mac_inj in E. congruence.
Qed.

Lemma covered_mutation_not_accepted : forall c q n o k m0,
  c_key c = Some k -> carries spi_server q o -> opt_mac o = mac k m0 -> macin_rx o q <> m0 ->
  forall a, client_check c q n <> Acc a.
Proof.
  intros c q n o k m0 Hk Hc Ht Hne a H.
  apply (client_check_acc_not_bad c q n a H).
  apply (client_auth_bad c q o k Hk Hc). rewrite Ht. intro E. apply mac_inj in E. congruence.
Qed.
End Ideal.

End Proofs.

(* ---- the ideal-MAC hypothesis is consistent: an injective MAC exists ---- *)
Definition enc_macin (m : macin) : bytes :=
  [mi_spi m; mi_algo m; mi_tc m; mi_flow m; mi_path_type m; mi_dst_type m; mi_src_type m;
   mi_pld_type m; mi_src_port m; mi_dst_port m; mi_len m; zlen (mi_tssn m); zlen (mi_path m)]
  ++ mi_tssn m ++ mi_path m ++ mi_payload m.

Lemma app_inj_len : forall (a a' x x' : bytes), length a = length a' -> a ++ x = a' ++ x' -> a = a' /\ x = x'.
Proof.
  induction a as [|y a IH]; destruct a' as [|y' a']; simpl; intros x x' Hl H; try discriminate.
  - auto.
  - inversion H; subst. inversion Hl. destruct (IH a' x x' H1 H2). subst. auto.
Qed.

Lemma enc_macin_inj : forall a b, enc_macin a = enc_macin b -> a = b.
Proof.
  intros a b H. unfold enc_macin in H. simpl in H.
  inversion H as [[E1 E2 E3 E4 E5 E6 E7 E8 E9 E10 E11 E12 E13 E14]]. clear H.
  unfold zlen in E12, E13. apply Nat2Z.inj in E12, E13.
  destruct (app_inj_len _ _ _ _ E12 E14) as [T1 E15].
  destruct (app_inj_len _ _ _ _ E13 E15) as [T2 T3].
  destruct a, b; simpl in *; subst; reflexivity.
Qed.

Definition ideal_mac (k : bytes) (m : macin) : bytes := zlen k :: k ++ enc_macin m.

Lemma ideal_mac_inj : forall k a b, ideal_mac k a = ideal_mac k b -> a = b.
Proof.
  intros k a b H. unfold ideal_mac in H. inversion H as [E].
  apply app_inv_head in E. apply enc_macin_inj. exact E.
Qed.

(* ---- the client oracle holds for the model on all inputs ---- *)
(* the MAC the harness recomputes for a datagram: for its first authenticator option *)
Definition recomputed_mac (mac : bytes -> macin -> bytes) (k : bytes) (q : rx) : bytes :=
  match find_opt OPT_AUTH (rx_opts q) with Some o => mac k (macin_rx o q) | None => [] end.

(* slayers decodes extension headers in the fixed order hop-by-hop, end-to-end, L4 *)
Definition wf_layers (q : rx) : Prop :=
  existsb (fun l => l =? LT_E2E) (rx_layers q) = true ->
  3 <= zlen (rx_layers q) /\ second_last_layer (rx_layers q) = LT_E2E.

Definition accepted_of (r : cres) : option nat := match r with CAccept j _ => Some j | _ => None end.

Lemma carries_auth_carries : forall spi q o, wf_layers q -> carries_auth spi q = Some o -> carries spi q o.
Proof.
  intros spi q o Hwf H. unfold carries_auth in H.
  destruct (rx_ok q); [|discriminate]. simpl in H.
  destruct (existsb _ (rx_layers q)) eqn:He; [|discriminate].
  destruct (find_opt OPT_AUTH (rx_opts q)) as [o'|] eqn:Hf; [|discriminate].
  destruct (zlen (o_data o') =? auth_opt_data_len) eqn:H1; [|discriminate]. simpl in H.
  destruct (opt_spi o' =? spi) eqn:H2; [|discriminate]. simpl in H.
  destruct (opt_algo o' =? auth_algorithm) eqn:H3; [|discriminate].
  inversion H; subst. destruct (Hwf He) as [Ha Hb].
  apply Z.eqb_eq in H1, H2, H3. unfold carries. tauto.
Qed.

Lemma cli_response_clause : forall mac c k rs (auth : bool),
  c_key c = (if auth then Some k else None) ->
  Forall (fun r => wf_layers (fst r)) rs ->
  match accepted_of (client_run mac c false 0 rs) with
  | Some i =>
      match nth_error (map (fun r => (fst r, recomputed_mac mac k (fst r))) rs) i with
      | Some (q, m) =>
          match carries_auth spi_server q with
          | Some a => if auth then bytes_eqb m (opt_mac a) else true
          | None => true
          end
      | None => false
      end
  | None => true
  end = true.
Proof.
  intros mac c k rs auth Hk Hwf.
  destruct (client_run mac c false 0 rs) as [j a| |] eqn:Hr; simpl; try reflexivity.
  destruct (bad_mac_never_accepted mac c rs false 0%nat j a Hr) as [q [n [Hn Hp]]].
  replace (j - 0)%nat with j in Hn by lia.
  rewrite nth_error_map, Hn. simpl.
  destruct (carries_auth spi_server q) as [o|] eqn:Hc; [|reflexivity].
  destruct auth; [|reflexivity].
  assert (Hw : wf_layers q).
  { rewrite Forall_forall in Hwf. apply nth_error_In in Hn. exact (Hwf _ Hn). }
  pose proof (carries_auth_carries _ _ _ Hw Hc) as Hcar.
  rewrite (Hp k o Hk Hcar). unfold recomputed_mac.
  destruct Hcar as [_ [_ [Hf _]]]. rewrite Hf. apply bytes_eqb_refl.
Qed.

(* the request of the model client passes the request clause of the oracle *)
Lemma cli_request_clause : forall mac c k h sp dp pl (auth : bool),
  (forall k m, zlen (mac k m) = 16) ->
  c_key c = (if auth then Some k else None) ->
  let req := deliver (client_request mac c h sp dp pl) true in
  (if auth then
     match carries_auth spi_client req with
     | Some a => bytes_eqb (recomputed_mac mac k req) (opt_mac a) && (zlen (recomputed_mac mac k req) =? 16)
     | None => false
     end
   else match carries_auth spi_client req with Some _ => false | None => true end) = true.
Proof.
  intros mac c k h sp dp pl auth Hlen Hk req. unfold req, client_request. rewrite Hk.
  destruct auth; [|reflexivity].
  set (h0 := set_next h L4_UDP).
  set (l := Udp sp dp (8 + zlen pl) pl).
  set (tag := mac k (macin_of spi_client auth_algorithm [0;0;0;0;0;0] h0 (h_next h0) l)).
  set (o := mkOpt OPT_AUTH (meta_bytes spi_client auth_algorithm ++ tag)).
  assert (Hlo : zlen (o_data o) = auth_opt_data_len).
  { unfold o. cbn [o_data]. unfold zlen. rewrite app_length, Nat2Z.inj_add.
    change (Z.of_nat (length tag)) with (zlen tag). unfold tag. rewrite (Hlen k _). reflexivity. }
  unfold carries_auth.
  change (rx_ok (deliver (mkTx (set_next h0 E2E_CLASS) (Some [o]) l) true)) with true.
  change (rx_layers (deliver (mkTx (set_next h0 E2E_CLASS) (Some [o]) l) true)) with [LT_SCION; LT_E2E; LT_UDP].
  change (existsb (fun l0 => l0 =? LT_E2E) [LT_SCION; LT_E2E; LT_UDP]) with true.
  change (rx_opts (deliver (mkTx (set_next h0 E2E_CLASS) (Some [o]) l) true)) with [o].
  cbn [andb]. change (find_opt OPT_AUTH [o]) with (Some o). cbv beta iota.
  rewrite Hlo, Z.eqb_refl.
  change (opt_spi o =? spi_client) with true. change (opt_algo o =? auth_algorithm) with true. cbn [andb].
  unfold recomputed_mac.
  change (rx_opts (deliver (mkTx (set_next h0 E2E_CLASS) (Some [o]) l) true)) with [o].
  change (find_opt OPT_AUTH [o]) with (Some o). cbv beta iota.
  change (macin_rx o (deliver (mkTx (set_next h0 E2E_CLASS) (Some [o]) l) true))
    with (macin_of spi_client auth_algorithm [0;0;0;0;0;0] h0 (h_next h0) l).
  fold tag. change (opt_mac o) with tag. rewrite bytes_eqb_refl. unfold tag. rewrite (Hlen k _). reflexivity.
Qed.

Lemma cli_oracle_on_model : forall mac c k h sp dp pl rs (auth : bool),
  (forall k m, zlen (mac k m) = 16) ->
  c_key c = (if auth then Some k else None) ->
  Forall (fun r => wf_layers (fst r)) rs ->
  let req := deliver (client_request mac c h sp dp pl) true in
  C13_cli_ok auth req (recomputed_mac mac k req)
    (map (fun r => (fst r, recomputed_mac mac k (fst r))) rs)
    (accepted_of (client_run mac c false 0 rs)) = true.
Proof.
  intros mac c k h sp dp pl rs auth Hlen Hk Hwf req. subst req. unfold C13_cli_ok.
  pose proof (cli_request_clause mac c k h sp dp pl auth Hlen Hk) as H1. cbv zeta in H1.
  pose proof (cli_response_clause mac c k rs auth Hk Hwf) as H2.
  rewrite H1. cbn [andb]. exact H2.
Qed.

(* ---- an accepted response comes from the queried host ---- *)
Lemma client_check_acc_addr : forall mac c q n a,
  client_check mac c q n = Acc a ->
  from_queried (c_local_ia c) (c_local_host c) (c_remote_ia c) (c_remote_host c) q = true.
Proof.
  intros mac c q n a H. unfold ScionGlue.client_check in H.
  destruct (negb (rx_ok q)); [discriminate|].
  destruct (negb (valid_type (rx_layers q))); [discriminate|].
  destruct (last_layer (rx_layers q) =? LT_SCMP); [discriminate|].
  destruct (rx_l4 q) as [s d len p| |]; try discriminate.
  destruct (rx_buflen q <? len); [discriminate|].
  match type of H with (if negb ?b then _ else _) = _ => destruct b eqn:Hb; [|discriminate] end.
  unfold from_queried. unfold ip_type in Hb. exact Hb.
Qed.

Lemma cli_from_queried_on_model : forall mac c rs macs,
  length macs = length rs ->
  C13_cli_from_queried_ok (c_local_ia c) (c_local_host c) (c_remote_ia c) (c_remote_host c)
    (combine (map fst rs) macs) (accepted_of (client_run mac c false 0 rs)) = true.
Proof.
  intros mac c rs macs Hlen.
  destruct (client_run mac c false 0 rs) as [j a| |] eqn:Hr; try reflexivity. cbn [accepted_of C13_cli_from_queried_ok].
  destruct (client_run_accept mac c rs false 0%nat j a Hr) as [q [n [Hn [Hc _]]]].
  replace (j - 0)%nat with j in Hn by lia.
  assert (Hm : exists m, nth_error (combine (map fst rs) macs) j = Some (q, m)).
  { clear Hr Hc. revert j macs Hlen Hn. induction rs as [|[q0 n0] rs IH]; intros [|j] [|m macs] Hlen Hn; simpl in *; try discriminate.
    - inversion Hn; subst. eexists; reflexivity.
    - apply IH; [lia|exact Hn]. }
  destruct Hm as [m Hm]. rewrite Hm. exact (client_check_acc_addr mac c q n a Hc).
Qed.

(* ---- the client without a key skips responses that carry the server's authenticator ---- *)
Lemma client_auth_nokey_bad : forall mac c q o,
  c_key c = None -> c_auth c = true -> carries spi_server q o -> client_auth mac c q = AuthBad.
Proof.
  intros mac c q o Hk Ha [H1 [H2 [H3 [H4 [H5 H6]]]]]. unfold ScionGlue.client_auth.
  apply Z.leb_le in H1. rewrite H1, H2, Z.eqb_refl, Hk, Ha. simpl. rewrite H3. cbv beta iota.
  rewrite H4, H5, H6, !Z.eqb_refl. reflexivity.
Qed.

Lemma cli_nokey_on_model : forall mac c rs macs,
  c_key c = None -> c_auth c = true -> length macs = length rs ->
  Forall (fun r => wf_layers (fst r)) rs ->
  C13_cli_nokey_ok true false (combine (map fst rs) macs) (accepted_of (client_run mac c false 0 rs)) = true.
Proof.
  intros mac c rs macs Hk Ha Hlen Hwf. unfold C13_cli_nokey_ok. cbn [andb negb].
  destruct (client_run mac c false 0 rs) as [j a| |] eqn:Hr; try reflexivity. cbn [accepted_of].
  destruct (client_run_accept mac c rs false 0%nat j a Hr) as [q [n [Hn [Hc _]]]].
  replace (j - 0)%nat with j in Hn by lia.
  assert (Hm : exists m, nth_error (combine (map fst rs) macs) j = Some (q, m)).
  { clear Hr Hc Hwf. revert j macs Hlen Hn. induction rs as [|[q0 n0] rs IH]; intros [|j] [|m macs] Hlen Hn; simpl in *; try discriminate.
    - inversion Hn; subst. eexists; reflexivity.
    - apply IH; [lia|exact Hn]. }
  destruct Hm as [m Hm]. rewrite Hm.
  destruct (carries_auth spi_server q) as [o|] eqn:Hca; [|reflexivity]. exfalso.
  assert (Hw : wf_layers q).
  { rewrite Forall_forall in Hwf. apply nth_error_In in Hn. exact (Hwf _ Hn). }
  exact (client_check_acc_not_bad mac c q n a Hc (client_auth_nokey_bad mac c q o Hk Ha (carries_auth_carries _ _ _ Hw Hca))).
Qed.

(* ---- the server oracle holds for the model on all inputs ---- *)
(* what the harness sockets see of one listener step: nothing for a drop; the
   reply, serialised and re-parsed, at the socket the request came from (the
   previous hop); a forwarded packet at the harness socket bound to the
   addressed (host, port), if there is one.  Each with the MAC recomputed under
   the host-host key for its first authenticator option. *)
Definition srv_obs (mac : bytes -> macin -> bytes) (socks : list (bytes * Z)) (sender : Z) (k : bytes)
    (nok : bool) (a : action) : list sobs :=
  match a with
  | Drop _ => []
  | Send ToLastHop t => [mkSobs sender (deliver t nok) (recomputed_mac mac k (deliver t nok))]
  | Send (ToHostPort host port) t =>
      match sock_index socks host port 0 with
      | Some i => [mkSobs i (deliver t nok) (recomputed_mac mac k (deliver t nok))]
      | None => []
      end
  end.

Section SrvOracle.

Variable mac : bytes -> macin -> bytes.
Variable reverse : Z * bytes -> option (Z * bytes).
Variable fetch_key : keyreq -> option bytes.
Variable ntp_handle : bytes -> bytes.

Notation server_auth := (server_auth mac fetch_key).
Notation server_step := (server_step mac reverse fetch_key ntp_handle).

Lemma server_auth_decided : forall c q o k,
  s_fetcher c = true -> carries spi_client q o -> fetch_key (keyreq_of q) = Some k ->
  server_auth c q =
    if mac_computable (rx_hdr q) && bytes_eqb (opt_mac o) (mac k (macin_rx o q)) then AuthOk k o else AuthBad.
Proof.
  intros c q o k Hf [H1 [H2 [H3 [H4 [H5 H6]]]]] Hk. unfold ScionGlue.server_auth.
  rewrite Hf. apply Z.leb_le in H1. rewrite H1, H2, Z.eqb_refl. simpl. rewrite H3. cbv beta iota.
  rewrite H4, H5, H6, !Z.eqb_refl. simpl.
  unfold keyreq_of in Hk. rewrite Hk. reflexivity.
Qed.

(* an authenticator of the time service (client SPI, algorithm) directly in front of the L4 layer
   whose data does not have 28 bytes, or for which no key is to be had, is a failed authentication *)
Definition claims (spi : Z) (q : rx) (o : opt) : Prop :=
  3 <= zlen (rx_layers q) /\ second_last_layer (rx_layers q) = LT_E2E /\
  find_opt OPT_AUTH (rx_opts q) = Some o /\ opt_spi o = spi /\ opt_algo o = auth_algorithm.

Lemma server_auth_wrong_length : forall c q o,
  s_fetcher c = true -> claims spi_client q o -> zlen (o_data o) <> auth_opt_data_len -> server_auth c q = AuthBad.
Proof.
  intros c q o Hf [H1 [H2 [H3 [H5 H6]]]] Hl. unfold ScionGlue.server_auth.
  rewrite Hf. apply Z.leb_le in H1. rewrite H1, H2, Z.eqb_refl. simpl. rewrite H3. cbv beta iota.
  rewrite H5, H6, !Z.eqb_refl. simpl. apply Z.eqb_neq in Hl. rewrite Hl. reflexivity.
Qed.

Lemma server_auth_no_key : forall c q o,
  s_fetcher c = true -> carries spi_client q o -> fetch_key (keyreq_of q) = None -> server_auth c q = AuthBad.
Proof.
  intros c q o Hf [H1 [H2 [H3 [H4 [H5 H6]]]]] Hk. unfold ScionGlue.server_auth.
  rewrite Hf. apply Z.leb_le in H1. rewrite H1, H2, Z.eqb_refl. simpl. rewrite H3. cbv beta iota.
  rewrite H4, H5, H6, !Z.eqb_refl. simpl. unfold keyreq_of in Hk. rewrite Hk. reflexivity.
Qed.

Lemma auth_bad_dropped : forall c q oob s n p,
  server_auth c q = AuthBad -> rx_l4 q = Udp s (s_local_port c) n p ->
  exists why, server_step c q oob = Drop why.
Proof.
  intros c q oob s n p Ha Hl.
  unfold ScionGlue.server_step. rewrite Hl, Ha, Z.eqb_refl. simpl.
  repeat dmg; eauto.
Qed.

Lemma wrong_length_dropped : forall c q oob o s n p,
  s_fetcher c = true -> claims spi_client q o -> zlen (o_data o) <> auth_opt_data_len ->
  rx_l4 q = Udp s (s_local_port c) n p -> exists why, server_step c q oob = Drop why.
Proof. intros c q oob o s n p Hf Hc Hl Hu. exact (auth_bad_dropped c q oob s n p (server_auth_wrong_length c q o Hf Hc Hl) Hu). Qed.

Lemma no_key_dropped : forall c q oob o s n p,
  s_fetcher c = true -> carries spi_client q o -> fetch_key (keyreq_of q) = None ->
  rx_l4 q = Udp s (s_local_port c) n p -> exists why, server_step c q oob = Drop why.
Proof. intros c q oob o s n p Hf Hc Hk Hu. exact (auth_bad_dropped c q oob s n p (server_auth_no_key c q o Hf Hc Hk) Hu). Qed.

Lemma for_service_inv : forall lp q,
  for_service lp q = true -> exists s n p, rx_l4 q = Udp s lp n p /\ (lp =? endhost_port) = false.
Proof.
  intros lp q H. unfold for_service in H. destruct (rx_l4 q) as [s d n p| |]; try discriminate.
  apply andb_true_iff in H. destruct H as [H1 H2]. apply Z.eqb_eq in H1. apply negb_true_iff in H2. subst d.
  exists s, n, p. split; [reflexivity|exact H2].
Qed.

Lemma forward_due_inv : forall c socks q i,
  forward_due (s_local_port c) (s_conn_port c) socks q = Some i ->
  exists s d n p, forward_cond c q s d n p /\ sock_index socks (h_dst_raw (rx_hdr q)) d 0 = Some i.
Proof.
  intros c socks q i H. unfold forward_due in H.
  destruct (rx_l4 q) as [s d n p| |] eqn:Hl; try discriminate.
  match type of H with (if ?b then _ else _) = _ => destruct b eqn:Hb; [|discriminate] end.
  repeat (apply andb_true_iff in Hb; let Hx := fresh "Hc" in destruct Hb as [Hb Hx]).
  exists s, d, n, p. split; [|exact H]. unfold forward_cond.
  apply negb_true_iff in Hc, Hc0. apply Z.eqb_neq in Hc, Hc0. apply Z.eqb_eq in Hc1, Hc5. apply Z.leb_le in Hc4.
  repeat split; assumption.
Qed.

(* a reply to a UDP packet comes from a listener of the service, not of the end-host port *)
Lemma reply_not_endhost : forall c q oob t s d n p,
  server_step c q oob = Send ToLastHop t -> rx_l4 q = Udp s d n p ->
  (s_local_port c =? endhost_port) = false.
Proof.
  intros c q oob t s d n p H Hl. unfold ScionGlue.server_step in H. rewrite Hl in H.
  destruct (s_local_port c =? endhost_port) eqn:He; [|reflexivity]. exfalso.
  repeat (dmh H; try discriminate).
Qed.

Variable socks : list (bytes * Z).
Variable sender : Z.
Variable k : bytes.
Variable nok : bool.

Notation obs_of c q oob := (srv_obs mac socks sender k nok (server_step c q oob)).

Lemma srv_obs_drop : forall c q oob why, server_step c q oob = Drop why -> obs_of c q oob = [].
Proof. intros c q oob why H. rewrite H. reflexivity. Qed.

Lemma recomputed_mac_carries : forall spi q o, carries spi q o -> recomputed_mac mac k q = mac k (macin_rx o q).
Proof. intros spi q o [_ [_ [Hf _]]]. unfold recomputed_mac. rewrite Hf. reflexivity. Qed.

(* clause 1: a request whose MAC does not verify is never served *)
Lemma srv_clause_bad_mac : forall c q oob,
  wf_layers q -> (s_fetcher c = true -> fetch_key (keyreq_of q) = Some k) ->
  match carries_auth spi_client q with
  | Some a => if s_fetcher c && for_service (s_local_port c) q && negb (bytes_eqb (recomputed_mac mac k q) (opt_mac a))
              then match obs_of c q oob with [] => true | _ => false end else true
  | None => true
  end = true.
Proof.
  intros c q oob Hwf Hkey.
  destruct (carries_auth spi_client q) as [a|] eqn:Hca; [|reflexivity].
  pose proof (carries_auth_carries _ _ _ Hwf Hca) as Hcar.
  destruct (s_fetcher c) eqn:Hf; [|reflexivity].
  destruct (for_service (s_local_port c) q) eqn:Hs; [|reflexivity].
  destruct (bytes_eqb (recomputed_mac mac k q) (opt_mac a)) eqn:Hm; [reflexivity|]. cbn [andb negb].
  destruct (for_service_inv _ _ Hs) as [s [n [p [Hl _]]]].
  assert (Hne : opt_mac a <> mac k (macin_rx a q)).
  { intro E. rewrite (recomputed_mac_carries _ _ _ Hcar), <- E, bytes_eqb_refl in Hm. discriminate. }
  destruct (bad_mac_dropped mac reverse fetch_key ntp_handle c q oob a k s n p Hf Hcar (Hkey eq_refl) Hne Hl) as [why Hd].
  rewrite (srv_obs_drop _ _ _ _ Hd). reflexivity.
Qed.

(* the authenticated reply, as the harness sees it, passes reply_authenticated *)
Lemma auth_reply_authenticated : forall c h pt pp s p k',
  (forall k m, zlen (mac k m) = 16) ->
  let rh := reply_hdr c h pt pp in
  let rl := reply_l4 ntp_handle c s p in
  let t := mkTx (set_next rh E2E_CLASS)
             (Some [mkOpt OPT_AUTH (meta_bytes spi_server auth_algorithm ++
                      mac k' (macin_of spi_server auth_algorithm [0;0;0;0;0;0] rh L4_UDP rl))]) rl in
  forall so, reply_authenticated (mkSobs so (deliver t nok) (recomputed_mac mac k' (deliver t nok))) = true.
Proof.
  intros c h pt pp s p k' Hlen rh rl t so.
  set (tag := mac k' (macin_of spi_server auth_algorithm [0;0;0;0;0;0] rh L4_UDP rl)) in *.
  set (o' := mkOpt OPT_AUTH (meta_bytes spi_server auth_algorithm ++ tag)) in *.
  assert (Hlo : zlen (o_data o') = auth_opt_data_len).
  { unfold o'. cbn [o_data]. unfold zlen. rewrite app_length, Nat2Z.inj_add.
    change (Z.of_nat (length tag)) with (zlen tag). unfold tag. rewrite (Hlen k' _). reflexivity. }
  unfold reply_authenticated. cbn [so_rx so_mac]. unfold carries_auth.
  change (rx_ok (deliver t nok)) with true.
  change (rx_layers (deliver t nok)) with [LT_SCION; LT_E2E; LT_UDP].
  change (existsb (fun l => l =? LT_E2E) [LT_SCION; LT_E2E; LT_UDP]) with true.
  change (rx_opts (deliver t nok)) with [o']. cbn [andb].
  change (find_opt OPT_AUTH [o']) with (Some o'). cbv beta iota.
  rewrite Hlo, Z.eqb_refl.
  change (opt_spi o' =? spi_server) with true. change (opt_algo o' =? auth_algorithm) with true. cbn [andb].
  unfold recomputed_mac. change (rx_opts (deliver t nok)) with [o'].
  change (find_opt OPT_AUTH [o']) with (Some o'). cbv beta iota.
  change (macin_rx o' (deliver t nok)) with (macin_of spi_server auth_algorithm [0;0;0;0;0;0] rh L4_UDP rl).
  fold tag. change (opt_mac o') with tag. rewrite bytes_eqb_refl. unfold tag at 1. rewrite (Hlen k' _). reflexivity.
Qed.

(* clause 2: the reply to a verified request verifies at the client *)
Lemma srv_clause_reply_auth : forall c q oob,
  (forall k m, zlen (mac k m) = 16) ->
  wf_layers q -> (s_fetcher c = true -> fetch_key (keyreq_of q) = Some k) ->
  match carries_auth spi_client q with
  | Some a => if s_fetcher c && for_service (s_local_port c) q && bytes_eqb (recomputed_mac mac k q) (opt_mac a)
              then forallb reply_authenticated (obs_of c q oob) else true
  | None => true
  end = true.
Proof.
  intros c q oob Hlen Hwf Hkey.
  destruct (carries_auth spi_client q) as [a|] eqn:Hca; [|reflexivity].
  pose proof (carries_auth_carries _ _ _ Hwf Hca) as Hcar.
  destruct (s_fetcher c) eqn:Hf; [|reflexivity].
  destruct (for_service (s_local_port c) q) eqn:Hs; [|reflexivity].
  destruct (bytes_eqb (recomputed_mac mac k q) (opt_mac a)) eqn:Hm; [|reflexivity]. cbn [andb].
  destruct (for_service_inv _ _ Hs) as [s [n [p [Hl _]]]].
  pose proof (server_auth_decided c q a k Hf Hcar (Hkey eq_refl)) as Ha.
  destruct (mac_computable (rx_hdr q) && bytes_eqb (opt_mac a) (mac k (macin_rx a q))) eqn:Hv.
  - destruct (server_step c q oob) as [why|d t] eqn:HA; [reflexivity|].
    destruct d as [|host port].
    + destruct (auth_reply_form mac reverse fetch_key ntp_handle c q oob k a s n p t Ha Hl HA) as [pt [pp [_ [_ [_ Ht]]]]].
      subst t. cbn [srv_obs forallb]. rewrite andb_true_r.
      apply (auth_reply_authenticated c (rx_hdr q) pt pp s p k Hlen).
    + exfalso. apply (forward_iff mac reverse fetch_key ntp_handle) in HA.
      destruct HA as [s0 [n0 [p0 [[_ [_ [_ [Hl' [_ [_ [_ [Hne _]]]]]]]] _]]]].
      rewrite Hl in Hl'. inversion Hl'. congruence.
  - destruct (auth_bad_dropped c q oob s n p Ha Hl) as [why Hd].
    rewrite (srv_obs_drop _ _ _ _ Hd). reflexivity.
Qed.

(* clause 3a: one listener step sends at most one datagram *)
Lemma srv_clause_at_most_one : forall c q oob, (zlen (obs_of c q oob) <=? 1) = true.
Proof.
  intros c q oob. destruct (server_step c q oob) as [why|d t]; [reflexivity|].
  destruct d as [|host port]; [reflexivity|]. cbn [srv_obs].
  destruct (sock_index socks host port 0); reflexivity.
Qed.

Lemma scmp_reply_type_inv : forall ty rt, scmp_reply_type ty = Some rt ->
  ((ty =? SCMP_ECHO_REQUEST) && (rt =? SCMP_ECHO_REPLY)) || ((ty =? SCMP_TRACEROUTE_REQUEST) && (rt =? SCMP_TRACEROUTE_REPLY)) = true.
Proof.
  intros ty rt H. unfold scmp_reply_type in H.
  destruct (ty =? SCMP_ECHO_REQUEST); [inversion H; reflexivity|].
  destruct (ty =? SCMP_TRACEROUTE_REQUEST); [inversion H; reflexivity|discriminate].
Qed.

(* clause 3b: what is sent is a correctly addressed reply or an admissible forward *)
Lemma srv_clause_addressing : forall c q oob,
  forallb (fun o => if for_service (s_local_port c) q || match rx_l4 q with Scmp _ _ _ => true | _ => false end
                    then reply_ok sender q (reverse (h_path_type (rx_hdr q), h_path (rx_hdr q))) o
                    else forward_ok (s_local_port c) (s_conn_port c) socks q o) (obs_of c q oob) = true.
Proof.
  intros c q oob. destruct (server_step c q oob) as [why|d t] eqn:HA; [reflexivity|].
  destruct d as [|host port].
  - cbn [srv_obs forallb]. rewrite andb_true_r.
    destruct (reply_addressing mac reverse fetch_key ntp_handle c q oob t HA) as [Hsw [Hrev Hl4]].
    destruct Hsw as [S1 [S2 [S3 [S4 [S5 [S6 _]]]]]].
    assert (Hc : for_service (s_local_port c) q || match rx_l4 q with Scmp _ _ _ => true | _ => false end = true).
    { destruct Hl4 as [[s [d [n [p [Hl [Hd _]]]]]]|[ty [code [p [rt [Hl _]]]]]].
      - pose proof (reply_not_endhost c q oob t s d n p HA Hl) as He.
        unfold for_service. rewrite Hl, Hd, Z.eqb_refl, He. reflexivity.
      - rewrite Hl. apply orb_true_r. }
    rewrite Hc. unfold reply_ok. cbn [so_sock so_rx].
    change (rx_hdr (deliver t nok)) with (tx_hdr t).
    change (rx_ok (deliver t nok)) with true.
    change (rx_l4 (deliver t nok)) with (tx_l4 t).
    rewrite S1, S2, S3, S4, S5, S6, Hrev. cbn [opt_pair_eqb].
    rewrite !Z.eqb_refl, !bytes_eqb_refl. cbn [andb].
    destruct Hl4 as [[s [d [n [p [Hl [Hd Ht]]]]]]|[ty [code [p [rt [Hl [Hrt [Ht _]]]]]]]]; rewrite Hl, Ht.
    + rewrite !Z.eqb_refl. reflexivity.
    + rewrite (scmp_reply_type_inv _ _ Hrt), Z.eqb_refl, bytes_eqb_refl. reflexivity.
  - apply (forward_iff mac reverse fetch_key ntp_handle) in HA.
    destruct HA as [s [n [p [[_ [_ [_ [Hl [_ [_ [_ [Hn1 [Hcp Hn2]]]]]]]]] [Hh Ht]]]]]. subst host t.
    cbn [srv_obs]. destruct (sock_index socks (h_dst_raw (rx_hdr q)) port 0) as [i|] eqn:Hsi; [|reflexivity].
    cbn [forallb]. rewrite andb_true_r.
    apply Z.eqb_neq in Hn1, Hn2.
    unfold for_service. rewrite Hl, Hn1. cbn [andb orb].
    unfold forward_ok. cbn [so_sock so_rx].
    change (rx_l4 (deliver (forward_tx q oob) nok)) with (rx_l4 q). rewrite Hl, Hsi.
    change (rx_ok (deliver (forward_tx q oob) nok)) with true.
    rewrite Hcp, Hn1, Hn2. cbn [rx_hdr deliver forward_tx tx_hdr set_next h_dst_ia h_src_ia h_dst_type h_src_type h_dst_raw h_src_raw h_path_type h_path].
    rewrite !Z.eqb_refl, !bytes_eqb_refl. reflexivity.
Qed.

Lemma opts_same_refl : forall a, opts_same a a = true.
Proof. induction a as [|x a IH]; simpl; [reflexivity|rewrite Z.eqb_refl, bytes_eqb_refl, IH; reflexivity]. Qed.

Lemma strip_ts_app_ts : forall os oob, strip_ts (os ++ [mkOpt OPT_TIMESTAMP oob]) = strip_ts os.
Proof. intros. unfold strip_ts. rewrite filter_app. simpl. apply app_nil_r. Qed.

(* a reply answers a request for the service or an SCMP request *)
Lemma reply_is_service_or_scmp : forall c q oob t,
  server_step c q oob = Send ToLastHop t ->
  for_service (s_local_port c) q || match rx_l4 q with Scmp _ _ _ => true | _ => false end = true.
Proof.
  intros c q oob t HA.
  destruct (reply_addressing mac reverse fetch_key ntp_handle c q oob t HA) as [_ [_ Hl4]].
  destruct Hl4 as [[s [d [n [p [Hl [Hd _]]]]]]|[ty [code [p [rt [Hl _]]]]]].
  - pose proof (reply_not_endhost c q oob t s d n p HA Hl) as He.
    unfold for_service. rewrite Hl, Hd, Z.eqb_refl, He. reflexivity.
  - rewrite Hl. apply orb_true_r.
Qed.

(* the extension headers of a forwarded packet, as the harness sockets see them *)
Lemma srv_clause_fwdext : forall c q oob,
  C13_srv_fwdext_ok (s_local_port c) q (obs_of c q oob) = true.
Proof.
  intros c q oob. unfold C13_srv_fwdext_ok.
  destruct (server_step c q oob) as [why|d t] eqn:HA.
  - destruct (_ || _); reflexivity.
  - destruct d as [|host port].
    + rewrite (reply_is_service_or_scmp c q oob t HA). reflexivity.
    + apply (forward_iff mac reverse fetch_key ntp_handle) in HA.
      destruct HA as [s [n [p [[_ [_ [_ [Hl [_ [_ [_ [Hn1 _]]]]]]]] [Hh Ht]]]]]. subst host t.
      apply Z.eqb_neq in Hn1. unfold for_service. rewrite Hl, Hn1. cbn [andb orb].
      cbn [srv_obs]. destruct (sock_index socks (h_dst_raw (rx_hdr q)) port 0); [|reflexivity].
      cbn [forallb so_rx]. rewrite andb_true_r.
      change (rx_ok (deliver (forward_tx q oob) nok)) with true.
      change (h_tc (rx_hdr (deliver (forward_tx q oob) nok))) with (h_tc (rx_hdr q)).
      change (h_flow (rx_hdr (deliver (forward_tx q oob) nok))) with (h_flow (rx_hdr q)).
      rewrite !Z.eqb_refl. cbn [andb].
      unfold deliver, forward_tx. cbn [rx_opts tx_e2e].
      destruct (h_next (rx_hdr q) =? E2E_CLASS) eqn:He.
      * rewrite orb_true_r. change (E2E_CLASS =? E2E_CLASS) with true. cbv beta iota.
        destruct (zlen oob =? 0); cbn [negb].
        -- rewrite app_nil_r. apply opts_same_refl.
        -- rewrite strip_ts_app_ts. apply opts_same_refl.
      * destruct (zlen oob =? 0); cbn [negb orb].
        -- change (L4_UDP =? E2E_CLASS) with false. reflexivity.
        -- change (E2E_CLASS =? E2E_CLASS) with true. reflexivity.
Qed.

(* clause 4: a packet due for forwarding to a visible socket is forwarded *)
Lemma srv_clause_forward_due : forall c q oob,
  match forward_due (s_local_port c) (s_conn_port c) socks q with
  | Some i => existsb (fun o => so_sock o =? i) (obs_of c q oob)
  | None => true
  end = true.
Proof.
  intros c q oob. destruct (forward_due (s_local_port c) (s_conn_port c) socks q) as [i|] eqn:Hfd; [|reflexivity].
  destruct (forward_due_inv c socks q i Hfd) as [s [d [n [p [Hfc Hsi]]]]].
  assert (HA : server_step c q oob = Send (ToHostPort (h_dst_raw (rx_hdr q)) d) (forward_tx q oob)).
  { apply (forward_iff mac reverse fetch_key ntp_handle). exists s, n, p. auto. }
  rewrite HA. cbn [srv_obs]. rewrite Hsi. cbn [existsb so_sock]. rewrite Z.eqb_refl. reflexivity.
Qed.

Lemma srv_oracle_on_model : forall c q oob,
  (forall k m, zlen (mac k m) = 16) ->
  wf_layers q ->
  (s_fetcher c = true -> fetch_key (keyreq_of q) = Some k) ->
  C13_srv_ok (s_local_port c) (s_conn_port c) (s_fetcher c) socks sender q
    (recomputed_mac mac k q) (reverse (h_path_type (rx_hdr q), h_path (rx_hdr q)))
    (obs_of c q oob) = true.
Proof.
  intros c q oob Hlen Hwf Hkey. unfold C13_srv_ok. cbv zeta.
  rewrite (srv_clause_bad_mac c q oob Hwf Hkey), (srv_clause_reply_auth c q oob Hlen Hwf Hkey),
          (srv_clause_at_most_one c q oob), (srv_clause_addressing c q oob), (srv_clause_forward_due c q oob).
  reflexivity.
Qed.

(* which key is "the host-to-host key": the listener asks for exactly one key, the
   one of keyreq_of q (server = the packet's destination ISD-AS and host, client =
   its source ISD-AS and host); nothing else of the key source matters *)
Lemma server_step_key_ext : forall fk1 fk2 c q oob,
  fk1 (keyreq_of q) = fk2 (keyreq_of q) ->
  ScionGlue.server_step mac reverse fk1 ntp_handle c q oob = ScionGlue.server_step mac reverse fk2 ntp_handle c q oob.
Proof.
  intros fk1 fk2 c q oob H.
  assert (Ha : ScionGlue.server_auth mac fk1 c q = ScionGlue.server_auth mac fk2 c q).
  { unfold ScionGlue.server_auth. unfold keyreq_of in H. rewrite H. reflexivity. }
  unfold ScionGlue.server_step. rewrite Ha. reflexivity.
Qed.

(* ---- the listener without a key (daemon error / malformed key): the oracle of
        that situation holds for the model ---- *)
Lemma server_auth_nokey : forall c q k0 o, fetch_key (keyreq_of q) = None -> server_auth c q <> AuthOk k0 o.
Proof.
  intros c q k0 o Hk H. destruct (server_auth_ok_inv mac reverse fetch_key ntp_handle c q k0 o H) as [_ [_ [H' _]]]. congruence.
Qed.

Lemma unauth_reply_plain : forall c q oob t s d n p,
  (forall k0 o, server_auth c q <> AuthOk k0 o) -> rx_l4 q = Udp s d n p ->
  server_step c q oob = Send ToLastHop t -> tx_e2e t = None.
Proof.
  intros c q oob t s d n p Ha Hl H. unfold ScionGlue.server_step in H. rewrite Hl in H.
  destruct (server_auth c q) as [|k0 o0|] eqn:E; [| exfalso; exact (Ha k0 o0 eq_refl) |];
  repeat (dmh H; try discriminate); inversion H; reflexivity.
Qed.

Lemma plain_no_srv_auth : forall t so m, tx_e2e t = None ->
  no_srv_auth [mkSobs so (deliver t nok) m] = true.
Proof.
  intros t so m He. unfold no_srv_auth, carries_auth. cbn [forallb so_rx].
  assert (Hl : existsb (fun l => l =? LT_E2E) (rx_layers (deliver t nok)) = false).
  { unfold deliver. cbn [rx_layers]. rewrite He. destruct (tx_l4 t); reflexivity. }
  rewrite Hl, andb_false_r. reflexivity.
Qed.

Lemma claims_auth_claims : forall spi q o, wf_layers q -> claims_auth spi q = Some o -> claims spi q o.
Proof.
  intros spi q o Hwf H. unfold claims_auth in H.
  destruct (rx_ok q); [|discriminate]. simpl in H.
  destruct (existsb _ (rx_layers q)) eqn:He; [|discriminate].
  destruct (find_opt OPT_AUTH (rx_opts q)) as [o'|] eqn:Hf; [|discriminate].
  destruct (opt_spi o' =? spi) eqn:H2; [|discriminate]. simpl in H.
  destruct (opt_algo o' =? auth_algorithm) eqn:H3; [|discriminate].
  inversion H; subst. destruct (Hwf He) as [Ha Hb]. apply Z.eqb_eq in H2, H3. unfold claims. tauto.
Qed.

Lemma srv_maclen_oracle_on_model : forall c q oob,
  wf_layers q -> C13_srv_maclen_ok (s_fetcher c) (s_local_port c) q (obs_of c q oob) = true.
Proof.
  intros c q oob Hwf. unfold C13_srv_maclen_ok.
  destruct (claims_auth spi_client q) as [o|] eqn:Hc; [|reflexivity].
  destruct (s_fetcher c) eqn:Hf; [|reflexivity].
  destruct (for_service (s_local_port c) q) eqn:Hs; [|reflexivity].
  destruct (zlen (o_data o) =? auth_opt_data_len) eqn:Hl; [reflexivity|]. cbn [andb negb].
  destruct (for_service_inv _ _ Hs) as [s [n [p [Hu _]]]]. apply Z.eqb_neq in Hl.
  destruct (wrong_length_dropped c q oob o s n p Hf (claims_auth_claims _ _ _ Hwf Hc) Hl Hu) as [why Hd].
  rewrite (srv_obs_drop _ _ _ _ Hd). reflexivity.
Qed.

Lemma srv_nokey_oracle_on_model : forall c q oob,
  s_fetcher c = true -> wf_layers q ->
  fetch_key (keyreq_of q) = None ->
  C13_srv_nokey_ok (s_local_port c) (s_conn_port c) socks sender q
    (reverse (h_path_type (rx_hdr q), h_path (rx_hdr q))) (obs_of c q oob) = true.
Proof.
  intros c q oob Hfe Hwf Hk. unfold C13_srv_nokey_ok.
  assert (Hlast : match carries_auth spi_client q with
                  | Some _ => if for_service (s_local_port c) q then match obs_of c q oob with [] => true | _ => false end else true
                  | None => true end = true).
  { destruct (carries_auth spi_client q) as [a|] eqn:Hca; [|reflexivity].
    destruct (for_service (s_local_port c) q) eqn:Hs; [|reflexivity].
    destruct (for_service_inv _ _ Hs) as [s [n [p [Hu _]]]].
    destruct (no_key_dropped c q oob a s n p Hfe (carries_auth_carries _ _ _ Hwf Hca) Hk Hu) as [why Hd].
    rewrite (srv_obs_drop _ _ _ _ Hd). reflexivity. }
  rewrite Hlast, andb_true_r. unfold C13_srv_ok. cbv zeta.
  rewrite (srv_clause_at_most_one c q oob), (srv_clause_addressing c q oob), (srv_clause_forward_due c q oob).
  destruct (carries_auth spi_client q) as [a|]; cbn [andb];
  (destruct (for_service (s_local_port c) q) eqn:Hs; [|reflexivity]);
  destruct (for_service_inv _ _ Hs) as [s [n [p [Hl _]]]];
  (destruct (server_step c q oob) as [why|d t] eqn:HA; [reflexivity|]);
  (destruct d as [|host port];
   [cbn [srv_obs]; apply plain_no_srv_auth;
    exact (unauth_reply_plain c q oob t s _ n p (fun k0 o0 => server_auth_nokey c q k0 o0 Hk) Hl HA)
   |exfalso; apply (forward_iff mac reverse fetch_key ntp_handle) in HA;
    destruct HA as [s0 [n0 [p0 [[_ [_ [_ [Hl' [_ [_ [_ [Hne _]]]]]]]] _]]]];
    rewrite Hl in Hl'; inversion Hl'; congruence]).
Qed.

End SrvOracle.
