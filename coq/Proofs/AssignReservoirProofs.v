(* Link between the assignment of a round (Model/PathAssign.v: assign) and the
   reservoir over candidate indices (Proofs/ReservoirProofs.v: run):

   the paths handed to the clients that did not keep a path are, in slot
   order, ps1[r_0], ps1[r_1], ... where ps1 is what the sticky loop left of the
   offered paths and r = run k (seq 0 k) k js is the reservoir after the draws
   js of this round (k = min(free clients, |ps1|), one draw j_i in [0, i] for
   i = k .. |ps1|-1).  So the uniformity statements about `run`
   (C15_reservoir_uniform, C15_reservoir_words_bound) are statements about the
   assignment.

   Also: the 64-bit branch of RandIntn (randInt63) is not used by a round with
   at most MaxInt32 offered paths. *)
From ST Require Import Base.Ints Base.Sorting Model.NtpTime Model.Ftm Model.Sample Model.PathAssign
  Proofs.SampleProofs Proofs.PathAssignProofs Proofs.ReservoirProofs.
From Coq Require Import Arith Lia List.
Import ListNotations.
Open Scope Z_scope.

(* ---- the draws of Sample ---- *)
Lemma sample_draws kz n c d tape k' picks rest :
  n <= max_i64 -> words tape -> word d ->
  sample kz n c d tape = Ok (k', picks, rest) ->
  k' = Z.min kz n /\ 0 <= kz /\ 0 <= n /\
  exists js, length js = Z.to_nat (n - k') /\ draws_ok k' js /\ picks = init_picks k' ++ draws_picks k' k' js.
Proof.
  intros Hmax Hw Hd Hs. destruct (sample_count _ _ _ _ _ _ _ _ Hs) as [Hk' [Hkz Hn]].
  repeat split; auto. unfold sample in Hs.
  destruct (Z.ltb_spec kz 0); [discriminate|]. destruct (Z.ltb_spec n 0); [discriminate|].
  set (kk := if n <? kz then n else kz) in *.
  assert (Hkk : kk = Z.min kz n) by (unfold kk; destruct (Z.ltb_spec n kz); lia).
  destruct (sample_loop (Z.to_nat (n - kk)) kk kk c d tape) as [[ps tape']| | |] eqn:El; try discriminate.
  inversion Hs; subst k' picks rest.
  assert (Hk0 : 0 <= kk) by lia.
  assert (Hk1 : kk + Z.of_nat (Z.to_nat (n - kk)) <= max_i64) by lia.
  destruct (sample_loop_draws _ _ _ _ _ _ _ _ Hk0 Hk1 Hw Hd El) as [js [Hl [Hok Hps]]].
  exists js. repeat split; [exact Hl|exact Hok|rewrite Hps; reflexivity].
Qed.

(* ---- carrying out the picks on the array = the reservoir over indices ---- *)
Lemma map_set_nth {A B} (f : A -> B) j x l : map f (set_nth j x l) = set_nth j (f x) (map f l).
Proof. revert j. induction l as [|y r IH]; intros [|j]; cbn; try reflexivity. rewrite IH. reflexivity. Qed.

Section OnArray.
  Variable arr : list nat.
  Variable k : nat.
  Let at_ (t : nat) : nat := nth t arr O.

  Lemma picks_run js : forall i a res,
    draws_ok (Z.of_nat i) js -> (k <= i)%nat -> (i + length js <= length arr)%nat ->
    length a = length arr -> (forall t, (k <= t)%nat -> nth t a O = nth t arr O) ->
    firstn k a = map at_ res ->
    firstn k (fold_left apply_pick (draws_picks (Z.of_nat k) (Z.of_nat i) js) a)
    = map at_ (run k res i (map Z.to_nat js)).
  Proof.
    induction js as [|j r IH]; intros i a res Hok Hki Hlen Hla Hhi Hlo; cbn [draws_picks fold_left map run]; [exact Hlo|].
    destruct Hok as [Hj Hr]. cbn [length] in Hlen. rewrite fold_left_app.
    replace (Z.of_nat i + 1) with (Z.of_nat (S i)) in * by lia.
    unfold rstep. destruct (Z.ltb_spec j (Z.of_nat k)) as [Hjk|Hjk]; destruct (Nat.ltb_spec (Z.to_nat j) k); try lia.
    - cbn [fold_left]. unfold apply_pick. cbn [fst snd]. rewrite Nat2Z.id.
      apply IH; [exact Hr|lia|lia| | |].
      + rewrite set_nth_length. exact Hla.
      + intros t Ht. rewrite nth_set_nth_neq by lia. apply Hhi. exact Ht.
      + rewrite firstn_set_nth by lia. rewrite Hlo, map_set_nth. unfold at_ at 2. rewrite (Hhi i) by lia. reflexivity.
    - cbn [fold_left]. apply IH; auto; lia.
  Qed.
End OnArray.

Lemma firstn_map_nth (arr : list nat) : forall k, (k <= length arr)%nat ->
  firstn k arr = map (fun t => nth t arr O) (seq 0 k).
Proof.
  induction arr as [|x r IH]; intros [|k] Hle; cbn [length] in Hle; try lia; try reflexivity.
  cbn [firstn seq map nth]. f_equal. rewrite <- seq_shift, map_map. cbn [nth]. apply IH. lia.
Qed.

(* the first k' cells after Sample's picks: the reservoir over the indices, read in the original array *)
Theorem sample_is_reservoir kz arr c d tape k' picks rest :
  Z.of_nat (length arr) <= max_i64 -> words tape -> word d ->
  sample kz (Z.of_nat (length arr)) c d tape = Ok (k', picks, rest) ->
  exists js, let k := Z.to_nat k' in
    length js = (length arr - k)%nat /\ draws_ok k' js /\ picks = init_picks k' ++ draws_picks k' k' js
    /\ k = Nat.min (Z.to_nat kz) (length arr)
    /\ firstn k (fold_left apply_pick picks arr)
       = map (fun t => nth t arr O) (run k (seq 0 k) k (map Z.to_nat js)).
Proof.
  intros Hmax Hw Hd Hs.
  destruct (sample_draws _ _ _ _ _ _ _ _ Hmax Hw Hd Hs) as [Hk' [Hkz [_ [js [Hl [Hok Hps]]]]]].
  exists js. cbv zeta. set (k := Z.to_nat k').
  assert (Hk2 : Z.of_nat k = k') by (unfold k; lia).
  repeat split; [lia|exact Hok|exact Hps|lia|].
  rewrite Hps, fold_left_app, init_picks_id. rewrite <- Hk2.
  apply picks_run; [rewrite Hk2; exact Hok|lia|lia|reflexivity|reflexivity|].
  apply firstn_map_nth. lia.
Qed.

(* the assignment of a round: kept paths stay, the free clients get the reservoir output over what is left *)
Theorem assign_is_reservoir fps cs c d tape asg resets rest :
  Z.of_nat (length fps) <= max_i64 -> words tape -> word d ->
  assign fps cs c d tape = AOk asg resets rest ->
  exists js,
    let sps := fst (sticky fps cs (seq 0 (length fps))) in
    let ps1 := snd (sticky fps cs (seq 0 (length fps))) in
    let k := Nat.min (length sps - count_some sps) (length ps1) in
    length js = (length ps1 - k)%nat /\ draws_ok (Z.of_nat k) js
    /\ asg = fill sps (map (fun t => nth t ps1 O) (run k (seq 0 k) k (map Z.to_nat js))).
Proof.
  intros Hmax Hw Hd Ha. unfold assign in Ha.
  destruct (sticky fps cs (seq 0 (length fps))) as [sps ps1] eqn:Es. cbn [fst snd].
  destruct (sample _ _ c d tape) as [[[n picks] rest2]| | |] eqn:Esm; try discriminate.
  destruct (_ =? 0); [discriminate|]. inversion Ha; subst asg resets rest. clear Ha.
  assert (Hlen : (length ps1 <= length fps)%nat).
  { pose proof (sticky_perm fps cs (seq 0 (length fps)) sps ps1 Es) as Hp.
    apply Permutation.Permutation_length in Hp. rewrite app_length, seq_length in Hp. lia. }
  assert (Hmax1 : Z.of_nat (length ps1) <= max_i64) by lia.
  destruct (sample_is_reservoir _ _ _ _ _ _ _ _ Hmax1 Hw Hd Esm) as [js [Hl [Hok [_ [Hk Hf]]]]].
  exists js. cbv zeta in *.
  assert (Hcs : (count_some sps <= length sps)%nat) by (unfold count_some; clear; induction sps as [|x r IH]; cbn; [lia|destruct (is_some x); cbn; lia]).
  assert (Hk' : Z.to_nat n = Nat.min (length sps - count_some sps) (length ps1)) by (rewrite Hk; lia).
  rewrite <- Hk'. repeat split; [exact Hl| |rewrite Hf; reflexivity].
  destruct (sample_count _ _ _ _ _ _ _ _ Esm) as [Hn _]. replace (Z.of_nat (Z.to_nat n)) with n by lia. exact Hok.
Qed.

(* ---- the 64-bit branch ---- *)
Lemma rand_intn_branch31 n c d tape : n <= max_i32 -> rand_intn n c d tape = (if n <=? 0 then Panic else rand_int31 n c d tape).
Proof. intros H. unfold rand_intn. destruct (n <=? 0); [reflexivity|]. destruct (Z.leb_spec n max_i32); [reflexivity|lia]. Qed.

(* the loop of Sample with randInt31 in place of RandIntn *)
Fixpoint sample_loop31 (fuel : nat) (k i : Z) (c : bool) (d : Z) (tape : list Z) : outcome (list (Z * Z) * list Z) :=
  match fuel with
  | O => Ok ([], tape)
  | S f =>
      match rand_int31 (i + 1) c d tape with
      | Ok (j, tape1) =>
          match sample_loop31 f k (i + 1) c d tape1 with
          | Ok (ps, tape2) => Ok ((if j <? k then [(j, i)] else []) ++ ps, tape2)
          | Err => Err | Panic => Panic | Hang => Hang
          end
      | Err => Err | Panic => Panic | Hang => Hang
      end
  end.

Theorem sample_loop_branch31 fuel : forall k i c d tape,
  0 <= i -> i + Z.of_nat fuel <= max_i32 -> sample_loop fuel k i c d tape = sample_loop31 fuel k i c d tape.
Proof.
  induction fuel as [|f IH]; intros k i c d tape Hi Hm; cbn [sample_loop sample_loop31]; [reflexivity|].
  rewrite rand_intn_branch31 by lia. destruct (Z.leb_spec (i + 1) 0); [lia|].
  destruct (rand_int31 (i + 1) c d tape) as [[j t1]| | |]; try reflexivity.
  rewrite IH by lia. reflexivity.
Qed.
