(* C11: the key provider of the concrete system (Model/CookieSystem.v) instantiated with
   the model of net/ntske/provider.go that C12 verifies (Model/Provider.v); the four
   facts the refinement needs are consequences of C12's invariant. *)
From ST Require Import Base.Ints Model.CookieSystem Model.Provider Proofs.ProviderProofs.
From Coq Require Import ZArith List Bool Lia.
Import ListNotations.
Open Scope Z_scope.

Definition tokey (k : Provider.key) : skey := {| sk_id := k_id k; sk_val := k_val k |}.

(* Current() and Get(id), each reading the clock once at time t *)
Definition c12_current (p : Provider.state) (t : Z) : option (skey * Provider.state) :=
  match current p t t with
  | Some (k, p') => Some (tokey k, p')
  | None => None
  end.
Definition c12_get (p : Provider.state) (id t : Z) : option skey :=
  match get p id t with Some k => Some (tokey k) | None => None end.
Definition c12_log (p : Provider.state) : list skey := map tokey (glog p).
Definition c12_inv (T : Z) (p : Provider.state) : Prop := exists t0, Inv t0 T p.

Lemma tokey_inj_log l x y : log_ok l -> In x l -> In y l -> k_id x = k_id y -> x = y.
Proof. apply log_unique. Qed.

Lemma c12_cur : forall T p t k p', c12_inv T p -> T <= t -> c12_current p t = Some (k, p') ->
  c12_inv t p' /\ In k (c12_log p') /\ incl (c12_log p) (c12_log p') /\ c12_get p' (sk_id k) t = Some k.
Proof.
  intros T p t k p' [t0 HI] HT H. unfold c12_current in H.
  destruct (current p t t) as [[k0 p0]|] eqn:E; [|discriminate]. injection H as <- <-.
  destruct (current_step t0 T p t t k0 p0 HI HT (Z.le_refl _) E) as [HI' [Hk [Hv [_ [_ [Hincl _]]]]]].
  assert (Ht : cur_time p t t = t) by (unfold cur_time; destruct (need_renew p t); reflexivity).
  rewrite Ht in *.
  assert (Hin : In k0 (glog p0)).
  { destruct (inv_head _ _ _ HI') as [r Hr]. rewrite Hr, Hk. left. reflexivity. }
  split; [exists t0; exact HI'|]. split; [apply in_map; exact Hin|].
  split; [intros x Hx; apply in_map_iff in Hx as [y [<- Hy]]; apply in_map, Hincl, Hy|].
  unfold c12_get. cbn [tokey sk_id]. rewrite (get_live t0 t p0 t k0 HI' (Z.le_refl _) Hin Hv). reflexivity.
Qed.

Lemma c12_get_spec : forall T p id t k, c12_inv T p -> c12_get p id t = Some k -> sk_id k = id /\ In k (c12_log p).
Proof.
  intros T p id t k [t0 HI] H. unfold c12_get in H. destruct (get p id t) as [k0|] eqn:E; [|discriminate].
  injection H as <-. destruct (get_spec t0 T p id t k0 HI E) as [Hid [Hin _]].
  split; [exact Hid|apply in_map; exact Hin].
Qed.

Lemma c12_uniq : forall T p x y, c12_inv T p -> In x (c12_log p) -> In y (c12_log p) -> sk_id x = sk_id y -> x = y.
Proof.
  intros T p x y [t0 HI] Hx Hy Hid. apply in_map_iff in Hx as [a [<- Ha]]. apply in_map_iff in Hy as [b [<- Hb]].
  cbn in Hid. rewrite (log_unique (glog p) a b (inv_log _ _ _ HI) Ha Hb Hid). reflexivity.
Qed.

Lemma c12_weak : forall T T' p, c12_inv T p -> T <= T' -> c12_inv T' p.
Proof. intros T T' p [t0 HI] H. exists t0. exact (inv_weaken t0 T T' p HI H). Qed.

(* NewProvider() *)
Lemma c12_new : forall t0 p, new_provider t0 = Some p -> c12_inv t0 p.
Proof. intros t0 p H. exists t0. exact (new_inv t0 p H). Qed.
